#!/usr/bin/env python3
"""print the as-built status table (DESIGN.md 9.3) from evidence/*.json and seeded/*/meta.json"""
import json, glob, collections
seeds = collections.defaultdict(lambda: [0, 0])
for m in glob.glob('/verif/seeded/*/meta.json'):
    d = json.load(open(m)); st = (d.get('detected_by') or {}).get('status')
    seeds[d['property']][1] += 1
    seeds[d['property']][0] += st == 'detected'
print('| property | theorems checked | correspondence evaluations (quick) | distinct non-trivial | quick wall s | seeded changes caught |')
print('|---|---|---|---|---|---|')
for f in sorted(glob.glob('/verif/evidence/C*.json')):
    e = json.load(open(f)); c = e['coverage']; p = e['property_id']
    print('| %s | %d/%d | %d | %d | %s | %d/%d |' % (p, c['discharged'], c['obligations'], c['evaluations'], c['distinct_nontrivial'],
                                                   e.get('wall_s'), seeds[p][0], seeds[p][1]))
