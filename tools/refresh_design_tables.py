#!/usr/bin/env python3
"""re-generate the two tables of DESIGN.md 9.3 / 9.4 between their BEGIN/END markers"""
import re, subprocess
p = '/verif/DESIGN.md'; s = open(p).read()
for tag, tool in (('STATUS_TABLE', 'status_table.py'), ('SEED_TABLE', 'seed_table.py'), ('HARMLESS_TABLE', 'harmless_table.py')):
    t = subprocess.check_output(['python3', '/verif/tools/' + tool]).decode()
    s = re.sub(r'(<!-- %s_BEGIN[^>]*-->\n).*?(<!-- %s_END -->)' % (tag, tag), lambda m: m.group(1) + t + m.group(2), s, flags=re.S)
open(p, 'w').write(s)
