#!/usr/bin/env python3
"""Assemble MANIFEST.json from harness/meta/Cxx.json (one file per claimed property)."""
import json
from pathlib import Path
V = Path(__file__).resolve().parent.parent
props = [json.loads(l) for l in (V / 'properties.jsonl').read_text().splitlines() if l.strip()]
checks, na = [], []
READY = set((V / 'tools' / 'ready.txt').read_text().split())   # properties whose check I have validated on several seeds
for p in props:
    pid = p['id']
    mf = V / 'harness' / 'meta' / (pid + '.json')
    if mf.exists() and pid in READY:
        m = json.loads(mf.read_text())
        if m.get('not_applicable'):
            na.append({'property_id': pid, 'reason': m['not_applicable']})
            continue
        checks.append({
            'property_id': pid,
            'quick_cmd': './check %s quick' % pid,
            'thorough_cmd': './check %s thorough' % pid,
            'evidence_file': 'evidence/%s.json' % pid,
            'replay_cmd_template': './check %s --replay {path}' % pid,
            'engine': 'lean4-proof+correspondence',
            'level_claimed': {'category': 'proof', 'text': m['level_text'], 'design_ref': m.get('design_ref', 'DESIGN.md 6.%d' % int(pid[1:]))},
            'level_note': m['level_note'],
            'technique': m.get('technique', 'Lean 4 theorems about an executable model + differential correspondence check against the implementation'),
        })
    else:
        na.append({'property_id': pid, 'reason': 'check not built yet in this round (no technique switch); see DESIGN.md section 6.%d for the planned Lean model' % int(pid[1:])})
man = {
    'version': 1,
    'setup_cmd': './setup.sh',
    'hooks': {'guard': 'NOTE_SEQ_VERIF', 'enable': 'no hooks: the harness calls public functions of /repo in-process (editable install); nothing to enable',
              'baseline_off_cmd': 'cd /repo && /venv/bin/python -m pytest -q -p no:cacheprovider --timeout=900 --continue-on-collection-errors',
              'source_commits': [], 'add_only': True},
    'engines': [{'name': 'lean4-proof+correspondence', 'path': 'lean/ + harness/',
                 'serves_properties': [c['property_id'] for c in checks],
                 'kind_free_text': 'Lean 4.33 theorems (lake build + #print axioms audit) about executable models; models tied to /repo by generated tables/transliterated functions and by a differential line-protocol check against compiled Lean drivers'}],
    'checks': checks,
    'notes': 'See DESIGN.md. Exit 2 from a check = machinery error (never a violation). known_findings.json lists genuine defects (fixed / open).',
    'not_applicable': na,
}
(V / 'MANIFEST.json').write_text(json.dumps(man, indent=1) + '\n')
print('claimed:', [c['property_id'] for c in checks]); print('not claimed:', [n['property_id'] for n in na])
