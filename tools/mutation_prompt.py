#!/usr/bin/env python3
"""print the prompt for an independent mutation agent for property <ID> (property text only)."""
import json, sys
pid = sys.argv[1]; wt = sys.argv[2]; n = sys.argv[3] if len(sys.argv) > 3 else '2'
import glob, os
avoid = []
for m in sorted(glob.glob('/verif/seeded/%s-*/meta.json' % pid)):
    b = json.load(open(m)).get('breaks', '')
    if b and not b.startswith('see demo'):
        avoid.append(b.split(' (demo.py')[0])
    else:
        d = open(os.path.dirname(m) + '/patch.diff').read().splitlines()
        fn = [l[6:] for l in d if l.startswith('+++ b/')]
        ch = [l.strip() for l in d if (l.startswith('-') or l.startswith('+')) and not l.startswith(('---', '+++'))][:4]
        avoid.append('%s: %s' % (', '.join(fn), ' | '.join(c[:90] for c in ch)))
AVOID = ('\nChanges of the following kinds have already been made by others; produce DIFFERENT ones (other functions, other mechanisms):\n'
         + ''.join('  - %s\n' % a for a in avoid)) if avoid else ''
K0 = len(glob.glob('/verif/seeded/%s-*' % pid))
p = [json.loads(l) for l in open('/verif/properties.jsonl') if l.strip()]
p = [x for x in p if x['id'] == pid][0]
print(f"""You are testing how well a hidden verification suite detects regressions in the Python library magenta/note-seq. You work ONLY inside your own scratch git worktree of the repository at {wt} (already created; it is a detached checkout of the current code). Do NOT read or write anything under /verif, and do NOT modify /repo itself. Run Python as `cd {wt} && PYTHONPATH={wt} /venv/bin/python …` so that `import note_seq` picks up YOUR worktree (check once with `print(note_seq.__file__)`).

Here is a semantic property the library is supposed to satisfy:

  Title: {p['title']}
  Statement: {p['statement']}
  Quantifier: {p['quantifier']['text']}
  Code it is anchored in: {', '.join(p['anchors']['files'])}

NEVER use `git stash` (the stash is shared between all worktrees of the repository and other people are working in sibling worktrees); to switch between clean and changed code use `git -C {wt} apply <patch>` / `git -C {wt} apply -R <patch>` / `git -C {wt} checkout -- .` only.
{AVOID}
Since many rounds of such changes have already been made, aim for the kinds that are easy to overlook and that need something SPECIFIC to manifest: a multi-step sequence of operations (the second or third call, an operation applied to the RESULT of another, an object reused after it was passed somewhere); a fault at a particular point (an exception raised half-way that leaves an argument or an object partly modified, an error path that now returns instead of raising or raises another class); two cooperating sites that each look fine alone (a producer and a consumer changed consistently in one place but not in a third, a default changed in a helper and compensated in only one caller); an edit in a helper, constant, table or shared utility in ANOTHER module that the anchored code relies on; state that leaks between calls or objects; a non-default parameter or an unusual but legal configuration or input syntax; a reordering of floating-point operations; the extreme ends of the legal ranges.

Task: produce {n} DIFFERENT realistic source changes ("seeded defects") to the library, each of which BREAKS this property while the package still imports and the existing test suite still passes exactly as before. Each change should look like a plausible maintenance edit or refactoring slip (a changed comparison at a boundary, a dropped sort or copy, an off-by-one in a range or table, a swapped tie-break, a forgotten field, a wrong default), and should need SOMETHING SPECIFIC to manifest — an unusual input, a coincidence of times, a particular configuration, a multi-step sequence of operations, or two cooperating edits that each look fine alone — not something ordinary use would expose at once. Prefer edits of 1–6 lines.

For each change k = {K0+1}..{K0+int(n)} (use exactly these numbers in the file names):
 1. Start from a clean worktree (`git -C {wt} checkout -- .`), make the edit, save it as a patch: `git -C {wt} diff > {wt}/seed_{pid}_k.diff`.
 2. Write a small demonstration program `{wt}/demo_{pid}_k.py` that exits 0 when the property holds on its input and exits 1 (printing what went wrong) when it does not. It must FAIL (exit 1) with your change applied and PASS (exit 0) on the clean worktree. Verify both.
 3. Run the existing test suite with the change applied: `cd {wt} && PYTHONPATH={wt} /venv/bin/python -m pytest -q -p no:cacheprovider --timeout=900 --continue-on-collection-errors -x -q 2>&1 | tail -5` is NOT enough because 11 tests fail on the clean tree already (abc_parser_test::testParseEnglishAbc, audio_io_test::testWavDataToSamplesPydub, and nine sequences_lib_test tests: testExtractSubsequence, testSplitNoteSequenceAtTimes, testSplitNoteSequenceMultipleTimeChanges, testSplitNoteSequenceMultipleTimeChangesSkipSplitsInsideNotes, testSplitNoteSequenceOnSilence, testSplitNoteSequenceSkipSplitsInsideNotes, testSplitNoteSequenceWithHopSize, testSplitNoteSequenceWithStatelessEvents, testStretchNoteSequence). Run WITHOUT -x and confirm the summary is exactly `11 failed, 321 passed` (same as clean). If your change makes any additional test fail, it does not qualify — pick another.
 4. Restore the worktree (`git -C {wt} checkout -- .`) before the next change. Leave the .diff and demo files (untracked) in {wt}.

Final answer (this is all that will be read): for each change: the patch file path, the demo file path, one paragraph saying what the edit does, exactly what is needed for it to manifest, and the observed outputs of the demo with and without the change and of the test-suite summary with the change.""")
