#!/usr/bin/env python3
"""tools/harmless_matrix.py [skip-pids…] — run every harmless rewrite against EVERY property anchored in a file the rewrite
touches (one patched tree at a time, its properties in parallel), record outcomes in harmless/<id>/meta.json['outcome']."""
import json, glob, os, subprocess, sys, tempfile, shutil, concurrent.futures as cf
ROOT = os.path.dirname(os.path.dirname(os.path.abspath(__file__)))   # works in /verif and in a `vp run` snapshot
args = sys.argv[1:]
only = {a[5:] for a in args if a.startswith("only=")}   # only=C05-1 … restricts to these rewrites
skip = {a for a in args if not a.startswith("only=")}
props = [json.loads(l) for l in open(ROOT + '/properties.jsonl') if l.strip()]
files = {p['id']: set(p['anchors']['files']) for p in props}
for d in sorted(glob.glob(ROOT + '/harmless/*/')):
    if only and os.path.basename(d.rstrip('/')) not in only:
        continue
    meta = json.load(open(d + 'meta.json'))
    touched = {l[6:] for l in open(d + 'patch.diff').read().splitlines() if l.startswith('+++ b/')}
    pids = sorted(p for p, fs in files.items() if fs & touched and p not in skip)
    T = tempfile.mkdtemp(prefix='/tmp/harmrun_')
    os.makedirs(T + '/r'); shutil.copytree('/repo/note_seq', T + '/r/note_seq')
    subprocess.run('patch -s -p1 < %spatch.diff' % d, shell=True, cwd=T + '/r', check=True)

    def run(pid):
        r = subprocess.run(['./check', pid, 'quick'], cwd=ROOT, env=dict(os.environ, PYTHONPATH=T + '/r', VERIF_SEED='0'),
                           capture_output=True, text=True, timeout=3000)
        viol = [l for l in r.stdout.splitlines() if l.startswith('VIOLATION')]
        what = ''
        try:
            e = json.load(open(ROOT + '/evidence/%s.json' % pid))
            what = '; '.join(e['coverage'].get('no_longer_checks', [])[:3])[:300]
        except Exception:
            pass
        return pid, ('quiet' if r.returncode == 0 and not viol else 'ALARM rc=%d %s :: %s' % (r.returncode, ' '.join(viol[:1]), what))
    with cf.ThreadPoolExecutor(6) as ex:
        res = dict(ex.map(run, pids))
    shutil.rmtree(T)
    meta['outcome'] = {'checked_against': pids, 'results': res,
                       'how': 'tools/harmless_matrix.py: PYTHONPATH shadow copy with patch.diff applied; ./check <pid> quick for every property anchored in a touched file'}
    json.dump(meta, open(d + 'meta.json', 'w'), indent=1)
    print(os.path.basename(d.rstrip('/')), ' '.join('%s:%s' % (k, 'ok' if v == 'quiet' else 'ALARM') for k, v in res.items()), flush=True)
# restore generated files / evidence for the clean tree
subprocess.run(['tools/run_all.sh', 'quick', '1', '6'], cwd=ROOT)
