#!/bin/bash
# tools/harmless_import.sh <PID> <k> <worktree> — re-confirm a behaviour-preserving rewrite in its scratch worktree (patch applies,
# equivalence test exits 0 with it, suite still 11 failed / 321 passed) and keep it as harmless/<PID>-<k>/
set -u
PID=$1; K=$2; WT=$3
D=/verif/harmless/$PID-$K; PATCH=$WT/refactor_${PID}_$K.diff; EQ=$WT/equiv_${PID}_$K.py
git -C $WT checkout -- . 2>/dev/null
git -C $WT apply $PATCH || { echo "patch does not apply"; exit 1; }
(cd $WT && PYTHONPATH=$WT timeout 900 /venv/bin/python -W ignore $EQ >/tmp/_eq_$PID$K.out 2>&1); RC_EQ=$?
SUITE=$(cd $WT && PYTHONPATH=$WT /venv/bin/python -m pytest -q -p no:cacheprovider --timeout=900 --continue-on-collection-errors 2>&1 | tail -1)
git -C $WT checkout -- .
echo "equiv rc=$RC_EQ suite: $SUITE"
if [ $RC_EQ -eq 0 ] && echo "$SUITE" | grep -q "11 failed, 321 passed"; then
  mkdir -p $D; cp $PATCH $D/patch.diff; cp $EQ $D/equiv.py
  python3 - "$PID" "$K" "$SUITE" <<'PY'
import json,sys
pid,k,suite=sys.argv[1:4]
d='/verif/harmless/%s-%s'%(pid,k)
json.dump({'property':pid,'kind':'behaviour-preserving rewrite (the property still holds): the check must stay quiet',
 'confirmed':{'equivalence_test_rc':0,'suite_with_change':suite.strip(),'ran':'tools/harmless_import.sh: git apply, equivalence test against the clean code, full pytest suite, git checkout'},
 'outcome':None},open(d+'/meta.json','w'),indent=1)
PY
  echo "kept as $D"
else echo "NOT kept"; fi
