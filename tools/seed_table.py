#!/usr/bin/env python3
"""print the markdown table 'which check catches which seeded change' from seeded/*/meta.json (for DESIGN.md 9.4)"""
import json, glob, os, re
rows = []
for m in sorted(glob.glob('/verif/seeded/*/meta.json'), key=lambda p: (p.split('/')[-2].split('-')[0], int(p.split('/')[-2].split('-')[1]))):
    d = json.load(open(m)); sid = m.split('/')[-2]
    b = d.get('breaks', '')
    if b.startswith('see demo'):
        pd = open(os.path.dirname(m) + '/patch.diff').read().splitlines()
        fn = [l[6:].replace('note_seq/', '') for l in pd if l.startswith('+++ b/')]
        ch = [l[1:].strip() for l in pd if l.startswith('+') and not l.startswith('+++')][:1]
        b = '%s: `%s`' % (', '.join(fn), (ch[0][:80] if ch else ''))
    b = b.split(' (demo.py')[0]
    det = d.get('detected_by') or {}
    st = det.get('status', 'not run')
    how = det.get('how', '')
    rows.append('| %s | %s | %s | %s | %s |' % (sid, d['property'], b.replace('|', '\\|'), (d.get('needs_to_manifest') or '').replace('|', '\\|')[:160], (st + ': ' + how).replace('|', '\\|')[:200]))
print('| seed | property | change | needs | outcome (quick tier) |\n|---|---|---|---|---|')
print('\n'.join(rows))
