#!/bin/bash
# tools/harmless_run.sh <harmless dir> [tier] — run the property's check against a behaviour-preserving rewrite without touching
# /repo (shadow copy through PYTHONPATH); prints QUIET (exit 0, no VIOLATION) or ALARM with the VIOLATION lines and what broke.
set -u
ROOT=$(cd "$(dirname "$0")/.." && pwd)
D=$(realpath ${1%/}); TIER=${2:-quick}; PID=$(python3 -c "import json;print(json.load(open('$D/meta.json'))['property'])")
T=$(mktemp -d /tmp/harmrun_XXXX); mkdir -p $T/r; cp -r /repo/note_seq $T/r/; (cd $T/r && patch -s -p1 < $D/patch.diff) || { echo "patch failed"; rm -rf $T; exit 2; }
OUT=$(cd $ROOT && PYTHONPATH=$T/r timeout 3000 ./check $PID $TIER 2>&1); RC=$?
rm -rf $T
BROKE=$(python3 - <<PY
import json
try:
    e=json.load(open('$ROOT/evidence/$PID.json'))
    print('; '.join(e['coverage'].get('no_longer_checks',[])[:4])[:600], '| disagreements:', e['coverage'].get('correspondence_disagreements'), '| failures:', e['coverage'].get('property_failures_on_real_code'))
except Exception as x: print('?', x)
PY
)
(cd $ROOT && ./check $PID quick >/dev/null 2>&1); CLEAN=$?
if [ $RC -eq 0 ] && ! echo "$OUT" | grep -q "^VIOLATION"; then echo "QUIET $D ($TIER)"; else echo "ALARM $D ($TIER) rc=$RC: $(echo "$OUT" | grep -E '^VIOLATION|MACHINERY' | head -2 | tr '\n' ' ') :: $BROKE"; fi
echo "clean-tree rc after: $CLEAN"
