#!/bin/bash
# tools/seed_run.sh <seeded dir> [tier]  — run the property's check against the seeded change without touching /repo
# (a scratch copy of the package shadows the installed one via PYTHONPATH); prints DETECTED / MISSED.
set -u
ROOT=$(cd "$(dirname "$0")/.." && pwd)   # /verif, or a `vp run` snapshot of it
D=$(realpath ${1%/}); TIER=${2:-quick}; PID=$(python3 -c "import json;print(json.load(open('$D/meta.json'))['property'])")
T=$(mktemp -d /tmp/seedrun_XXXX); mkdir -p $T/r; cp -r /repo/note_seq $T/r/; (cd $T/r && patch -s -p1 < $D/patch.diff >/dev/null 2>&1) || { echo "OBSOLETE $D: patch.diff does not apply to the current /repo"; rm -rf $T; exit 3; }
OUT=$(cd $ROOT && PYTHONPATH=$T/r timeout 3000 ./check $PID $TIER 2>&1 | grep -E "VIOLATION|KNOWN|MACHINERY" | head -3); RC=$?
rm -rf $T
# restore generated files / build state for the clean tree
if [ -z "${SEED_NO_RESTORE:-}" ]; then (cd $ROOT && ./check $PID quick >/dev/null 2>&1); CLEAN=$?; else CLEAN="skipped (SEED_NO_RESTORE: scratch working copy, the next run regenerates everything)"; fi
if echo "$OUT" | grep -q "VIOLATION"; then echo "DETECTED $D ($TIER): $OUT"; else echo "MISSED $D ($TIER): $OUT"; fi
echo "clean-tree rc after: $CLEAN"
