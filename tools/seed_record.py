#!/usr/bin/env python3
"""tools/seed_record.py <seed dir>... — run tools/seed_run.sh on each seeded change (quick tier) and record the outcome
in its meta.json (`detected_by`).  Never touches /repo (seed_run.sh shadows the package through PYTHONPATH)."""
import json, subprocess, sys, re, os
ROOT = os.path.dirname(os.path.dirname(os.path.abspath(__file__)))
for d in sys.argv[1:]:
    d = d.rstrip('/')
    out = subprocess.run([ROOT + '/tools/seed_run.sh', d, 'quick'], capture_output=True, text=True).stdout
    if 'OBSOLETE' in out:
        print(d, 'obsolete (patch does not apply): outcome left as recorded', flush=True)
        continue
    det = 'DETECTED' in out
    nf = 'no-failing-input-found' in out
    m = json.load(open(d + '/meta.json'))
    m['detected_by'] = {'status': 'detected' if det else 'MISSED',
                        'how': ('quick: VIOLATION with a concrete failing input as replay' if det and not nf else
                                'quick: VIOLATION ... no-failing-input-found (proof obligation / correspondence broke, oracle found no input)' if det else 'not detected by the quick tier'),
                        'command': 'tools/seed_run.sh %s quick (PYTHONPATH shadow copy of note_seq with patch.diff applied; ./check %s quick)' % (d, m['property']),
                        'output': [l for l in out.splitlines() if 'VIOLATION' in l][:3],
                        'clean_tree_after': 'rc 0' if 'clean-tree rc after: 0' in out else out.splitlines()[-1:],
                        'round_recorded': 'outcome recorded in the session after the seed was made (the first-run outcome of its own round was lost with a snapshot)' if os.environ.get('SEED_NO_RESTORE') else None}
    json.dump(m, open(d + '/meta.json', 'w'), indent=1)
    print(d, m['detected_by']['status'], '(no-failing-input-found)' if nf else '', flush=True)
