#!/bin/bash
# run the pinned test suite and compare with BASELINE.json's stable_pass set
cd /repo && /venv/bin/python -m pytest -q -p no:cacheprovider --timeout=900 --continue-on-collection-errors --junitxml=/tmp/_bl.xml >/tmp/_bl.log 2>&1
/venv/bin/python - <<'PY'
import json, xml.etree.ElementTree as ET
base = set(json.load(open('/root/.vp/BASELINE.json'))['stable_pass'])
ok = set()
for tc in ET.parse('/tmp/_bl.xml').getroot().iter('testcase'):
    if not list(tc):
        ok.add('%s::%s' % (tc.get('classname'), tc.get('name')))
missing = sorted(base - ok)
print('passed %d; baseline %d; baseline tests not passing: %d' % (len(ok), len(base), len(missing)))
for m in missing: print('  FAIL', m)
PY
