#!/usr/bin/env python3
"""tools/harmless_merge.py <snapshot /verif dir> <commit> — copy the outcomes a harmless-matrix run recorded in a `vp run`
snapshot into /verif/harmless/*/meta.json (with the commit the snapshot was taken at)."""
import json, glob, os, sys
snap, commit = sys.argv[1].rstrip('/'), sys.argv[2]
only = set(sys.argv[3:])      # optional: merge these rewrites only
ROOT = os.path.dirname(os.path.dirname(os.path.abspath(__file__)))
n = 0
for m in sorted(glob.glob(snap + '/harmless/*/meta.json')):
    d = json.load(open(m))
    o = d.get('outcome')
    t = ROOT + '/harmless/' + m.split('/')[-2] + '/meta.json'
    if not o or not os.path.exists(t) or (only and m.split('/')[-2] not in only):
        continue
    o = dict(o)
    o['results'] = {p: (v if v == 'quiet' else v.replace(snap, '<snapshot>')) for p, v in o['results'].items()}
    o['ran_at_commit'] = commit + ' (separate working copy or vp run snapshot of /verif at that commit; checks against /repo through a PYTHONPATH shadow copy)'
    dd = json.load(open(t))
    dd['outcome'] = o
    json.dump(dd, open(t, 'w'), indent=1)
    n += 1
print(n, 'outcomes merged from', snap)
