#!/usr/bin/env python3
"""print the markdown table 'which checks were run against which behaviour-preserving rewrite' from harmless/*/meta.json (DESIGN 9.6)"""
import json, glob, os
ROOT = os.path.dirname(os.path.dirname(os.path.abspath(__file__)))
rows, quiet, alarms = [], 0, 0
for m in sorted(glob.glob(ROOT + '/harmless/*/meta.json'), key=lambda p: (p.split('/')[-2].split('-')[0], int(p.split('/')[-2].split('-')[1]))):
    d = json.load(open(m)); hid = m.split('/')[-2]
    pd = open(os.path.dirname(m) + '/patch.diff').read().splitlines()
    files = sorted({l[6:].replace('note_seq/', '') for l in pd if l.startswith('+++ b/')})
    plus = sum(1 for l in pd if l.startswith('+') and not l.startswith('+++'))
    minus = sum(1 for l in pd if l.startswith('-') and not l.startswith('---'))
    out = d.get('outcome') or {}
    res = out.get('results') or {}
    q = [p for p, v in res.items() if v == 'quiet']
    a = {p: v for p, v in res.items() if v != 'quiet'}
    quiet += len(q); alarms += len(a)
    what = d.get('what', '')
    rows.append('| %s | %s (+%d/−%d) %s | %s | %s |' % (
        hid, ', '.join(files), plus, minus, what, ' '.join(sorted(q)) or '—',
        '; '.join('%s: %s' % (p, v.split('::')[-1].strip()[:140]) for p, v in sorted(a.items())).replace('|', '\\|') or 'none'))
print('| rewrite | files touched | checks that stayed quiet | alarms (what no longer checked) |\n|---|---|---|---|')
print('\n'.join(rows))
print('\n%d rewrites; %d (rewrite, check) pairs run: %d quiet, %d alarms.' % (len(rows), quiet + alarms, quiet, alarms))
