#!/bin/bash
# tools/run_all.sh [tier] [seed] [jobs] — run every claimed check on the current /repo tree (evidence is rewritten by each check)
cd "$(dirname "$0")/.."
TIER=${1:-quick}; SEED=${2:-1}; JOBS=${3:-6}
mkdir -p /tmp/runall
python3 - <<'PY' > /tmp/runall/ids
import json
print(' '.join(c['property_id'] for c in json.load(open('MANIFEST.json'))['checks']))
PY
run() { p=$1; s=$(date +%s); VERIF_SEED=$SEED ./check $p $TIER > /tmp/runall/$p.log 2>&1; rc=$?; echo "$p rc=$rc $(( $(date +%s) - s ))s viol=$(grep -c '^VIOLATION' /tmp/runall/$p.log) known=$(grep -c '^KNOWN-FINDING' /tmp/runall/$p.log)"; }
export -f run; export SEED TIER
cat /tmp/runall/ids | tr ' ' '\n' | xargs -P $JOBS -I{} bash -c 'run {}'
