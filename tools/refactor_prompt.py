#!/usr/bin/env python3
"""print the prompt for an independent agent that produces HARMLESS (behaviour-preserving) rewrites of the code a
property is anchored in — used to test that the checks stay quiet on code where the property holds."""
import json, sys
pid = sys.argv[1]; wt = sys.argv[2]; n = sys.argv[3] if len(sys.argv) > 3 else '3'
import glob
K0 = len(glob.glob('/verif/harmless/%s-*' % pid))
p = [json.loads(l) for l in open('/verif/properties.jsonl') if l.strip()]
p = [x for x in p if x['id'] == pid][0]
print(f"""You are testing whether a hidden verification suite for the Python library magenta/note-seq raises FALSE alarms. You work ONLY inside your own scratch git worktree of the repository at {wt} (already created; a detached checkout of the current code). Do NOT read or write anything under /verif, and do NOT modify /repo itself. Run Python as `cd {wt} && PYTHONPATH={wt} /venv/bin/python …` so that `import note_seq` picks up YOUR worktree (check once with `print(note_seq.__file__)`). NEVER use `git stash` (shared between worktrees); switch between clean and changed code with `git -C {wt} apply <patch>` / `git -C {wt} apply -R <patch>` / `git -C {wt} checkout -- .` only.

Here is a semantic property the library satisfies:

  Title: {p['title']}
  Statement: {p['statement']}
  Code it is anchored in: {', '.join(p['anchors']['files'])}  (mechanisms: {'; '.join(m['name'] + ' @ ' + m['where'] for m in p['anchors']['mechanism'])})

Task: produce {n} DIFFERENT realistic, purely BEHAVIOUR-PRESERVING rewrites ("harmless refactorings") of the anchored code — the kind of edit a maintainer makes without intending any change: renaming local variables and private helpers; extracting a block into a private helper function or inlining one; replacing a for-loop that appends by a list comprehension (or the reverse); restructuring if/elif chains, early returns, guard clauses; replacing `a and not a & (a-1)`-style expressions by an equivalent expression that is EXACTLY equivalent on all ints; replacing magic numbers by named constants with the same value; reordering independent statements; adding type hints, docstrings, comments, logging; `dict.get` vs `in` tests; `sorted(x, key=…)` vs `x2 = list(x); x2.sort(key=…)` (both stable). Each rewrite should touch 5–40 lines in the anchored functions (not elsewhere) and must keep: every returned value, every raised exception class AND the point at which it is raised relative to side effects, every mutation (or absence of mutation) of arguments, the ORDER of floating-point operations (do not re-associate or distribute float arithmetic; `x / 60.0` must stay a division by 60.0, not a multiplication by a reciprocal), the iteration order of everything that is observable, all default argument values and public signatures. Do not add caches or module-level state.

Be adventurous within these rules: extract two or three private helpers in one rewrite (including helpers that fill a list or dict owned by the caller, or return tuples), use `try/except` instead of a membership test where exactly equivalent, lists of tuples instead of parallel lists, `setdefault`, hoisted module constants, split a long function in two, turn a nested function into a module-level private function (or the reverse), convert between `while` and `for`, between chained comparisons and `and`.

For each rewrite k = {K0+1}..{K0+int(n)} (use exactly these numbers in the file names):
 1. Start from a clean worktree (`git -C {wt} checkout -- .`), make the edit, save it: `git -C {wt} diff > {wt}/refactor_{pid}_k.diff`.
 2. Write `{wt}/equiv_{pid}_k.py`: a differential test that imports the CLEAN code from /repo (as a second copy: e.g. `importlib` with a different sys.path entry in a subprocess, or run the same randomised inputs twice — once under PYTHONPATH=/repo and once under PYTHONPATH={wt} — and compare pickled/serialised outputs) on at least 2000 random and boundary inputs of the anchored functions, comparing results EXACTLY (bit-for-bit floats, exception classes, argument bytes after the call). It must exit 0 (equivalent). Run it; if it finds a difference, your rewrite is not harmless — fix or replace it.
 3. Run the existing test suite with the rewrite applied (WITHOUT -x): `cd {wt} && PYTHONPATH={wt} /venv/bin/python -m pytest -q -p no:cacheprovider --timeout=900 --continue-on-collection-errors 2>&1 | tail -3` must print exactly `11 failed, 321 passed` (11 tests fail on the clean tree already).
 4. Restore the worktree before the next rewrite. Leave the .diff and equiv files (untracked) in {wt}.

Final answer (all that will be read): for each rewrite: the patch path, one paragraph describing the edit and why it is behaviour-preserving, the observed output of the equivalence test and of the test-suite summary.""")
