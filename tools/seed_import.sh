#!/bin/bash
# tools/seed_import.sh <PID> <k> <worktree> "<needs>"  — confirm a seeded change in its scratch worktree
# (demo fails with it, passes without it, suite still 11 failed/321 passed) and keep it as seeded/<PID>-<k>/
set -u
PID=$1; K=$2; WT=$3; NEEDS=${4:-}
D=/verif/seeded/$PID-$K; PATCH=$WT/seed_${PID}_$K.diff; DEMO=$WT/demo_${PID}_$K.py
git -C $WT checkout -- . 2>/dev/null
(cd $WT && PYTHONPATH=$WT /venv/bin/python -W ignore $DEMO >/tmp/_demo_clean.out 2>&1); RC_CLEAN=$?
git -C $WT apply $PATCH || { echo "patch does not apply"; exit 1; }
(cd $WT && PYTHONPATH=$WT /venv/bin/python -W ignore $DEMO >/tmp/_demo_mut.out 2>&1); RC_MUT=$?
SUITE=$(cd $WT && PYTHONPATH=$WT /venv/bin/python -m pytest -q -p no:cacheprovider --timeout=900 --continue-on-collection-errors 2>&1 | tail -1)
git -C $WT checkout -- .
echo "demo clean rc=$RC_CLEAN mutated rc=$RC_MUT suite: $SUITE"
if [ $RC_CLEAN -eq 0 ] && [ $RC_MUT -ne 0 ] && echo "$SUITE" | grep -q "11 failed, 321 passed"; then
  mkdir -p $D; cp $PATCH $D/patch.diff; cp $DEMO $D/demo.py
  python3 - "$PID" "$K" "$NEEDS" "$SUITE" <<'PY'
import json,sys
pid,k,needs,suite=sys.argv[1:5]
d='/verif/seeded/%s-%s'%(pid,k)
json.dump({'property':pid,'breaks':'see demo.py (exits 1 with the change, 0 without)','needs_to_manifest':needs,
 'confirmed':{'demo_clean_rc':0,'demo_mutated_rc':'non-zero','suite_with_change':suite.strip(),
 'ran':'tools/seed_import.sh: demo on clean worktree, git apply patch, demo again, full pytest suite, git checkout'},
 'detected_by':None},open(d+'/meta.json','w'),indent=1)
PY
  echo "kept as $D"
else echo "NOT kept"; fi
