#!/usr/bin/env python3
"""write harness/source_baseline.json: sha256 of every source file of the note_seq package as it is in /repo now.
Checks compare the files their property is anchored in with this baseline; when one differs (the tree under test was
edited) the quick tier multiplies its stream sizes (more search effort exactly when the code changed).  Run after every
commit to /repo."""
import hashlib, json, os
root = '/repo/note_seq'
out = {}
for d, _, fs in os.walk(root):
    for f in fs:
        if f.endswith('.py') and not f.endswith('_test.py'):
            p = os.path.join(d, f)
            out[os.path.relpath(p, '/repo')] = hashlib.sha256(open(p, 'rb').read()).hexdigest()
json.dump(out, open('/verif/harness/source_baseline.json', 'w'), indent=0, sort_keys=True)
print(len(out), 'files')
