"""T4 translator (C11): Python AST of the sequence operations -> reference / mutation IR.

The IR (see lean/NoteSeqVerif/Model/C11.lean):

    Expr ::= param i | var x | fresh | copyOf e | field e | elem e | tuple es | proj e i | scalar
    Stmt ::= skip | assign x e | write line e | seq s s | ite s s | loop s
           | callOp line x f es | raise | ret e

What is translated, and how
---------------------------
* Every listed operation of `note_seq/sequences_lib.py` and, transitively, every function of the
  same module it calls (`callOp`); locally defined functions become operations of their own whose
  captured variables are extra parameters.  `in_place` parameters are specialised to a constant
  (`if in_place:` is decided statically) and both specialisations are emitted.
* `fresh`   : protobuf constructors (`music_pb2.X(...)`); `copyOf e`: `copy.deepcopy(e)`.
  `x = M(); x.CopyFrom(e)` is `assign x fresh; write x` (a write to a fresh object).
* aliases   : attribute access `e.a` is `field e` — or `scalar` when `a` is a scalar field in every
  message of music.proto that has a field of that name (the schema is read from the live
  descriptors on every run); `e[i]`, iteration variables, `min/max(e)` are `elem e`;
  `sorted/list/tuple/set/reversed/enumerate/iter(e)`, slices, `d.values()/items()/keys()/copy()` are
  the value `e` itself (their elements ARE the elements of `e`); `zip`, `itertools.chain`, list
  displays, `a + b`, `a * n`, `a or b`, `a if c else b` are tuples of their operands.
* writes    : attribute assignment / augmented assignment / `del` through `e`, and the mutating
  protobuf methods (`add, CopyFrom, MergeFrom, ClearField, Clear, …`) are `write e`.  The container
  methods that exist both on repeated fields and on Python containers (`append, extend, insert,
  remove, pop, sort, reverse, clear, add, update, …`, `e[k] = v`, `e[k] += v`) depend on the *kind* of
  the receiver, inferred flow-insensitively (PB = protobuf, PY = Python container, SC, UNK):
  PB -> `write e` (the inserted values are copied by the runtime);
  PY -> the container is a value: every variable syntactically aliased to the receiver's root
        variable is re-bound to `tuple [old, inserted]` (the inserted values are ALIASED);
  UNK -> both.
* comprehensions / generator expressions are loops accumulating a tuple; `key=` lambdas are run in
  a loop on `elem` of the sorted value at the point of the call.
* every call that is not understood — and every statement form not listed here (`try`, `with`,
  `global`, `nonlocal`, starred assignment, `yield`, decorators, classes, …) — is translated
  CONSERVATIVELY to `write (param 0)`, so that the purity obligation fails instead of passing
  silently; the places are listed in the generated file and in the evidence.
* trusted external calls (assumed not to mutate their arguments, results carry no references):
  `math.*`, `numpy.*`, `logging.*`, `operator.itemgetter/attrgetter`, `random.*`,
  `chord_symbols_lib.transpose_chord_symbol`, and Python builtins `len int float abs round str bool
  isinstance any all sum range repr format print divmod pow ord chr type hash id`.
  A parameter that is called (`time_func(t)`) must receive scalars only and returns a scalar.
"""
import ast
import builtins
import inspect
import textwrap
import types

LISTED = [
    # (IR name, python function, {specialised parameter: constant}, expected pure?)
    ('trim_note_sequence', 'trim_note_sequence', {}, True),
    ('_extract_subsequences', '_extract_subsequences', {}, True),
    ('extract_subsequence', 'extract_subsequence', {}, True),
    ('split_note_sequence', 'split_note_sequence', {}, True),
    ('split_note_sequence_on_time_changes', 'split_note_sequence_on_time_changes', {}, True),
    ('split_note_sequence_on_silence', 'split_note_sequence_on_silence', {}, True),
    ('shift_sequence_times', 'shift_sequence_times', {}, True),
    ('stretch_note_sequence', 'stretch_note_sequence', {'in_place': False}, True),
    ('stretch_note_sequence__in_place', 'stretch_note_sequence', {'in_place': True}, False),
    ('transpose_note_sequence', 'transpose_note_sequence', {'in_place': False}, True),
    ('transpose_note_sequence__in_place', 'transpose_note_sequence', {'in_place': True}, False),
    ('_quantize_notes', '_quantize_notes', {}, False),
    ('quantize_note_sequence', 'quantize_note_sequence', {}, True),
    ('quantize_note_sequence_absolute', 'quantize_note_sequence_absolute', {}, True),
    ('apply_sustain_control_changes', 'apply_sustain_control_changes', {}, True),
    ('concatenate_sequences', 'concatenate_sequences', {}, True),
    ('merge_sequences', 'merge_sequences', {}, True),
    ('repeat_sequence_to_duration', 'repeat_sequence_to_duration', {}, True),
    ('expand_section_groups', 'expand_section_groups', {}, True),
    ('remove_redundant_data', 'remove_redundant_data', {}, True),
    ('adjust_notesequence_times', 'adjust_notesequence_times', {}, True),
    ('rectify_beats', 'rectify_beats', {}, True),
]

# ----------------------------------------------------------------------------- IR helpers
SC = ('scalar',)


def tup(es):
    es = [e for e in es if e != SC]
    if not es:
        return SC
    if len(es) == 1:
        return es[0]
    return ('tuple', tuple(es))


def nav(kind, e):
    return SC if e == SC else (kind, e)


def block(ss):
    out = []
    for s in ss:
        if s[0] == 'seq':
            out.extend(s[1])
        elif s[0] != 'skip':
            out.append(s)
    if not out:
        return ('skip',)
    if len(out) == 1:
        return out[0]
    return ('seq', tuple(out))


def ite(a, b):
    if a == ('skip',) and b == ('skip',):
        return ('skip',)
    return ('ite', a, b)


_LOOP_IDS = [0]


def loop(s):
    if s == ('skip',):
        return ('skip',)
    _LOOP_IDS[0] += 1
    return ('loop', _LOOP_IDS[0], s)


def weaken(s):
    """IR of a suite that may be abandoned after any of its effects: every statement at every depth is optional, an
    explicit `raise` is an ordinary (empty) step.  `ret` keeps its meaning (a return inside `try` returns)."""
    t = s[0]
    if t == 'seq':
        return ('seq', [weaken(x) for x in s[1]])
    if t == 'ite':
        return ite(weaken(s[1]), weaken(s[2]))
    if t == 'loop':
        return ('loop', s[1], weaken(s[2]))
    if t == 'raise':
        return ('skip',)
    if t in ('skip', 'ret'):
        return s
    return ite(s, ('skip',))


# ----------------------------------------------------------------------------- kinds
BOT, PB, SCK, UNK = 'BOT', 'PB', 'SC', 'UNK'


def PY(k):
    return ('PY', k)


def kjoin(a, b):
    if a == b or b == BOT:
        return a
    if a == BOT:
        return b
    if isinstance(a, tuple) and isinstance(b, tuple):
        return PY(kjoin(a[1], b[1]))
    return UNK


def kelem(k):
    """kind of an element; BOT = nothing known yet (treated as UNK where it matters)"""
    if isinstance(k, tuple):
        return k[1]
    if k in (PB, BOT):
        return k
    return UNK


def is_py(k):
    return isinstance(k, tuple)


def kenc(k):
    """kind -> short string used in the IR name of a kind-specialised callee"""
    if is_py(k):
        return 'L' + kenc(k[1])
    return {PB: 'P', SCK: 'S'}.get(k, 'U')


def kdec(s):
    if s.startswith('L'):
        return PY(kdec(s[1:]))
    return {'P': PB, 'S': SCK}.get(s, UNK)


# ----------------------------------------------------------------------------- schema
def schema_attrs():
    """(scalar attribute names, protobuf-valued attribute names) from the live descriptors."""
    from note_seq.protobuf import music_pb2
    msgs = []

    def walk(d):
        msgs.append(d)
        for n in d.nested_types:
            walk(n)
    for m in music_pb2.DESCRIPTOR.message_types_by_name.values():
        walk(m)
    seen = {}
    for m in msgs:
        for f in m.fields:
            rep = f.is_repeated if hasattr(f, 'is_repeated') else (f.label == f.LABEL_REPEATED)
            is_obj = rep or f.type == f.TYPE_MESSAGE
            seen.setdefault(f.name, set()).add(is_obj)
    scalar = {n for n, s in seen.items() if s == {False}}
    pb = {n for n, s in seen.items() if s == {True}}
    return scalar, pb


PB_WRITE_METHODS = {'CopyFrom', 'MergeFrom', 'ClearField', 'Clear', 'ParseFromString', 'MergeFromString',
                    'SetInParent', 'DiscardUnknownFields', 'ClearExtension'}
PB_READ_METHODS = {'HasField', 'WhichOneof', 'SerializeToString', 'SerializePartialToString', 'ByteSize',
                   'IsInitialized', 'ListFields', 'FindInitializationErrors', 'HasExtension'}
# methods that exist on repeated fields AND on Python containers: effect depends on the receiver kind
CONTAINER_STORE = {'append': 'all', 'extend': 'all', 'insert': 'last', 'add': 'all', 'update': 'all',
                   'setdefault': 'last', 'appendleft': 'all', 'extendleft': 'all', '__setitem__': 'last'}
CONTAINER_MUT_NOSTORE = {'remove', 'pop', 'sort', 'reverse', 'clear', 'discard', 'popleft', 'popitem'}
CONTAINER_READ_SAME = {'values', 'items', 'keys', 'copy'}        # value = the receiver's value
CONTAINER_READ_ELEM = {'get', 'pop', 'popleft', 'popitem'}       # value = an element
SCALAR_METHODS = {'index', 'count', 'format', 'join', 'split', 'strip', 'lower', 'upper', 'startswith', 'endswith',
                  'replace', 'encode', 'decode', 'isdigit', 'tolist', 'astype', 'item', 'is_integer'}
SCALAR_BUILTINS = {'len', 'int', 'float', 'abs', 'round', 'str', 'bool', 'isinstance', 'any', 'all', 'sum', 'range',
                   'repr', 'format', 'print', 'divmod', 'pow', 'ord', 'chr', 'type', 'hash', 'id', 'issubclass',
                   'callable', 'bytes'}
SAME_BUILTINS = {'sorted', 'list', 'tuple', 'set', 'frozenset', 'reversed', 'enumerate', 'iter', 'dict'}
TRUSTED_EXTERNAL_PREFIXES = ('math', 'numpy', 'absl.logging', 'logging', 'operator', 'random')
TRUSTED_EXTERNAL_EXACT = {'note_seq.chord_symbols_lib.transpose_chord_symbol'}


class Unsupported(Exception):
    pass


class OpIR:
    def __init__(self, name, pyname, line, params):
        self.name, self.pyname, self.line, self.params = name, pyname, line, params
        self.body = ('skip',)
        self.varnames = []
        self.callees = []          # IR names, in order of first call
        self.conservative = []     # (line, reason)
        self.rets = []


class FnTranslator:
    """translates one function (one specialisation) into an OpIR."""

    def __init__(self, world, irname, node, spec, captured=(), outer=None, qual=None):
        self.w, self.irname, self.node, self.spec = world, irname, node, dict(spec)
        self.captured = list(captured)      # names of enclosing-function variables passed as extra params
        self.outer = outer                  # enclosing FnTranslator (for nested defs)
        self.qual = qual or node.name
        a = node.args
        if a.vararg or a.kwarg or a.posonlyargs:
            raise Unsupported('*args/**kwargs in signature of %s' % node.name)
        self.pyparams = [x.arg for x in a.args] + [x.arg for x in a.kwonlyargs]
        self.params = self.pyparams + self.captured
        self.op = OpIR(irname, node.name, node.lineno + world.line0 - 1, list(self.params))
        self.nested = {n.name: n for n in node.body if isinstance(n, ast.FunctionDef)}
        self.nested_ops = {}
        self.locals = self._collect_locals(node)
        self.kinds = {}                     # var name -> kind (flow-insensitive, iterated)
        self.alias = {}                     # union-find over local names

    # ------------------------------------------------------------------ scopes / variables
    @staticmethod
    def _collect_locals(fn):
        names = set()

        def targets(t):
            if isinstance(t, ast.Name):
                names.add(t.id)
            elif isinstance(t, (ast.Tuple, ast.List)):
                for x in t.elts:
                    targets(x)
            elif isinstance(t, ast.Starred):
                targets(t.value)

        def walk(n):
            for c in ast.iter_child_nodes(n):
                if isinstance(c, (ast.FunctionDef, ast.AsyncFunctionDef, ast.Lambda, ast.ClassDef)):
                    if isinstance(c, ast.FunctionDef):
                        names.add(c.name)
                    continue
                if isinstance(c, (ast.ListComp, ast.SetComp, ast.DictComp, ast.GeneratorExp)):
                    # comprehension targets are scoped to the comprehension; the first iterable is not
                    walk(c.generators[0].iter)
                    continue
                if isinstance(c, (ast.Assign,)):
                    for t in c.targets:
                        targets(t)
                elif isinstance(c, (ast.AugAssign, ast.AnnAssign)):
                    targets(c.target)
                elif isinstance(c, (ast.For, ast.AsyncFor)):
                    targets(c.target)
                elif isinstance(c, ast.NamedExpr):
                    targets(c.target)
                elif isinstance(c, (ast.With, ast.AsyncWith)):
                    for it in c.items:
                        if it.optional_vars is not None:
                            targets(it.optional_vars)
                elif isinstance(c, ast.ExceptHandler) and c.name:
                    names.add(c.name)
                elif isinstance(c, (ast.Import, ast.ImportFrom)):
                    for al in c.names:
                        names.add((al.asname or al.name).split('.')[0])
                walk(c)
        walk(fn)
        return names

    def new_var(self, name):
        self.op.varnames.append(name)
        return len(self.op.varnames) - 1

    def zip_of_names(self, iter_ast, target):
        """`for a, b in zip(X, Y)` with plain local names X, Y: bound component-wise by bind_target (a from X, b from Y)"""
        return (isinstance(iter_ast, ast.Call) and isinstance(iter_ast.func, ast.Name) and iter_ast.func.id == 'zip'
                and isinstance(target, (ast.Tuple, ast.List)) and len(iter_ast.args) == len(target.elts)
                and not iter_ast.keywords and self.var_of('zip') is None
                and all(isinstance(a, ast.Name) for a in iter_ast.args))

    def iter_temp(self, lineno, iter_ast, k, target=None):
        """temporary holding the iterable of a loop; it aliases the container it iterates over"""
        name = '%%it%d_%d' % (lineno, getattr(iter_ast, 'col_offset', 0))
        v = self.new_var(name)
        self.scopes[0][name] = v
        self.all_names.append(name)
        if self.phase == 'kinds':
            self.kinds[name] = k
        if target is not None and self.zip_of_names(iter_ast, target):
            # the temporary is never read (the targets are bound to elements of X and of Y separately), so X and Y
            # need not be put into one alias class through it
            return v
        for n in self.alias_sources(iter_ast):
            self.union(name, n)
        return v

    def var_of(self, name):
        """IR variable of a Python name, searching comprehension scopes first."""
        for sc in reversed(self.scopes):
            if name in sc:
                return sc[name]
        return None

    def find(self, x):
        while self.alias.get(x, x) != x:
            x = self.alias[x]
        return x

    def union(self, a, b):
        if self.phase != 'alias':
            return
        if self.kind_of_name(a) in (PB, SCK) or self.kind_of_name(b) in (PB, SCK):
            return                       # protobuf objects / scalars are not Python containers
        ra, rb = self.find(a), self.find(b)
        if ra != rb:
            self.alias[ra] = rb
            self.changed = True

    def alias_class(self, name):
        r = self.find(name)
        return [n for n in self.all_names if self.find(n) == r]

    def kind_of_name(self, name):
        return self.kinds.get(name, BOT)

    def note_kind(self, name, k):
        if self.phase != 'kinds':
            return
        old = self.kinds.get(name, BOT)
        new = kjoin(old, k)
        if new != old:
            self.kinds[name] = new
            self.changed = True

    # ------------------------------------------------------------------ driver
    def translate(self):
        # flow-insensitive kinds and alias classes need a few passes over the body
        pk = self.spec.get('%kinds') or ()
        for i, name in enumerate(self.pyparams):
            if name in self.spec:
                self.kinds[name] = SCK
            else:
                self.kinds[name] = kdec(pk[i]) if i < len(pk) else UNK
        for name in self.captured:
            self.kinds[name] = self.outer.kinds.get(name, UNK) if self.outer else UNK
        self.unstable = False
        for phase in ('kinds', 'alias'):
            self.phase = phase
            for _ in range(10):
                self.changed = False
                self._pass()
                if not self.changed:
                    break
            else:
                self.unstable = True
        self.phase = 'final'
        self._pass()
        if self.unstable:
            self.op.body = block([self.conservative(self.node, 'kind / alias inference did not stabilise'), self.op.body])
        return self.op

    def _pass(self):
        op = self.op
        op.varnames, op.callees, op.conservative, op.rets = [], [], [], []
        self.scopes = [{}]
        self.all_names = []
        pre = []
        for i, name in enumerate(self.params):
            v = self.new_var(name)
            self.scopes[0][name] = v
            self.all_names.append(name)
            pre.append(('assign', v, SC if name in self.spec else ('param', i)))
        for name in sorted(self.locals - set(self.params)):
            if name in self.nested:
                continue
            self.scopes[0][name] = self.new_var(name)
            self.all_names.append(name)
        body = self.stmts(self.node.body)
        op.body = block(pre + [body])

    # ------------------------------------------------------------------ conservative fallback
    def conservative(self, node, why):
        line = self.line(node)
        self.op.conservative.append((line, why))
        if self.params:
            return ('write', line, ('param', 0))
        return ('callOp', line, 0, '<unsupported>', ())

    def line(self, node):
        return getattr(node, 'lineno', 1) + self.w.line0_of(self) - 1

    # ------------------------------------------------------------------ statements
    def stmts(self, body):
        """translate a statement list; statements after one that may `break`/`continue` are optional."""
        out = []
        for i, s in enumerate(body):
            out.append(self.stmt(s))
            if self._may_jump(s) and i + 1 < len(body):
                rest = self.stmts(body[i + 1:])
                out.append(ite(('skip',), rest))
                break
        return block(out)

    def _may_jump(self, s):
        """does `s` contain a break/continue that belongs to an enclosing loop?"""
        if isinstance(s, (ast.Break, ast.Continue)):
            return True
        if isinstance(s, (ast.For, ast.While, ast.AsyncFor)):
            return any(self._may_jump(x) for x in s.orelse)
        if isinstance(s, (ast.FunctionDef, ast.ClassDef, ast.Lambda)):
            return False
        for f in ('body', 'orelse', 'finalbody', 'handlers'):
            for x in getattr(s, f, []) or []:
                if isinstance(x, ast.AST) and self._may_jump(x):
                    return True
        return False

    def stmt(self, s):
        if isinstance(s, ast.Expr):
            if isinstance(s.value, ast.Constant):
                return ('skip',)
            pre, _, _ = self.expr(s.value)
            return block(pre)
        if isinstance(s, ast.Pass) or isinstance(s, (ast.Break, ast.Continue)):
            return ('skip',)
        if isinstance(s, (ast.Import, ast.ImportFrom)):
            return ('skip',)
        if isinstance(s, ast.Return):
            if s.value is None:
                self.op.rets.append(SC)
                return ('ret', SC)
            pre, e, _ = self.expr(s.value)
            self.op.rets.append(e)
            return block(pre + [('ret', e)])
        if isinstance(s, ast.Raise):
            pre = []
            if s.exc is not None:
                pre, _, _ = self.expr(s.exc)
            return block(pre + [('raise',)])
        if isinstance(s, ast.Assert):
            pre, _, _ = self.expr(s.test)
            return block(pre + [ite(('skip',), ('raise',))])
        if isinstance(s, ast.If):
            st = self.static_test(s.test)
            if st is True:
                return self.stmts(s.body)
            if st is False:
                return self.stmts(s.orelse)
            pre, _, _ = self.expr(s.test)
            return block(pre + [ite(self.stmts(s.body), self.stmts(s.orelse))])
        if isinstance(s, ast.While):
            pre, _, _ = self.expr(s.test)
            return block([loop(block(pre + [self.stmts(s.body)]))] + pre + [self.stmts(s.orelse)])
        if isinstance(s, ast.For):
            pre, it, k = self.expr(s.iter)
            tmp = self.iter_temp(s.lineno, s.iter, k, s.target)
            bind = self.bind_target(s.target, s.iter, ('var', tmp), k)
            return block(pre + [('assign', tmp, it), loop(block([bind, self.stmts(s.body)])), self.stmts(s.orelse)])
        if isinstance(s, ast.Assign):
            return self.assign(s.targets, s.value, s)
        if isinstance(s, ast.AnnAssign):
            if s.value is None:
                return ('skip',)
            return self.assign([s.target], s.value, s)
        if isinstance(s, ast.AugAssign):
            return self.augassign(s)
        if isinstance(s, ast.Delete):
            return block([self.delete(t) for t in s.targets])
        if isinstance(s, ast.FunctionDef):
            if s.decorator_list:
                return self.conservative(s, 'decorated local function')
            return ('skip',)
        if isinstance(s, ast.Try) and not getattr(s, 'finalbody', None) is None:
            # try / except / else / finally.  The body may stop after ANY of its effects (an exception raised by any
            # statement or call, caught by a handler) and execution then continues: every statement of the body — at
            # every nesting depth — becomes optional (`weaken`), an explicit `raise` inside the body no longer ends the
            # analysed path, and each handler, the else-suite and the finally-suite are optional suites executed after
            # it.  Every real execution (a prefix of the body, then at most one handler or the else-suite, then the
            # finally-suite) is one of the executions of this IR, so the provenance analysis over-approximates it.
            parts = [weaken(self.stmts(s.body))]
            for h in s.handlers:
                pre = []
                if h.type is not None:
                    pre, _, _ = self.expr(h.type)
                if h.name:
                    v = self.var_of(h.name)
                    if v is not None:
                        pre = pre + [('assign', v, SC)]
                        self.note_kind(h.name, SCK)
                parts.append(ite(block(pre + [self.stmts(h.body)]), ('skip',)))
            if s.orelse:
                parts.append(ite(self.stmts(s.orelse), ('skip',)))
            if s.finalbody:
                parts.append(self.stmts(s.finalbody))
            return block(parts)
        return self.conservative(s, 'statement %s' % type(s).__name__)

    def static_test(self, t):
        """decide `if in_place:` / `if not in_place:` for a specialised, never re-assigned parameter."""
        if isinstance(t, ast.Name) and t.id in self.spec and t.id not in (self.locals - set(self.pyparams)):
            if not self._reassigned(t.id):
                return bool(self.spec[t.id])
        if isinstance(t, ast.UnaryOp) and isinstance(t.op, ast.Not):
            v = self.static_test(t.operand)
            return None if v is None else (not v)
        return None

    def _reassigned(self, name):
        for n in ast.walk(self.node):
            if isinstance(n, ast.Name) and n.id == name and isinstance(n.ctx, (ast.Store, ast.Del)):
                return True
        return False

    # ---- binding of loop / comprehension targets
    def bind_target(self, target, iter_ast, it, k):
        """statements binding `target` to one element of the iterable whose value is `it` (kind k)."""
        # zip(A, B, ...) with a tuple target: pairwise
        if isinstance(iter_ast, ast.Call) and isinstance(iter_ast.func, ast.Name) and isinstance(target, (ast.Tuple, ast.List)):
            fn = iter_ast.func.id
            if fn == 'zip' and len(iter_ast.args) == len(target.elts) and not iter_ast.keywords and self.var_of('zip') is None \
                    and not any(isinstance(a, ast.Starred) for a in iter_ast.args):
                subs = [self.expr(a) for a in iter_ast.args]
                if not any(p for p, _, _ in subs):
                    # the operands are alias expressions without effects: bind component-wise
                    return block([self.bind_target(sub_t, sub_it, e, kk)
                                  for sub_t, sub_it, (_, e, kk) in zip(target.elts, iter_ast.args, subs)])
            if fn == 'enumerate' and len(target.elts) == 2 and len(iter_ast.args) >= 1 and self.var_of('enumerate') is None:
                return block([self.bind_target(target.elts[0], None, SC, SCK),
                              self.bind_target(target.elts[1], iter_ast.args[0], it, k)])
        if isinstance(iter_ast, ast.Call) and isinstance(iter_ast.func, ast.Attribute) and iter_ast.func.attr == 'items' \
                and isinstance(target, (ast.Tuple, ast.List)) and len(target.elts) == 2:
            return block([self.bind_target(target.elts[0], None, SC, SCK),
                          self.bind_target(target.elts[1], iter_ast.func.value, it, k)])
        if isinstance(target, ast.Name):
            v = self.var_of(target.id)
            if v is None:
                return self.conservative(target, 'unbound loop target %s' % target.id)
            self.note_kind(target.id, kelem(k) if it != SC else SCK)
            if iter_ast is not None:
                for n in self.alias_sources(iter_ast):
                    self.union(target.id, n)
            return ('assign', v, nav('elem', it))
        if isinstance(target, (ast.Tuple, ast.List)):
            # generic unpacking: each component is some component of an element
            return block([self.bind_target(t, iter_ast, nav('elem', it), kelem(k)) if not isinstance(t, ast.Starred)
                          else self.conservative(t, 'starred target') for t in target.elts])
        # attribute / subscript as loop target
        return block([self.store(target, nav('elem', it), kelem(k), iter_ast)])

    # ---- assignment
    def assign(self, targets, value, node):
        out = []
        if len(targets) == 1 and isinstance(targets[0], (ast.Tuple, ast.List)) and isinstance(value, (ast.Tuple, ast.List)) \
                and len(targets[0].elts) == len(value.elts) and not any(isinstance(x, ast.Starred) for x in targets[0].elts + value.elts):
            tmps = []
            for v in value.elts:
                pre, e, k = self.expr(v)
                t = self.new_var('_t%d' % node.lineno)
                out += pre + [('assign', t, e)]
                tmps.append((t, k, v))
            for t_ast, (t, k, v) in zip(targets[0].elts, tmps):
                out.append(self.store(t_ast, ('var', t), k, v))
            return block(out)
        pre, e, k = self.expr(value)
        out += pre
        if len(targets) == 1 and isinstance(targets[0], ast.Attribute):
            return block(out + [self.store(targets[0], e, k, value)])
        if len(targets) > 1 or not isinstance(targets[0], ast.Name):
            t = self.new_var('_t%d' % node.lineno)
            out.append(('assign', t, e))
            e = ('var', t) if e != SC else SC
        for t_ast in targets:
            out.append(self.store(t_ast, e, k, value))
        return block(out)

    def store(self, target, e, k, value_ast):
        """`target = <value e of kind k>`"""
        if isinstance(target, ast.Name):
            v = self.var_of(target.id)
            if v is None:
                return self.conservative(target, 'assignment to non-local name %s' % target.id)
            self.note_kind(target.id, k)
            if value_ast is not None:
                for n in self.alias_sources(value_ast):
                    self.union(target.id, n)
            return ('assign', v, e)
        if isinstance(target, (ast.Tuple, ast.List)):
            out = []
            for i, t in enumerate(target.elts):
                if isinstance(t, ast.Starred):
                    out.append(self.conservative(t, 'starred target'))
                else:
                    out.append(self.store(t, nav('proj', e) + (i,) if e != SC else SC, kelem(k) if is_py(k) else UNK, value_ast))
            return block(out)
        if isinstance(target, ast.Attribute):
            pre, r, _ = self.expr(target.value)
            return block(pre + [('write', self.line(target), r)])
        if isinstance(target, ast.Subscript):
            pre, r, rk = self.expr(target.value)
            pre2, _, _ = self.expr(target.slice) if not isinstance(target.slice, ast.Slice) else self.slice_pre(target.slice)
            if is_py(rk):
                self._note_store_kind(target.value, '__setitem__', [k])
            return block(pre + pre2 + [self.container_store(target.value, r, rk, [e], [value_ast], target)])
        return self.conservative(target, 'assignment target %s' % type(target).__name__)

    def augassign(self, s):
        pre, e, k = self.expr(s.value)
        t = s.target
        if isinstance(t, ast.Name):
            v = self.var_of(t.id)
            if v is None:
                return self.conservative(t, 'augmented assignment to non-local name')
            # `x += v` re-binds x; for a list it also extends it in place (aliases see it)
            self.note_kind(t.id, k if not is_py(self.kind_of_name(t.id)) else self.kind_of_name(t.id))
            for n in self.alias_sources(s.value):
                self.union(t.id, n)
            if e == SC:
                return block(pre)
            outs = [('assign', self.var_of(n), tup([('var', self.var_of(n)), e])) for n in self.alias_class(t.id)
                    if self.var_of(n) is not None] if is_py(self.kind_of_name(t.id)) or self.kind_of_name(t.id) == UNK \
                else [('assign', v, tup([('var', v), e]))]
            return block(pre + outs)
        if isinstance(t, ast.Attribute):
            pre2, r, _ = self.expr(t.value)
            return block(pre + pre2 + [('write', self.line(t), r)])
        if isinstance(t, ast.Subscript):
            pre2, r, rk = self.expr(t.value)
            pre3, _, _ = self.expr(t.slice) if not isinstance(t.slice, ast.Slice) else self.slice_pre(t.slice)
            return block(pre + pre2 + pre3 + [self.container_store(t.value, r, rk, [e], [s.value], t)])
        return self.conservative(t, 'augmented assignment target')

    def delete(self, t):
        if isinstance(t, ast.Name):
            return ('skip',)
        if isinstance(t, ast.Attribute):
            pre, r, _ = self.expr(t.value)
            return block(pre + [('write', self.line(t), r)])
        if isinstance(t, ast.Subscript):
            pre, r, rk = self.expr(t.value)
            pre2, _, _ = self.expr(t.slice) if not isinstance(t.slice, ast.Slice) else self.slice_pre(t.slice)
            if is_py(rk) and self.root_local(t.value) is not None:
                return block(pre + pre2)          # removal from a local Python container: no new content
            return block(pre + pre2 + [('write', self.line(t), r)])
        return self.conservative(t, 'del target')

    def slice_pre(self, sl):
        pre = []
        for x in (sl.lower, sl.upper, sl.step):
            if x is not None:
                p, _, _ = self.expr(x)
                pre += p
        return pre, SC, SCK

    # ---- container stores
    def root_local(self, node):
        """root variable name of a receiver path made of subscripts / .get() / .values() …"""
        while True:
            if isinstance(node, ast.Name):
                return node.id if self.var_of(node.id) is not None else None
            if isinstance(node, ast.Subscript):
                node = node.value
            elif isinstance(node, ast.Call) and isinstance(node.func, ast.Attribute) and \
                    node.func.attr in (CONTAINER_READ_SAME | CONTAINER_READ_ELEM | {'setdefault'}):
                node = node.func.value
            else:
                return None

    def container_store(self, recv_ast, r, rk, values, value_asts, node):
        """a store of `values` into the container denoted by recv_ast (value r, kind rk)."""
        out = []
        kind = rk
        if kind == BOT:
            kind = UNK
        root = self.root_local(recv_ast)
        if kind == PB or kind == UNK or kind == SCK or (is_py(kind) and root is None):
            out.append(('write', self.line(node), r))
        if is_py(kind) or kind == UNK:
            if root is not None:
                # the stored values become reachable from every alias of the root container
                for va in value_asts:
                    if va is not None:
                        for n in self.alias_sources(va):
                            self.union(root, n)
                vals = [v for v in values if v != SC]
                if vals:
                    for n in self.alias_class(root):
                        v = self.var_of(n)
                        if v is not None:
                            out.append(('assign', v, tup([('var', v)] + vals)))
        return block(out)

    def path_depth(self, node):
        d = 0
        while not isinstance(node, ast.Name):
            if isinstance(node, ast.Subscript):
                d += 1
                node = node.value
            elif isinstance(node, ast.Call) and isinstance(node.func, ast.Attribute):
                if node.func.attr in CONTAINER_READ_ELEM:
                    d += 1
                node = node.func.value
            else:
                break
        return d

    # ------------------------------------------------------------------ alias sources
    def alias_sources(self, node):
        """local names whose (Python-container) value may be aliased by the value of `node`."""
        out = set()

        def go(n):
            if n is None:
                return
            if isinstance(n, ast.Name):
                if self.var_of(n.id) is not None and self.kind_of_name(n.id) not in (PB, SCK):
                    out.add(n.id)
            elif isinstance(n, ast.Subscript):
                go(n.value)
            elif isinstance(n, ast.Starred):
                go(n.value)
            elif isinstance(n, (ast.List, ast.Tuple, ast.Set)):
                for x in n.elts:
                    go(x)
            elif isinstance(n, ast.Dict):
                for x in n.values:
                    go(x)
            elif isinstance(n, (ast.BoolOp,)):
                for x in n.values:
                    go(x)
            elif isinstance(n, ast.IfExp):
                go(n.body)
                go(n.orelse)
            elif isinstance(n, ast.BinOp):
                go(n.left)
                go(n.right)
            elif isinstance(n, ast.NamedExpr):
                go(n.value)
            elif isinstance(n, (ast.ListComp, ast.SetComp, ast.GeneratorExp)):
                go(n.elt)
                for g in n.generators:
                    go(g.iter)
            elif isinstance(n, ast.DictComp):
                go(n.value)
                for g in n.generators:
                    go(g.iter)
            elif isinstance(n, ast.Call):
                f = n.func
                if isinstance(f, ast.Name) and f.id in SCALAR_BUILTINS:
                    return
                if isinstance(f, ast.Attribute):
                    if f.attr in SCALAR_METHODS or f.attr in PB_READ_METHODS or f.attr in PB_WRITE_METHODS:
                        return
                    if self.module_object(f) is not None and not self.is_chain(f):
                        return                      # trusted external / constructor: result carries no container
                    go(f.value)
                for a in n.args:
                    go(a)
                for kw in n.keywords:
                    if kw.arg != 'key':
                        go(kw.value)
            # Attribute: protobuf / scalar, never a Python container of ours
        go(node)
        return out

    # ------------------------------------------------------------------ name resolution
    def module_object(self, node):
        """the Python object denoted by a dotted name rooted at a module-level name, or None."""
        parts = []
        while isinstance(node, ast.Attribute):
            parts.append(node.attr)
            node = node.value
        if not isinstance(node, ast.Name) or self.var_of(node.id) is not None or self.is_nested_name(node.id):
            return None
        if not hasattr(self.w.module, node.id):
            if hasattr(builtins, node.id) and not parts:
                return getattr(builtins, node.id)
            return None
        obj = getattr(self.w.module, node.id)
        for p in reversed(parts):
            if not (isinstance(obj, (types.ModuleType, type)) or hasattr(obj, 'DESCRIPTOR')):
                return None
            if not hasattr(obj, p):
                return None
            obj = getattr(obj, p)
        return obj

    def module_function_name(self, node):
        """name of the function of the translated module denoted by `node` (a Name), else None"""
        if isinstance(node, ast.Name) and self.var_of(node.id) is None and not self.is_nested_name(node.id):
            obj = getattr(self.w.module, node.id, None)
            if isinstance(obj, types.FunctionType) and obj.__module__ == self.w.module.__name__ and node.id in self.w.functions:
                return node.id
        return None

    def is_chain(self, f):
        import itertools
        o = self.module_object(f)
        return o is itertools.chain or (isinstance(f, ast.Attribute) and f.attr == 'from_iterable'
                                        and self.module_object(f.value) is itertools.chain)

    def is_nested_name(self, name):
        t = self
        while t is not None:
            if name in t.nested:
                return True
            t = t.outer
        return False

    @staticmethod
    def is_scalar_const(obj, depth=0):
        if obj is None or isinstance(obj, (bool, int, float, str, bytes, complex)):
            return True
        if isinstance(obj, (tuple, frozenset)) and depth < 3:
            return all(FnTranslator.is_scalar_const(x, depth + 1) for x in obj)
        if isinstance(obj, (type, types.ModuleType, types.FunctionType, types.BuiltinFunctionType)):
            return True
        return False

    # ------------------------------------------------------------------ expressions
    def expr(self, n):
        """-> (pre-statements, Expr, kind)"""
        if n is None:
            return [], SC, SCK
        m = getattr(self, 'e_' + type(n).__name__, None)
        if m is None:
            return [self.conservative(n, 'expression %s' % type(n).__name__)], SC, UNK
        return m(n)

    def e_Constant(self, n):
        return [], SC, SCK

    def e_JoinedStr(self, n):
        pre = []
        for v in n.values:
            p, _, _ = self.expr(v)
            pre += p
        return pre, SC, SCK

    def e_FormattedValue(self, n):
        p, _, _ = self.expr(n.value)
        return p, SC, SCK

    def e_Name(self, n):
        v = self.var_of(n.id)
        if v is not None:
            k = self.kind_of_name(n.id)
            return [], (SC if k == SCK and n.id in self.spec else ('var', v)), k
        if self.is_nested_name(n.id):
            return self.closure_value(n)
        obj_known = hasattr(self.w.module, n.id) or hasattr(builtins, n.id)
        if obj_known:
            obj = getattr(self.w.module, n.id) if hasattr(self.w.module, n.id) else getattr(builtins, n.id)
            if isinstance(obj, types.FunctionType) and not getattr(self, 'in_key', False):
                return [self.conservative(n, 'function %s used as a value' % n.id)], SC, UNK
            if self.is_scalar_const(obj):
                return [], SC, SCK
            return [self.conservative(n, 'module-level object %s of type %s' % (n.id, type(obj).__name__))], SC, UNK
        return [self.conservative(n, 'unknown name %s' % n.id)], SC, UNK

    def e_Attribute(self, n):
        obj = self.module_object(n)
        if obj is not None:
            if self.is_scalar_const(obj) or hasattr(obj, 'DESCRIPTOR'):
                return [], SC, SCK
            return [self.conservative(n, 'module attribute of type %s' % type(obj).__name__)], SC, UNK
        pre, e, k = self.expr(n.value)
        if n.attr in self.w.scalar_attrs:
            return pre, SC, SCK
        if n.attr in self.w.pb_attrs:
            return pre, nav('field', e), PB
        return pre, nav('field', e), UNK

    def e_Subscript(self, n):
        pre, e, k = self.expr(n.value)
        if isinstance(n.slice, ast.Slice):
            p2, _, _ = self.slice_pre(n.slice)
            return pre + p2, e, (PY(PB) if k == PB else k)
        p2, _, _ = self.expr(n.slice)
        return pre + p2, nav('elem', e), kelem(k)

    def e_Starred(self, n):
        return self.expr(n.value)

    def _seq(self, elts):
        pre, es, k = [], [], BOT
        for x in elts:
            p, e, kk = self.expr(x)
            pre += p
            es.append(e)
            k = kjoin(k, kelem(kk) if isinstance(x, ast.Starred) else kk)
        return pre, tup(es), PY(k)

    def e_List(self, n):
        return self._seq(n.elts)

    e_Tuple = e_List
    e_Set = e_List

    def e_Dict(self, n):
        pre = []
        for k in n.keys:
            if k is not None:
                p, _, _ = self.expr(k)
                pre += p
        p, e, k = self._seq(n.values)
        return pre + p, e, k

    def e_BinOp(self, n):
        p1, a, ka = self.expr(n.left)
        p2, b, kb = self.expr(n.right)
        k = ka if is_py(ka) else kb if is_py(kb) else (SCK if (ka == SCK and kb == SCK) else UNK)
        if is_py(ka) and is_py(kb):
            k = kjoin(ka, kb)
        return p1 + p2, tup([a, b]), k

    def e_UnaryOp(self, n):
        p, e, k = self.expr(n.operand)
        if isinstance(n.op, ast.Not):
            return p, SC, SCK
        return p, e, k

    def e_Compare(self, n):
        pre, _, _ = self.expr(n.left)
        for c in n.comparators:
            p, _, _ = self.expr(c)
            pre += p
        return pre, SC, SCK

    def e_BoolOp(self, n):
        pre, es, k = [], [], BOT
        for i, v in enumerate(n.values):
            p, e, kk = self.expr(v)
            if i == 0:
                pre += p
            elif p:
                pre.append(ite(block(p), ('skip',)))
            es.append(e)
            k = kjoin(k, kk)
        if pre and any(x != SC for x in es[1:]) and len(pre) > 0:
            # operands evaluated conditionally: materialise through a temporary
            pass
        return pre, tup(es), k

    def e_IfExp(self, n):
        p0, _, _ = self.expr(n.test)
        p1, a, ka = self.expr(n.body)
        p2, b, kb = self.expr(n.orelse)
        if not p1 and not p2:
            return p0, tup([a, b]), kjoin(ka, kb)
        t = self.new_var('_ifexp%d' % n.lineno)
        return p0 + [ite(block(p1 + [('assign', t, a)]), block(p2 + [('assign', t, b)]))], ('var', t), kjoin(ka, kb)

    def e_NamedExpr(self, n):
        p, e, k = self.expr(n.value)
        return p + [self.store(n.target, e, k, n.value)], e, k

    def e_Lambda(self, n):
        # a lambda as a value: only the parameterless, effect-free form (defaultdict factories)
        if n.args.args or n.args.vararg or n.args.kwarg or n.args.kwonlyargs:
            return [self.conservative(n, 'lambda with parameters used as a value')], SC, UNK
        p, e, k = self.expr(n.body)
        return [loop(block(p))], e, k

    # ---- comprehensions
    def comprehension(self, n, elts):
        self.scopes.append({})
        acc = self.new_var('_acc%d' % n.lineno)
        kinds = [BOT]

        def gen(i):
            if i == len(n.generators):
                pre, es = [], []
                for x in elts:
                    p, e, k = self.expr(x)
                    pre += p
                    es.append(e)
                    kinds[0] = kjoin(kinds[0], k)
                new = tup([('var', acc)] + es)
                return block(pre + ([('assign', acc, new)] if new != ('var', acc) else []))
            g = n.generators[i]
            if g.is_async:
                return self.conservative(n, 'async comprehension')
            if i == 0:
                # the first iterable is evaluated in the enclosing scope
                sc = self.scopes.pop()
                pre, it, k = self.expr(g.iter)
                self.scopes.append(sc)
            else:
                pre, it, k = self.expr(g.iter)
            for nm in self._target_names(g.target):
                self.scopes[-1][nm] = self.new_var(nm + '@%d' % n.lineno)
                cname = '%s@%d' % (nm, n.lineno)
                self.comp_names[self.scopes[-1][nm]] = nm
            tmp = self.iter_temp(n.lineno, g.iter, k)
            bind = self.bind_target(g.target, g.iter, ('var', tmp), k)
            conds = []
            for c in g.ifs:
                p, _, _ = self.expr(c)
                conds += p
            inner = gen(i + 1)
            if g.ifs:
                inner = ite(inner, ('skip',))
            return block(pre + [('assign', tmp, it), loop(block([bind] + conds + [inner]))])
        self.comp_names = getattr(self, 'comp_names', {})
        body = gen(0)
        self.scopes.pop()
        return [('assign', acc, SC), body], ('var', acc), PY(kinds[0])

    @staticmethod
    def _target_names(t):
        if isinstance(t, ast.Name):
            return [t.id]
        if isinstance(t, (ast.Tuple, ast.List)):
            return [x for e in t.elts for x in FnTranslator._target_names(e)]
        if isinstance(t, ast.Starred):
            return FnTranslator._target_names(t.value)
        return []

    def e_ListComp(self, n):
        return self.comprehension(n, [n.elt])

    e_SetComp = e_ListComp
    e_GeneratorExp = e_ListComp

    def e_DictComp(self, n):
        return self.comprehension(n, [n.value])

    # ---- calls
    def args_pre(self, n, skip_kw=()):
        pre, es, ks = [], [], []
        for a in n.args:
            p, e, k = self.expr(a)
            pre += p
            es.append(e)
            ks.append(k)
        kes = {}
        for kw in n.keywords:
            if kw.arg in skip_kw:
                continue
            p, e, k = self.expr(kw.value)
            pre += p
            kes[kw.arg] = (e, k)
        return pre, es, ks, kes

    def key_lambda(self, n, it):
        """`key=` functions of sorted/min/max/sort: run on elements at the point of the call."""
        out = []
        for kw in n.keywords:
            if kw.arg != 'key':
                continue
            f = kw.value
            if isinstance(f, ast.Lambda) and len(f.args.args) == 1 and not f.args.vararg and not f.args.kwarg:
                self.scopes.append({})
                v = self.new_var(f.args.args[0].arg + '@key%d' % f.lineno)
                self.scopes[-1][f.args.args[0].arg] = v
                p, _, _ = self.expr(f.body)
                self.scopes.pop()
                if p:
                    out.append(loop(block([('assign', v, nav('elem', it))] + p)))
            elif isinstance(f, (ast.Name, ast.Attribute)) and self.module_function_name(f) is not None:
                # a function of this module as key: called on every element here
                try:
                    irname = self.w.ensure_op(self.module_function_name(f), {})
                    if irname not in self.op.callees:
                        self.op.callees.append(irname)
                    t = self.new_var('_key%d' % f.lineno)
                    nparams = len(self.w.functions[self.module_function_name(f)].args.args)
                    out.append(loop(('callOp', self.line(f), t, irname, tuple([nav('elem', it)] + [SC] * (nparams - 1)))))
                except Unsupported as ex:
                    out.append(self.conservative(f, str(ex)))
            else:
                p, e, _ = self.expr(f)
                out += p
                obj = self.module_object(f) if isinstance(f, (ast.Name, ast.Attribute)) else None
                trusted_call = isinstance(f, ast.Call)          # e.g. operator.itemgetter(0, 1): vetted by e_Call
                builtin = obj is not None and getattr(builtins, getattr(obj, '__name__', '\0'), None) is obj
                if e != SC or not (trusted_call or builtin):
                    out.append(self.conservative(f, 'key function that is not a lambda, a builtin or a trusted callable'))
        return out

    def e_Call(self, n):
        f = n.func
        # ---------------- builtins and local / module functions
        if isinstance(f, ast.Name):
            name = f.id
            if self.var_of(name) is not None:
                return self.call_unknown_callable(n)
            if self.is_nested_name(name):
                return self.call_nested(n, name)
            if hasattr(self.w.module, name):
                obj = getattr(self.w.module, name)
                if isinstance(obj, types.FunctionType) and obj.__module__ == self.w.module.__name__:
                    return self.call_module_function(n, name)
                return self.call_object(n, obj)
            if hasattr(builtins, name):
                return self.call_builtin(n, name)
            return [self.conservative(n, 'call of unknown name %s' % name)], SC, UNK
        if isinstance(f, ast.Attribute):
            obj = self.module_object(f)
            if obj is not None:
                return self.call_object(n, obj)
            if self.is_chain(f):
                pre, es, ks, _ = self.args_pre(n)
                return pre, tup(es), PY(UNK)
            return self.call_method(n)
        return [self.conservative(n, 'call of a computed callee')], SC, UNK

    def call_builtin(self, n, name):
        if any(kw.arg is None for kw in n.keywords):
            return [self.conservative(n, '**kwargs')], SC, UNK
        if name in SCALAR_BUILTINS or (isinstance(getattr(builtins, name), type)
                                       and issubclass(getattr(builtins, name), BaseException)):
            pre, _, _, _ = self.args_pre(n)
            return pre, SC, SCK
        if name in SAME_BUILTINS:
            pre, es, ks, _ = self.args_pre(n, skip_kw=('key', 'reverse'))
            e = tup(es)
            pre += self.key_lambda(n, e)
            k = PY(kelem(ks[0])) if ks else PY(BOT)
            return pre, e, k
        if name == 'zip':
            pre, es, ks, _ = self.args_pre(n)
            return pre, tup(es), PY(PY(UNK))
        if name in ('min', 'max'):
            pre, es, ks, _ = self.args_pre(n, skip_kw=('key', 'default'))
            for kw in n.keywords:
                if kw.arg == 'default':
                    p, e, k = self.expr(kw.value)
                    pre += p
                    es.append(e)
            if len(n.args) == 1:
                pre += self.key_lambda(n, es[0])
                return pre, tup([nav('elem', es[0])] + es[1:]), kelem(ks[0])
            pre += self.key_lambda(n, tup(es))
            k = BOT
            for kk in ks:
                k = kjoin(k, kk)
            return pre, tup(es), k
        if name == 'next':
            pre, es, ks, _ = self.args_pre(n)
            return pre, tup([nav('elem', es[0])] + es[1:]), kelem(ks[0])
        if name == 'getattr':
            pre, es, ks, _ = self.args_pre(n)
            # an attribute of a protobuf message is a scalar or a protobuf field (message / repeated container), whatever
            # its name: with a message as first argument the result is navigated like `obj.field` (harmless C02-6 reads the
            # containers of the fresh pieces by `getattr(s, field_name)`)
            if ks and ks[0] == PB and len(n.args) == 2:
                if isinstance(n.args[1], ast.Constant) and n.args[1].value in self.w.scalar_attrs:
                    return pre, SC, SCK
                return pre, nav('field', es[0]), PB
            return pre, tup([nav('field', es[0])] + es[2:]), UNK
        if name == 'setattr':
            pre, es, ks, _ = self.args_pre(n)
            return pre + [('write', self.line(n), es[0])], SC, SCK
        if name == 'filter' and len(n.args) == 2 and isinstance(n.args[0], ast.Constant):
            return self.expr(n.args[1])
        return [self.conservative(n, 'builtin %s' % name)], SC, UNK

    def call_object(self, n, obj):
        """call of an object resolved through module-level names (external function, class, …)."""
        import copy as _copy
        import collections as _collections
        import itertools as _itertools
        if any(kw.arg is None for kw in n.keywords) or any(isinstance(a, ast.Starred) for a in n.args) and obj is not _itertools.chain:
            return [self.conservative(n, '*args/**kwargs in a call')], SC, UNK
        if hasattr(obj, 'DESCRIPTOR') and isinstance(obj, type):
            pre, _, _, _ = self.args_pre(n)            # keyword values are copied into the new message
            return pre, ('fresh',), PB
        if obj is _copy.deepcopy:
            pre, es, ks, _ = self.args_pre(n)
            return pre, (SC if es[0] == SC else ('copyOf', es[0])), ks[0]
        if obj is _itertools.chain or obj == getattr(_itertools.chain, 'from_iterable', None):   # (a bound builtin: == , not `is`)
            pre, es, ks, _ = self.args_pre(n)
            return pre, tup(es), PY(UNK)
        if obj is _collections.defaultdict:
            if not n.args:
                return [], SC, PY(BOT)
            fac = n.args[0]
            if isinstance(fac, ast.Name) and fac.id in ('list', 'dict', 'set') and self.var_of(fac.id) is None:
                return [], SC, PY(PY(BOT))
            if isinstance(fac, ast.Name) and fac.id in ('int', 'float', 'bool', 'str') and self.var_of(fac.id) is None:
                return [], SC, PY(SCK)
            p, e, k = self.expr(fac)
            return p, e, PY(k)
        if obj in (_collections.OrderedDict, _collections.Counter, _collections.deque, dict, list, set, tuple):
            pre, es, ks, _ = self.args_pre(n)
            return pre, tup(es), (PY(kelem(ks[0])) if ks else PY(BOT))
        if getattr(obj, '__name__', '') == 'fromkeys' and getattr(obj, '__self__', None) in (
                dict, _collections.OrderedDict, _collections.defaultdict, _collections.Counter):
            # dict.fromkeys(iterable[, value]): a new Python container whose keys are the iterable's elements (aliases)
            pre, es, ks, _ = self.args_pre(n)
            return pre, tup(es), (PY(kelem(ks[0])) if ks else PY(BOT))
        if isinstance(obj, type) and issubclass(obj, BaseException):
            pre, _, _, _ = self.args_pre(n)
            return pre, SC, SCK
        qual = '%s.%s' % (getattr(obj, '__module__', '') or '', getattr(obj, '__qualname__', getattr(obj, '__name__', '')))
        mod = getattr(obj, '__module__', '') or ''
        if qual in TRUSTED_EXTERNAL_EXACT or any(mod == p or mod.startswith(p + '.') for p in TRUSTED_EXTERNAL_PREFIXES) \
                or (isinstance(obj, (types.BuiltinFunctionType,)) and (getattr(obj, '__self__', None) is not None)
                    and getattr(getattr(obj, '__self__', None), '__name__', '') in TRUSTED_EXTERNAL_PREFIXES):
            pre, _, _, _ = self.args_pre(n)
            self.w.trusted_calls.add(qual)
            return pre, SC, SCK
        if isinstance(obj, types.FunctionType) and obj.__module__ == self.w.module.__name__:
            return self.call_module_function(n, obj.__name__)
        if hasattr(builtins, getattr(obj, '__name__', '\0')) and getattr(builtins, obj.__name__) is obj:
            return self.call_builtin(n, obj.__name__)
        return [self.conservative(n, 'call of external %s' % qual)], SC, UNK

    def call_unknown_callable(self, n):
        """`f(...)` where f is a parameter / local variable: scalars in, scalar out."""
        pre, es, ks, kes = self.args_pre(n)
        if all(e == SC for e in es) and all(e == SC for e, _ in kes.values()):
            self.w.callable_params.add('%s.%s' % (self.qual, n.func.id))
            return pre, SC, SCK
        return pre + [self.conservative(n, 'callable value %s applied to a non-scalar argument' % n.func.id)], SC, UNK

    def map_args(self, n, params, defaults_ok):
        """positional / keyword arguments of a call -> one Expr per callee parameter."""
        if any(isinstance(a, ast.Starred) for a in n.args) or any(kw.arg is None for kw in n.keywords):
            return None
        pre, es, ks, kes = self.args_pre(n)
        if len(es) > len(params):
            return None
        out = list(es) + [None] * (len(params) - len(es))
        kout = list(ks) + [UNK] * (len(params) - len(es))
        for k, (e, kk) in kes.items():
            if k not in params or out[params.index(k)] is not None:
                return None
            out[params.index(k)] = e
            kout[params.index(k)] = kk
        self.last_arg_kinds = kout
        consts = {}
        for i, a in enumerate(n.args):
            if isinstance(a, ast.Constant):
                consts[params[i]] = a.value
        for kw in n.keywords:
            if isinstance(kw.value, ast.Constant):
                consts[kw.arg] = kw.value.value
        return pre, [SC if e is None else e for e in out], consts, {p for p, e in zip(params, out) if e is not None}

    def call_module_function(self, n, name):
        node = self.w.functions.get(name)
        if node is None:
            return [self.conservative(n, 'module function %s has no source' % name)], SC, UNK
        params = [x.arg for x in node.args.args] + [x.arg for x in node.args.kwonlyargs]
        m = self.map_args(n, params, True)
        if m is None:
            return [self.conservative(n, 'argument passing to %s' % name)], SC, UNK
        pre, es, consts, given = m
        spec = {}
        if 'in_place' in params:
            if 'in_place' in given and 'in_place' not in consts:
                return pre + [self.conservative(n, 'non-constant in_place')], SC, UNK
            spec = {'in_place': bool(consts.get('in_place', False))}
        # kind-specialised translation of the callee (what is known at THIS call site about each argument: protobuf
        # object / scalar / Python container of …), once the caller's own kinds are stable; a helper extracted from
        # an operation is then translated with the same knowledge the inlined statements had
        if self.phase != 'kinds':
            ks = tuple(kenc(k) for k in self.last_arg_kinds)
            if any(k != 'U' for k in ks):
                spec = dict(spec)
                spec['%kinds'] = ks
        try:
            irname = self.w.ensure_op(name, spec)
        except Unsupported as ex:
            return pre + [self.conservative(n, str(ex))], SC, UNK
        return self.emit_call(n, irname, pre, es)

    def emit_call(self, n, irname, pre, es):
        if irname not in self.op.callees:
            self.op.callees.append(irname)
        t = self.new_var('_r%d' % n.lineno)
        return pre + [('callOp', self.line(n), t, irname, tuple(es))], ('var', t), UNK

    def nested_op(self, name):
        """IR name of a locally defined function (translated on demand, closure-converted)."""
        owner = self
        while name not in owner.nested:
            owner = owner.outer
        if name in owner.nested_ops:
            return owner.nested_ops[name], owner
        node = owner.nested[name]
        irname = '%s.%s' % (owner.irname, name)
        inner_locals = FnTranslator._collect_locals(node) | {x.arg for x in node.args.args}
        free = []
        for x in ast.walk(node):
            if isinstance(x, ast.Name) and isinstance(x.ctx, ast.Load) and x.id not in inner_locals \
                    and x.id not in free and owner.scopes[0].get(x.id) is not None and x.id not in owner.nested:
                free.append(x.id)
        owner.nested_ops[name] = irname
        owner.nested_free = getattr(owner, 'nested_free', {})
        owner.nested_free[name] = free
        return irname, owner

    def ensure_nested_translated(self, name):
        """translate the local function once the enclosing function's kinds are known"""
        irname, owner = self.nested_op(name)
        if self.phase == 'final' or irname in self.w.in_progress:
            node = owner.nested[name]
            bad = [x for x in ast.walk(node) if isinstance(x, (ast.Nonlocal, ast.Global, ast.Yield, ast.YieldFrom))]
            self.w.translate_nested(irname, node, owner.nested_free[name], owner, bad)
        return irname, owner

    def call_nested(self, n, name):
        irname, owner = self.ensure_nested_translated(name)
        node = owner.nested[name]
        params = [x.arg for x in node.args.args]
        m = self.map_args(n, params, True)
        if m is None:
            return [self.conservative(n, 'argument passing to local function %s' % name)], SC, UNK
        pre, es, _, _ = m
        caps = []
        for c in owner.nested_free[name]:
            v = self.var_of(c)
            caps.append(('var', v) if v is not None else SC)
        return self.emit_call(n, irname, pre, es + caps)

    def closure_value(self, n):
        """a locally defined function used as a value (passed to a callee that will call it with scalars):
        analysed as if called, any number of times, where it is passed; its result must be a scalar."""
        irname, owner = self.ensure_nested_translated(n.id)
        node = owner.nested[n.id]
        op = self.w.ops.get(irname)
        nown = len(node.args.args)
        caps = []
        for c in owner.nested_free[n.id]:
            v = self.var_of(c)
            caps.append(('var', v) if v is not None else SC)
        if irname not in self.op.callees:
            self.op.callees.append(irname)
        t = self.new_var('_clo%d' % n.lineno)
        pre = [loop(('callOp', self.line(n), t, irname, tuple([SC] * nown + caps)))]
        if self.phase == 'final' and (op is None or any(r != SC for r in op.rets)):
            pre.append(self.conservative(n, 'local function %s escapes and does not return a scalar' % n.id))
        return pre, SC, SCK

    def call_method(self, n):
        f = n.func
        m = f.attr
        if any(kw.arg is None for kw in n.keywords):
            return [self.conservative(n, '**kwargs')], SC, UNK
        pre, r, rk = self.expr(f.value)
        if m == 'add' and (rk == PB or (rk in (UNK, BOT) and not n.args)):
            p2, _, _, _ = self.args_pre(n)
            return pre + p2 + [('write', self.line(n), r)], nav('elem', r), PB
        if m in PB_WRITE_METHODS:
            p2, _, _, _ = self.args_pre(n)
            return pre + p2 + [('write', self.line(n), r)], SC, SCK
        if m in PB_READ_METHODS:
            p2, _, _, _ = self.args_pre(n)
            return pre + p2, SC, SCK
        if m in CONTAINER_STORE:
            p2, es, ks, kes = self.args_pre(n)
            which = CONTAINER_STORE[m]
            vals = es if which == 'all' else es[-1:]
            asts = list(n.args) if which == 'all' else list(n.args[-1:])
            st = self.container_store(f.value, r, rk, vals, asts, n)
            if is_py(rk):
                self._note_store_kind(f.value, m, ks if which == 'all' else ks[-1:])
            res = nav('elem', tup([r] + vals)) if m == 'setdefault' else SC
            return pre + p2 + [st], res, (UNK if m == 'setdefault' else SCK)
        if m in CONTAINER_MUT_NOSTORE:
            p2, es, ks, _ = self.args_pre(n, skip_kw=('key', 'reverse'))
            p2 += self.key_lambda(n, r)
            kind = UNK if rk == BOT else rk
            out = []
            if not (is_py(kind) and self.root_local(f.value) is not None):
                out.append(('write', self.line(n), r))
            res, resk = (nav('elem', r), kelem(rk)) if m in CONTAINER_READ_ELEM else (SC, SCK)
            return pre + p2 + out, res, resk
        if m in CONTAINER_READ_SAME:
            p2, _, _, _ = self.args_pre(n)
            return pre + p2, r, (rk if is_py(rk) else PY(kelem(rk)))
        if m == 'get':
            p2, es, ks, _ = self.args_pre(n)
            return pre + p2, tup([nav('elem', r)] + es[1:]), kelem(rk)
        if m in SCALAR_METHODS:
            p2, _, _, _ = self.args_pre(n)
            return pre + p2, SC, SCK
        return pre + [self.conservative(n, 'method .%s()' % m)], SC, UNK

    def _note_store_kind(self, recv_ast, method, ks):
        """record the element kind a store gives to the root container variable."""
        root = self.root_local(recv_ast)
        if root is None:
            return
        depth = self.path_depth(recv_ast)
        k = BOT
        for kk in ks:
            k = kjoin(k, kelem(kk) if method in ('extend', 'update', 'extendleft') else kk)
        k = PY(k)
        for _ in range(depth):
            k = PY(k)
        if is_py(self.kind_of_name(root)) or self.kind_of_name(root) == BOT:
            self.note_kind(root, k)


def split_tuple_lists(fn):
    """AST pre-pass: a local bound ONCE to a list display of n-tuples and used ONLY as the iterable of loops that unpack
    n components (`pairs = [(a1, b1), (a2, b2)] … for x, y in pairs:`) is replaced by n parallel lists and a `zip`
    (`pairs__0 = [a1, a2]; pairs__1 = [b1, b2] … for x, y in zip(pairs__0, pairs__1):`).  Same objects reach the same
    loop variables in the same order (the displays are evaluated at the same point, component expressions are
    alias expressions or comprehensions of the translated fragment), but the provenance of the first components is
    no longer joined with that of the second ones — which is what made "list of (source events, destination containers)
    pairs" refactorings look like writes to the argument."""
    stores, loads, parents = {}, {}, {}
    for n in ast.walk(fn):
        for c in ast.iter_child_nodes(n):
            parents[c] = n
        if isinstance(n, ast.Name):
            (stores if isinstance(n.ctx, (ast.Store, ast.Del)) else loads).setdefault(n.id, []).append(n)
        elif isinstance(n, ast.arg):
            stores.setdefault(n.arg, []).append(n)
    plan = {}
    for name, st in stores.items():
        if len(st) != 1 or not isinstance(st[0], ast.Name):
            continue
        a = parents.get(st[0])
        if not (isinstance(a, ast.Assign) and len(a.targets) == 1 and a.targets[0] is st[0]
                and isinstance(a.value, (ast.List, ast.Tuple)) and a.value.elts):
            continue
        elts = a.value.elts
        if not all(isinstance(e, ast.Tuple) and not any(isinstance(x, ast.Starred) for x in e.elts) for e in elts):
            continue
        n = len(elts[0].elts)
        if n < 2 or any(len(e.elts) != n for e in elts):
            continue
        ok = bool(loads.get(name))
        for ld in loads.get(name, []):
            par = parents.get(ld)
            tgt = None
            if isinstance(par, ast.For) and par.iter is ld:
                tgt = par.target
            elif isinstance(par, ast.comprehension) and par.iter is ld:
                tgt = par.target
            if not (isinstance(tgt, (ast.Tuple, ast.List)) and len(tgt.elts) == n
                    and not any(isinstance(x, ast.Starred) for x in tgt.elts)):
                ok = False
        if ok and 'zip' not in stores:
            plan[name] = (a, n)
    class L(ast.NodeTransformer):
        """`for a, b in ((x1, y1), (x2, y2)):` (the display written directly in the loop header) -> two named parallel
        lists bound just before the loop and a `zip` of them"""
        n = 0

        def visit_For(self, node):
            self.generic_visit(node)
            it, tg = node.iter, node.target
            if (isinstance(it, (ast.Tuple, ast.List)) and it.elts and isinstance(tg, (ast.Tuple, ast.List))
                    and all(isinstance(e, ast.Tuple) and len(e.elts) == len(tg.elts) and len(tg.elts) >= 2
                            and not any(isinstance(x, ast.Starred) for x in e.elts) for e in it.elts)
                    and not any(isinstance(x, ast.Starred) for x in tg.elts) and 'zip' not in stores):
                L.n += 1
                names = ['__zl%d_%d_%d' % (node.lineno, L.n, k) for k in range(len(tg.elts))]
                pre = [ast.copy_location(ast.Assign(targets=[ast.Name(id=nm, ctx=ast.Store())],
                                                    value=ast.List(elts=[e.elts[k] for e in it.elts], ctx=ast.Load())), node)
                       for k, nm in enumerate(names)]
                node.iter = ast.copy_location(ast.Call(func=ast.Name(id='zip', ctx=ast.Load()),
                                                       args=[ast.Name(id=nm, ctx=ast.Load()) for nm in names], keywords=[]), it)
                return pre + [node]
            return node
    fn = L().visit(fn)
    ast.fix_missing_locations(fn)
    if not plan:
        return fn

    class T(ast.NodeTransformer):
        def visit_Assign(self, node):
            self.generic_visit(node)
            for name, (a, n) in plan.items():
                if node is a:
                    out = []
                    for k in range(n):
                        new = ast.Assign(targets=[ast.Name(id='%s__%d' % (name, k), ctx=ast.Store())],
                                         value=ast.List(elts=[e.elts[k] for e in node.value.elts], ctx=ast.Load()))
                        out.append(ast.copy_location(new, node))
                    return out
            return node

        def visit_Name(self, node):
            if isinstance(node.ctx, ast.Load) and node.id in plan:
                n = plan[node.id][1]
                call = ast.Call(func=ast.Name(id='zip', ctx=ast.Load()),
                                args=[ast.Name(id='%s__%d' % (node.id, k), ctx=ast.Load()) for k in range(n)], keywords=[])
                return ast.copy_location(call, node)
            return node
    fn = T().visit(fn)
    ast.fix_missing_locations(fn)
    return fn


def inline_private_helpers(fn, functions, listed, depth=0):
    """AST pre-pass: a statement-level call `x = _helper(args)` / `a, b = _helper(args)` / `_helper(args)` of a private
    module-level function that is straight enough (no early return: at most one `return`, as its last statement; no
    nested def / lambda / global / nonlocal / yield; not recursive; not one of the listed operations) is replaced by
    the helper's body with its locals renamed apart, the parameters bound to the argument expressions by plain
    assignments (Python passes references, and so does an assignment) and the returned expression assigned to the
    targets.  The reference behaviour is exactly that of the call.  This is what lets a helper that appends to a Python
    list OWNED BY ITS CALLER be analysed with the caller's knowledge of that list (a call boundary hides that the list
    is a local container whose mutation is not a write to a protobuf object)."""
    counter = [0]

    def eligible(name):
        node = functions.get(name)
        if node is None or not name.startswith('_') or name in listed or node.decorator_list:
            return None
        a = node.args
        if a.vararg or a.kwarg or a.posonlyargs or a.kwonlyargs:
            return None
        body = [x for x in node.body if not (isinstance(x, ast.Expr) and isinstance(x.value, ast.Constant))]
        rets = [x for x in ast.walk(node) if isinstance(x, ast.Return)]
        if len(rets) > 1 or (rets and (not body or body[-1] is not rets[0])):
            return None
        for x in ast.walk(node):
            if isinstance(x, (ast.FunctionDef, ast.Lambda, ast.Global, ast.Nonlocal, ast.Yield, ast.YieldFrom, ast.Try,
                              ast.With, ast.ClassDef)) and x is not node:
                return None
            if isinstance(x, ast.Call) and isinstance(x.func, ast.Name) and x.func.id == name:
                return None
        return node, body

    def expand(call, targets, at):
        if not (isinstance(call, ast.Call) and isinstance(call.func, ast.Name)):
            return None
        el = eligible(call.func.id)
        if el is None or any(isinstance(x, ast.Starred) for x in call.args) or any(k.arg is None for k in call.keywords):
            return None
        node, body = el
        params = [x.arg for x in node.args.args]
        if len(call.args) > len(params):
            return None
        defaults = dict(zip(params[len(params) - len(node.args.defaults):], node.args.defaults))
        actual = dict(zip(params, call.args))
        for k in call.keywords:
            if k.arg not in params or k.arg in actual:
                return None
            actual[k.arg] = k.value
        for q in params:
            if q not in actual:
                if q not in defaults or not isinstance(defaults[q], ast.Constant):
                    return None
                actual[q] = defaults[q]
        counter[0] += 1
        tag = '__%s_%d_%d' % (call.func.id.strip('_'), at.lineno, counter[0])
        local = set(params)
        for x in ast.walk(node):
            if isinstance(x, ast.Name) and isinstance(x.ctx, (ast.Store, ast.Del)):
                local.add(x.id)

        class Ren(ast.NodeTransformer):
            def visit_Name(self, n):
                if n.id in local:
                    return ast.copy_location(ast.Name(id=n.id + tag, ctx=n.ctx), n)
                return n
        import copy as _copy
        out = [ast.Assign(targets=[ast.Name(id=q + tag, ctx=ast.Store())], value=actual[q]) for q in params]
        for st in body:
            st = Ren().visit(_copy.deepcopy(st))
            if isinstance(st, ast.Return):
                if targets is not None:
                    out.append(ast.Assign(targets=targets, value=st.value if st.value is not None else ast.Constant(value=None)))
                elif st.value is not None:
                    out.append(ast.Expr(value=st.value))
            else:
                out.append(st)
        if targets is not None and not any(isinstance(x, ast.Return) for x in body):
            out.append(ast.Assign(targets=targets, value=ast.Constant(value=None)))
        for o in out:
            ast.copy_location(o, at)
            for sub in ast.walk(o):
                if not hasattr(sub, 'lineno'):
                    ast.copy_location(sub, at)
        return out

    class T(ast.NodeTransformer):
        def visit_Assign(self, n):
            self.generic_visit(n)
            r = expand(n.value, n.targets, n)
            return r if r is not None else n

        def visit_Expr(self, n):
            self.generic_visit(n)
            r = expand(n.value, None, n)
            return r if r is not None else n
    new = T().visit(fn)
    ast.fix_missing_locations(new)
    if counter[0] and depth < 2:
        return inline_private_helpers(new, functions, listed, depth + 1)
    return new


def beta_reduce_lambdas(fn):
    """AST pre-pass (after helper inlining): a local name that is bound exactly once, by `name = lambda p1, …, pn: body`,
    whose body is an effect-free expression (attribute / subscript loads, comparisons, boolean and arithmetic operators,
    names, constants, conditional expressions - no call, lambda, comprehension, walrus, await or yield) and whose every
    other occurrence is a direct call `name(a1, …, an)` with simple positional arguments (names, attribute chains,
    constants) has each call replaced by the body with the parameters replaced by the arguments, and the binding is
    dropped.  Python looks the free variables of a closure up when it is CALLED, in the scope of the function that
    created it, which is exactly where and when the substituted expression reads them; a comprehension is a scope of its
    own, so the reduction is not made when a free variable or an argument name could be captured by a comprehension
    variable.  Needed for helpers that take a predicate (harmless C14-6: `_split_notes(notes, lambda note: …)`)."""
    OK = (ast.Attribute, ast.Subscript, ast.Compare, ast.BoolOp, ast.UnaryOp, ast.BinOp, ast.Name, ast.Constant, ast.IfExp,
          ast.Load, ast.And, ast.Or, ast.Not, ast.USub, ast.UAdd, ast.Invert, ast.operator, ast.cmpop, ast.Tuple, ast.Index
          if hasattr(ast, 'Index') else ast.Tuple, ast.Slice)
    stores, lambdas = {}, {}
    for x in ast.walk(fn):
        if isinstance(x, ast.Name) and isinstance(x.ctx, (ast.Store, ast.Del)):
            stores[x.id] = stores.get(x.id, 0) + 1
        if isinstance(x, ast.arg):
            stores[x.arg] = stores.get(x.arg, 0) + 1
    comp_vars = set()
    for x in ast.walk(fn):
        if isinstance(x, ast.comprehension):
            comp_vars.update(t.id for t in ast.walk(x.target) if isinstance(t, ast.Name))
    for x in ast.walk(fn):
        if isinstance(x, ast.Assign) and len(x.targets) == 1 and isinstance(x.targets[0], ast.Name) \
                and isinstance(x.value, ast.Lambda) and stores.get(x.targets[0].id) == 1:
            lam = x.value
            a = lam.args
            if a.vararg or a.kwarg or a.kwonlyargs or a.posonlyargs or a.defaults or not a.args:
                continue
            if not all(isinstance(y, OK) for y in ast.walk(lam.body)):
                continue
            params = [q.arg for q in a.args]
            free = {y.id for y in ast.walk(lam.body) if isinstance(y, ast.Name)} - set(params)
            if free & comp_vars:
                continue
            lambdas[x.targets[0].id] = (params, lam.body, x)
    if not lambdas:
        return fn
    # every other occurrence of the name must be the function position of a call with simple positional arguments
    def simple(e):
        while isinstance(e, ast.Attribute):
            e = e.value
        return isinstance(e, (ast.Name, ast.Constant))
    calls = {name: [] for name in lambdas}
    uses = {name: 0 for name in lambdas}
    for x in ast.walk(fn):
        if isinstance(x, ast.Name) and isinstance(x.ctx, ast.Load) and x.id in lambdas:
            uses[x.id] += 1
        if isinstance(x, ast.Call) and isinstance(x.func, ast.Name) and x.func.id in lambdas:
            calls[x.func.id].append(x)
    good = set()
    for name, (params, body, _) in lambdas.items():
        cs = calls[name]
        if cs and uses[name] == len(cs) and all(
                not c.keywords and len(c.args) == len(params) and all(simple(e) for e in c.args) for c in cs):
            good.add(name)
    if not good:
        return fn
    import copy as _copy

    class Beta(ast.NodeTransformer):
        def visit_Call(self, n):
            self.generic_visit(n)
            if isinstance(n.func, ast.Name) and n.func.id in good:
                params, body, _ = lambdas[n.func.id]
                sub = dict(zip(params, n.args))

                class Sub(ast.NodeTransformer):
                    def visit_Name(self, m):
                        return _copy.deepcopy(sub[m.id]) if m.id in sub else m
                return ast.copy_location(Sub().visit(_copy.deepcopy(body)), n)
            return n

        def visit_Assign(self, n):
            if any(n is lambdas[g][2] for g in good):
                return ast.copy_location(ast.Pass(), n)
            self.generic_visit(n)
            return n
    new = Beta().visit(fn)
    ast.fix_missing_locations(new)
    return new


class World:
    """all operations translated from one module."""

    def __init__(self, module):
        self.module = module
        src = inspect.getsource(module)
        self.tree = ast.parse(src)
        self.line0 = 1
        raw = {n.name: n for n in self.tree.body if isinstance(n, ast.FunctionDef)}
        listed = {py for _, py, _, _ in LISTED}
        import copy as _copy
        self.functions = {name: split_tuple_lists(beta_reduce_lambdas(inline_private_helpers(_copy.deepcopy(n), raw, listed)))
                          for name, n in raw.items()}
        self.scalar_attrs, self.pb_attrs = schema_attrs()
        self.ops = {}
        self.in_progress = set()
        self.trusted_calls = set()
        self.callable_params = set()
        self.order = []

    def line0_of(self, tr):
        return 1

    @staticmethod
    def irname(name, spec):
        if not spec:
            return name
        r = name + ''.join('__%s' % k for k, v in sorted(spec.items()) if v and not k.startswith('%'))
        if spec.get('%kinds'):
            r += '__K' + '_'.join(spec['%kinds'])
        return r

    def ensure_op(self, name, spec):
        irname = self.irname(name, spec)
        if irname in self.ops:
            return irname
        if irname in self.in_progress:
            return irname                      # (mutual) recursion: the contract is assumed and re-verified in Lean
        node = self.functions.get(name)
        if node is None:
            raise Unsupported('no function %s in %s' % (name, self.module.__name__))
        if node.decorator_list:
            raise Unsupported('decorated function %s' % name)
        self.in_progress.add(irname)
        try:
            tr = FnTranslator(self, irname, node, spec)
            op = tr.translate()
        finally:
            self.in_progress.discard(irname)
        self.ops[irname] = op
        self.order.append(irname)
        return irname

    def translate_nested(self, irname, node, free, owner, bad):
        if irname in self.ops or irname in self.in_progress:
            return
        self.in_progress.add(irname)
        try:
            tr = FnTranslator(self, irname, node, {}, captured=free, outer=owner, qual=owner.qual + '.' + node.name)
            op = tr.translate()
            if bad:
                op.body = block([tr.conservative(bad[0], 'nonlocal/global/yield in local function'), op.body])
        finally:
            self.in_progress.discard(irname)
        self.ops[irname] = op
        self.order.append(irname)



# ----------------------------------------------------------------------------- provenance analysis
# Mirror of `absExpr` / `absStmt` of lean/NoteSeqVerif/Model/C11.lean, used to PROPOSE contracts and loop
# invariants (computed by joining to a fixpoint over the finite lattice).  Nothing here is trusted: the
# Lean checker `pureProg` verifies every proposal in one pass and is the subject of `pure_sound`.
V_BOT, V_IN, V_FR, V_BOTH = (False, False), (True, False), (False, True), (True, True)


def vjoin(a, b):
    return (a[0] or b[0], a[1] or b[1])


def vle(a, b):
    return (not a[0] or b[0]) and (not a[1] or b[1])


def eget(env, x):
    return env[x] if x < len(env) else V_BOT


def eset(env, x, a):
    env = list(env)
    while len(env) <= x:
        env.append(V_BOT)
    env[x] = a
    return env


def ejoin(a, b):
    n = max(len(a), len(b))
    return [vjoin(eget(a, i), eget(b, i)) for i in range(n)]


def ele(a, b):
    return all(vle(eget(a, i), eget(b, i)) for i in range(len(a)))


def abs_expr(aargs, env, e):
    t = e[0]
    if t == 'param':
        return eget(aargs, e[1])
    if t == 'var':
        return eget(env, e[1])
    if t in ('fresh', 'copyOf'):
        return V_FR
    if t in ('field', 'elem', 'proj'):
        return abs_expr(aargs, env, e[1])
    if t == 'tuple':
        r = V_BOT
        for x in e[1]:
            r = vjoin(r, abs_expr(aargs, env, x))
        return r
    return V_BOT


class Analysis:
    def __init__(self, contracts, aargs):
        self.cs, self.aargs, self.hints = contracts, aargs, {}

    def stmt(self, s, env):
        """-> (env after normal completion or None, provenance of returned values, failing lines)"""
        t = s[0]
        if t == 'skip':
            return env, V_BOT, []
        if t == 'assign':
            return eset(env, s[1], abs_expr(self.aargs, env, s[2])), V_BOT, []
        if t == 'write':
            return env, V_BOT, ([s[1]] if abs_expr(self.aargs, env, s[2])[0] else [])
        if t == 'seq':
            ret, bad = V_BOT, []
            for x in s[1]:
                env, r, b = self.stmt(x, env)
                ret, bad = vjoin(ret, r), bad + b
                if env is None:
                    break
            return env, ret, bad
        if t == 'ite':
            e1, r1, b1 = self.stmt(s[1], env)
            e2, r2, b2 = self.stmt(s[2], env)
            e = e2 if e1 is None else e1 if e2 is None else ejoin(e1, e2)
            return e, vjoin(r1, r2), b1 + b2
        if t == 'loop':
            cur = ejoin(env, self.hints.get(s[1], []))
            for _ in range(4 * len(cur) + 8):
                e, r, b = self.stmt(s[2], cur)
                post = e if e is not None else []
                if ele(post, cur):
                    break
                cur = ejoin(cur, post)
            self.hints[s[1]] = cur
            return cur, r, b
        if t == 'callOp':
            c = self.cs.get(s[3])
            if c is None:
                return eset(env, s[2], V_BOTH), V_BOT, [s[1]]
            actual = [abs_expr(self.aargs, env, a) for a in s[4]]
            return eset(env, s[2], c[1]), V_BOT, ([] if ele(actual, c[0]) else [s[1]])
        if t == 'raise':
            return None, V_BOT, []
        if t == 'ret':
            return None, abs_expr(self.aargs, env, s[1]), []
        raise ValueError(s)


def infer_contract(op, contracts):
    """(monovariant proposal, kept for reference / fallback) weakest precondition among: anything; anything
    but one wholly fresh argument; all fresh.  -> (pre, ret, hints, failing lines under that contract)"""
    n = len(op.params)
    cands = [[V_BOTH] * n] + [[V_FR if j == i else V_BOTH for j in range(n)] for i in range(n)] + [[V_FR] * n]
    first = None
    for pre in cands:
        ret = V_BOT
        for _ in range(4):                          # self-recursive operations: iterate the result
            cs = dict(contracts)
            cs[op.name] = (pre, ret)
            a = Analysis(cs, pre)
            _, r, bad = a.stmt(op.body, [])
            if vle(r, ret):
                break
            ret = vjoin(ret, r)
        cs = dict(contracts)
        cs[op.name] = (pre, ret)
        a = Analysis(cs, pre)
        _, r, bad = a.stmt(op.body, [])
        res = (pre, ret, a.hints, bad)
        if first is None:
            first = res
        if not bad and vle(r, ret):
            return res + (first[3],)
    return ([V_BOTH] * n, V_BOTH, first[2], first[3], first[3])


# ----------------------------------------------------------------------------- polyvariant contracts
# One contract per (operation, abstract argument vector) actually arising at a call site: a private helper such
# as `_copy_note_sequence(x)` or `_timed_event_lists(x)` is checked once for "x is an argument of the caller" and
# once for "x was allocated by the caller", instead of once for the join of all its callers (which made every
# extract-a-helper refactoring look like a mutation of the argument).  Each clone is an ordinary `OpDef` +
# `Contract` of the generated program, so the Lean checker and `pure_sound` are unchanged: the clones are
# PROPOSALS, verified by `checkList`.
class PolyAnalysis(Analysis):
    def __init__(self, poly, aargs, hints=None):
        Analysis.__init__(self, None, aargs)
        self.poly = poly
        if hints:
            self.hints = dict(hints)

    def stmt(self, s, env):
        if s[0] == 'callOp':
            actual = tuple(abs_expr(self.aargs, env, a) for a in s[4])
            clone, ret, ok = self.poly.contract_for(s[3], actual)
            return eset(env, s[2], ret if clone is not None else V_BOTH), V_BOT, ([] if ok else [s[1]])
        return Analysis.stmt(self, s, env)


def clone_name(name, pre):
    return name if all(a == V_BOTH for a in pre) else '%s@%s' % (name, ''.join(lean_val(a) for a in pre))


class Poly:
    def __init__(self, ops):
        self.ops = ops                       # IR name -> OpIR
        self.memo = {}                       # (name, pre) -> clone record
        self.order = []                      # clone names, callee first
        self.assumed = {}                    # (name, pre) in progress -> currently assumed result provenance
        self.by_clone = {}

    def contract_for(self, name, pre):
        """-> (clone name or None, result provenance, clone honours its contract)"""
        op = self.ops.get(name)
        if op is None:
            return None, V_BOTH, False
        n = len(op.params)
        pre = tuple(list(pre)[:n]) + (V_BOT,) * (n - len(pre))
        key = (name, pre)
        if key in self.memo:
            m = self.memo[key]
            return m['clone'], m['ret'], not m['bad']
        if key in self.assumed:
            return clone_name(name, pre), self.assumed[key], True
        self.assumed[key] = V_BOT
        hints = {}
        for _ in range(8):
            mark = len(self.order)
            a = PolyAnalysis(self, list(pre))
            _, r, bad = a.stmt(op.body, [])
            hints = a.hints
            if vle(r, self.assumed[key]):
                break
            self.assumed[key] = vjoin(self.assumed[key], r)
            for c in self.order[mark:]:      # computed under a stale assumption
                k = self.by_clone.pop(c)
                del self.memo[k]
            del self.order[mark:]
        ret = self.assumed[key]
        rec = {'clone': clone_name(name, pre), 'name': name, 'pre': list(pre), 'ret': ret, 'bad': [], 'hints': hints}
        self.memo[key] = rec                 # provisional, so that a self-call in the final pass resolves
        self.by_clone[rec['clone']] = key
        del self.assumed[key]
        callees = []
        env, r, bad, body = self.final(op.body, list(pre), [], hints, callees)
        if not vle(r, ret):
            bad = bad + [0]
        rec.update(bad=bad, body=body, callees=callees)
        self.order.append(rec['clone'])
        return rec['clone'], ret, not bad

    def final(self, s, aargs, env, hints, callees):
        """one pass in the order of the Lean checker `absStmt` (every statement evaluated once, a loop body at
        entry ⊔ proposed invariant): -> (env or None, returned provenance, failing lines, body with call targets
        replaced by the clones chosen for the provenance the checker will see)"""
        t = s[0]
        if t == 'callOp':
            actual = tuple(abs_expr(aargs, env, a) for a in s[4])
            clone, ret, ok = self.contract_for(s[3], actual)
            if clone is None:
                return eset(env, s[2], V_BOTH), V_BOT, [s[1]], s
            if clone not in callees:
                callees.append(clone)
            return eset(env, s[2], ret), V_BOT, ([] if ok else [s[1]]), ('callOp', s[1], s[2], clone, s[4])
        if t == 'seq':
            ret, bad, out = V_BOT, [], []
            for i, x in enumerate(s[1]):
                if env is None:
                    out.extend(s[1][i:])     # unreachable for the checker too (it stops at `none`)
                    break
                env, r, b, y = self.final(x, aargs, env, hints, callees)
                ret, bad = vjoin(ret, r), bad + b
                out.append(y)
            return env, ret, bad, ('seq', out)
        if t == 'ite':
            e1, r1, b1, y1 = self.final(s[1], aargs, env, hints, callees)
            e2, r2, b2, y2 = self.final(s[2], aargs, env, hints, callees)
            e = e2 if e1 is None else e1 if e2 is None else ejoin(e1, e2)
            return e, vjoin(r1, r2), b1 + b2, ('ite', y1, y2)
        if t == 'loop':
            cur = ejoin(env, hints.get(s[1], []))
            e, r, b, y = self.final(s[2], aargs, cur, hints, callees)
            post = e if e is not None else []
            return cur, r, b + ([] if ele(post, cur) else [0]), ('loop', s[1], y)
        a = Analysis({}, aargs)
        e, r, b = a.stmt(s, env)
        return e, r, b, s


def lean_val(a):
    return {V_BOT: 'N', V_IN: 'I', V_FR: 'F', V_BOTH: 'B'}[tuple(a)]


def lean_env(env):
    return '[' + ', '.join(lean_val(a) for a in env) + ']'


# ----------------------------------------------------------------------------- emission
def lean_expr(e):
    t = e[0]
    if t == 'scalar':
        return '.scalar'
    if t == 'fresh':
        return '.fresh'
    if t == 'param':
        return '(.param %d)' % e[1]
    if t == 'var':
        return '(.var %d)' % e[1]
    if t in ('copyOf', 'field', 'elem'):
        return '(.%s %s)' % (t, lean_expr(e[1]))
    if t == 'proj':
        return '(.proj %s %d)' % (lean_expr(e[1]), e[2])
    if t == 'tuple':
        return '(.tuple [%s])' % ', '.join(lean_expr(x) for x in e[1])
    raise ValueError(e)


def lean_stmt(s, ind, ix, hints):
    pad = '  ' * ind
    t = s[0]
    if t == 'skip':
        return pad + '.skip'
    if t == 'raise':
        return pad + '.raise'
    if t == 'assign':
        return pad + '.assign %d %s' % (s[1], lean_expr(s[2]))
    if t == 'write':
        return pad + '.write %d %s' % (s[1], lean_expr(s[2]))
    if t == 'ret':
        return pad + '.ret %s' % lean_expr(s[1])
    if t == 'callOp':
        return pad + '.callOp %d %d (ix %d) [%s]' % (s[1], s[2], ix(s[3]), ', '.join(lean_expr(x) for x in s[4]))
    if t == 'seq':
        return pad + '.block [\n' + ',\n'.join(lean_stmt(x, ind + 1, ix, hints) for x in s[1]) + ']'
    if t == 'ite':
        return pad + '.ite (\n' + lean_stmt(s[1], ind + 1, ix, hints) + ') (\n' + lean_stmt(s[2], ind + 1, ix, hints) + ')'
    if t == 'loop':
        return pad + '.loop %s (\n' % lean_env(hints.get(s[1], [])) + lean_stmt(s[2], ind + 1, ix, hints) + ')'
    raise ValueError(s)


def show_expr(e):
    t = e[0]
    if t in ('scalar', 'fresh'):
        return t
    if t in ('param', 'var'):
        return '%s%d' % ('p' if t == 'param' else 'v', e[1])
    if t in ('copyOf', 'field', 'elem'):
        return '%s(%s)' % (t, show_expr(e[1]))
    if t == 'proj':
        return 'proj%d(%s)' % (e[2], show_expr(e[1]))
    return '(' + ', '.join(show_expr(x) for x in e[1]) + ')'


def show_stmt(s, ind=0, names=None):
    pad = '  ' * ind
    t = s[0]
    nm = (lambda v: '%s#%d' % (names[v], v)) if names else (lambda v: 'v%d' % v)
    if t in ('skip', 'raise'):
        return pad + t
    if t == 'assign':
        return pad + '%s := %s' % (nm(s[1]), show_expr(s[2]))
    if t == 'write':
        return pad + 'WRITE@%d %s' % (s[1], show_expr(s[2]))
    if t == 'ret':
        return pad + 'ret %s' % show_expr(s[1])
    if t == 'callOp':
        return pad + '%s := CALL@%d %s(%s)' % (nm(s[2]), s[1], s[3], ', '.join(show_expr(x) for x in s[4]))
    if t == 'seq':
        return '\n'.join(show_stmt(x, ind, names) for x in s[1])
    if t == 'ite':
        return pad + 'either\n' + show_stmt(s[1], ind + 1, names) + '\n' + pad + 'or\n' + show_stmt(s[2], ind + 1, names)
    if t == 'loop':
        return pad + 'loop\n' + show_stmt(s[2], ind + 1, names)
    raise ValueError(s)


def count_nodes(s):
    t = s[0]
    if t == 'seq':
        return sum(count_nodes(x) for x in s[1])
    if t == 'ite':
        return 1 + count_nodes(s[1]) + count_nodes(s[2])
    if t == 'loop':
        return 1 + count_nodes(s[2])
    return 1


def lean_ident(name):
    return name.replace('.', '_').replace('@', '_at_')


INVALID = 99999


def translate_module(module=None):
    """-> (World, {listed IR name: slice (list of IR names, callee first, entry last) or None})"""
    if module is None:
        from note_seq import sequences_lib as module
    w = World(module)
    missing = {}
    for irname, pyname, spec, _ in LISTED:
        try:
            got = w.ensure_op(pyname, spec)
            assert got == irname, (got, irname)
        except Unsupported as ex:
            missing[irname] = str(ex)
    slices = {}
    for irname, _, _, _ in LISTED:
        if irname in missing:
            slices[irname] = None
            continue
        seen, out = set(), []

        def visit(x):
            if x in seen or x not in w.ops:
                return
            seen.add(x)
            for c in w.ops[x].callees:
                if c != x:
                    visit(c)
            out.append(x)
        visit(irname)
        slices[irname] = out
    return w, slices, missing


def analyse(w):
    """propose contracts (polyvariant: one clone per operation and abstract argument vector arising at a call
    site) and loop invariants.  -> (Poly, {listed IR name: (chosen clone record, record for 'any argument')})"""
    poly = Poly(w.ops)
    entries = {}
    for irname, _, _, _ in LISTED:
        op = w.ops.get(irname)
        if op is None:
            continue
        n = len(op.params)
        cands = [(V_BOTH,) * n] + [tuple(V_FR if j == i else V_BOTH for j in range(n)) for i in range(n)] + [(V_FR,) * n]
        first = chosen = None
        for pre in cands:
            poly.contract_for(irname, pre)
            rec = poly.memo[(irname, tuple(pre))]
            if first is None:
                first = rec
            if not rec['bad']:
                chosen = rec
                break
        entries[irname] = (chosen or first, first)
    return poly, entries


def generate_lean(module=None):
    """-> (text of Generated/C11.lean, info dict for the evidence)"""
    w, slices0, missing = translate_module(module)
    poly, entries = analyse(w)
    # keep only the clones reachable from a listed entry, callee first
    needed, order = set(), []

    def visit(c):
        if c in needed:
            return
        needed.add(c)
        rec = poly.memo[poly.by_clone[c]]
        for d in rec['callees']:
            if d != c:
                visit(d)
        order.append(c)
    for irname, _, _, _ in LISTED:
        if irname in entries:
            visit(entries[irname][0]['clone'])
    gids = {c: i for i, c in enumerate(order)}
    L = ['import NoteSeqVerif.Model.C11',
         '/-! GENERATED from %s on every run by gen/refir.py (harness/c11.py) — do not edit.' % w.module.__name__,
         'Reference / mutation IR of the sequence operations.  `ix` maps the global operation number used in the',
         'bodies to the position of that operation in the program slice being checked.  The lists after `.loop`',
         'and the contracts are PROPOSALS of the translator, verified by `pureProg`.  An operation called with',
         'arguments of different provenance appears once per provenance vector (`name@FB` = first argument freshly',
         'allocated by the caller, second anything): same body, call targets and invariants chosen for that context. -/',
         'namespace NSV.C11.Gen', 'open NSV.C11', 'set_option linter.unusedVariables false', '',
         'abbrev N := AbsVal.bot', 'abbrev I := AbsVal.input', 'abbrev F := AbsVal.fresh', 'abbrev B := AbsVal.both', '']
    info = {'ops': {}, 'conservative': [], 'missing': missing, 'trusted_external_calls': sorted(w.trusted_calls),
            'callable_parameters_assumed_scalar_to_scalar': sorted(w.callable_params),
            'scalar_attrs': len(w.scalar_attrs), 'pb_attrs': len(w.pb_attrs)}
    seen_base = set()
    for c in order:
        rec = poly.memo[poly.by_clone[c]]
        name = rec['name']
        op = w.ops[name]
        L.append('/-- `%s` (%s:%d)  params: %s' % (c, w.module.__name__.split('.')[-1] + '.py', op.line, ', '.join(op.params)))
        L.append('variables: ' + ' '.join('%d=%s' % (i, v) for i, v in enumerate(op.varnames)))
        for (ln, why) in op.conservative:
            L.append('CONSERVATIVE at line %d: %s' % (ln, why))
            if name not in seen_base:
                info['conservative'].append({'op': name, 'line': ln, 'why': why})
        seen_base.add(name)
        L.append('-/')
        L.append('def op_%s (ix : Nat → Nat) : OpDef := ⟨%s, %d,' % (lean_ident(c), '"%s"' % c, len(op.params)))
        L.append(lean_stmt(rec['body'], 1, lambda n: gids.get(n, INVALID), rec['hints']) + '⟩')
        L.append('def ct_%s : Contract := ⟨%s, %s⟩' % (lean_ident(c), lean_env(rec['pre']), lean_val(rec['ret'])))
        L.append('')
        info['ops'][c] = {'line': op.line, 'params': op.params, 'ir_nodes': count_nodes(op.body),
                          'writes': sum(1 for _ in _iter_kind(op.body, 'write')),
                          'calls': sorted(set(rec['callees'])), 'conservative': len(op.conservative),
                          'contract': '%s -> %s' % (''.join(lean_val(a) for a in rec['pre']), lean_val(rec['ret'])),
                          'pure': all(a == V_BOTH for a in rec['pre']) and not rec['bad'], 'fresh_result': not rec['ret'][0],
                          'failing_lines_under_contract': rec['bad'],
                          'failing_lines_for_any_argument': rec['bad'] if all(a == V_BOTH for a in rec['pre']) else None}
    slices = {}
    for irname, _, _, _ in LISTED:
        if irname not in entries:
            slices[irname] = None
            L.append('/-- `%s` could not be translated (%s): an empty program, so that the obligation fails -/' % (irname, missing.get(irname)))
            L.append('def ir_%s : Prog := ⟨[], [], 0⟩' % lean_ident(irname))
            L.append('')
            continue
        seen, sl = set(), []

        def visit2(c):
            if c in seen:
                return
            seen.add(c)
            for d in poly.memo[poly.by_clone[c]]['callees']:
                if d != c:
                    visit2(d)
            sl.append(c)
        visit2(entries[irname][0]['clone'])
        slices[irname] = sl
        pos = {gids[n]: i for i, n in enumerate(sl)}
        arms = ' '.join('| %d => %d' % (g, i) for g, i in sorted(pos.items()))
        L.append('/-- program slice of `%s`: %s -/' % (irname, ', '.join(sl)))
        L.append('def ir_%s : Prog :=' % lean_ident(irname))
        L.append('  let ix : Nat → Nat := fun g => match g with %s | _ => %d' % (arms, INVALID))
        L.append('  ⟨[%s], [%s], %d⟩' % (', '.join('op_%s ix' % lean_ident(n) for n in sl),
                                         ', '.join('ct_%s' % lean_ident(n) for n in sl), len(sl) - 1))
        L.append('')
    L.append('def allProgs : List (String × Prog) := [%s]' % ', '.join('("%s", ir_%s)' % (n, lean_ident(n)) for n, _, _, _ in LISTED))
    L.append('')
    L.append('end NSV.C11.Gen')
    info['slices'] = slices
    info['listed'] = {}
    for n, _, _, _ in LISTED:
        if n not in entries:
            info['listed'][n] = None
            continue
        chosen, first = entries[n]
        info['listed'][n] = {'pure': all(a == V_BOTH for a in chosen['pre']) and not chosen['bad'],
                             'fresh_result': not chosen['ret'][0],
                             'contract': '%s -> %s' % (''.join(lean_val(a) for a in chosen['pre']), lean_val(chosen['ret'])),
                             'failing_lines_for_any_argument': first['bad']}
    return '\n'.join(L) + '\n', info


def _iter_kind(s, kind):
    t = s[0]
    if t == kind:
        yield s
    if t == 'seq':
        for x in s[1]:
            yield from _iter_kind(x, kind)
    elif t == 'ite':
        yield from _iter_kind(s[1], kind)
        yield from _iter_kind(s[2], kind)
    elif t == 'loop':
        yield from _iter_kind(s[2], kind)


if __name__ == '__main__':
    import sys
    w, slices, missing = translate_module()
    want = sys.argv[1:] or list(w.order)
    for name in want:
        op = w.ops[name]
        print('=' * 20, name, op.params, 'callees', op.callees)
        for c in op.conservative:
            print('  CONSERVATIVE', c)
        print(show_stmt(op.body, 1, op.varnames))
    print('missing', missing)
