"""T2 translator: small pure Python functions -> Lean 4 definitions over `Int`.

Supported subset (anything else raises `Untranslatable`, which the calling check records
as a broken translator tie):
  * parameters are integers (a leading `self` is dropped; `self._x` becomes a parameter
    `self_x` in order of first use unless listed explicitly),
  * statements: `if/elif/else`, `return e`, `raise X(...)`, `x = e`, docstrings,
  * expressions: integer constants, names, module-level integer constants (resolved by
    *value* from the imported module, so a changed constant changes the Lean text),
    `+ - *`, `//` (Int.fdiv), `%` (Int.fmod), unary minus, `**` with literal exponent,
    comparisons incl. chained ones, `and/or/not`, `int(math.ceil(a / b))` (ceilDiv),
    calls to other translated functions (which must be non-raising).
Functions containing `raise` return `Except String Int` (error = exception class name);
others return `Int`.
"""
import ast
import inspect
import textwrap


class Untranslatable(Exception):
    pass


PRELUDE = '''/-- `int(math.ceil(a / b))` for integers with `b > 0` (exact-arithmetic reading) -/
def pyCeilDiv (a b : Int) : Int := - Int.fdiv (-a) b
'''


class FnTranslator:
    def __init__(self, fn, lean_name, env_module, known, self_params=None):
        self.fn, self.lean_name, self.mod, self.known = fn, lean_name, env_module, known
        src = textwrap.dedent(inspect.getsource(fn))
        self.node = ast.parse(src).body[0]
        self.self_params = list(self_params or [])
        self.raises = any(isinstance(n, ast.Raise) for n in ast.walk(self.node))
        self.params = [a.arg for a in self.node.args.args if a.arg != 'self']

    # ---- expressions
    def const(self, name):
        v = getattr(self.mod, name, None)
        if isinstance(v, bool) or not isinstance(v, int):
            raise Untranslatable('name %s is not an int constant' % name)
        return '(%d : Int)' % v

    def expr(self, e, local):
        if isinstance(e, ast.Constant) and isinstance(e.value, int) and not isinstance(e.value, bool):
            return '(%d : Int)' % e.value
        if isinstance(e, ast.Name):
            if e.id in local:
                return local[e.id]            # a parameter, or the expression a local was assigned (substituted)
            return self.const(e.id)
        if isinstance(e, ast.Attribute):
            if isinstance(e.value, ast.Name) and e.value.id == 'self':
                nm = 'self' + e.attr
                if nm not in self.self_params:
                    self.self_params.append(nm)
                return nm
            # module.CONST
            if isinstance(e.value, ast.Name):
                m = getattr(self.mod, e.value.id, None)
                v = getattr(m, e.attr, None)
                if isinstance(v, int) and not isinstance(v, bool):
                    return '(%d : Int)' % v
            raise Untranslatable(ast.dump(e))
        if isinstance(e, ast.UnaryOp) and isinstance(e.op, ast.USub):
            return '(-%s)' % self.expr(e.operand, local)
        if isinstance(e, ast.BinOp):
            a, b = self.expr(e.left, local), self.expr(e.right, local)
            if isinstance(e.op, ast.Add):
                return '(%s + %s)' % (a, b)
            if isinstance(e.op, ast.Sub):
                return '(%s - %s)' % (a, b)
            if isinstance(e.op, ast.Mult):
                return '(%s * %s)' % (a, b)
            if isinstance(e.op, ast.FloorDiv):
                return '(Int.fdiv %s %s)' % (a, b)
            if isinstance(e.op, ast.Mod):
                return '(Int.fmod %s %s)' % (a, b)
            if isinstance(e.op, ast.Pow) and isinstance(e.right, ast.Constant):
                return '(%s ^ %d)' % (a, e.right.value)
            raise Untranslatable(ast.dump(e.op))
        if isinstance(e, ast.Call):
            # int(math.ceil(a / b))
            if (isinstance(e.func, ast.Name) and e.func.id == 'int' and len(e.args) == 1
                    and isinstance(e.args[0], ast.Call)
                    and isinstance(e.args[0].func, ast.Attribute) and e.args[0].func.attr == 'ceil'
                    and isinstance(e.args[0].args[0], ast.BinOp)
                    and isinstance(e.args[0].args[0].op, ast.Div)):
                d = e.args[0].args[0]
                return '(pyCeilDiv %s %s)' % (self.expr(d.left, local), self.expr(d.right, local))
            if isinstance(e.func, ast.Name) and e.func.id in self.known:
                k = self.known[e.func.id]
                if k['raises']:
                    raise Untranslatable('call to raising function in expression')
                return '(%s %s)' % (k['lean'], ' '.join(self.expr(a, local) for a in e.args))
            raise Untranslatable(ast.dump(e))
        raise Untranslatable(ast.dump(e))

    def cond(self, e, local):
        if isinstance(e, ast.Compare):
            parts, left = [], e.left
            for op, right in zip(e.ops, e.comparators):
                a, b = self.expr(left, local), self.expr(right, local)
                sym = {ast.Lt: '<', ast.LtE: '≤', ast.Gt: '>', ast.GtE: '≥', ast.Eq: '=', ast.NotEq: '≠'}.get(type(op))
                if sym is None:
                    raise Untranslatable(ast.dump(op))
                parts.append('%s %s %s' % (a, sym, b))
                left = right
            return '(' + ' ∧ '.join(parts) + ')'
        if isinstance(e, ast.BoolOp):
            j = ' ∧ ' if isinstance(e.op, ast.And) else ' ∨ '
            return '(' + j.join(self.cond(v, local) for v in e.values) + ')'
        if isinstance(e, ast.UnaryOp) and isinstance(e.op, ast.Not):
            return '(¬ %s)' % self.cond(e.operand, local)
        raise Untranslatable(ast.dump(e))

    # ---- statements
    def block(self, stmts, local, indent):
        pad = '  ' * indent
        if not stmts:
            raise Untranslatable('control falls off the end of %s' % self.lean_name)
        s, rest = stmts[0], stmts[1:]
        if isinstance(s, ast.Expr) and isinstance(s.value, ast.Constant) and isinstance(s.value.value, str):
            return self.block(rest, local, indent)
        if isinstance(s, ast.Return):
            v = self.expr(s.value, local)
            return pad + ('.ok %s' % v if self.raises else v)
        if isinstance(s, ast.Raise):
            exc = s.exc.func.id if isinstance(s.exc, ast.Call) else s.exc.id
            return pad + '.error "%s"' % exc
        if isinstance(s, ast.Assign) and len(s.targets) == 1 and isinstance(s.targets[0], ast.Name):
            nm = s.targets[0].id
            # locals are SUBSTITUTED into their uses (no `let`): the generated term does not depend on which intermediate
            # results the Python names (harmless rewrite C07-1 named the bin size and broke the proofs that unfold the definitions)
            return self.block(rest, {**local, nm: self.expr(s.value, local)}, indent)
        if isinstance(s, ast.If):
            c = self.cond(s.test, local)
            then = self.block(s.body, local, indent + 1)
            els = self.block(s.orelse if s.orelse else rest, local, indent + 1)
            if s.orelse and rest:
                raise Untranslatable('statements after if/else')
            return pad + 'if %s then\n%s\n%selse\n%s' % (c, then, pad, els)
        raise Untranslatable(ast.dump(s))

    def translate(self):
        local = {p: p for p in self.params}
        body = self.block(self.node.body, local, 1)
        params = self.self_params + self.params
        ret = 'Except String Int' if self.raises else 'Int'
        sig = ' '.join('(%s : Int)' % p for p in params)
        return 'def %s %s : %s :=\n%s\n' % (self.lean_name, sig, ret, body), params


def translate_functions(specs, module):
    """specs: list of (python function object, lean name, self_params list|None).
    Returns (lean text, info dict name -> {lean, params, raises})."""
    known, out = {}, [PRELUDE]
    for fn, lean_name, self_params in specs:
        tr = FnTranslator(fn, lean_name, module, known, self_params)
        text, params = tr.translate()
        known[fn.__name__] = {'lean': lean_name, 'params': params, 'raises': tr.raises}
        out.append(text)
    return '\n'.join(out), known
