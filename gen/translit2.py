"""T2 translator, second generation: small Python functions with FLOAT arithmetic -> Lean 4 definitions over
`Int` / `Rat`, parametric in the rounding operator `R : Rat → Rat` that is applied after every float operation
(exactly the convention of the hand-written models, DESIGN 2.3).

The translation is a *symbolic execution* of the function body, not a statement-by-statement transcription:
local variables are substituted into their uses, private module-level helpers that are called are executed
symbolically with the actual arguments, `if/elif/else`, guard clauses and early returns all become one decision
tree.  The generated term is therefore invariant under the usual behaviour-preserving refactorings (renaming or
introducing locals, extracting or inlining a helper, restructuring branches), and changes exactly when an
arithmetic operation, its operands, their order, a constant or a comparison changes.

Supported (anything else raises `Untranslatable`; the calling check records a translator give-up, which is not by
itself a violation because the differential correspondence still ties the hand-written model to the code):
  * parameters declared 'int' or 'float' by the caller; attribute / subscript paths and calls such as
    `len(samples)` mapped to extra parameters by the caller (`paths`),
  * int and float literals (floats as their exact rational value), module-level int/float constants (by VALUE),
  * `+ - *` (exact on ints, rounded when an operand is a float), `/` (always a float operation, rounded),
    `//` and `%` on ints, unary minus, `**` with a literal exponent on ints,
  * `int(x)` (truncation toward zero), `float(i)`, `math.ceil`, `math.floor`, `abs`, two-argument `min`/`max`,
  * comparisons (also chained), `and`/`or`/`not` on comparisons, conditional expressions,
  * statements: docstrings, assignments to plain names, augmented assignments, `if/elif/else`, `return`, `raise`,
    `assert` (ignored), calls listed by the caller as guards (ignored),
  * in `partial` mode the execution stops silently at the first unsupported statement and the values of the
    requested locals are exported (for functions whose tail is numpy / protobuf code).
"""
import ast
import inspect
import re
import textwrap
from fractions import Fraction


class Untranslatable(Exception):
    pass


def rat_lit(x):
    f = Fraction(x)
    if f.denominator == 1:
        return '(%d : Rat)' % f.numerator if f.numerator >= 0 else '(-%d : Rat)' % -f.numerator
    return '(%d / %d : Rat)' % (f.numerator, f.denominator)


def to_rat(v):
    t, s = v
    if t == 'float':
        return s
    if t == 'int':
        m = re.match(r'^\((-?)(\d+) : Int\)$', s)
        if m:                                    # an int literal used in a float operation: the same rational literal
            return '(%s%s : Rat)' % (m.group(1), m.group(2))
        return '((%s : Int) : Rat)' % s
    raise Untranslatable('a %s where a number is needed' % t)


class Sym:
    def __init__(self, module, param_types, paths=None, guards=(), depth=0, vocab=None):
        self.mod, self.ptypes, self.paths, self.guards, self.depth = module, dict(param_types), dict(paths or {}), set(guards), depth
        self.used_paths = []
        # Lean names for float abs / max / min / round (the vocabulary of the model the bridge theorem targets)
        self.vocab = dict(vocab or {})

    # ------------------------------------------------------------------ expressions
    def path_param(self, e):
        try:
            key = ast.unparse(e)
        except Exception:
            return None
        if key in self.paths:
            nm, ty = self.paths[key]
            if (nm, ty) not in self.used_paths:
                self.used_paths.append((nm, ty))
            return (ty, nm)
        return None

    def const(self, v, what):
        if isinstance(v, bool):
            return ('bool', 'True' if v else 'False')
        if isinstance(v, int):
            return ('int', '(%d : Int)' % v if v >= 0 else '(-%d : Int)' % -v)
        if isinstance(v, float):
            if v != v or v in (float('inf'), float('-inf')):
                raise Untranslatable('non-finite constant %s' % what)
            return ('float', rat_lit(v))
        raise Untranslatable('%s is not a numeric constant' % what)

    def expr(self, e, env):
        p = self.path_param(e)
        if p is not None:
            return p
        if isinstance(e, ast.Constant):
            return self.const(e.value, repr(e.value))
        if isinstance(e, ast.Name):
            if e.id in env:
                if env[e.id][0] == 'unknown':
                    raise Untranslatable('%s was bound by a statement outside the arithmetic fragment' % e.id)
                return env[e.id]
            if hasattr(self.mod, e.id):
                return self.const(getattr(self.mod, e.id), e.id)
            raise Untranslatable('unknown name %s' % e.id)
        if isinstance(e, ast.Attribute):
            if isinstance(e.value, ast.Name) and e.value.id not in env:
                m = getattr(self.mod, e.value.id, None)
                if m is not None and hasattr(m, e.attr):
                    return self.const(getattr(m, e.attr), ast.unparse(e))
            raise Untranslatable('attribute %s' % ast.unparse(e))
        if isinstance(e, ast.UnaryOp):
            if isinstance(e.op, ast.USub):
                t, s = self.expr(e.operand, env)
                if t not in ('int', 'float'):
                    raise Untranslatable('minus on %s' % t)
                return (t, '(-%s)' % s)
            if isinstance(e.op, ast.UAdd):
                return self.expr(e.operand, env)
            if isinstance(e.op, ast.Not):
                return ('bool', '(¬ %s)' % self.cond(e.operand, env))
            raise Untranslatable(ast.dump(e.op))
        if isinstance(e, ast.BinOp):
            a, b = self.expr(e.left, env), self.expr(e.right, env)
            for v in (a, b):
                if v[0] not in ('int', 'float'):
                    raise Untranslatable('arithmetic on %s' % v[0])
            both_int = a[0] == 'int' and b[0] == 'int'
            sym = {ast.Add: '+', ast.Sub: '-', ast.Mult: '*'}.get(type(e.op))
            if sym:
                if both_int:
                    return ('int', '(%s %s %s)' % (a[1], sym, b[1]))
                return ('float', '(R (%s %s %s))' % (to_rat(a), sym, to_rat(b)))
            if isinstance(e.op, ast.Div):
                return ('float', '(R (%s / %s))' % (to_rat(a), to_rat(b)))
            if isinstance(e.op, ast.FloorDiv) and both_int:
                return ('int', '(Int.fdiv %s %s)' % (a[1], b[1]))
            if isinstance(e.op, ast.Mod) and both_int:
                return ('int', '(Int.fmod %s %s)' % (a[1], b[1]))
            if isinstance(e.op, ast.Pow) and both_int and isinstance(e.right, ast.Constant) and e.right.value >= 0:
                return ('int', '(%s ^ %d)' % (a[1], e.right.value))
            raise Untranslatable('operator %s on %s, %s' % (type(e.op).__name__, a[0], b[0]))
        if isinstance(e, (ast.Compare, ast.BoolOp)):
            return ('bool', self.cond(e, env))
        if isinstance(e, ast.IfExp):
            c = self.cond(e.test, env)
            a, b = self.expr(e.body, env), self.expr(e.orelse, env)
            if a[0] != b[0]:
                a, b = ('float', to_rat(a)), ('float', to_rat(b))
            return (a[0], '(if %s then %s else %s)' % (c, a[1], b[1]))
        if isinstance(e, ast.Call):
            return self.call(e, env)
        if isinstance(e, ast.Tuple) and e.elts and not any(isinstance(x, ast.Starred) for x in e.elts):
            vs = [self.expr(x, env) for x in e.elts]
            if all(v[0] in ('int', 'float') for v in vs):
                return ('tuple:' + ' × '.join(LEAN_T[v[0]] for v in vs), '(' + ', '.join(v[1] for v in vs) + ')')
        raise Untranslatable(type(e).__name__ + ' ' + ast.unparse(e)[:60])

    def call(self, e, env):
        if e.keywords and not (isinstance(e.func, ast.Name) and callable(getattr(self.mod, e.func.id, None))):
            raise Untranslatable('keyword arguments in %s' % ast.unparse(e)[:60])
        fn = ast.unparse(e.func)
        args = e.args
        if fn == 'int' and len(args) == 1:
            t, s = self.expr(args[0], env)
            if t == 'int':
                return (t, s)
            if t == 'float':
                return ('int', '(truncR %s)' % s)
        if fn == 'float' and len(args) == 1:
            t, s = self.expr(args[0], env)
            if t in ('int', 'float'):
                return ('float', to_rat((t, s)))     # exact for |i| < 2^53 (recorded as an assumption)
        if fn in ('math.ceil', 'math.floor') and len(args) == 1:
            t, s = self.expr(args[0], env)
            if t == 'int':
                return (t, s)
            if t == 'float':
                return ('int', '(Rat.%s %s)' % (fn.split('.')[1], s))
        if fn == 'abs' and len(args) == 1:
            t, s = self.expr(args[0], env)
            if t == 'int':
                return (t, '((Int.natAbs %s : Nat) : Int)' % s)
            if t == 'float':
                if self.vocab.get('abs'):
                    return (t, '(%s %s)' % (self.vocab['abs'], s))
                return (t, '(if %s < 0 then -%s else %s)' % (s, s, s))
        if fn == 'round' and len(args) == 1 and self.vocab.get('round'):
            t, s = self.expr(args[0], env)
            if t == 'int':
                return (t, s)
            if t == 'float':
                return ('int', '(%s %s)' % (self.vocab['round'], s))     # Python 3 round(): half to even, an int
        if fn in ('min', 'max') and len(args) == 2:
            a, b = self.expr(args[0], env), self.expr(args[1], env)
            if 'float' in (a[0], b[0]) and a[0] in ('int', 'float') and b[0] in ('int', 'float') and self.vocab.get(fn):
                # (a mixed int/float pair returns one of the two VALUES; as rationals they are what Python returns)
                return ('float', '(%s %s %s)' % (self.vocab[fn], to_rat(a), to_rat(b)))
            if a[0] == b[0] and a[0] in ('int', 'float'):
                # Python's min(a, b) = b if b < a else a and Lean's `min a b` = if a ≤ b then a else b are the same VALUE
                # on a linear order (they differ only in which of two equal arguments is returned)
                return (a[0], '(%s %s %s)' % (fn, a[1], b[1]))
        # private helper of the same module (or a sibling local function): execute it symbolically with the actual arguments
        if isinstance(e.func, ast.Name) and e.func.id not in env:
            callee = getattr(self.mod, e.func.id, None)
            sib = getattr(self, 'siblings', {}).get(e.func.id)
            if (sib is not None or (inspect.isfunction(callee) and callee.__module__ == self.mod.__name__)) and self.depth < 4:
                node = sib if sib is not None else ast.parse(textwrap.dedent(inspect.getsource(callee))).body[0]
                names = [a.arg for a in node.args.args]
                defaults = dict(zip(names[len(names) - len(node.args.defaults):], node.args.defaults))
                if len(args) > len(names) or node.args.vararg or node.args.kwarg:
                    raise Untranslatable('argument passing to %s' % fn)
                cenv = {}
                for nm, a in zip(names, args):
                    cenv[nm] = self.expr(a, env)
                for kw in e.keywords:
                    if kw.arg not in names or kw.arg in cenv:
                        raise Untranslatable('argument passing to %s' % fn)
                    cenv[kw.arg] = self.expr(kw.value, env)
                for nm in names:
                    if nm not in cenv:
                        if nm not in defaults:
                            raise Untranslatable('missing argument %s of %s' % (nm, fn))
                        cenv[nm] = self.expr(defaults[nm], {})
                sub = Sym(self.mod, {}, self.paths, self.guards, self.depth + 1, self.vocab)
                sub.siblings = getattr(self, 'siblings', {})
                sub.closure = getattr(self, 'closure', {})
                cenv.update({k: v for k, v in sub.closure.items() if k not in cenv})
                tree = sub.block(node.body, cenv, False, [])
                return self.tree_value(tree, fn)
        raise Untranslatable('call %s' % ast.unparse(e)[:60])

    def tree_value(self, tree, fn):
        """the value of a helper whose every path returns: a decision tree of returns as a conditional VALUE"""
        if tree[0] == 'ret':
            return tree[1]
        if tree[0] == 'if':
            a, b = self.tree_value(tree[2], fn), self.tree_value(tree[3], fn)
            if a[0] != b[0]:
                a, b = ('float', to_rat(a)), ('float', to_rat(b))
            return (a[0], '(if %s then %s else %s)' % (tree[1], a[1], b[1]))
        raise Untranslatable('helper %s raises' % fn)

    def cond(self, e, env):
        if isinstance(e, ast.Compare):
            parts, left = [], self.expr(e.left, env)
            for op, right in zip(e.ops, e.comparators):
                r = self.expr(right, env)
                sym = {ast.Lt: '<', ast.LtE: '≤', ast.Gt: '>', ast.GtE: '≥', ast.Eq: '=', ast.NotEq: '≠'}.get(type(op))
                if sym is None:
                    raise Untranslatable(type(op).__name__)
                if left[0] == r[0] and left[0] in ('int', 'float'):
                    parts.append('%s %s %s' % (left[1], sym, r[1]))
                else:
                    parts.append('%s %s %s' % (to_rat(left), sym, to_rat(r)))     # Python compares int and float exactly
                left = r
            return '(' + ' ∧ '.join(parts) + ')'
        if isinstance(e, ast.BoolOp):
            j = ' ∧ ' if isinstance(e.op, ast.And) else ' ∨ '
            return '(' + j.join(self.cond(v, env) for v in e.values) + ')'
        if isinstance(e, ast.UnaryOp) and isinstance(e.op, ast.Not):
            return '(¬ %s)' % self.cond(e.operand, env)
        t, s = self.expr(e, env)
        if t == 'bool':
            return s
        if t == 'int':
            return '(%s ≠ 0)' % s                     # truthiness of a number
        if t == 'float':
            return '(%s ≠ 0)' % s
        raise Untranslatable('condition ' + ast.unparse(e)[:60])

    # ------------------------------------------------------------------ statements
    def block(self, stmts, env, partial, want):
        """-> ('ret', value) | ('raise', exception name) | ('if', cond, tree, tree) | ('cut', {local: value})"""
        env = dict(env)
        for i, s in enumerate(stmts):
            rest = stmts[i + 1:]
            try:
                if isinstance(s, ast.Expr) and isinstance(s.value, ast.Constant):
                    continue
                if isinstance(s, ast.Assert) or isinstance(s, ast.Pass):
                    continue
                if isinstance(s, ast.Expr) and isinstance(s.value, ast.Call) and ast.unparse(s.value.func) in self.guards:
                    continue
                if isinstance(s, ast.Return):
                    if s.value is None:
                        raise Untranslatable('bare return')
                    return ('ret', self.expr(s.value, env))
                if isinstance(s, ast.Raise):
                    exc = s.exc.func if isinstance(s.exc, ast.Call) else s.exc
                    return ('raise', ast.unparse(exc).split('.')[-1])
                if isinstance(s, ast.Assign) and len(s.targets) == 1 and isinstance(s.targets[0], ast.Name):
                    env[s.targets[0].id] = self.expr(s.value, env)
                    continue
                if isinstance(s, ast.AnnAssign) and isinstance(s.target, ast.Name) and s.value is not None:
                    env[s.target.id] = self.expr(s.value, env)
                    continue
                if isinstance(s, ast.AugAssign) and isinstance(s.target, ast.Name):
                    env[s.target.id] = self.expr(ast.BinOp(left=ast.Name(id=s.target.id, ctx=ast.Load()), op=s.op, right=s.value), env)
                    continue
                if isinstance(s, ast.If) and not any(isinstance(x, (ast.Return, ast.Raise)) for b in (s.body, s.orelse)
                                                     for st in b for x in ast.walk(st)):
                    # both branches fall through: merge the environments into conditional VALUES (phi nodes) instead
                    # of duplicating the continuation — `if c: x += 1` becomes x := if c then x + 1 else x
                    c = self.cond(s.test, env)
                    e1, e2 = self.straight(s.body, env), self.straight(s.orelse, env)
                    for k in set(e1) | set(e2):
                        a, b = e1.get(k), e2.get(k)
                        if a == b:
                            env[k] = a
                        elif a is None or b is None or 'unknown' in (a[0], b[0]):
                            env[k] = ('unknown', k)
                        else:
                            if a[0] != b[0]:
                                a, b = ('float', to_rat(a)), ('float', to_rat(b))
                            env[k] = (a[0], '(if %s then %s else %s)' % (c, a[1], b[1]))
                    continue
                if isinstance(s, ast.If):
                    c = self.cond(s.test, env)
                    then = self.block(list(s.body) + list(rest), env, partial, want)
                    els = self.block(list(s.orelse) + list(rest), env, partial, want)
                    if then == els:
                        return then
                    return ('if', c, then, els)
                raise Untranslatable(type(s).__name__ + ': ' + ast.unparse(s)[:80])
            except Untranslatable:
                if not partial:
                    raise
                # partial mode: a simple statement outside the arithmetic fragment (protobuf / numpy code) is stepped
                # over; the names it binds become unknown (a later use of one of them ends the execution)
                if isinstance(s, (ast.Assign, ast.AugAssign, ast.AnnAssign, ast.Expr, ast.Delete)):
                    tg = s.targets if isinstance(s, (ast.Assign, ast.Delete)) else [getattr(s, 'target', None)]
                    for t in tg:
                        for nme in ast.walk(t) if t is not None else []:
                            if isinstance(nme, ast.Name) and isinstance(nme.ctx, (ast.Store, ast.Del)):
                                env[nme.id] = ('unknown', nme.id)
                    continue
                return self._cut(env, want)
        if partial:
            return self._cut(env, want)
        raise Untranslatable('control falls off the end')

    def straight(self, stmts, env):
        """environment after a statement list without return / raise (assignments and nested fall-through ifs)"""
        r = self.block(list(stmts) + [ast.Pass()], env, True, [])
        return r[2]

    @staticmethod
    def _cut(env, want):
        missing = [w for w in want if env.get(w, ('unknown',))[0] == 'unknown']
        if missing:
            raise Untranslatable('local %s is not computed by the arithmetic prefix of the function' % ', '.join(missing))
        return ('cut', {w: env[w] for w in want}, dict(env))


def emit_tree(tree, indent, select=None):
    pad = '  ' * indent
    t = tree[0]
    if t == 'ret':
        return pad + tree[1][1], tree[1][0], False
    if t == 'cut':
        v = tree[1][select]
        return pad + v[1], v[0], False
    if t == 'raise':
        return pad + '.error "%s"' % tree[1], None, True
    a, ta, ra = emit_tree(tree[2], indent + 1, select)
    b, tb, rb = emit_tree(tree[3], indent + 1, select)
    return pad + 'if %s then\n%s\n%selse\n%s' % (tree[1], a, pad, b), ta or tb, ra or rb


def _has_raise(tree):
    return tree[0] == 'raise' or (tree[0] == 'if' and (_has_raise(tree[2]) or _has_raise(tree[3])))


def _wrap_ok(tree):
    if tree[0] in ('ret',):
        return ('ret', (tree[1][0], '.ok %s' % tree[1][1]))
    if tree[0] == 'if':
        return ('if', tree[1], _wrap_ok(tree[2]), _wrap_ok(tree[3]))
    return tree


LEAN_T = {'int': 'Int', 'float': 'Rat', 'bool': 'Prop'}


def translate(fn, module, lean_name, params, paths=None, guards=(), export=None, rounding=True, nested=None, vocab=None):
    """fn: function object; params: ordered {python parameter: 'int'|'float'} for the parameters that are numbers
    (others must only occur inside `paths`); paths: {python expression text: (lean parameter, type)};
    export: None (whole function, must return / raise on every path) or a list of local names (partial mode).
    -> list of (lean definition name, text, lean parameter list)"""
    node = ast.parse(textwrap.dedent(inspect.getsource(fn))).body[0]
    if nested:
        # a function defined inside `fn` (closure variables are declared like parameters by the caller)
        inner = [x for x in ast.walk(node) if isinstance(x, ast.FunctionDef) and x.name == nested and x is not node]
        if len(inner) != 1:
            raise Untranslatable('local function %s of %s not found' % (nested, fn.__name__))
        outer = node
        node = inner[0]
    sym = Sym(module, params, paths, guards, vocab=vocab)
    if nested:
        sym.siblings = {x.name: x for x in ast.walk(outer) if isinstance(x, ast.FunctionDef) and x is not outer}
        own = {a.arg for a in node.args.args}
        sym.closure = {p: (t, p) for p, t in params.items() if p not in own}     # closure variables, visible in siblings too
    env = {p: (t, p) for p, t in params.items()}
    tree = sym.block(node.body, env, export is not None, export or [])
    # signature: declared parameters, then every declared path parameter in DECLARED order (stable under reordering of uses)
    lparams = [(p, t) for p, t in params.items()]
    for x in (paths or {}).values():
        if x[0] not in params and tuple(x) not in lparams:
            lparams.append(tuple(x))
    sig = ('(R : Rat → Rat) ' if rounding else '') + ' '.join('(%s : %s)' % (p, LEAN_T[t]) for p, t in lparams)
    out = []
    for sel in (export or [None]):
        raises = _has_raise(tree)
        body, ty, _ = emit_tree(_wrap_ok(tree) if raises else tree, 1, sel)
        lty = ty[6:] if (ty or '').startswith('tuple:') else LEAN_T[ty or 'int']
        name = lean_name if sel is None else '%s_%s' % (lean_name, sel)
        if not rounding and re.search(r'\bR\b', body):
            raise Untranslatable('float arithmetic in %s (declared integer-only)' % lean_name)
        out.append((name, 'def %s %s : %s :=\n%s\n' % (name, sig, 'Except String %s' % lty if raises else lty, body),
                    [p for p, _ in lparams]))
    return out
