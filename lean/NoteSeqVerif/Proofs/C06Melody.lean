import NoteSeqVerif.Proofs.C06MelNotes
import NoteSeqVerif.Proofs.C06Drums
/-! C06 — Melody, discrete half: extraction (C07 model, through its specification `melody_steps`) of a sequence
whose notes are exactly the rendered ones returns the canonical melody.  (core Lean only) -/
namespace NSV.C06
open NSV.C07

/-! ### first note, last note, gaps of the rendered notes -/

/-- the first rendered note starts at the first pitch event -/
theorem melT_first : ∀ (xs : List Int) (k : Int) (i0 : Nat), firstPitch xs = some i0 →
    ∃ p c T, melT k xs = ⟨p, k + i0, c⟩ :: T := by
  intro xs
  induction xs with
  | nil => intro k i0 h; simp [firstPitch] at h
  | cons x xs ih =>
    intro k i0 h
    unfold firstPitch at h
    unfold melT
    by_cases hp : isPitch x = true
    · simp only [hp, ↓reduceIte, Option.some.injEq] at h ⊢
      subst h
      exact ⟨x, closeAt (k + 1) xs, melT (k + 1) xs, by simp⟩
    · simp only [hp, Bool.false_eq_true, ↓reduceIte, Option.map_eq_some_iff] at h ⊢
      obtain ⟨j, hj, rfl⟩ := h
      obtain ⟨p, c, T, hT⟩ := ih (k + 1) j hj
      exact ⟨p, c, T, by rw [hT]; simp only [SNote.mk.injEq, List.cons.injEq, and_true, true_and]; push_cast; omega⟩

theorem getLast?_append_ne {α} (l l' : List α) (h : l' ≠ []) : (l ++ l').getLast? = l'.getLast? := by
  cases l' with
  | nil => exact absurd rfl h
  | cons a as =>
    rw [List.getLast?_append]
    cases hg : (a :: as).getLast? with
    | none => simp at hg
    | some v => rfl

/-- where the last rendered note ends: at the end of the list if the last event that is not NO_EVENT is a pitch, at
that event if it is a NOTE_OFF -/
theorem withHead_last : ∀ (xs : List Int) (k : Int) (head : Option (Int × Int)),
    offsOk head.isSome xs = true →
    (withHead k head xs).getLast?.map (·.b) =
      match lastMark xs with
      | some none => some (k + xs.length)
      | some (some j) => some (k + j)
      | none => head.map (fun _ => k + xs.length) := by
  intro xs
  induction xs with
  | nil =>
    intro k head _
    cases head with
    | none => simp [withHead, closeCur, melT, lastMark]
    | some c => obtain ⟨p, a⟩ := c; simp [withHead, closeCur, melT, lastMark, closeAt]
  | cons x xs ih =>
    intro k head hoffs
    unfold offsOk at hoffs
    unfold lastMark
    by_cases hp : isPitch x = true
    · simp only [hp, ↓reduceIte] at hoffs
      have hw : withHead k head (x :: xs) = closeCur k head ++ withHead (k + 1) (some (x, k)) xs := by
        simp [withHead, closeAt, melT, hp, closeCur]
      have hne : withHead (k + 1) (some (x, k)) xs ≠ [] := by simp [withHead, closeCur]
      rw [hw, getLast?_append_ne _ _ hne, ih (k + 1) (some (x, k)) (by simpa using hoffs)]
      simp only [List.length_cons, hp, ↓reduceIte, Option.map_some]
      cases lastMark xs with
      | none => simp only [Option.some.injEq]; push_cast; omega
      | some m =>
        cases m with
        | none => simp only [Option.some.injEq]; push_cast; omega
        | some j => simp only [Option.some.injEq]; push_cast; omega
    · have hp' : isPitch x = false := by simpa using hp
      simp only [hp', Bool.false_eq_true, ↓reduceIte] at hoffs
      by_cases ho : x = Gen.MELODY_NOTE_OFF
      · simp only [ho, ↓reduceIte, Bool.and_eq_true] at hoffs
        obtain ⟨hsnd, hoffs'⟩ := hoffs
        cases head with
        | none => simp at hsnd
        | some c =>
          obtain ⟨p, a⟩ := c
          have hw : withHead k (some (p, a)) (x :: xs) = ⟨p, a, k⟩ :: withHead (k + 1) none xs := by
            simp [withHead, closeAt, melT, ho, closeCur, isPitch_note_off]
          have hih := ih (k + 1) none (by simpa using hoffs')
          rw [hw]
          simp only [List.length_cons, ho, isPitch_note_off, Bool.false_eq_true, ↓reduceIte]
          cases hlm : lastMark xs with
          | none =>
            rw [hlm] at hih
            simp only [Option.map_none, Option.map_eq_none_iff, List.getLast?_eq_none_iff] at hih
            rw [hih]
            simp
          | some m =>
            rw [hlm] at hih
            have hne : withHead (k + 1) none xs ≠ [] := by
              intro h; rw [h] at hih; cases m <;> simp at hih
            rw [List.getLast?_cons_of_ne_nil hne] at *
            rw [hih]
            cases m with
            | none => simp only [Option.some.injEq]; push_cast; omega
            | some j => simp only [Option.some.injEq]; push_cast; omega
      · simp only [ho, ↓reduceIte] at hoffs
        have hw : withHead k head (x :: xs) = withHead (k + 1) head xs := by
          simp [withHead, closeAt, melT, hp', ho]
        rw [hw, ih (k + 1) head hoffs]
        simp only [List.length_cons, hp', Bool.false_eq_true, ↓reduceIte, ho]
        cases lastMark xs with
        | none => cases head <;> simp <;> omega
        | some m =>
          cases m with
          | none => simp only [Option.some.injEq]; push_cast; omega
          | some j => simp only [Option.some.injEq]; push_cast; omega

/-- every note starts fewer than `gap` steps after the end `pb` of the note before it -/
def chainOk (gap : Int) : Option Int → List SNote → Prop
  | _, [] => True
  | pb, n :: ns => (∀ b, pb = some b → n.a - b < gap) ∧ chainOk gap (some n.b) ns

/-- while a note sounds (S) / after a NOTE_OFF `d` steps back (O) -/
theorem chain_sounding_off (gap : Int) (hgap : 0 < gap) : ∀ (xs : List Int) (k : Int),
    (offsOk true xs = true → gapsOk gap none xs = true → chainOk gap (some (closeAt k xs)) (melT k xs)) ∧
    (∀ d, offsOk false xs = true → gapsOk gap (some d) xs = true → chainOk gap (some (k - d)) (melT k xs)) := by
  intro xs
  induction xs with
  | nil => intro k; simp [melT, chainOk]
  | cons x xs ih =>
    intro k
    obtain ⟨ihS, ihO⟩ := ih (k + 1)
    unfold offsOk gapsOk closeAt melT
    by_cases hp : isPitch x = true
    · simp only [hp, ↓reduceIte, Bool.true_and, Bool.and_eq_true, decide_eq_true_eq]
      constructor
      · intro ho hg
        refine ⟨?_, ihS ho hg⟩
        intro b hb
        cases hb
        show k - k < gap
        omega
      · intro d ho hdg
        refine ⟨?_, ihS ho hdg.2⟩
        intro b hb
        cases hb
        have := hdg.1
        show k - (k - d) < gap
        omega
    · have hp' : isPitch x = false := by simpa using hp
      simp only [hp', Bool.false_eq_true, ↓reduceIte]
      by_cases ho : x = Gen.MELODY_NOTE_OFF
      · simp only [ho, ↓reduceIte, Bool.true_and, Bool.false_and, Bool.false_eq_true, false_imp_iff,
          implies_true, and_true]
        intro hoff hg
        have := ihO 1 hoff hg
        rwa [show k + 1 - 1 = k by omega] at this
      · simp only [ho, ↓reduceIte, Option.map_none, Option.map_some]
        constructor
        · exact ihS
        · intro d hoff hg
          have := ihO (d + 1) hoff hg
          rwa [show k + 1 - (d + 1) = k - d by omega] at this

/-- before the first note -/
theorem chain_initial (gap : Int) (hgap : 0 < gap) : ∀ (xs : List Int) (k : Int),
    offsOk false xs = true → gapsOk gap none xs = true → chainOk gap none (melT k xs) := by
  intro xs
  induction xs with
  | nil => intro k _ _; simp [melT, chainOk]
  | cons x xs ih =>
    intro k
    unfold offsOk gapsOk melT
    by_cases hp : isPitch x = true
    · simp only [hp, ↓reduceIte, Bool.true_and]
      intro ho hg
      refine ⟨?_, (chain_sounding_off gap hgap xs (k + 1)).1 ho hg⟩
      intro b hb
      cases hb
    · have hp' : isPitch x = false := by simpa using hp
      simp only [hp', Bool.false_eq_true, ↓reduceIte]
      by_cases ho : x = Gen.MELODY_NOTE_OFF
      · simp [ho]
      · simp only [ho, ↓reduceIte, Option.map_none]
        exact ih (k + 1)

/-! ### C07's vocabulary on the quantized rendered notes -/

theorem melRule_rendered (tm : Int → Rat) (vel inst prog : Int) (drum : Bool) (S : Int) (N : List SNote) (t : Int) :
    melRule (N.map (qNote tm vel inst prog drum S)) (S + t) = ruleAt N t := by
  have e1 : ((fun k : Note => k.qs == S + t) ∘ qNote tm vel inst prog drum S) = (fun d : SNote => d.a == t) := by
    funext d
    show (S + d.a == S + t) = (d.a == t)
    by_cases h : d.a = t
    · rw [h]; simp
    · have : ¬ S + d.a = S + t := by omega
      rw [beq_eq_false_iff_ne.mpr this, beq_eq_false_iff_ne.mpr h]
  have e2 : ((fun k : Note => decide (k.qs < S + t)) ∘ qNote tm vel inst prog drum S) =
      (fun d : SNote => decide (d.a < t)) := by
    funext d
    show decide (S + d.a < S + t) = decide (d.a < t)
    by_cases h : d.a < t
    · have : S + d.a < S + t := by omega
      simp [h, this]
    · have : ¬ S + d.a < S + t := by omega
      simp [h, this]
  unfold melRule ruleAt
  rw [List.find?_map, List.filter_map, List.getLast?_map, e1, e2]
  cases N.find? (fun d => d.a == t) with
  | some d => rfl
  | none =>
    simp only [Option.map_none]
    cases (N.filter (fun d => decide (d.a < t))).getLast? with
    | none => rfl
    | some d =>
      simp only [Option.map_some]
      show (if S + d.b = S + t then _ else _) = _
      by_cases h : d.b = t
      · simp [h]
      · have : ¬ S + d.b = S + t := by omega
        simp [h, this]

/-- a chain of notes with increasing onsets and gaps below `gap` is kept whole, and no onset is doubled -/
theorem kept_all (tm : Int → Rat) (vel inst prog : Int) (drum : Bool) (S gap : Int) :
    ∀ (N : List SNote) (h : SNote), (∀ d ∈ N, h.a < d.a) → N.Pairwise (fun x y => x.a < y.a) →
      chainOk gap (some h.b) N →
      keptFrom gap (qNote tm vel inst prog drum S h) (N.map (qNote tm vel inst prog drum S)) =
        N.map (qNote tm vel inst prog drum S) ∧
      dupFrom gap (qNote tm vel inst prog drum S h) (N.map (qNote tm vel inst prog drum S)) = false := by
  intro N
  induction N with
  | nil => intro h _ _ _; simp [keptFrom, dupFrom]
  | cons n N ih =>
    intro h hlt hsorted hchain
    obtain ⟨hn, hsorted'⟩ := List.pairwise_cons.mp hsorted
    obtain ⟨hgapn, hchain'⟩ := hchain
    have h1 := hlt n (List.mem_cons_self ..)
    have h2 := hgapn h.b rfl
    obtain ⟨ih1, ih2⟩ := ih n hn hsorted' hchain'
    have e1 : ¬ (qNote tm vel inst prog drum S n).qs = (qNote tm vel inst prog drum S h).qs := by
      show ¬ S + n.a = S + h.a; omega
    have e2 : ¬ gap ≤ (qNote tm vel inst prog drum S n).qs - (qNote tm vel inst prog drum S h).qe := by
      show ¬ gap ≤ S + n.a - (S + h.b); omega
    simp only [List.map_cons, keptFrom, dupFrom, e1, e2, ↓reduceIte, ih1, ih2, and_self]

/-! ### the discrete half -/

/-- bar arithmetic for `pad_end`: a length in the last bar rounds up to the bar line -/
theorem pad_to_bar (len spb j : Int) (hpos : 0 < spb) (hmod : len % spb = 0) (h1 : len - spb < j) (h2 : j ≤ len) :
    j + Int.fmod (-j) spb = len := by
  rw [Int.fmod_eq_emod_of_nonneg _ (by omega)]
  obtain ⟨c, hc⟩ := Int.dvd_of_emod_eq_zero hmod
  have : -j = (len - j) + spb * (-c) := by rw [hc]; rw [Int.mul_neg]; omega
  rw [this, Int.add_mul_emod_self_left, Int.emod_eq_of_lt (by omega) (by omega)]
  omega

/-- **discrete half for Melody**: `s` is a quantized sequence whose notes are the rendered notes of the canonical
melody `ev` (start step `S`), on instrument `inst`, not drums, with non-zero velocity.  Extraction with at least one
bar of gap tolerance returns `ev`, `S`, `S + len`, the bar length and the resolution. -/
theorem melody_discrete (s : NoteSeq) (tm : Int → Rat) (ev : List Int) (S ss inst gapBars vel prog : Int)
    (ip pad fd : Bool) (spb : Int)
    (hspb : stepsPerBar s = .ok spb) (hpos : 0 < spb) (hgap : 0 < gapBars) (hvel : vel ≠ 0)
    (hs : s.notes = (melodyNotes ev).map (qNote tm vel inst prog false S))
    (hc : CanonicalMelody spb (gapBars * spb) pad ss S ev) :
    melodyFromQuantized s ss inst gapBars ip pad fd = .ok ⟨ev, S, S + ev.length, spb, s.spq⟩ := by
  have hgap' : 0 < gapBars * spb := Int.mul_pos hgap hpos
  rcases hc with ⟨rfl, rfl⟩ | ⟨hrange, hoffs, hss0, hssS, hmod, hfirst, hgaps, hend⟩
  · have : s.notes.filter (melSel ss inst fd) = [] := by rw [hs]; simp [melodyNotes, melodyNotesFrom, closeCur]
    rw [melody_empty s ss inst gapBars ip pad fd spb hspb this]; simp
  · rw [melodyNotes_eq] at hs
    -- the first note
    unfold firstOk at hfirst
    cases hfp : firstPitch ev with
    | none => rw [hfp] at hfirst; simp at hfirst
    | some i0 =>
      rw [hfp] at hfirst
      have hi0 : (i0 : Int) < spb := by simpa using hfirst
      obtain ⟨p, c, T, hT⟩ := melT_first ev 0 i0 hfp
      simp only [Int.zero_add] at hT
      have hmem := melT_mem ev 0
      have hsorted := melT_sorted ev 0
      rw [hT] at hmem hsorted
      have hchain := chain_initial (gapBars * spb) hgap' ev 0 hoffs hgaps
      rw [hT] at hchain
      let q := qNote tm vel inst prog false S
      -- selection and sorting leave the rendered notes as they are
      have hselall : s.notes.filter (melSel ss inst fd) = s.notes := by
        rw [List.filter_eq_self]; intro n hn
        rw [hs, List.mem_map] at hn
        obtain ⟨d, hd, rfl⟩ := hn
        rw [hT] at hd
        have := (hmem d hd).2.1
        simp [melSel, qNote, rNote, hvel]
        apply decide_eq_true
        omega
      have hL : (s.notes.filter (melSel ss inst fd)).mergeSort melLe = q ⟨p, i0, c⟩ :: T.map q := by
        rw [hselall, hs, hT]
        apply List.mergeSort_of_pairwise
        rw [List.pairwise_map]
        apply List.Pairwise.imp _ hsorted
        intro a b hab
        simp only [melLe, Bool.or_eq_true, decide_eq_true_eq]
        left
        show S + a.a < S + b.a
        omega
      have hvalid : ∀ n ∈ s.notes, melSel ss inst fd n = true → n.qs < n.qe ∧ 0 ≤ n.pitch := by
        intro n hn _
        rw [hs, hT, List.mem_map] at hn
        obtain ⟨d, hd, rfl⟩ := hn
        obtain ⟨h1, _, h3, _⟩ := hmem d hd
        simp only [isPitch, Gen.MIN_MIDI_PITCH, Bool.and_eq_true, decide_eq_true_eq] at h1
        exact ⟨by show S + d.a < S + d.b; omega, by show 0 ≤ d.pitch; exact of_decide_eq_true h1.1⟩
      obtain ⟨hTlt, hTsorted⟩ := List.pairwise_cons.mp hsorted
      obtain ⟨hkept, hdup⟩ := kept_all tm vel inst prog false S (gapBars * spb) T ⟨p, i0, c⟩ hTlt hTsorted hchain.2
      obtain ⟨_, hmain⟩ := melody_steps s ss inst gapBars ip pad fd spb hspb hpos hvalid _ _ hL
      obtain ⟨last, evs, hlast, hres, hlen, hidx⟩ := hmain (by rw [hdup]; simp)
      rw [hkept] at hlast hidx
      have hstart : (q ⟨p, i0, c⟩).qs - Int.fmod ((q ⟨p, i0, c⟩).qs - ss) spb = S := by
        show S + (i0 : Int) - Int.fmod (S + (i0 : Int) - ss) spb = S
        rw [bar_offset S ss spb i0 hpos hmod (by omega) hi0]; omega
      rw [hstart] at hres hlen hidx
      -- the last note
      have hwl := withHead_last ev 0 none hoffs
      have hwn : withHead 0 none ev = melT 0 ev := by simp [withHead, closeCur]
      rw [hwn, hT] at hwl
      have hlast' : (⟨p, i0, c⟩ :: T).getLast?.map (fun d => S + d.b) = some last.qe := by
        have : (q ⟨p, i0, c⟩ :: T.map q).getLast? = ((⟨p, i0, c⟩ :: T).getLast?).map q := by
          rw [← List.map_cons, List.getLast?_map]
        rw [this] at hlast
        cases hg : (⟨p, i0, c⟩ :: T : List SNote).getLast? with
        | none => rw [hg] at hlast; simp at hlast
        | some d =>
          rw [hg] at hlast
          simp only [Option.map_some, Option.some.injEq] at hlast
          rw [← hlast]; rfl
      -- the length
      have hlen_eq : (evs.length : Int) = ev.length := by
        rw [hlen]
        unfold endOk at hend
        simp only [Int.zero_add, Option.map_none] at hwl
        cases hlm : lastMark ev with
        | none => rw [hlm] at hend; simp at hend
        | some m =>
          rw [hlm] at hend hwl
          cases m with
          | none =>
            simp only at hwl
            have hq : last.qe = S + ev.length := by
              cases hg : (⟨p, i0, c⟩ :: T : List SNote).getLast? with
              | none => rw [hg] at hlast'; simp at hlast'
              | some d =>
                rw [hg] at hlast' hwl
                simp only [Option.map_some, Option.some.injEq] at hlast' hwl
                omega
            rw [hq]
            cases pad with
            | false => simp; omega
            | true =>
              simp only [Bool.not_true, Bool.false_or, decide_eq_true_eq] at hend
              simp only [↓reduceIte]
              have := pad_to_bar ev.length spb ev.length hpos hend (by omega) (by omega)
              have e : S + (ev.length : Int) - S = ev.length := by omega
              rw [e]; omega
          | some j =>
            simp only at hwl
            simp only [Bool.and_eq_true, decide_eq_true_eq] at hend
            obtain ⟨⟨hpad, hmodl⟩, hj⟩ := hend
            have hq : last.qe = S + j := by
              cases hg : (⟨p, i0, c⟩ :: T : List SNote).getLast? with
              | none => rw [hg] at hlast'; simp at hlast'
              | some d =>
                rw [hg] at hlast' hwl
                simp only [Option.map_some, Option.some.injEq] at hlast' hwl
                omega
            have hjle : (j : Int) ≤ ev.length := by
              cases hg : (⟨p, i0, c⟩ :: T : List SNote).getLast? with
              | none => rw [hg] at hlast'; simp at hlast'
              | some d =>
                rw [hg] at hwl
                simp only [Option.map_some, Option.some.injEq] at hwl
                have hd := hmem d (List.mem_of_getLast? hg)
                omega
            rw [hq, hpad]
            simp only [↓reduceIte]
            have e : S + (j : Int) - S = j := by omega
            rw [e]
            have := pad_to_bar ev.length spb j hpos hmodl hj hjle
            omega
      have hlen_nat : evs.length = ev.length := by exact_mod_cast hlen_eq
      -- the events
      have hevents : evs = ev := by
        apply List.ext_getElem?
        intro i
        by_cases hi : i < ev.length
        · rw [hidx i (by omega)]
          have := melRule_rendered tm vel inst prog false S (⟨p, i0, c⟩ :: T) i
          simp only [List.map_cons] at this
          rw [this, ← hT]
          have hr := ruleAt_melody ev 0 none hrange hoffs (by intro p a h; cases h) i hi
          rw [hwn] at hr
          simp only [Int.zero_add] at hr
          exact hr.symm
        · rw [List.getElem?_eq_none (by omega), List.getElem?_eq_none (by omega)]
      rw [hres, hevents]

end NSV.C06
