import NoteSeqVerif.Model.C17
/-! C17 — the predicates the property theorems are stated with (invariants, operation domains,
the abstract `(start, List event)` model).  Definitions only. -/
namespace NSV.C17
variable {α : Type}

/-! ### simple family -/

/-- what the generic theorems need to know about a class record -/
structure Lawful (c : Cls α) : Prop where
  clean_length : ∀ l, (c.clean l).length = l.length
  clean_valid : ∀ l, (∀ e ∈ l, c.valid e = true) → ∀ e ∈ c.clean l, c.valid e = true
  pad_valid : c.valid c.pad = true
  fill_valid : ∀ f, c.fixedFill = some f → c.valid f = true
  sustain_valid : ∀ l x, c.sustain l = some x → c.valid x = true

/-- the invariant of the property: the step range is exactly as long as the event list, and every
event is valid for the class (Melody: within `MIN_MELODY_EVENT..MAX_MELODY_EVENT`) -/
def Inv (c : Cls α) (s : Seq α) : Prop :=
  s.stop - s.start = (s.events.length : Int) ∧ ∀ e ∈ s.events, c.valid e = true

/-- the domain of each operation: a length is `≥ 0`, a resolution factor is `≥ 1`, and a fill
event handed to the base-class `increase_resolution` is an event of the class.  Everything else
(any event, any slice bounds, any re-initialisation arguments) is unrestricted: invalid events
are rejected by the code itself. -/
def OpOk (c : Cls α) : Op α → Prop
  | .setLength n _ => 0 ≤ n
  | .incRes k fill => 1 ≤ k ∧ (c.fixedFill = none → ∀ f, fill = some f → c.valid f = true)
  | _ => True

/-- the abstract list model of the property text: a start step and a list of events -/
abbrev Abs (α : Type) := Int × List α

def Seq.abs (s : Seq α) : Abs α := (s.start, s.events)

/-- operations on the abstract model, written with plain list functions (no end step, no Python
index arithmetic): `lo`/`hi` are the clamped slice bounds -/
def astep (c : Cls α) (a : Abs α) : Op α → Except Err (Abs α)
  | .append e => if c.valid e then .ok (a.1, a.2 ++ [e]) else .error .valueError
  | .setLength n false =>
      .ok (a.1,
        if n.toNat ≤ a.2.length then a.2.take n.toNat
        else a.2 ++ ((c.sustain a.2).getD c.pad :: List.replicate (n.toNat - a.2.length - 1) c.pad))
  | .setLength n true =>
      .ok (a.1 + a.2.length - n,
        if n.toNat ≤ a.2.length then a.2.drop (a.2.length - n.toNat)
        else List.replicate (n.toNat - a.2.length) c.pad ++ a.2)
  | .slice i j =>
      let lo := sliceLo a.2.length i
      let hi := sliceHi a.2.length j
      if ((a.2.drop lo).take (hi - lo)).all c.valid then
        .ok (a.1 + lo, c.clean ((a.2.drop lo).take (hi - lo)))
      else .error .valueError
  | .sliceStep i j k =>
      if k = 0 then .error .valueError
      else if (pySliceStep a.2 i j k).all c.valid then
        .ok (a.1 + stepLo a.2.length k i, c.clean (pySliceStep a.2 i j k))
      else .error .valueError
  | .incRes k fill =>
      let f := match c.fixedFill with
        | some x => some x
        | none => fill
      .ok (a.1 * k, a.2.flatMap (fun e => match f with
        | none => List.replicate k.toNat e
        | some x => e :: List.replicate (k.toNat - 1) x))
  | .deepcopy => if a.2.all c.valid then .ok (a.1, c.clean a.2) else .error .valueError
  | .reinit ev st _ _ => if ev.all c.valid then .ok (st, c.clean ev) else .error .valueError
  | .reset => .ok (0, [])

/-- a note is sounding at the end of a melody: its last event other than NO_EVENT is a pitch -/
def Sounding (evs : List Int) : Prop :=
  ∃ pre p post, evs = pre ++ p :: post ∧ p ≠ Gen.MELODY_NO_EVENT ∧ p ≠ Gen.MELODY_NOTE_OFF ∧
    ∀ x ∈ post, x = Gen.MELODY_NO_EVENT

/-! ### lead sheet -/
def LInv (l : LeadSheet) : Prop :=
  Inv melodyCls l.melody ∧ Inv chordCls l.chords ∧
  l.melody.events.length = l.chords.events.length ∧ l.melody.start = l.chords.start ∧
  l.melody.stop = l.chords.stop ∧ l.melody.spb = l.chords.spb ∧ l.melody.spq = l.chords.spq

def LOpOk : LOp → Prop
  | .setLength n => 0 ≤ n
  | .incRes k => 1 ≤ k
  | _ => True

/-! ### pianoroll -/
def ROpOk : ROp → Prop
  | .setLength n _ => 0 ≤ n
  | _ => True

/-! ### performance -/
/-- what the `PerformanceEvent` validator guarantees of every time shift, plus a usable
`max_shift_steps` -/
def PInv (p : Perf) : Prop :=
  1 ≤ p.maxShift ∧ ∀ e ∈ p.events, isShift e = true → 0 ≤ e.val

/-- every time shift is within `1..max_shift_steps` -/
def ShiftsOk (mx : Int) (evs : List PEvent) : Prop :=
  ∀ e ∈ evs, isShift e = true → 1 ≤ e.val ∧ e.val ≤ mx

def POpOk : POp → Prop
  | .setLength n _ => 0 ≤ n
  | .appendSteps n => 0 ≤ n
  | .trimSteps n => 0 ≤ n
  | _ => True

/-- an appended time shift respects the bound (needed only for preserving `ShiftsOk`) -/
def POpShiftOk (mx : Int) : POp → Prop
  | .append ty v => ty = Gen.TIME_SHIFT → 1 ≤ v ∧ v ≤ mx
  | _ => True

end NSV.C17
