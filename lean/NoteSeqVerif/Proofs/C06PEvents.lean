import NoteSeqVerif.Proofs.C06PSort
import NoteSeqVerif.Proofs.C06PStream
/-! C06 (performance half) — the second sort (`note_events`) and the assembly of the discrete half:
extracting from the rendered, re-quantized notes of a canonical event list gives the event list back. -/
namespace NSV.C06P
open NSV NSV.C06 NSV.C01 NSV.C07

/-- the note events the extractor must arrive at: the annotated stream itself, every event carrying its note -/
def estar (nb v0 : Int) (st : AnState) (qn : RNote → Note) (S : Int) : List NEv :=
  st.out.map (fun a => ⟨S + a.step, a.idx, a.isOff, qn (noteAt nb v0 st a.idx)⟩)

theorem onsets_range (f : Nat → Note) (n : Nat) :
    onsets ((List.range n).map f) = (List.range n).map (fun i => ⟨(f i).qs, i, false, f i⟩) := by
  unfold onsets
  rw [zipIdx_map_range, List.map_map]
  rfl

theorem offsets_range (f : Nat → Note) (n : Nat) :
    offsets ((List.range n).map f) = (List.range n).map (fun i => ⟨(f i).qe, i, true, f i⟩) := by
  unfold offsets
  rw [zipIdx_map_range, List.map_map]
  rfl

section accepted
variable {nb B v0 : Int} {strict : Bool} {st : AnState} (acc : Accepted nb B strict st)
include acc

theorem Accepted.estar_ons {R : Rat → Rat} (c : RenderCfg) (S : Int) :
    (estar nb v0 st (qnote R c S) S).filter (fun e => !e.isOff) =
      onsets (((List.range st.nOn).map (noteAt nb v0 st)).map (qnote R c S)) := by
  rw [List.map_map, onsets_range]
  unfold estar
  rw [List.filter_map]
  have h1 : st.out.filter ((fun e : NEv => !e.isOff) ∘
      fun a => ⟨S + a.step, a.idx, a.isOff, qnote R c S (noteAt nb v0 st a.idx)⟩) = st.ons := rfl
  rw [h1, ← acc.inv.onsIdx, List.map_map]
  apply List.map_congr_left
  intro a ha
  obtain ⟨_, h2, _⟩ := acc.noteAt_on (v0 := v0) a ha
  simp only [Function.comp, qnote, h2, (mem_ons.mp ha).2]

theorem Accepted.estar_offs {R : Rat → Rat} (c : RenderCfg) (S : Int) :
    ((estar nb v0 st (qnote R c S) S).filter (fun e => e.isOff)).Perm
      (offsets (((List.range st.nOn).map (noteAt nb v0 st)).map (qnote R c S))) := by
  rw [List.map_map, offsets_range]
  unfold estar
  rw [List.filter_map]
  have h1 : st.out.filter ((fun e : NEv => e.isOff) ∘
      fun a => ⟨S + a.step, a.idx, a.isOff, qnote R c S (noteAt nb v0 st a.idx)⟩) = st.offs := rfl
  rw [h1]
  have h2 : st.offs.map (fun a => (⟨S + a.step, a.idx, a.isOff, qnote R c S (noteAt nb v0 st a.idx)⟩ : NEv)) =
      (st.offs.map (·.idx)).map (fun i => (⟨((qnote R c S ∘ noteAt nb v0 st) i).qe, i, true,
        (qnote R c S ∘ noteAt nb v0 st) i⟩ : NEv)) := by
    rw [List.map_map]
    apply List.map_congr_left
    intro a ha
    simp only [Function.comp, acc.noteAt_off (v0 := v0) a ha, qnote, noteOfOff, (mem_offs.mp ha).2]
  rw [h2]
  exact acc.offsIdx_perm.map _

/-- **second sort**: `sorted(onsets + offsets)` over the notes in NOTE_ON order is the annotated stream -/
theorem Accepted.noteEvents_eq {R : Rat → Rat} (c : RenderCfg) (S : Int) :
    noteEvents (((List.range st.nOn).map (noteAt nb v0 st)).map (qnote R c S)) =
      estar nb v0 st (qnote R c S) S := by
  have hpos : ∀ n ∈ ((List.range st.nOn).map (noteAt nb v0 st)).map (qnote R c S), n.qs < n.qe := by
    intro n hn
    obtain ⟨r, hr, rfl⟩ := List.mem_map.mp hn
    obtain ⟨i, hi, rfl⟩ := List.mem_map.mp hr
    have := acc.noteAt_inB (v0 := v0) i (List.mem_range.mp hi)
    simp only [qnote]
    have := this.2.1
    omega
  obtain ⟨hstrict, _, _⟩ := noteEvents_facts _ hpos
  have hstar : (estar nb v0 st (qnote R c S) S).Pairwise NevLt := by
    unfold estar
    rw [List.pairwise_map]
    refine acc.sorted.imp ?_
    intro a b hab
    simp only [aevLt, Bool.or_eq_true, decide_eq_true_eq, Bool.and_eq_true, beq_iff_eq, Bool.not_eq_true'] at hab
    unfold NevLt
    simp only
    rcases hab with h | ⟨h, h' | ⟨⟨h1, h2⟩, h3⟩⟩
    · left; omega
    · right; exact ⟨by omega, Or.inl h'⟩
    · right; exact ⟨by omega, Or.inr ⟨h1, h2, h3⟩⟩
  have hperm : (noteEvents (((List.range st.nOn).map (noteAt nb v0 st)).map (qnote R c S))).Perm
      (estar nb v0 st (qnote R c S) S) := by
    unfold noteEvents
    refine (List.mergeSort_perm _ _).trans ?_
    rw [← acc.estar_ons (v0 := v0) c S]
    refine (List.Perm.append_left _ (acc.estar_offs (v0 := v0) c S).symm).trans ?_
    have := List.filter_append_perm (fun e : NEv => !e.isOff) (estar nb v0 st (qnote R c S) S)
    simpa using this
  exact List.Perm.eq_of_pairwise (fun a b _ _ h1 h2 => absurd h2 h1.asymm) hstrict hstar hperm

/-- what the extractor's loop reads off the annotated stream is the stream itself, moved to `start_step` -/
theorem Accepted.estar_toS {R : Rat → Rat} (c : RenderCfg) (S : Int) (hnb : 0 ≤ nb)
    (hb0 : nb = 0 → ∀ a ∈ st.out, a.isOff = false → a.bin = 0) :
    (estar nb v0 st (qnote R c S) S).map (toS nb) = (st.out.map AEv.toS).map (SEv.shift S) := by
  unfold estar
  rw [List.map_map, List.map_map]
  apply List.map_congr_left
  intro a ha
  simp only [Function.comp, toS, AEv.toS, SEv.shift]
  cases hoff : a.isOff with
  | true =>
    have := acc.noteAt_off (v0 := v0) a (mem_offs.mpr ⟨ha, hoff⟩)
    simp only [this, qnote, mkNote, noteOfOff, ↓reduceIte, SEv.mk.injEq, and_true, true_and]
    omega
  | false =>
    obtain ⟨h1, _, h3⟩ := acc.noteAt_on (v0 := v0) a (mem_ons.mpr ⟨ha, hoff⟩)
    have hp : (qnote R c S (noteAt nb v0 st a.idx)).pitch = a.pitch := h1
    have hv : (qnote R c S (noteAt nb v0 st a.idx)).velocity = velOf nb v0 a.bin := h3
    simp only [Bool.false_eq_true, ↓reduceIte, hp, hv, SEv.mk.injEq, true_and]
    refine ⟨by omega, ?_⟩
    by_cases h0 : nb = 0
    · simp only [h0, ↓reduceIte]
      exact (hb0 h0 a ha hoff).symm
    · have hb := acc.bins h0 a ha hoff
      simp only [h0, ↓reduceIte, velOf, show ¬ a.bin = 0 by omega]
      exact velocityToBin_binToVelocity nb a.bin (by omega)

/-- the note an annotated event carries has the event's pitch and (for a NOTE_ON under bins) the event's bin -/
theorem Accepted.estar_note {R : Rat → Rat} (c : RenderCfg) (S : Int) (hnb : 0 ≤ nb) (a : AEv) (ha : a ∈ st.out) :
    (qnote R c S (noteAt nb v0 st a.idx)).pitch = a.pitch ∧
    (a.isOff = false → nb ≠ 0 →
      C07.Gen.velocityToBin (qnote R c S (noteAt nb v0 st a.idx)).velocity nb = a.bin) := by
  cases hoff : a.isOff with
  | true =>
    have := acc.noteAt_off (v0 := v0) a (mem_offs.mpr ⟨ha, hoff⟩)
    refine ⟨by rw [this]; rfl, fun h => by simp at h⟩
  | false =>
    obtain ⟨h1, _, h3⟩ := acc.noteAt_on (v0 := v0) a (mem_ons.mpr ⟨ha, hoff⟩)
    refine ⟨h1, fun _ h0 => ?_⟩
    have hv : (qnote R c S (noteAt nb v0 st a.idx)).velocity = velOf nb v0 a.bin := h3
    have hb := acc.bins h0 a ha hoff
    rw [hv]
    simp only [velOf, show ¬ a.bin = 0 by omega, ↓reduceIte]
    exact velocityToBin_binToVelocity nb a.bin (by omega)

end accepted

/-! ### from the decidable predicate to `Accepted` -/

theorem accepted_of_canonicalB (nb ms : Int) (strict : Bool) (evs : List PEvent)
    (h : CanonicalPerfB nb ms strict evs = true) :
    1 ≤ ms ∧ (∀ x ∈ evs, x.valid = true) ∧ emit nb ms 0 0 (stream 0 0 evs) = evs ∧
      Accepted nb (shiftSum evs + 1) strict (annotate (stream 0 0 evs)) := by
  unfold CanonicalPerfB streamOk at h
  simp only [Bool.and_eq_true, decide_eq_true_eq, List.all_eq_true, Bool.or_eq_true, beq_iff_eq,
    List.isEmpty_iff, Bool.not_eq_true'] at h
  obtain ⟨⟨⟨hms, hvalid⟩, hlay⟩, ⟨⟨⟨⟨⟨hok, hclosed⟩, hsorted⟩, hons⟩, hpos⟩, hbins⟩⟩ := h
  refine ⟨hms, hvalid, hlay, ?_⟩
  have hst := annotate_inv (stream 0 0 evs)
  have hstream := anRun_stream (stream 0 0 evs)
    (fun e he => (stream_values evs 0 0 hvalid e he).2.2.1) ⟨0, [], [], true⟩ (by rw [← annotate_eq]; exact hok)
  rw [← annotate_eq] at hstream
  simp only [List.map_nil, List.nil_append] at hstream
  refine ⟨hst, hok, hclosed, hsorted, hons, ?_, ?_, ?_⟩
  · intro a ha haoff
    rcases hpos a ha with h | h
    · rw [haoff] at h; simp at h
    · exact h
  · intro h0 a ha haoff
    rcases hbins with h | h
    · exact absurd h h0
    · have := h a ha
      simp only [haoff, Bool.false_eq_true, false_or] at this
      exact this
  · intro a ha
    have hmem : a.toS ∈ stream 0 0 evs := by rw [← hstream]; exact List.mem_map_of_mem ha
    have := (stream_steps evs 0 0 hvalid).2 a.toS hmem
    simp only [AEv.toS] at this
    omega

/-- a canonical event list renders without error: one note per NOTE_OFF, in NOTE_OFF order -/
theorem decodeEvents_canonicalB (nb ms v0 : Int) (strict : Bool) (evs : List PEvent)
    (hcanon : CanonicalPerfB nb ms strict evs = true) :
    decodeEvents nb v0 evs = .ok ((annotate (stream 0 0 evs)).offs.map (noteOfOff nb v0)) := by
  obtain ⟨_, hvalid, hlay, acc⟩ := accepted_of_canonicalB nb ms strict evs hcanon
  have hkinds : ∀ x ∈ evs, (∀ v, x ≠ PEvent.duration v) ∧ (nb = 0 → ∀ b, x ≠ PEvent.velocity b) := by
    intro x hx
    rw [← hlay] at hx
    exact emit_kinds nb ms _ 0 0 x hx
  exact decodeEvents_annot nb v0 evs hvalid (fun x hx => (hkinds x hx).1)
    (fun h0 x hx => (hkinds x hx).2 h0) acc.ok acc.closed acc.pos

theorem accepted_of_canonical (nb ms : Int) (evs : List PEvent) (h : CanonicalPerf nb ms evs) :
    1 ≤ ms ∧ (∀ x ∈ evs, x.valid = true) ∧ emit nb ms 0 0 (stream 0 0 evs) = evs ∧
      Accepted nb (shiftSum evs + 1) true (annotate (stream 0 0 evs)) := accepted_of_canonicalB nb ms true evs h

theorem decodeEvents_canonical (nb ms v0 : Int) (evs : List PEvent) (hcanon : CanonicalPerf nb ms evs) :
    decodeEvents nb v0 evs = .ok ((annotate (stream 0 0 evs)).offs.map (noteOfOff nb v0)) :=
  decodeEvents_canonicalB nb ms v0 true evs hcanon

/-! ### the discrete half -/

/-- **discrete half, given the first sort**: if `sorted(notes)` of the quantized sequence is the list of rendered
notes in NOTE_ON order, extraction returns the event list -/
theorem perfEvents_of_sorted {R : Rat → Rat} {c : RenderCfg} {S : Int}
    (nb ms v0 : Int) (strict : Bool) (evs : List PEvent) (hcanon : CanonicalPerfB nb ms strict evs = true)
    (hnb0 : 0 ≤ nb) (filt : Option Int) (hfilt : filt = none ∨ filt = some c.instrument)
    (qs : NoteSeq)
    (hmem : ∀ n ∈ qs.notes, n ∈ ((annotate (stream 0 0 evs)).offs.map (noteOfOff nb v0)).map (qnote R c S))
    (hsort : qs.notes.mergeSort timePitchLe =
      ((List.range (annotate (stream 0 0 evs)).nOn).map (noteAt nb v0 (annotate (stream 0 0 evs)))).map (qnote R c S)) :
    perfEvents qs S nb ms filt = .ok evs := by
  obtain ⟨hms, hvalid, hlay, acc⟩ := accepted_of_canonicalB nb ms strict evs hcanon
  have hkinds : ∀ x ∈ evs, (∀ v, x ≠ PEvent.duration v) ∧ (nb = 0 → ∀ b, x ≠ PEvent.velocity b) := by
    intro x hx
    rw [← hlay] at hx
    exact emit_kinds nb ms _ 0 0 x hx
  have hstream := anRun_stream (stream 0 0 evs)
    (fun e he => (stream_values evs 0 0 hvalid e he).2.2.1) ⟨0, [], [], true⟩ (by rw [← annotate_eq]; exact acc.ok)
  rw [← annotate_eq] at hstream
  simp only [List.map_nil, List.nil_append] at hstream
  -- the selected and sorted notes
  have hsel : selectNotes qs S filt = qs.notes := by
    unfold selectNotes
    rw [List.filter_eq_self]
    intro n hn
    have hn := hmem n hn
    obtain ⟨r, hr, rfl⟩ := List.mem_map.mp hn
    obtain ⟨a, ha, rfl⟩ := List.mem_map.mp hr
    have h0 := (acc.inB (v0 := v0) a ha).1
    have hi : instOk filt (qnote R c S (noteOfOff nb v0 a)) = true := by
      rcases hfilt with rfl | rfl
      · rfl
      · simp [instOk, qnote, mkNote]
    simp only [Bool.and_eq_true, decide_eq_true_eq, hi, and_true]
    show S ≤ S + (noteOfOff nb v0 a).s
    omega
  have hsorted : sortedNotes qs S filt =
      ((List.range (annotate (stream 0 0 evs)).nOn).map (noteAt nb v0 (annotate (stream 0 0 evs)))).map (qnote R c S) := by
    unfold sortedNotes
    rw [hsel]
    exact hsort
  -- the loop
  have hb0 : nb = 0 → ∀ a ∈ (annotate (stream 0 0 evs)).out, a.isOff = false → a.bin = 0 := by
    intro h0 a ha haoff
    have hmem : a.toS ∈ stream 0 0 evs := by rw [← hstream]; exact List.mem_map_of_mem ha
    have := stream_bins_const evs 0 0 (fun x hx => (hkinds x hx).2 h0) a.toS hmem (by simp [AEv.toS, haoff])
    simpa [AEv.toS, haoff] using this
  have hproj := acc.estar_toS (v0 := v0) (R := R) c S hnb0 hb0
  rw [hstream] at hproj
  have hokE : ∀ e ∈ estar nb v0 (annotate (stream 0 0 evs)) (qnote R c S) S, NEvOk nb e := by
    intro e he
    unfold estar at he
    obtain ⟨a, ha, rfl⟩ := List.mem_map.mp he
    have hmem : a.toS ∈ stream 0 0 evs := by rw [← hstream]; exact List.mem_map_of_mem ha
    obtain ⟨p0, p1, _, hbin⟩ := stream_values evs 0 0 hvalid a.toS hmem
    obtain ⟨hp, hv⟩ := acc.estar_note (v0 := v0) (R := R) c S hnb0 a ha
    simp only [AEv.toS] at p0 p1 hbin
    refine ⟨by simp only [hp]; exact p0, by simp only [hp]; exact p1, fun h0 hoff => ?_⟩
    simp only at hoff
    rw [hv hoff h0]
    have hb := acc.bins h0 a ha hoff
    rcases hbin hoff with h | h
    · simp only [hoff, Bool.false_eq_true, ↓reduceIte] at h; omega
    · simpa [hoff] using h
  obtain ⟨st', hloop, hout⟩ := perfLoop_emit nb ms hms hnb0 _ ⟨S, 0, []⟩ hokE
  unfold perfEvents
  rw [hsorted, acc.noteEvents_eq (v0 := v0) c S, hloop]
  simp only
  rw [hout, hproj]
  simp only [List.nil_append]
  have := emit_shift nb ms S (stream 0 0 evs) 0 0
  rw [Int.zero_add] at this
  rw [this, hlay]

/-- **discrete half**: extraction from the rendered and re-quantized notes of a canonical event list returns the
event list.  `g`: the float half (times ↔ steps); `hqn`: the quantized sequence holds exactly the notes
`_to_sequence` adds (`decodeEvents`), each with `start_step +` its steps — in any storage order. -/
theorem perfEvents_roundtrip {R : Rat → Rat} {c : RenderCfg} {q : Rat → Int} {S : Int}
    (nb ms v0 : Int) (evs : List PEvent) (hcanon : CanonicalPerf nb ms evs)
    (hnb0 : 0 ≤ nb)
    (g : Grid (stepTimeR R c.sigma c.sst) q S (shiftSum evs + 1))
    (filt : Option Int) (hfilt : filt = none ∨ filt = some c.instrument) :
    ∃ D, decodeEvents nb v0 evs = .ok D ∧ (∀ r ∈ D, r.inB (shiftSum evs + 1)) ∧
      ∀ qs : NoteSeq, qs.notes.Perm (D.map (qnote R c S)) → perfEvents qs S nb ms filt = .ok evs := by
  obtain ⟨_, _, _, acc⟩ := accepted_of_canonical nb ms evs hcanon
  refine ⟨_, decodeEvents_canonical nb ms v0 evs hcanon, ?_, ?_⟩
  · intro r hr
    obtain ⟨a, ha, rfl⟩ := List.mem_map.mp hr
    exact acc.inB a ha
  intro qs hqn
  exact perfEvents_of_sorted nb ms v0 true evs hcanon hnb0 filt hfilt qs (fun n hn => hqn.mem_iff.mp hn)
    (sortedNotes_accepted acc g qs.notes hqn)

end NSV.C06P
