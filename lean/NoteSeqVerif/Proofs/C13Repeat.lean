import NoteSeqVerif.Props.C13
import NoteSeqVerif.Props.C02
/-! C13 — `repeat_sequence_to_duration`: closed form of the result (helper lemmas).

`repeat(s, D)` = `extract_subsequence(concatenate([s] * n, [d] * n), 0, D)` with
`d = sequence_duration or s.total_time`, `n = ceil(D / d)`.  Property C02's closed form of
`extract_subsequence` (`NSV.C02.extract_subsequence_spec`, `specPiece`) is composed with C13's
closed form of `concatenate_sequences` (`concat_ok_iff`, `foldl_merge_lists`, the offset recurrence).
Core Lean only. -/
namespace NSV.C13
open List

/-! ### the copies -/

/-- `d = sequence_duration or sequence.total_time` -/
def repDur (m : MSeq) (sd : Rat) : Rat := if sd = 0 then m.ns.totalTime else sd

/-- `int(math.ceil(duration / d))` as a list length -/
def repCount (R : Rat → Rat) (m : MSeq) (dur sd : Rat) : Nat := (R (dur / repDur m sd)).ceil.toNat

/-- the running `current_total_time` of the concatenation loop over `n` copies with explicit
duration `d`: `c, R (c + d), R (R (c + d) + d), …` -/
def repOffs (R : Rat → Rat) (d : Rat) : Rat → Nat → List Rat
  | _, 0 => []
  | c, n + 1 => c :: repOffs R d (R (c + d)) n

/-- the copies as they are merged: copy `k` shifted by offset `k` (copy 0 unshifted) -/
def repCopies (R : Rat → Rat) (m : MSeq) (d : Rat) (n : Nat) : List MSeq :=
  (repOffs R d 0 n).map (fun o => placed R o m)

/-- the repeated sequence before the cut -/
def repeatCat (R : Rat → Rat) (mm : List String → String) (m : MSeq) (dur sd : Rat) : MSeq :=
  finishCat mm (replicate (repCount R m dur sd) m)
    ((repCopies R m (repDur m sd) (repCount R m dur sd)).foldl mergeFromM emptyM)

theorem repOffs_length (R : Rat → Rat) (d : Rat) : ∀ (n : Nat) (c : Rat), (repOffs R d c n).length = n
  | 0, _ => rfl
  | n + 1, c => by simp [repOffs, repOffs_length R d n]

theorem catPairs_replicate (m : MSeq) (d : Rat) (n : Nat) :
    catPairs (replicate n m) (replicate n d) = replicate n (m, d) := by
  unfold catPairs
  cases n with
  | zero => simp
  | succ k => simp [replicate_succ]

theorem catOffsets_replicate (R : Rat → Rat) (m : MSeq) (d : Rat) : ∀ (n : Nat) (c tot : Rat),
    catOffsets R true c tot (replicate n (m, d)) = repOffs R d c n
  | 0, _, _ => by simp [catOffsets, repOffs]
  | n + 1, c, tot => by
    simp only [replicate_succ, catOffsets, repOffs, if_true]
    rw [catOffsets_replicate R m d n]

theorem catOffs_replicate (R : Rat → Rat) (m : MSeq) (d : Rat) (n : Nat) :
    catOffs R (replicate n m) (replicate n d) = repOffs R d 0 n := by
  unfold catOffs
  rw [catPairs_replicate]
  cases n with
  | zero => simp [catOffsets, repOffs]
  | succ k =>
    have : (!(replicate (k + 1) d).isEmpty) = true := by simp [replicate_succ]
    rw [this, catOffsets_replicate]

theorem placedList_replicate (R : Rat → Rat) (m : MSeq) (d : Rat) : ∀ (n : Nat) (l : List Rat), l.length = n →
    placedList R (replicate n (m, d)) l = l.map (fun o => placed R o m)
  | 0, l, h => by
    have : l = [] := by cases l <;> simp_all
    subst this; simp [placedList]
  | n + 1, l, h => by
    cases l with
    | nil => simp at h
    | cons o l =>
      have ih := placedList_replicate R m d n l (by simpa using h)
      simp only [placedList] at ih ⊢
      simp [replicate_succ, ih]

theorem catPieces_replicate (R : Rat → Rat) (m : MSeq) (d : Rat) (n : Nat) :
    catPieces R (replicate n m) (replicate n d) = repCopies R m d n := by
  unfold catPieces repCopies
  rw [catPairs_replicate, catOffs_replicate, placedList_replicate R m d n _ (repOffs_length R d n 0)]

/-! ### unfolding the call -/

/-- a successful `repeat_sequence_to_duration` is C02's closed-form piece `[0, D)` of the
concatenation of the copies, with `subsequence_info` cleared -/
theorem repeat_unfold (R : Rat → Rat) (mm : List String → String) (m : MSeq) (dur sd : Rat) (r : MSeq)
    (h : repeatFullR R mm m dur sd = .ok r) :
    repDur m sd ≠ 0 ∧
    concatR R mm (replicate (repCount R m dur sd) m) (replicate (repCount R m dur sd) (repDur m sd)) =
      .ok (repeatCat R mm m dur sd) ∧
    (repeatCat R mm m dur sd).ns.isQuantized = false ∧ 0 ≤ dur ∧ 0 < (repeatCat R mm m dur sd).ns.totalTime ∧
    r = { repeatCat R mm m dur sd with
          ns := { NSV.C02.specPiece R NSV.C02.Gen.PRESERVE (repeatCat R mm m dur sd).ns (0, dur) with
                  hasSub := false, subStart := 0, subEnd := 0 } } := by
  rw [repeat_spec] at h
  simp only [] at h
  have hd : repDur m sd ≠ 0 := by
    intro h0
    unfold repDur at h0
    rw [if_pos h0] at h; cases h
  have hd' : ¬ (if sd = 0 then m.ns.totalTime else sd) = 0 := hd
  rw [if_neg hd'] at h
  refine ⟨hd, ?_⟩
  cases hc : concatR R mm (replicate (repCount R m dur sd) m) (replicate (repCount R m dur sd) (repDur m sd)) with
  | error e =>
    unfold repCount repDur at hc
    rw [hc] at h; cases h
  | ok c =>
    have hcat : c = repeatCat R mm m dur sd := by
      have := ((concat_ok_iff R mm _ _ c).mp hc).2.2
      rw [catPieces_replicate] at this
      exact this
    subst hcat
    unfold repCount repDur at hc
    rw [hc] at h
    simp only [] at h
    rw [NSV.C02.extract_subsequence_spec] at h
    by_cases hq : (repeatCat R mm m dur sd).ns.isQuantized = true
    · rw [if_pos hq] at h; cases h
    · rw [if_neg hq] at h
      by_cases hv : (0 : Rat) > dur ∨ (repeatCat R mm m dur sd).ns.totalTime ≤ 0
      · rw [if_pos hv] at h; cases h
      · rw [if_neg hv] at h
        simp only [Except.ok.injEq] at h
        refine ⟨rfl, by simpa using hq, by grind, by grind, h.symm⟩

/-- the containers of the repeated sequence before the cut -/
theorem repeatCat_fields (R : Rat → Rat) (mm : List String → String) (m : MSeq) (dur sd : Rat) :
    (repeatCat R mm m dur sd).ns.notes = (repCopies R m (repDur m sd) (repCount R m dur sd)).flatMap (·.ns.notes) ∧
    (repeatCat R mm m dur sd).ns.texts = (repCopies R m (repDur m sd) (repCount R m dur sd)).flatMap (·.ns.texts) ∧
    (repeatCat R mm m dur sd).ns.ccs = (repCopies R m (repDur m sd) (repCount R m dur sd)).flatMap (·.ns.ccs) ∧
    (repeatCat R mm m dur sd).ns.sectionAnns =
      (repCopies R m (repDur m sd) (repCount R m dur sd)).flatMap (·.ns.sectionAnns) ∧
    (repeatCat R mm m dur sd).ns.tempos =
      redTempos ((repCopies R m (repDur m sd) (repCount R m dur sd)).flatMap (·.ns.tempos)) ∧
    (repeatCat R mm m dur sd).ns.timeSigs =
      redTimeSigs ((repCopies R m (repDur m sd) (repCount R m dur sd)).flatMap (·.ns.timeSigs)) ∧
    (repeatCat R mm m dur sd).ns.keySigs =
      redKeySigs ((repCopies R m (repDur m sd) (repCount R m dur sd)).flatMap (·.ns.keySigs)) ∧
    (repeatCat R mm m dur sd).ns.totalTime =
      lastNZ 0 ((repCopies R m (repDur m sd) (repCount R m dur sd)).map (·.ns.totalTime)) := by
  obtain ⟨h1, h2, h3, h4, h5, h6, h7, h8, h9, h10, h11⟩ :=
    foldl_merge_lists (repCopies R m (repDur m sd) (repCount R m dur sd)) emptyM
  obtain ⟨s1, s2, _, _⟩ := foldl_merge_scalars (repCopies R m (repDur m sd) (repCount R m dur sd)) emptyM
  simp only [repeatCat, finishCat, removeRedundant, h1, h2, h3, h4, h5, h6, h7, h8, h9, h10, h11, s1, s2]
  simp [emptyM]

/-! ### exact arithmetic: offsets are the multiples of `d` -/

theorem repOffs_exact (d : Rat) : ∀ (n : Nat) (c : Rat),
    repOffs id d c n = (List.range n).map (fun (k : Nat) => c + ((k : Int) : Rat) * d)
  | 0, _ => by simp [repOffs]
  | n + 1, c => by
    rw [repOffs, repOffs_exact d n, range_succ_eq_map]
    simp only [map_cons, map_map, id]
    congr 1
    · simp [Rat.zero_mul, Rat.add_zero]
    · apply map_congr_left
      intro k _
      simp only [Function.comp, Nat.succ_eq_add_one]
      have : (((k + 1 : Nat) : Int) : Rat) = ((k : Int) : Rat) + 1 := by
        simp [Int.natCast_add, Rat.intCast_add]
      rw [this]
      grind

/-- a note of copy `k` in exact arithmetic -/
def shiftNote (o : Rat) (nt : Note) : Note := { nt with start := nt.start + o, end_ := nt.end_ + o }

theorem placed_id_notes (o : Rat) (m : MSeq) (ho : 0 ≤ o) :
    (placed id o m).ns.notes = m.ns.notes.map (shiftNote o) := by
  unfold placed
  by_cases h : 0 < o
  · simp [h, shiftSeq, shiftNote]
  · have h0 : o = 0 := by grind
    subst h0
    simp only [h, if_false]
    have : shiftNote 0 = id := by
      funext nt; simp [shiftNote, Rat.add_zero]
    rw [this, map_id]

theorem mul_nonneg_nat (k : Nat) (d : Rat) (hd : 0 ≤ d) : 0 ≤ ((k : Int) : Rat) * d := by
  apply Rat.mul_nonneg _ hd
  have : ((0 : Int) : Rat) ≤ ((k : Int) : Rat) := Rat.intCast_le_intCast.mpr (by omega)
  simpa using this

/-- all the notes of the repeated sequence before the cut, exact arithmetic: copy after copy,
copy `k` shifted by `k·d` -/
theorem repCopies_id_notes (m : MSeq) (d : Rat) (n : Nat) (hd : 0 ≤ d) :
    (repCopies id m d n).flatMap (·.ns.notes) =
      (List.range n).flatMap (fun (k : Nat) => m.ns.notes.map (shiftNote (((k : Int) : Rat) * d))) := by
  unfold repCopies
  rw [repOffs_exact]
  simp only [flatMap_map, map_map]
  congr 1
  funext k
  simp only [Function.comp, Rat.zero_add]
  exact placed_id_notes _ m (mul_nonneg_nat k d hd)

/-! ### cutting: C02's filter-and-clip on the copies -/

/-- what the cut at `D` does to one note in exact arithmetic (`none` = not in the result) -/
def cutNote (dur : Rat) (nt : Note) : Option Note :=
  if 0 ≤ nt.start ∧ nt.start < dur then some { nt with end_ := if dur < nt.end_ then dur else nt.end_ } else none

theorem clip_id_eq (dur : Rat) (nt : Note) :
    NSV.C02.clipR id 0 dur nt = { nt with end_ := if dur < nt.end_ then dur else nt.end_ } := by
  have h1 : nt.start - 0 = nt.start := by grind
  have h2 : min nt.end_ dur - 0 = if dur < nt.end_ then dur else nt.end_ := by
    rw [Rat.min_def]
    by_cases h : nt.end_ ≤ dur
    · have : ¬ dur < nt.end_ := by grind
      simp only [h, this, if_true, if_false]; grind
    · have : dur < nt.end_ := by grind
      simp only [h, this, if_true, if_false]; grind
  simp [NSV.C02.clipR, h1, h2]

theorem filter_map_clip_eq (dur : Rat) (l : List Note) :
    (l.filter (fun x => decide (0 ≤ x.start) && decide (x.start < dur))).map (NSV.C02.clipR id 0 dur) =
      l.filterMap (cutNote dur) := by
  induction l with
  | nil => rfl
  | cons a l ih =>
    by_cases h : 0 ≤ a.start ∧ a.start < dur
    · have h' : (decide (0 ≤ a.start) && decide (a.start < dur)) = true := by simp [h.1, h.2]
      simp only [filter_cons, h', if_true, map_cons, filterMap_cons, ih, clip_id_eq]
      simp [cutNote, h]
    · have h' : (decide (0 ≤ a.start) && decide (a.start < dur)) = false := by
        rw [Bool.eq_false_iff]; simp only [ne_eq, Bool.and_eq_true, decide_eq_true_eq]; exact h
      simp only [filter_cons, h', Bool.false_eq_true, if_false, filterMap_cons, ih]
      simp [cutNote, h]

/-! ### unquantized and positive total time (for the existence of a result) -/

theorem foldl_merge_nonpos : ∀ (ms : List MSeq) (cat : MSeq),
    cat.ns.spq ≤ 0 → cat.ns.sps ≤ 0 → (∀ m ∈ ms, m.ns.spq ≤ 0 ∧ m.ns.sps ≤ 0) →
    (ms.foldl mergeFromM cat).ns.spq ≤ 0 ∧ (ms.foldl mergeFromM cat).ns.sps ≤ 0
  | [], cat, h1, h2, _ => by simp [h1, h2]
  | m :: ms, cat, h1, h2, h => by
    have hm := h m (by simp)
    refine foldl_merge_nonpos ms (mergeFromM cat m) ?_ ?_ (fun x hx => h x (by simp [hx]))
    · simp only [mergeFromM, mergeFrom]; split <;> (try split) <;> omega
    · simp only [mergeFromM, mergeFrom]; split <;> (try split) <;> omega

theorem lastNZ_pos : ∀ (l : List Rat) (init : Rat), (0 < init ∨ l ≠ []) → (∀ x ∈ l, 0 < x) → 0 < lastNZ init l
  | [], init, h, _ => by
    rcases h with h | h
    · simpa [lastNZ] using h
    · exact absurd rfl h
  | x :: l, init, _, hp => by
    have hx : 0 < x := hp x (by simp)
    have hne : x ≠ 0 := by grind
    have : lastNZ init (x :: l) = lastNZ x l := by simp [lastNZ, hne]
    rw [this]
    exact lastNZ_pos l x (Or.inl hx) (fun y hy => hp y (by simp [hy]))

theorem isQuantized_false_iff (s : NoteSeq) : s.isQuantized = false ↔ s.spq ≤ 0 ∧ s.sps ≤ 0 := by
  simp [NoteSeq.isQuantized]

theorem placed_quant (R : Rat → Rat) (o : Rat) (m : MSeq) :
    (placed R o m).ns.spq = m.ns.spq ∧ (placed R o m).ns.sps = m.ns.sps := by
  unfold placed; split <;> simp [shiftSeq]

/-! ### the cyclic copies -/

/-- `n` copies of the notes `l`, copy `k` shifted by `k·d`, copy after copy -/
def cyclicCopies (l : List Note) (d : Rat) (n : Nat) : List Note :=
  (List.range n).flatMap (fun (k : Nat) => l.map (shiftNote (((k : Int) : Rat) * d)))

theorem mem_cyclicCopies (l : List Note) (d : Rat) (n : Nat) (a : Note) :
    a ∈ cyclicCopies l d n ↔ ∃ k, k < n ∧ ∃ nt ∈ l, a = shiftNote (((k : Int) : Rat) * d) nt := by
  simp only [cyclicCopies, mem_flatMap, mem_range, mem_map]
  constructor
  · rintro ⟨k, hk, nt, hnt, rfl⟩; exact ⟨k, hk, nt, hnt, rfl⟩
  · rintro ⟨k, hk, nt, hnt, rfl⟩; exact ⟨k, hk, nt, hnt, rfl⟩

theorem cyclicCopies_succ (l : List Note) (d : Rat) (n : Nat) :
    cyclicCopies l d (n + 1) = cyclicCopies l d n ++ l.map (shiftNote (((n : Int) : Rat) * d)) := by
  simp [cyclicCopies, range_succ, flatMap_append]

theorem natCast_mul_le (k n : Nat) (d : Rat) (hd : 0 ≤ d) (h : k ≤ n) :
    ((k : Int) : Rat) * d ≤ ((n : Int) : Rat) * d := by
  apply Rat.mul_le_mul_of_nonneg_right _ hd
  exact Rat.intCast_le_intCast.mpr (by omega)

/-- start-sorted notes that start inside `[0, d]`: the copies are start-sorted as they stand -/
theorem cyclicCopies_sorted (l : List Note) (d : Rat) (hs : l.Pairwise (fun a b => a.start ≤ b.start))
    (hin : ∀ nt ∈ l, 0 ≤ nt.start ∧ nt.start ≤ d) (hd : 0 ≤ d) :
    ∀ n, (cyclicCopies l d n).Pairwise (fun a b => a.start ≤ b.start)
  | 0 => by simp [cyclicCopies]
  | n + 1 => by
    rw [cyclicCopies_succ, pairwise_append]
    refine ⟨cyclicCopies_sorted l d hs hin hd n, ?_, ?_⟩
    · rw [pairwise_map]
      refine hs.imp ?_
      intro a b hab
      simp only [shiftNote]; grind
    · intro a ha b hb
      obtain ⟨k, hk, nt, hnt, rfl⟩ := (mem_cyclicCopies l d n a).mp ha
      obtain ⟨nt', hnt', rfl⟩ := mem_map.mp hb
      have h1 := (hin nt hnt).2
      have h2 := (hin nt' hnt').1
      have h3 := natCast_mul_le (k + 1) n d hd (by omega)
      have h4 : (((k + 1 : Nat) : Int) : Rat) = ((k : Int) : Rat) + 1 := by
        simp [Int.natCast_add, Rat.intCast_add]
      rw [h4] at h3
      simp only [shiftNote]
      grind

/-! ### the other containers of a copy, exact arithmetic -/

theorem placed_id_events (o : Rat) (m : MSeq) (ho : 0 ≤ o) :
    (placed id o m).ns.tempos = m.ns.tempos.map (fun e => { e with time := e.time + o }) ∧
    (placed id o m).ns.timeSigs = m.ns.timeSigs.map (fun e => { e with time := e.time + o }) ∧
    (placed id o m).ns.keySigs = m.ns.keySigs.map (fun e => { e with time := e.time + o }) ∧
    (placed id o m).ns.texts = m.ns.texts.map (fun e => { e with time := e.time + o }) ∧
    (placed id o m).ns.ccs = m.ns.ccs.map (fun e => { e with time := e.time + o }) ∧
    (placed id o m).ns.sectionAnns = m.ns.sectionAnns.map (fun e => { e with time := e.time + o }) := by
  unfold placed
  by_cases h : 0 < o
  · simp [h, shiftSeq]
  · have h0 : o = 0 := by grind
    subst h0
    simp [Rat.add_zero]

theorem filterMap_congr_mem {α β} {f g : α → Option β} : ∀ (l : List α), (∀ a ∈ l, f a = g a) →
    l.filterMap f = l.filterMap g
  | [], _ => rfl
  | a :: l, h => by
    simp only [filterMap_cons, h a (by simp), filterMap_congr_mem l (fun x hx => h x (by simp [hx]))]

end NSV.C13
