import NoteSeqVerif.Proofs.C08Inst
import NoteSeqVerif.Model.C08Wrap
/-! C08 — helper lemmas for the wrapper / base-class-helper theorems of `Props/C08Wrap.lean`. -/
namespace NSV.C08
open Gen

/-- `sum(v if is_shift else 0 …)` = the sum over the time-shift events only -/
theorem sum_ite_eq_sum_filter {α : Type} (p : α → Bool) (f : α → Int) (l : List α) :
    (l.map (fun a => if p a then f a else 0)).sum = ((l.filter p).map f).sum := by
  induction l with
  | nil => rfl
  | cons a as ih =>
    simp only [List.map_cons, List.sum_cons, List.filter_cons]
    cases hp : p a with
    | true => simp [ih]
    | false => simp [ih]

/-- the step count of a performance event sequence: the values of its TIME_SHIFT events -/
def perfSteps (evs : List (Nat × Int)) : Int :=
  ((evs.filter (fun e => decide (e.1 = TIME_SHIFT))).map (fun e => e.2)).sum

theorem stepsOf_perf (bins ms lo hi : Int) (evs : List (Nat × Int)) :
    stepsOf (perfOneHot bins ms lo hi) evs = perfSteps evs := by
  unfold stepsOf perfSteps perfOneHot
  simp only []
  rw [← sum_ite_eq_sum_filter]
  congr 1
  apply List.map_congr_left
  intro e _
  by_cases h : e.1 = TIME_SHIFT <;> simp [h]

/-- a successful `Except.map` -/
theorem map_ok {α β : Type} {x : Except String α} {f : α → β} {b : β} (h : x.map f = .ok b) :
    ∃ a, x = .ok a ∧ f a = b := by
  cases x with
  | error e => cases h
  | ok a => exact ⟨a, rfl, by simpa [Except.map] using h⟩

/-- every class index of a legal modulo-performance configuration decodes to a valid event -/
theorem modulo_decode_total (c : ModCfg) (hc : ModCfgOk c) : DecodeTotal (modOneHot c) := by
  intro i h0 h1
  obtain ⟨c1, c2, c3⟩ := hc
  obtain ⟨r, hr, v, hv1, hv2, _, he⟩ := C09.ranges_decode_encode _
    (C09.perfRanges_wf c.bins c.maxShift MIN_MIDI_PITCH MAX_MIDI_PITCH
      ⟨c1, c3, by unfold MIN_MIDI_PITCH MAX_MIDI_PITCH; omega⟩) 0 i h0
    (by simpa [modOneHot, perfOneHot, C09.perfNumClasses] using h1)
  obtain ⟨i', e1, e2, e3, e4⟩ := modulo_valid c ⟨c1, c2, c3⟩ (r.ty, v) ⟨r, hr, rfl, hv1, hv2⟩
  have hi : i' = i := by
    have e1' : C09.perfEncode c.bins c.maxShift MIN_MIDI_PITCH MAX_MIDI_PITCH r.ty v = .ok i' := e1
    unfold C09.perfEncode at e1'
    rw [he] at e1'
    injection e1' with e1'
    exact e1'.symm
  subst hi
  exact ⟨(r.ty, v), e4, i', e1, e2, e3, e4⟩

section
variable {ε ι κ ν : Type}

/-- one `extend_event_sequences` call per label on a one-sequence batch IS the generation loop
"`class_index_to_event` against the history, then append" -/
theorem extendLoop_genLoop (E : SeqEnc ε ι κ ν) (labels : List κ) (evs : List ε) :
    E.extendLoop labels evs = genLoop E.cite labels evs := by
  induction labels generalizing evs with
  | nil => rfl
  | cons l ls ih =>
    unfold SeqEnc.extendLoop genLoop
    simp only [SeqEnc.extend, List.zip_cons_cons, List.zip_nil_right, mapE, SeqEnc.extendOne]
    cases h : E.cite l evs with
    | error e => simp [Except.map]
    | ok ev => simpa [Except.map] using ih _

theorem inputsOf_full (toIn : Int → Except String (List ι)) (len : Nat) (out : List (List ι))
    (h : SeqEnc.inputsOf toIn len true = .ok out) :
    out.length = len ∧ ∀ i (_ : i < len) (ho : i < out.length), toIn (i : Int) = .ok out[i] := by
  unfold SeqEnc.inputsOf at h
  simp only [if_true] at h
  obtain ⟨h1, h2⟩ := mapE_ok _ _ _ h
  refine ⟨by simpa using h1, fun i hi ho => ?_⟩
  have := h2 i (by simpa using hi) ho
  simpa using this

theorem inputsOf_last (toIn : Int → Except String (List ι)) (len : Nat) (out : List (List ι))
    (h : SeqEnc.inputsOf toIn len false = .ok out) :
    ∃ v, toIn ((len : Int) - 1) = .ok v ∧ out = [v] := by
  unfold SeqEnc.inputsOf at h
  simp only [Bool.false_eq_true, if_false] at h
  obtain ⟨v, hv, hb⟩ := map_ok h
  exact ⟨v, hv, hb.symm⟩
end

/-! ### wrappers used by the non-vacuity examples of `Props/C08Wrap.lean` -/

/-- control: a melody one-hot over 2 pitches (4 classes); target: performance events, lookback [2] (≥ 300 classes) -/
def exW : Cond Int (Nat × Int) Int Int Int Int Int :=
  ⟨ohEnc (melOneHot 60 62), lbEnc (perfOneHot 0 100 0 127) ⟨[2], 0⟩⟩

/-- control inherits the base implementation (key-melody), target is the modulo-performance encoder -/
def exW2 : Cond Int (Nat × Int) MCell Int Int Int Int :=
  ⟨(keyEnc ⟨48, 84, [16, 32], 7⟩).mapCells (fun i => if i = 0 then MCell.zero else MCell.one), modEnc ⟨0, 100⟩⟩

end NSV.C08
