import NoteSeqVerif.Proofs.C20_pcm
import NoteSeqVerif.Props.C20_chunk00
import NoteSeqVerif.Props.C20_chunk01
import NoteSeqVerif.Props.C20_chunk02
import NoteSeqVerif.Props.C20_chunk03
import NoteSeqVerif.Props.C20_chunk04
import NoteSeqVerif.Props.C20_chunk05
import NoteSeqVerif.Props.C20_chunk06
import NoteSeqVerif.Props.C20_chunk07
import NoteSeqVerif.Props.C20_chunk08
import NoteSeqVerif.Props.C20_chunk09
import NoteSeqVerif.Props.C20_chunk10
import NoteSeqVerif.Props.C20_chunk11
import NoteSeqVerif.Props.C20_chunk12
import NoteSeqVerif.Props.C20_chunk13
import NoteSeqVerif.Props.C20_chunk14
import NoteSeqVerif.Props.C20_chunk15
/-! C20 — the 16 kernel-decided chunk theorems assembled into one statement over all int16 values. -/
namespace NSV.C20

/-- the 16 kernel-decided chunks assembled: every int16 value passes the check -/
theorem pcmOk_all (k : Int) (h1 : -32768 ≤ k) (h2 : k ≤ 32767) : pcmOk k = true := by
  by_cases c00 : k < -28672
  · exact pcmOk_of_range pcm_chunk00 k (by omega) (by omega)
  by_cases c01 : k < -24576
  · exact pcmOk_of_range pcm_chunk01 k (by omega) (by omega)
  by_cases c02 : k < -20480
  · exact pcmOk_of_range pcm_chunk02 k (by omega) (by omega)
  by_cases c03 : k < -16384
  · exact pcmOk_of_range pcm_chunk03 k (by omega) (by omega)
  by_cases c04 : k < -12288
  · exact pcmOk_of_range pcm_chunk04 k (by omega) (by omega)
  by_cases c05 : k < -8192
  · exact pcmOk_of_range pcm_chunk05 k (by omega) (by omega)
  by_cases c06 : k < -4096
  · exact pcmOk_of_range pcm_chunk06 k (by omega) (by omega)
  by_cases c07 : k < 0
  · exact pcmOk_of_range pcm_chunk07 k (by omega) (by omega)
  by_cases c08 : k < 4096
  · exact pcmOk_of_range pcm_chunk08 k (by omega) (by omega)
  by_cases c09 : k < 8192
  · exact pcmOk_of_range pcm_chunk09 k (by omega) (by omega)
  by_cases c10 : k < 12288
  · exact pcmOk_of_range pcm_chunk10 k (by omega) (by omega)
  by_cases c11 : k < 16384
  · exact pcmOk_of_range pcm_chunk11 k (by omega) (by omega)
  by_cases c12 : k < 20480
  · exact pcmOk_of_range pcm_chunk12 k (by omega) (by omega)
  by_cases c13 : k < 24576
  · exact pcmOk_of_range pcm_chunk13 k (by omega) (by omega)
  by_cases c14 : k < 28672
  · exact pcmOk_of_range pcm_chunk14 k (by omega) (by omega)
  exact pcmOk_of_range pcm_chunk15 k (by omega) (by omega)

/-- the Python-int multiplier is exactly representable in float32 (so `y * 32767` is one rounding) -/
theorem toIntMul_exact : rne 24 (Gen.toIntMul : Rat) = (Gen.toIntMul : Rat) := by decide +kernel

end NSV.C20
