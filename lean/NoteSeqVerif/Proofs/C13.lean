import NoteSeqVerif.Model.C13Spec
/-! C13 — helper lemmas (core Lean only; linear arithmetic on `Rat` by `grind`). -/
namespace NSV.C13
open List

/-! ### remove_redundant_data -/


theorem dropAux_sublist {α} (same : α → α → Bool) : ∀ (prev : α) (l : List α), (dropAux same prev l).Sublist l
  | _, [] => by simp [dropAux]
  | prev, b :: l => by
    unfold dropAux
    split
    · exact (dropAux_sublist same b l).trans (sublist_cons_self b l)
    · exact (dropAux_sublist same b l).cons_cons b

theorem dropRepeats_sublist {α} (same : α → α → Bool) (l : List α) : (dropRepeats same l).Sublist l := by
  cases l with
  | nil => simp [dropRepeats]
  | cons a l => exact (dropAux_sublist same a l).cons_cons a

/-- exactly the elements that agree with their predecessor (in the list before deletion) go -/
theorem dropAux_eq_filterMap {α} (same : α → α → Bool) : ∀ (prev : α) (l : List α),
    dropAux same prev l = (withPred prev l).filterMap (fun pb => if same pb.1 pb.2 then none else some pb.2)
  | _, [] => by simp [dropAux, withPred]
  | prev, b :: l => by
    have ih := dropAux_eq_filterMap same b l
    unfold withPred at *
    unfold dropAux
    by_cases h : same prev b <;> simp [h, ih]

theorem inEffect_dropAux {α β} (time : α → Rat) (val : α → β) (same : α → α → Bool)
    (hv : ∀ a b, same a b = true → val a = val b) (t : Rat) :
    ∀ (l : List α) (prev : α) (c : Option β), (prev :: l).Pairwise (fun a b => time a ≤ time b) →
      (time prev ≤ t → c = some (val prev)) →
      inEffect time val t (dropAux same prev l) c = inEffect time val t l c
  | [], _, _, _, _ => by simp [dropAux]
  | b :: l, prev, c, hs, hc => by
    have hs' : (b :: l).Pairwise (fun a b => time a ≤ time b) := (pairwise_cons.mp hs).2
    have hpb : time prev ≤ time b := (pairwise_cons.mp hs).1 b (by simp)
    unfold dropAux
    by_cases h : same prev b
    · simp only [h, if_true]
      by_cases ht : time b ≤ t
      · have hc' : c = some (val b) := by
          rw [hc (Rat.le_trans hpb ht), hv _ _ h]
        simp only [inEffect, ht, if_true]
        rw [← hc']
        exact inEffect_dropAux time val same hv t l b c hs' (fun _ => hc')
      · simp only [inEffect, ht, if_false]
        exact inEffect_dropAux time val same hv t l b c hs' (fun h' => absurd h' ht)
    · simp only [h, Bool.false_eq_true, if_false, inEffect]
      by_cases ht : time b ≤ t
      · simp only [ht, if_true]
        exact inEffect_dropAux time val same hv t l b _ hs' (fun _ => rfl)
      · simp only [ht, if_false]
        exact inEffect_dropAux time val same hv t l b c hs' (fun h' => absurd h' ht)

theorem inEffect_dropRepeats {α β} (time : α → Rat) (val : α → β) (same : α → α → Bool)
    (hv : ∀ a b, same a b = true → val a = val b) (t : Rat) (l : List α)
    (hs : l.Pairwise (fun a b => time a ≤ time b)) (c : Option β) :
    inEffect time val t (dropRepeats same l) c = inEffect time val t l c := by
  cases l with
  | nil => simp [dropRepeats]
  | cons a l =>
    simp only [dropRepeats, inEffect]
    by_cases ht : time a ≤ t
    · simp only [ht, if_true]
      exact inEffect_dropAux time val same hv t l a _ hs (fun _ => rfl)
    · simp only [ht, if_false]
      exact inEffect_dropAux time val same hv t l a c hs (fun h' => absurd h' ht)

theorem sortByRat_pairwise {α} (key : α → Rat) (l : List α) :
    (sortByRat key l).Pairwise (fun a b => key a ≤ key b) := by
  have := pairwise_mergeSort (le := fun a b => decide (key a ≤ key b))
    (fun a b c h1 h2 => by simp at *; exact Rat.le_trans h1 h2)
    (fun a b => by simp; exact Rat.le_total) l
  simpa [sortByRat] using this

theorem sortByRat_of_pairwise {α} (key : α → Rat) (l : List α) (h : l.Pairwise (fun a b => key a ≤ key b)) :
    sortByRat key l = l := by
  unfold sortByRat
  apply mergeSort_of_pairwise
  simpa using h

/-- removing redundant events does not change the value in force at any time -/
theorem inForce_dropRepeats_sort {α β} (time : α → Rat) (val : α → β) (same : α → α → Bool)
    (hv : ∀ a b, same a b = true → val a = val b) (l : List α) (t : Rat) :
    inForce time val (dropRepeats same (sortByRat time l)) t = inForce time val l t := by
  unfold inForce
  have hs := sortByRat_pairwise time l
  have hs' : (dropRepeats same (sortByRat time l)).Pairwise (fun a b => time a ≤ time b) :=
    hs.sublist (dropRepeats_sublist same _)
  rw [sortByRat_of_pairwise time _ hs']
  exact inEffect_dropRepeats time val same hv t _ hs none


/-! ### metadata de-duplication -/


/-! dedup -/
theorem dedupGo_sublist : ∀ (l seen : List String), (dedupGo seen l).Sublist l
  | [], _ => by simp [dedupGo]
  | x :: r, seen => by
    unfold dedupGo
    split
    · exact (dedupGo_sublist r seen).trans (sublist_cons_self x r)
    · exact (dedupGo_sublist r (x :: seen)).cons_cons x

theorem mem_dedupGo : ∀ (l seen : List String) (y : String), y ∈ dedupGo seen l ↔ y ∈ l ∧ y ∉ seen
  | [], _, _ => by simp [dedupGo]
  | x :: r, seen, y => by
    unfold dedupGo
    by_cases h : seen.contains x
    · simp only [h, if_true, mem_dedupGo r seen y, mem_cons]
      have : x ∈ seen := by simpa using h
      grind
    · simp only [h, Bool.false_eq_true, if_false, mem_cons, mem_dedupGo r (x :: seen) y]
      have : x ∉ seen := by simpa using h
      grind

theorem dedupGo_nodup : ∀ (l seen : List String), (dedupGo seen l).Nodup
  | [], _ => by simp [dedupGo]
  | x :: r, seen => by
    unfold dedupGo
    split
    · exact dedupGo_nodup r seen
    · refine nodup_cons.mpr ⟨?_, dedupGo_nodup r (x :: seen)⟩
      simp [mem_dedupGo]

/-- right-to-left reading: an element is appended iff it has not occurred before (first occurrences are kept) -/
theorem dedupGo_append_singleton : ∀ (l seen : List String) (x : String),
    dedupGo seen (l ++ [x]) = if x ∈ seen ∨ x ∈ l then dedupGo seen l else dedupGo seen l ++ [x]
  | [], seen, x => by
    by_cases h : x ∈ seen <;> simp [dedupGo, h]
  | y :: r, seen, x => by
    simp only [cons_append, dedupGo]
    by_cases h : seen.contains y
    · simp only [h, if_true, dedupGo_append_singleton r seen x, mem_cons]
      have : y ∈ seen := by simpa using h
      grind
    · simp only [h, Bool.false_eq_true, if_false, dedupGo_append_singleton r (y :: seen) x, mem_cons]
      grind


/-! ### concatenate_sequences -/


theorem shiftR_ok (R : Rat → Rat) (d : Rat) (s : NoteSeq) (hd : 0 < d) (hq : s.isQuantized = false) :
    shiftR R d s = .ok (shiftSeq R d s) := by
  have hd' : ¬ d ≤ 0 := by grind
  simp [shiftR, hd', hq, shiftSeq, mapEv, mapNotes, Gen.shiftEventFields]

theorem stretchR_ok (R : Rat → Rat) (f : Rat) (s : NoteSeq) (hq : s.isQuantized = false) (h1 : f ≠ 1)
    (h0 : f ≠ 0 ∨ s.tempos = []) :
    stretchR R f s = .ok { mapEv allEventKinds (fun t => R (t * f)) s with
      notes := mapNotes (fun t => R (t * f)) s.notes, totalTime := R (s.totalTime * f),
      tempos := s.tempos.map (fun e => { time := R (e.time * f), qpm := R (e.qpm / f) }) } := by
  unfold stretchR
  simp only [hq, Bool.false_eq_true, if_false, h1]
  have hz : ¬ (f = 0 ∧ ¬ ((mapEv Gen.stretchEventFields (fun t => R (t * f))
      { s with notes := mapNotes (fun t => R (t * f)) s.notes, totalTime := R (s.totalTime * f) }).tempos.isEmpty = true)) := by
    rintro ⟨hf, ht⟩
    rcases h0 with h0 | h0
    · exact h0 hf
    · exact ht (by simp [mapEv, h0])
  rw [if_neg hz]
  simp [mapEv, Gen.stretchEventFields, allEventKinds]

theorem place_eq (R : Rat → Rat) (cur : Rat) (s : MSeq) :
    (if 0 < cur then shiftM R cur s else .ok s) =
      if 0 < cur ∧ s.ns.isQuantized = true then .error .quantizationStatusError else .ok (placed R cur s) := by
  by_cases h : 0 < cur
  · by_cases hq : s.ns.isQuantized
    · have hd' : ¬ cur ≤ 0 := by grind
      simp [h, hq, shiftM, shiftR, hd']
    · simp only [Bool.not_eq_true] at hq
      simp [h, hq, shiftM, shiftR_ok R cur s.ns h hq, placed]
  · simp [h, placed]

theorem catLoop_ok_iff (R : Rat → Rat) (useD : Bool) : ∀ (pairs : List (MSeq × Rat)) (cur : Rat) (cat r : MSeq),
    catLoop R useD cur cat pairs = .ok r ↔
      (∀ po ∈ pairs.zip (catOffsets R useD cur cat.ns.totalTime pairs), ¬ pieceProblem useD po.1 po.2) ∧
      r = (placedList R pairs (catOffsets R useD cur cat.ns.totalTime pairs)).foldl mergeFromM cat
  | [], cur, cat, r => by simp [catLoop, catOffsets, placedList]; exact eq_comm
  | (s, d) :: rest, cur, cat, r => by
    unfold catLoop
    by_cases h1 : useD = true ∧ d < s.ns.totalTime
    · rw [if_pos h1]
      refine ⟨fun h => (by cases h), fun ⟨h, _⟩ => ?_⟩
      exact absurd (Or.inl h1) (h ((s, d), cur) (by simp [catOffsets]))
    · rw [if_neg h1, place_eq]
      by_cases h2 : 0 < cur ∧ s.ns.isQuantized = true
      · rw [if_pos h2]
        refine ⟨fun h => (by cases h), fun ⟨h, _⟩ => ?_⟩
        exact absurd (Or.inr h2) (h ((s, d), cur) (by simp [catOffsets]))
      · rw [if_neg h2]
        show catLoop R useD _ _ rest = .ok r ↔ _
        have ih := catLoop_ok_iff R useD rest
          (if useD = true then R (cur + d) else (mergeFromM cat (placed R cur s)).ns.totalTime)
          (mergeFromM cat (placed R cur s)) r
        have htot : (mergeFromM cat (placed R cur s)).ns.totalTime =
            (if (if 0 < cur then R (s.ns.totalTime + cur) else s.ns.totalTime) ≠ 0
              then (if 0 < cur then R (s.ns.totalTime + cur) else s.ns.totalTime) else cat.ns.totalTime) := by
          by_cases hc : 0 < cur <;> simp [mergeFromM, mergeFrom, placed, hc, shiftSeq]
        rw [ih]
        have hp : ¬ pieceProblem useD (s, d) cur := by
          intro hp; rcases hp with hp | hp
          · exact h1 hp
          · exact h2 hp
        simp only [catOffsets, zip_cons_cons, mem_cons, forall_eq_or_imp, placedList, map_cons, foldl_cons]
        rw [← htot]
        constructor
        · rintro ⟨ha, hb⟩; exact ⟨⟨hp, ha⟩, hb⟩
        · rintro ⟨⟨_, ha⟩, hb⟩; exact ⟨ha, hb⟩

theorem foldl_merge_lists : ∀ (ms : List MSeq) (cat : MSeq),
    (ms.foldl mergeFromM cat).ns.notes = cat.ns.notes ++ ms.flatMap (·.ns.notes) ∧
    (ms.foldl mergeFromM cat).ns.tempos = cat.ns.tempos ++ ms.flatMap (·.ns.tempos) ∧
    (ms.foldl mergeFromM cat).ns.timeSigs = cat.ns.timeSigs ++ ms.flatMap (·.ns.timeSigs) ∧
    (ms.foldl mergeFromM cat).ns.keySigs = cat.ns.keySigs ++ ms.flatMap (·.ns.keySigs) ∧
    (ms.foldl mergeFromM cat).ns.texts = cat.ns.texts ++ ms.flatMap (·.ns.texts) ∧
    (ms.foldl mergeFromM cat).ns.ccs = cat.ns.ccs ++ ms.flatMap (·.ns.ccs) ∧
    (ms.foldl mergeFromM cat).ns.bends = cat.ns.bends ++ ms.flatMap (·.ns.bends) ∧
    (ms.foldl mergeFromM cat).ns.sectionAnns = cat.ns.sectionAnns ++ ms.flatMap (·.ns.sectionAnns) ∧
    (ms.foldl mergeFromM cat).ns.sgroups = cat.ns.sgroups ++ ms.flatMap (·.ns.sgroups) ∧
    (ms.foldl mergeFromM cat).composers = cat.composers ++ ms.flatMap (·.composers) ∧
    (ms.foldl mergeFromM cat).genres = cat.genres ++ ms.flatMap (·.genres)
  | [], cat => by simp
  | m :: ms, cat => by
    have ih := foldl_merge_lists ms (mergeFromM cat m)
    simp only [foldl_cons, flatMap_cons]
    obtain ⟨h1, h2, h3, h4, h5, h6, h7, h8, h9, h10, h11⟩ := ih
    rw [h1, h2, h3, h4, h5, h6, h7, h8, h9, h10, h11]
    simp [mergeFromM, mergeFrom, append_assoc]

theorem foldl_merge_scalars : ∀ (ms : List MSeq) (cat : MSeq),
    (ms.foldl mergeFromM cat).ns.totalTime = lastNZ cat.ns.totalTime (ms.map (·.ns.totalTime)) ∧
    (ms.foldl mergeFromM cat).ns.tpq = lastNZ cat.ns.tpq (ms.map (·.ns.tpq)) ∧
    (ms.foldl mergeFromM cat).ns.totalQSteps = lastNZ cat.ns.totalQSteps (ms.map (·.ns.totalQSteps)) ∧
    (ms.foldl mergeFromM cat).ns.metaTag = cat.ns.metaTag
  | [], cat => by simp [lastNZ]
  | m :: ms, cat => by
    have ih := foldl_merge_scalars ms (mergeFromM cat m)
    simp only [foldl_cons, map_cons, lastNZ] at *
    obtain ⟨h1, h2, h3, h4⟩ := ih
    rw [h1, h2, h3, h4]
    simp [mergeFromM, mergeFrom]

/-- quantization info after merging unquantized pieces into an unquantized target stays unquantized -/
theorem foldl_merge_unquantized : ∀ (ms : List MSeq) (cat : MSeq),
    cat.ns.spq = 0 → cat.ns.sps = 0 → (∀ m ∈ ms, m.ns.spq = 0 ∧ m.ns.sps = 0) →
    (ms.foldl mergeFromM cat).ns.spq = 0 ∧ (ms.foldl mergeFromM cat).ns.sps = 0
  | [], cat, h1, h2, _ => by simp [h1, h2]
  | m :: ms, cat, h1, h2, h => by
    have hm := h m (by simp)
    refine foldl_merge_unquantized ms (mergeFromM cat m) ?_ ?_ (fun x hx => h x (by simp [hx]))
    · simp [mergeFromM, mergeFrom, hm.1, hm.2, h1]
    · simp [mergeFromM, mergeFrom, hm.1, hm.2, h2]

theorem catOffsets_durations_exact : ∀ (pairs : List (MSeq × Rat)) (cur tot : Rat),
    catOffsets id true cur tot pairs = prefixSums cur (pairs.map (·.2))
  | [], _, _ => by simp [catOffsets, prefixSums]
  | (s, d) :: rest, cur, tot => by
    simp [catOffsets, prefixSums, catOffsets_durations_exact rest]

theorem catOffsets_totals_exact : ∀ (pairs : List (MSeq × Rat)) (cur : Rat),
    0 ≤ cur → (∀ p ∈ pairs, 0 ≤ p.1.ns.totalTime) →
    catOffsets id false cur cur pairs = prefixSums cur (pairs.map (·.1.ns.totalTime))
  | [], _, _, _ => by simp [catOffsets, prefixSums]
  | (s, d) :: rest, cur, hc, h => by
    have hs : 0 ≤ s.ns.totalTime := h (s, d) (by simp)
    have key : (if (if 0 < cur then id (s.ns.totalTime + cur) else s.ns.totalTime) ≠ 0
        then (if 0 < cur then id (s.ns.totalTime + cur) else s.ns.totalTime) else cur) = cur + s.ns.totalTime := by
      simp only [id]
      by_cases h0 : 0 < cur
      · have : s.ns.totalTime + cur ≠ 0 := by grind
        simp only [h0, if_true, this, ne_eq, not_false_eq_true]; grind
      · have hc0 : cur = 0 := by grind
        by_cases ht : s.ns.totalTime = 0 <;> simp [ht, hc0] <;> grind
    simp only [catOffsets, prefixSums, map_cons, Bool.false_eq_true, if_false]
    rw [key]
    rw [catOffsets_totals_exact rest (cur + s.ns.totalTime) (by grind) (fun p hp => h p (by simp [hp]))]




/-! ### adjust_notesequence_times -/


theorem adjNotes_ok_iff (f R : Rat → Rat) (md : Rat) : ∀ (l : List Note) (tot : Rat) (sk : Nat)
    (r : List Note) (t : Rat) (k : Nat),
    adjNotes f R md l tot sk = .ok (r, t, k) ↔
      (∀ n ∈ l, ¬ adjBad f R md n) ∧ r = l.filterMap (adjNote f R md) ∧
      t = maxEnd tot (l.filterMap (adjNote f R md)) ∧
      k = sk + l.countP (fun n => (adjNote f R md n).isNone)
  | [], tot, sk, r, t, k => by simp [adjNotes, maxEnd]; grind
  | n :: ns, tot, sk, r, t, k => by
    unfold adjNotes
    by_cases hc : f n.start = f n.end_ ∧ md = 0
    · have hn : adjNote f R md n = none := by simp [adjNote, hc]
      have hb : ¬ adjBad f R md n := by simp [adjBad, hn]
      simp only []
      rw [if_pos hc, adjNotes_ok_iff f R md ns tot (sk + 1) r t k]
      simp only [mem_cons, forall_eq_or_imp, filterMap_cons, hn, countP_cons, Option.isNone_none, if_true]
      grind
    · have hn : adjNote f R md n = some (adjImage f R md n) := by simp [adjNote, hc]
      simp only []
      rw [if_neg hc]
      show (if adjEnd f R md n < f n.start then _ else if f n.start < 0 then _ else if adjEnd f R md n < 0 then _
            else match adjNotes f R md ns (if tot < adjEnd f R md n then adjEnd f R md n else tot) sk with
              | .ok (r, t, k) => Except.ok (adjImage f R md n :: r, t, k)
              | .error e => .error e) = _ ↔ _
      by_cases hbad : adjEnd f R md n < f n.start ∨ f n.start < 0 ∨ adjEnd f R md n < 0
      · have hb : adjBad f R md n := ⟨_, hn, hbad⟩
        constructor
        · intro h; exfalso
          by_cases h1 : adjEnd f R md n < f n.start
          · simp [h1] at h
          · by_cases h2 : f n.start < 0
            · simp [h1, h2] at h
            · have h3 : adjEnd f R md n < 0 := by grind
              simp [h1, h2, h3] at h
        · rintro ⟨h, _⟩; exact absurd hb (h n (by simp))
      · have hb : ¬ adjBad f R md n := by
          rintro ⟨m, hm, hm'⟩
          rw [hn] at hm; cases hm; exact hbad hm'
        have h1 : ¬ adjEnd f R md n < f n.start := fun h => hbad (Or.inl h)
        have h2 : ¬ f n.start < 0 := fun h => hbad (Or.inr (Or.inl h))
        have h3 : ¬ adjEnd f R md n < 0 := fun h => hbad (Or.inr (Or.inr h))
        simp only [h1, h2, h3, if_false]
        simp only [mem_cons, forall_eq_or_imp, filterMap_cons, hn, countP_cons, Option.isNone_some, maxEnd, foldl_cons]
        have hend : (adjImage f R md n).end_ = adjEnd f R md n := rfl
        rw [hend]
        cases hrec : adjNotes f R md ns (if tot < adjEnd f R md n then adjEnd f R md n else tot) sk with
        | error e =>
          simp only [reduceCtorEq, false_iff]
          rintro ⟨⟨_, ha⟩, hr, ht, hk⟩
          have := (adjNotes_ok_iff f R md ns (if tot < adjEnd f R md n then adjEnd f R md n else tot) sk (ns.filterMap (adjNote f R md)) _ _).mpr ⟨ha, rfl, rfl, rfl⟩
          rw [hrec] at this; cases this
        | ok v =>
          obtain ⟨r', t', k'⟩ := v
          have ih := adjNotes_ok_iff f R md ns (if tot < adjEnd f R md n then adjEnd f R md n else tot) sk r' t' k'
          rw [hrec] at ih
          have ih' := ih.mp rfl
          simp only [Except.ok.injEq, Prod.mk.injEq]
          simp only [maxEnd] at ih'
          grind

theorem adjNotes_error (f R : Rat → Rat) (md : Rat) : ∀ (l : List Note) (tot : Rat) (sk : Nat) (e : Err),
    adjNotes f R md l tot sk = .error e → e = .invalidTimeAdjustmentError
  | [], _, _, _ => by simp [adjNotes]
  | n :: ns, tot, sk, e => by
    unfold adjNotes
    simp only []
    by_cases hc : f n.start = f n.end_ ∧ md = 0
    · rw [if_pos hc]; exact adjNotes_error f R md ns _ _ e
    · rw [if_neg hc]
      show (if adjEnd f R md n < f n.start then _ else if f n.start < 0 then _ else if adjEnd f R md n < 0 then _
            else match adjNotes f R md ns (if tot < adjEnd f R md n then adjEnd f R md n else tot) sk with
              | .ok (r, t, k) => Except.ok (adjImage f R md n :: r, t, k)
              | .error e => .error e) = _ → _
      by_cases h1 : adjEnd f R md n < f n.start
      · rw [if_pos h1]; intro h; cases h; rfl
      · rw [if_neg h1]
        by_cases h2 : f n.start < 0
        · rw [if_pos h2]; intro h; cases h; rfl
        · rw [if_neg h2]
          by_cases h3 : adjEnd f R md n < 0
          · rw [if_pos h3]; intro h; cases h; rfl
          · rw [if_neg h3]
            cases hrec : adjNotes f R md ns (if tot < adjEnd f R md n then adjEnd f R md n else tot) sk with
            | error e' => intro h; cases h; exact adjNotes_error f R md ns _ _ _ hrec
            | ok v => intro h; cases h


/-- `maxEnd tot l` is the maximum of `tot` and the ends in `l` -/
theorem maxEnd_is_max : ∀ (l : List Note) (tot : Rat),
    tot ≤ maxEnd tot l ∧ (∀ n ∈ l, n.end_ ≤ maxEnd tot l) ∧ (maxEnd tot l = tot ∨ ∃ n ∈ l, maxEnd tot l = n.end_)
  | [], tot => by simp [maxEnd]
  | a :: l, tot => by
    obtain ⟨h1, h2, h3⟩ := maxEnd_is_max l (if tot < a.end_ then a.end_ else tot)
    have hm : maxEnd tot (a :: l) = maxEnd (if tot < a.end_ then a.end_ else tot) l := rfl
    rw [hm]
    refine ⟨?_, ?_, ?_⟩
    · by_cases h : tot < a.end_ <;> simp only [h, if_true, if_false] at h1 <;> grind
    · intro n hn
      rcases mem_cons.mp hn with rfl | hn
      · by_cases h : tot < n.end_ <;> simp only [h, if_true, if_false] at h1 <;> grind
      · exact h2 n hn
    · rcases h3 with h3 | ⟨n, hn, h3⟩
      · by_cases h : tot < a.end_
        · rw [if_pos h] at h3 ⊢; exact Or.inr ⟨a, by simp, h3⟩
        · rw [if_neg h] at h3 ⊢; exact Or.inl h3
      · exact Or.inr ⟨n, by simp [hn], h3⟩

theorem ratMax_is_max : ∀ (l : List Rat) (a : Rat),
    a ≤ ratMax a l ∧ (∀ x ∈ l, x ≤ ratMax a l) ∧ (ratMax a l = a ∨ ratMax a l ∈ l)
  | [], a => by simp [ratMax]
  | b :: l, a => by
    obtain ⟨h1, h2, h3⟩ := ratMax_is_max l (if a < b then b else a)
    have hm : ratMax a (b :: l) = ratMax (if a < b then b else a) l := rfl
    rw [hm]
    refine ⟨?_, ?_, ?_⟩
    · by_cases h : a < b <;> simp only [h, if_true, if_false] at h1 <;> grind
    · intro x hx
      rcases mem_cons.mp hx with rfl | hx
      · by_cases h : a < x <;> simp only [h, if_true, if_false] at h1 <;> grind
      · exact h2 x hx
    · rcases h3 with h3 | h3
      · by_cases h : a < b
        · rw [if_pos h] at h3 ⊢; exact Or.inr (by rw [h3]; simp)
        · rw [if_neg h] at h3 ⊢; exact Or.inl h3
      · exact Or.inr (by simp [h3])

/-! ### interpolation -/


theorem knots_ge : ∀ (p : Rat × Rat) (rest : List (Rat × Rat)), KnotsOK p rest → ∀ k ∈ rest, p.1 < k.1 ∧ p.2 ≤ k.2
  | _, [], _, k, hk => by simp at hk
  | p, q :: rest, h, k, hk => by
    obtain ⟨h1, h2, h3⟩ := h
    rcases mem_cons.mp hk with rfl | hk'
    · exact ⟨h1, h2⟩
    · have := knots_ge q rest h3 k hk'
      exact ⟨by grind, Rat.le_trans h2 this.2⟩

theorem knots_le_last : ∀ (p : Rat × Rat) (rest : List (Rat × Rat)), KnotsOK p rest →
    ∀ k ∈ p :: rest, k.1 ≤ lastX p rest ∧ k.2 ≤ lastY p rest
  | p, [], _, k, hk => by simp at hk; subst hk; simp [lastX, lastY]
  | p, q :: rest, h, k, hk => by
    obtain ⟨h1, h2, h3⟩ := h
    simp only [lastX, lastY]
    rcases mem_cons.mp hk with rfl | hk'
    · have := knots_le_last q rest h3 q (by simp)
      exact ⟨Rat.le_trans (Rat.le_of_lt h1) this.1, Rat.le_trans h2 this.2⟩
    · exact knots_le_last q rest h3 k hk'

theorem KnotsOK.xinc : ∀ (p : Rat × Rat) (rest : List (Rat × Rat)), KnotsOK p rest → XInc p rest
  | _, [], _ => trivial
  | _, q :: rest, h => ⟨h.1, KnotsOK.xinc q rest h.2.2⟩

theorem xinc_gt : ∀ (p : Rat × Rat) (rest : List (Rat × Rat)), XInc p rest → ∀ k ∈ rest, p.1 < k.1
  | _, [], _, k, hk => by simp at hk
  | p, q :: rest, h, k, hk => by
    obtain ⟨h1, h3⟩ := h
    rcases mem_cons.mp hk with rfl | hk'
    · exact h1
    · have := xinc_gt q rest h3 k hk'; grind

theorem xinc_le_last : ∀ (p : Rat × Rat) (rest : List (Rat × Rat)), XInc p rest → ∀ k ∈ p :: rest, k.1 ≤ lastX p rest
  | p, [], _, k, hk => by simp at hk; subst hk; simp [lastX]
  | p, q :: rest, h, k, hk => by
    obtain ⟨h1, h3⟩ := h
    simp only [lastX]
    rcases mem_cons.mp hk with rfl | hk'
    · have := xinc_le_last q rest h3 q (by simp); grind
    · exact xinc_le_last q rest h3 k hk'

/-- at a knot the interpolation returns the knot's ordinate, with no arithmetic (any `R`) -/
theorem interpGo_knot (R : Rat → Rat) : ∀ (p : Rat × Rat) (rest : List (Rat × Rat)), XInc p rest →
    ∀ k ∈ p :: rest, interpGo R p rest k.1 = k.2
  | p, [], _, k, hk => by simp at hk; subst hk; simp [interpGo]
  | p, q :: rest, h, k, hk => by
    obtain ⟨h1, h3⟩ := h
    unfold interpGo
    rcases mem_cons.mp hk with rfl | hk'
    · have : ¬ q.1 ≤ k.1 := by grind
      simp [this]
    · have hq : q.1 ≤ k.1 := by
        rcases mem_cons.mp hk' with rfl | hk''
        · exact Rat.le_refl
        · exact Rat.le_of_lt (xinc_gt q rest h3 k hk'')
      simp only [hq, if_true]
      exact interpGo_knot R q rest h3 k hk'

theorem interpR_knot (R : Rat → Rat) (p : Rat × Rat) (rest : List (Rat × Rat)) (left right : Rat)
    (h : XInc p rest) (k : Rat × Rat) (hk : k ∈ p :: rest) : interpR R p rest left right k.1 = k.2 := by
  unfold interpR
  have h1 : ¬ lastX p rest < k.1 := by have := xinc_le_last p rest h k hk; grind
  have h2 : ¬ k.1 < p.1 := by
    rcases mem_cons.mp hk with rfl | hk'
    · grind
    · have := xinc_gt p rest h k hk'; grind
  simp only [h1, h2, if_false]
  exact interpGo_knot R p rest h k hk

/-- one segment in exact arithmetic -/
theorem seg_facts (p q : Rat × Rat) (h1 : p.1 < q.1) (h2 : p.2 ≤ q.2) (x y : Rat) (hx : p.1 ≤ x) (hxy : x ≤ y) (hy : y ≤ q.1) :
    p.2 ≤ (q.2 - p.2) / (q.1 - p.1) * (x - p.1) + p.2 ∧
    (q.2 - p.2) / (q.1 - p.1) * (x - p.1) + p.2 ≤ (q.2 - p.2) / (q.1 - p.1) * (y - p.1) + p.2 ∧
    (q.2 - p.2) / (q.1 - p.1) * (y - p.1) + p.2 ≤ q.2 := by
  have hd : 0 < q.1 - p.1 := by grind
  have hs : 0 ≤ (q.2 - p.2) / (q.1 - p.1) := by
    rw [Rat.div_def]; exact Rat.mul_nonneg (by grind) (Rat.le_of_lt (Rat.inv_pos.mpr hd))
  have hm : (q.2 - p.2) / (q.1 - p.1) * (q.1 - p.1) = q.2 - p.2 := by
    have : q.1 - p.1 ≠ 0 := by grind
    grind
  generalize (q.2 - p.2) / (q.1 - p.1) = s at *
  have a := Rat.mul_le_mul_of_nonneg_left (a := 0) (b := x - p.1) (c := s) (by grind) hs
  have b := Rat.mul_le_mul_of_nonneg_left (a := x - p.1) (b := y - p.1) (c := s) (by grind) hs
  have c := Rat.mul_le_mul_of_nonneg_left (a := y - p.1) (b := q.1 - p.1) (c := s) (by grind) hs
  grind

theorem interpGo_id_seg (p q : Rat × Rat) (rest : List (Rat × Rat)) (x : Rat) (hx : ¬ q.1 ≤ x) :
    interpGo id p (q :: rest) x = (q.2 - p.2) / (q.1 - p.1) * (x - p.1) + p.2 := by
  unfold interpGo
  simp only [hx, if_false, id]
  by_cases h : p.1 = x
  · subst h; simp [Rat.sub_self, Rat.mul_zero, Rat.zero_add]
  · simp [h]

theorem interpGo_bounds : ∀ (rest : List (Rat × Rat)) (p : Rat × Rat) (x : Rat), KnotsOK p rest → p.1 ≤ x →
    p.2 ≤ interpGo id p rest x ∧ interpGo id p rest x ≤ lastY p rest
  | [], p, x, _, _ => by simp [interpGo, lastY]
  | q :: rest, p, x, h, hx => by
    obtain ⟨h1, h2, h3⟩ := h
    by_cases hq : q.1 ≤ x
    · have ih := interpGo_bounds rest q x h3 hq
      have : interpGo id p (q :: rest) x = interpGo id q rest x := by
        rw [interpGo]; simp [hq]
      rw [this]; simp only [lastY]
      exact ⟨Rat.le_trans h2 ih.1, ih.2⟩
    · rw [interpGo_id_seg p q rest x hq]
      have s := seg_facts p q h1 h2 x x hx Rat.le_refl (by grind)
      have l := (knots_le_last q rest h3 q (by simp)).2
      simp only [lastY]
      exact ⟨s.1, Rat.le_trans s.2.2 l⟩

theorem interpGo_mono : ∀ (rest : List (Rat × Rat)) (p : Rat × Rat) (x y : Rat), KnotsOK p rest → p.1 ≤ x → x ≤ y →
    interpGo id p rest x ≤ interpGo id p rest y
  | [], p, x, y, _, _, _ => by simp [interpGo]
  | q :: rest, p, x, y, h, hx, hxy => by
    obtain ⟨h1, h2, h3⟩ := h
    have step : ∀ z, q.1 ≤ z → interpGo id p (q :: rest) z = interpGo id q rest z := by
      intro z hz; rw [interpGo]; simp [hz]
    by_cases hqx : q.1 ≤ x
    · have hqy : q.1 ≤ y := Rat.le_trans hqx hxy
      rw [step x hqx, step y hqy]
      exact interpGo_mono rest q x y h3 hqx hxy
    · rw [interpGo_id_seg p q rest x hqx]
      by_cases hqy : q.1 ≤ y
      · rw [step y hqy]
        have s := seg_facts p q h1 h2 x x hx Rat.le_refl (by grind)
        exact Rat.le_trans s.2.2 (interpGo_bounds rest q y h3 hqy).1
      · rw [interpGo_id_seg p q rest y hqy]
        exact (seg_facts p q h1 h2 x y hx hxy (by grind)).2.1

/-- exact piecewise-linear interpolation through increasing knots is monotone on the whole line,
provided the clamps continue it monotonically -/
theorem interpR_mono (p : Rat × Rat) (rest : List (Rat × Rat)) (left right x y : Rat) (h : KnotsOK p rest)
    (hl : left ≤ p.2) (hr : lastY p rest ≤ right) (hxy : x ≤ y) :
    interpR id p rest left right x ≤ interpR id p rest left right y := by
  have hpl : p.1 ≤ lastX p rest := (knots_le_last p rest h p (by simp)).1
  unfold interpR
  by_cases h1 : lastX p rest < x
  · have h2 : lastX p rest < y := by grind
    simp [h1, h2]
  · simp only [h1, if_false]
    by_cases h3 : x < p.1
    · simp only [h3, if_true]
      by_cases h2 : lastX p rest < y
      · simp only [h2, if_true]; exact Rat.le_trans hl (Rat.le_trans (knots_le_last p rest h p (by simp)).2 hr)
      · simp only [h2, if_false]
        by_cases h4 : y < p.1
        · simp [h4]
        · simp only [h4, if_false]
          exact Rat.le_trans hl (interpGo_bounds rest p y h (by grind)).1
    · simp only [h3, if_false]
      have hx : p.1 ≤ x := by grind
      by_cases h2 : lastX p rest < y
      · simp only [h2, if_true]
        exact Rat.le_trans (interpGo_bounds rest p x h hx).2 hr
      · have h4 : ¬ y < p.1 := by grind
        simp only [h2, h4, if_false]
        exact interpGo_mono rest p x y h hx hxy


/-! ### rectify_beats: de-duplicated beat list -/

theorem uniqGo_facts : ∀ (l : List Rat) (prev : Rat), (prev :: l).Pairwise (· ≤ ·) →
    (∀ x, x ∈ uniqGo prev l ↔ x ∈ l ∧ prev < x) ∧ (uniqGo prev l).Pairwise (· < ·)
  | [], _, _ => by simp [uniqGo]
  | b :: l, prev, hs => by
    have hs' : (b :: l).Pairwise (· ≤ ·) := (pairwise_cons.mp hs).2
    have hpb : prev ≤ b := (pairwise_cons.mp hs).1 b (by simp)
    have hbl : ∀ x ∈ l, b ≤ x := (pairwise_cons.mp hs').1
    obtain ⟨ih1, ih2⟩ := uniqGo_facts l b hs'
    unfold uniqGo
    by_cases h : prev < b
    · simp only [h, if_true, mem_cons, pairwise_cons]
      refine ⟨fun x => ?_, fun x hx => ((ih1 x).mp hx).2, ih2⟩
      rw [ih1 x]
      constructor
      · rintro (rfl | ⟨hx, hbx⟩)
        · exact ⟨Or.inl rfl, h⟩
        · exact ⟨Or.inr hx, by grind⟩
      · rintro ⟨rfl | hx, hpx⟩
        · exact Or.inl rfl
        · by_cases hxb : x = b
          · exact Or.inl hxb
          · exact Or.inr ⟨hx, by have := hbl x hx; grind⟩
    · have hb : b = prev := by grind
      simp only [h, if_false, mem_cons]
      refine ⟨fun x => ?_, ih2⟩
      rw [ih1 x, hb]
      constructor
      · rintro ⟨hx, hpx⟩; exact ⟨Or.inr hx, hpx⟩
      · rintro ⟨rfl | hx, hpx⟩
        · grind
        · exact ⟨hx, hpx⟩

/-- on a sorted list `uniqBeats` keeps exactly the distinct values, strictly increasing -/
theorem uniqBeats_facts (l : List Rat) (hs : l.Pairwise (· ≤ ·)) :
    (∀ x, x ∈ uniqBeats l ↔ x ∈ l) ∧ (uniqBeats l).Pairwise (· < ·) := by
  cases l with
  | nil => simp [uniqBeats]
  | cons a l =>
    obtain ⟨h1, h2⟩ := uniqGo_facts l a hs
    have hal : ∀ x ∈ l, a ≤ x := (pairwise_cons.mp hs).1
    simp only [uniqBeats, mem_cons, pairwise_cons]
    refine ⟨fun x => ?_, fun x hx => ((h1 x).mp hx).2, h2⟩
    rw [h1 x]
    constructor
    · rintro (rfl | ⟨hx, _⟩)
      · exact Or.inl rfl
      · exact Or.inr hx
    · rintro (rfl | hx)
      · exact Or.inl rfl
      · by_cases hxa : x = a
        · exact Or.inl hxa
        · exact Or.inr ⟨hx, by have := hal x hx; grind⟩

theorem xinc_of_pairwise : ∀ (p : Rat × Rat) (rest : List (Rat × Rat)),
    ((p :: rest).map (·.1)).Pairwise (· < ·) → XInc p rest
  | _, [], _ => trivial
  | p, q :: rest, h => by
    simp only [map_cons, pairwise_cons] at h
    exact ⟨h.1 q.1 (by simp), xinc_of_pairwise q rest (by simp only [map_cons, pairwise_cons]; exact h.2)⟩

end NSV.C13
