import NoteSeqVerif.Props.C07
import NoteSeqVerif.Proofs.C06Quant
/-! C06 — DrumTrack, discrete half: extraction (C07 model, through its specification `drums_steps`) of a
sequence whose drum notes are exactly the rendered ones returns the canonical track; and every track the extractor
returns is canonical.  (core Lean only) -/
namespace NSV.C06
open NSV.C07

theorem evAt_zero (e : List Int) (es : List (List Int)) : evAt (e :: es) 0 = e := by simp [evAt]
theorem evAt_succ (e : List Int) (es : List (List Int)) (i : Nat) : evAt (e :: es) (i + 1) = evAt es i := by
  simp [evAt]
theorem evAt_lt {ev : List (List Int)} {i : Nat} (h : i < ev.length) : ev[i]? = some (evAt ev i) := by
  simp [evAt, List.getElem?_eq_getElem h]
theorem evAt_ge {ev : List (List Int)} {i : Nat} (h : ev.length ≤ i) : evAt ev i = [] := by
  simp [evAt, List.getElem?_eq_none h]
theorem evAt_mem {ev : List (List Int)} {i : Nat} (h : i < ev.length) : evAt ev i ∈ ev := by
  simp only [evAt, List.getElem?_eq_getElem h, Option.getD_some]; exact List.getElem_mem h

/-- strictly increasing lists with the same members are equal -/
theorem sorted_ext : ∀ (l1 l2 : List Int), l1.Pairwise (· < ·) → l2.Pairwise (· < ·) →
    (∀ x, x ∈ l1 ↔ x ∈ l2) → l1 = l2 := by
  intro l1
  induction l1 with
  | nil =>
    intro l2 _ _ h
    cases l2 with
    | nil => rfl
    | cons b l2 => exact absurd ((h b).mpr (List.mem_cons_self ..)) (List.not_mem_nil)
  | cons a l1 ih =>
    intro l2 h1 h2 h
    cases l2 with
    | nil => exact absurd ((h a).mp (List.mem_cons_self ..)) (List.not_mem_nil)
    | cons b l2 =>
      obtain ⟨ha, h1'⟩ := List.pairwise_cons.mp h1
      obtain ⟨hb, h2'⟩ := List.pairwise_cons.mp h2
      have hab : a = b := by
        rcases List.mem_cons.mp ((h a).mp (List.mem_cons_self ..)) with e | e
        · exact e
        · rcases List.mem_cons.mp ((h b).mpr (List.mem_cons_self ..)) with e' | e'
          · exact e'.symm
          · have := ha b e'; have := hb a e; omega
      subst hab
      congr 1
      apply ih l2 h1' h2'
      intro x
      constructor
      · intro hx
        rcases List.mem_cons.mp ((h x).mp (List.mem_cons_of_mem _ hx)) with e | e
        · have := ha x hx; omega
        · exact e
      · intro hx
        rcases List.mem_cons.mp ((h x).mpr (List.mem_cons_of_mem _ hx)) with e | e
        · have := hb x hx; omega
        · exact e

/-- the rendered drum notes: one single-step note per pitch of every event -/
theorem mem_drumNotesFrom (d : SNote) : ∀ (ev : List (List Int)) (k : Int),
    d ∈ drumNotesFrom k ev ↔
      ∃ i : Nat, i < ev.length ∧ d.a = k + i ∧ d.b = k + i + 1 ∧ d.pitch ∈ evAt ev i := by
  intro ev
  induction ev with
  | nil => intro k; simp [drumNotesFrom]
  | cons e es ih =>
    intro k
    simp only [drumNotesFrom, List.mem_append, List.mem_map, ih (k + 1)]
    constructor
    · rintro (⟨p, hp, rfl⟩ | ⟨i, hi, ha, hb, hp⟩)
      · exact ⟨0, by simp, by simp, by simp, by simpa [evAt_zero] using hp⟩
      · exact ⟨i + 1, by simpa using hi, by push_cast; omega, by push_cast; omega, by rw [evAt_succ]; exact hp⟩
    · rintro ⟨i, hi, ha, hb, hp⟩
      cases i with
      | zero =>
        left
        rw [evAt_zero] at hp
        refine ⟨d.pitch, hp, ?_⟩
        cases d; simp only [SNote.mk.injEq, true_and] at *; omega
      | succ j =>
        right
        rw [evAt_succ] at hp
        exact ⟨j, by simpa using hi, by push_cast at ha; omega, by push_cast at hb; omega, hp⟩

theorem mem_drumNotes (d : SNote) (ev : List (List Int)) :
    d ∈ drumNotes ev ↔ ∃ i : Nat, i < ev.length ∧ d.a = i ∧ d.b = i + 1 ∧ d.pitch ∈ evAt ev i := by
  simp [drumNotes, mem_drumNotesFrom]

/-- bar arithmetic: a step `i0` into a bar that starts a whole number of bars after `ss` -/
theorem bar_offset (S ss spb : Int) (i0 : Int) (hpos : 0 < spb) (hmod : (S - ss) % spb = 0) (h0 : 0 ≤ i0)
    (h1 : i0 < spb) : Int.fmod (S + i0 - ss) spb = i0 := by
  rw [Int.fmod_eq_emod_of_nonneg _ (by omega)]
  obtain ⟨c, hc⟩ := Int.dvd_of_emod_eq_zero hmod
  have : S + i0 - ss = i0 + spb * c := by omega
  rw [this, Int.add_mul_emod_self_left, Int.emod_eq_of_lt h0 h1]

/-- **discrete half for DrumTrack**: `s` is any quantized sequence whose notes are drum notes of non-zero velocity
sitting exactly where the canonical track `ev` (start step `S`) has its pitches — in any storage order.  Then
extraction returns `ev`, `S`, `S + len`, the bar length and the resolution. -/
theorem drums_discrete (s : NoteSeq) (ev : List (List Int)) (S ss gapBars : Int) (pad ign : Bool) (spb : Int)
    (hspb : stepsPerBar s = .ok spb) (hpos : 0 < spb)
    (h1 : ∀ n ∈ s.notes, n.isDrum = true ∧ n.velocity ≠ 0)
    (h2 : ∀ t p, (∃ n ∈ s.notes, n.qs = t ∧ n.pitch = p) ↔
        ∃ i : Nat, i < ev.length ∧ t = S + i ∧ p ∈ evAt ev i)
    (hc : CanonicalDrums spb (gapBars * spb) pad ss S ev) :
    drumsFromQuantized s ss gapBars pad ign = .ok ⟨ev, S, S + ev.length, spb, s.spq⟩ := by
  rcases hc with ⟨rfl, rfl⟩ | ⟨hsorted, hss0, hssS, hmod, ⟨i0, hi0len, hi0spb, hi0ne, hi0before⟩, hhops,
    ⟨l, hllen, hlne, hlafter, hlen⟩⟩
  · have hsel : s.notes.filter (drumSel ss ign) = [] := by
      rw [List.filter_eq_nil_iff]; intro n hn
      exfalso
      obtain ⟨i, hi, _⟩ := (h2 n.qs n.pitch).mp ⟨n, hn, rfl, rfl⟩
      simp at hi
    rw [drums_empty s ss gapBars pad ign spb hspb hsel]; simp
  · have hqs : ∀ n ∈ s.notes, ∃ i : Nat, i < ev.length ∧ n.qs = S + i ∧ n.pitch ∈ evAt ev i :=
      fun n hn => (h2 _ _).mp ⟨n, hn, rfl, rfl⟩
    have hselall : s.notes.filter (drumSel ss ign) = s.notes := by
      rw [List.filter_eq_self]; intro n hn
      obtain ⟨i, _, hq, _⟩ := hqs n hn
      obtain ⟨hd, hv⟩ := h1 n hn
      simp only [drumSel, hd, Bool.true_or, Bool.true_and, Bool.and_eq_true, bne_iff_ne, ne_eq,
        decide_eq_true_eq]
      exact ⟨hv, by omega⟩
    -- the steps that carry a selected note
    have hstep : ∀ t, (∃ n ∈ s.notes, n.qs = t) ↔ ∃ i : Nat, i < ev.length ∧ t = S + i ∧ evAt ev i ≠ [] := by
      intro t
      constructor
      · rintro ⟨n, hn, rfl⟩
        obtain ⟨i, hi, hq, hp⟩ := hqs n hn
        exact ⟨i, hi, hq, List.ne_nil_of_mem hp⟩
      · rintro ⟨i, hi, rfl, hne⟩
        obtain ⟨p, hp⟩ := List.exists_mem_of_ne_nil _ hne
        obtain ⟨n, hn, hq, _⟩ := (h2 (S + i) p).mpr ⟨i, hi, rfl, hp⟩
        exact ⟨n, hn, hq⟩
    have hne : s.notes.filter (drumSel ss ign) ≠ [] := by
      rw [hselall]
      obtain ⟨n, hn, _⟩ := (hstep (S + i0)).mpr ⟨i0, hi0len, rfl, hi0ne⟩
      exact List.ne_nil_of_mem hn
    obtain ⟨r, first, last, hr, hfirst, hfirstle, hstart, hrspb, hrspq, hlast, _, hstop, hend, hlenr, hev⟩ :=
      drums_steps s ss gapBars pad ign spb hspb hpos hne
    rw [hselall] at hfirst hfirstle hlast hstop hev
    -- first = S + i0
    have hfirst_eq : first = S + i0 := by
      obtain ⟨i, hi, hq, hne'⟩ := (hstep first).mp hfirst
      obtain ⟨n0, hn0, hq0⟩ := (hstep (S + i0)).mpr ⟨i0, hi0len, rfl, hi0ne⟩
      have := hfirstle n0 hn0
      have hge : ¬ i < i0 := fun hlt => hne' (hi0before i hlt)
      omega
    have hstartS : r.startStep = S := by
      rw [hstart, hfirst_eq, bar_offset S ss spb i0 hpos hmod (by omega) hi0spb]; omega
    -- last = S + l
    have hlast_eq : last = S + l := by
      obtain ⟨l', hl', hq, hne'⟩ := (hstep last).mp hlast
      have hle : ¬ l < l' := fun hlt => hne' (hlafter l' hl' hlt)
      have key : ∀ n : Nat, ∀ j : Nat, j < n → l' < j → j < ev.length → evAt ev j ≠ [] → False := by
        intro n
        induction n with
        | zero => intro j hj; omega
        | succ n ih =>
          intro j hj hlj hjlen hjne
          rcases hhops j hjlen hjne with hall | ⟨i, hij, hine, hgap⟩
          · exact hne' (hall l' hlj)
          · by_cases hil : l' < i
            · exact ih i (by omega) hil (by omega) hine
            · obtain ⟨n1, hn1, hq1⟩ := (hstep (S + j)).mpr ⟨j, hjlen, rfl, hjne⟩
              have := hstop n1 hn1 (by omega)
              omega
      by_cases hlt : l' < l
      · exact absurd hlne (fun h => key (l + 1) l (by omega) hlt hllen h)
      · omega
    have hlen_eq : r.events.length = ev.length := by
      have : ((r.events.length : Nat) : Int) = (ev.length : Int) := by
        rw [hlenr, hlen, hlast_eq, hstartS]
        have e : S + (l : Int) - S + 1 = (l : Int) + 1 := by omega
        rw [e]
      exact_mod_cast this
    have hevents : r.events = ev := by
      apply List.ext_getElem?
      intro i
      by_cases hi : i < ev.length
      · rw [hev i (by omega), evAt_lt hi, hstartS, hlast_eq]
        congr 1
        by_cases hil : i ≤ l
        · rw [if_pos (by omega)]
          apply sorted_ext _ _ (pitchesAt_sorted _ _) (hsorted _ (evAt_mem hi))
          intro p
          rw [mem_pitchesAt, h2]
          constructor
          · rintro ⟨i', _, hq, hp⟩
            have : i' = i := by omega
            subst this; exact hp
          · intro hp; exact ⟨i, hi, rfl, hp⟩
        · rw [if_neg (by omega), hlafter i hi (by omega)]
      · rw [List.getElem?_eq_none (by omega), List.getElem?_eq_none (by omega)]
    have : r = ⟨ev, S, S + ev.length, spb, s.spq⟩ := by
      cases r
      simp only [SimpleResult.mk.injEq]
      simp only at hevents hstartS hend hrspb hrspq
      refine ⟨hevents, hstartS, ?_, hrspb, hrspq⟩
      rw [hend, hstartS, hevents]
    rw [hr, this]

/-- **what extraction produces is canonical** (DrumTrack): for every quantized sequence, every
`search_start_step ≥ 0`, `gap_bars`, `pad_end` -/
theorem drums_extract_canonical (s : NoteSeq) (ss gapBars : Int) (pad ign : Bool) (spb : Int)
    (hspb : stepsPerBar s = .ok spb) (hpos : 0 < spb) (hss : 0 ≤ ss)
    (r : SimpleResult (List Int)) (hr : drumsFromQuantized s ss gapBars pad ign = .ok r) :
    CanonicalDrums spb (gapBars * spb) pad ss r.startStep r.events ∧
      r.endStep = r.startStep + r.events.length ∧ r.stepsPerBar = spb ∧ r.stepsPerQuarter = s.spq := by
  by_cases hsel : s.notes.filter (drumSel ss ign) = []
  · rw [drums_empty s ss gapBars pad ign spb hspb hsel] at hr
    cases hr
    exact ⟨Or.inl ⟨rfl, rfl⟩, by simp, rfl, rfl⟩
  · obtain ⟨r', first, last, hr', hfirst, hfirstle, hstart, hrspb, hrspq, hlast, hreach, hstop, hend, hlenr, hev⟩ :=
      drums_steps s ss gapBars pad ign spb hspb hpos hsel
    rw [hr] at hr'
    cases hr'
    generalize hseldef : s.notes.filter (drumSel ss ign) = sel at *
    have hselge : ∀ n ∈ sel, ss ≤ n.qs := by
      intro n hn
      rw [← hseldef, List.mem_filter] at hn
      have := hn.2
      simp only [drumSel, Bool.and_eq_true, decide_eq_true_eq] at this
      exact this.2
    obtain ⟨nf, hnf, hnfq⟩ := hfirst
    obtain ⟨nl, hnl, hnlq⟩ := hlast
    have hfss : ss ≤ first := by rw [← hnfq]; exact hselge nf hnf
    have hfl : first ≤ last := by rw [← hnlq]; exact hfirstle nl hnl
    have hfm : Int.fmod (first - ss) spb = (first - ss) % spb := Int.fmod_eq_emod_of_nonneg _ (by omega)
    have hm0 : 0 ≤ (first - ss) % spb := Int.emod_nonneg _ (by omega)
    have hm1 : (first - ss) % spb < spb := Int.emod_lt_of_pos _ hpos
    have hm2 : (first - ss) % spb ≤ first - ss := by
      have := Int.emod_add_mul_ediv (first - ss) spb
      have hd : 0 ≤ (first - ss) / spb := Int.ediv_nonneg (by omega) (by omega)
      have : 0 ≤ spb * ((first - ss) / spb) := Int.mul_nonneg (by omega) hd
      omega
    -- event `i` in terms of the selected notes
    have hevi : ∀ i : Nat, i < r.events.length → evAt r.events i =
        (if r.startStep + i ≤ last then pitchesAt sel (r.startStep + i) else []) := by
      intro i hi
      have := hev i hi
      rw [evAt_lt hi] at this
      exact Option.some.inj this
    have hnonempty : ∀ n ∈ sel, pitchesAt sel n.qs ≠ [] := by
      intro n hn
      exact List.ne_nil_of_mem (mem_pitchesAt.mpr ⟨n, hn, rfl, rfl⟩)
    have hlenpos : ((r.events.length : Nat) : Int) = (last - r.startStep + 1) +
        (if pad then Int.fmod (-(last - r.startStep + 1)) spb else 0) := hlenr
    have hpadnn : 0 ≤ (if pad then Int.fmod (-(last - r.startStep + 1)) spb else 0) := by
      split
      · exact Int.fmod_nonneg_of_pos _ hpos
      · omega
    have hst : r.startStep = first - (first - ss) % spb := by rw [hstart, hfm]
    refine ⟨Or.inr ⟨?_, hss, by omega, ?_, ?_, ?_, ?_⟩, hend, hrspb, hrspq⟩
    · intro e he
      obtain ⟨i, hi, rfl⟩ := List.mem_iff_getElem.mp he
      have := hevi i hi
      simp only [evAt, List.getElem?_eq_getElem hi, Option.getD_some] at this
      rw [this]
      split
      · exact pitchesAt_sorted _ _
      · exact List.Pairwise.nil
    · -- the start is a whole number of bars after `ss`
      have : r.startStep - ss = spb * ((first - ss) / spb) := by
        have := Int.emod_add_mul_ediv (first - ss) spb
        omega
      rw [this, Int.mul_emod_right]
    · -- the first non-empty event
      refine ⟨((first - ss) % spb).toNat, ?_, by omega, ?_, ?_⟩
      · have : (((first - ss) % spb).toNat : Int) < r.events.length := by rw [hlenpos]; omega
        exact_mod_cast this
      · have hi : ((first - ss) % spb).toNat < r.events.length := by
          have : (((first - ss) % spb).toNat : Int) < r.events.length := by rw [hlenpos]; omega
          exact_mod_cast this
        rw [hevi _ hi]
        have e : r.startStep + (((first - ss) % spb).toNat : Int) = first := by omega
        rw [e, if_pos hfl, ← hnfq]
        exact hnonempty nf hnf
      · intro j hj
        have hjlen : j < r.events.length := by
          have : (j : Int) < r.events.length := by rw [hlenpos]; omega
          exact_mod_cast this
        rw [hevi j hjlen]
        split
        · apply pitchesAt_nil
          intro n hn
          have := hfirstle n hn
          omega
        · rfl
    · -- hops
      intro j hjlen hjne
      rw [hevi j hjlen] at hjne
      split at hjne
      · rename_i hjl
        have : ∃ n ∈ sel, n.qs = r.startStep + j := by
          by_cases hcon : ∃ n ∈ sel, n.qs = r.startStep + j
          · exact hcon
          · exact absurd (pitchesAt_nil (fun n hn hq => hcon ⟨n, hn, hq⟩)) hjne
        obtain ⟨n, hn, hnq⟩ := this
        rcases hreach n hn (by omega) with hnf' | ⟨m, hm, hmlt, hmgap⟩
        · left
          intro i hi
          have hilen : i < r.events.length := by omega
          rw [hevi i hilen]
          split
          · apply pitchesAt_nil
            intro n' hn'
            have := hfirstle n' hn'
            omega
          · rfl
        · right
          have hmge := hfirstle m hm
          refine ⟨(m.qs - r.startStep).toNat, by omega, ?_, by omega⟩
          have hilen : (m.qs - r.startStep).toNat < r.events.length := by omega
          rw [hevi _ hilen]
          have e : r.startStep + ((m.qs - r.startStep).toNat : Int) = m.qs := by omega
          rw [e, if_pos (by omega)]
          exact hnonempty m hm
      · exact absurd rfl hjne
    · -- the end
      refine ⟨(last - r.startStep).toNat, ?_, ?_, ?_, ?_⟩
      · have : (((last - r.startStep).toNat : Nat) : Int) < r.events.length := by rw [hlenpos]; omega
        exact_mod_cast this
      · have hi : (last - r.startStep).toNat < r.events.length := by
          have : (((last - r.startStep).toNat : Nat) : Int) < r.events.length := by rw [hlenpos]; omega
          exact_mod_cast this
        rw [hevi _ hi]
        have e : r.startStep + ((last - r.startStep).toNat : Int) = last := by omega
        rw [e, if_pos (by omega), ← hnlq]
        exact hnonempty nl hnl
      · intro j hjlen hlj
        rw [hevi j hjlen, if_neg (by omega)]
      · rw [hlenpos]
        have e : (((last - r.startStep).toNat : Nat) : Int) + 1 = last - r.startStep + 1 := by omega
        rw [e]

end NSV.C06
