import NoteSeqVerif.Proofs.RoundingApps
import NoteSeqVerif.Model.C20
/-! C20 — the side condition `repeatEnough` of `repeat_samples_to_duration` for the floating-point
computation, for every rounding operator `R` with the `Rounding` facts (monotone, exact on
dyadics, relative error ≤ 2^-53; `rounding_rne53 : Rounding rne53`).

Error analysis.  `P = D·rate` (exact), `n = int(R P) ≤ R P ≤ P·(1 + u)` with `u = 2^-53`.
`q' = R (D / R (len / rate))` is two roundings away from `q = P / len`, so `q·(1-u)² ≤ q'`, and
`k = ⌈q'⌉ ≥ q'`, hence `k·len ≥ P·(1-u)²`.  If `k·len < n` then, both being integers,
`k·len + 1 ≤ n`, so `P·(1-u)² + 1 ≤ P·(1+u)`, i.e. `1 ≤ P·(3u - u²) < 3·P/2^53`:
impossible for `P ≤ 2^51`. -/
namespace NSV.C20

/-- `q·(1-u)² ≤ R (D / R (len / rate))` with `q = D / (len / rate)`: two roundings -/
theorem numRepeats_arg_ge {R : ℚ → ℚ} (hR : Rounding R) (L r D : ℚ) (hL : 0 < L) (hr : 0 < r)
    (hD : 0 < D) :
    D / (L / r) * (1 - 1 / 2 ^ 53) ^ 2 ≤ R (D / R (L / r)) := by
  have h := FExpr.near hR (by norm_num : 1 ≤ 53) (.div (.lit D) (.div (.lit L) (.lit r)))
    ⟨hD, hL, hr⟩
  exact h.1

/-- the float ceiling yields enough copies whenever `D·rate ≤ 2^51` (no bound on `len`) -/
theorem repeatEnough_of_rounding {R : ℚ → ℚ} (hR : Rounding R) (len : ℕ) (rate : ℤ) (D : ℚ)
    (hl : 0 < len) (hr : 0 < rate) (hD : 0 < D) (hb : D * (rate : ℚ) ≤ 2 ^ 51) :
    repeatEnough R len rate D := by
  have hL : (0 : ℚ) < (len : ℚ) := by exact_mod_cast hl
  have hr' : (0 : ℚ) < (rate : ℚ) := by exact_mod_cast hr
  have hP : 0 < D * (rate : ℚ) := mul_pos hD hr'
  unfold repeatEnough secToSamples numRepeats truncR
  have hRP : 0 ≤ R (D * (rate : ℚ)) := hR.nonneg hP.le
  rw [if_pos hRP]
  -- n ≤ R P ≤ P (1 + u)
  have hn : (((R (D * (rate : ℚ))).floor : ℤ) : ℚ) ≤ R (D * (rate : ℚ)) := Rat.floor_le _
  have hPu := (hR.bounds hP.le).2
  -- P (1-u)^2 ≤ q' L ≤ k L
  have hq := numRepeats_arg_ge hR (len : ℚ) (rate : ℚ) D hL hr' hD
  have hk : R (D / R ((len : ℚ) / (rate : ℚ))) ≤
      (((R (D / R ((len : ℚ) / (rate : ℚ)))).ceil : ℤ) : ℚ) := Rat.le_ceil
  have e : D / ((len : ℚ) / (rate : ℚ)) * (len : ℚ) = D * (rate : ℚ) := by field_simp
  have hkL : D * (rate : ℚ) * (1 - 1 / 2 ^ 53) ^ 2 ≤
      (((R (D / R ((len : ℚ) / (rate : ℚ)))).ceil : ℤ) : ℚ) * (len : ℚ) := by
    calc D * (rate : ℚ) * (1 - 1 / 2 ^ 53) ^ 2
        = D / ((len : ℚ) / (rate : ℚ)) * (1 - 1 / 2 ^ 53) ^ 2 * (len : ℚ) := by rw [← e]; ring
      _ ≤ R (D / R ((len : ℚ) / (rate : ℚ))) * (len : ℚ) := mul_le_mul_of_nonneg_right hq hL.le
      _ ≤ _ := mul_le_mul_of_nonneg_right hk hL.le
  generalize (R (D * (rate : ℚ))).floor = n at hn ⊢
  generalize (R (D / R ((len : ℚ) / (rate : ℚ)))).ceil = k at hkL ⊢
  by_contra hlt
  have hlt' : k * (len : ℤ) + 1 ≤ n := by omega
  have hc : ((k * (len : ℤ) + 1 : ℤ) : ℚ) ≤ (n : ℚ) := by exact_mod_cast hlt'
  push_cast at hc
  norm_num at hkL hPu
  linarith

end NSV.C20
