import NoteSeqVerif.Proofs.C13
import NoteSeqVerif.Proofs.RoundingApps
/-! C13 — the float transcription of `np.interp` (`interpGo` / `interpR`) under an arbitrary rounding
operator `R` with `Rounding R` (`Proofs/Rounding.lean`: monotone, `R 0 = 0`, relative error `2^-53`;
`rounding_rne53 : Rounding rne53`).

What is true for every such `R` (strictly increasing abscissae, non-decreasing ordinates that are
floats, `R y = y`):
* inside one segment `[xₖ, xₖ₊₁)` the result is monotone in `x` (`interpGo_seg_mono`);
* from a knot to the right the result never drops below the knot's ordinate (`interpGo_ge_knot`);
* towards the next knot it can overshoot, but by at most the factor `(1 + 2^-53)^4`
  (`segR_le_next`), hence `x ≤ y → interp x ≤ interp y · (1 + 2^-53)^4` (`interpGo_mono_approx`).
Exact monotonicity across a knot is FALSE for `rne53` — see `Props/C13_interp.lean`. -/
namespace NSV.C13
open List

/-- the unit roundoff of float64 -/
def u53 : ℚ := 1 / 2 ^ 53

theorem u53_pos : 0 < u53 := by unfold u53; positivity

/-- ordinates (`fp`) that are floats -/
def RepY (R : ℚ → ℚ) (l : List (ℚ × ℚ)) : Prop := ∀ k ∈ l, R k.2 = k.2

/-- the arithmetic branch of numpy's `arr_interp` on the segment from `p` to `q` -/
def segR (R : ℚ → ℚ) (p q : ℚ × ℚ) (x : ℚ) : ℚ :=
  R (R (R (R (q.2 - p.2) / R (q.1 - p.1)) * R (x - p.1)) + p.2)

theorem interpGo_cons (R : ℚ → ℚ) (p q : ℚ × ℚ) (rest : List (ℚ × ℚ)) (x : ℚ) :
    interpGo R p (q :: rest) x =
      if q.1 ≤ x then interpGo R q rest x else if p.1 = x then p.2 else segR R p q x := by
  rw [interpGo]; rfl

variable {R : ℚ → ℚ}

theorem slope_nonneg (hR : Rounding R) (p q : ℚ × ℚ) (h1 : p.1 < q.1) (h2 : p.2 ≤ q.2) :
    0 ≤ R (R (q.2 - p.2) / R (q.1 - p.1)) := by
  apply hR.nonneg
  apply div_nonneg
  · exact hR.nonneg (by linarith)
  · exact hR.nonneg (by linarith)

/-- the arithmetic branch is monotone in `x` (anywhere, not only inside the segment) -/
theorem segR_mono (hR : Rounding R) (p q : ℚ × ℚ) (h1 : p.1 < q.1) (h2 : p.2 ≤ q.2) (x y : ℚ) (hxy : x ≤ y) :
    segR R p q x ≤ segR R p q y := by
  unfold segR
  apply hR.mono
  have hs := slope_nonneg hR p q h1 h2
  have ht : R (x - p.1) ≤ R (y - p.1) := hR.mono _ _ (by linarith)
  have := hR.mono _ _ (mul_le_mul_of_nonneg_left ht hs)
  linarith

/-- … and never below the left ordinate once `x` is at or right of the left knot -/
theorem segR_ge (hR : Rounding R) (p q : ℚ × ℚ) (h1 : p.1 < q.1) (h2 : p.2 ≤ q.2) (hy : R p.2 = p.2)
    (x : ℚ) (hx : p.1 ≤ x) : p.2 ≤ segR R p q x := by
  unfold segR
  have hs := slope_nonneg hR p q h1 h2
  have ht : 0 ≤ R (x - p.1) := hR.nonneg (by linarith)
  have hm : 0 ≤ R (R (R (q.2 - p.2) / R (q.1 - p.1)) * R (x - p.1)) := hR.nonneg (mul_nonneg hs ht)
  have := hR.mono p.2 (R (R (R (q.2 - p.2) / R (q.1 - p.1)) * R (x - p.1)) + p.2) (by linarith)
  rwa [hy] at this

/-- left of the next knot the arithmetic branch exceeds the next ordinate by at most four roundings -/
theorem segR_le_next (hR : Rounding R) (p q : ℚ × ℚ) (h1 : p.1 < q.1) (h0 : 0 ≤ p.2) (h2 : p.2 ≤ q.2)
    (x : ℚ) (hx : p.1 ≤ x) (hxq : x ≤ q.1) : segR R p q x ≤ q.2 * (1 + u53) ^ 4 := by
  have hu := u53_pos
  have hu' : (1 : ℚ) / 2 ^ 53 = u53 := rfl
  -- the four intermediate quantities
  have hdy0 : 0 ≤ q.2 - p.2 := by linarith
  have hdx0 : 0 < q.1 - p.1 := by linarith
  obtain ⟨_, hdyU⟩ := hR.bounds hdy0
  obtain ⟨hdxL, _⟩ := hR.bounds hdx0.le
  rw [hu'] at hdyU hdxL
  have hdy' : 0 ≤ R (q.2 - p.2) := hR.nonneg hdy0
  have hw : 0 < 1 - u53 := by unfold u53; norm_num
  have hdx' : 0 < R (q.1 - p.1) := lt_of_lt_of_le (mul_pos hdx0 hw) hdxL
  have ht0 : 0 ≤ R (x - p.1) := hR.nonneg (by linarith)
  have htU : R (x - p.1) ≤ R (q.1 - p.1) := hR.mono _ _ (by linarith)
  have hq0 : 0 ≤ R (q.2 - p.2) / R (q.1 - p.1) := div_nonneg hdy' hdx'.le
  obtain ⟨_, hsU⟩ := hR.bounds hq0
  rw [hu'] at hsU
  have hs0 : 0 ≤ R (R (q.2 - p.2) / R (q.1 - p.1)) := hR.nonneg hq0
  -- slope * t ≤ dy' * (1 + u)
  have hst : R (R (q.2 - p.2) / R (q.1 - p.1)) * R (x - p.1) ≤ R (q.2 - p.2) * (1 + u53) := by
    calc R (R (q.2 - p.2) / R (q.1 - p.1)) * R (x - p.1)
        ≤ R (R (q.2 - p.2) / R (q.1 - p.1)) * R (q.1 - p.1) := mul_le_mul_of_nonneg_left htU hs0
      _ ≤ (R (q.2 - p.2) / R (q.1 - p.1) * (1 + u53)) * R (q.1 - p.1) :=
          mul_le_mul_of_nonneg_right hsU hdx'.le
      _ = R (q.2 - p.2) * (1 + u53) := by field_simp
  have hst0 : 0 ≤ R (R (q.2 - p.2) / R (q.1 - p.1)) * R (x - p.1) := mul_nonneg hs0 ht0
  obtain ⟨_, hmU⟩ := hR.bounds hst0
  rw [hu'] at hmU
  have hm0 : 0 ≤ R (R (R (q.2 - p.2) / R (q.1 - p.1)) * R (x - p.1)) := hR.nonneg hst0
  have h1u : 0 ≤ 1 + u53 := by linarith
  have hm : R (R (R (q.2 - p.2) / R (q.1 - p.1)) * R (x - p.1)) ≤ (q.2 - p.2) * (1 + u53) ^ 3 := by
    calc R (R (R (q.2 - p.2) / R (q.1 - p.1)) * R (x - p.1))
        ≤ (R (R (q.2 - p.2) / R (q.1 - p.1)) * R (x - p.1)) * (1 + u53) := hmU
      _ ≤ (R (q.2 - p.2) * (1 + u53)) * (1 + u53) := mul_le_mul_of_nonneg_right hst h1u
      _ ≤ (((q.2 - p.2) * (1 + u53)) * (1 + u53)) * (1 + u53) := by
          apply mul_le_mul_of_nonneg_right _ h1u
          exact mul_le_mul_of_nonneg_right hdyU h1u
      _ = (q.2 - p.2) * (1 + u53) ^ 3 := by ring
  have hsum0 : 0 ≤ R (R (R (q.2 - p.2) / R (q.1 - p.1)) * R (x - p.1)) + p.2 := by linarith
  obtain ⟨_, hfU⟩ := hR.bounds hsum0
  rw [hu'] at hfU
  have h3 : (1 : ℚ) ≤ (1 + u53) ^ 3 := one_le_pow₀ (by linarith)
  have hsum : R (R (R (q.2 - p.2) / R (q.1 - p.1)) * R (x - p.1)) + p.2 ≤ q.2 * (1 + u53) ^ 3 := by
    have : p.2 ≤ p.2 * (1 + u53) ^ 3 := by nlinarith
    nlinarith
  unfold segR
  calc R (R (R (R (q.2 - p.2) / R (q.1 - p.1)) * R (x - p.1)) + p.2)
      ≤ (R (R (R (q.2 - p.2) / R (q.1 - p.1)) * R (x - p.1)) + p.2) * (1 + u53) := hfU
    _ ≤ (q.2 * (1 + u53) ^ 3) * (1 + u53) := mul_le_mul_of_nonneg_right hsum h1u
    _ = q.2 * (1 + u53) ^ 4 := by ring

/-! ### the scan over the knots -/

theorem KnotsOK.tail {p q : ℚ × ℚ} {rest : List (ℚ × ℚ)} (h : KnotsOK p (q :: rest)) : KnotsOK q rest := h.2.2

/-- from a knot to the right the interpolation never drops below that knot's ordinate -/
theorem interpGo_ge_knot (hR : Rounding R) : ∀ (rest : List (ℚ × ℚ)) (p : ℚ × ℚ), KnotsOK p rest →
    RepY R (p :: rest) → ∀ k ∈ p :: rest, ∀ x, k.1 ≤ x → p.1 ≤ x → k.2 ≤ interpGo R p rest x
  | [], p, _, _, k, hk, x, _, _ => by
    simp only [mem_singleton] at hk; subst hk; simp [interpGo]
  | q :: rest, p, h, hy, k, hk, x, hkx, hpx => by
    obtain ⟨h1, h2, h3⟩ := h
    have hy' : RepY R (q :: rest) := fun k hk => hy k (mem_cons_of_mem _ hk)
    rw [interpGo_cons]
    by_cases hq : q.1 ≤ x
    · rw [if_pos hq]
      rcases mem_cons.mp hk with rfl | hk'
      · exact le_trans h2 (interpGo_ge_knot hR rest q h3 hy' q (by simp) x hq hq)
      · exact interpGo_ge_knot hR rest q h3 hy' k hk' x hkx hq
    · rw [if_neg hq]
      have hkp : k = p := by
        rcases mem_cons.mp hk with rfl | hk'
        · rfl
        · exfalso
          have : q.1 ≤ k.1 := by
            rcases mem_cons.mp hk' with rfl | hk''
            · exact le_refl _
            · exact le_of_lt (xinc_gt q rest (KnotsOK.xinc q rest h3) k hk'')
          exact hq (le_trans this hkx)
      subst hkp
      by_cases he : k.1 = x
      · rw [if_pos he]
      · rw [if_neg he]
        exact segR_ge hR k q h1 h2 (hy k (by simp)) x hpx

/-- monotone inside the first segment `[p.1, q.1)` -/
theorem interpGo_first_seg_mono (hR : Rounding R) (p q : ℚ × ℚ) (rest : List (ℚ × ℚ)) (h1 : p.1 < q.1)
    (h2 : p.2 ≤ q.2) (hy : R p.2 = p.2) (x y : ℚ) (hx : p.1 ≤ x) (hxy : x ≤ y) (hyq : y < q.1) :
    interpGo R p (q :: rest) x ≤ interpGo R p (q :: rest) y := by
  rw [interpGo_cons, interpGo_cons, if_neg (show ¬ q.1 ≤ x by intro h; linarith),
    if_neg (show ¬ q.1 ≤ y by intro h; linarith)]
  by_cases hpx : p.1 = x
  · rw [if_pos hpx]
    by_cases hpy : p.1 = y
    · rw [if_pos hpy]
    · rw [if_neg hpy]; exact segR_ge hR p q h1 h2 hy y (by linarith)
  · rw [if_neg hpx, if_neg (show ¬ p.1 = y by intro h; apply hpx; linarith)]
    exact segR_mono hR p q h1 h2 x y hxy

/-- skipping the knots at or left of `x` -/
theorem interpGo_skip : ∀ (rest : List (ℚ × ℚ)) (p : ℚ × ℚ), XInc p rest →
    ∀ (pre : List (ℚ × ℚ)) (a : ℚ × ℚ) (post : List (ℚ × ℚ)), p :: rest = pre ++ a :: post →
    ∀ x, a.1 ≤ x → interpGo R p rest x = interpGo R a post x
  | rest, p, _, [], a, post, he, x, _ => by
    simp only [nil_append, cons.injEq] at he
    obtain ⟨rfl, rfl⟩ := he; rfl
  | [], p, _, b :: pre, a, post, he, x, _ => by
    simp only [cons_append, cons.injEq] at he
    have := he.2
    cases pre <;> simp at this
  | q :: rest, p, h, b :: pre, a, post, he, x, hax => by
    simp only [cons_append, cons.injEq] at he
    obtain ⟨rfl, he'⟩ := he
    have hqa : q.1 ≤ a.1 := by
      have hmem : a ∈ q :: rest := by rw [he']; simp
      rcases mem_cons.mp hmem with rfl | hm
      · exact le_refl _
      · exact le_of_lt (xinc_gt q rest h.2 a hm)
    rw [interpGo_cons, if_pos (le_trans hqa hax)]
    exact interpGo_skip rest q h.2 pre a post he' x hax

/-- **monotone inside every segment**: for consecutive knots `a`, `b` and `a.1 ≤ x ≤ y < b.1` -/
theorem interpGo_seg_mono (hR : Rounding R) (p : ℚ × ℚ) (rest : List (ℚ × ℚ)) (h : KnotsOK p rest)
    (hy : RepY R (p :: rest)) (pre : List (ℚ × ℚ)) (a b : ℚ × ℚ) (post : List (ℚ × ℚ))
    (he : p :: rest = pre ++ a :: b :: post) (x y : ℚ) (hx : a.1 ≤ x) (hxy : x ≤ y) (hyb : y < b.1) :
    interpGo R p rest x ≤ interpGo R p rest y := by
  have hxi := KnotsOK.xinc p rest h
  rw [interpGo_skip rest p hxi pre a (b :: post) he x hx,
    interpGo_skip rest p hxi pre a (b :: post) he y (le_trans hx hxy)]
  -- the pair (a, b) inherits the knot conditions
  have hab : a.1 < b.1 ∧ a.2 ≤ b.2 := by
    clear hx hxy hyb hy hxi
    induction pre generalizing p rest with
    | nil =>
      simp only [nil_append, cons.injEq] at he
      obtain ⟨rfl, rfl⟩ := he
      exact ⟨h.1, h.2.1⟩
    | cons c pre ih =>
      simp only [cons_append, cons.injEq] at he
      obtain ⟨rfl, he'⟩ := he
      cases rest with
      | nil => cases pre <;> simp at he'
      | cons q rest' => exact ih q rest' h.2.2 he'
  have hya : R a.2 = a.2 := hy a (by rw [he]; simp)
  exact interpGo_first_seg_mono hR a b post hab.1 hab.2 hya x y hx hxy hyb

theorem one_le_f4 : (1 : ℚ) ≤ (1 + u53) ^ 4 := one_le_pow₀ (by have := u53_pos; linarith)

/-- **monotone up to four roundings** over the whole knot range -/
theorem interpGo_mono_approx (hR : Rounding R) : ∀ (rest : List (ℚ × ℚ)) (p : ℚ × ℚ), KnotsOK p rest →
    RepY R (p :: rest) → 0 ≤ p.2 → ∀ x y, p.1 ≤ x → x ≤ y →
    interpGo R p rest x ≤ interpGo R p rest y * (1 + u53) ^ 4
  | [], p, _, _, h0, x, y, _, _ => by
    simp only [interpGo]
    have := one_le_f4; nlinarith
  | q :: rest, p, h, hy, h0, x, y, hx, hxy => by
    obtain ⟨h1, h2, h3⟩ := h
    have hy' : RepY R (q :: rest) := fun k hk => hy k (mem_cons_of_mem _ hk)
    have hf := one_le_f4
    by_cases hqx : q.1 ≤ x
    · rw [interpGo_cons, interpGo_cons, if_pos hqx, if_pos (le_trans hqx hxy)]
      exact interpGo_mono_approx hR rest q h3 hy' (le_trans h0 h2) x y hqx hxy
    · by_cases hqy : q.1 ≤ y
      · -- across the knot `q`
        have hlow : q.2 ≤ interpGo R q rest y := interpGo_ge_knot hR rest q h3 hy' q (by simp) y hqy hqy
        have hup : interpGo R p (q :: rest) x ≤ q.2 * (1 + u53) ^ 4 := by
          rw [interpGo_cons, if_neg hqx]
          by_cases he : p.1 = x
          · rw [if_pos he]; nlinarith
          · rw [if_neg he]
            exact segR_le_next hR p q h1 h0 h2 x hx (by linarith)
        have hstep : interpGo R p (q :: rest) y = interpGo R q rest y := by
          rw [interpGo_cons, if_pos hqy]
        rw [hstep]
        have hpos : 0 ≤ (1 + u53) ^ 4 := by linarith
        exact le_trans hup (mul_le_mul_of_nonneg_right hlow hpos)
      · -- same segment: exactly monotone
        have hm := interpGo_first_seg_mono hR p q rest h1 h2 (hy p (by simp)) x y hx hxy (by linarith)
        have hge : p.2 ≤ interpGo R p (q :: rest) y :=
          interpGo_ge_knot hR (q :: rest) p ⟨h1, h2, h3⟩ hy p (by simp) y (by linarith) (by linarith)
        have : 0 ≤ interpGo R p (q :: rest) y := le_trans h0 hge
        nlinarith

theorem interpGo_at_last (R : ℚ → ℚ) (p : ℚ × ℚ) (rest : List (ℚ × ℚ)) (h : XInc p rest) :
    interpGo R p rest (lastX p rest) = lastY p rest := by
  have hmem : ∀ (rest : List (ℚ × ℚ)) (p : ℚ × ℚ), (lastX p rest, lastY p rest) ∈ p :: rest := by
    intro rest
    induction rest with
    | nil => intro p; simp [lastX, lastY]
    | cons q rest ih => intro p; simp only [lastX, lastY]; exact mem_cons_of_mem _ (ih q)
  exact interpGo_knot R p rest h _ (hmem rest p)

end NSV.C13
