import NoteSeqVerif.Proofs.C03
import Mathlib.Tactic.Linarith
import Mathlib.Tactic.Ring
import Mathlib.Tactic.FieldSimp
import Mathlib.Tactic.Push
import Mathlib.Data.Rat.Floor
/-! helper lemmas for C03, part 2: the tick map in exact arithmetic (`R = id`). -/
namespace NSV.C03
open NSV

/-! ### binary search -/
theorem leastGE_spec (p : Int → Bool) : ∀ (fuel : Nat) (lo hi : Int), lo ≤ hi → hi - lo ≤ fuel →
    (∀ i j, lo ≤ i → i ≤ j → j < hi → p i = true → p j = true) →
    lo ≤ leastGE p fuel lo hi ∧ leastGE p fuel lo hi ≤ hi ∧
    (∀ i, lo ≤ i → i < leastGE p fuel lo hi → p i = false) ∧
    (leastGE p fuel lo hi < hi → p (leastGE p fuel lo hi) = true) := by
  intro fuel
  induction fuel with
  | zero =>
    intro lo hi h1 h2 _
    have : hi = lo := by omega
    subst this
    simp only [leastGE]
    refine ⟨le_refl _, le_refl _, ?_, ?_⟩
    · intro i a b; omega
    · intro a; omega
  | succ n ih =>
    intro lo hi h1 h2 hmono
    unfold leastGE
    by_cases hc : hi ≤ lo
    · rw [if_pos hc]
      refine ⟨le_refl _, h1, ?_, ?_⟩
      · intro i a b; omega
      · intro a; omega
    · rw [if_neg hc]
      simp only
      have hm1 : lo ≤ (lo + hi) / 2 := by omega
      have hm2 : (lo + hi) / 2 < hi := by omega
      by_cases hp : p ((lo + hi) / 2) = true
      · rw [if_pos hp]
        obtain ⟨a, b, c, d⟩ := ih lo ((lo + hi) / 2) hm1 (by omega)
          (fun i j hi1 hij hj => hmono i j hi1 hij (by omega))
        refine ⟨a, by omega, c, ?_⟩
        intro _
        by_cases e : leastGE p n lo ((lo + hi) / 2) < (lo + hi) / 2
        · exact d e
        · have : leastGE p n lo ((lo + hi) / 2) = (lo + hi) / 2 := by omega
          rw [this]; exact hp
      · rw [if_neg hp]
        obtain ⟨a, b, c, d⟩ := ih ((lo + hi) / 2 + 1) hi (by omega) (by omega)
          (fun i j hi1 hij hj => hmono i j (by omega) hij hj)
        refine ⟨by omega, b, ?_, d⟩
        intro i hi1 hi2
        by_cases e : i ≤ (lo + hi) / 2
        · cases hpi : p i
          · rfl
          · exact absurd (hmono i _ hi1 e hm2 hpi) hp
        · exact c i (by omega) hi2

/-! ### the array `arr k = tickToTime id m k` -/

/-- ticks non-decreasing, starting at or after `s` -/
def SortedFrom : Int → List (Int × Rat) → Prop
  | _, [] => True
  | s, (s', _) :: r => s ≤ s' ∧ SortedFrom s' r

/-- well-formed `_tick_scales`: positive scales, ticks ≥ 0 and non-decreasing -/
structure WF (m : TickMap) : Prop where
  c0 : 0 < m.c0
  pos : ∀ p ∈ m.rest, 0 < p.2
  sorted : SortedFrom 0 m.rest

/-- the scale in force for the step from tick `k` to `k + 1` -/
def stepScale (c : Rat) : List (Int × Rat) → Int → Rat
  | [], _ => c
  | (s', c') :: rest, k => if k < s' then c else stepScale c' rest k

def maxScaleOf (c : Rat) : List (Int × Rat) → Rat
  | [] => c
  | (_, c') :: r => max c (maxScaleOf c' r)

/-- the longest tick of the map -/
def maxScale (m : TickMap) : Rat := maxScaleOf m.c0 m.rest

theorem ttAux_start (b : Rat) (s : Int) (c : Rat) (rest : List (Int × Rat)) (h : SortedFrom s rest) :
    ttAux id b s c rest s = b := by
  cases rest with
  | nil => simp [ttAux]
  | cons p r =>
    obtain ⟨s', c'⟩ := p
    simp only [ttAux, id]
    rw [if_pos h.1]
    simp

theorem ttAux_succ (base : Rat) (s : Int) (c : Rat) (rest : List (Int × Rat)) (k : Int)
    (hk : s ≤ k) (hs : SortedFrom s rest) :
    ttAux id base s c rest (k + 1) = ttAux id base s c rest k + stepScale c rest k := by
  induction rest generalizing base s c with
  | nil =>
    simp only [ttAux, id, stepScale]
    push_cast
    ring
  | cons p r ih =>
    obtain ⟨s', c'⟩ := p
    by_cases h1 : k + 1 ≤ s'
    · have h2 : k ≤ s' := by omega
      have h3 : k < s' := by omega
      simp only [ttAux, id, stepScale, if_pos h1, if_pos h2, if_pos h3]
      push_cast
      ring
    · have h3 : ¬ k < s' := by omega
      simp only [ttAux, id, stepScale, if_neg h1, if_neg h3]
      by_cases h2 : k ≤ s'
      · have e : k = s' := by omega
        subst e
        rw [if_pos (le_refl _)]
        have := ih (base + c * ((k - s : Int) : Rat)) k c' (le_refl _) hs.2
        rw [this, ttAux_start _ _ _ _ hs.2]
      · rw [if_neg h2]
        exact ih (base + c * ((s' - s : Int) : Rat)) s' c' (by omega) hs.2

theorem stepScale_pos (c : Rat) (rest : List (Int × Rat)) (k : Int) (hc : 0 < c) (hp : ∀ p ∈ rest, 0 < p.2) :
    0 < stepScale c rest k := by
  induction rest generalizing c with
  | nil => exact hc
  | cons p r ih =>
    obtain ⟨s', c'⟩ := p
    simp only [stepScale]
    split
    · exact hc
    · exact ih c' (hp (s', c') (by simp)) (fun q hq => hp q (List.mem_cons_of_mem _ hq))

theorem stepScale_le_max (c : Rat) (rest : List (Int × Rat)) (k : Int) : stepScale c rest k ≤ maxScaleOf c rest := by
  induction rest generalizing c with
  | nil => exact le_refl _
  | cons p r ih =>
    obtain ⟨s', c'⟩ := p
    simp only [stepScale, maxScaleOf]
    split
    · exact le_max_left _ _
    · exact le_trans (ih c') (le_max_right _ _)

theorem le_maxTickOf (a : Int) (rest : List (Int × Rat)) :
    a ≤ maxTickOf a rest ∧ ∀ p ∈ rest, p.1 ≤ maxTickOf a rest := by
  induction rest generalizing a with
  | nil => simp [maxTickOf]
  | cons p r ih =>
    obtain ⟨s', c'⟩ := p
    simp only [maxTickOf]
    by_cases hlt : a < s'
    · rw [if_pos hlt]
      have := ih s'
      refine ⟨by omega, ?_⟩
      intro q hq
      rcases List.mem_cons.mp hq with e | hq
      · subst e; exact this.1
      · exact this.2 q hq
    · rw [if_neg hlt]
      have := ih a
      refine ⟨this.1, ?_⟩
      intro q hq
      rcases List.mem_cons.mp hq with e | hq
      · subst e; simp only; omega
      · exact this.2 q hq

theorem stepScale_last (c : Rat) (rest : List (Int × Rat)) (k : Int) (h : ∀ p ∈ rest, p.1 ≤ k) :
    stepScale c rest k = lastOf c rest := by
  induction rest generalizing c with
  | nil => rfl
  | cons p r ih =>
    obtain ⟨s', c'⟩ := p
    have : ¬ k < s' := by have := h (s', c') (by simp); simp only at this; omega
    simp only [stepScale, lastOf, if_neg this]
    exact ih c' (fun q hq => h q (List.mem_cons_of_mem _ hq))

section arr
variable (m : TickMap) (hw : WF m)
include hw

theorem arr_zero : tickToTime id m 0 = 0 := by
  unfold tickToTime
  exact ttAux_start 0 0 m.c0 m.rest hw.sorted

theorem arr_succ (k : Int) (hk : 0 ≤ k) :
    tickToTime id m (k + 1) = tickToTime id m k + stepScale m.c0 m.rest k := by
  unfold tickToTime
  exact ttAux_succ 0 0 m.c0 m.rest k hk hw.sorted

theorem step_pos (k : Int) : 0 < stepScale m.c0 m.rest k := stepScale_pos _ _ _ hw.c0 hw.pos

theorem step_le (k : Int) : stepScale m.c0 m.rest k ≤ maxScale m := stepScale_le_max _ _ _

theorem arr_add_nat (j : Int) (hj : 0 ≤ j) (n : Nat) :
    tickToTime id m j ≤ tickToTime id m (j + n) ∧ (0 < n → tickToTime id m j < tickToTime id m (j + n)) := by
  induction n with
  | zero => simp
  | succ n ih =>
    have e : j + ((n + 1 : Nat) : Int) = (j + n) + 1 := by push_cast; ring
    rw [e, arr_succ m hw (j + n) (by omega)]
    have := step_pos m hw (j + n)
    refine ⟨by linarith [ih.1], fun _ => by linarith [ih.1]⟩

theorem arr_strictMono {j k : Int} (hj : 0 ≤ j) (hjk : j < k) : tickToTime id m j < tickToTime id m k := by
  have e : k = j + ((k - j).toNat : Int) := by omega
  rw [e]
  exact (arr_add_nat m hw j hj (k - j).toNat).2 (by omega)

theorem arr_mono {j k : Int} (hj : 0 ≤ j) (hjk : j ≤ k) : tickToTime id m j ≤ tickToTime id m k := by
  rcases Int.lt_or_eq_of_le hjk with h | h
  · exact le_of_lt (arr_strictMono m hw hj h)
  · rw [h]

theorem arr_nonneg {k : Int} (hk : 0 ≤ k) : 0 ≤ tickToTime id m k := by
  have := arr_mono m hw (le_refl 0) hk
  rwa [arr_zero m hw] at this

/-- beyond the last tempo change the array is linear with the final scale -/
theorem arr_beyond (M : Int) (hM : maxScaleTick m ≤ M) (n : Nat) :
    tickToTime id m (M + n) = tickToTime id m M + (n : Rat) * lastScale m := by
  have hM0 : 0 ≤ M := le_trans (le_maxTickOf 0 m.rest).1 hM
  induction n with
  | zero => simp
  | succ n ih =>
    have e : M + ((n + 1 : Nat) : Int) = (M + n) + 1 := by push_cast; ring
    rw [e, arr_succ m hw (M + n) (by omega), ih]
    have : stepScale m.c0 m.rest (M + n) = lastScale m := by
      apply stepScale_last
      intro p hp
      have := (le_maxTickOf 0 m.rest).2 p hp
      unfold maxScaleTick at hM
      omega
    rw [this]
    push_cast
    ring

theorem lastScale_pos : 0 < lastScale m := by
  have := step_pos m hw (maxScaleTick m)
  rwa [show stepScale m.c0 m.rest (maxScaleTick m) = lastScale m from
    stepScale_last _ _ _ (le_maxTickOf 0 m.rest).2] at this

theorem lastScale_le : lastScale m ≤ maxScale m := by
  have := step_le m hw (maxScaleTick m)
  rwa [show stepScale m.c0 m.rest (maxScaleTick m) = lastScale m from
    stepScale_last _ _ _ (le_maxTickOf 0 m.rest).2] at this

end arr

/-! ### `round()` -/
theorem roundHalfEven_spec (x : Rat) :
    ((roundHalfEven x : Int) : Rat) ≤ x + 1/2 ∧ x - 1/2 ≤ ((roundHalfEven x : Int) : Rat) ∧ x.floor ≤ roundHalfEven x := by
  have h1 := Rat.floor_le x
  have h2 := Rat.lt_floor_add_one x
  push_cast at h2
  unfold roundHalfEven
  simp only
  split
  · rename_i h
    refine ⟨by linarith, by linarith, le_refl _⟩
  · rename_i h
    split
    · rename_i h'
      refine ⟨by push_cast; linarith, by push_cast; linarith, by omega⟩
    · rename_i h'
      have e : x - (x.floor : Rat) = 1/2 := le_antisymm (not_lt.mp h') (not_lt.mp h)
      split
      · refine ⟨by linarith, by linarith, le_refl _⟩
      · refine ⟨by push_cast; linarith, by push_cast; linarith, by omega⟩

/-! ### `time_to_tick` returns a nearest tick -/

/-- half-way between tick `k` and tick `k + 1` -/
def mid (m : TickMap) (k : Int) : Rat := (tickToTime id m k + tickToTime id m (k + 1)) / 2

/-- `k` is a nearest tick to `t` (ties either way; times before 0 belong to tick 0) -/
def Near (m : TickMap) (k : Int) (t : Rat) : Prop := 0 ≤ k ∧ (k = 0 ∨ mid m (k - 1) ≤ t) ∧ t ≤ mid m k

theorem mid_mono (m : TickMap) (hw : WF m) {j k : Int} (hj : 0 ≤ j) (hjk : j ≤ k) : mid m j ≤ mid m k := by
  unfold mid
  have a := arr_mono m hw hj hjk
  have b := arr_mono m hw (show 0 ≤ j + 1 by omega) (show j + 1 ≤ k + 1 by omega)
  linarith

theorem arr_lt_mid (m : TickMap) (hw : WF m) {k : Int} (hk : 0 ≤ k) : tickToTime id m k < mid m k := by
  unfold mid
  have := arr_strictMono m hw hk (show k < k + 1 by omega)
  linarith

theorem mid_lt_arr (m : TickMap) (hw : WF m) {k : Int} (hk : 0 ≤ k) : mid m k < tickToTime id m (k + 1) := by
  unfold mid
  have := arr_strictMono m hw hk (show k < k + 1 by omega)
  linarith

theorem absR_eq (x : Rat) : absR x = |x| := by
  unfold absR
  split
  · rename_i h; rw [abs_of_neg h]
  · rename_i h; rw [abs_of_nonneg (not_lt.mp h)]

theorem timeToTick_near (m : TickMap) (hw : WF m) (M : Int) (hM : maxScaleTick m ≤ M) (t : Rat) :
    Near m (timeToTick id m M t) t := by
  have hM0 : 0 ≤ M := le_trans (le_maxTickOf 0 m.rest).1 hM
  have hmono : ∀ i j : Int, 0 ≤ i → i ≤ j → j < M + 1 →
      decide (t ≤ tickToTime id m i) = true → decide (t ≤ tickToTime id m j) = true := by
    intro i j hi hij _ h
    simp only [decide_eq_true_eq] at *
    exact le_trans h (arr_mono m hw hi hij)
  obtain ⟨s1, s2, s3, s4⟩ := leastGE_spec (fun k => decide (t ≤ tickToTime id m k)) (M + 1).toNat 0 (M + 1)
    (by omega) (by omega) hmono
  unfold timeToTick
  simp only [id]
  generalize leastGE (fun k => decide (t ≤ tickToTime id m k)) (M + 1).toNat 0 (M + 1) = i at *
  by_cases hi : i = M + 1
  · rw [if_pos hi]
    -- beyond the end of the array
    have hlt : tickToTime id m M < t := by
      have := s3 M hM0 (by omega)
      simpa using this
    have hc := lastScale_pos m hw
    set x : Rat := (M : Rat) + (t - tickToTime id m M) / lastScale m with hx
    obtain ⟨r1, r2, r3⟩ := roundHalfEven_spec x
    have hxM : (M : Rat) ≤ x := by
      have : 0 ≤ (t - tickToTime id m M) / lastScale m := div_nonneg (by linarith) (le_of_lt hc)
      linarith
    have hfl : M ≤ x.floor := by rw [Rat.le_floor_iff]; exact hxM
    have hkM : M ≤ roundHalfEven x := le_trans hfl r3
    obtain ⟨n, hn⟩ : ∃ n : Nat, roundHalfEven x = M + n := ⟨(roundHalfEven x - M).toNat, by omega⟩
    have hval : tickToTime id m (roundHalfEven x) = tickToTime id m M + (n : Rat) * lastScale m := by
      rw [hn]; exact arr_beyond m hw M hM n
    have hval1 : tickToTime id m (roundHalfEven x + 1) = tickToTime id m M + ((n : Rat) + 1) * lastScale m := by
      have : roundHalfEven x + 1 = M + ((n + 1 : Nat) : Int) := by push_cast; omega
      rw [this, arr_beyond m hw M hM (n + 1)]; push_cast; ring
    have hkx : ((roundHalfEven x : Int) : Rat) = (M : Rat) + (n : Rat) := by rw [hn]; push_cast; ring
    have ht : t = tickToTime id m M + (x - M) * lastScale m := by
      rw [hx]; field_simp; ring
    refine ⟨by omega, ?_, ?_⟩
    · by_cases hn0 : n = 0
      · -- k = M: the midpoint below is inside the array, below arr M < t
        by_cases hM00 : M = 0
        · left; omega
        · right
          have e : roundHalfEven x - 1 = M - 1 := by omega
          rw [e]
          have := mid_lt_arr m hw (show 0 ≤ M - 1 by omega)
          rw [show M - 1 + 1 = M by ring] at this
          linarith
      · right
        have hn1 : 1 ≤ n := by omega
        have e : roundHalfEven x - 1 = M + ((n - 1 : Nat) : Int) := by omega
        unfold mid
        rw [show roundHalfEven x - 1 + 1 = roundHalfEven x by ring, hval, e, arr_beyond m hw M hM (n - 1), ht]
        have : ((n - 1 : Nat) : Rat) = (n : Rat) - 1 := by
          rw [Nat.cast_sub hn1]; simp
        rw [this]
        rw [hkx] at r1
        nlinarith
    · unfold mid
      rw [hval, hval1, ht]
      rw [hkx] at r2
      nlinarith
  · rw [if_neg hi]
    have hiM : i < M + 1 := by omega
    have hge : t ≤ tickToTime id m i := by simpa using s4 hiM
    by_cases hc : i ≠ 0 ∧ absR (t - tickToTime id m (i - 1)) < absR (t - tickToTime id m i)
    · rw [if_pos hc]
      obtain ⟨hi0, hlt⟩ := hc
      have hprev : tickToTime id m (i - 1) < t := by
        have := s3 (i - 1) (by omega) (by omega)
        simpa using this
      rw [absR_eq, absR_eq, abs_of_pos (by linarith), abs_of_nonpos (by linarith)] at hlt
      refine ⟨by omega, ?_, ?_⟩
      · by_cases h1 : i - 1 = 0
        · left; exact h1
        · right
          have := mid_lt_arr m hw (show 0 ≤ i - 1 - 1 by omega)
          rw [show i - 1 - 1 + 1 = i - 1 by ring] at this
          linarith
      · unfold mid
        rw [show i - 1 + 1 = i by ring]
        linarith
    · rw [if_neg hc]
      refine ⟨s1, ?_, ?_⟩
      · by_cases hi0 : i = 0
        · left; exact hi0
        · right
          have hprev : tickToTime id m (i - 1) < t := by
            have := s3 (i - 1) (by omega) (by omega)
            simpa using this
          have hnlt : ¬ absR (t - tickToTime id m (i - 1)) < absR (t - tickToTime id m i) := by
            intro h; exact hc ⟨hi0, h⟩
          rw [absR_eq, absR_eq, abs_of_pos (by linarith), abs_of_nonpos (by linarith)] at hnlt
          unfold mid
          rw [show i - 1 + 1 = i by ring]
          linarith
      · have := arr_lt_mid m hw s1
        linarith

/-- two nearest ticks of increasing times are ordered -/
theorem near_mono (m : TickMap) (hw : WF m) {k k' : Int} {t t' : Rat} (h : Near m k t) (h' : Near m k' t')
    (htt : t < t') : k ≤ k' := by
  by_contra hlt
  have hlt : k' < k := by omega
  obtain ⟨h0, h1, _⟩ := h
  obtain ⟨h0', _, h3'⟩ := h'
  rcases h1 with e | h1
  · omega
  · have := mid_mono m hw h0' (show k' ≤ k - 1 by omega)
    linarith

/-- a nearest tick is within half a (longest) tick -/
theorem near_bound (m : TickMap) (hw : WF m) {k : Int} {t : Rat} (h : Near m k t) (ht : 0 ≤ t) :
    |tickToTime id m k - t| ≤ maxScale m / 2 := by
  obtain ⟨h0, h1, h2⟩ := h
  rw [abs_le]
  constructor
  · unfold mid at h2
    rw [arr_succ m hw k h0] at h2
    have := step_le m hw k
    linarith
  · by_cases e : k = 0
    · subst e
      rw [arr_zero m hw]
      have := step_pos m hw 0
      have := step_le m hw 0
      linarith
    · have h1 : mid m (k - 1) ≤ t := by
        rcases h1 with e' | h1
        · exact absurd e' e
        · exact h1
      unfold mid at h1
      have e := arr_succ m hw (k - 1) (by omega)
      rw [show k - 1 + 1 = k by ring] at e h1
      have := step_le m hw (k - 1)
      linarith

/-! ### the tempo loop keeps `_tick_scales` sorted -/

theorem ttAux_append (R : Rat → Rat) (base : Rat) (s : Int) (c : Rat) (rest : List (Int × Rat)) (k' : Int) (c' : Rat)
    (j : Int) (hj : j ≤ k') : ttAux R base s c (rest ++ [(k', c')]) j = ttAux R base s c rest j := by
  induction rest generalizing base s c with
  | nil => simp [ttAux, hj]
  | cons p r ih =>
    obtain ⟨s1, c1⟩ := p
    simp only [List.cons_append, ttAux]
    split
    · rfl
    · exact ih _ _ _

theorem tickToTime_append (R : Rat → Rat) (m : TickMap) (k' : Int) (c' : Rat) (j : Int) (hj : j ≤ k') :
    tickToTime R { m with rest := m.rest ++ [(k', c')] } j = tickToTime R m j := by
  unfold tickToTime
  exact ttAux_append R 0 0 m.c0 m.rest k' c' j hj

theorem sortedFrom_append (s : Int) (rest : List (Int × Rat)) (k : Int) (c : Rat)
    (h : SortedFrom s rest) (hk : maxTickOf s rest ≤ k) : SortedFrom s (rest ++ [(k, c)]) := by
  induction rest generalizing s with
  | nil => simpa [SortedFrom, maxTickOf] using hk
  | cons p r ih =>
    obtain ⟨s1, c1⟩ := p
    simp only [List.cons_append, SortedFrom]
    refine ⟨h.1, ih s1 h.2 ?_⟩
    simp only [maxTickOf] at hk
    by_cases hlt : s < s1
    · rwa [if_pos hlt] at hk
    · have : s = s1 := by have := h.1; omega
      subst this
      rwa [if_neg hlt] at hk

theorem maxTickOf_append (a : Int) (rest : List (Int × Rat)) (k : Int) (c : Rat) (hk : maxTickOf a rest ≤ k) :
    maxTickOf a (rest ++ [(k, c)]) = k := by
  induction rest generalizing a with
  | nil =>
    simp only [List.nil_append, maxTickOf] at *
    split <;> omega
  | cons p r ih =>
    obtain ⟨s1, c1⟩ := p
    simp only [List.cons_append, maxTickOf] at *
    exact ih _ hk

theorem scaleOfQpm_pos {res : Int} {q c : Rat} (h : scaleOfQpm id res q = .ok c) : 0 < c := by
  unfold scaleOfQpm at h
  simp only [id] at h
  split at h
  · cases h
  · split at h
    · cases h
    · rename_i h1 h2
      cases h
      have : 0 < (res : Rat) * q := lt_of_le_of_ne (not_lt.mp h2) (Ne.symm h1)
      positivity

/-- loop invariant: well-formed map, and every tempo still to come lies after the midpoint below the last
tempo tick -/
def LoopInv (acc : TickMap) (l : List Tempo) : Prop :=
  WF acc ∧ ∀ t ∈ l, maxScaleTick acc = 0 ∨ mid acc (maxScaleTick acc - 1) < t.time

theorem tempoFold_wf (res : Int) (init : Option Tempo) (met : Option Rat) (l : List Tempo) (acc m : TickMap)
    (hl : l.Pairwise (fun a b => a.time < b.time)) (hinv : LoopInv acc l)
    (h : tempoFold id res init met acc l = .ok m) : WF m := by
  induction l generalizing acc with
  | nil =>
    simp only [tempoFold] at h
    cases h
    exact hinv.1
  | cons t r ih =>
    have hr := (List.pairwise_cons.mp hl).2
    have ht := (List.pairwise_cons.mp hl).1
    simp only [tempoFold] at h
    split at h
    · cases h
    · rename_i acc' hstep
      refine ih acc' hr ?_ h
      unfold tempoStep at hstep
      have keep : LoopInv acc r := ⟨hinv.1, fun t' ht' => hinv.2 t' (List.mem_cons_of_mem _ ht')⟩
      split at hstep
      · cases hstep; exact keep
      · split at hstep
        · cases hstep; exact keep
        · split at hstep
          · cases hstep
          · rename_i c hc
            cases hstep
            have hw := hinv.1
            have hnear := timeToTick_near acc hw (maxScaleTick acc) (le_refl _) t.time
            set k := timeToTick id acc (maxScaleTick acc) t.time with hk
            -- the new tick is not before the last one
            have hKk : maxScaleTick acc ≤ k := by
              by_contra hlt
              have hlt : k < maxScaleTick acc := by omega
              rcases hinv.2 t (by simp) with e | hmid
              · have := hnear.1; omega
              · have := mid_mono acc hw hnear.1 (show k ≤ maxScaleTick acc - 1 by omega)
                have := hnear.2.2
                linarith
            have hw' : WF { acc with rest := acc.rest ++ [(k, c)] } := by
              refine ⟨hw.c0, ?_, sortedFrom_append 0 acc.rest k c hw.sorted hKk⟩
              intro p hp
              rcases List.mem_append.mp hp with hp | hp
              · exact hw.pos p hp
              · simp only [List.mem_singleton] at hp
                subst hp
                exact scaleOfQpm_pos hc
            refine ⟨hw', ?_⟩
            intro t' ht'
            have hmax : maxScaleTick { acc with rest := acc.rest ++ [(k, c)] } = k :=
              maxTickOf_append 0 acc.rest k c hKk
            rw [hmax]
            by_cases hk0 : k = 0
            · left; exact hk0
            · right
              have hm : mid { acc with rest := acc.rest ++ [(k, c)] } (k - 1) = mid acc (k - 1) := by
                unfold mid
                rw [tickToTime_append id acc k c (k - 1) (by omega),
                  tickToTime_append id acc k c (k - 1 + 1) (by omega)]
              rw [hm]
              rcases hnear.2.1 with e | hle
              · exact absurd e hk0
              · exact lt_of_le_of_lt hle (ht t' ht')

end NSV.C03
