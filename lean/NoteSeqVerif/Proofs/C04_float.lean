import NoteSeqVerif.Proofs.C04_time
import NoteSeqVerif.Proofs.RoundingApps
/-! C04 — the timing clause in FLOATING POINT: lemmas behind `Props/C04_float.lean`.

`R` is any rounding operator with the facts of `Proofs/Rounding.lean` (`Rounding R`; the executable
`rne53` is one, `rounding_rne53`).  What is float in `abc_parser.py` and what is not:
the note length `length` is a `fractions.Fraction` (EXACT); the tempo is
`float((tempo_unit / Fraction(1, 4)) * tempo_rate)` = ONE rounding of the exact `4·u·r`; the clock
advance is `(1 / (qpm / 60)) * (length / Fraction(1, 4))` = `R (R (1 / R (qpm / 60)) · R (4·length))`
(`float * Fraction` converts the Fraction with one correct rounding), and `current_time += …` is one
more rounding.  So a duration is 5 roundings away from the notated `unit·factor·240/Q` (`Q` the notated,
unrounded tempo), and the k-th onset `k + 5` (the error index of a sum of non-negative terms is the
larger of the two, plus the rounding of the sum). -/
namespace NSV.C04
open NSV

/-! ## `Near` on non-negative numbers (index arithmetic with `max`) -/

/-- the unit roundoff of binary64 -/
abbrev u53 : ℚ := 1 / 2 ^ 53

theorem u53_pos : (0 : ℚ) < u53 := by unfold u53; positivity

/-- Bernoulli: `1 - n·u ≤ (1 - u)^n` -/
theorem bernoulli53 (n : ℕ) : 1 - (n : ℚ) * u53 ≤ (1 - u53) ^ n := by
  have hw : (0 : ℚ) ≤ 1 - u53 := by unfold u53; norm_num
  induction n with
  | zero => simp
  | succ n ih =>
    have h1 : (1 - (n : ℚ) * u53) * (1 - u53) ≤ (1 - u53) ^ n * (1 - u53) :=
      mul_le_mul_of_nonneg_right ih hw
    have h2 : (0 : ℚ) ≤ (n : ℚ) * u53 * u53 := by positivity
    rw [pow_succ]
    push_cast
    nlinarith

theorem near_zero {n : ℕ} {a' : ℚ} (h : Near 53 n a' 0) : a' = 0 := by
  have hw : (0 : ℚ) < (1 - 1 / 2 ^ 53) ^ n := pow_pos (Near.w_pos (by norm_num)) n
  obtain ⟨h1, h2⟩ := h
  rw [zero_mul] at h1
  have : a' ≤ 0 := by
    by_contra hc
    have := mul_pos (not_le.mp hc) hw
    linarith
  linarith

theorem near_zero_zero (n : ℕ) : Near 53 n 0 0 := by simp [Near]

theorem near_nonneg {n : ℕ} {a' a : ℚ} (h : Near 53 n a' a) (ha : 0 ≤ a) : 0 ≤ a' := by
  rcases ha.lt_or_eq with h0 | h0
  · exact (h.pos (by norm_num) h0).le
  · subst h0; rw [near_zero h]

theorem near_mono0 {n m : ℕ} {a' a : ℚ} (h : Near 53 n a' a) (ha : 0 ≤ a) (hnm : n ≤ m) :
    Near 53 m a' a := by
  rcases ha.lt_or_eq with h0 | h0
  · exact h.mono (by norm_num) h0 hnm
  · subst h0; rw [near_zero h]; exact near_zero_zero m

theorem near_round0 {R : ℚ → ℚ} (hR : Rounding R) {n : ℕ} {a' a : ℚ} (h : Near 53 n a' a) (ha : 0 ≤ a) :
    Near 53 (n + 1) (R a') a := by
  rcases ha.lt_or_eq with h0 | h0
  · exact h.round hR (by norm_num) h0
  · subst h0; rw [near_zero h, hR.zero]; exact near_zero_zero _

/-- the error index of a sum is the larger of the two, not their sum -/
theorem near_add_max {n m : ℕ} {a' a b' b : ℚ} (ha : 0 ≤ a) (hb : 0 ≤ b) (h1 : Near 53 n a' a)
    (h2 : Near 53 m b' b) : Near 53 (max n m) (a' + b') (a + b) := by
  have k1 := near_mono0 h1 ha (le_max_left n m)
  have k2 := near_mono0 h2 hb (le_max_right n m)
  exact ⟨by rw [add_mul]; exact add_le_add k1.1 k2.1, by rw [add_mul]; exact add_le_add k1.2 k2.2⟩

/-- `Near 53 N` as a relative error bound `(N+1)·2^-53`, for `N (N+1) ≤ 2^53` -/
theorem near_abs {N : ℕ} {a' a : ℚ} (h : Near 53 N a' a) (ha : 0 ≤ a) (hN : N * (N + 1) ≤ 2 ^ 53) :
    |a' - a| ≤ a * (((N : ℚ) + 1) * u53) := by
  rcases ha.lt_or_eq with h0 | h0
  · have hb := bernoulli53 N
    have hu := u53_pos
    have hNq : (N : ℚ) * ((N : ℚ) + 1) * u53 ≤ 1 := by
      have : ((N * (N + 1) : ℕ) : ℚ) ≤ ((2 ^ 53 : ℕ) : ℚ) := by exact_mod_cast hN
      push_cast at this
      unfold u53
      rw [mul_one_div, div_le_one (by positivity)]
      exact this
    have hw : (0 : ℚ) < (1 - 1 / 2 ^ 53) ^ N := pow_pos (Near.w_pos (by norm_num)) N
    refine h.abs_le h0 ?_ ?_ hw
    · show 1 - ((N : ℚ) + 1) * u53 ≤ (1 - u53) ^ N
      linarith
    · show 1 ≤ (1 + ((N : ℚ) + 1) * u53) * (1 - u53) ^ N
      have hc : (0 : ℚ) ≤ 1 + ((N : ℚ) + 1) * u53 := by positivity
      have h1 : (1 + ((N : ℚ) + 1) * u53) * (1 - (N : ℚ) * u53) ≤
          (1 + ((N : ℚ) + 1) * u53) * (1 - u53) ^ N := mul_le_mul_of_nonneg_left hb hc
      have h2 : (1 + ((N : ℚ) + 1) * u53) * (1 - (N : ℚ) * u53) =
          1 + u53 * (1 - (N : ℚ) * ((N : ℚ) + 1) * u53) := by ring
      have h3 : 0 ≤ u53 * (1 - (N : ℚ) * ((N : ℚ) + 1) * u53) := mul_nonneg hu.le (by linarith)
      linarith
  · subst h0; rw [near_zero h]; simp

/-- a positive number rounds to a positive number (no underflow in the model) -/
theorem round_pos {R : ℚ → ℚ} (hR : Rounding R) {a : ℚ} (ha : 0 < a) : 0 < R a :=
  ((Near.refl a).round hR (by norm_num) ha).pos (by norm_num) ha

/-! ## the clock advance -/

/-- `(1 / (qpm / 60)) * (length / Fraction(1, 4))` with the tempo `qpm = R Q` (one rounding of the
notated tempo `Q > 0`) and a positive length: the result is positive and 5 roundings away from the
notated `length · 240 / Q` -/
theorem seconds_float {R : ℚ → ℚ} (hR : Rounding R) {Q l dt : ℚ} (hQ : 0 < Q) (hl : 0 < l)
    (h : seconds R (R Q) l = .ok dt) : 0 < dt ∧ Near 53 5 dt (l * 240 / Q) := by
  have hp : 1 ≤ 53 := by norm_num
  unfold seconds at h
  simp only at h
  split at h
  · simp at h
  simp only [Except.ok.injEq] at h
  have hq : Near 53 1 (R Q) Q := (Near.refl Q).round hR hp hQ
  have hx : Near 53 2 (R (R Q / 60)) (Q / 60) :=
    (Near.div hp hQ (by norm_num) hq (Near.refl 60)).round hR hp (by positivity)
  have hinv : Near 53 3 (R (1 / R (R Q / 60))) (1 / (Q / 60)) :=
    (Near.div hp one_pos (by positivity) (Near.refl 1) hx).round hR hp (by positivity)
  have hl4 : Near 53 1 (R (l / (1 / 4))) (l / (1 / 4)) := (Near.refl _).round hR hp (by positivity)
  have hm : Near 53 5 (R (R (1 / R (R Q / 60)) * R (l / (1 / 4)))) (1 / (Q / 60) * (l / (1 / 4))) :=
    (Near.mul hp (by positivity) (by positivity) hinv hl4).round hR hp (by positivity)
  have e : 1 / (Q / 60) * (l / (1 / 4)) = l * 240 / Q := by field_simp; ring
  rw [h, e] at hm
  exact ⟨hm.pos hp (by positivity), hm⟩

/-- the same with every operand dyadic: tempo `60·2^i`, `4·length = B·2^j` with `B ≤ 2^53`:
every operation is exact -/
theorem seconds_dyadic {R : ℚ → ℚ} (hR : Rounding R) (i j : ℤ) (B : ℕ) (hB : B ≤ 2 ^ 53) {l : ℚ}
    (hl : l * 4 = (B : ℚ) * 2 ^ j) :
    seconds R (R (60 * 2 ^ i)) l = .ok (l * 240 / (60 * 2 ^ i)) := by
  have hp : 1 ≤ 53 := by norm_num
  have h2i : (2 : ℚ) ^ i ≠ 0 := zpow_ne_zero _ (by norm_num)
  have fix : ∀ (n : ℤ) (k : ℤ) (x : ℚ), n.natAbs ≤ 2 ^ 53 → x = (n : ℚ) * 2 ^ k → R x = x := by
    intro n k x hn hx; rw [hx]; exact hR.exact_dyadic hp n hn k
  have e1 : R (60 * (2 : ℚ) ^ i) = 60 * 2 ^ i := fix 60 i _ (by norm_num) (by push_cast; ring)
  have e2 : R (60 * (2 : ℚ) ^ i / 60) = 2 ^ i := by
    have : (60 : ℚ) * 2 ^ i / 60 = 2 ^ i := by field_simp
    rw [this]; exact fix 1 i _ (by norm_num) (by push_cast; ring)
  have e3 : R (1 / (2 : ℚ) ^ i) = 1 / 2 ^ i :=
    fix 1 (-i) _ (by norm_num) (by rw [zpow_neg]; push_cast; field_simp)
  have e4 : R (l / (1 / 4)) = l * 4 := by
    have : l / (1 / 4) = l * 4 := by field_simp
    rw [this]; exact fix B j _ (by simpa using hB) (by rw [hl]; push_cast; ring)
  have e5 : R (1 / (2 : ℚ) ^ i * (l * 4)) = 1 / 2 ^ i * (l * 4) :=
    fix B (j + -i) _ (by simpa using hB) (by
      rw [hl, zpow_add₀ (by norm_num : (2 : ℚ) ≠ 0), zpow_neg]; push_cast; field_simp)
  unfold seconds
  simp only [e1, e2, e3, e4, e5]
  rw [if_neg h2i]
  congr 1
  field_simp
  ring

/-! ## the body phase for an arbitrary `R` -/

/-- the body-phase invariant: the unit note length is the notated one (a Fraction, exact), the tempo
is ONE rounding of the notated tempo, the clock is a float -/
structure FBody (R : ℚ → ℚ) (st : St) (c : Ctx) : Prop where
  inHeader : st.inHeader = false
  unit : st.unit = some c.unit
  qpm : qpm st = R c.qpm
  broken : st.broken = none
  tfix : R st.time = st.time

theorem parseField_fbody {R : ℚ → ℚ} {st st' : St} {c : Ctx} {f : Field} (hb : FBody R st c)
    (h : parseField R st f = .ok st') : FBody R st' (fieldCtx c f) := by
  obtain ⟨_, _, hbr, htm, _, _, _, hih, _⟩ := parseField_frame h
  have hih' : st'.inHeader = false := by rw [hih, hb.inHeader]
  have hbr' : st'.broken = none := by rw [hbr, hb.broken]
  have ht' : R st'.time = st'.time := by rw [htm]; exact hb.tfix
  cases f with
  | tempo beats rate =>
    simp only [parseField] at h
    split at h
    · simp at h
    rename_i s hs
    simp only [setTempo, hb.inHeader, Bool.false_eq_true, ↓reduceIte, addTempo, Except.ok.injEq] at h
    subst h
    refine ⟨hih', hb.unit, ?_, hbr', ht'⟩
    rw [qpm_append _ _ _ _ rfl]
    simp only [fieldCtx, sumBeats_ok hs]
    congr 1
    ring
  | tempoOld rate =>
    simp only [parseField, setTempo, hb.inHeader, Bool.false_eq_true, ↓reduceIte, addTempo, hb.unit,
      Except.ok.injEq] at h
    subst h
    refine ⟨hih', rfl, ?_, hbr', ht'⟩
    rw [qpm_append _ _ _ _ rfl]
    simp only [fieldCtx]
    congr 1
    ring
  | unitLen n d =>
    simp only [parseField] at h
    split at h
    · simp at h
    · simp only [Except.ok.injEq] at h; subst h
      exact ⟨hih', rfl, hb.qpm, hbr', ht'⟩
  | key k =>
    simp only [parseField] at h
    split at h
    · simp at h
    · simp only [Except.ok.injEq] at h; subst h
      exact ⟨hih', hb.unit, hb.qpm, hbr', ht'⟩
  | title s =>
    simp only [parseField] at h
    split at h <;> (simp only [Except.ok.injEq] at h; subst h; exact ⟨hih', hb.unit, hb.qpm, hbr', ht'⟩)
  | refnum _ | composer _ | meterC | meterCut | meterNone | meter _ _ | tempoStr | other =>
    simp only [parseField, Except.ok.injEq] at h; subst h; exact ⟨hih', hb.unit, hb.qpm, hbr', ht'⟩
  | refBad | meterBad | unitBad | tempoBad | keyBad | part | voice =>
    simp [parseField] at h

/-- one non-broken-rhythm item in the body phase, any `R`: a note token appends the note
`(clock, R (clock + dt))` with `dt` the float clock advance, everything else leaves notes and clock -/
theorem stepItem_fbody {R : ℚ → ℚ} (hR : Rounding R) {st st' : St} {c : Ctx} {i : Item} (hb : FBody R st c)
    (hnb : isBrokenItem i = false) (h : stepItem R st i = .ok st') :
    FBody R st' (itemCtx c i) ∧
    ((∃ a l o len p dt, i = .tok (.note a l o len) ∧
        seconds R (R c.qpm) (c.unit * specFactor len) = .ok dt ∧
        st'.notes = st.notes ++ [newNote p st.time (R (st.time + dt))] ∧
        st'.time = R (st.time + dt)) ∨
     (isNote i = false ∧ st'.notes = st.notes ∧ st'.time = st.time)) := by
  cases i with
  | field f =>
    simp only [stepItem] at h
    obtain ⟨hn, _, _, ht, _⟩ := parseField_frame h
    exact ⟨parseField_fbody hb h, .inr ⟨rfl, hn, ht⟩⟩
  | start =>
    simp only [stepItem] at h
    simp only [startMusic, hb.inHeader, Bool.false_eq_true, ↓reduceIte, Except.ok.injEq] at h
    subst h
    exact ⟨⟨rfl, hb.unit, hb.qpm, rfl, hb.tfix⟩, .inr ⟨rfl, rfl, rfl⟩⟩
  | tok t =>
    simp only [stepItem] at h
    rcases stepTok_cases h with ⟨a, l, o, n, rfl⟩ | ⟨f, rfl⟩ | ⟨a, b, c', rfl⟩ | ⟨n, rfl⟩ | ⟨gt, n, rfl, rfl⟩ |
      ⟨s, rfl, rfl⟩ | ⟨rfl, ht⟩
    · simp only [stepTok] at h
      obtain ⟨base, delta, barAcc', u, len, dt, notes', _, _, _, _, hu, hlen, hdt, hn, rfl⟩ := stepNote_ok h
      rw [hb.unit] at hu
      simp only [Option.some.injEq] at hu; subst hu
      rw [hb.qpm] at hdt
      have hlen' := noteLength_ok hlen
      subst hlen'
      rw [hb.broken] at hn
      simp only at hn
      subst hn
      refine ⟨⟨hb.inHeader, hb.unit, hb.qpm, rfl, hR.idem _⟩,
        .inl ⟨a, l, o, n, base + delta + octaveShift o, dt, rfl, hdt, rfl, rfl⟩⟩
    · simp only [stepTok] at h
      obtain ⟨hn, _, _, ht, _⟩ := parseField_frame h
      exact ⟨parseField_fbody hb h, .inr ⟨rfl, hn, ht⟩⟩
    · simp only [stepTok] at h
      obtain ⟨secs, g, e, rfl⟩ := stepBar_shape h
      exact ⟨⟨hb.inHeader, hb.unit, hb.qpm, hb.broken, hb.tfix⟩, .inr ⟨rfl, rfl, rfl⟩⟩
    · simp only [stepTok] at h
      obtain ⟨secs, g, e, rfl⟩ := stepColons_shape h
      exact ⟨⟨hb.inHeader, hb.unit, hb.qpm, hb.broken, hb.tfix⟩, .inr ⟨rfl, rfl, rfl⟩⟩
    · simp [isBrokenItem] at hnb
    · exact ⟨⟨hb.inHeader, hb.unit, hb.qpm, hb.broken, hb.tfix⟩, .inr ⟨rfl, rfl, rfl⟩⟩
    · rcases ht with rfl | rfl | rfl | rfl <;>
        exact ⟨⟨hb.inHeader, hb.unit, hb.qpm, hb.broken, hb.tfix⟩, .inr ⟨rfl, rfl, rfl⟩⟩

/-! ## positive notated lengths, the float chain -/

/-- every note token has a positive notated length (`unit · factor > 0`) under a positive notated
tempo, with the unit length and tempo in force at the token -/
def posDurs (c : Ctx) : List Item → Prop
  | [] => True
  | .tok (.note _ _ _ len) :: r => 0 < c.unit * specFactor len ∧ 0 < c.qpm ∧ posDurs c r
  | i :: r => posDurs (itemCtx c i) r

theorem posDurs_non_note {c : Ctx} {i : Item} {r : List Item} (h : isNote i = false) :
    posDurs c (i :: r) = posDurs (itemCtx c i) r := by
  cases i with
  | tok t => cases t <;> simp_all [posDurs, isNote]
  | field f => simp [posDurs]
  | start => simp [posDurs]

theorem specDurs_non_note {c : Ctx} {i : Item} {r : List Item} (h : isNote i = false) :
    specDurs c (i :: r) = specDurs (itemCtx c i) r := by
  cases i with
  | tok t => cases t <;> simp_all [specDurs, isNote]
  | field f => simp [specDurs]
  | start => simp [specDurs]

theorem posDurs_pos {c : Ctx} {items : List Item} (h : posDurs c items) : ∀ d ∈ specDurs c items, 0 < d := by
  induction items generalizing c with
  | nil => simp [specDurs]
  | cons i r ih =>
    by_cases hn : isNote i = true
    · cases i with
      | tok t =>
        cases t with
        | note a l o len =>
          simp only [posDurs] at h
          simp only [specDurs, List.mem_cons]
          rintro d (rfl | hd)
          · have := h.1; have := h.2.1; positivity
          · exact ih h.2.2 d hd
        | _ => simp [isNote] at hn
      | _ => simp [isNote] at hn
    · have hn' : isNote i = false := by simpa using hn
      rw [posDurs_non_note hn'] at h
      rw [specDurs_non_note hn']
      exact ih h

/-- the float notes against the notated durations: the note starts at the clock, ends at
`R (clock + dt)` where the float clock advance `dt` is positive and 5 roundings away from the notated
duration, and the next note starts where this one ends -/
def FChain (R : ℚ → ℚ) : ℚ → List Note → List ℚ → ℚ → Prop
  | t, [], [], te => te = t
  | t, n :: ns, d :: ds, te =>
    n.start = t ∧ (∃ dt, 0 < dt ∧ Near 53 5 dt d ∧ n.end_ = R (t + dt)) ∧ FChain R n.end_ ns ds te
  | _, _, _, _ => False

theorem FChain.length {R : ℚ → ℚ} : ∀ {t : ℚ} {ns : List Note} {ds : List ℚ} {te : ℚ},
    FChain R t ns ds te → ns.length = ds.length
  | _, [], [], _, _ => rfl
  | _, n :: ns, d :: ds, _, h => by simp [FChain.length h.2.2]
  | _, [], _ :: _, _, h => by simp [FChain] at h
  | _, _ :: _, [], _, h => by simp [FChain] at h

/-- the body fold for an arbitrary `R`, no broken-rhythm tokens, positive notated lengths -/
theorem runItems_fbody {R : ℚ → ℚ} (hR : Rounding R) {st st' : St} {c : Ctx} {items : List Item}
    (hb : FBody R st c) (hnb : ∀ i ∈ items, isBrokenItem i = false) (hpos : posDurs c items)
    (h : runItems R st items = .ok st') :
    ∃ new, st'.notes = st.notes ++ new ∧ FChain R st.time new (specDurs c items) st'.time := by
  induction items generalizing st c with
  | nil =>
    simp only [runItems, Except.ok.injEq] at h; subst h
    exact ⟨[], by simp, by simp [specDurs, FChain]⟩
  | cons i r ih =>
    simp only [runItems] at h
    split at h
    · simp at h
    rename_i st1 h1
    obtain ⟨hb1, hcase⟩ := stepItem_fbody hR hb (hnb i (by simp)) h1
    rcases hcase with ⟨a, l, o, len, p, dt, rfl, hdt, hn, ht⟩ | ⟨hni, hn, ht⟩
    · simp only [posDurs] at hpos
      simp only [itemCtx] at hb1
      obtain ⟨new, hnew, hch⟩ := ih hb1 (fun j hj => hnb j (by simp [hj])) hpos.2.2 h
      obtain ⟨hdpos, hnear⟩ := seconds_float hR hpos.2.1 hpos.1 hdt
      refine ⟨newNote p st.time (R (st.time + dt)) :: new, by rw [hnew, hn]; simp, ?_⟩
      simp only [specDurs, FChain]
      refine ⟨rfl, ⟨dt, hdpos, hnear, rfl⟩, ?_⟩
      rw [ht] at hch
      exact hch
    · rw [posDurs_non_note hni] at hpos
      obtain ⟨new, hnew, hch⟩ := ih hb1 (fun j hj => hnb j (by simp [hj])) hpos h
      refine ⟨new, by rw [hnew, hn], ?_⟩
      rw [specDurs_non_note hni, ← ht]
      exact hch

/-! ## what a float chain implies -/

/-- order: every note ends no earlier than it starts, notes follow each other without gap, onsets
are non-decreasing, the clock never goes back -/
theorem FChain.order {R : ℚ → ℚ} (hR : Rounding R) : ∀ {t : ℚ} {ns : List Note} {ds : List ℚ} {te : ℚ},
    R t = t → FChain R t ns ds te →
    t ≤ te ∧ R te = te ∧ (∀ n ∈ ns, t ≤ n.start ∧ n.start ≤ n.end_ ∧ n.end_ ≤ te) ∧
    ns.Pairwise (fun a b => a.start ≤ b.start ∧ a.end_ ≤ b.start)
  | t, [], [], te, ht, h => by
    simp only [FChain] at h; subst h
    exact ⟨le_refl _, ht, by simp, List.Pairwise.nil⟩
  | t, n :: ns, d :: ds, te, ht, h => by
    obtain ⟨hs, ⟨dt, hdt, _, he⟩, hrest⟩ := h
    have hle : t ≤ n.end_ := by
      rw [he]
      have := hR.mono t (t + dt) (by linarith)
      rwa [ht] at this
    have hfix : R n.end_ = n.end_ := by rw [he]; exact hR.idem _
    obtain ⟨h1, h2, h3, h4⟩ := FChain.order hR hfix hrest
    refine ⟨le_trans hle h1, h2, ?_, ?_⟩
    · intro m hm
      rcases List.mem_cons.mp hm with rfl | hm
      · exact ⟨by rw [hs], by rw [hs]; exact hle, h1⟩
      · obtain ⟨a, b, c⟩ := h3 m hm
        exact ⟨le_trans hle a, b, c⟩
    · refine List.Pairwise.cons ?_ h4
      intro m hm
      obtain ⟨a, _, _⟩ := h3 m hm
      exact ⟨by rw [hs]; exact le_trans hle a, a⟩
  | _, [], _ :: _, _, _, h => by simp [FChain] at h
  | _, _ :: _, [], _, _, h => by simp [FChain] at h

/-- accuracy: if the clock is `m + 5` roundings away from the notated time `T`, the k-th note's onset
is `m + k + 5` and its end `m + k + 6` roundings away from the notated running sums -/
theorem FChain.near {R : ℚ → ℚ} (hR : Rounding R) : ∀ {t : ℚ} {ns : List Note} {ds : List ℚ} {te : ℚ} {T : ℚ} {m : ℕ},
    Near 53 (m + 5) t T → 0 ≤ T → (∀ d ∈ ds, 0 < d) → FChain R t ns ds te →
    Near 53 (m + ds.length + 5) te (T + ds.sum) ∧
    ∀ k, k < ds.length → ∃ n, ns[k]? = some n ∧
      Near 53 (m + k + 5) n.start (T + (ds.take k).sum) ∧ Near 53 (m + k + 6) n.end_ (T + (ds.take (k + 1)).sum)
  | t, [], [], te, T, m, ht, _, _, h => by
    simp only [FChain] at h; subst h
    exact ⟨by simpa using ht, by simp⟩
  | t, n :: ns, d :: ds, te, T, m, ht, hT, hd, h => by
    obtain ⟨hs, ⟨dt, _, hnear, he⟩, hrest⟩ := h
    have hd0 : 0 < d := hd d (by simp)
    have hend : Near 53 (m + 1 + 5) n.end_ (T + d) := by
      have := near_round0 hR (near_add_max hT hd0.le ht hnear) (add_nonneg hT hd0.le)
      rw [max_eq_left (by omega)] at this
      rw [he]
      exact this
    obtain ⟨r1, r2⟩ := FChain.near hR hend (by linarith) (fun x hx => hd x (by simp [hx])) hrest
    refine ⟨?_, ?_⟩
    · have e1 : m + (d :: ds).length + 5 = m + 1 + ds.length + 5 := by simp; omega
      have e2 : T + (d :: ds).sum = T + d + ds.sum := by simp; ring
      rw [e1, e2]; exact r1
    · intro k hk
      cases k with
      | zero =>
        refine ⟨n, rfl, ?_, ?_⟩
        · simpa [hs] using ht
        · simpa using hend
      | succ k =>
        obtain ⟨n', hn', a, b⟩ := r2 k (by simpa using hk)
        refine ⟨n', by simpa using hn', ?_, ?_⟩
        · have e1 : m + (k + 1) + 5 = m + 1 + k + 5 := by omega
          have e2 : T + ((d :: ds).take (k + 1)).sum = T + d + (ds.take k).sum := by simp; ring
          rw [e1, e2]; exact a
        · have e1 : m + (k + 1) + 6 = m + 1 + k + 6 := by omega
          have e2 : T + ((d :: ds).take (k + 1 + 1)).sum = T + d + (ds.take (k + 1)).sum := by simp; ring
          rw [e1, e2]; exact b
  | _, [], _ :: _, _, _, _, _, _, _, h => by simp [FChain] at h
  | _, _ :: _, [], _, _, _, _, _, _, h => by simp [FChain] at h

/-! ## all operands dyadic: the float run is the exact run -/

/-- every note token sounds under a tempo `60·2^i` and lasts a whole number `B` of quanta `2^e`
(`A` = quanta elapsed so far), and the running total stays below `2^53` quanta -/
def dyadicDurs (e : ℤ) : Ctx → ℕ → List Item → Prop
  | _, _, [] => True
  | c, A, .tok (.note _ _ _ len) :: r =>
    ∃ (i : ℤ) (B : ℕ), c.qpm = 60 * 2 ^ i ∧ c.unit * specFactor len * 240 / c.qpm = (B : ℚ) * 2 ^ e ∧
      A + B ≤ 2 ^ 53 ∧ dyadicDurs e c (A + B) r
  | c, A, i :: r => dyadicDurs e (itemCtx c i) A r

theorem dyadicDurs_non_note {e : ℤ} {c : Ctx} {A : ℕ} {i : Item} {r : List Item} (h : isNote i = false) :
    dyadicDurs e c A (i :: r) = dyadicDurs e (itemCtx c i) A r := by
  cases i with
  | tok t => cases t <;> simp_all [dyadicDurs, isNote]
  | field f => simp [dyadicDurs]
  | start => simp [dyadicDurs]

/-- the body fold for an arbitrary `R` when every operand is dyadic: exactly the exact-arithmetic spans -/
theorem runItems_dyadic {R : ℚ → ℚ} (hR : Rounding R) {e : ℤ} {st st' : St} {c : Ctx} {items : List Item} {A : ℕ}
    (hb : FBody R st c) (hnb : ∀ i ∈ items, isBrokenItem i = false) (ht : st.time = (A : ℚ) * 2 ^ e)
    (hdy : dyadicDurs e c A items) (h : runItems R st items = .ok st') :
    st'.notes.map span = st.notes.map span ++ spans st.time (specDurs c items) ∧
    st'.time = st.time + (specDurs c items).sum := by
  induction items generalizing st c A with
  | nil =>
    simp only [runItems, Except.ok.injEq] at h; subst h
    simp [specDurs, spans]
  | cons i r ih =>
    simp only [runItems] at h
    split at h
    · simp at h
    rename_i st1 h1
    obtain ⟨hb1, hcase⟩ := stepItem_fbody hR hb (hnb i (by simp)) h1
    rcases hcase with ⟨a, l, o, len, p, dt, rfl, hdt, hn, ht1⟩ | ⟨hni, hn, ht1⟩
    · simp only [dyadicDurs] at hdy
      obtain ⟨i, B, hq, hd, hAB, hrest⟩ := hdy
      simp only [itemCtx] at hb1
      have h2i : (2 : ℚ) ^ i ≠ 0 := zpow_ne_zero _ (by norm_num)
      have hB : B ≤ 2 ^ 53 := by omega
      have hl4 : c.unit * specFactor len * 4 = (B : ℚ) * 2 ^ (e + i) := by
        rw [hq] at hd
        rw [zpow_add₀ (by norm_num : (2 : ℚ) ≠ 0)]
        have : c.unit * specFactor len * 240 / (60 * 2 ^ i) * 2 ^ i = c.unit * specFactor len * 4 := by
          field_simp; ring
        rw [← this, hd]; ring
      rw [hq, seconds_dyadic hR i (e + i) B hB hl4] at hdt
      simp only [Except.ok.injEq] at hdt
      have hdt' : dt = (B : ℚ) * 2 ^ e := by rw [← hdt, ← hq]; exact hd
      have hsum : R (st.time + dt) = st.time + dt := by
        rw [ht, hdt']
        have : (A : ℚ) * 2 ^ e + (B : ℚ) * 2 ^ e = (((A + B : ℕ) : ℤ) : ℚ) * 2 ^ e := by push_cast; ring
        rw [this]
        exact hR.exact_dyadic (by norm_num) _ (by rw [Int.natAbs_natCast]; exact hAB) e
      have ht1' : st1.time = ((A + B : ℕ) : ℚ) * 2 ^ e := by
        rw [ht1, hsum, ht, hdt']; push_cast; ring
      obtain ⟨ihn, iht⟩ := ih hb1 (fun j hj => hnb j (by simp [hj])) ht1' hrest h
      have hdd : c.unit * specFactor len * 240 / c.qpm = dt := by rw [hd, hdt']
      simp only [specDurs, spans, List.sum_cons, hdd]
      rw [ihn, iht, hn, ht1, hsum]
      constructor
      · simp [span, newNote]
      · ring
    · rw [dyadicDurs_non_note hni] at hdy
      have ht' : st1.time = (A : ℚ) * 2 ^ e := by rw [ht1, ht]
      obtain ⟨ihn, iht⟩ := ih hb1 (fun j hj => hnb j (by simp [hj])) ht' hdy h
      rw [specDurs_non_note hni, ihn, iht, hn, ht1]
      exact ⟨rfl, rfl⟩

end NSV.C04
