import NoteSeqVerif.Proofs.C07Spec
/-! C07 — helper lemmas (core Lean only). -/
namespace NSV.C07

/-! ### lists, canonical sets -/

theorem any_congr_mem {α} {l : List α} {p q : α → Bool} (h : ∀ x ∈ l, p x = q x) :
    l.any p = l.any q := by
  induction l with
  | nil => rfl
  | cons a l ih =>
    simp only [List.any_cons]
    rw [h a (List.mem_cons_self ..), ih (fun x hx => h x (List.mem_cons_of_mem _ hx))]

theorem sortByInt_pairwise {α} (key : α → Int) (l : List α) :
    (sortByInt key l).Pairwise (fun a b => key a ≤ key b) := by
  have := List.pairwise_mergeSort (le := fun a b => decide (key a ≤ key b))
    (by intro a b c; simp only [decide_eq_true_eq]; omega)
    (by intro a b; simp only [Bool.or_eq_true, decide_eq_true_eq]; omega) l
  simpa [sortByInt] using this


theorem mem_insertSet {x y : Int} {l : List Int} : y ∈ insertSet x l ↔ y = x ∨ y ∈ l := by
  induction l with
  | nil => simp [insertSet]
  | cons z zs ih =>
    unfold insertSet
    split
    · simp
    · split
      · rename_i h; subst h; simp
      · simp [ih]; constructor <;> intro h <;> rcases h with h | h | h <;> simp [h]

theorem mem_canonSet {y : Int} {l : List Int} : y ∈ canonSet l ↔ y ∈ l := by
  induction l with
  | nil => simp [canonSet]
  | cons x xs ih =>
    have : canonSet (x :: xs) = insertSet x (canonSet xs) := rfl
    rw [this, mem_insertSet, ih]; simp

theorem insertSet_sorted {x : Int} {l : List Int} (h : l.Pairwise (· < ·)) :
    (insertSet x l).Pairwise (· < ·) := by
  induction l with
  | nil => simp [insertSet]
  | cons z zs ih =>
    rw [List.pairwise_cons] at h
    unfold insertSet
    split
    · rename_i hxz
      rw [List.pairwise_cons]
      refine ⟨?_, List.pairwise_cons.mpr h⟩
      intro a ha
      rcases List.mem_cons.mp ha with rfl | ha
      · exact hxz
      · have := h.1 a ha; omega
    · split
      · exact List.pairwise_cons.mpr h
      · rename_i h1 h2
        rw [List.pairwise_cons]
        refine ⟨?_, ih h.2⟩
        intro a ha
        rcases mem_insertSet.mp ha with rfl | ha
        · omega
        · exact h.1 a ha

theorem canonSet_sorted (l : List Int) : (canonSet l).Pairwise (· < ·) := by
  induction l with
  | nil => simp [canonSet]
  | cons x xs ih => exact insertSet_sorted ih


theorem length_setLength {α} (pad : α) (ev : List α) (n : Nat) : (setLength pad ev n).length = n := by
  unfold setLength; split <;> simp <;> omega

theorem getElem?_setLength {α} (pad : α) (ev : List α) (n i : Nat) (hi : i < n) :
    (setLength pad ev n)[i]? = some (if h : i < ev.length then ev[i] else pad) := by
  unfold setLength
  split
  · rename_i hn
    by_cases h : i < ev.length
    · simp [h, List.getElem?_append_left]
    · simp [h, List.getElem?_append_right (Nat.le_of_not_lt h), List.getElem?_replicate]; omega
  · rename_i hn
    have h : i < ev.length := by omega
    simp [h, hi]


/-! ### pianoroll -/
theorem paint_foldl (c : RollCfg) (f p : Int) :
    ∀ (l : List Note), l.Pairwise (fun a b => a.qs ≤ b.qs) → ∀ r : Int → Int → Bool,
      (l.foldl (paint c) r) f p =
        (!(l.any fun n => rollSel c n && rollClears c n f p) &&
          (r f p || l.any fun n => rollSel c n && rollCovers c n f p)) := by
  intro l
  induction l with
  | nil => intro _ r; simp
  | cons n l ih =>
    intro hp r
    rw [List.pairwise_cons] at hp
    rw [List.foldl_cons, ih hp.2]
    by_cases hsel : rollSel c n = true
    · by_cases hcov : rollCovers c n f p = true
      · have hncl : rollClears c n f p = false := by
          simp only [rollCovers, rollClears, Bool.and_eq_true, decide_eq_true_eq] at hcov ⊢
          rw [Bool.eq_false_iff]; intro h
          simp only [Bool.and_eq_true, decide_eq_true_eq, beq_iff_eq] at h
          omega
        simp [paint, hsel, hcov, hncl]
      · by_cases hcl : rollClears c n f p = true
        · have htail : (l.any fun m => rollSel c m && rollCovers c m f p) = false := by
            rw [Bool.eq_false_iff]; intro h
            rw [List.any_eq_true] at h
            obtain ⟨m, hm, hmc⟩ := h
            have hle := hp.1 m hm
            simp only [rollCovers, rollClears, Bool.and_eq_true, decide_eq_true_eq, beq_iff_eq] at hmc hcl
            omega
          simp [paint, hsel, hcov, hcl, htail]
        · simp [paint, hsel, hcov, hcl]
    · simp [paint, hsel]


/-! ### drums -/
theorem pitchesAt_nil {sel : List Note} {u : Int} (h : ∀ n ∈ sel, n.qs ≠ u) : pitchesAt sel u = [] := by
  have : sel.filter (fun n => n.qs == u) = [] := by
    rw [List.filter_eq_nil_iff]; intro n hn; simpa using h n hn
  simp [pitchesAt, this, canonSet]

theorem drumLoop_inv (sel : List Note) (start gap : Int) :
    ∀ (ts : List Int) (ev : List (List Int)),
      ts.Pairwise (· < ·) →
      (∀ t ∈ ts, start + ev.length ≤ t) →
      (∀ i, i < ev.length → ev[i]? = some (pitchesAt sel (start + i))) →
      (∀ n ∈ sel, start + ev.length ≤ n.qs → n.qs ∈ ts) →
      ev.length ≤ (drumLoop sel start gap ts ev ev.length).length ∧
      (ev.length = 0 → ts ≠ [] → (drumLoop sel start gap ts ev ev.length).length ≠ 0) ∧
      (∀ i, i < (drumLoop sel start gap ts ev ev.length).length →
          (drumLoop sel start gap ts ev ev.length)[i]? = some (pitchesAt sel (start + i))) ∧
      ((drumLoop sel start gap ts ev ev.length).length = ev.length ∨
          (start + (drumLoop sel start gap ts ev ev.length).length - 1) ∈ ts) ∧
      (∀ t ∈ ts, start + (drumLoop sel start gap ts ev ev.length).length ≤ t →
          gap ≤ t - (start + (drumLoop sel start gap ts ev ev.length).length)) ∧
      (∀ t ∈ ts, t < start + (drumLoop sel start gap ts ev ev.length).length →
          (ev.length = 0 ∧ ts.head? = some t) ∨
          ∃ e, ((e = start + ev.length ∧ ev.length ≠ 0) ∨ (e - 1) ∈ ts) ∧ e ≤ t ∧ t - e < gap) := by
  intro ts
  induction ts with
  | nil =>
    intro ev _ _ hev _
    rw [drumLoop]
    exact ⟨Nat.le_refl _, fun _ h => absurd rfl h, hev, Or.inl rfl, by simp, by simp⟩
  | cons t ts ih =>
    intro ev hpw hge hev hsel
    rw [List.pairwise_cons] at hpw
    have htge := hge t (List.mem_cons_self ..)
    obtain ⟨k, hk⟩ : ∃ k : Nat, t - start = (k : Int) := ⟨(t - start).toNat, by omega⟩
    have hklen : ev.length ≤ k := by omega
    by_cases hbreak : ev.length ≠ 0 ∧ t - start - (ev.length : Int) ≥ gap
    · -- the loop breaks at `t`
      have hout : drumLoop sel start gap (t :: ts) ev ev.length = ev := by
        rw [drumLoop]; exact if_pos hbreak
      rw [hout]
      refine ⟨Nat.le_refl _, ?_, hev, Or.inl rfl, ?_, ?_⟩
      · intro h0; exact absurd h0 hbreak.1
      · intro u hu _
        rcases List.mem_cons.mp hu with hut | hu
        · omega
        · have := hpw.1 u hu; omega
      · intro u hu hlt
        have := hge u hu; omega
    · -- `t` is added
      let ev' := (setLength [] ev (t - start + 1).toNat).set (t - start).toNat (pitchesAt sel t)
      have hout : drumLoop sel start gap (t :: ts) ev ev.length =
          drumLoop sel start gap ts ev' (t - start + 1) := by
        rw [drumLoop]; exact if_neg hbreak
      have hlen' : ev'.length = k + 1 := by
        simp only [ev', List.length_set, length_setLength]; omega
      have hcast : (t - start + 1 : Int) = ((ev'.length : Nat) : Int) := by rw [hlen']; omega
      have hev' : ∀ i, i < ev'.length → ev'[i]? = some (pitchesAt sel (start + i)) := by
        intro i hi
        rw [hlen'] at hi
        have h1 : (t - start).toNat = k := by omega
        have h2 : (t - start + 1).toNat = k + 1 := by omega
        simp only [ev', h1, h2, List.getElem?_set, length_setLength]
        by_cases hik : k = i
        · subst hik
          have : start + (k : Int) = t := by omega
          simp [this]
        · simp only [hik, ↓reduceIte]
          rw [getElem?_setLength _ _ _ _ (by omega)]
          by_cases hil : i < ev.length
          · have := hev i hil
            rw [List.getElem?_eq_getElem hil] at this
            simp only [hil, ↓reduceDIte]; exact this
          · simp only [hil, ↓reduceDIte]
            congr 1
            symm
            apply pitchesAt_nil
            intro n hn heq
            have hmem := hsel n hn (by omega)
            rcases List.mem_cons.mp hmem with h | h
            · omega
            · have := hpw.1 _ h; omega
      have ih' := ih ev' hpw.2
        (by intro u hu; have := hpw.1 u hu; rw [hlen']; omega)
        hev'
        (by intro n hn hge'
            rw [hlen'] at hge'
            have hmem := hsel n hn (by omega)
            rcases List.mem_cons.mp hmem with h | h
            · omega
            · exact h)
      rw [hout, hcast]
      obtain ⟨i1, i2, i3, i4, i5, i6⟩ := ih'
      refine ⟨by omega, by intro _ _; omega, i3, ?_, ?_, ?_⟩
      · right
        rcases i4 with h | h
        · rw [h, hlen']
          have : start + ((k + 1 : Nat) : Int) - 1 = t := by omega
          rw [this]; exact List.mem_cons_self ..
        · exact List.mem_cons_of_mem _ h
      · intro u hu hle
        rcases List.mem_cons.mp hu with hut | hu
        · omega
        · exact i5 u hu hle
      · intro u hu hlt
        rcases List.mem_cons.mp hu with hut | hu
        · by_cases h0 : ev.length = 0
          · left; exact ⟨h0, by simp [hut]⟩
          · right
            refine ⟨start + ev.length, Or.inl ⟨rfl, h0⟩, by omega, ?_⟩
            have : ¬ (t - start - (ev.length : Int) ≥ gap) := fun h => hbreak ⟨h0, h⟩
            omega
        · right
          rcases i6 u hu hlt with ⟨h0, _⟩ | ⟨e, he, hle, hlt'⟩
          · omega
          · refine ⟨e, ?_, hle, hlt'⟩
            rcases he with ⟨he1, _⟩ | he
            · right
              have : e - 1 = t := by rw [he1, hlen']; omega
              rw [this]; exact List.mem_cons_self ..
            · right; exact List.mem_cons_of_mem _ he




theorem mem_pitchesAt {sel : List Note} {t p : Int} :
    p ∈ pitchesAt sel t ↔ ∃ n ∈ sel, n.qs = t ∧ n.pitch = p := by
  simp only [pitchesAt, mem_canonSet, List.mem_map, List.mem_filter, beq_iff_eq]
  constructor
  · rintro ⟨n, ⟨hn, ht⟩, hp⟩; exact ⟨n, hn, ht, hp⟩
  · rintro ⟨n, hn, ht, hp⟩; exact ⟨n, ⟨hn, ht⟩, hp⟩

theorem pitchesAt_sorted (sel : List Note) (t : Int) : (pitchesAt sel t).Pairwise (· < ·) :=
  canonSet_sorted _


/-! ### chords -/
theorem chordAt_nil (dflt : String) (t : Int) : chordAt dflt [] t = dflt := rfl

theorem chordAt_cons_le {dflt : String} {c : TextAnn} {cs : List TextAnn} {t : Int} (h : c.qstep ≤ t) :
    chordAt dflt (c :: cs) t = chordAt c.text cs t := by
  simp only [chordAt, List.filter_cons, h, decide_true, ↓reduceIte, List.getLast?_cons]
  cases (cs.filter fun c => decide (c.qstep ≤ t)).getLast? <;> rfl

theorem chordAt_all_gt {dflt : String} {cs : List TextAnn} {t : Int} (h : ∀ c ∈ cs, t < c.qstep) :
    chordAt dflt cs t = dflt := by
  have : cs.filter (fun c => decide (c.qstep ≤ t)) = [] := by
    rw [List.filter_eq_nil_iff]; intro c hc; have := h c hc; simp; omega
  simp [chordAt, this]

theorem take_setLength {α} (pad : α) (ev : List α) (n : Nat) (h : ev.length ≤ n) :
    (setLength pad ev n).take ev.length = ev := by
  unfold setLength
  split
  · exact List.take_left' rfl
  · have : n = ev.length := by omega
    subst this; simp

theorem addChord_eq (ev : List String) (pf : String) (si ei : Int)
    (hlen : (ev.length : Int) = si) (hlt : si < ei) :
    addChord ev pf si ei = .ok (ev ++ List.replicate (ei.toNat - ev.length) pf) := by
  have h1 : si.toNat = ev.length := by omega
  unfold addChord
  rw [if_neg (by omega), h1, take_setLength _ _ _ (by omega)]

/-- two different chords on one step inside `[start, end)`; the first disjunct is the pending
comparison with the previous chord `(ps, pf)` -/
def ChordConflict (start end_ : Int) (ps : Option Int) (pf : String) (cs : List TextAnn) : Prop :=
  (∃ c ∈ cs, ps = some c.qstep ∧ start ≤ c.qstep ∧ c.qstep < end_ ∧ c.text ≠ pf) ∨
  (∃ a ∈ cs, ∃ b ∈ cs, a.qstep = b.qstep ∧ start ≤ a.qstep ∧ a.qstep < end_ ∧ a.text ≠ b.text)

def chordRun (start end_ : Int) (cs : List TextAnn) (ps : Option Int) (pf : String) (ev : List String) :
    Except XErr (List String) :=
  match chordLoop start end_ cs ps pf ev with
  | .error e => .error e
  | .ok (ps', pf', ev') => chordFinish start end_ ps' pf' ev'

theorem chordFinish_spec (start end_ : Int) (hse : start < end_) (ps : Option Int) (pf : String)
    (ev : List String) (hps : ∀ p, ps = some p → p < end_)
    (hlen : (ev.length : Int) = chordStartIndex ps start) :
    chordFinish start end_ ps pf ev = .ok (ev ++ List.replicate ((end_ - start).toNat - ev.length) pf) := by
  unfold chordFinish
  have hadd : addChord ev pf (chordStartIndex ps start) (end_ - start) =
      .ok (ev ++ List.replicate ((end_ - start).toNat - ev.length) pf) := by
    apply addChord_eq _ _ _ _ hlen
    cases ps with
    | none => simp [chordStartIndex]; omega
    | some p => have := hps p rfl; simp only [chordStartIndex]; omega
  cases ps with
  | none => exact hadd
  | some p => simp only [hps p rfl, ↓reduceIte]; exact hadd


theorem chordRun_spec (start end_ : Int) (hse : start < end_) :
    ∀ (cs : List TextAnn) (ps : Option Int) (pf : String) (ev : List String),
      cs.Pairwise (fun a b => a.qstep ≤ b.qstep) →
      (∀ p, ps = some p → p < end_ ∧ ∀ c ∈ cs, p ≤ c.qstep) →
      (ev.length : Int) = chordStartIndex ps start →
      (ChordConflict start end_ ps pf cs ∧
        chordRun start end_ cs ps pf ev = .error .coincidentChordsError) ∨
      (¬ ChordConflict start end_ ps pf cs ∧ ∃ E, chordRun start end_ cs ps pf ev = .ok E ∧
        (E.length : Int) = end_ - start ∧
        (∀ i, i < ev.length → E[i]? = ev[i]?) ∧
        (∀ i : Nat, ev.length ≤ i → (i : Int) < end_ - start →
            E[i]? = some (chordAt pf cs (start + i)))) := by
  intro cs
  induction cs with
  | nil =>
    intro ps pf ev _ hps hlen
    right
    refine ⟨by simp [ChordConflict], ev ++ List.replicate ((end_ - start).toNat - ev.length) pf, ?_, ?_, ?_, ?_⟩
    · simp only [chordRun, chordLoop]
      exact chordFinish_spec start end_ hse ps pf ev (fun p h => (hps p h).1) hlen
    · have : 0 ≤ chordStartIndex ps start := by omega
      have hL : chordStartIndex ps start < end_ - start := by
        cases ps with
        | none => simp [chordStartIndex]; omega
        | some p => have := (hps p rfl).1; simp only [chordStartIndex]; omega
      simp only [List.length_append, List.length_replicate]; omega
    · intro i hi; exact List.getElem?_append_left hi
    · intro i hi hlt
      rw [List.getElem?_append_right hi, List.getElem?_replicate, chordAt_nil]
      rw [if_pos (by omega)]
  | cons c cs ih =>
    intro ps pf ev hpw hps hlen
    rw [List.pairwise_cons] at hpw
    have hL0 : 0 ≤ chordStartIndex ps start := by omega
    by_cases h1 : c.qstep ≥ end_
    · -- no more chords within range
      right
      have hnc : ¬ ChordConflict start end_ ps pf (c :: cs) := by
        rintro (⟨a, ha, _, _, hlt, _⟩ | ⟨a, ha, _, _, _, _, hlt, _⟩) <;>
        · rcases List.mem_cons.mp ha with h | h
          · subst h; omega
          · have := hpw.1 a h; omega
      have hall : ∀ t : Int, t < end_ → chordAt pf (c :: cs) t = pf := by
        intro t ht
        apply chordAt_all_gt
        intro a ha
        rcases List.mem_cons.mp ha with h | h
        · subst h; omega
        · have := hpw.1 a h; omega
      refine ⟨hnc, ev ++ List.replicate ((end_ - start).toNat - ev.length) pf, ?_, ?_, ?_, ?_⟩
      · simp only [chordRun, chordLoop, h1, ↓reduceIte]
        exact chordFinish_spec start end_ hse ps pf ev (fun p h => (hps p h).1) hlen
      · have hL : chordStartIndex ps start < end_ - start := by
          cases ps with
          | none => simp [chordStartIndex]; omega
          | some p => have := (hps p rfl).1; simp only [chordStartIndex]; omega
        simp only [List.length_append, List.length_replicate]; omega
      · intro i hi; exact List.getElem?_append_left hi
      · intro i hi hlt
        rw [List.getElem?_append_right hi, List.getElem?_replicate, hall _ (by omega)]
        rw [if_pos (by omega)]
    · by_cases h2 : c.qstep < start
      · -- chord before the range
        have hrun : chordRun start end_ (c :: cs) ps pf ev = chordRun start end_ cs (some c.qstep) c.text ev := by
          simp only [chordRun, chordLoop, h1, h2, ↓reduceIte]
        have hlen' : (ev.length : Int) = chordStartIndex (some c.qstep) start := by
          have : chordStartIndex ps start = 0 := by
            cases ps with
            | none => rfl
            | some p => have := (hps p rfl).2 c (List.mem_cons_self ..); simp only [chordStartIndex]; omega
          simp only [chordStartIndex]; omega
        have hconf : ChordConflict start end_ ps pf (c :: cs) ↔ ChordConflict start end_ (some c.qstep) c.text cs := by
          constructor
          · rintro (⟨a, ha, hpa, hsa, hea, hta⟩ | ⟨a, ha, b, hb, hab, hsa, hea, hta⟩)
            · rcases List.mem_cons.mp ha with h | h
              · subst h; omega
              · left
                have := (hps _ hpa).2 c (List.mem_cons_self ..)
                have := hpw.1 a h
                omega
            · rcases List.mem_cons.mp ha with h | h
              · subst h; omega
              · rcases List.mem_cons.mp hb with h' | h'
                · subst h'; omega
                · right; exact ⟨a, h, b, h', hab, hsa, hea, hta⟩
          · rintro (⟨a, ha, hpa, hsa, hea, hta⟩ | ⟨a, ha, b, hb, hab, hsa, hea, hta⟩)
            · simp only [Option.some.injEq] at hpa; omega
            · right; exact ⟨a, List.mem_cons_of_mem _ ha, b, List.mem_cons_of_mem _ hb, hab, hsa, hea, hta⟩
        rw [hrun, hconf]
        rcases ih (some c.qstep) c.text ev hpw.2
            (by intro p hp; simp only [Option.some.injEq] at hp; subst hp; exact ⟨by omega, hpw.1⟩) hlen' with
          ⟨hc, he⟩ | ⟨hc, E, hE, hEl, hE1, hE2⟩
        · left; exact ⟨hc, he⟩
        · right
          refine ⟨hc, E, hE, hEl, hE1, ?_⟩
          intro i hi hlt
          rw [hE2 i hi hlt, chordAt_cons_le (by omega)]
      · by_cases h3 : some c.qstep = ps
        · by_cases h4 : c.text = pf
          · -- identical coincident chord: skipped
            have hrun : chordRun start end_ (c :: cs) ps pf ev = chordRun start end_ cs ps pf ev := by
              simp only [chordRun, chordLoop, h1, h2, h3, h4, ↓reduceIte]
            have hconf : ChordConflict start end_ ps pf (c :: cs) ↔ ChordConflict start end_ ps pf cs := by
              constructor
              · rintro (⟨a, ha, hpa, hsa, hea, hta⟩ | ⟨a, ha, b, hb, hab, hsa, hea, hta⟩)
                · rcases List.mem_cons.mp ha with h | h
                  · subst h; exact absurd h4 hta
                  · left; exact ⟨a, h, hpa, hsa, hea, hta⟩
                · rcases List.mem_cons.mp ha with h | h
                  · subst h
                    rcases List.mem_cons.mp hb with h' | h'
                    · subst h'; exact absurd rfl hta
                    · left; exact ⟨b, h', by rw [← h3, hab], by omega, by omega, by rw [← h4]; exact fun h => hta h.symm⟩
                  · rcases List.mem_cons.mp hb with h' | h'
                    · subst h'
                      left; exact ⟨a, h, by rw [← h3, hab], hsa, hea, by rw [← h4]; exact hta⟩
                    · right; exact ⟨a, h, b, h', hab, hsa, hea, hta⟩
              · rintro (⟨a, ha, hpa, hsa, hea, hta⟩ | ⟨a, ha, b, hb, hab, hsa, hea, hta⟩)
                · left; exact ⟨a, List.mem_cons_of_mem _ ha, hpa, hsa, hea, hta⟩
                · right; exact ⟨a, List.mem_cons_of_mem _ ha, b, List.mem_cons_of_mem _ hb, hab, hsa, hea, hta⟩
            rw [hrun, hconf]
            rcases ih ps pf ev hpw.2
                (by intro p hp; exact ⟨(hps p hp).1, fun a ha => (hps p hp).2 a (List.mem_cons_of_mem _ ha)⟩) hlen with
              ⟨hc, he⟩ | ⟨hc, E, hE, hEl, hE1, hE2⟩
            · left; exact ⟨hc, he⟩
            · right
              refine ⟨hc, E, hE, hEl, hE1, ?_⟩
              intro i hi hlt
              have hcs : c.qstep ≤ start + i := by
                rw [← h3] at hlen; simp only [chordStartIndex] at hlen; omega
              rw [hE2 i hi hlt, chordAt_cons_le hcs, h4]
          · -- two different chords on one step
            left
            refine ⟨Or.inl ⟨c, List.mem_cons_self .., h3.symm, by omega, by omega, h4⟩, ?_⟩
            simp only [chordRun, chordLoop, h1, h2, h3, h4, ↓reduceIte]
        · -- a new chord inside the range
          have hpsc : ∀ p, ps = some p → p < c.qstep := by
            intro p hp
            have := (hps p hp).2 c (List.mem_cons_self ..)
            have : p ≠ c.qstep := fun h => h3 (by rw [hp, h])
            omega
          have hev' : ∃ ev', (if c.qstep > start then
                addChord ev pf (chordStartIndex ps start) (c.qstep - start) else .ok ev) = .ok ev' ∧
              (ev'.length : Int) = c.qstep - start ∧ (∀ i, i < ev.length → ev'[i]? = ev[i]?) ∧
              (∀ i, ev.length ≤ i → i < ev'.length → ev'[i]? = some pf) ∧ ev.length ≤ ev'.length := by
            by_cases h5 : c.qstep > start
            · have hlt : chordStartIndex ps start < c.qstep - start := by
                cases ps with
                | none => simp [chordStartIndex]; omega
                | some p => have := hpsc p rfl; simp only [chordStartIndex]; omega
              refine ⟨_, by rw [if_pos h5]; exact addChord_eq _ _ _ _ hlen hlt, ?_, ?_, ?_, ?_⟩
              · simp only [List.length_append, List.length_replicate]; omega
              · intro i hi; exact List.getElem?_append_left hi
              · intro i hi hlt'
                simp only [List.length_append, List.length_replicate] at hlt'
                rw [List.getElem?_append_right hi, List.getElem?_replicate, if_pos (by omega)]
              · simp
            · have h0 : chordStartIndex ps start = 0 := by
                cases ps with
                | none => rfl
                | some p => have := hpsc p rfl; simp only [chordStartIndex]; omega
              refine ⟨ev, by rw [if_neg h5], by omega, fun _ _ => rfl, ?_, Nat.le_refl _⟩
              intro i hi hlt'; omega
          obtain ⟨ev', hadd, hlen', hpre, hfill, hle⟩ := hev'
          have hrun : chordRun start end_ (c :: cs) ps pf ev = chordRun start end_ cs (some c.qstep) c.text ev' := by
            simp only [chordRun, chordLoop, h1, h2, h3, ↓reduceIte, hadd]
          have hconf : ChordConflict start end_ ps pf (c :: cs) ↔ ChordConflict start end_ (some c.qstep) c.text cs := by
            constructor
            · rintro (⟨a, ha, hpa, hsa, hea, hta⟩ | ⟨a, ha, b, hb, hab, hsa, hea, hta⟩)
              · rcases List.mem_cons.mp ha with h | h
                · subst h; exact absurd hpa.symm h3
                · have := hpsc _ hpa
                  have := hpw.1 a h
                  omega
              · rcases List.mem_cons.mp ha with h | h
                · subst h
                  rcases List.mem_cons.mp hb with h' | h'
                  · subst h'; exact absurd rfl hta
                  · left; exact ⟨b, h', by rw [hab], by omega, by omega, fun h => hta h.symm⟩
                · rcases List.mem_cons.mp hb with h' | h'
                  · subst h'
                    left; exact ⟨a, h, by rw [hab], hsa, hea, hta⟩
                  · right; exact ⟨a, h, b, h', hab, hsa, hea, hta⟩
            · rintro (⟨a, ha, hpa, hsa, hea, hta⟩ | ⟨a, ha, b, hb, hab, hsa, hea, hta⟩)
              · simp only [Option.some.injEq] at hpa
                right
                exact ⟨c, List.mem_cons_self .., a, List.mem_cons_of_mem _ ha, hpa, by omega, by omega, fun h => hta h.symm⟩
              · right; exact ⟨a, List.mem_cons_of_mem _ ha, b, List.mem_cons_of_mem _ hb, hab, hsa, hea, hta⟩
          rw [hrun, hconf]
          rcases ih (some c.qstep) c.text ev' hpw.2
              (by intro p hp; simp only [Option.some.injEq] at hp; subst hp; exact ⟨by omega, hpw.1⟩)
              (by simp only [chordStartIndex]; omega) with
            ⟨hc, he⟩ | ⟨hc, E, hE, hEl, hE1, hE2⟩
          · left; exact ⟨hc, he⟩
          · right
            refine ⟨hc, E, hE, hEl, ?_, ?_⟩
            · intro i hi
              rw [hE1 i (by omega), hpre i hi]
            · intro i hi hlt
              by_cases hi' : i < ev'.length
              · rw [hE1 i hi', hfill i hi hi']
                congr 1
                symm
                apply chordAt_all_gt
                intro a ha
                rcases List.mem_cons.mp ha with h | h
                · subst h; omega
                · have := hpw.1 a h; omega
              · rw [hE2 i (by omega) hlt, chordAt_cons_le (by omega)]


theorem chordLe_iff (a b : TextAnn) : chordLe a b = true ↔ ChordOrd a b := by
  simp only [chordLe, ChordOrd, Bool.or_eq_true, Bool.and_eq_true, decide_eq_true_eq, beq_iff_eq]

theorem chordLe_trans (a b c : TextAnn) (h1 : chordLe a b = true) (h2 : chordLe b c = true) :
    chordLe a c = true := by
  rw [chordLe_iff] at h1 h2 ⊢
  unfold ChordOrd at h1 h2 ⊢
  rcases h1 with h1 | ⟨h1, h1'⟩ <;> rcases h2 with h2 | ⟨h2, h2'⟩
  all_goals first
    | (left; omega)
    | (right; exact ⟨by omega, Rat.le_trans h1' h2'⟩)

theorem chordLe_total (a b : TextAnn) : (chordLe a b || chordLe b a) = true := by
  rw [Bool.or_eq_true, chordLe_iff, chordLe_iff]
  unfold ChordOrd
  by_cases h1 : a.qstep < b.qstep
  · exact Or.inl (Or.inl h1)
  · by_cases h2 : b.qstep < a.qstep
    · exact Or.inr (Or.inl h2)
    · rcases Rat.le_total (a := a.time) (b := b.time) with h | h
      · exact Or.inl (Or.inr ⟨by omega, h⟩)
      · exact Or.inr (Or.inr ⟨by omega, h⟩)

/-- the chord annotations are processed in `(step, time)` order -/
theorem chordAnns_sorted (s : NoteSeq) : (chordAnns s).Pairwise ChordOrd := by
  have := List.pairwise_mergeSort (le := chordLe) chordLe_trans chordLe_total
    (s.texts.filter (fun a => a.kind == Gen.CHORD_SYMBOL))
  exact List.Pairwise.imp (fun h => (chordLe_iff _ _).mp h) this

theorem chordAnns_pairwise (s : NoteSeq) : (chordAnns s).Pairwise (fun a b => a.qstep ≤ b.qstep) := by
  apply List.Pairwise.imp _ (chordAnns_sorted s)
  intro a b h; rcases h with h | h <;> omega

theorem mem_chordAnns {s : NoteSeq} {a : TextAnn} :
    a ∈ chordAnns s ↔ a ∈ s.texts ∧ a.kind = Gen.CHORD_SYMBOL := by
  simp [chordAnns, List.mem_mergeSort, List.mem_filter]

theorem chordConflict_top {s : NoteSeq} {start end_ : Int} :
    ChordConflict start end_ none Gen.NO_CHORD (chordAnns s) ↔ ChordsCoincident s start end_ := by
  constructor
  · rintro (⟨a, _, h, _⟩ | ⟨a, ha, b, hb, h⟩)
    · exact absurd h (by simp)
    · rw [mem_chordAnns] at ha hb
      exact ⟨a, ha.1, b, hb.1, ha.2, hb.2, h⟩
  · rintro ⟨a, ha, b, hb, hka, hkb, h⟩
    exact Or.inr ⟨a, mem_chordAnns.mpr ⟨ha, hka⟩, b, mem_chordAnns.mpr ⟨hb, hkb⟩, h⟩

theorem chords_top (s : NoteSeq) (start end_ spb : Int) (hspb : stepsPerBar s = .ok spb) (hse : start < end_) :
    (ChordsCoincident s start end_ ∧ chordsFromQuantized s start end_ = .error .coincidentChordsError) ∨
    (¬ ChordsCoincident s start end_ ∧ ∃ E, chordsFromQuantized s start end_ = .ok ⟨E, start, end_, spb, s.spq⟩ ∧
      (E.length : Int) = end_ - start ∧
      ∀ i : Nat, (i : Int) < end_ - start → E[i]? = some (chordAt Gen.NO_CHORD (chordAnns s) (start + i))) := by
  have hrun : chordsFromQuantized s start end_ =
      match chordRun start end_ (chordAnns s) none Gen.NO_CHORD [] with
      | .error e => .error e
      | .ok ev' => .ok ⟨ev', start, end_, spb, s.spq⟩ := by
    simp only [chordsFromQuantized, hspb, chordRun]
    cases chordLoop start end_ (chordAnns s) none Gen.NO_CHORD [] with
    | error e => rfl
    | ok r => obtain ⟨ps, pf, ev⟩ := r; rfl
  rw [hrun, ← chordConflict_top]
  rcases chordRun_spec start end_ hse (chordAnns s) none Gen.NO_CHORD []
      (chordAnns_pairwise s) (by intro p hp; exact absurd hp (by simp)) (by simp [chordStartIndex]) with
    ⟨hc, he⟩ | ⟨hc, E, hE, hEl, _, hE2⟩
  · left; exact ⟨hc, by rw [he]⟩
  · right
    refine ⟨hc, E, by rw [hE], hEl, ?_⟩
    intro i hi
    exact hE2 i (by simp) hi


/-! ### note-based performance -/
theorem velocityBinSize_pos {nb : Int} (h : 0 < nb) : 0 < Gen.velocityBinSize nb := by
  have h1 : (-127 : Int).fdiv nb = -127 / nb := Int.fdiv_eq_ediv_of_nonneg _ (by omega)
  have h2 : (-127 : Int) / nb < 0 := Int.ediv_neg_of_neg_of_pos (by omega) h
  simp only [Gen.velocityBinSize, Gen.pyCeilDiv]
  have : (-((127 : Int) - 1 + 1)) = -127 := by omega
  rw [this, h1]; omega

theorem velocityToBin_range {v nb : Int} (hnb : 0 < nb) (hv1 : 1 ≤ v) (hv2 : v ≤ 127) :
    1 ≤ Gen.velocityToBin v nb ∧ Gen.velocityToBin v nb ≤ 127 := by
  have hs := velocityBinSize_pos hnb
  have h1 : (v - 1).fdiv (Gen.velocityBinSize nb) = (v - 1) / Gen.velocityBinSize nb :=
    Int.fdiv_eq_ediv_of_nonneg _ (by omega)
  have h2 : 0 ≤ (v - 1) / Gen.velocityBinSize nb := Int.ediv_nonneg (by omega) (by omega)
  have h3 : (v - 1) / Gen.velocityBinSize nb ≤ v - 1 := Int.ediv_le_self _ (by omega)
  simp only [Gen.velocityToBin, h1]; omega

theorem notePerfLoop_spec (nb ms md : Int) (hnb : 0 < nb) :
    ∀ (l : List Note) (cur : Int),
      (∀ n ∈ l, NPValid n) → (∀ n ∈ l, cur ≤ n.qs) → l.Pairwise (fun a b => a.qs ≤ b.qs) →
      ((∀ i n, l[i]? = some n → n.qs - prevStep cur l i ≤ ms ∧ n.qe - n.qs ≤ md) ∧
        ∃ evs, notePerfLoop nb ms md cur l = .ok evs ∧ evs.length = l.length ∧
          ∀ i n, l[i]? = some n → evs[i]? = some (npTuple nb cur l i n)) ∨
      ((∃ i n, l[i]? = some n ∧ n.qs - prevStep cur l i > ms ∧
          ∀ j m, j < i → l[j]? = some m → m.qs - prevStep cur l j ≤ ms ∧ m.qe - m.qs ≤ md) ∧
        notePerfLoop nb ms md cur l = .error .tooManyTimeShiftStepsError) ∨
      ((∃ i n, l[i]? = some n ∧ n.qs - prevStep cur l i ≤ ms ∧ n.qe - n.qs > md ∧
          ∀ j m, j < i → l[j]? = some m → m.qs - prevStep cur l j ≤ ms ∧ m.qe - m.qs ≤ md) ∧
        notePerfLoop nb ms md cur l = .error .tooManyDurationStepsError) := by
  intro l
  induction l with
  | nil =>
    intro cur _ _ _
    left
    exact ⟨by simp, [], rfl, rfl, by simp⟩
  | cons n ns ih =>
    intro cur hv hge hpw
    rw [List.pairwise_cons] at hpw
    have hvn := hv n (List.mem_cons_self ..)
    obtain ⟨hp1, hp2, hv1, hv2, hd⟩ := hvn
    have hcur := hge n (List.mem_cons_self ..)
    have hbin := velocityToBin_range hnb hv1 hv2
    by_cases h1 : n.qs - cur > ms
    · right; left
      refine ⟨⟨0, n, rfl, by simpa [prevStep] using h1, by intro j m hj; omega⟩, ?_⟩
      simp only [notePerfLoop, h1, ↓reduceIte]
    · by_cases h2 : n.qe - n.qs > md
      · right; right
        refine ⟨⟨0, n, rfl, by simp only [prevStep]; omega, h2, by intro j m hj; omega⟩, ?_⟩
        have e1 : (PEvent.timeShift (n.qs - cur)).valid = true := by simp [PEvent.valid]; omega
        have e2 : (PEvent.noteOn n.pitch).valid = true := by
          simp [PEvent.valid, Gen.MIN_MIDI_PITCH, Gen.MAX_MIDI_PITCH, hp1, hp2]
        have e3 : (PEvent.velocity (Gen.velocityToBin n.velocity nb)).valid = true := by
          simp [PEvent.valid, Gen.MAX_NUM_VELOCITY_BINS, hbin.1, hbin.2]
        simp only [notePerfLoop, h1, ↓reduceIte, e1, e2, e3, not_true_eq_false,
          show ¬ nb = 0 by omega, show ¬ nb < 0 by omega, h2]
      · -- this note is fine; continue from its start step
        have e1 : (PEvent.timeShift (n.qs - cur)).valid = true := by simp [PEvent.valid]; omega
        have e2 : (PEvent.noteOn n.pitch).valid = true := by
          simp [PEvent.valid, Gen.MIN_MIDI_PITCH, Gen.MAX_MIDI_PITCH, hp1, hp2]
        have e3 : (PEvent.velocity (Gen.velocityToBin n.velocity nb)).valid = true := by
          simp [PEvent.valid, Gen.MAX_NUM_VELOCITY_BINS, hbin.1, hbin.2]
        have e4 : (PEvent.duration (n.qe - n.qs)).valid = true := by simp [PEvent.valid]; omega
        have hloop : notePerfLoop nb ms md cur (n :: ns) =
            match notePerfLoop nb ms md n.qs ns with
            | .error x => .error x
            | .ok r => .ok (⟨n.qs - cur, n.pitch, Gen.velocityToBin n.velocity nb, n.qe - n.qs⟩ :: r) := by
          simp only [notePerfLoop, h1, ↓reduceIte, e1, e2, e3, e4, not_true_eq_false,
            show ¬ nb = 0 by omega, show ¬ nb < 0 by omega, h2]
          cases notePerfLoop nb ms md n.qs ns <;> rfl
        have hprev : ∀ i, i < ns.length → prevStep cur (n :: ns) (i + 1) = prevStep n.qs ns i := by
          intro i hi
          cases i with
          | zero => simp [prevStep]
          | succ j =>
            have hj : j < ns.length := by omega
            simp only [prevStep, List.getElem?_cons_succ, List.getElem?_eq_getElem hj]
        have hidx : ∀ {i : Nat} {m : Note}, ns[i]? = some m → i < ns.length := by
          intro i m h
          exact (List.getElem?_eq_some_iff.mp h).1
        rcases ih n.qs (fun m hm => hv m (List.mem_cons_of_mem _ hm)) hpw.1 hpw.2 with
          ⟨hall, evs, hevs, hlen, hspec⟩ | ⟨⟨i, m, him, hgt, hbefore⟩, herr⟩ | ⟨⟨i, m, him, hle, hgt, hbefore⟩, herr⟩
        · left
          refine ⟨?_, _, by rw [hloop, hevs], by simp [hlen], ?_⟩
          · intro i m him
            cases i with
            | zero => simp at him; subst him; simp only [prevStep]; omega
            | succ j =>
              simp only [List.getElem?_cons_succ] at him
              rw [hprev j (hidx him)]
              exact hall j m him
          · intro i m him
            cases i with
            | zero => simp at him; subst him; simp [npTuple, prevStep]
            | succ j =>
              simp only [List.getElem?_cons_succ] at him ⊢
              rw [hspec j m him]
              simp only [npTuple, hprev j (hidx him)]
        · right; left
          refine ⟨⟨i + 1, m, by simpa using him, by rw [hprev i (hidx him)]; exact hgt, ?_⟩, by rw [hloop, herr]⟩
          intro j m' hj hjm
          cases j with
          | zero => simp at hjm; subst hjm; simp only [prevStep]; omega
          | succ k =>
            simp only [List.getElem?_cons_succ] at hjm
            rw [hprev k (hidx hjm)]
            exact hbefore k m' (by omega) hjm
        · right; right
          refine ⟨⟨i + 1, m, by simpa using him, by rw [hprev i (hidx him)]; exact hle, hgt, ?_⟩, by rw [hloop, herr]⟩
          intro j m' hj hjm
          cases j with
          | zero => simp at hjm; subst hjm; simp only [prevStep]; omega
          | succ k =>
            simp only [List.getElem?_cons_succ] at hjm
            rw [hprev k (hidx hjm)]
            exact hbefore k m' (by omega) hjm


/-! ### performance -/
theorem lastVel_append (v : Int) (a b : List PEvent) : lastVel v (a ++ b) = lastVel (lastVel v a) b := by
  induction a generalizing v with
  | nil => rfl
  | cons e r ih => cases e <;> simp only [List.cons_append, lastVel, ih]

theorem onStream_append (c v : Int) (a b : List PEvent) :
    onStream c v (a ++ b) = onStream c v a ++ onStream (c + shiftSum a) (lastVel v a) b := by
  induction a generalizing c v with
  | nil => simp [onStream, shiftSum, lastVel]
  | cons e r ih =>
    cases e with
    | timeShift w =>
      simp only [List.cons_append, onStream, shiftSum, lastVel, ih]
      rw [show c + w + shiftSum r = c + (w + shiftSum r) by omega]
    | noteOn p => simp only [List.cons_append, onStream, shiftSum, lastVel, ih]
    | noteOff p => simp only [List.cons_append, onStream, shiftSum, lastVel, ih]
    | velocity p => simp only [List.cons_append, onStream, shiftSum, lastVel, ih]
    | duration p => simp only [List.cons_append, onStream, shiftSum, lastVel, ih]

theorem shiftSum_append (a b : List PEvent) : shiftSum (a ++ b) = shiftSum a + shiftSum b := by
  induction a with
  | nil => simp [shiftSum]
  | cons e r ih => cases e <;> simp [shiftSum, ih] <;> omega

theorem noteStream_append (c : Int) (a b : List PEvent) :
    noteStream c (a ++ b) = noteStream c a ++ noteStream (c + shiftSum a) b := by
  induction a generalizing c with
  | nil => simp [noteStream, shiftSum]
  | cons e r ih =>
    cases e with
    | timeShift v =>
      simp only [List.cons_append, noteStream, shiftSum, ih]
      rw [show c + v + shiftSum r = c + (v + shiftSum r) by omega]
    | noteOn p => simp only [List.cons_append, noteStream, shiftSum, ih]
    | noteOff p => simp only [List.cons_append, noteStream, shiftSum, ih]
    | velocity p => simp only [List.cons_append, noteStream, shiftSum, ih]
    | duration p => simp only [List.cons_append, noteStream, shiftSum, ih]

theorem shiftLoop_spec (ms : Int) (hms : 1 ≤ ms) :
    ∀ (fuel : Nat) (d : Int), 0 < d → d ≤ fuel →
      (∀ e ∈ shiftLoop ms fuel d, ∃ v, e = .timeShift v ∧ 1 ≤ v ∧ v ≤ ms) ∧
      shiftSum (shiftLoop ms fuel d) = d ∧ ∀ c, noteStream c (shiftLoop ms fuel d) = [] := by
  intro fuel
  induction fuel with
  | zero => intro d h1 h2; omega
  | succ f ih =>
    intro d h1 h2
    unfold shiftLoop
    by_cases hd : d > ms
    · simp only [hd, ↓reduceIte]
      obtain ⟨i1, i2, i3⟩ := ih (d - ms) (by omega) (by omega)
      refine ⟨?_, ?_, ?_⟩
      · intro e he
        rcases List.mem_cons.mp he with h | h
        · exact ⟨ms, h, hms, Int.le_refl _⟩
        · exact i1 e h
      · simp only [shiftSum, i2]; omega
      · intro c; simp only [noteStream, i3]
    · simp only [hd, ↓reduceIte]
      refine ⟨?_, ?_, ?_⟩
      · intro e he
        simp only [List.mem_singleton] at he
        exact ⟨d, he, by omega, by omega⟩
      · simp [shiftSum]
      · intro c; simp [noteStream]

theorem perfShift_spec (ms : Int) (hms : 1 ≤ ms) (st st1 : PState) (step : Int) (hcur : st.cur ≤ step)
    (h : perfShift ms st step = .ok st1) :
    st1.vel = st.vel ∧ st1.cur = step ∧ ∃ sh, st1.out = st.out ++ sh ∧
      (∀ x ∈ sh, ∃ v, x = .timeShift v ∧ 1 ≤ v ∧ v ≤ ms) ∧ shiftSum sh = step - st.cur ∧
      (∀ c, noteStream c sh = []) := by
  unfold perfShift at h
  by_cases hgt : step > st.cur
  · simp only [hgt, ↓reduceIte, show ¬ ms < 0 by omega, show ¬ ms = 0 by omega, Except.ok.injEq] at h
    subst h
    obtain ⟨i1, i2, i3⟩ := shiftLoop_spec ms hms (step - st.cur).toNat (step - st.cur) (by omega) (by omega)
    exact ⟨rfl, rfl, _, rfl, i1, i2, i3⟩
  · simp only [hgt, ↓reduceIte, Except.ok.injEq] at h
    subst h
    exact ⟨rfl, by omega, [], by simp, by simp, by simp only [shiftSum]; omega, fun _ => rfl⟩

theorem mkEvent_ok {x ev : PEvent} (h : mkEvent x = .ok ev) : ev = x := by
  unfold mkEvent at h
  split at h
  · simp only [Except.ok.injEq] at h; exact h.symm
  · exact absurd h (by simp)

theorem perfVelocity_spec (nb : Int) (st st2 : PState) (e : NEv) (h : perfVelocity nb st e = .ok st2) :
    st2.cur = st.cur ∧ ∃ ve, st2.out = st.out ++ ve ∧ (∀ x ∈ ve, ∃ b, x = .velocity b) := by
  unfold perfVelocity at h
  split at h
  · simp only [Except.ok.injEq] at h; subst h; exact ⟨rfl, [], by simp, by simp⟩
  · split at h
    · exact absurd h (by simp)
    · dsimp only at h
      split at h
      · cases hm : mkEvent (PEvent.velocity (Gen.velocityToBin e.note.velocity nb)) with
        | error x => rw [hm] at h; exact absurd h (by simp)
        | ok ev =>
          rw [hm] at h
          simp only [Except.ok.injEq] at h; subst h
          have := mkEvent_ok hm; subst this
          exact ⟨rfl, [_], rfl, by intro x hx; simp only [List.mem_singleton] at hx; exact ⟨_, hx⟩⟩
      · simp only [Except.ok.injEq] at h; subst h; exact ⟨rfl, [], by simp, by simp⟩

theorem perfNote_spec (st st' : PState) (e : NEv) (h : perfNote st e = .ok st') :
    st'.cur = st.cur ∧ st'.out = st.out ++ [e.toPEvent] := by
  unfold perfNote at h
  cases hm : mkEvent (if e.isOff then PEvent.noteOff e.note.pitch else PEvent.noteOn e.note.pitch) with
  | error x => rw [hm] at h; exact absurd h (by simp)
  | ok ev =>
    rw [hm] at h
    simp only [Except.ok.injEq] at h; subst h
    have := mkEvent_ok hm; subst this
    exact ⟨rfl, rfl⟩

theorem shiftSum_velocities {ve : List PEvent} (hve : ∀ x ∈ ve, ∃ b, x = PEvent.velocity b) :
    shiftSum ve = 0 ∧ ∀ c, noteStream c ve = [] := by
  induction ve with
  | nil => exact ⟨rfl, fun _ => rfl⟩
  | cons x r ih =>
    obtain ⟨b, hb⟩ := hve x (List.mem_cons_self ..)
    subst hb
    have := ih (fun y hy => hve y (List.mem_cons_of_mem _ hy))
    exact ⟨by simp only [shiftSum]; exact this.1, fun c => by simp only [noteStream]; exact this.2 c⟩

/-- what one loop iteration appends -/
theorem perfStep_spec (nb ms : Int) (hms : 1 ≤ ms) (st st' : PState) (e : NEv) (hcur : st.cur ≤ e.step)
    (h : perfStep nb ms st e = .ok st') :
    ∃ new, st'.out = st.out ++ new ∧ st'.cur = e.step ∧
      (∀ v, PEvent.timeShift v ∈ new → 1 ≤ v ∧ v ≤ ms) ∧
      shiftSum new = e.step - st.cur ∧
      noteStream st.cur new = [(e.toPEvent, e.step)] := by
  unfold perfStep at h
  cases h1 : perfShift ms st e.step with
  | error x => rw [h1] at h; exact absurd h (by simp [Except.bind])
  | ok st1 =>
    rw [h1] at h
    simp only [Except.bind] at h
    cases h2 : perfVelocity nb st1 e with
    | error x => rw [h2] at h; exact absurd h (by simp)
    | ok st2 =>
      rw [h2] at h
      simp only at h
      obtain ⟨_, hc1, sh, ho1, hsh1, hsh2, hsh3⟩ := perfShift_spec ms hms st st1 e.step hcur h1
      obtain ⟨hc2, ve, ho2, hve⟩ := perfVelocity_spec nb st1 st2 e h2
      obtain ⟨hc3, ho3⟩ := perfNote_spec st2 st' e h
      obtain ⟨hve0, hven⟩ := shiftSum_velocities hve
      have hlast : shiftSum [e.toPEvent] = 0 := by
        unfold NEv.toPEvent; split <;> rfl
      refine ⟨sh ++ ve ++ [e.toPEvent], ?_, ?_, ?_, ?_, ?_⟩
      · rw [ho3, ho2, ho1]; simp only [List.append_assoc]
      · rw [hc3, hc2, hc1]
      · intro v hv
        simp only [List.mem_append, List.mem_singleton] at hv
        rcases hv with (hv | hv) | hv
        · obtain ⟨w, hw, h1, h2⟩ := hsh1 _ hv
          simp only [PEvent.timeShift.injEq] at hw; subst hw; exact ⟨h1, h2⟩
        · obtain ⟨b, hb⟩ := hve _ hv; exact absurd hb (by simp)
        · unfold NEv.toPEvent at hv; split at hv <;> exact absurd hv (by simp)
      · rw [shiftSum_append, shiftSum_append, hsh2, hve0, hlast]; omega
      · rw [List.append_assoc, noteStream_append, hsh3, noteStream_append, hven, hsh2]
        have : st.cur + (e.step - st.cur) = e.step := by omega
        simp only [List.nil_append, this, hve0, Int.add_zero]
        unfold NEv.toPEvent; split <;> simp [noteStream]


theorem perfLoop_spec (nb ms : Int) (hms : 1 ≤ ms) :
    ∀ (es : List NEv) (st st' : PState),
      es.Pairwise (fun a b => a.step ≤ b.step) → (∀ e ∈ es, st.cur ≤ e.step) →
      perfLoop nb ms st es = .ok st' →
      ∃ new, st'.out = st.out ++ new ∧
        (∀ v, PEvent.timeShift v ∈ new → 1 ≤ v ∧ v ≤ ms) ∧
        noteStream st.cur new = es.map (fun e => (e.toPEvent, e.step)) ∧
        st'.cur = st.cur + shiftSum new ∧
        (∀ e ∈ es, e.step ≤ st'.cur) ∧ (es = [] ∨ ∃ e ∈ es, e.step = st'.cur) := by
  intro es
  induction es with
  | nil =>
    intro st st' _ _ h
    simp only [perfLoop, Except.ok.injEq] at h; subst h
    exact ⟨[], by simp, by simp, rfl, by simp [shiftSum], by simp, Or.inl rfl⟩
  | cons e es ih =>
    intro st st' hpw hge h
    rw [List.pairwise_cons] at hpw
    unfold perfLoop at h
    cases h1 : perfStep nb ms st e with
    | error x => rw [h1] at h; exact absurd h (by simp)
    | ok st1 =>
      rw [h1] at h
      simp only at h
      obtain ⟨new1, ho1, hc1, hs1, hsum1, hns1⟩ :=
        perfStep_spec nb ms hms st st1 e (hge e (List.mem_cons_self ..)) h1
      obtain ⟨new2, ho2, hs2, hns2, hc2, hle2, hlast2⟩ :=
        ih st1 st' hpw.2 (by intro x hx; rw [hc1]; exact hpw.1 x hx) h
      refine ⟨new1 ++ new2, by rw [ho2, ho1, List.append_assoc], ?_, ?_, ?_, ?_, ?_⟩
      · intro v hv
        rcases List.mem_append.mp hv with hv | hv
        · exact hs1 v hv
        · exact hs2 v hv
      · rw [noteStream_append, hns1, hsum1]
        have : st.cur + (e.step - st.cur) = e.step := by omega
        rw [this, ← hc1, hns2, hc1]; rfl
      · rw [hc2, hc1, shiftSum_append, hsum1]; omega
      · intro x hx
        rcases List.mem_cons.mp hx with hx | hx
        · subst hx
          rcases hlast2 with h0 | ⟨y, hy, hys⟩
          · subst h0
            simp only [perfLoop, Except.ok.injEq] at h; subst h; omega
          · have := hpw.1 y hy; omega
        · exact hle2 x hx
      · right
        rcases hlast2 with h0 | ⟨y, hy, hys⟩
        · subst h0
          simp only [perfLoop, Except.ok.injEq] at h; subst h
          exact ⟨e, List.mem_cons_self .., hc1.symm⟩
        · exact ⟨y, List.mem_cons_of_mem _ hy, hys⟩

theorem nevLe_trans (a b c : NEv) (h1 : nevLe a b = true) (h2 : nevLe b c = true) : nevLe a c = true := by
  simp only [nevLe, Bool.or_eq_true, Bool.and_eq_true, decide_eq_true_eq, beq_iff_eq,
    Bool.not_eq_true'] at h1 h2 ⊢
  cases ha : a.isOff <;> cases hb : b.isOff <;> cases hc : c.isOff <;> simp [ha, hb, hc] at h1 h2 ⊢ <;> omega

theorem nevLe_total (a b : NEv) : (nevLe a b || nevLe b a) = true := by
  simp only [nevLe, Bool.or_eq_true, Bool.and_eq_true, decide_eq_true_eq, beq_iff_eq,
    Bool.not_eq_true']
  cases ha : a.isOff <;> cases hb : b.isOff <;> simp <;> omega

theorem noteEvents_sorted (l : List Note) : (noteEvents l).Pairwise (fun a b => a.step ≤ b.step) := by
  have := List.pairwise_mergeSort (le := nevLe) nevLe_trans nevLe_total (onsets l ++ offsets l)
  apply List.Pairwise.imp _ this
  intro a b h
  simp only [nevLe, Bool.or_eq_true, Bool.and_eq_true, decide_eq_true_eq, beq_iff_eq] at h
  omega

theorem mem_noteEvents {l : List Note} {e : NEv} (h : e ∈ noteEvents l) :
    e.note ∈ l ∧ (e.step = e.note.qs ∨ e.step = e.note.qe) := by
  simp only [noteEvents, List.mem_mergeSort, List.mem_append, onsets, offsets, List.mem_map] at h
  rcases h with ⟨⟨n, i⟩, hm, rfl⟩ | ⟨⟨n, i⟩, hm, rfl⟩
  · exact ⟨(List.mem_zipIdx hm).2.2 ▸ List.getElem_mem _, Or.inl rfl⟩
  · exact ⟨(List.mem_zipIdx hm).2.2 ▸ List.getElem_mem _, Or.inr rfl⟩


theorem only_shifts {sh : List PEvent} (h : ∀ x ∈ sh, ∃ v, x = PEvent.timeShift v) (c w : Int) :
    onStream c w sh = [] ∧ lastVel w sh = w := by
  induction sh generalizing c with
  | nil => exact ⟨rfl, rfl⟩
  | cons x r ih =>
    obtain ⟨v, hv⟩ := h x (List.mem_cons_self ..)
    subst hv
    simp only [onStream, lastVel]
    exact ih (fun y hy => h y (List.mem_cons_of_mem _ hy)) _

theorem only_velocities {ve : List PEvent} (h : ∀ x ∈ ve, ∃ b, x = PEvent.velocity b) (c w : Int) :
    onStream c w ve = [] := by
  induction ve generalizing w with
  | nil => rfl
  | cons x r ih =>
    obtain ⟨v, hv⟩ := h x (List.mem_cons_self ..)
    subst hv
    simp only [onStream]
    exact ih (fun y hy => h y (List.mem_cons_of_mem _ hy)) _

/-- velocity bookkeeping of one `perfVelocity` call -/
theorem perfVelocity_vel (nb : Int) (st st2 : PState) (e : NEv) (h : perfVelocity nb st e = .ok st2) :
    ∃ ve, st2.out = st.out ++ ve ∧ (∀ x ∈ ve, ∃ b, x = PEvent.velocity b) ∧ st2.vel = lastVel st.vel ve ∧
      (nb = 0 → st2.vel = st.vel) ∧ (nb ≠ 0 → e.isOff = false → st2.vel = Gen.velocityToBin e.note.velocity nb) := by
  unfold perfVelocity at h
  split at h
  · rename_i h0
    simp only [Except.ok.injEq] at h; subst h
    exact ⟨[], by simp, by simp, rfl, fun _ => rfl, fun h => absurd h0 h⟩
  · split at h
    · exact absurd h (by simp)
    · dsimp only at h
      split at h
      · rename_i h0 _ hc
        cases hm : mkEvent (PEvent.velocity (Gen.velocityToBin e.note.velocity nb)) with
        | error x => rw [hm] at h; exact absurd h (by simp)
        | ok ev =>
          rw [hm] at h
          simp only [Except.ok.injEq] at h; subst h
          have := mkEvent_ok hm; subst this
          exact ⟨[_], rfl, by intro x hx; simp only [List.mem_singleton] at hx; exact ⟨_, hx⟩, rfl,
            fun h => absurd h h0, fun _ _ => rfl⟩
      · rename_i h0 _ hc
        simp only [Except.ok.injEq] at h; subst h
        refine ⟨[], by simp, by simp, rfl, fun h => absurd h h0, ?_⟩
        intro _ hoff
        simp only [hoff, Bool.not_false, Bool.true_and, decide_eq_true_eq, ne_eq, Decidable.not_not] at hc
        exact hc.symm

theorem perfNote_vel (st st' : PState) (e : NEv) (h : perfNote st e = .ok st') : st'.vel = st.vel := by
  unfold perfNote at h
  cases hm : mkEvent (if e.isOff then PEvent.noteOff e.note.pitch else PEvent.noteOn e.note.pitch) with
  | error x => rw [hm] at h; exact absurd h (by simp)
  | ok ev => rw [hm] at h; simp only [Except.ok.injEq] at h; subst h; rfl

theorem perfStep_on (nb ms : Int) (hms : 1 ≤ ms) (st st' : PState) (e : NEv) (hcur : st.cur ≤ e.step)
    (hv0 : nb = 0 → st.vel = 0)
    (h : perfStep nb ms st e = .ok st') :
    ∃ new, st'.out = st.out ++ new ∧ st'.vel = lastVel st.vel new ∧ (nb = 0 → st'.vel = 0) ∧
      onStream st.cur st.vel new =
        if e.isOff then [] else [(e.note.pitch, e.step, binOf nb 0 e.note)] := by
  unfold perfStep at h
  cases h1 : perfShift ms st e.step with
  | error x => rw [h1] at h; exact absurd h (by simp [Except.bind])
  | ok st1 =>
    rw [h1] at h
    simp only [Except.bind] at h
    cases h2 : perfVelocity nb st1 e with
    | error x => rw [h2] at h; exact absurd h (by simp)
    | ok st2 =>
      rw [h2] at h
      simp only at h
      obtain ⟨hvel1, hc1, sh, ho1, hsh1, hsh2, _⟩ := perfShift_spec ms hms st st1 e.step hcur h1
      obtain ⟨ve, ho2, hve, hvel2, hvz, hvb⟩ := perfVelocity_vel nb st1 st2 e h2
      obtain ⟨_, ho3⟩ := perfNote_spec st2 st' e h
      have hvel3 := perfNote_vel st2 st' e h
      obtain ⟨hsh_on, hsh_vel⟩ := only_shifts (fun x hx => let ⟨v, hv, _⟩ := hsh1 x hx; ⟨v, hv⟩) st.cur st.vel
      obtain ⟨hve0, _⟩ := shiftSum_velocities hve
      refine ⟨sh ++ ve ++ [e.toPEvent], by rw [ho3, ho2, ho1]; simp only [List.append_assoc], ?_, ?_, ?_⟩
      · rw [lastVel_append, lastVel_append, hsh_vel, hvel3, hvel2, hvel1]
        unfold NEv.toPEvent; split <;> rfl
      · intro h0; rw [hvel3, hvz h0, hvel1]; exact hv0 h0
      · rw [List.append_assoc, onStream_append, hsh_on, hsh_vel, onStream_append,
          only_velocities hve, hsh2, hve0]
        have : st.cur + (e.step - st.cur) + 0 = e.step := by omega
        simp only [List.nil_append, this]
        rw [← hvel1, ← hvel2]
        unfold NEv.toPEvent
        cases hoff : e.isOff with
        | true => simp [onStream]
        | false =>
          simp only [Bool.false_eq_true, ↓reduceIte, onStream, binOf]
          by_cases h0 : nb = 0
          · simp only [h0, ↓reduceIte]; rw [hvz h0, hvel1, hv0 h0]
          · simp only [h0, ↓reduceIte]; rw [hvb h0 hoff]

theorem perfLoop_on (nb ms : Int) (hms : 1 ≤ ms) :
    ∀ (es : List NEv) (st st' : PState),
      es.Pairwise (fun a b => a.step ≤ b.step) → (∀ e ∈ es, st.cur ≤ e.step) → (nb = 0 → st.vel = 0) →
      perfLoop nb ms st es = .ok st' →
      ∃ new, st'.out = st.out ++ new ∧ st'.vel = lastVel st.vel new ∧
        onStream st.cur st.vel new =
          (es.filter (fun e => !e.isOff)).map (fun e => (e.note.pitch, e.step, binOf nb 0 e.note)) := by
  intro es
  induction es with
  | nil =>
    intro st st' _ _ _ h
    simp only [perfLoop, Except.ok.injEq] at h; subst h
    exact ⟨[], by simp, rfl, rfl⟩
  | cons e es ih =>
    intro st st' hpw hge hv0 h
    rw [List.pairwise_cons] at hpw
    unfold perfLoop at h
    cases h1 : perfStep nb ms st e with
    | error x => rw [h1] at h; exact absurd h (by simp)
    | ok st1 =>
      rw [h1] at h
      simp only at h
      have hcur := hge e (List.mem_cons_self ..)
      obtain ⟨new1, ho1, hc1, _, hsum1, _⟩ := perfStep_spec nb ms hms st st1 e hcur h1
      obtain ⟨new1', ho1', hvel1, hvz1, hon1⟩ := perfStep_on nb ms hms st st1 e hcur hv0 h1
      have hnew : new1' = new1 := by
        have := ho1'.symm.trans ho1
        exact List.append_cancel_left this
      subst hnew
      obtain ⟨new2, ho2, hvel2, hon2⟩ :=
        ih st1 st' hpw.2 (by intro x hx; rw [hc1]; exact hpw.1 x hx) hvz1 h
      refine ⟨new1' ++ new2, by rw [ho2, ho1, List.append_assoc], by rw [lastVel_append, ← hvel1, hvel2], ?_⟩
      rw [onStream_append, hon1, hsum1, ← hvel1]
      have : st.cur + (e.step - st.cur) = e.step := by omega
      rw [this, ← hc1, hon2]
      cases hoff : e.isOff <;> simp [hoff, hc1]



theorem mem_sortedNotes {s : NoteSeq} {start : Int} {inst : Option Int} {n : Note} :
    n ∈ sortedNotes s start inst ↔ n ∈ s.notes ∧ start ≤ n.qs ∧ instOk inst n = true := by
  simp [sortedNotes, selectNotes, List.mem_mergeSort, List.mem_filter]


theorem onsets_map {β} (l : List Note) (g : NEv → β) (f : Note → β)
    (h : ∀ n i, g ⟨n.qs, i, false, n⟩ = f n) : (onsets l).map g = l.map f := by
  have : (onsets l).map g = (l.zipIdx.map Prod.fst).map f := by
    simp only [onsets, List.map_map]
    apply List.map_congr_left
    rintro ⟨n, i⟩ _
    exact h n i
  rw [this, List.zipIdx_map_fst]

theorem offsets_map {β} (l : List Note) (g : NEv → β) (f : Note → β)
    (h : ∀ n i, g ⟨n.qe, i, true, n⟩ = f n) : (offsets l).map g = l.map f := by
  have : (offsets l).map g = (l.zipIdx.map Prod.fst).map f := by
    simp only [offsets, List.map_map]
    apply List.map_congr_left
    rintro ⟨n, i⟩ _
    exact h n i
  rw [this, List.zipIdx_map_fst]

theorem filter_on_noteEvents (l : List Note) :
    ((noteEvents l).filter (fun e => !e.isOff)).Perm (onsets l) := by
  have h1 : ((onsets l ++ offsets l).filter (fun e => !e.isOff)) = onsets l := by
    rw [List.filter_append]
    have a : (onsets l).filter (fun e => !e.isOff) = onsets l := by
      rw [List.filter_eq_self]; intro e he
      simp only [onsets, List.mem_map] at he
      obtain ⟨⟨n, i⟩, _, rfl⟩ := he; rfl
    have b : (offsets l).filter (fun e => !e.isOff) = [] := by
      rw [List.filter_eq_nil_iff]; intro e he
      simp only [offsets, List.mem_map] at he
      obtain ⟨⟨n, i⟩, _, rfl⟩ := he; simp
    rw [a, b, List.append_nil]
  have := (List.mergeSort_perm (onsets l ++ offsets l) nevLe).filter (fun e => !e.isOff)
  rw [h1] at this
  exact this



/-! ### bar length, error origins, definedness -/
theorem rat_isInt_iff (a b : Int) (hb : b ≠ 0) : ((a : Rat) / (b : Rat)).den = 1 ↔ b ∣ a := by
  have hb' : (b : Rat) ≠ 0 := by exact_mod_cast hb
  constructor
  · intro h
    have h1 : (a : Rat) / (b : Rat) = (((a : Rat) / (b : Rat)).num : Rat) := Rat.ext rfl h
    have h2 : (a : Rat) = ((((a : Rat) / (b : Rat)).num : Int) : Rat) * (b : Rat) := by grind
    have h3 : a = ((a : Rat) / (b : Rat)).num * b := by exact_mod_cast h2
    exact ⟨_, by rw [Int.mul_comm] at h3; exact h3⟩
  · rintro ⟨k, hk⟩
    have : (a : Rat) / (b : Rat) = (k : Rat) := by
      have : (a : Rat) = (b : Rat) * (k : Rat) := by exact_mod_cast hk
      grind
    rw [this]; exact Rat.den_intCast k

theorem addChord_error {ev : List String} {pf : String} {si ei : Int} {e : XErr}
    (h : addChord ev pf si ei = .error e) : e = .badChordError := by
  unfold addChord at h
  split at h
  · simp only [Except.error.injEq] at h; exact h.symm
  · exact absurd h (by simp)

theorem chordLoop_error (start end_ : Int) :
    ∀ (cs : List TextAnn) (ps : Option Int) (pf : String) (ev : List String) (e : XErr),
      chordLoop start end_ cs ps pf ev = .error e → e = .coincidentChordsError ∨ e = .badChordError := by
  intro cs
  induction cs with
  | nil => intro ps pf ev e h; simp [chordLoop] at h
  | cons c cs ih =>
    intro ps pf ev e h
    unfold chordLoop at h
    split at h
    · exact absurd h (by simp)
    · split at h
      · exact ih _ _ _ _ h
      · split at h
        · split at h
          · exact ih _ _ _ _ h
          · simp only [Except.error.injEq] at h; exact Or.inl h.symm
        · dsimp only at h
          split at h
          · rename_i e' he'
            simp only [Except.error.injEq] at h; subst h
            split at he'
            · exact Or.inr (addChord_error he')
            · exact absurd he' (by simp)
          · exact ih _ _ _ _ h

theorem addNote_error {ev : List Int} {p si ei : Int} {e : XErr}
    (h : addNote ev p si ei = .error e) : e = .badNoteError := by
  unfold addNote at h
  split at h
  · simp only [Except.error.injEq] at h; exact h.symm
  · exact absurd h (by simp)

theorem melLoop_error (fd ip : Bool) (gap mstart : Int) :
    ∀ (ns : List Note) (ev : List Int) (e : XErr),
      melLoop fd ip gap mstart ns ev = .error e →
        e = .badNoteError ∨ e = .valueError ∨ e = .polyphonicMelodyError := by
  intro ns
  induction ns with
  | nil => intro ev e h; simp [melLoop] at h
  | cons n ns ih =>
    intro ev e h
    unfold melLoop at h
    split at h
    · exact ih _ _ h
    · split at h
      · exact ih _ _ h
      · dsimp only at h
        split at h
        · split at h
          · rename_i e' he'
            simp only [Except.error.injEq] at h; subst h
            exact Or.inl (addNote_error he')
          · exact ih _ _ h
        · split at h
          · simp only [Except.error.injEq] at h; exact Or.inr (Or.inl h.symm)
          · split at h
            · split at h
              · exact ih _ _ h
              · simp only [Except.error.injEq] at h; exact Or.inr (Or.inr h.symm)
            · split at h
              · simp only [Except.error.injEq] at h; exact Or.inr (Or.inr h.symm)
              · split at h
                · exact absurd h (by simp)
                · split at h
                  · rename_i e' he'
                    simp only [Except.error.injEq] at h; subst h
                    exact Or.inl (addNote_error he')
                  · exact ih _ _ h

theorem perfStep_defined (nb ms : Int) (hms : 1 ≤ ms) (hnb : 0 ≤ nb) (st : PState) (e : NEv)
    (hp : 0 ≤ e.note.pitch ∧ e.note.pitch ≤ 127)
    (hv : nb ≠ 0 → 1 ≤ e.note.velocity ∧ e.note.velocity ≤ 127) :
    ∃ st', perfStep nb ms st e = .ok st' := by
  have h1 : ∃ st1, perfShift ms st e.step = .ok st1 := by
    unfold perfShift
    by_cases hgt : e.step > st.cur
    · simp only [hgt, ↓reduceIte, show ¬ ms < 0 by omega, show ¬ ms = 0 by omega]
      exact ⟨_, rfl⟩
    · exact ⟨st, by simp only [hgt, ↓reduceIte]⟩
  obtain ⟨st1, h1⟩ := h1
  have h2 : ∃ st2, perfVelocity nb st1 e = .ok st2 := by
    unfold perfVelocity
    by_cases h0 : nb = 0
    · exact ⟨st1, by simp only [h0, ↓reduceIte]⟩
    · have hb := velocityToBin_range (show 0 < nb by omega) (hv h0).1 (hv h0).2
      have hval : (PEvent.velocity (Gen.velocityToBin e.note.velocity nb)).valid = true := by
        simp [PEvent.valid, Gen.MAX_NUM_VELOCITY_BINS, hb.1, hb.2]
      simp only [h0, ↓reduceIte, show ¬ nb < 0 by omega, mkEvent, hval]
      split
      · exact ⟨_, rfl⟩
      · exact ⟨_, rfl⟩
  obtain ⟨st2, h2⟩ := h2
  have h3 : ∃ st3, perfNote st2 e = .ok st3 := by
    unfold perfNote mkEvent
    have hval : (if e.isOff then PEvent.noteOff e.note.pitch else PEvent.noteOn e.note.pitch).valid = true := by
      split <;> simp [PEvent.valid, Gen.MIN_MIDI_PITCH, Gen.MAX_MIDI_PITCH, hp.1, hp.2]
    simp only [hval, ↓reduceIte]
    exact ⟨_, rfl⟩
  obtain ⟨st3, h3⟩ := h3
  exact ⟨st3, by simp only [perfStep, h1, Except.bind, h2, h3]⟩

theorem perfLoop_defined (nb ms : Int) (hms : 1 ≤ ms) (hnb : 0 ≤ nb) :
    ∀ (es : List NEv) (st : PState),
      (∀ e ∈ es, (0 ≤ e.note.pitch ∧ e.note.pitch ≤ 127) ∧
        (nb ≠ 0 → 1 ≤ e.note.velocity ∧ e.note.velocity ≤ 127)) →
      ∃ st', perfLoop nb ms st es = .ok st' := by
  intro es
  induction es with
  | nil => intro st _; exact ⟨st, rfl⟩
  | cons e es ih =>
    intro st h
    obtain ⟨st1, h1⟩ := perfStep_defined nb ms hms hnb st e (h e (List.mem_cons_self ..)).1
      (h e (List.mem_cons_self ..)).2
    obtain ⟨st', h'⟩ := ih st1 (fun x hx => h x (List.mem_cons_of_mem _ hx))
    exact ⟨st', by simp only [perfLoop, h1, h']⟩



/-! ### melody -/
/-- the shape `_add_note` leaves behind: events before the note, its pitch, NO_EVENTs, its NOTE_OFF -/
def noteTail (p : Int) (m : Nat) : List Int :=
  p :: (List.replicate m Gen.MELODY_NO_EVENT ++ [Gen.MELODY_NOTE_OFF])

theorem no_event_ne_note_off : Gen.MELODY_NO_EVENT ≠ Gen.MELODY_NOTE_OFF := by decide
theorem no_event_lt_min : ¬ Gen.MELODY_NO_EVENT ≥ Gen.MIN_MIDI_PITCH := by decide
theorem note_off_lt_min : ¬ Gen.MELODY_NOTE_OFF ≥ Gen.MIN_MIDI_PITCH := by decide
theorem pitch_facts {p : Int} (hp : 0 ≤ p) :
    p ≥ Gen.MIN_MIDI_PITCH ∧ p ≠ Gen.MELODY_NOTE_OFF ∧ p ≠ Gen.MELODY_NO_EVENT := by
  simp only [Gen.MIN_MIDI_PITCH, Gen.MELODY_NOTE_OFF, Gen.MELODY_NO_EVENT]; omega

theorem sustained_replicate_append (m : Nat) (r : List Int) :
    sustained (List.replicate m Gen.MELODY_NO_EVENT ++ r) = sustained r := by
  induction m with
  | zero => rfl
  | succ m ih =>
    rw [List.replicate_succ, List.cons_append]
    rw [sustained, if_neg no_event_ne_note_off, if_neg (by simp)]
    exact ih

theorem reverse_noteTail (A : List Int) (p : Int) (m : Nat) :
    (A ++ noteTail p m).reverse =
      Gen.MELODY_NOTE_OFF :: (List.replicate m Gen.MELODY_NO_EVENT ++ p :: A.reverse) := by
  simp [noteTail, List.reverse_append, List.reverse_replicate]

theorem melSetLength_noteTail (A : List Int) (p : Int) (m n : Nat) :
    melSetLength (A ++ noteTail p m) n = setLength Gen.MELODY_NO_EVENT (A ++ noteTail p m) n := by
  unfold melSetLength
  rw [reverse_noteTail]
  simp [sustained]

theorem melSetLength_nil (n : Nat) : melSetLength [] n = setLength Gen.MELODY_NO_EVENT [] n := by
  simp [melSetLength, sustained]

theorem lastOnOffRev_replicate (m : Nat) (p : Int) (hp : 0 ≤ p) (B : List Int) (lo : Nat) :
    lastOnOffRev (List.replicate m Gen.MELODY_NO_EVENT ++ p :: B) lo = some (B.length, lo) := by
  obtain ⟨hp1, hp2, _⟩ := pitch_facts hp
  induction m with
  | zero =>
    simp only [List.replicate_zero, List.nil_append, lastOnOffRev]
    rw [if_neg hp2, if_pos hp1]
  | succ m ih =>
    rw [List.replicate_succ, List.cons_append]
    unfold lastOnOffRev
    simp only
    rw [if_neg no_event_ne_note_off, if_neg no_event_lt_min]
    exact ih

theorem lastOnOff_noteTail (A : List Int) (p : Int) (m : Nat) (hp : 0 ≤ p) :
    lastOnOff (A ++ noteTail p m) = some (A.length, A.length + m + 1) := by
  unfold lastOnOff
  rw [reverse_noteTail]
  unfold lastOnOffRev
  simp only [↓reduceIte]
  rw [if_neg note_off_lt_min, lastOnOffRev_replicate m p hp]
  simp only [List.length_append, List.length_replicate, List.length_cons, List.length_reverse]
  congr 2
  omega

theorem length_noteTail (p : Int) (m : Nat) : (noteTail p m).length = m + 2 := by
  simp [noteTail]

/-- `_add_note` on an event list that is empty or ends with a NOTE_OFF -/
theorem addNote_form (ev : List Int) (hev : ev = [] ∨ ∃ A p m, ev = A ++ noteTail p m)
    (pitch si ei : Int) (hsi : 0 ≤ si) (hlt : si < ei) :
    ∃ A', addNote ev pitch si ei = .ok (A' ++ noteTail pitch (ei - si - 1).toNat) ∧
      (A'.length : Int) = si ∧
      ∀ i, i < A'.length → A'[i]? = some (if h : i < ev.length then ev[i] else Gen.MELODY_NO_EVENT) := by
  have hset : melSetLength ev (ei + 1).toNat = setLength Gen.MELODY_NO_EVENT ev (ei + 1).toNat := by
    rcases hev with h | ⟨A, p, m, h⟩
    · subst h; exact melSetLength_nil _
    · subst h; exact melSetLength_noteTail _ _ _ _
  refine ⟨(setLength Gen.MELODY_NO_EVENT ev (ei + 1).toNat).take si.toNat, ?_, ?_, ?_⟩
  · unfold addNote
    rw [if_neg (by omega), hset]
    have : ei.toNat - si.toNat - 1 = (ei - si - 1).toNat := by omega
    rw [this]; rfl
  · rw [List.length_take, length_setLength]; omega
  · intro i hi
    rw [List.length_take, length_setLength] at hi
    rw [List.getElem?_take_of_lt (by omega), getElem?_setLength _ _ _ _ (by omega)]


/-! melRule on `K ++ [n]` where every onset in `K` precedes `n`'s -/
theorem melRule_before (K : List Note) (n : Note) (t : Int) (ht : t < n.qs) :
    melRule (K ++ [n]) t = melRule K t := by
  have h1 : ([n].find? fun k => k.qs == t) = none := by
    rw [List.find?_singleton, if_neg]; simp; omega
  have h2 : ([n].filter fun k => decide (k.qs < t)) = [] := by
    rw [List.filter_eq_nil_iff]; intro a ha; simp only [List.mem_singleton] at ha; subst ha; simp; omega
  simp only [melRule, List.find?_append, h1, Option.or_none, List.filter_append, h2, List.append_nil]

theorem melRule_at (K : List Note) (n : Note) (hK : ∀ x ∈ K, x.qs < n.qs) :
    melRule (K ++ [n]) n.qs = n.pitch := by
  have h1 : (K.find? fun k => k.qs == n.qs) = none := by
    rw [List.find?_eq_none]; intro x hx; have := hK x hx; simp; omega
  simp [melRule, List.find?_append, h1]

theorem melRule_after (K : List Note) (n : Note) (t : Int) (hK : ∀ x ∈ K, x.qs < n.qs) (ht : n.qs < t) :
    melRule (K ++ [n]) t = if n.qe = t then Gen.MELODY_NOTE_OFF else Gen.MELODY_NO_EVENT := by
  have h1 : ((K ++ [n]).find? fun k => k.qs == t) = none := by
    rw [List.find?_eq_none]; intro x hx
    rcases List.mem_append.mp hx with h | h
    · have := hK x h; simp; omega
    · simp only [List.mem_singleton] at h; subst h; simp; omega
  have h2 : ((K ++ [n]).filter fun k => decide (k.qs < t)) = K ++ [n] := by
    rw [List.filter_eq_self]; intro x hx
    rcases List.mem_append.mp hx with h | h
    · have := hK x h; simp; omega
    · simp only [List.mem_singleton] at h; subst h; simp; omega
  simp only [melRule, h1, h2, List.getLast?_concat]

/-- an event list of the `_add_note` shape follows the per-step rule at *every* index (NO_EVENT beyond its end) -/
theorem melEvents_rule (mstart : Int) (K0 : List Note) (k : Note) (A : List Int)
    (hk : k.qs < k.qe) (hK0 : ∀ x ∈ K0, x.qs < k.qs) (hA : (A.length : Int) = k.qs - mstart)
    (hrule : ∀ i, i < A.length → A[i]? = some (melRule (K0 ++ [k]) (mstart + i))) (i : Nat) :
    (A ++ noteTail k.pitch (k.qe - k.qs - 1).toNat)[i]?.getD Gen.MELODY_NO_EVENT =
      melRule (K0 ++ [k]) (mstart + i) := by
  by_cases h1 : i < A.length
  · rw [List.getElem?_append_left h1, hrule i h1]; rfl
  · rw [List.getElem?_append_right (by omega)]
    by_cases h2 : i = A.length
    · subst h2
      have : mstart + (A.length : Int) = k.qs := by omega
      rw [this, melRule_at K0 k hK0]
      simp [noteTail]
    · rw [melRule_after K0 k _ hK0 (by omega)]
      obtain ⟨j, hj⟩ : ∃ j, i - A.length = j + 1 := ⟨i - A.length - 1, by omega⟩
      rw [hj]
      simp only [noteTail, List.getElem?_cons_succ]
      by_cases h3 : j < (k.qe - k.qs - 1).toNat
      · rw [List.getElem?_append_left (by simp only [List.length_replicate]; exact h3), List.getElem?_replicate, if_pos h3, if_neg (by omega)]
        rfl
      · rw [List.getElem?_append_right (by simp only [List.length_replicate]; omega)]
        simp only [List.length_replicate]
        by_cases h4 : j = (k.qe - k.qs - 1).toNat
        · rw [h4, Nat.sub_self, if_pos (by omega)]; rfl
        · rw [if_neg (by omega)]
          have : j - (k.qe - k.qs - 1).toNat ≠ 0 := by omega
          obtain ⟨q, hq⟩ : ∃ q, j - (k.qe - k.qs - 1).toNat = q + 1 := ⟨j - (k.qe - k.qs - 1).toNat - 1, by omega⟩
          rw [hq]; rfl


theorem melLoop_spec (fd ip : Bool) (gap mstart : Int) :
    ∀ (ns : List Note) (K0 : List Note) (k : Note) (A : List Int),
      (∀ n ∈ ns, (fd && n.isDrum) = false ∧ n.velocity ≠ 0) →
      (∀ n ∈ ns, n.qs < n.qe ∧ 0 ≤ n.pitch) →
      (k.qs < k.qe ∧ 0 ≤ k.pitch) →
      (k :: ns).Pairwise (fun a b => a.qs ≤ b.qs) →
      (∀ x ∈ K0, x.qs < k.qs) →
      (A.length : Int) = k.qs - mstart →
      (∀ i, i < A.length → A[i]? = some (melRule (K0 ++ [k]) (mstart + i))) →
      if (!ip && dupFrom gap k ns) = true then
        melLoop fd ip gap mstart ns (A ++ noteTail k.pitch (k.qe - k.qs - 1).toNat) =
          .error .polyphonicMelodyError
      else
        ∃ A' k' K0', K0' ++ [k'] = K0 ++ k :: keptFrom gap k ns ∧
          melLoop fd ip gap mstart ns (A ++ noteTail k.pitch (k.qe - k.qs - 1).toNat) =
            .ok (A' ++ noteTail k'.pitch (k'.qe - k'.qs - 1).toNat) ∧
          (k'.qs < k'.qe ∧ 0 ≤ k'.pitch) ∧ (∀ x ∈ K0', x.qs < k'.qs) ∧
          (A'.length : Int) = k'.qs - mstart ∧
          (∀ i, i < A'.length → A'[i]? = some (melRule (K0' ++ [k']) (mstart + i))) := by
  intro ns
  induction ns with
  | nil =>
    intro K0 k A _ _ hk _ hK0 hA hrule
    simp only [dupFrom, Bool.and_false, Bool.false_eq_true, ↓reduceIte]
    exact ⟨A, k, K0, by simp [keptFrom], by simp [melLoop], hk, hK0, hA, hrule⟩
  | cons n ns ih =>
    intro K0 k A hsel hval hk hsorted hK0 hA hrule
    rw [List.pairwise_cons] at hsorted
    have hn_sel := hsel n (List.mem_cons_self ..)
    have hn_val := hval n (List.mem_cons_self ..)
    have hkn : k.qs ≤ n.qs := hsorted.1 n (List.mem_cons_self ..)
    have hsel' : ∀ x ∈ ns, (fd && x.isDrum) = false ∧ x.velocity ≠ 0 :=
      fun x hx => hsel x (List.mem_cons_of_mem _ hx)
    have hval' : ∀ x ∈ ns, x.qs < x.qe ∧ 0 ≤ x.pitch := fun x hx => hval x (List.mem_cons_of_mem _ hx)
    have hlen : (A ++ noteTail k.pitch (k.qe - k.qs - 1).toNat).length ≠ 0 := by
      simp [length_noteTail]
    have hloo := lastOnOff_noteTail A k.pitch (k.qe - k.qs - 1).toNat hk.2
    -- unfold one iteration
    rw [melLoop]
    simp only [hn_sel.1, Bool.false_eq_true, ↓reduceIte, hn_sel.2, hlen, hloo]
    by_cases h0 : n.qs = k.qs
    · -- a second note on the current onset
      have hd0 : n.qs - mstart - (A.length : Int) = 0 := by omega
      simp only [hd0, ↓reduceIte, dupFrom, keptFrom, if_pos h0, Bool.and_true]
      cases ip with
      | false => simp
      | true =>
        simp only [Bool.not_true, Bool.false_eq_true, ↓reduceIte]
        have := ih K0 k A hsel' hval' hk (List.pairwise_cons.mpr ⟨fun x hx => hsorted.1 x (List.mem_cons_of_mem _ hx),
          (List.pairwise_cons.mp hsorted.2).2⟩) hK0 hA hrule
        simpa using this
    · have hd1 : ¬ (n.qs - mstart - (A.length : Int) = 0) := by omega
      have hd2 : ¬ (n.qs - mstart - (A.length : Int) < 0) := by omega
      have hoff : n.qs - mstart - ((A.length + (k.qe - k.qs - 1).toNat + 1 : Nat) : Int) = n.qs - k.qe := by
        have := hk.1; omega
      simp only [hd1, hd2, ↓reduceIte, hoff, dupFrom, keptFrom, h0]
      by_cases hgap : gap ≤ n.qs - k.qe
      · -- the melody ends here
        simp only [ge_iff_le, hgap, ↓reduceIte, Bool.and_false, Bool.false_eq_true]
        exact ⟨A, k, K0, by simp, rfl, hk, hK0, hA, hrule⟩
      · simp only [ge_iff_le, hgap, ↓reduceIte]
        obtain ⟨A', hadd, hA'len, hA'⟩ := addNote_form (A ++ noteTail k.pitch (k.qe - k.qs - 1).toNat)
          (Or.inr ⟨_, _, _, rfl⟩) n.pitch (n.qs - mstart) (n.qe - mstart) (by omega) (by have := hn_val.1; omega)
        rw [hadd]
        simp only
        have hm : (n.qe - mstart - (n.qs - mstart) - 1).toNat = (n.qe - n.qs - 1).toNat := by omega
        rw [hm]
        have hK0' : ∀ x ∈ K0 ++ [k], x.qs < n.qs := by
          intro x hx
          rcases List.mem_append.mp hx with h | h
          · have := hK0 x h; omega
          · simp only [List.mem_singleton] at h; subst h; omega
        have hrule' : ∀ i, i < A'.length → A'[i]? = some (melRule ((K0 ++ [k]) ++ [n]) (mstart + i)) := by
          intro i hi
          rw [hA' i hi, melRule_before _ _ _ (by omega), ← melEvents_rule mstart K0 k A hk.1 hK0 hA hrule i,
            List.getD_getElem?]
        have := ih (K0 ++ [k]) n A' hsel' hval' hn_val hsorted.2 hK0' (by omega) hrule'
        split at this
        · rename_i hc; rw [if_pos hc]; exact this
        · rename_i hc
          rw [if_neg hc]
          obtain ⟨A'', k'', K0'', hKeq, hres, r1, r2, r3, r4⟩ := this
          exact ⟨A'', k'', K0'', by rw [hKeq]; simp, hres, r1, r2, r3, r4⟩


theorem melLe_iff (a b : Note) : melLe a b = true ↔ MelOrd a b := by
  simp only [melLe, MelOrd, Bool.or_eq_true, Bool.and_eq_true, decide_eq_true_eq, beq_iff_eq]

theorem melLe_trans (a b c : Note) (h1 : melLe a b = true) (h2 : melLe b c = true) : melLe a c = true := by
  rw [melLe_iff] at h1 h2 ⊢
  unfold MelOrd at h1 h2 ⊢
  rcases h1 with h1 | ⟨h1, h1' | ⟨h1', h1''⟩⟩ <;> rcases h2 with h2 | ⟨h2, h2' | ⟨h2', h2''⟩⟩
  all_goals first
    | (left; omega)
    | (right; refine ⟨by omega, Or.inl (by omega)⟩)
    | (right; exact ⟨by omega, Or.inr ⟨by omega, Rat.le_trans h1'' h2''⟩⟩)

theorem melLe_total (a b : Note) : (melLe a b || melLe b a) = true := by
  rw [Bool.or_eq_true, melLe_iff, melLe_iff]
  unfold MelOrd
  rcases Rat.le_total (a := a.start) (b := b.start) with h | h
  · by_cases h1 : a.qs < b.qs
    · exact Or.inl (Or.inl h1)
    · by_cases h2 : b.qs < a.qs
      · exact Or.inr (Or.inl h2)
      · by_cases h3 : b.pitch < a.pitch
        · exact Or.inl (Or.inr ⟨by omega, Or.inl h3⟩)
        · by_cases h4 : a.pitch < b.pitch
          · exact Or.inr (Or.inr ⟨by omega, Or.inl h4⟩)
          · exact Or.inl (Or.inr ⟨by omega, Or.inr ⟨by omega, h⟩⟩)
  · by_cases h1 : a.qs < b.qs
    · exact Or.inl (Or.inl h1)
    · by_cases h2 : b.qs < a.qs
      · exact Or.inr (Or.inl h2)
      · by_cases h3 : b.pitch < a.pitch
        · exact Or.inl (Or.inr ⟨by omega, Or.inl h3⟩)
        · by_cases h4 : a.pitch < b.pitch
          · exact Or.inr (Or.inr ⟨by omega, Or.inl h4⟩)
          · exact Or.inr (Or.inr ⟨by omega, Or.inr ⟨by omega, h⟩⟩)

theorem melSorted (l : List Note) : (l.mergeSort melLe).Pairwise MelOrd := by
  have := List.pairwise_mergeSort (le := melLe) melLe_trans melLe_total l
  apply List.Pairwise.imp _ this
  intro a b h
  exact (melLe_iff a b).mp h

theorem getLast?_noteTail (A : List Int) (p : Int) (m : Nat) :
    (A ++ noteTail p m).getLast? = some Gen.MELODY_NOTE_OFF := by
  have : A ++ noteTail p m = (A ++ p :: List.replicate m Gen.MELODY_NO_EVENT) ++ [Gen.MELODY_NOTE_OFF] := by
    simp [noteTail]
  rw [this, List.getLast?_concat]

theorem dropLast_noteTail (A : List Int) (p : Int) (m : Nat) :
    (A ++ noteTail p m).dropLast = A ++ p :: List.replicate m Gen.MELODY_NO_EVENT := by
  have : A ++ noteTail p m = (A ++ p :: List.replicate m Gen.MELODY_NO_EVENT) ++ [Gen.MELODY_NOTE_OFF] := by
    simp [noteTail]
  rw [this, List.dropLast_concat]

theorem getElem?_setLength_getD {α} (pad : α) (ev : List α) (n i : Nat) (hi : i < n) :
    (setLength pad ev n)[i]? = some (ev[i]?.getD pad) := by
  rw [getElem?_setLength _ _ _ _ hi, List.getD_getElem?]

/-- stripping the final NOTE_OFF and padding (`set_length` puts the NOTE_OFF back when it extends): every index of the
result holds what the unstripped event list holds there, NO_EVENT beyond it -/
theorem melFinish (A : List Int) (p : Int) (m : Nat) (hp : 0 ≤ p) (n : Nat) (hn : A.length + m + 1 ≤ n) :
    (melSetLength (A ++ p :: List.replicate m Gen.MELODY_NO_EVENT) n).length = n ∧
    ∀ i, i < n → (melSetLength (A ++ p :: List.replicate m Gen.MELODY_NO_EVENT) n)[i]? =
      some ((A ++ noteTail p m)[i]?.getD Gen.MELODY_NO_EVENT) := by
  obtain ⟨_, hp2, hp3⟩ := pitch_facts hp
  have hlen1 : (A ++ p :: List.replicate m Gen.MELODY_NO_EVENT).length = A.length + m + 1 := by
    simp; omega
  have hsus : sustained (A ++ p :: List.replicate m Gen.MELODY_NO_EVENT).reverse = true := by
    have : (A ++ p :: List.replicate m Gen.MELODY_NO_EVENT).reverse =
        List.replicate m Gen.MELODY_NO_EVENT ++ p :: A.reverse := by
      simp [List.reverse_append, List.reverse_replicate]
    rw [this, sustained_replicate_append, sustained, if_neg hp2, if_pos hp3]
  have hev : ∀ i, i < A.length + m + 1 →
      (A ++ noteTail p m)[i]? = (A ++ p :: List.replicate m Gen.MELODY_NO_EVENT)[i]? := by
    intro i hi
    have : A ++ noteTail p m = (A ++ p :: List.replicate m Gen.MELODY_NO_EVENT) ++ [Gen.MELODY_NOTE_OFF] := by
      simp [noteTail]
    rw [this, List.getElem?_append_left (by rw [hlen1]; exact hi)]
  have hoff : (A ++ noteTail p m)[A.length + m + 1]? = some Gen.MELODY_NOTE_OFF := by
    have : A ++ noteTail p m = (A ++ p :: List.replicate m Gen.MELODY_NO_EVENT) ++ [Gen.MELODY_NOTE_OFF] := by
      simp [noteTail]
    rw [this, List.getElem?_append_right (by rw [hlen1]; exact Nat.le_refl _), hlen1, Nat.sub_self]; rfl
  have hbeyond : ∀ i, A.length + m + 1 < i → (A ++ noteTail p m)[i]? = none := by
    intro i hi
    apply List.getElem?_eq_none
    simp [length_noteTail]; omega
  unfold melSetLength
  rw [hlen1, hsus]
  by_cases hgt : n > A.length + m + 1
  · simp only [hgt, and_self, ↓reduceIte]
    refine ⟨by rw [List.length_set, length_setLength], ?_⟩
    intro i hi
    rw [List.getElem?_set, length_setLength]
    by_cases hi2 : A.length + m + 1 = i
    · subst hi2
      simp only [↓reduceIte, hi, hoff, Option.getD_some]
    · simp only [hi2, ↓reduceIte]
      rw [getElem?_setLength_getD _ _ _ _ hi]
      by_cases hi3 : i < A.length + m + 1
      · rw [hev i hi3]
      · rw [hbeyond i (by omega), List.getElem?_eq_none (by rw [hlen1]; omega)]
  · simp only [hgt, false_and, ↓reduceIte]
    refine ⟨length_setLength _ _ _, ?_⟩
    intro i hi
    rw [getElem?_setLength_getD _ _ _ _ hi, hev i (by omega)]




/-- decidable equality of results (used by the evaluated examples) -/
instance {ε α} [DecidableEq ε] [DecidableEq α] : DecidableEq (Except ε α) := fun a b =>
  match a, b with
  | .ok x, .ok y => if h : x = y then isTrue (by rw [h]) else isFalse (by intro h'; cases h'; exact h rfl)
  | .error x, .error y => if h : x = y then isTrue (by rw [h]) else isFalse (by intro h'; cases h'; exact h rfl)
  | .ok _, .error _ => isFalse (by intro h; cases h)
  | .error _, .ok _ => isFalse (by intro h; cases h)



/-! ### FIFO decoding of a performance (perf_notes_multiset) -/

/-- note events of an event list, with running step and velocity bin: what `_to_sequence` looks at -/
inductive DEv where
  | on (pitch step vel : Int)
  | off (pitch step : Int)
deriving Repr, DecidableEq

def absStream (cur vel : Int) : List PEvent → List DEv
  | [] => []
  | .timeShift v :: r => absStream (cur + v) vel r
  | .velocity b :: r => absStream cur b r
  | .noteOn p :: r => .on p cur vel :: absStream cur vel r
  | .noteOff p :: r => .off p cur :: absStream cur vel r
  | .duration _ :: r => absStream cur vel r

structure AState where
  open_ : List (Int × Int × Int)
  out : List (Int × Int × Int × Int)

def absStep (st : AState) : DEv → AState
  | .on p s v => { st with open_ := st.open_ ++ [(p, s, v)] }
  | .off p s =>
    match st.open_.find? (fun x => x.1 == p) with
    | none => st
    | some x => { open_ := st.open_.eraseP (fun x => x.1 == p),
                  out := if x.2.1 = s then st.out else st.out ++ [(p, x.2.1, s, x.2.2)] }

theorem decode_abs : ∀ (evs : List PEvent) (cur vel : Int) (o : List (Int × Int × Int))
    (out : List (Int × Int × Int × Int)),
    evs.foldl decodeStep ⟨cur, vel, o, out⟩ =
      ⟨cur + shiftSum evs, lastVel vel evs,
        ((absStream cur vel evs).foldl absStep ⟨o, out⟩).open_,
        ((absStream cur vel evs).foldl absStep ⟨o, out⟩).out⟩ := by
  intro evs
  induction evs with
  | nil => intro cur vel o out; simp [shiftSum, lastVel, absStream]
  | cons e r ih =>
    intro cur vel o out
    cases e with
    | timeShift v =>
      simp only [List.foldl_cons, decodeStep, shiftSum, lastVel, absStream, ih]
      rw [show cur + v + shiftSum r = cur + (v + shiftSum r) by omega]
    | velocity b => simp only [List.foldl_cons, decodeStep, shiftSum, lastVel, absStream, ih]
    | duration d => simp only [List.foldl_cons, decodeStep, shiftSum, lastVel, absStream, ih]
    | noteOn p => simp only [List.foldl_cons, decodeStep, shiftSum, lastVel, absStream, ih, absStep]
    | noteOff p =>
      simp only [List.foldl_cons, decodeStep, shiftSum, lastVel, absStream, absStep]
      cases hf : o.find? (fun x => x.1 == p) with
      | none => simp only [ih]
      | some x => simp only [ih]

theorem absStream_append (c v : Int) (a b : List PEvent) :
    absStream c v (a ++ b) = absStream c v a ++ absStream (c + shiftSum a) (lastVel v a) b := by
  induction a generalizing c v with
  | nil => simp [absStream, shiftSum, lastVel]
  | cons e r ih =>
    cases e with
    | timeShift w =>
      simp only [List.cons_append, absStream, shiftSum, lastVel, ih]
      rw [show c + w + shiftSum r = c + (w + shiftSum r) by omega]
    | noteOn p => simp only [List.cons_append, absStream, shiftSum, lastVel, ih]
    | noteOff p => simp only [List.cons_append, absStream, shiftSum, lastVel, ih]
    | velocity p => simp only [List.cons_append, absStream, shiftSum, lastVel, ih]
    | duration p => simp only [List.cons_append, absStream, shiftSum, lastVel, ih]

/-- the abstract event a note event denotes -/
def NEv.toDEv (nb : Int) (e : NEv) : DEv :=
  if e.isOff then .off e.note.pitch e.step else .on e.note.pitch e.step (binOf nb 0 e.note)

theorem only_shifts_abs {sh : List PEvent} (h : ∀ x ∈ sh, ∃ v, x = PEvent.timeShift v) (c w : Int) :
    absStream c w sh = [] := by
  induction sh generalizing c with
  | nil => rfl
  | cons x r ih =>
    obtain ⟨v, hv⟩ := h x (List.mem_cons_self ..)
    subst hv
    simp only [absStream]
    exact ih (fun y hy => h y (List.mem_cons_of_mem _ hy)) _

theorem only_velocities_abs {ve : List PEvent} (h : ∀ x ∈ ve, ∃ b, x = PEvent.velocity b) (c w : Int) :
    absStream c w ve = [] := by
  induction ve generalizing w with
  | nil => rfl
  | cons x r ih =>
    obtain ⟨v, hv⟩ := h x (List.mem_cons_self ..)
    subst hv
    simp only [absStream]
    exact ih (fun y hy => h y (List.mem_cons_of_mem _ hy)) _

theorem perfStep_abs (nb ms : Int) (hms : 1 ≤ ms) (st st' : PState) (e : NEv) (hcur : st.cur ≤ e.step)
    (hv0 : nb = 0 → st.vel = 0)
    (h : perfStep nb ms st e = .ok st') :
    ∃ new, st'.out = st.out ++ new ∧ absStream st.cur st.vel new = [e.toDEv nb] := by
  unfold perfStep at h
  cases h1 : perfShift ms st e.step with
  | error x => rw [h1] at h; exact absurd h (by simp [Except.bind])
  | ok st1 =>
    rw [h1] at h
    simp only [Except.bind] at h
    cases h2 : perfVelocity nb st1 e with
    | error x => rw [h2] at h; exact absurd h (by simp)
    | ok st2 =>
      rw [h2] at h
      simp only at h
      obtain ⟨hvel1, hc1, sh, ho1, hsh1, hsh2, _⟩ := perfShift_spec ms hms st st1 e.step hcur h1
      obtain ⟨ve, ho2, hve, hvel2, hvz, hvb⟩ := perfVelocity_vel nb st1 st2 e h2
      obtain ⟨_, ho3⟩ := perfNote_spec st2 st' e h
      have hshifts : ∀ x ∈ sh, ∃ v, x = PEvent.timeShift v := fun x hx => let ⟨v, hv, _⟩ := hsh1 x hx; ⟨v, hv⟩
      obtain ⟨_, hsh_vel⟩ := only_shifts hshifts st.cur st.vel
      obtain ⟨hve0, _⟩ := shiftSum_velocities hve
      refine ⟨sh ++ ve ++ [e.toPEvent], by rw [ho3, ho2, ho1]; simp only [List.append_assoc], ?_⟩
      rw [List.append_assoc, absStream_append, only_shifts_abs hshifts, hsh_vel, absStream_append,
        only_velocities_abs hve, hsh2, hve0]
      have : st.cur + (e.step - st.cur) + 0 = e.step := by omega
      simp only [List.nil_append, this]
      rw [← hvel1, ← hvel2]
      unfold NEv.toPEvent NEv.toDEv
      cases hoff : e.isOff with
      | true => simp [absStream]
      | false =>
        simp only [Bool.false_eq_true, ↓reduceIte, absStream, binOf]
        by_cases h0 : nb = 0
        · simp only [h0, ↓reduceIte]; rw [hvz h0, hvel1, hv0 h0]
        · simp only [h0, ↓reduceIte]; rw [hvb h0 hoff]

theorem perfLoop_abs (nb ms : Int) (hms : 1 ≤ ms) :
    ∀ (es : List NEv) (st st' : PState),
      es.Pairwise (fun a b => a.step ≤ b.step) → (∀ e ∈ es, st.cur ≤ e.step) → (nb = 0 → st.vel = 0) →
      perfLoop nb ms st es = .ok st' →
      ∃ new, st'.out = st.out ++ new ∧ absStream st.cur st.vel new = es.map (NEv.toDEv nb) := by
  intro es
  induction es with
  | nil =>
    intro st st' _ _ _ h
    simp only [perfLoop, Except.ok.injEq] at h; subst h
    exact ⟨[], by simp, rfl⟩
  | cons e es ih =>
    intro st st' hpw hge hv0 h
    rw [List.pairwise_cons] at hpw
    unfold perfLoop at h
    cases h1 : perfStep nb ms st e with
    | error x => rw [h1] at h; exact absurd h (by simp)
    | ok st1 =>
      rw [h1] at h
      simp only at h
      have hcur := hge e (List.mem_cons_self ..)
      obtain ⟨new1, ho1, hc1, _, hsum1, _⟩ := perfStep_spec nb ms hms st st1 e hcur h1
      obtain ⟨new1', ho1', hvel1, hvz1, _⟩ := perfStep_on nb ms hms st st1 e hcur hv0 h1
      obtain ⟨new1'', ho1'', habs1⟩ := perfStep_abs nb ms hms st st1 e hcur hv0 h1
      have hnew : new1' = new1 := List.append_cancel_left (ho1'.symm.trans ho1)
      have hnew' : new1'' = new1 := List.append_cancel_left (ho1''.symm.trans ho1)
      subst hnew; subst hnew'
      obtain ⟨new2, ho2, habs2⟩ :=
        ih st1 st' hpw.2 (by intro x hx; rw [hc1]; exact hpw.1 x hx) hvz1 h
      refine ⟨new1'' ++ new2, by rw [ho2, ho1, List.append_assoc], ?_⟩
      rw [absStream_append, habs1, hsum1, ← hvel1]
      have : st.cur + (e.step - st.cur) = e.step := by omega
      rw [this, ← hc1, habs2]; rfl


/-- strict tuple order on `(step, idx, is_offset)` -/
def NevLt (a b : NEv) : Prop :=
  a.step < b.step ∨ (a.step = b.step ∧ (a.idx < b.idx ∨ (a.idx = b.idx ∧ a.isOff = false ∧ b.isOff = true)))

theorem NevLt.asymm {a b : NEv} (h : NevLt a b) : ¬ NevLt b a := by
  unfold NevLt at *
  cases ha : a.isOff <;> cases hb : b.isOff <;> simp [ha, hb] at h ⊢ <;> omega

theorem NevLt.irrefl (a : NEv) : ¬ NevLt a a := fun h => h.asymm h

theorem NevLt.trans {a b c : NEv} (h1 : NevLt a b) (h2 : NevLt b c) : NevLt a c := by
  unfold NevLt at *
  cases ha : a.isOff <;> cases hb : b.isOff <;> cases hc : c.isOff <;> simp [ha, hb, hc] at h1 h2 ⊢ <;> omega

def onOf (e : NEv) : NEv := ⟨e.note.qs, e.idx, false, e.note⟩
def offOf (e : NEv) : NEv := ⟨e.note.qe, e.idx, true, e.note⟩

/-- an event of `note_events`: it carries the note at its index and happens at that note's start / end step -/
def WFEv (l : List Note) (e : NEv) : Prop :=
  l[e.idx]? = some e.note ∧ e.step = (if e.isOff then e.note.qe else e.note.qs)

theorem zipIdx_idx_pairwise {β} (f : Note × Nat → β) (idx : β → Nat) (hf : ∀ x, idx (f x) = x.2) :
    ∀ (l : List Note) (k : Nat), ((l.zipIdx k).map f).Pairwise (fun a b => idx a ≠ idx b) := by
  intro l
  induction l with
  | nil => intro k; simp
  | cons n ns ih =>
    intro k
    simp only [List.zipIdx_cons, List.map_cons, List.pairwise_cons]
    refine ⟨?_, ih (k + 1)⟩
    intro b hb
    simp only [List.mem_map] at hb
    obtain ⟨⟨m, i⟩, hm, rfl⟩ := hb
    have := (List.mem_zipIdx hm).1
    rw [hf, hf]; simp only; omega

theorem noteEvents_facts (l : List Note) (hpos : ∀ n ∈ l, n.qs < n.qe) :
    (noteEvents l).Pairwise NevLt ∧ (∀ e ∈ noteEvents l, WFEv l e) ∧
    (∀ e ∈ noteEvents l, onOf e ∈ noteEvents l ∧ offOf e ∈ noteEvents l) := by
  have hwf_on : ∀ e ∈ onsets l, WFEv l e ∧ e.isOff = false := by
    intro e he
    simp only [onsets, List.mem_map] at he
    obtain ⟨⟨n, i⟩, hm, rfl⟩ := he
    have := List.mem_zipIdx_iff_getElem?.mp hm
    exact ⟨⟨by simpa using this, by simp⟩, rfl⟩
  have hwf_off : ∀ e ∈ offsets l, WFEv l e ∧ e.isOff = true := by
    intro e he
    simp only [offsets, List.mem_map] at he
    obtain ⟨⟨n, i⟩, hm, rfl⟩ := he
    have := List.mem_zipIdx_iff_getElem?.mp hm
    exact ⟨⟨by simpa using this, by simp⟩, rfl⟩
  have hmem : ∀ e, e ∈ noteEvents l ↔ e ∈ onsets l ∨ e ∈ offsets l := by
    intro e; simp [noteEvents, List.mem_mergeSort]
  have hwf : ∀ e ∈ noteEvents l, WFEv l e := by
    intro e he
    rcases (hmem e).mp he with h | h
    · exact (hwf_on e h).1
    · exact (hwf_off e h).1
  -- every index has its onset and its offset
  have hon_mem : ∀ (i : Nat) (n : Note), l[i]? = some n → (⟨n.qs, i, false, n⟩ : NEv) ∈ onsets l := by
    intro i n h
    simp only [onsets, List.mem_map]
    refine ⟨(n, i), ?_, rfl⟩
    rw [List.mem_zipIdx_iff_getElem?]; simpa using h
  have hoff_mem : ∀ (i : Nat) (n : Note), l[i]? = some n → (⟨n.qe, i, true, n⟩ : NEv) ∈ offsets l := by
    intro i n h
    simp only [offsets, List.mem_map]
    refine ⟨(n, i), ?_, rfl⟩
    rw [List.mem_zipIdx_iff_getElem?]; simpa using h
  refine ⟨?_, hwf, ?_⟩
  · -- strictness: sorted + distinct keys
    have hkey : (onsets l ++ offsets l).Pairwise (fun a b => ¬ (a.idx = b.idx ∧ a.isOff = b.isOff)) := by
      rw [List.pairwise_append]
      refine ⟨?_, ?_, ?_⟩
      · apply List.Pairwise.imp _ (zipIdx_idx_pairwise (fun (x : Note × Nat) => (⟨x.1.qs, x.2, false, x.1⟩ : NEv))
          (·.idx) (fun _ => rfl) l 0)
        intro a b h hab; exact h hab.1
      · apply List.Pairwise.imp _ (zipIdx_idx_pairwise (fun (x : Note × Nat) => (⟨x.1.qe, x.2, true, x.1⟩ : NEv))
          (·.idx) (fun _ => rfl) l 0)
        intro a b h hab; exact h hab.1
      · intro a ha b hb hab
        rw [(hwf_on a ha).2, (hwf_off b hb).2] at hab
        exact absurd hab.2 (by simp)
    have hkey' : (noteEvents l).Pairwise (fun a b => ¬ (a.idx = b.idx ∧ a.isOff = b.isOff)) := by
      refine (List.Perm.pairwise_iff ?_ (List.mergeSort_perm _ nevLe)).mpr hkey
      intro a b h hab; exact h ⟨hab.1.symm, hab.2.symm⟩
    have hsorted := List.pairwise_mergeSort (le := nevLe) nevLe_trans nevLe_total (onsets l ++ offsets l)
    apply List.Pairwise.imp _ (hsorted.and hkey')
    intro a b ⟨hle, hk⟩
    simp only [nevLe, Bool.or_eq_true, Bool.and_eq_true, decide_eq_true_eq, beq_iff_eq, Bool.not_eq_true'] at hle
    unfold NevLt
    cases ha : a.isOff <;> cases hb : b.isOff <;> simp [ha, hb] at hle hk ⊢ <;> omega
  · intro e he
    have := hwf e he
    exact ⟨(hmem _).mpr (Or.inl (hon_mem e.idx e.note this.1)), (hmem _).mpr (Or.inr (hoff_mem e.idx e.note this.1))⟩


def entryOf (nb : Int) (e : NEv) : Int × Int × Int := (e.note.pitch, e.note.qs, binOf nb 0 e.note)
def tupleOf (nb : Int) (e : NEv) : Int × Int × Int × Int :=
  (e.note.pitch, e.note.qs, e.note.qe, binOf nb 0 e.note)
def openCond (P : List NEv) (x : NEv) : Bool := !x.isOff && decide (offOf x ∉ P)

/-- after the prefix `P` of the note events: the open list holds, in order, the onsets in `P` whose offset is not in `P`;
the finished notes are those whose offset is in `P` -/
def FInv (nb : Int) (P : List NEv) (st : AState) : Prop :=
  st.open_ = (P.filter (openCond P)).map (entryOf nb) ∧
  st.out.Perm ((P.filter (·.isOff)).map (tupleOf nb))

theorem wf_on_eq {l : List Note} {x a : NEv} (hx : WFEv l x) (ha : WFEv l a)
    (hi : x.idx = a.idx) (hox : x.isOff = false) (hoa : a.isOff = false) : x = a := by
  obtain ⟨hx1, hx2⟩ := hx
  obtain ⟨ha1, ha2⟩ := ha
  rw [hi, ha1] at hx1
  simp only [Option.some.injEq] at hx1
  rw [hox] at hx2; rw [hoa] at ha2
  simp only [Bool.false_eq_true, ↓reduceIte] at hx2 ha2
  cases x; cases a
  simp_all

theorem fifo_step (nb : Int) (l : List Note) (hpos : ∀ n ∈ l, n.qs < n.qe)
    (hno : ∀ (i j : Nat) (ni nj : Note), l[i]? = some ni → l[j]? = some nj → i ≠ j → ni.pitch = nj.pitch →
      ni.qe ≤ nj.qs ∨ nj.qe ≤ ni.qs)
    (P : List NEv) (e : NEv) (Q : List NEv) (hes : noteEvents l = P ++ e :: Q)
    (st : AState) (hinv : FInv nb P st) : FInv nb (P ++ [e]) (absStep st (e.toDEv nb)) := by
  obtain ⟨hstrict, hwf, hpart⟩ := noteEvents_facts l hpos
  rw [hes] at hstrict hwf hpart
  have hP_lt : ∀ x ∈ P, NevLt x e := fun x hx => (List.pairwise_append.mp hstrict).2.2 x hx e (List.mem_cons_self ..)
  have hQ_gt : ∀ y ∈ Q, NevLt e y := fun y hy =>
    (List.pairwise_cons.mp (List.pairwise_append.mp hstrict).2.1).1 y hy
  have hP_pw : P.Pairwise NevLt := (List.pairwise_append.mp hstrict).1
  have hbefore : ∀ z ∈ P ++ e :: Q, NevLt z e → z ∈ P := by
    intro z hz hlt
    rcases List.mem_append.mp hz with h | h
    · exact h
    · rcases List.mem_cons.mp h with h | h
      · subst h; exact absurd hlt (NevLt.irrefl _)
      · exact absurd hlt (hQ_gt z h).asymm
  have he_mem : e ∈ P ++ e :: Q := by simp
  have he_wf := hwf e he_mem
  have he_notin : e ∉ P := fun h => NevLt.irrefl e (hP_lt e h)
  have hnote_pos : e.note.qs < e.note.qe := hpos _ (List.mem_of_getElem? he_wf.1)
  obtain ⟨hopen, hout⟩ := hinv
  cases hoff : e.isOff with
  | false =>
    -- NOTE_ON: appended to the open list
    have hstep : e.step = e.note.qs := by rw [he_wf.2, hoff]; rfl
    have habs : absStep st (e.toDEv nb) = { st with open_ := st.open_ ++ [entryOf nb e] } := by
      simp only [NEv.toDEv, hoff, Bool.false_eq_true, ↓reduceIte, absStep, entryOf, hstep]
    rw [habs]
    constructor
    · simp only [hopen]
      rw [List.filter_append, List.map_append]
      congr 1
      · congr 1
        apply List.filter_congr
        intro x hx
        simp only [openCond, List.mem_append, List.mem_singleton, not_or]
        have : offOf x ≠ e := by intro h; rw [← h] at hoff; simp [offOf] at hoff
        simp [this]
      · have hoffe : offOf e ∉ P ++ [e] := by
          intro h
          rcases List.mem_append.mp h with h | h
          · have h1 := hP_lt _ h
            have h2 : NevLt e (offOf e) := by
              unfold NevLt offOf; left; simp only; omega
            exact h1.asymm h2
          · simp only [List.mem_singleton] at h
            rw [← h] at hoff; simp [offOf] at hoff
        simp [List.filter_cons, openCond, hoff, hoffe]
    · simp only
      rw [List.filter_append]
      simp [List.filter_cons, hoff]
      exact hout
  | true =>
    -- NOTE_OFF: the first open note of this pitch is the one this offset belongs to
    have hstep : e.step = e.note.qe := by rw [he_wf.2, hoff]; rfl
    have ha_mem_es : onOf e ∈ P ++ e :: Q := (hpart e he_mem).1
    have ha_lt : NevLt (onOf e) e := by unfold NevLt onOf; left; simp only; omega
    have ha_P : onOf e ∈ P := hbefore _ ha_mem_es ha_lt
    have ha_wf := hwf _ ha_mem_es
    have hoff_a : offOf (onOf e) = e := by
      cases e; simp only [offOf, onOf] at *; simp_all
    have ha_cond : openCond P (onOf e) = true := by
      have : offOf (onOf e) ∉ P := by rw [hoff_a]; exact he_notin
      unfold openCond
      rw [decide_eq_true this]; rfl
    have ha_O : onOf e ∈ P.filter (openCond P) := List.mem_filter.mpr ⟨ha_P, ha_cond⟩
    obtain ⟨L1, L2, hO⟩ := List.append_of_mem ha_O
    have hO_pw : (L1 ++ onOf e :: L2).Pairwise NevLt := by rw [← hO]; exact hP_pw.filter _
    have hL1_lt : ∀ x ∈ L1, NevLt x (onOf e) := fun x hx =>
      (List.pairwise_append.mp hO_pw).2.2 x hx _ (List.mem_cons_self ..)
    have hL2_gt : ∀ y ∈ L2, NevLt (onOf e) y := fun y hy =>
      (List.pairwise_cons.mp (List.pairwise_append.mp hO_pw).2.1).1 y hy
    have hL1_mem : ∀ x ∈ L1, x ∈ P ∧ openCond P x = true := by
      intro x hx
      have : x ∈ P.filter (openCond P) := by rw [hO]; simp [hx]
      exact List.mem_filter.mp this
    -- earlier open notes have another pitch
    have hL1_pitch : ∀ x ∈ L1, x.note.pitch ≠ e.note.pitch := by
      intro x hx hp
      obtain ⟨hxP, hxc⟩ := hL1_mem x hx
      simp only [openCond, Bool.and_eq_true, Bool.not_eq_true', decide_eq_true_eq] at hxc
      have hx_es : x ∈ P ++ e :: Q := List.mem_append_left _ hxP
      have hx_wf := hwf x hx_es
      have hxstep : x.step = x.note.qs := by rw [hx_wf.2, hxc.1]; rfl
      have hlt := hL1_lt x hx
      have hidx : x.idx ≠ e.idx := by
        intro hi
        have : x = onOf e := wf_on_eq hx_wf ha_wf hi hxc.1 rfl
        rw [this] at hlt; exact NevLt.irrefl _ hlt
      have hxpos : x.note.qs < x.note.qe := hpos _ (List.mem_of_getElem? hx_wf.1)
      have hqs : x.note.qs ≤ e.note.qs := by
        unfold NevLt onOf at hlt; simp only at hlt; omega
      have hdisj := hno x.idx e.idx x.note e.note hx_wf.1 he_wf.1 hidx hp
      have hxe : x.note.qe ≤ e.note.qs := by omega
      have hoffx_lt : NevLt (offOf x) e := by unfold NevLt offOf; left; simp only; omega
      exact hxc.2 (hbefore _ (hpart x hx_es).2 hoffx_lt)
    have hfind : st.open_.find? (fun y => y.1 == e.note.pitch) = some (entryOf nb (onOf e)) := by
      rw [hopen, hO, List.map_append, List.find?_append]
      have : (L1.map (entryOf nb)).find? (fun y => y.1 == e.note.pitch) = none := by
        rw [List.find?_eq_none]
        intro y hy
        simp only [List.mem_map] at hy
        obtain ⟨x, hx, rfl⟩ := hy
        simpa [entryOf] using hL1_pitch x hx
      rw [this, Option.none_or, List.map_cons, List.find?_cons]
      simp [entryOf, onOf]
    have herase : st.open_.eraseP (fun y => y.1 == e.note.pitch) = (L1 ++ L2).map (entryOf nb) := by
      rw [hopen, hO, List.map_append, List.eraseP_append_right]
      · rw [List.map_cons, List.eraseP_cons_of_pos (by simp [entryOf, onOf]), List.map_append]
      · intro y hy
        simp only [List.mem_map] at hy
        obtain ⟨x, hx, rfl⟩ := hy
        simpa [entryOf] using hL1_pitch x hx
    have habs : absStep st (e.toDEv nb) =
        { open_ := (L1 ++ L2).map (entryOf nb), out := st.out ++ [tupleOf nb e] } := by
      simp only [NEv.toDEv, hoff, ↓reduceIte, absStep, hfind, herase]
      have : ¬ e.note.qs = e.note.qe := by omega
      simp only [entryOf, onOf, tupleOf, hstep, this, ↓reduceIte]
    rw [habs]
    constructor
    · simp only
      congr 1
      rw [List.filter_append]
      have h1 : [e].filter (openCond (P ++ [e])) = [] := by simp [List.filter_cons, openCond, hoff]
      rw [h1, List.append_nil]
      have h2 : P.filter (openCond (P ++ [e])) = (P.filter (openCond P)).filter (fun x => decide (x ≠ onOf e)) := by
        rw [List.filter_filter]
        apply List.filter_congr
        intro x hx
        simp only [openCond, List.mem_append, List.mem_singleton, not_or]
        cases hxo : x.isOff with
        | true => simp
        | false =>
          have hx_wf := hwf x (List.mem_append_left _ hx)
          have : offOf x = e ↔ x = onOf e := by
            constructor
            · intro h
              apply wf_on_eq hx_wf ha_wf _ hxo rfl
              rw [← h]; rfl
            · intro h; rw [h]; exact hoff_a
          by_cases hxa : x = onOf e
          · simp [hxa, hoff_a]
          · simp [hxa, this]
      rw [h2, hO, List.filter_append, List.filter_cons]
      have h3 : L1.filter (fun x => !decide (x = onOf e)) = L1 := by
        rw [List.filter_eq_self]; intro x hx
        simp only [Bool.not_eq_true', decide_eq_false_iff_not]; intro h; rw [h] at hx
        exact NevLt.irrefl _ (hL1_lt _ hx)
      have h4 : L2.filter (fun x => !decide (x = onOf e)) = L2 := by
        rw [List.filter_eq_self]; intro x hx
        simp only [Bool.not_eq_true', decide_eq_false_iff_not]; intro h; rw [h] at hx
        exact NevLt.irrefl _ (hL2_gt _ hx)
      simp [h3, h4]
    · simp only
      rw [List.filter_append]
      have : [e].filter (·.isOff) = [e] := by simp [List.filter_cons, hoff]
      rw [this, List.map_append]
      exact hout.append_right _


theorem fifo_all (nb : Int) (l : List Note) (hpos : ∀ n ∈ l, n.qs < n.qe)
    (hno : ∀ (i j : Nat) (ni nj : Note), l[i]? = some ni → l[j]? = some nj → i ≠ j → ni.pitch = nj.pitch →
      ni.qe ≤ nj.qs ∨ nj.qe ≤ ni.qs) :
    ∀ (Q P : List NEv) (st : AState), noteEvents l = P ++ Q → FInv nb P st →
      FInv nb (P ++ Q) ((Q.map (NEv.toDEv nb)).foldl absStep st) := by
  intro Q
  induction Q with
  | nil => intro P st _ h; simpa using h
  | cons e Q ih =>
    intro P st hes hinv
    have h1 := fifo_step nb l hpos hno P e Q hes st hinv
    have := ih (P ++ [e]) (absStep st (e.toDEv nb)) (by rw [hes]; simp) h1
    simpa using this

theorem noSamePitch_index {l : List Note} (h : NoSamePitchOverlap l) :
    ∀ (i j : Nat) (ni nj : Note), l[i]? = some ni → l[j]? = some nj → i ≠ j → ni.pitch = nj.pitch →
      ni.qe ≤ nj.qs ∨ nj.qe ≤ ni.qs := by
  intro i j ni nj hi hj hij hp
  rw [NoSamePitchOverlap, List.pairwise_iff_getElem] at h
  obtain ⟨hil, hie⟩ := List.getElem?_eq_some_iff.mp hi
  obtain ⟨hjl, hje⟩ := List.getElem?_eq_some_iff.mp hj
  rcases Nat.lt_or_gt_of_ne hij with hlt | hlt
  · have := h i j hil hjl hlt
    rw [hie, hje] at this
    exact this hp
  · have := h j i hjl hil hlt
    rw [hie, hje] at this
    exact (this hp.symm).symm


end NSV.C07
