import NoteSeqVerif.Proofs.C06Float
import NoteSeqVerif.Proofs.C06Quant
/-! C06 — joining the two halves: with `render_quantize_exact` every time of a rendered sequence quantizes to its
step, so `quantize_note_sequence` returns the stepped sequence (`quantize_rendered`); and the bar of a rendered
sequence (implicit 4/4) is `4·spq` steps, computed exactly by the three float operations. -/
namespace NSV.C06
open NSV

/-- `steps_per_bar_in_quantized_sequence` of a quantized rendered sequence: `spq * (4.0 / 4 * 4)` -/
theorem stepsPerBar_stepped (tm : Int → Rat) (qpm : ℚ) (spq S vel inst prog : ℤ) (drum : Bool)
    (notes : List SNote) (chords : List (ℤ × String)) (tt : ℚ) (tq : ℤ) (h0 : 0 < spq) (h1 : spq ≤ 2 ^ 40) :
    C07.stepsPerBar (steppedSeq tm qpm spq S vel inst prog drum notes chords tt tq) = .ok (4 * spq) := by
  have hR := rounding_rne53
  have e1 : rne53 (4 / ((4 : ℤ) : ℚ)) = 1 := by
    rw [show (4 : ℚ) / ((4 : ℤ) : ℚ) = ((1 : ℤ) : ℚ) by norm_num, hR.exact_int 1 (by norm_num)]; norm_num
  have e2 : rne53 (1 * ((4 : ℤ) : ℚ)) = 4 := by
    rw [show (1 : ℚ) * ((4 : ℤ) : ℚ) = ((4 : ℤ) : ℚ) by norm_num, hR.exact_int 4 (by norm_num)]; norm_num
  have e3 : rne53 ((spq : ℚ) * 4) = ((4 * spq : ℤ) : ℚ) := by
    rw [show (spq : ℚ) * 4 = ((4 * spq : ℤ) : ℚ) by push_cast; ring]
    apply hR.exact_int
    have : (4 * spq).natAbs = 4 * spq.natAbs := by rw [Int.natAbs_mul]; rfl
    rw [this]
    have : spq.natAbs ≤ 2 ^ 40 := by omega
    calc 4 * spq.natAbs ≤ 4 * 2 ^ 40 := by omega
      _ < 2 ^ 53 := by norm_num
  unfold C07.stepsPerBar C07.stepsPerBarR C07.stepsPerBarFloatR
  simp only [steppedSeq, h0, not_true_eq_false, ↓reduceIte, show ¬ (4 : ℤ) = 0 by decide, e1, e2, e3]
  rw [if_neg (by rw [Rat.den_intCast]; simp), Rat.num_intCast]

/-- no `ZeroDivisionError` in `60.0 / qpm / steps_per_quarter` -/
theorem no_zero_div {qpm : ℚ} {spq : ℤ} (hq : 0 < qpm) (hspq : 0 < spq) : ¬ (qpm = 0 ∨ spq = 0) := by
  rintro (h | h)
  · rw [h] at hq; exact lt_irrefl _ hq
  · omega

/-- `Melody/DrumTrack/ChordProgression.to_sequence` with `sequence_start_time = 0.0` -/
theorem stepTime_zero {R : ℚ → ℚ} (hR : Rounding R) (σ : ℚ) (S : ℤ) :
    stepTimeR R σ (seqStartAddR R 0 σ S) = stepTimeR R σ (seqStartR R σ S) := by
  rw [seqStartAddR_zero hR]

/-- **quantizing a rendered sequence**: for every `Rounding R`, tempo `qpm > 0`, resolution `spq > 0`, start step
`S ≥ 0`, and notes / chord changes at indexes `0 ≤ a < b`, `S + b < 2^40`: `quantize_note_sequence` returns the
same sequence with every index turned into the step `S + index` -/
theorem quantize_rendered {R : ℚ → ℚ} (hR : Rounding R) (qpm : ℚ) (spq S vel inst prog : ℤ) (drum : Bool)
    (notes : List SNote) (chords : List (ℤ × String)) (tt : ℚ)
    (hq : 0 < qpm) (hspq : 0 < spq) (hS : 0 ≤ S)
    (hn : ∀ d ∈ notes, 0 ≤ d.a ∧ d.a < d.b ∧ S + d.b < 2 ^ 40)
    (hc : ∀ c ∈ chords, 0 ≤ c.1 ∧ S + c.1 < 2 ^ 40) :
    quantizeStage R spq (.ok (timedSeq (stepTimeR R (secPerStepR R qpm spq) (seqStartR R (secPerStepR R qpm spq) S))
        qpm vel inst prog drum notes chords tt)) =
      .ok (steppedSeq (stepTimeR R (secPerStepR R qpm spq) (seqStartR R (secPerStepR R qpm spq) S))
        qpm spq S vel inst prog drum notes chords tt
        (totalAfter S notes (C01.qstepR R (1 / 2) tt (C01.spsR R spq qpm)))) := by
  have hq' : ∀ k : ℤ, 0 ≤ k → S + k < 2 ^ 40 →
      C01.qstepR R (1 / 2) (stepTimeR R (secPerStepR R qpm spq) (seqStartR R (secPerStepR R qpm spq) S) k)
        (C01.spsR R spq qpm) = S + k :=
    fun k hk hK => render_quantize_exact hR qpm spq S k hq hspq hS hk hK
  have := quantize_timedSeq R (stepTimeR R (secPerStepR R qpm spq) (seqStartR R (secPerStepR R qpm spq) S))
    qpm spq S vel inst prog drum notes chords tt C01.Gen.DEFAULT_QPM
    (by
      intro d hd
      obtain ⟨h1, h2, h3⟩ := hn d hd
      exact ⟨hq' d.a h1 (by omega), hq' d.b (by omega) h3, h2, by omega⟩)
    (by
      intro c hcm
      obtain ⟨h1, h2⟩ := hc c hcm
      exact ⟨hq' c.1 h1 h2, by omega⟩)
  unfold quantizeStage
  simp only
  rw [show C01.Gen.QUANTIZE_CUTOFF = (1 / 2 : ℚ) from rfl, this]

/-- the quantized total of a rendered sequence whose `total_time` is the time of index `T` -/
theorem totalAfter_eq (S : ℤ) (notes : List SNote) (t0 : ℤ) (h : ∀ d ∈ notes, S + d.b ≤ t0) :
    totalAfter S notes t0 = t0 := by
  unfold totalAfter
  induction notes with
  | nil => rfl
  | cons d ds ih =>
    have := h d (List.mem_cons_self ..)
    rw [List.foldl_cons, if_neg (by omega)]
    exact ih (fun x hx => h x (List.mem_cons_of_mem _ hx))

end NSV.C06
