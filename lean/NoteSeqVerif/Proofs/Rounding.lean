import NoteSeqVerif.Proofs.RoundingLog
/-! Algebraic facts about the executable IEEE round-to-nearest-even model `NSV.rne p`
(`Common/Float.lean`), for every precision `p ≥ 1`, packaged as `RoundingP p (rne p)`;
`Rounding R := RoundingP 53 R` (float64), `Rounding24 R := RoundingP 24 R` (float32).

Route: `rne p x = ± rpos p |x|` with `rpos p x = rq (⌊log₂ x⌋ - (p-1)) x` and
`rq s x = rnE (x / 2^s) * 2^s` (round to a multiple of the quantum `2^s`). -/
namespace NSV

/-- what the model's theorems may assume about a rounding operator of precision `p` -/
structure RoundingP (p : ℕ) (R : ℚ → ℚ) : Prop where
  mono : ∀ a b, a ≤ b → R a ≤ R b
  zero : R 0 = 0
  neg : ∀ a, R (-a) = - R a
  exact_int : ∀ n : ℤ, n.natAbs < 2 ^ p → R n = n
  /-- scaling by powers of two commutes with rounding (the exponent is unbounded) -/
  exact_pow2_mul : ∀ x (k : ℤ), R (x * 2 ^ k) = R x * 2 ^ k
  idem : ∀ a, R (R a) = R a
  /-- relative error at most the unit roundoff `2^-p` -/
  rel_err : ∀ a, |R a - a| ≤ |a| * (1 / 2 ^ p)

/-- float64 -/
abbrev Rounding (R : ℚ → ℚ) : Prop := RoundingP 53 R
/-- float32 -/
abbrev Rounding24 (R : ℚ → ℚ) : Prop := RoundingP 24 R

/-! ### rounding to a fixed quantum -/

/-- nearest multiple of `2^s`, ties to even multiple -/
def rq (s : ℤ) (x : ℚ) : ℚ := (rnE (x / 2 ^ s) : ℚ) * 2 ^ s

theorem rq_mono (s : ℤ) {a b : ℚ} (h : a ≤ b) : rq s a ≤ rq s b := by
  have hs := two_zpow_pos s
  unfold rq
  apply mul_le_mul_of_nonneg_right _ hs.le
  exact_mod_cast rnE_mono (div_le_div_of_nonneg_right h hs.le)

theorem rq_exact (s : ℤ) (m : ℤ) : rq s (m * 2 ^ s) = m * 2 ^ s := by
  have hs := two_zpow_pos s
  unfold rq
  rw [mul_div_assoc, div_self hs.ne', mul_one, rnE_intCast]

theorem rq_err (s : ℤ) (x : ℚ) : |rq s x - x| ≤ 2 ^ s / 2 := by
  have hs := two_zpow_pos s
  have h := rnE_abs_sub_le (x / 2 ^ s)
  have e : rq s x - x = ((rnE (x / 2 ^ s) : ℚ) - x / 2 ^ s) * 2 ^ s := by
    unfold rq; field_simp
  rw [e, abs_mul, abs_of_pos hs]
  calc |(rnE (x / 2 ^ s) : ℚ) - x / 2 ^ s| * 2 ^ s ≤ 1 / 2 * 2 ^ s :=
        mul_le_mul_of_nonneg_right h hs.le
    _ = 2 ^ s / 2 := by ring

theorem rq_scale (s k : ℤ) (x : ℚ) : rq (s + k) (x * 2 ^ k) = rq s x * 2 ^ k := by
  have hs := two_zpow_pos s
  have hk := two_zpow_pos k
  unfold rq
  rw [zpow_add₀ (by norm_num : (2 : ℚ) ≠ 0)]
  have : x * 2 ^ k / (2 ^ s * 2 ^ k) = x / 2 ^ s := by field_simp
  rw [this]; ring

/-! ### positive arguments -/

/-- the rounding of a positive rational to `p` significant bits -/
def rpos (p : ℕ) (x : ℚ) : ℚ := rq (Int.log 2 x - ((p : ℤ) - 1)) x

theorem rnePos_eq (p n d : ℕ) (hn : 0 < n) (hd : 0 < d) :
    rnePos p n d = rpos p ((n : ℚ) / d) := by
  have hdq : (0 : ℚ) < d := by exact_mod_cast hd
  unfold rnePos rpos rq
  simp only
  rw [floorLog2_eq n d hn hd]
  generalize Int.log 2 ((n : ℚ) / d) - ((p : ℤ) - 1) = s
  by_cases h0 : 0 ≤ s
  · rw [if_pos h0]
    obtain ⟨k, rfl⟩ := Int.eq_ofNat_of_zero_le h0
    have hpos : 0 < d * 2 ^ k := Nat.mul_pos hd (Nat.pow_pos (by norm_num))
    have := rneDiv_eq n (d * 2 ^ k) hpos
    rw [Int.toNat_natCast, zpow_natCast, Nat.cast_mul, ← Int.cast_natCast (rneDiv _ _), this]
    push_cast
    rw [div_div]
  · rw [if_neg h0]
    obtain ⟨k, hk⟩ := Int.eq_ofNat_of_zero_le (show 0 ≤ -s by omega)
    have := rneDiv_eq (n * 2 ^ k) d hd
    rw [hk, Int.toNat_natCast, Rat.mkRat_eq_div, this, show s = -(k : ℤ) by omega, zpow_neg,
      zpow_natCast]
    push_cast
    have h2 : (0 : ℚ) < 2 ^ k := by positivity
    congr 2
    field_simp

theorem rne_apply_zero (p : ℕ) : rne p 0 = 0 := by
  unfold rne; simp

theorem rne_of_pos (p : ℕ) {x : ℚ} (hx : 0 < x) : rne p x = rpos p x := by
  have hnum : 0 < x.num := Rat.num_pos.mpr hx
  unfold rne
  rw [if_neg (by omega), if_pos hnum, rnePos_eq p _ _ (by omega) x.den_pos]
  congr 1
  rw [Nat.cast_natAbs, abs_of_pos hnum]
  exact Rat.num_div_den x

theorem rne_neg (p : ℕ) (x : ℚ) : rne p (-x) = - rne p x := by
  unfold rne
  rw [Rat.neg_num, Rat.neg_den, Int.natAbs_neg]
  rcases lt_trichotomy x.num 0 with h | h | h
  · rw [if_neg (by omega), if_pos (by omega), if_neg (by omega), if_neg (by omega), neg_neg]
  · simp [h]
  · rw [if_neg (by omega), if_neg (by omega), if_neg (by omega), if_pos h]

theorem rne_of_neg (p : ℕ) {x : ℚ} (hx : x < 0) : rne p x = - rpos p (-x) := by
  rw [← rne_of_pos p (by linarith : 0 < -x), rne_neg, neg_neg]

/-- `(2:ℚ)^(p-1 : ℤ)` is the integer `2^(p-1)` when `1 ≤ p` -/
theorem two_zpow_pred (p : ℕ) (hp : 1 ≤ p) : (2 : ℚ) ^ ((p : ℤ) - 1) = ((2 ^ (p - 1) : ℤ) : ℚ) := by
  rw [show (p : ℤ) - 1 = ((p - 1 : ℕ) : ℤ) by omega, zpow_natCast]; push_cast; rfl

theorem rpos_ge (p : ℕ) (hp : 1 ≤ p) {x : ℚ} (hx : 0 < x) : (2 : ℚ) ^ Int.log 2 x ≤ rpos p x := by
  have e : (2 : ℚ) ^ Int.log 2 x
      = ((2 ^ (p - 1) : ℤ) : ℚ) * 2 ^ (Int.log 2 x - ((p : ℤ) - 1)) := by
    rw [← two_zpow_pred p hp, ← zpow_add₀ (by norm_num : (2 : ℚ) ≠ 0)]; congr 1; ring
  have h := rq_mono (Int.log 2 x - ((p : ℤ) - 1)) (ilog2_le hx)
  rw [e, rq_exact, ← e] at h
  exact h

theorem rpos_le (p : ℕ) {x : ℚ} (_hx : 0 < x) : rpos p x ≤ (2 : ℚ) ^ (Int.log 2 x + 1) := by
  have e : (2 : ℚ) ^ (Int.log 2 x + 1)
      = ((2 ^ p : ℤ) : ℚ) * 2 ^ (Int.log 2 x - ((p : ℤ) - 1)) := by
    rw [show ((2 ^ p : ℤ) : ℚ) = (2 : ℚ) ^ (p : ℤ) by rw [zpow_natCast]; push_cast; rfl,
      ← zpow_add₀ (by norm_num : (2 : ℚ) ≠ 0)]; congr 1; ring
  have h := rq_mono (Int.log 2 x - ((p : ℤ) - 1)) (ilog2_lt x).le
  rw [e, rq_exact, ← e] at h
  exact h

theorem rpos_pos (p : ℕ) (hp : 1 ≤ p) {x : ℚ} (hx : 0 < x) : 0 < rpos p x :=
  lt_of_lt_of_le (two_zpow_pos _) (rpos_ge p hp hx)

/-- monotonicity on positives: the exponent-bucket argument -/
theorem rpos_mono (p : ℕ) (hp : 1 ≤ p) {a b : ℚ} (ha : 0 < a) (h : a ≤ b) :
    rpos p a ≤ rpos p b := by
  have hb : 0 < b := lt_of_lt_of_le ha h
  rcases (ilog2_mono ha h).lt_or_eq with hlt | heq
  · calc rpos p a ≤ (2 : ℚ) ^ (Int.log 2 a + 1) := rpos_le p ha
      _ ≤ (2 : ℚ) ^ Int.log 2 b := zpow_le_zpow_right₀ (by norm_num) (by omega)
      _ ≤ rpos p b := rpos_ge p hp hb
  · unfold rpos; rw [heq]; exact rq_mono _ h

theorem rpos_scale (p : ℕ) {x : ℚ} (hx : 0 < x) (k : ℤ) :
    rpos p (x * 2 ^ k) = rpos p x * 2 ^ k := by
  unfold rpos
  rw [ilog2_mul_zpow hx, ← rq_scale]; congr 1; ring

theorem rpos_err (p : ℕ) {x : ℚ} (hx : 0 < x) : |rpos p x - x| ≤ x * (1 / 2 ^ p) := by
  have h := rq_err (Int.log 2 x - ((p : ℤ) - 1)) x
  have e : (2 : ℚ) ^ (Int.log 2 x - ((p : ℤ) - 1)) / 2 = 2 ^ Int.log 2 x * (1 / 2 ^ p) := by
    rw [show Int.log 2 x - ((p : ℤ) - 1) = Int.log 2 x + (-(p : ℤ) + 1) by ring,
      zpow_add₀ (by norm_num : (2 : ℚ) ≠ 0), zpow_add₀ (by norm_num : (2 : ℚ) ≠ 0), zpow_neg,
      zpow_natCast]
    field_simp
  rw [e] at h
  exact h.trans (mul_le_mul_of_nonneg_right (ilog2_le hx) (by positivity))

/-- positive integers below `2^p` are representable -/
theorem rpos_natCast (p : ℕ) {n : ℕ} (hn : 0 < n) (hlt : n < 2 ^ p) : rpos p (n : ℚ) = n := by
  have hnq : (0 : ℚ) < n := by exact_mod_cast hn
  have hlog : Int.log 2 (n : ℚ) < p := by
    have : (n : ℚ) < ((2 : ℕ) : ℚ) ^ (p : ℤ) := by
      rw [zpow_natCast]; exact_mod_cast hlt
    exact (Int.lt_zpow_iff_log_lt (by norm_num) hnq).mp this
  unfold rpos
  obtain ⟨k, hk⟩ := Int.eq_ofNat_of_zero_le
    (show 0 ≤ -(Int.log 2 (n : ℚ) - ((p : ℤ) - 1)) by omega)
  have hs : Int.log 2 (n : ℚ) - ((p : ℤ) - 1) = -(k : ℤ) := by omega
  have e : (n : ℚ) = ((n * 2 ^ k : ℤ) : ℚ) * 2 ^ (-(k : ℤ)) := by
    rw [zpow_neg, zpow_natCast]; push_cast; field_simp
  rw [hs]
  conv_lhs => rw [e]
  rw [rq_exact, ← e]

/-- anything of the form `m * 2^k` with `0 < m ≤ 2^p` is representable -/
theorem rpos_exact (p : ℕ) (hp : 1 ≤ p) {m : ℕ} (hm : 0 < m) (hle : m ≤ 2 ^ p) (k : ℤ) :
    rpos p ((m : ℚ) * 2 ^ k) = (m : ℚ) * 2 ^ k := by
  have hmq : (0 : ℚ) < m := by exact_mod_cast hm
  rcases Nat.lt_or_eq_of_le hle with hlt | heq
  · rw [rpos_scale p hmq, rpos_natCast p hm hlt]
  · have h1 : rpos p ((1 : ℕ) : ℚ) = ((1 : ℕ) : ℚ) :=
      rpos_natCast p Nat.one_pos (Nat.one_lt_two_pow (by omega))
    have e : (m : ℚ) * 2 ^ k = ((1 : ℕ) : ℚ) * 2 ^ ((p : ℤ) + k) := by
      rw [heq, zpow_add₀ (by norm_num : (2 : ℚ) ≠ 0), zpow_natCast]; push_cast; ring
    rw [e, rpos_scale p (by norm_num), h1]

theorem rpos_idem (p : ℕ) (hp : 1 ≤ p) {x : ℚ} (hx : 0 < x) : rpos p (rpos p x) = rpos p x := by
  have hpos := rpos_pos p hp hx
  have hle := rpos_le p hx
  -- `rpos p x = m * 2^s` with `0 < m ≤ 2^p`
  set s := Int.log 2 x - ((p : ℤ) - 1) with hs
  set m := rnE (x / 2 ^ s) with hm
  have hval : rpos p x = (m : ℚ) * 2 ^ s := rfl
  have h2s := two_zpow_pos s
  have hm0 : 0 < m := by
    have : (0 : ℚ) < (m : ℚ) * 2 ^ s := hval ▸ hpos
    have : (0 : ℚ) < m := (mul_pos_iff_of_pos_right h2s).mp this
    exact_mod_cast this
  have hmle : m ≤ 2 ^ p := by
    have e : (2 : ℚ) ^ (Int.log 2 x + 1) = (2 : ℚ) ^ (p : ℤ) * 2 ^ s := by
      rw [← zpow_add₀ (by norm_num : (2 : ℚ) ≠ 0)]; congr 1; rw [hs]; ring
    rw [hval, e, zpow_natCast] at hle
    have := le_of_mul_le_mul_right hle h2s
    exact_mod_cast this
  obtain ⟨mn, hmn⟩ := Int.eq_ofNat_of_zero_le hm0.le
  rw [hval, hmn, Int.cast_natCast]
  rw [hmn] at hm0 hmle
  exact rpos_exact p hp (by exact_mod_cast hm0) (by exact_mod_cast hmle) s

/-! ### all arguments -/

/-- proving an odd-symmetric predicate: zero, positives, closed under negation -/
theorem rat_odd_cases {Q : ℚ → Prop} (h0 : Q 0) (hpos : ∀ x, 0 < x → Q x)
    (hneg : ∀ x, 0 < x → Q x → Q (-x)) : ∀ x, Q x := by
  intro x
  rcases lt_trichotomy x 0 with h | h | h
  · have := hneg (-x) (by linarith) (hpos (-x) (by linarith)); rwa [neg_neg] at this
  · exact h ▸ h0
  · exact hpos x h

theorem rne_nonneg_of_nonneg (p : ℕ) (hp : 1 ≤ p) {x : ℚ} (hx : 0 ≤ x) : 0 ≤ rne p x := by
  rcases hx.lt_or_eq with h | h
  · rw [rne_of_pos p h]; exact (rpos_pos p hp h).le
  · rw [← h, rne_apply_zero]

theorem rne_mono (p : ℕ) (hp : 1 ≤ p) {a b : ℚ} (h : a ≤ b) : rne p a ≤ rne p b := by
  rcases lt_or_ge 0 a with ha | ha
  · rw [rne_of_pos p ha, rne_of_pos p (lt_of_lt_of_le ha h)]
    exact rpos_mono p hp ha h
  · rcases lt_or_ge b 0 with hb | hb
    · rw [rne_of_neg p hb, rne_of_neg p (lt_of_le_of_lt h hb)]
      exact neg_le_neg (rpos_mono p hp (by linarith) (by linarith))
    · have h1 : rne p a ≤ 0 := by
        have := rne_nonneg_of_nonneg p hp (show 0 ≤ -a by linarith)
        rw [rne_neg] at this; linarith
      exact h1.trans (rne_nonneg_of_nonneg p hp hb)

theorem rne_exact_int (p : ℕ) (n : ℤ) (h : n.natAbs < 2 ^ p) : rne p (n : ℚ) = n := by
  rcases lt_trichotomy n 0 with hn | hn | hn
  · have e : (n : ℚ) = -((n.natAbs : ℕ) : ℚ) := by
      rw [Nat.cast_natAbs, abs_of_neg hn]; push_cast; ring
    rw [e, rne_neg, rne_of_pos p (by exact_mod_cast Int.natAbs_pos.mpr hn.ne),
      rpos_natCast p (Int.natAbs_pos.mpr hn.ne) h]
  · subst hn; simpa using rne_apply_zero p
  · have e : (n : ℚ) = ((n.natAbs : ℕ) : ℚ) := by
      rw [Nat.cast_natAbs, abs_of_pos hn]
    rw [e, rne_of_pos p (by exact_mod_cast Int.natAbs_pos.mpr hn.ne'),
      rpos_natCast p (Int.natAbs_pos.mpr hn.ne') h]

theorem rne_scale (p : ℕ) (x : ℚ) (k : ℤ) : rne p (x * 2 ^ k) = rne p x * 2 ^ k := by
  have hk := two_zpow_pos k
  refine rat_odd_cases (Q := fun x => rne p (x * 2 ^ k) = rne p x * 2 ^ k) ?_ ?_ ?_ x
  · simp [rne_apply_zero]
  · intro x hx
    rw [rne_of_pos p hx, rne_of_pos p (mul_pos hx hk), rpos_scale p hx]
  · intro x _ ih
    rw [neg_mul, rne_neg, rne_neg, ih, neg_mul]

theorem rne_idem (p : ℕ) (hp : 1 ≤ p) (x : ℚ) : rne p (rne p x) = rne p x := by
  refine rat_odd_cases (Q := fun x => rne p (rne p x) = rne p x) ?_ ?_ ?_ x
  · rw [rne_apply_zero, rne_apply_zero]
  · intro x hx
    rw [rne_of_pos p hx, rne_of_pos p (rpos_pos p hp hx), rpos_idem p hp hx]
  · intro x _ ih
    rw [rne_neg, rne_neg, ih]

theorem rne_rel_err (p : ℕ) (x : ℚ) : |rne p x - x| ≤ |x| * (1 / 2 ^ p) := by
  refine rat_odd_cases (Q := fun x => |rne p x - x| ≤ |x| * (1 / 2 ^ p)) ?_ ?_ ?_ x
  · simp [rne_apply_zero]
  · intro x hx
    rw [rne_of_pos p hx, abs_of_pos hx]; exact rpos_err p hx
  · intro x _ ih
    rw [rne_neg, abs_neg, show -rne p x - -x = -(rne p x - x) by ring, abs_neg]; exact ih

/-- the executable model `rne p` is a rounding operator of precision `p`, for every `p ≥ 1` -/
theorem rounding_rne (p : ℕ) (hp : 1 ≤ p) : RoundingP p (rne p) where
  mono _ _ h := rne_mono p hp h
  zero := rne_apply_zero p
  neg := rne_neg p
  exact_int := rne_exact_int p
  exact_pow2_mul := rne_scale p
  idem := rne_idem p hp
  rel_err := rne_rel_err p

theorem rounding_rne53 : Rounding rne53 := rounding_rne 53 (by norm_num)
theorem rounding_rne24 : Rounding24 rne24 := rounding_rne 24 (by norm_num)

theorem rne53_mono {a b : ℚ} (h : a ≤ b) : rne53 a ≤ rne53 b := rounding_rne53.mono a b h
theorem rne24_mono {a b : ℚ} (h : a ≤ b) : rne24 a ≤ rne24 b := rounding_rne24.mono a b h

/-! concrete validation of the definitions the theorems are about (kernel-evaluated):
`0.1` in float64 / float32, and the two kinds of tie at `2^53` (down to even, up to even) -/
example : rne53 (1 / 10) = 3602879701896397 / 36028797018963968 := by decide +kernel
example : rne24 (1 / 10) = 13421773 / 134217728 := by decide +kernel
example : rne53 (2 ^ 53 + 1) = 2 ^ 53 := by decide +kernel
example : rne53 (2 ^ 53 + 3) = 2 ^ 53 + 4 := by decide +kernel
example : rne53 (-(2 ^ 53 + 3)) = -(2 ^ 53 + 4) := by decide +kernel
example : rne53 (1 / 3) * 2 ^ 200 = rne53 (2 ^ 200 / 3) := by decide +kernel
/-- the structure is not vacuous below precision 1 either: `id` is a rounding of any precision -/
example (p : ℕ) : RoundingP p id :=
  ⟨fun _ _ h => h, rfl, fun _ => rfl, fun _ _ => rfl, fun _ _ => rfl, fun _ => rfl,
   fun a => by simp only [id, sub_self, abs_zero]; positivity⟩

end NSV
