import NoteSeqVerif.Model.C14Spec
/-! C14 — helper lemmas about the building blocks of the model (heap update, defaultdict,
the three loops, the close-out).  Core Lean only. -/
namespace NSV.C14

/-! ### `setEnd`, `upd`, `dget`/`dset` -/
@[simp] theorem setEnd_end (nt : Note) (t : Rat) : (setEnd nt t).end_ = t := rfl
@[simp] theorem setEnd_pitch (nt : Note) (t : Rat) : (setEnd nt t).pitch = nt.pitch := rfl
@[simp] theorem setEnd_start (nt : Note) (t : Rat) : (setEnd nt t).start = nt.start := rfl
@[simp] theorem setEnd_instrument (nt : Note) (t : Rat) : (setEnd nt t).instrument = nt.instrument := rfl
@[simp] theorem setEnd_isDrum (nt : Note) (t : Rat) : (setEnd nt t).isDrum = nt.isDrum := rfl
@[simp] theorem setEnd_setEnd (nt : Note) (a b : Rat) : setEnd (setEnd nt a) b = setEnd nt b := rfl
@[simp] theorem setEnd_self (nt : Note) : setEnd nt nt.end_ = nt := rfl

theorem upd_apply {n} (s : Fin n → Note) (j i : Fin n) (v : Note) :
    upd s j v i = if i = j then v else s i := rfl

theorem dget_dset {β : Type} (d : List (Int × β)) (k k' : Int) (v x : β) :
    dget (dset d k v) k' x = if k' = k then v else dget d k' x := by
  induction d with
  | nil => simp [dset, dget]; grind
  | cons e r ih =>
    obtain ⟨k0, v0⟩ := e
    simp only [dset]
    split <;> simp [dget] <;> grind

theorem finRange_map_get {α} (l : List α) : (List.finRange l.length).map (fun i => l[i]) = l := by
  apply List.ext_getElem <;> simp

/-! ### the `_SUSTAIN_OFF` loop -/
theorem offLoop_spec {n} (t : Rat) (L : List (Fin n)) (store : Fin n → Note) (total : Rat)
    (hnd : L.Nodup) :
    (∀ i, (offLoop t L store total).1 i =
        if i ∈ L ∧ (store i).end_ < t then setEnd (store i) t else store i) ∧
    (offLoop t L store total).2.1 =
        (if ∃ j ∈ L, (store j).end_ < t then (if total < t then t else total) else total) ∧
    (offLoop t L store total).2.2 = L.filter (fun j => ¬ ((store j).end_ < t)) := by
  induction L generalizing store total with
  | nil => simp [offLoop]
  | cons j js ih =>
    have hj : j ∉ js := (List.nodup_cons.mp hnd).1
    have hjs : js.Nodup := (List.nodup_cons.mp hnd).2
    simp only [offLoop]
    split
    · rename_i hlt
      obtain ⟨h1, h2, h3⟩ := ih (upd store j (setEnd (store j) t)) (if total < t then t else total) hjs
      have hsame : ∀ x ∈ js, (upd store j (setEnd (store j) t) x).end_ = (store x).end_ := by
        intro x hx
        have : x ≠ j := fun h => hj (h ▸ hx)
        simp [upd_apply, this]
      refine ⟨?_, ?_, ?_⟩
      · intro i
        rw [h1 i]
        by_cases hij : i = j
        · subst hij; simp [upd_apply, hj, hlt]
        · simp [upd_apply, hij]
      · rw [h2]
        have e1 : (∃ x ∈ js, (upd store j (setEnd (store j) t) x).end_ < t) ↔ (∃ x ∈ js, (store x).end_ < t) := by
          constructor
          · rintro ⟨x, hx, h⟩; exact ⟨x, hx, by rw [← hsame x hx]; exact h⟩
          · rintro ⟨x, hx, h⟩; exact ⟨x, hx, by rw [hsame x hx]; exact h⟩
        have e2 : (∃ x ∈ j :: js, (store x).end_ < t) := ⟨j, by simp, hlt⟩
        have key : (if (if total < t then t else total) < t then t else (if total < t then t else total))
            = (if total < t then t else total) := by
          by_cases h : total < t <;> simp [h]
        simp only [e1, e2, if_true, key, ite_self]
      · rw [h3]
        simp only [List.filter_cons, hlt, not_true_eq_false, decide_false]
        apply List.filter_congr
        intro x hx
        simp [hsame x hx]
    · rename_i hlt
      obtain ⟨h1, h2, h3⟩ := ih store total hjs
      refine ⟨?_, ?_, ?_⟩
      · intro i
        simp only [h1 i]
        by_cases hij : i = j
        · subst hij; simp [hj, hlt]
        · simp [hij]
      · simp only [h2]
        have e : (∃ x ∈ j :: js, (store x).end_ < t) ↔ (∃ x ∈ js, (store x).end_ < t) := by
          constructor
          · rintro ⟨x, hx, h⟩
            rcases List.mem_cons.mp hx with rfl | hx
            · exact absurd h hlt
            · exact ⟨x, hx, h⟩
          · rintro ⟨x, hx, h⟩; exact ⟨x, List.mem_cons_of_mem _ hx, h⟩
        simp only [e]
      · simp only [h3]; simp [hlt]

/-! ### the `_NOTE_ON` loop under sustain -/
theorem strikeLoop_spec {n} (t : Rat) (k : Fin n) (L : List (Fin n)) (store : Fin n → Note)
    (seq : List (Fin n)) (hnd : L.Nodup)
    (hno : ∀ j ∈ L, (store j).pitch = (store k).pitch → (store j).start ≠ t) :
    ∃ store', strikeLoop t k L store seq =
        .ok (store', seq, L.filter (fun j => ¬ ((store j).pitch = (store k).pitch))) ∧
      ∀ i, store' i =
        if i ∈ L ∧ (store i).pitch = (store k).pitch then setEnd (store i) t else store i := by
  induction L generalizing store with
  | nil => exact ⟨store, by simp [strikeLoop], by simp⟩
  | cons j js ih =>
    have hj : j ∉ js := (List.nodup_cons.mp hnd).1
    have hjs : js.Nodup := (List.nodup_cons.mp hnd).2
    simp only [strikeLoop]
    split
    · rename_i hp
      have hst : (store j).start ≠ t := hno j (by simp) hp
      have hpitch : ∀ x, (upd store j (setEnd (store j) t) x).pitch = (store x).pitch := by
        intro x; by_cases h : x = j <;> simp [upd_apply, h]
      have hstart : ∀ x, (upd store j (setEnd (store j) t) x).start = (store x).start := by
        intro x; by_cases h : x = j <;> simp [upd_apply, h]
      obtain ⟨s', h1, h2⟩ := ih (upd store j (setEnd (store j) t)) hjs (by
        intro x hx hpx
        rw [hstart x]
        rw [hpitch x, hpitch k] at hpx
        exact hno x (List.mem_cons_of_mem _ hx) hpx)
      have hne : ¬ ((upd store j (setEnd (store j) t) j).start = (upd store j (setEnd (store j) t) j).end_) := by
        simp [upd_apply, hst]
      simp only [hne, if_false]
      refine ⟨s', ?_, ?_⟩
      · rw [h1]
        simp only [hpitch, List.filter_cons, hp, not_true_eq_false, decide_false]
        rfl
      · intro i
        rw [h2 i]
        simp only [hpitch]
        by_cases hij : i = j
        · subst hij; simp [upd_apply, hj, hp]
        · simp [upd_apply, hij]
    · rename_i hp
      obtain ⟨s', h1, h2⟩ := ih store hjs (fun x hx => hno x (List.mem_cons_of_mem _ hx))
      refine ⟨s', ?_, ?_⟩
      · rw [h1]; simp [hp]
      · intro i
        rw [h2 i]
        by_cases hij : i = j
        · subst hij; simp [hj, hp]
        · simp [hij]

/-! ### `if event in l: l.remove(event)` -/
theorem eraseVal_eq_erase {n} (store : Fin n → Note) (k : Fin n) (L : List (Fin n))
    (h : ∀ j ∈ L, store j = store k → j = k) : eraseVal store (store k) L = L.erase k := by
  induction L with
  | nil => simp [eraseVal]
  | cons j js ih =>
    simp only [eraseVal]
    by_cases hv : store j = store k
    · have : j = k := h j (by simp) hv
      subst this; simp
    · have hne : j ≠ k := fun e => hv (e ▸ rfl)
      simp only [hv, if_false]
      rw [ih (fun x hx => h x (List.mem_cons_of_mem _ hx))]
      rw [List.erase_cons_tail (by simpa using hne)]

/-! ### the close-out -/
theorem foldl_closeNote {n} (ids : List (Fin n)) (st : St n) :
    (∀ i, (ids.foldl closeNote st).store i =
        if i ∈ ids then setEnd (st.store i) st.time else st.store i) ∧
    (ids.foldl closeNote st).total =
        (if ids = [] then st.total else if st.total < st.time then st.time else st.total) ∧
    (ids.foldl closeNote st).seq = st.seq ∧ (ids.foldl closeNote st).time = st.time := by
  induction ids generalizing st with
  | nil => simp
  | cons j js ih =>
    obtain ⟨h1, h2, h3, h4⟩ := ih (closeNote st j)
    simp only [List.foldl_cons]
    refine ⟨?_, ?_, ?_, ?_⟩
    · intro i
      rw [h1 i]
      by_cases hij : i = j
      · subst hij; simp [closeNote, upd_apply]
      · simp [closeNote, upd_apply, hij]
    · rw [h2]
      simp only [closeNote, reduceCtorEq, if_false]
      by_cases h : st.total < st.time <;> by_cases h' : js = [] <;> simp [h, h']
    · rw [h3]; rfl
    · rw [h4]; rfl

/-! ### association lists with unique keys -/
theorem dset_keys {β : Type} (d : List (Int × β)) (k : Int) (v : β) :
    (dset d k v).map (·.1) = if k ∈ d.map (·.1) then d.map (·.1) else d.map (·.1) ++ [k] := by
  induction d with
  | nil => simp [dset]
  | cons e r ih =>
    obtain ⟨k0, v0⟩ := e
    simp only [dset]
    by_cases h : k0 = k
    · subst h; simp
    · have h' : ¬ k = k0 := fun e => h e.symm
      simp only [h, if_false, List.map_cons, ih, List.mem_cons, h', false_or]
      split <;> simp

theorem dset_keys_nodup {β : Type} (d : List (Int × β)) (k : Int) (v : β)
    (h : (d.map (·.1)).Nodup) : ((dset d k v).map (·.1)).Nodup := by
  rw [dset_keys]
  split
  · exact h
  · rename_i hk
    rw [List.nodup_append]
    refine ⟨h, by simp, ?_⟩
    intro a ha b hb
    simp at hb
    subst hb
    exact fun e => hk (e ▸ ha)

theorem dget_of_mem {β : Type} (d : List (Int × β)) (k : Int) (v x : β)
    (h : (d.map (·.1)).Nodup) (hm : (k, v) ∈ d) : dget d k x = v := by
  induction d with
  | nil => simp at hm
  | cons e r ih =>
    obtain ⟨k0, v0⟩ := e
    simp only [List.map_cons, List.nodup_cons] at h
    rcases List.mem_cons.mp hm with heq | hm
    · cases heq; simp [dget]
    · have : k0 ≠ k := by
        intro e; subst e
        exact h.1 (List.mem_map.mpr ⟨(k0, v), hm, rfl⟩)
      simp [dget, this, ih h.2 hm]

theorem mem_of_dget_ne {β : Type} (d : List (Int × β)) (k : Int) (x : β) (h : dget d k x ≠ x) :
    (k, dget d k x) ∈ d := by
  induction d with
  | nil => simp [dget] at h
  | cons e r ih =>
    obtain ⟨k0, v0⟩ := e
    by_cases hk : k0 = k
    · subst hk; simp [dget]
    · simp only [dget, hk, if_false] at h ⊢
      exact List.mem_cons_of_mem _ (ih h)

end NSV.C14
