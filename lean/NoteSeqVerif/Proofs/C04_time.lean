import NoteSeqVerif.Proofs.C04
import Mathlib.Tactic.Linarith
import Mathlib.Tactic.Ring
import Mathlib.Tactic.FieldSimp
import Mathlib.Data.Rat.Defs
/-! helper lemmas for the exact-arithmetic (`R = id`) length / onset theorems of C04 -/
namespace NSV.C04
open NSV

/-- ABC 2.1 §4.3 note-length shorthands as a factor of the unit note length: `A` 1, `An` n,
`A/` ½, `A//` ¼ …, `A/d` 1/d, `An/` n/2, `An/d` n/d (0 for the spellings the parser rejects) -/
def specFactor (l : LenSpec) : Rat :=
  match l.num, l.slashes, l.den with
  | none, 0, _ => 1
  | some n, 0, _ => n
  | none, k + 1, none => 1 / (2 : Rat) ^ (k + 1)
  | none, 1, some d => 1 / (d : Rat)
  | some n, 1, none => (n : Rat) / 2
  | some n, 1, some d => (n : Rat) / (d : Rat)
  | _, _, _ => 0

theorem noteLength_ok {u : Rat} {l : LenSpec} {x : Rat} (h : noteLength u l = .ok x) : x = u * specFactor l := by
  unfold noteLength at h
  unfold specFactor
  split at h
  all_goals first
    | (simp at h; done)
    | (simp only [Except.ok.injEq] at h; subst h; simp_all <;> ring)
    | (split at h
       · simp at h
       · simp only [Except.ok.injEq] at h; subst h; simp_all <;> ring)

theorem seconds_exact {q len dt : Rat} (h : seconds id q len = .ok dt) : q ≠ 0 ∧ dt = len * 240 / q := by
  unfold seconds at h
  simp only [id] at h
  split at h
  · simp at h
  · rename_i hx
    have hq : q ≠ 0 := by
      intro h0; apply hx; rw [h0]; simp
    simp only [Except.ok.injEq] at h
    refine ⟨hq, ?_⟩
    rw [← h]
    field_simp
    ring

theorem sumBeats_ok {beats : List (Nat × Nat)} {s : Rat} (h : sumBeats beats = .ok s) :
    s = (beats.map (fun b => (b.1 : Rat) / (b.2 : Rat))).sum := by
  induction beats generalizing s with
  | nil => simp only [sumBeats, Except.ok.injEq] at h; subst h; simp
  | cons b r ih =>
    obtain ⟨n, d⟩ := b
    simp only [sumBeats] at h
    split at h
    · simp at h
    · split at h
      · simp at h
      · rename_i s' hs
        simp only [Except.ok.injEq] at h
        rw [← h, ih hs]; simp

theorem qpm_append (st : St) (ts : List (Rat × Rat)) (t q : Rat) (h : st.tempos = ts ++ [(t, q)]) : qpm st = q := by
  simp [qpm, h]

/-! ## the unit length and tempo in force, and the notated durations -/

/-- unit note length (whole notes) and tempo (quarters per minute) in force -/
structure Ctx where
  unit : Rat
  qpm : Rat

/-- ABC 2.1 in the tune body: `L:n/d` sets the unit length, `Q:a/b c/d=r` the tempo to `r` beats of
length `a/b + c/d` per minute (`qpm = 4·(a/b + c/d)·r`), a bare `Q:r` to `r` unit lengths per minute -/
def fieldCtx (c : Ctx) : Field → Ctx
  | .unitLen n d => { c with unit := (n : Rat) / (d : Rat) }
  | .tempo beats r => { c with qpm := 4 * (beats.map (fun b => (b.1 : Rat) / (b.2 : Rat))).sum * (r : Rat) }
  | .tempoOld r => { c with qpm := 4 * c.unit * (r : Rat) }
  | _ => c

def itemCtx (c : Ctx) : Item → Ctx
  | .field f => fieldCtx c f
  | .tok (.inline f) => fieldCtx c f
  | _ => c

/-- seconds of every note token: `unit · factor` whole notes at `240/qpm` seconds per whole note,
with the unit length and tempo in force at the token -/
def specDurs (c : Ctx) : List Item → List Rat
  | [] => []
  | .tok (.note _ _ _ len) :: r => c.unit * specFactor len * 240 / c.qpm :: specDurs c r
  | i :: r => specDurs (itemCtx c i) r

/-- consecutive intervals: onset_k = t + Σ_{j<k} d_j -/
def spans (t : Rat) : List Rat → List (Rat × Rat)
  | [] => []
  | d :: r => (t, t + d) :: spans (t + d) r

theorem spans_getElem (t : Rat) (ds : List Rat) (k : Nat) (hk : k < ds.length) :
    (spans t ds)[k]? = some (t + (ds.take k).sum, t + (ds.take (k + 1)).sum) := by
  induction ds generalizing t k with
  | nil => simp at hk
  | cons d r ih =>
    cases k with
    | zero => simp [spans]
    | succ k =>
      simp only [spans, List.getElem?_cons_succ, List.take_succ_cons, List.sum_cons]
      rw [ih (t + d) k (by simpa using hk)]
      simp only [Option.some.injEq, Prod.mk.injEq]
      constructor <;> ring

def span (n : Note) : Rat × Rat := (n.start, n.end_)

def isBrokenItem : Item → Bool
  | .tok (.broken _ _) => true
  | _ => false

/-- the body-phase invariant -/
structure Body (st : St) (c : Ctx) : Prop where
  inHeader : st.inHeader = false
  unit : st.unit = some c.unit
  qpm : qpm st = c.qpm
  broken : st.broken = none

theorem parseField_body {st st' : St} {c : Ctx} {f : Field} (hb : Body st c) (h : parseField id st f = .ok st') :
    Body st' (fieldCtx c f) := by
  obtain ⟨_, _, hbr, _, _, _, _, hih, _⟩ := parseField_frame h
  have hih' : st'.inHeader = false := by rw [hih, hb.inHeader]
  have hbr' : st'.broken = none := by rw [hbr, hb.broken]
  cases f with
  | tempo beats rate =>
    simp only [parseField] at h
    split at h
    · simp at h
    rename_i s hs
    simp only [setTempo, hb.inHeader, Bool.false_eq_true, ↓reduceIte, addTempo, Except.ok.injEq] at h
    subst h
    refine ⟨hih', hb.unit, ?_, hbr'⟩
    rw [qpm_append _ _ _ _ rfl]
    simp only [fieldCtx, id, sumBeats_ok hs]
    ring
  | tempoOld rate =>
    simp only [parseField, setTempo, hb.inHeader, Bool.false_eq_true, ↓reduceIte, addTempo, hb.unit,
      Except.ok.injEq] at h
    subst h
    refine ⟨hih', rfl, ?_, hbr'⟩
    rw [qpm_append _ _ _ _ rfl]
    simp only [fieldCtx, id]
    ring
  | unitLen n d =>
    simp only [parseField] at h
    split at h
    · simp at h
    · simp only [Except.ok.injEq] at h; subst h
      exact ⟨hih', rfl, hb.qpm, hbr'⟩
  | key k =>
    simp only [parseField] at h
    split at h
    · simp at h
    · simp only [Except.ok.injEq] at h; subst h
      exact ⟨hih', hb.unit, hb.qpm, hbr'⟩
  | title s =>
    simp only [parseField] at h
    split at h <;> (simp only [Except.ok.injEq] at h; subst h; exact ⟨hih', hb.unit, hb.qpm, hbr'⟩)
  | refnum _ | composer _ | meterC | meterCut | meterNone | meter _ _ | tempoStr | other =>
    simp only [parseField, Except.ok.injEq] at h; subst h; exact ⟨hih', hb.unit, hb.qpm, hbr'⟩
  | refBad | meterBad | unitBad | tempoBad | keyBad | part | voice =>
    simp [parseField] at h

theorem qpm_congr {st st' : St} (h : st'.tempos = st.tempos) : qpm st' = qpm st := by
  simp [qpm, h]

/-- one non-broken-rhythm item in the body phase, exact arithmetic -/
theorem stepItem_body {st st' : St} {c : Ctx} {i : Item} (hb : Body st c) (hnb : isBrokenItem i = false)
    (h : stepItem id st i = .ok st') :
    Body st' (itemCtx c i) ∧
    ((∃ a l o len, i = .tok (.note a l o len) ∧
        st'.notes.map span = st.notes.map span ++ [(st.time, st.time + c.unit * specFactor len * 240 / c.qpm)] ∧
        st'.time = st.time + c.unit * specFactor len * 240 / c.qpm) ∨
     (isNote i = false ∧ st'.notes.map span = st.notes.map span ∧ st'.time = st.time)) := by
  cases i with
  | field f =>
    simp only [stepItem] at h
    obtain ⟨hn, _, _, ht, _⟩ := parseField_frame h
    exact ⟨parseField_body hb h, .inr ⟨rfl, by rw [hn], ht⟩⟩
  | start =>
    simp only [stepItem] at h
    simp only [startMusic, hb.inHeader, Bool.false_eq_true, ↓reduceIte, Except.ok.injEq] at h
    subst h
    exact ⟨⟨rfl, hb.unit, hb.qpm, rfl⟩, .inr ⟨rfl, rfl, rfl⟩⟩
  | tok t =>
    simp only [stepItem] at h
    rcases stepTok_cases h with ⟨a, l, o, n, rfl⟩ | ⟨f, rfl⟩ | ⟨a, b, c', rfl⟩ | ⟨n, rfl⟩ | ⟨gt, n, rfl, rfl⟩ |
      ⟨s, rfl, rfl⟩ | ⟨rfl, ht⟩
    · simp only [stepTok] at h
      obtain ⟨base, delta, barAcc', u, len, dt, notes', _, _, _, _, hu, hlen, hdt, hn, rfl⟩ := stepNote_ok h
      rw [hb.unit] at hu
      simp only [Option.some.injEq] at hu; subst hu
      rw [hb.qpm] at hdt
      obtain ⟨_, rfl⟩ := seconds_exact hdt
      have hlen' := noteLength_ok hlen
      subst hlen'
      rw [hb.broken] at hn
      simp only at hn
      subst hn
      refine ⟨⟨hb.inHeader, hb.unit, hb.qpm, rfl⟩, .inl ⟨a, l, o, n, rfl, ?_, rfl⟩⟩
      simp [span, newNote]
    · simp only [stepTok] at h
      obtain ⟨hn, _, _, ht, _⟩ := parseField_frame h
      exact ⟨parseField_body hb h, .inr ⟨rfl, by rw [hn], ht⟩⟩
    · simp only [stepTok] at h
      obtain ⟨secs, g, e, rfl⟩ := stepBar_shape h
      exact ⟨⟨hb.inHeader, hb.unit, hb.qpm, hb.broken⟩, .inr ⟨rfl, rfl, rfl⟩⟩
    · simp only [stepTok] at h
      obtain ⟨secs, g, e, rfl⟩ := stepColons_shape h
      exact ⟨⟨hb.inHeader, hb.unit, hb.qpm, hb.broken⟩, .inr ⟨rfl, rfl, rfl⟩⟩
    · simp [isBrokenItem] at hnb
    · exact ⟨⟨hb.inHeader, hb.unit, hb.qpm, hb.broken⟩, .inr ⟨rfl, rfl, rfl⟩⟩
    · rcases ht with rfl | rfl | rfl | rfl <;>
        exact ⟨⟨hb.inHeader, hb.unit, hb.qpm, hb.broken⟩, .inr ⟨rfl, rfl, rfl⟩⟩

theorem spans_append (t : Rat) (a b : List Rat) : spans t (a ++ b) = spans t a ++ spans (t + a.sum) b := by
  induction a generalizing t with
  | nil => simp [spans]
  | cons d r ih => simp [spans, ih, add_assoc]

/-- the body fold, exact arithmetic, no broken-rhythm tokens -/
theorem runItems_body {st st' : St} {c : Ctx} {items : List Item} (hb : Body st c)
    (hnb : ∀ i ∈ items, isBrokenItem i = false) (h : runItems id st items = .ok st') :
    st'.notes.map span = st.notes.map span ++ spans st.time (specDurs c items) ∧
    st'.time = st.time + (specDurs c items).sum := by
  induction items generalizing st c with
  | nil =>
    simp only [runItems, Except.ok.injEq] at h; subst h
    simp [specDurs, spans]
  | cons i r ih =>
    simp only [runItems] at h
    split at h
    · simp at h
    rename_i st1 h1
    obtain ⟨hb1, hcase⟩ := stepItem_body hb (hnb i (by simp)) h1
    obtain ⟨ihn, iht⟩ := ih hb1 (fun j hj => hnb j (by simp [hj])) h
    rcases hcase with ⟨a, l, o, len, rfl, hn, ht⟩ | ⟨hni, hn, ht⟩
    · simp only [itemCtx] at ihn iht
      simp only [specDurs, spans, List.sum_cons]
      rw [ihn, iht, hn, ht]
      constructor
      · simp
      · ring
    · have hs : specDurs c (i :: r) = specDurs (itemCtx c i) r := by
        cases i with
        | tok t => cases t <;> simp_all [specDurs, isNote]
        | field f => simp [specDurs]
        | start => simp [specDurs]
      rw [hs, ihn, iht, hn, ht]
      exact ⟨rfl, rfl⟩

/-! ## broken rhythm, exact arithmetic -/

theorem tolerance_pos : (0 : Rat) < Gen.BROKEN_TOLERANCE := by
  unfold Gen.BROKEN_TOLERANCE; norm_num

/-- `_apply_broken_rhythm` on two notes of equal length `d`: `k` marks move `d·(1 − 2^-k)` -/
theorem applyBroken_exact (pre : List Note) (n1 n2 : Note) (gt : Bool) (k : Nat)
    (hlen : n1.end_ - n1.start = n2.end_ - n2.start) :
    applyBroken id (pre ++ [n1, n2]) gt k =
      .ok (pre ++ [{ n1 with end_ := if gt then n1.end_ + ((n1.end_ - n1.start) - (n1.end_ - n1.start) / 2 ^ k)
                                      else n1.end_ - ((n1.end_ - n1.start) - (n1.end_ - n1.start) / 2 ^ k) },
                   { n2 with start := if gt then n2.start + ((n1.end_ - n1.start) - (n1.end_ - n1.start) / 2 ^ k)
                                       else n2.start - ((n1.end_ - n1.start) - (n1.end_ - n1.start) / 2 ^ k) }]) := by
  unfold applyBroken
  have hrev : (pre ++ [n1, n2]).reverse = n2 :: n1 :: pre.reverse := by simp
  rw [hrev]
  simp only [id, List.reverse_reverse]
  have h0 : n1.end_ - n1.start - (n2.end_ - n2.start) = 0 := by rw [hlen]; ring
  have hp := tolerance_pos
  rw [h0]
  rw [if_neg (by intro hc; rcases hc with hc | hc <;> linarith)]
  cases gt <;> simp

/-! ## end of the header, exact arithmetic -/

/-- ABC 2.1 §3.1.7: default unit note length from the meter(s) of the header (`none`: the parser
rejects the header: zero denominator or more than one meter) -/
def defaultUnit : List (Rat × Int × Int) → Option Rat
  | [] => some (1 / 8)
  | [(_, n, d)] => if d = 0 then none else if (n : Rat) / (d : Rat) < 3 / 4 then some (1 / 16) else some (1 / 8)
  | _ => none

/-- the unit note length at the end of the header: the last `L:` if it is non-zero, else the default -/
def unitAtEnd (explicit : Option Rat) (meters : List (Rat × Int × Int)) : Option Rat :=
  match explicit with
  | some x => if x ≠ 0 then some x else defaultUnit meters
  | none => defaultUnit meters

/-- the tempo list at the end of the header -/
def tempoAtEnd (u : Rat) (t : Rat) : Option (Option Rat × Nat) → List (Rat × Rat)
  | some (some b, r) => if r = 0 then [] else [(t, 4 * b * (r : Rat))]
  | some (none, r) => if r = 0 then [] else [(t, 4 * u * (r : Rat))]
  | none => []

theorem setUnitFromHeader_exact {st st' : St} (h : setUnitFromHeader id st = .ok st') :
    ∃ u, unitAtEnd st.unit st.timeSigs = some u ∧ st' = { st with unit := some u } := by
  unfold setUnitFromHeader at h
  split at h
  · rename_i hs
    simp only [Except.ok.injEq] at h; subst h
    cases hu : st.unit with
    | none => simp [unitSet, hu] at hs
    | some x =>
      have : x ≠ 0 := by simpa [unitSet, hu] using hs
      exact ⟨x, by simp [unitAtEnd, this], by cases st; simp_all⟩
  · rename_i hs
    have hd : unitAtEnd st.unit st.timeSigs = defaultUnit st.timeSigs := by
      unfold unitAtEnd
      cases hu : st.unit with
      | none => rfl
      | some x =>
        have : x = 0 := by simpa [unitSet, hu] using hs
        simp [this]
    rw [hd]
    split at h
    · rename_i hts
      simp only [Except.ok.injEq] at h
      exact ⟨1 / 8, by simp [hts, defaultUnit], by rw [← h]; simp [Gen.UNIT_FREE]⟩
    · rename_i t n d hts
      split at h
      · simp at h
      rename_i hd0
      split at h
      · rename_i hlt
        simp only [Except.ok.injEq] at h
        simp only [id, Gen.UNIT_THRESHOLD] at hlt
        exact ⟨1 / 16, by simp [hts, defaultUnit, hd0, hlt], by rw [← h]; simp [Gen.UNIT_BELOW]⟩
      · rename_i hlt
        simp only [Except.ok.injEq] at h
        simp only [id, Gen.UNIT_THRESHOLD] at hlt
        exact ⟨1 / 8, by simp [hts, defaultUnit, hd0, hlt], by rw [← h]; simp [Gen.UNIT_OTHERWISE]⟩
    · simp at h

theorem finishHeader_exact {st st' : St} (h : finishHeader id st = .ok st') :
    ∃ u, unitAtEnd st.unit st.timeSigs = some u ∧
      st' = { st with unit := some u, tempos := st.tempos ++ tempoAtEnd u st.time (pendingTempo st) } := by
  unfold finishHeader at h
  split at h
  · simp at h
  rename_i st1 h1
  obtain ⟨u, hu, rfl⟩ := setUnitFromHeader_exact h1
  refine ⟨u, hu, ?_⟩
  have e : ∀ x : Rat, ∀ r : Nat, x / (1 / 4) * (r : Rat) = 4 * x * r := fun x r => by ring
  simp only at h
  cases hr : st.hdrTempoRate with
  | none =>
    simp only [hr, Except.ok.injEq] at h
    rw [← h]; simp [pendingTempo, hr, tempoAtEnd]
  | some r =>
    simp only [hr] at h
    by_cases hr0 : r = 0
    · simp only [hr0, ne_eq, not_true_eq_false, ↓reduceIte, Except.ok.injEq] at h
      rw [← h]
      cases hb : st.hdrTempoUnit <;> simp [pendingTempo, hr, hb, tempoAtEnd, hr0]
    · simp only [ne_eq, hr0, not_false_eq_true, ↓reduceIte] at h
      cases hb : st.hdrTempoUnit with
      | none =>
        simp only [addTempo, hb, id, Except.ok.injEq, e] at h
        rw [← h]; simp [pendingTempo, hr, hb, tempoAtEnd, hr0]
      | some b =>
        simp only [addTempo, hb, id, Except.ok.injEq, e] at h
        rw [← h]; simp [pendingTempo, hr, hb, tempoAtEnd, hr0]

end NSV.C04
