import NoteSeqVerif.Proofs.C02Extract
/-! C02 — the state in effect at every instant of a piece equals the one in effect at the
corresponding instant of the original (generic lemma for the four state kinds, `R = id`). -/
namespace NSV.C02

/-- `inEffect time evs t`: the last event, in stable time order, with time ≤ `t` -/
def inEffect {α : Type} (time : α → Rat) (evs : List α) (t : Rat) : Option α :=
  ((sortByRat time evs).filter (fun e => decide (time e ≤ t))).getLast?

theorem sorted_filter_le_split {α : Type} (time : α → Rat) (S : List α)
    (hS : S.Pairwise (fun x y => time x ≤ time y)) (x y : Rat) (hxy : x ≤ y) :
    S.filter (fun e => decide (time e ≤ y)) =
      S.filter (fun e => decide (time e ≤ x)) ++
      S.filter (fun e => decide (x < time e) && decide (time e ≤ y)) := by
  induction S with
  | nil => simp
  | cons e es ih =>
    have hes := (List.pairwise_cons.mp hS).2
    have hle := (List.pairwise_cons.mp hS).1
    by_cases hx : time e ≤ x
    · have hy : time e ≤ y := Rat.le_trans hx hxy
      have hnx : ¬ x < time e := Rat.not_lt.mpr hx
      simp [hx, hy, hnx, ih hes]
    · have hx' : x < time e := Rat.not_le.mp hx
      have hnil : (e :: es).filter (fun e => decide (time e ≤ x)) = [] := by
        rw [List.filter_eq_nil_iff]
        intro e' he'
        rcases List.mem_cons.mp he' with h | h
        · subst h; simpa using hx
        · have := hle e' h
          simp; grind
      rw [hnil, List.nil_append]
      apply List.filter_congr
      intro e' he'
      have : x < time e' := by
        rcases List.mem_cons.mp he' with h | h
        · subst h; exact hx'
        · have := hle e' h; grind
      simp [this]

theorem getLast?_map' {α β : Type} (f : α → β) (l : List α) : (l.map f).getLast? = l.getLast?.map f := by
  simp [List.getLast?_map]

/-- `specState` over an already sorted list -/
def specStateS {α : Type} (R : Rat → Rat) (time : α → Rat) (setTime : α → Rat → α) (S : List α)
    (a b : Rat) : List α :=
  (match (S.filter (fun e => decide (time e ≤ a))).getLast? with
    | none => []
    | some e => [setTime e 0]) ++
  (S.filter (fun e => decide (a < time e) && decide (time e < b))).map (fun e => setTime e (R (time e - a)))

theorem specState_eq {α : Type} (R : Rat → Rat) (time : α → Rat) (setTime : α → Rat → α) (evs : List α)
    (a b : Rat) : specState R time setTime evs a b = specStateS R time setTime (sortByRat time evs) a b := rfl

theorem specStateS_sorted {α : Type} (time : α → Rat) (setTime : α → Rat → α)
    (htime : ∀ e t, time (setTime e t) = t) (S : List α)
    (hS : S.Pairwise (fun x y => time x ≤ time y)) (a b : Rat) :
    (specStateS id time setTime S a b).Pairwise (fun x y => time x ≤ time y) := by
  unfold specStateS
  rw [List.pairwise_append]
  refine ⟨?_, ?_, ?_⟩
  · cases (S.filter (fun e => decide (time e ≤ a))).getLast? <;> simp
  · rw [List.pairwise_map]
    refine (hS.filter _).imp ?_
    intro x y hxy
    simp only [htime, id]
    grind
  · intro x hx y hy
    have hx0 : time x = 0 := by
      cases h : (S.filter (fun e => decide (time e ≤ a))).getLast? with
      | none => simp [h] at hx
      | some e => simp [h] at hx; subst hx; exact htime e 0
    obtain ⟨e, he, rfl⟩ := List.mem_map.mp hy
    have := (List.mem_filter.mp he).2
    simp only [htime, id, hx0]
    simp at this
    grind

/-- core of the in-effect argument, over a sorted list -/
theorem specStateS_last {α β : Type} (time : α → Rat) (setTime : α → Rat → α) (val : α → β)
    (htime : ∀ e t, time (setTime e t) = t) (hval : ∀ e t, val (setTime e t) = val e)
    (S : List α) (hS : S.Pairwise (fun x y => time x ≤ time y)) (a b τ : Rat) (h0 : 0 ≤ τ) (h1 : τ < b - a) :
    ((specStateS id time setTime S a b).filter (fun e => decide (time e ≤ τ))).getLast?.map val =
      (S.filter (fun e => decide (time e ≤ a + τ))).getLast?.map val := by
  rw [sorted_filter_le_split time S hS a (a + τ) (by grind)]
  unfold specStateS
  rw [List.filter_append, List.getLast?_append, List.getLast?_append]
  have hcarry : ∀ o : Option α,
      ((match o with | none => ([] : List α) | some e => [setTime e 0]).filter
        (fun e => decide (time e ≤ τ))).getLast?.map val = o.map val := by
    intro o
    cases o with
    | none => simp
    | some e => simp [htime, h0, hval]
  have hins : (((S.filter (fun e => decide (a < time e) && decide (time e < b))).map
        (fun e => setTime e (id (time e - a)))).filter (fun e => decide (time e ≤ τ))).getLast?.map val =
      (S.filter (fun e => decide (a < time e) && decide (time e ≤ a + τ))).getLast?.map val := by
    rw [List.filter_map, List.filter_filter, getLast?_map', Option.map_map]
    have hf : S.filter (fun e => ((fun e => decide (time e ≤ τ)) ∘ fun e => setTime e (id (time e - a))) e &&
          (decide (a < time e) && decide (time e < b))) =
        S.filter (fun e => decide (a < time e) && decide (time e ≤ a + τ)) := by
      apply List.filter_congr
      intro e _
      simp only [Function.comp, htime, id]
      by_cases h1' : a < time e <;> by_cases h2 : time e ≤ a + τ <;> simp [h1', h2] <;> grind
    rw [hf]
    congr 1
    funext e
    simp [hval]
  rw [Option.map_or, Option.map_or, hins]
  congr 1
  exact hcarry _

/-- **generic in-effect lemma** (exact arithmetic) -/
theorem specState_in_effect {α β : Type} (time : α → Rat) (setTime : α → Rat → α) (val : α → β)
    (htime : ∀ e t, time (setTime e t) = t) (hval : ∀ e t, val (setTime e t) = val e)
    (evs : List α) (a b τ : Rat) (h0 : 0 ≤ τ) (h1 : τ < b - a) :
    (inEffect time (specState id time setTime evs a b) τ).map val =
      (inEffect time evs (a + τ)).map val := by
  have hS := sortByRat_pairwise time evs
  unfold inEffect
  rw [specState_eq, sortByRat_of_pairwise time _ (specStateS_sorted time setTime htime _ hS a b)]
  exact specStateS_last time setTime val htime hval _ hS a b τ h0 h1

/-- every event of a piece lies inside the piece: `0 ≤ time < b - a` (so an event exactly at the end
`b` of a piece is not in it: it is the carried state of the next piece) -/
theorem specState_times {α : Type} (time : α → Rat) (setTime : α → Rat → α)
    (htime : ∀ e t, time (setTime e t) = t) (evs : List α) (a b : Rat) (hab : a < b) :
    ∀ x ∈ specState id time setTime evs a b, 0 ≤ time x ∧ time x < b - a := by
  intro x hx
  unfold specState at hx
  rcases List.mem_append.mp hx with h | h
  · cases hl : ((sortByRat time evs).filter (fun e => decide (time e ≤ a))).getLast? with
    | none => simp [hl] at h
    | some e => simp [hl] at h; subst h; rw [htime]; grind
  · obtain ⟨e, he, rfl⟩ := List.mem_map.mp h
    have := (List.mem_filter.mp he).2
    simp at this
    simp only [htime, id]
    grind

/-! ## pedals: per (instrument, control number) -/

/-- the last pedal event, in stable time order, of the key `κ` with time ≤ `t` -/
def inEffectKey (ccs : List CC) (κ : PedalKey) (t : Rat) : Option CC :=
  (((sortByRat (·.time) ccs).filter (fun e => decide (CC.key e = κ))).filter
    (fun e => decide (e.time ≤ t))).getLast?

/-- entries of the association list whose value has key `κ` -/
def proj (κ : PedalKey) (m : List (PedalKey × CC)) : List CC :=
  (m.map (·.2)).filter (fun e => decide (CC.key e = κ))

/-- association-list invariant: every value is stored under its own key, keys are distinct -/
def AInv (m : List (PedalKey × CC)) : Prop :=
  (∀ kv ∈ m, CC.key kv.2 = kv.1) ∧ m.Pairwise (fun x y => x.1 ≠ y.1)

theorem proj_eq_nil_of_not_mem (κ : PedalKey) (m : List (PedalKey × CC))
    (h1 : ∀ kv ∈ m, CC.key kv.2 = kv.1) (h2 : ∀ kv ∈ m, kv.1 ≠ κ) : proj κ m = [] := by
  unfold proj
  rw [List.filter_eq_nil_iff]
  intro e he
  obtain ⟨kv, hkv, rfl⟩ := List.mem_map.mp he
  simp [h1 kv hkv, h2 kv hkv]

theorem assocSet_inv (m : List (PedalKey × CC)) (e : CC) (h : AInv m) :
    AInv (assocSet m (CC.key e) e) ∧
      (∀ kv ∈ assocSet m (CC.key e) e, kv ∈ m ∨ kv = (CC.key e, e)) ∧
      (∀ k, (∀ kv ∈ m, kv.1 ≠ k) → k ≠ CC.key e → ∀ kv ∈ assocSet m (CC.key e) e, kv.1 ≠ k) := by
  induction m with
  | nil =>
    refine ⟨⟨?_, ?_⟩, ?_, ?_⟩
    · intro kv hkv; simp [assocSet] at hkv; subst hkv; rfl
    · simp [assocSet]
    · intro kv hkv; simp [assocSet] at hkv; exact Or.inr hkv
    · intro k _ hne kv hkv; simp [assocSet] at hkv; subst hkv; exact fun h => hne h.symm
  | cons x r ih =>
    obtain ⟨h1, h2⟩ := h
    have hr : AInv r := ⟨fun kv hkv => h1 kv (List.mem_cons_of_mem _ hkv), (List.pairwise_cons.mp h2).2⟩
    obtain ⟨⟨i1, i2⟩, i3, i4⟩ := ih hr
    by_cases hk : x.1 = CC.key e
    · simp only [assocSet, hk, ↓reduceIte]
      refine ⟨⟨?_, ?_⟩, ?_, ?_⟩
      · intro kv hkv
        rcases List.mem_cons.mp hkv with h | h
        · subst h; rfl
        · exact h1 kv (List.mem_cons_of_mem _ h)
      · refine List.pairwise_cons.mpr ⟨?_, (List.pairwise_cons.mp h2).2⟩
        intro y hy
        have := (List.pairwise_cons.mp h2).1 y hy
        simpa [hk] using this
      · intro kv hkv
        rcases List.mem_cons.mp hkv with h | h
        · exact Or.inr h
        · exact Or.inl (List.mem_cons_of_mem _ h)
      · intro k hm hne kv hkv
        rcases List.mem_cons.mp hkv with h | h
        · subst h; exact fun h => hne h.symm
        · exact hm kv (List.mem_cons_of_mem _ h)
    · simp only [assocSet, hk, ↓reduceIte]
      refine ⟨⟨?_, ?_⟩, ?_, ?_⟩
      · intro kv hkv
        rcases List.mem_cons.mp hkv with h | h
        · subst h; exact h1 _ (by simp)
        · exact i1 kv h
      · refine List.pairwise_cons.mpr ⟨?_, i2⟩
        intro y hy
        exact fun hxy => i4 x.1 (fun kv hkv => ((List.pairwise_cons.mp h2).1 kv hkv).symm) hk y hy hxy.symm
      · intro kv hkv
        rcases List.mem_cons.mp hkv with h | h
        · exact Or.inl (h ▸ List.mem_cons_self)
        · rcases i3 kv h with h' | h'
          · exact Or.inl (List.mem_cons_of_mem _ h')
          · exact Or.inr h'
      · intro k hm hne kv hkv
        rcases List.mem_cons.mp hkv with h | h
        · subst h; exact hm _ (by simp)
        · exact i4 k (fun kv hkv => hm kv (List.mem_cons_of_mem _ hkv)) hne kv h

theorem proj_assocSet (κ : PedalKey) (m : List (PedalKey × CC)) (e : CC) (h : AInv m) :
    proj κ (assocSet m (CC.key e) e) = if CC.key e = κ then [e] else proj κ m := by
  induction m with
  | nil =>
    by_cases hk : CC.key e = κ <;> simp [assocSet, proj, hk]
  | cons x r ih =>
    obtain ⟨h1, h2⟩ := h
    have hr : AInv r := ⟨fun kv hkv => h1 kv (List.mem_cons_of_mem _ hkv), (List.pairwise_cons.mp h2).2⟩
    have hx : CC.key x.2 = x.1 := h1 x (by simp)
    by_cases hk : x.1 = CC.key e
    · simp only [assocSet, hk, ↓reduceIte]
      by_cases hκ : CC.key e = κ
      · have : proj κ r = [] := proj_eq_nil_of_not_mem κ r hr.1 (by
          intro kv hkv
          have := (List.pairwise_cons.mp h2).1 kv hkv
          rw [hk, hκ] at this
          exact fun h => this h.symm)
        have hh : proj κ ((CC.key e, e) :: r) = (if CC.key e = κ then [e] else []) ++ proj κ r := by
          by_cases h' : CC.key e = κ <;> simp [proj, h']
        rw [hh, this]; simp [hκ]
      · have hh : proj κ ((CC.key e, e) :: r) = proj κ r := by simp [proj, hκ]
        have hh2 : proj κ (x :: r) = proj κ r := by
          have : CC.key x.2 ≠ κ := by rw [hx, hk]; exact hκ
          simp [proj, this]
        simp [hκ, hh, hh2]
    · simp only [assocSet, hk, ↓reduceIte]
      have hh : ∀ l, proj κ (x :: l) = (if x.1 = κ then [x.2] else []) ++ proj κ l := by
        intro l
        by_cases h' : x.1 = κ
        · have : CC.key x.2 = κ := by rw [hx]; exact h'
          simp [proj, h', this]
        · have : CC.key x.2 ≠ κ := by rw [hx]; exact h'
          simp [proj, h', this]
      rw [hh, ih hr]
      by_cases hκ : CC.key e = κ
      · have : x.1 ≠ κ := by rw [← hκ]; exact hk
        simp [hκ, this]
      · simp [hκ, hh]

theorem proj_foldl (κ : PedalKey) (l : List CC) (m : List (PedalKey × CC)) (h : AInv m) :
    proj κ (l.foldl (fun m e => assocSet m (CC.key e) e) m) =
      (match (l.filter (fun e => decide (CC.key e = κ))).getLast? with
        | some e => [e]
        | none => proj κ m) := by
  induction l generalizing m with
  | nil => simp
  | cons e es ih =>
    simp only [List.foldl_cons]
    rw [ih _ (assocSet_inv m e h).1, proj_assocSet κ m e h]
    by_cases hκ : CC.key e = κ
    · simp only [List.filter_cons, hκ, decide_true, ↓reduceIte, List.getLast?_cons]
      cases (es.filter (fun e => decide (CC.key e = κ))).getLast? <;> simp
    · simp [hκ]

/-- the pedal piece restricted to one key is the generic state piece of that key's events -/
theorem pedalPiece_filter (S : List CC) (a b : Rat) (κ : PedalKey) :
    (pieceSpec (pedalL id) [] S (a, b)).filter (fun e => decide (CC.key e = κ)) =
      specStateS id (·.time) CC.setTime (S.filter (fun e => decide (CC.key e = κ))) a b := by
  unfold pieceSpec specStateS
  rw [List.filter_append]
  congr 1
  · -- carried state
    have hkey : ∀ (l : List (PedalKey × CC)),
        (l.map (fun kv => CC.setTime kv.2 0)).filter (fun e => decide (CC.key e = κ)) =
          (proj κ l).map (fun e => CC.setTime e 0) := by
      intro l
      unfold proj
      rw [List.filter_map, List.filter_map, List.map_map]
      rfl
    have hm : (pedalL id).enter (memAt (pedalL id) [] (a, b).1 S) =
        ((S.filter (fun e => decide (e.time ≤ a))).foldl (fun m e => assocSet m (CC.key e) e) []).map
          (fun kv => CC.setTime kv.2 0) := by
      simp only [pedalL, memAt, before, ↓reduceIte]
      rfl
    rw [hm, hkey, proj_foldl κ _ [] ⟨by simp, by simp⟩, List.filter_filter]
    have : S.filter (fun e => decide (CC.key e = κ) && decide (e.time ≤ a)) =
        (S.filter (fun e => decide (CC.key e = κ))).filter (fun e => decide (e.time ≤ a)) := by
      rw [List.filter_filter]
      apply List.filter_congr; intro e _; exact Bool.and_comm _ _
    rw [this]
    cases ((S.filter (fun e => decide (CC.key e = κ))).filter (fun e => decide (e.time ≤ a))).getLast? <;>
      simp [proj]
  · have hi : inside (pedalL id) (a, b).1 (a, b).2 S =
        (S.filter (fun e => decide (a < e.time) && decide (e.time < b))).map
          (fun e => CC.setTime e (id (e.time - a))) := by
      simp only [inside, pedalL, within, ↓reduceIte]
      rfl
    rw [hi, List.filter_map, List.filter_filter, List.filter_filter]
    congr 1
    apply List.filter_congr
    intro e _
    simp [CC.key, CC.setTime, Bool.and_comm] <;> rfl

/-- **pedal in-effect lemma** (exact arithmetic), per (instrument, control number) -/
theorem specPedals_in_effect (preserve : List Int) (s : NoteSeq) (a b τ : Rat) (κ : PedalKey)
    (h0 : 0 ≤ τ) (h1 : τ < b - a) :
    (inEffectKey (specPedals id preserve s a b) κ τ).map (fun e => CC.setTime e 0) =
      (inEffectKey (pedals preserve s) κ (a + τ)).map (fun e => CC.setTime e 0) := by
  have hS := sortByRat_pairwise (fun e : CC => e.time) (pedals preserve s)
  have hSκ := hS.filter (fun e => decide (CC.key e = κ))
  -- the whole pedal piece is sorted by time
  have hsorted : (specPedals id preserve s a b).Pairwise (fun x y => x.time ≤ y.time) := by
    unfold specPedals pieceSpec
    rw [List.pairwise_append]
    refine ⟨?_, ?_, ?_⟩
    · simp only [pedalL, List.pairwise_map, CC.setTime]
      exact List.pairwise_of_forall (fun _ _ => Rat.le_refl)
    · simp only [inside, pedalL, List.pairwise_map, CC.setTime, id]
      refine (hS.filter _).imp ?_
      intro x y hxy; grind
    · intro x hx y hy
      simp only [pedalL, List.mem_map, CC.setTime] at hx
      obtain ⟨kv, _, rfl⟩ := hx
      simp only [inside, pedalL, List.mem_map, CC.setTime, id, within, ↓reduceIte] at hy
      obtain ⟨e, he, rfl⟩ := hy
      have := (List.mem_filter.mp he).2
      simp at this
      simp; grind
  unfold inEffectKey
  rw [sortByRat_of_pairwise _ _ hsorted]
  unfold specPedals
  rw [pedalPiece_filter]
  exact specStateS_last (·.time) CC.setTime (fun e => CC.setTime e 0) (fun _ _ => rfl) (fun _ _ => rfl)
    _ hSκ a b τ h0 h1

end NSV.C02
