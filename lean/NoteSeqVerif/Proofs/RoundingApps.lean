import NoteSeqVerif.Proofs.Rounding
import NoteSeqVerif.Model.C01
/-! Applications of `RoundingP` (any rounding operator with the listed algebraic facts, in
particular the executable `rne53` / `rne24`):

* (a) `qstep_float` / `qstep_near`: `quantize_to_step` in floating point agrees with the exact
  `⌊t·s + 1/2⌋` away from half-step boundaries, and is never off by more than one step;
* (b) `grid_roundtrip`: `(k · (1/fps)) · fps` comes back to `k` up to `k·2^-50` (three roundings);
* (c) `FExpr.chain_rel_err`: any `+,*,/` expression over positive inputs with at most 10
  roundings has relative error `≤ 2^-49`. -/
namespace NSV

/-! ### derived facts -/
namespace RoundingP
variable {p : ℕ} {R : ℚ → ℚ}

theorem nonneg (h : RoundingP p R) {a : ℚ} (ha : 0 ≤ a) : 0 ≤ R a := by
  have := h.mono 0 a ha; rwa [h.zero] at this

theorem nonpos (h : RoundingP p R) {a : ℚ} (ha : a ≤ 0) : R a ≤ 0 := by
  have := h.mono a 0 ha; rwa [h.zero] at this

theorem one (h : RoundingP p R) (hp : 1 ≤ p) : R 1 = 1 := by
  have := h.exact_int 1 (by simpa using Nat.one_lt_two_pow (by omega))
  simpa using this

/-- integers up to and including `2^p` in magnitude, times any power of two, are fixed points -/
theorem exact_dyadic (h : RoundingP p R) (hp : 1 ≤ p) (n : ℤ) (hn : n.natAbs ≤ 2 ^ p) (k : ℤ) :
    R ((n : ℚ) * 2 ^ k) = (n : ℚ) * 2 ^ k := by
  rw [h.exact_pow2_mul]
  congr 1
  rcases Nat.lt_or_eq_of_le hn with hlt | heq
  · exact h.exact_int n hlt
  · have h2 : R ((2 : ℚ) ^ p) = (2 : ℚ) ^ p := by
      have := h.exact_pow2_mul 1 (p : ℤ)
      rwa [h.one hp, one_mul, zpow_natCast] at this
    rcases Int.natAbs_eq n with e | e
    · rw [e, heq]; push_cast; exact h2
    · rw [e, heq]; push_cast; rw [h.neg, h2]

theorem exact_int_le (h : RoundingP p R) (hp : 1 ≤ p) (n : ℤ) (hn : n.natAbs ≤ 2 ^ p) :
    R (n : ℚ) = n := by
  have := h.exact_dyadic hp n hn 0; simpa using this

/-- half-integers `n/2` with `|n| ≤ 2^p` are fixed points -/
theorem exact_half_int (h : RoundingP p R) (hp : 1 ≤ p) (n : ℤ) (hn : n.natAbs ≤ 2 ^ p) :
    R ((n : ℚ) / 2) = (n : ℚ) / 2 := by
  have := h.exact_dyadic hp n hn (-1)
  rwa [zpow_neg_one, ← div_eq_mul_inv] at this

theorem half (h : RoundingP p R) (hp : 1 ≤ p) : R (1 / 2) = 1 / 2 := by
  have := h.exact_half_int hp 1 (by simpa using Nat.one_le_two_pow)
  simpa using this

/-- two-sided multiplicative bound on nonnegative arguments -/
theorem bounds (h : RoundingP p R) {a : ℚ} (ha : 0 ≤ a) :
    a * (1 - 1 / 2 ^ p) ≤ R a ∧ R a ≤ a * (1 + 1 / 2 ^ p) := by
  have := h.rel_err a
  rw [abs_of_nonneg ha, abs_le] at this
  constructor <;> linarith [this.1, this.2]

end RoundingP

/-! ### (a) quantize_to_step -/

theorem truncR_between {y : ℚ} {N : ℤ} (h1 : (N : ℚ) ≤ y) (h2 : y ≤ (N : ℚ) + 1) :
    N ≤ truncR y ∧ truncR y ≤ N + 1 := by
  unfold truncR
  by_cases h0 : 0 ≤ y
  · rw [if_pos h0]
    change N ≤ ⌊y⌋ ∧ ⌊y⌋ ≤ N + 1
    refine ⟨Int.le_floor.mpr h1, ?_⟩
    have : ((⌊y⌋ : ℤ) : ℚ) ≤ ((N + 1 : ℤ) : ℚ) := by
      push_cast; exact (Int.floor_le y).trans h2
    exact_mod_cast this
  · rw [if_neg h0, Rat.ceil_eq_neg_floor_neg]
    change N ≤ ⌈y⌉ ∧ ⌈y⌉ ≤ N + 1
    refine ⟨?_, Int.ceil_le.mpr (by push_cast; exact h2)⟩
    have : ((N : ℤ) : ℚ) ≤ ((⌈y⌉ : ℤ) : ℚ) := h1.trans (Int.le_ceil y)
    exact_mod_cast this

theorem truncR_eq_of_floor {y : ℚ} {N : ℤ} (h0 : 0 ≤ y) (h1 : (N : ℚ) ≤ y) (h2 : y < (N : ℚ) + 1) :
    truncR y = N := by
  unfold truncR
  rw [if_pos h0]
  change ⌊y⌋ = N
  exact Int.floor_eq_iff.mpr ⟨h1, h2⟩

open C01 in
/-- Unconditionally (no margin), for `|t·s| < 2^52` the floating-point `quantize_to_step`
(cutoff 1/2) is within one step of the exact `⌊t·s + 1/2⌋`. -/
theorem qstep_near {R : ℚ → ℚ} (hR : Rounding R) (t s : ℚ) (hx : |t * s| < 2 ^ 52) :
    |qstepR R (1 / 2) t s - ⌊t * s + 1 / 2⌋| ≤ 1 := by
  have hp : 1 ≤ 53 := by norm_num
  unfold qstepR
  rw [show (1 : ℚ) - 1 / 2 = 1 / 2 by norm_num, hR.half hp]
  generalize t * s = x at *
  obtain ⟨hxl, hxu⟩ := abs_lt.mp hx
  set N : ℤ := ⌊x + 1 / 2⌋ with hN
  have hN1 : (N : ℚ) ≤ x + 1 / 2 := Int.floor_le _
  have hN2 : x + 1 / 2 < (N : ℚ) + 1 := Int.lt_floor_add_one _
  have hNu : N ≤ 2 ^ 52 := by
    have : (N : ℚ) < ((2 ^ 52 + 1 : ℤ) : ℚ) := by push_cast; linarith
    have : N < 2 ^ 52 + 1 := by exact_mod_cast this
    omega
  have hNl : -(2 ^ 52) ≤ N := by
    have : ((-(2 ^ 52) - 1 : ℤ) : ℚ) < (N : ℚ) := by push_cast; linarith
    have : -(2 ^ 52) - 1 < N := by exact_mod_cast this
    omega
  -- lower bound: N ≤ R x + 1/2
  have hL : (N : ℚ) ≤ R x + 1 / 2 := by
    rcases (show N = -(2 ^ 52) ∨ -(2 ^ 52) + 1 ≤ N by omega) with e | e
    · have h1 := hR.mono (((-(2 ^ 52) : ℤ) : ℚ)) x (by push_cast; linarith)
      rw [hR.exact_int_le hp _ (by norm_num)] at h1
      rw [e]; push_cast at h1 ⊢; linarith
    · have h1 := hR.mono (((2 * N - 1 : ℤ) : ℚ) / 2) x (by push_cast; linarith)
      rw [hR.exact_half_int hp _ (by omega)] at h1
      push_cast at h1; linarith
  -- upper bound: R x + 1/2 ≤ N + 1
  have hU : R x + 1 / 2 ≤ (N : ℚ) + 1 := by
    rcases (show N = 2 ^ 52 ∨ N ≤ 2 ^ 52 - 1 by omega) with e | e
    · have h1 := hR.mono x (((2 ^ 52 : ℤ) : ℚ)) (by push_cast; linarith)
      rw [hR.exact_int_le hp _ (by norm_num)] at h1
      rw [e]; push_cast at h1 ⊢; linarith
    · have h1 := hR.mono x (((2 * N + 1 : ℤ) : ℚ) / 2) (by push_cast; linarith)
      rw [hR.exact_half_int hp _ (by omega)] at h1
      push_cast at h1; linarith
  have hyL := hR.mono _ _ hL
  have hyU := hR.mono _ _ hU
  rw [hR.exact_int_le hp N (by omega)] at hyL
  rw [show (N : ℚ) + 1 = ((N + 1 : ℤ) : ℚ) by push_cast; ring,
    hR.exact_int_le hp (N + 1) (by omega)] at hyU
  push_cast at hyU
  obtain ⟨a, b⟩ := truncR_between hyL hyU
  rw [abs_le]; constructor <;> omega

open C01 in
/-- Sharp form of (a): for `0 ≤ t·s < 2^52`, if `x = t·s` is farther than `(x+1)·2^-52` from
every half-integer `n + 1/2`, the floating-point `quantize_to_step` (cutoff 1/2, two roundings)
returns exactly `⌊x + 1/2⌋`. -/
theorem qstep_float_sharp {R : ℚ → ℚ} (hR : Rounding R) (t s : ℚ) (h0 : 0 ≤ t * s)
    (hlt : t * s < 2 ^ 52)
    (hfar : ∀ n : ℤ, (t * s + 1) / 2 ^ 52 < |t * s - ((n : ℚ) + 1 / 2)|) :
    qstepR R (1 / 2) t s = ⌊t * s + 1 / 2⌋ := by
  have hp : 1 ≤ 53 := by norm_num
  unfold qstepR
  rw [show (1 : ℚ) - 1 / 2 = 1 / 2 by norm_num, hR.half hp]
  generalize t * s = x at *
  set N : ℤ := ⌊x + 1 / 2⌋ with hN
  have hN1 : (N : ℚ) ≤ x + 1 / 2 := Int.floor_le _
  have hN2 : x + 1 / 2 < (N : ℚ) + 1 := Int.lt_floor_add_one _
  have hN0 : 0 ≤ N := Int.floor_nonneg.mpr (by linarith)
  have hNu : N ≤ 2 ^ 52 := by
    have : (N : ℚ) < ((2 ^ 52 + 1 : ℤ) : ℚ) := by push_cast; linarith
    have : N < 2 ^ 52 + 1 := by exact_mod_cast this
    omega
  -- the two margins
  have m1 : (x + 1) / 2 ^ 52 < x - (N : ℚ) + 1 / 2 := by
    have := hfar (N - 1)
    rw [abs_of_nonneg (by push_cast; linarith)] at this
    push_cast at this; linarith
  have m2 : (x + 1) / 2 ^ 52 < (N : ℚ) + 1 / 2 - x := by
    have := hfar N
    rw [abs_of_nonpos (by linarith)] at this
    linarith
  -- unit roundoff
  obtain ⟨u, hu⟩ : ∃ u : ℚ, u = 1 / 2 ^ 53 := ⟨_, rfl⟩
  have hu0 : 0 < u := by rw [hu]; positivity
  have hM : (x + 1) / 2 ^ 52 = 2 * u * (x + 1) := by rw [hu]; ring
  have hxu : x * u < 1 / 2 := by
    rw [hu]; rw [mul_one_div, div_lt_iff₀ (by positivity)]; linarith
  rw [hM] at m1 m2
  obtain ⟨bx1, bx2⟩ := hR.bounds h0
  rw [← hu] at bx1 bx2
  have hz0 : 0 ≤ R x + 1 / 2 := by have := hR.nonneg h0; linarith
  obtain ⟨_, by2⟩ := hR.bounds hz0
  rw [← hu] at by2
  -- lower: N ≤ R x + 1/2, hence N ≤ y by monotonicity and exactness on integers
  have hL : (N : ℚ) ≤ R x + 1 / 2 := by nlinarith
  have hyL := hR.mono _ _ hL
  rw [hR.exact_int_le hp N (by omega)] at hyL
  -- upper: y ≤ (R x + 1/2)(1+u) < N + 1
  have hyU : R (R x + 1 / 2) < (N : ℚ) + 1 := by
    have h1 : (R x + 1 / 2) * (1 + u) ≤ (x * (1 + u) + 1 / 2) * (1 + u) :=
      mul_le_mul_of_nonneg_right (by linarith) (by linarith)
    have h2 : x * u * u ≤ 1 / 2 * u := mul_le_mul_of_nonneg_right hxu.le hu0.le
    nlinarith
  have hy0 : 0 ≤ R (R x + 1 / 2) := hR.nonneg hz0
  exact truncR_eq_of_floor hy0 hyL hyU

open C01 in
/-- (a) as stated in the plan, with the margin `2^-51·(x+1)` -/
theorem qstep_float {R : ℚ → ℚ} (hR : Rounding R) (t s : ℚ) (h0 : 0 ≤ t * s)
    (hlt : t * s < 2 ^ 52)
    (hfar : ∀ n : ℤ, (t * s + 1) / 2 ^ 51 < |t * s - ((n : ℚ) + 1 / 2)|) :
    qstepR R (1 / 2) t s = ⌊t * s + 1 / 2⌋ := by
  refine qstep_float_sharp hR t s h0 hlt (fun n => lt_of_le_of_lt ?_ (hfar n))
  have : 0 ≤ t * s + 1 := by linarith
  rw [div_le_div_iff₀ (by positivity) (by positivity)]
  nlinarith

/-- instances for the executable float64 model -/
theorem qstep_float_rne53 (t s : ℚ) (h0 : 0 ≤ t * s) (hlt : t * s < 2 ^ 52)
    (hfar : ∀ n : ℤ, (t * s + 1) / 2 ^ 51 < |t * s - ((n : ℚ) + 1 / 2)|) :
    C01.qstepR rne53 (1 / 2) t s = ⌊t * s + 1 / 2⌋ := qstep_float rounding_rne53 t s h0 hlt hfar

theorem qstep_near_rne53 (t s : ℚ) (hx : |t * s| < 2 ^ 52) :
    |C01.qstepR rne53 (1 / 2) t s - ⌊t * s + 1 / 2⌋| ≤ 1 := qstep_near rounding_rne53 t s hx

/-- non-vacuity of `qstep_float`: `t·s = 13/4` satisfies the margin hypothesis -/
example : C01.qstepR rne53 (1 / 2) (13 / 8) 2 = 3 := by
  have h := qstep_float_rne53 (13 / 8) 2 (by norm_num) (by norm_num) (by
    intro n
    rcases le_or_gt n 2 with h | h
    · have : (n : ℚ) ≤ 2 := by exact_mod_cast h
      rw [abs_of_nonneg (by linarith)]; norm_num; linarith
    · have : (3 : ℚ) ≤ n := by exact_mod_cast h
      rw [abs_of_nonpos (by linarith)]; norm_num; linarith)
  rw [h]; norm_num

/-- the margin hypothesis of `qstep_float` cannot be dropped, and `qstep_near` is tight:
`x = 1/2 - 2^-54` is a float64, `x + 1/2` rounds (tie to even) up to `1`, so the float
computation gives step 1 while `⌊x + 1/2⌋ = 0` -/
example : C01.qstepR rne53 (1 / 2) (1 / 2 - 1 / 2 ^ 54) 1 = 1 ∧
    ⌊(1 / 2 - 1 / 2 ^ 54 : ℚ) * 1 + 1 / 2⌋ = 0 := by
  refine ⟨by decide +kernel, ?_⟩
  rw [Int.floor_eq_iff]; norm_num

/-! ### (c) accumulated relative error over positive `+,*,/` chains -/

/-- `a'` approximates `a` within `n` roundings of precision `p`:
`a·w^n ≤ a'` and `a'·w^n ≤ a` where `w = 1 - 2^-p` -/
def Near (p n : ℕ) (a' a : ℚ) : Prop :=
  a * (1 - 1 / 2 ^ p) ^ n ≤ a' ∧ a' * (1 - 1 / 2 ^ p) ^ n ≤ a

section near
variable {p : ℕ} {R : ℚ → ℚ}

theorem Near.w_pos (hp : 1 ≤ p) : (0 : ℚ) < 1 - 1 / 2 ^ p := by
  have : (2 : ℚ) ^ 1 ≤ 2 ^ p := pow_le_pow_right₀ (by norm_num) hp
  have h2 : (0 : ℚ) < 2 ^ p := by positivity
  rw [sub_pos, div_lt_one h2]; linarith

theorem Near.w_le_one : (1 : ℚ) - 1 / 2 ^ p ≤ 1 := by
  have : (0 : ℚ) ≤ 1 / 2 ^ p := by positivity
  linarith

theorem Near.refl (a : ℚ) : Near p 0 a a := by simp [Near]

theorem Near.pos (hp : 1 ≤ p) {n : ℕ} {a' a : ℚ} (h : Near p n a' a) (ha : 0 < a) : 0 < a' :=
  lt_of_lt_of_le (mul_pos ha (pow_pos (Near.w_pos hp) n)) h.1

theorem Near.mono (hp : 1 ≤ p) {n m : ℕ} {a' a : ℚ} (h : Near p n a' a) (ha : 0 < a)
    (hnm : n ≤ m) : Near p m a' a := by
  have ha' := h.pos hp ha
  have hw : ((1 : ℚ) - 1 / 2 ^ p) ^ m ≤ (1 - 1 / 2 ^ p) ^ n :=
    pow_le_pow_of_le_one (Near.w_pos hp).le Near.w_le_one hnm
  exact ⟨(mul_le_mul_of_nonneg_left hw ha.le).trans h.1,
    (mul_le_mul_of_nonneg_left hw ha'.le).trans h.2⟩

theorem Near.round (hR : RoundingP p R) (hp : 1 ≤ p) {n : ℕ} {a' a : ℚ} (h : Near p n a' a)
    (ha : 0 < a) : Near p (n + 1) (R a') a := by
  have ha' := h.pos hp ha
  have hw := Near.w_pos hp
  have hwn : (0 : ℚ) < (1 - 1 / 2 ^ p) ^ n := pow_pos hw n
  obtain ⟨b1, b2⟩ := hR.bounds ha'.le
  have hu : (0 : ℚ) ≤ 1 / 2 ^ p := by positivity
  constructor
  · calc a * (1 - 1 / 2 ^ p) ^ (n + 1) = a * (1 - 1 / 2 ^ p) ^ n * (1 - 1 / 2 ^ p) := by ring
      _ ≤ a' * (1 - 1 / 2 ^ p) := mul_le_mul_of_nonneg_right h.1 hw.le
      _ ≤ R a' := b1
  · have h1 : ((1 : ℚ) + 1 / 2 ^ p) * (1 - 1 / 2 ^ p) ≤ 1 := by nlinarith
    calc R a' * (1 - 1 / 2 ^ p) ^ (n + 1)
        ≤ a' * (1 + 1 / 2 ^ p) * (1 - 1 / 2 ^ p) ^ (n + 1) :=
          mul_le_mul_of_nonneg_right b2 (pow_pos hw _).le
      _ = a' * (1 - 1 / 2 ^ p) ^ n * ((1 + 1 / 2 ^ p) * (1 - 1 / 2 ^ p)) := by ring
      _ ≤ a' * (1 - 1 / 2 ^ p) ^ n * 1 :=
          mul_le_mul_of_nonneg_left h1 (mul_pos ha' hwn).le
      _ ≤ a := by rw [mul_one]; exact h.2

theorem Near.mul (hp : 1 ≤ p) {n m : ℕ} {a' a b' b : ℚ} (ha : 0 < a) (hb : 0 < b)
    (h1 : Near p n a' a) (h2 : Near p m b' b) : Near p (n + m) (a' * b') (a * b) := by
  have ha' := h1.pos hp ha
  have hb' := h2.pos hp hb
  have hw := Near.w_pos hp
  have hwn : (0 : ℚ) < (1 - 1 / 2 ^ p) ^ n := pow_pos hw n
  have hwm : (0 : ℚ) < (1 - 1 / 2 ^ p) ^ m := pow_pos hw m
  constructor
  · calc a * b * (1 - 1 / 2 ^ p) ^ (n + m)
        = (a * (1 - 1 / 2 ^ p) ^ n) * (b * (1 - 1 / 2 ^ p) ^ m) := by ring
      _ ≤ a' * b' := mul_le_mul h1.1 h2.1 (mul_pos hb hwm).le ha'.le
  · calc a' * b' * (1 - 1 / 2 ^ p) ^ (n + m)
        = (a' * (1 - 1 / 2 ^ p) ^ n) * (b' * (1 - 1 / 2 ^ p) ^ m) := by ring
      _ ≤ a * b := mul_le_mul h1.2 h2.2 (mul_pos hb' hwm).le ha.le

theorem Near.add (hp : 1 ≤ p) {n m : ℕ} {a' a b' b : ℚ} (ha : 0 < a) (hb : 0 < b)
    (h1 : Near p n a' a) (h2 : Near p m b' b) : Near p (n + m) (a' + b') (a + b) := by
  have k1 := h1.mono hp ha (Nat.le_add_right n m)
  have k2 := h2.mono hp hb (Nat.le_add_left m n)
  exact ⟨by rw [add_mul]; exact add_le_add k1.1 k2.1, by rw [add_mul]; exact add_le_add k1.2 k2.2⟩

theorem Near.div (hp : 1 ≤ p) {n m : ℕ} {a' a b' b : ℚ} (ha : 0 < a) (hb : 0 < b)
    (h1 : Near p n a' a) (h2 : Near p m b' b) : Near p (n + m) (a' / b') (a / b) := by
  have ha' := h1.pos hp ha
  have hb' := h2.pos hp hb
  have hw := Near.w_pos hp
  have hwn : (0 : ℚ) < (1 - 1 / 2 ^ p) ^ n := pow_pos hw n
  have hwm : (0 : ℚ) < (1 - 1 / 2 ^ p) ^ m := pow_pos hw m
  constructor
  · rw [div_mul_eq_mul_div, div_le_div_iff₀ hb hb']
    calc a * (1 - 1 / 2 ^ p) ^ (n + m) * b'
        = (a * (1 - 1 / 2 ^ p) ^ n) * (b' * (1 - 1 / 2 ^ p) ^ m) := by ring
      _ ≤ a' * b := mul_le_mul h1.1 h2.2 (mul_pos hb' hwm).le ha'.le
  · rw [div_mul_eq_mul_div, div_le_div_iff₀ hb' hb]
    calc a' * (1 - 1 / 2 ^ p) ^ (n + m) * b
        = (a' * (1 - 1 / 2 ^ p) ^ n) * (b * (1 - 1 / 2 ^ p) ^ m) := by ring
      _ ≤ a * b' := mul_le_mul h1.2 h2.1 (mul_pos hb hwm).le ha.le

/-- turning `Near` into an absolute-value bound -/
theorem Near.abs_le {n : ℕ} {a' a c : ℚ} (h : Near p n a' a) (ha : 0 < a)
    (hc1 : 1 - c ≤ (1 - 1 / 2 ^ p) ^ n) (hc2 : 1 ≤ (1 + c) * (1 - 1 / 2 ^ p) ^ n)
    (hwn : (0 : ℚ) < (1 - 1 / 2 ^ p) ^ n) : |a' - a| ≤ a * c := by
  rw [_root_.abs_le]
  constructor
  · have := mul_le_mul_of_nonneg_left hc1 ha.le
    linarith [h.1]
  · -- a' * w^n ≤ a ≤ a * ((1+c) w^n)
    have h3 : a' * (1 - 1 / 2 ^ p) ^ n ≤ (a * (1 + c)) * (1 - 1 / 2 ^ p) ^ n := by
      calc a' * (1 - 1 / 2 ^ p) ^ n ≤ a := h.2
        _ = a * 1 := (mul_one a).symm
        _ ≤ a * ((1 + c) * (1 - 1 / 2 ^ p) ^ n) := mul_le_mul_of_nonneg_left hc2 ha.le
        _ = (a * (1 + c)) * (1 - 1 / 2 ^ p) ^ n := by ring
    have := le_of_mul_le_mul_right h3 hwn
    linarith

end near

/-- arithmetic expressions over `+,*,/` -/
inductive FExpr where
  | lit (a : ℚ)
  | add (x y : FExpr)
  | mul (x y : FExpr)
  | div (x y : FExpr)

namespace FExpr

/-- the exact value -/
def exact : FExpr → ℚ
  | lit a => a
  | add x y => x.exact + y.exact
  | mul x y => x.exact * y.exact
  | div x y => x.exact / y.exact

/-- the floating-point value: `R` after every operation -/
def rounded (R : ℚ → ℚ) : FExpr → ℚ
  | lit a => a
  | add x y => R (x.rounded R + y.rounded R)
  | mul x y => R (x.rounded R * y.rounded R)
  | div x y => R (x.rounded R / y.rounded R)

/-- number of operations = number of roundings -/
def ops : FExpr → ℕ
  | lit _ => 0
  | add x y => x.ops + y.ops + 1
  | mul x y => x.ops + y.ops + 1
  | div x y => x.ops + y.ops + 1

/-- all inputs positive -/
def Pos : FExpr → Prop
  | lit a => 0 < a
  | add x y => x.Pos ∧ y.Pos
  | mul x y => x.Pos ∧ y.Pos
  | div x y => x.Pos ∧ y.Pos

theorem exact_pos : ∀ e : FExpr, e.Pos → 0 < e.exact
  | lit _, h => h
  | add x y, h => add_pos (exact_pos x h.1) (exact_pos y h.2)
  | mul x y, h => mul_pos (exact_pos x h.1) (exact_pos y h.2)
  | div x y, h => div_pos (exact_pos x h.1) (exact_pos y h.2)

theorem near {p : ℕ} {R : ℚ → ℚ} (hR : RoundingP p R) (hp : 1 ≤ p) :
    ∀ e : FExpr, e.Pos → Near p e.ops (e.rounded R) e.exact
  | lit a, _ => Near.refl a
  | add x y, h =>
      (Near.add hp (exact_pos x h.1) (exact_pos y h.2) (near hR hp x h.1) (near hR hp y h.2)).round
        hR hp (add_pos (exact_pos x h.1) (exact_pos y h.2))
  | mul x y, h =>
      (Near.mul hp (exact_pos x h.1) (exact_pos y h.2) (near hR hp x h.1) (near hR hp y h.2)).round
        hR hp (mul_pos (exact_pos x h.1) (exact_pos y h.2))
  | div x y, h =>
      (Near.div hp (exact_pos x h.1) (exact_pos y h.2) (near hR hp x h.1) (near hR hp y h.2)).round
        hR hp (div_pos (exact_pos x h.1) (exact_pos y h.2))

/-- (c) a `+,*,/` chain over positive inputs with at most 10 float64 roundings has relative
error at most `2^-49` -/
theorem chain_rel_err {R : ℚ → ℚ} (hR : Rounding R) (e : FExpr) (hpos : e.Pos)
    (hops : e.ops ≤ 10) : |e.rounded R - e.exact| ≤ e.exact * (1 / 2 ^ 49) := by
  have hp : 1 ≤ 53 := by norm_num
  have h := (near hR hp e hpos).mono hp (exact_pos e hpos) hops
  exact h.abs_le (exact_pos e hpos) (by norm_num) (by norm_num) (by norm_num)

/-- float32 version: at most 10 roundings, relative error at most `2^-20` -/
theorem chain_rel_err24 {R : ℚ → ℚ} (hR : Rounding24 R) (e : FExpr) (hpos : e.Pos)
    (hops : e.ops ≤ 10) : |e.rounded R - e.exact| ≤ e.exact * (1 / 2 ^ 20) := by
  have hp : 1 ≤ 24 := by norm_num
  have h := (near hR hp e hpos).mono hp (exact_pos e hpos) hops
  exact h.abs_le (exact_pos e hpos) (by norm_num) (by norm_num) (by norm_num)

/-- non-vacuity: `spq·qpm/60·t + 1/2` with float inputs is a 4-operation positive chain -/
example : |rne53 (rne53 (rne53 (rne53 (4 * 117) / 60) * (3 / 8)) + 1 / 2)
    - ((4 * 117 / 60 * (3 / 8) + 1 / 2 : ℚ))| ≤ (4 * 117 / 60 * (3 / 8) + 1 / 2 : ℚ) * (1 / 2 ^ 49) :=
  chain_rel_err rounding_rne53
    (.add (.mul (.div (.mul (.lit 4) (.lit 117)) (.lit 60)) (.lit (3 / 8))) (.lit (1 / 2)))
    (by simp [Pos]) (by simp [ops])

end FExpr

/-! ### (b) frame-grid round trip -/

/-- `k ↦ k·(1/fps) ↦ ·fps` with three roundings returns to `k` up to `k·2^-51`
(any `k ≥ 0`, any `fps > 0`; no representability assumption is needed) -/
theorem grid_roundtrip_sharp {R : ℚ → ℚ} (hR : Rounding R) (k fps : ℚ) (hk : 0 ≤ k)
    (hfps : 0 < fps) : |R (R (k * R (1 / fps)) * fps) - k| ≤ k * (1 / 2 ^ 51) := by
  have hp : 1 ≤ 53 := by norm_num
  rcases hk.lt_or_eq with hk | hk
  · let e : FExpr := .mul (.mul (.lit k) (.div (.lit 1) (.lit fps))) (.lit fps)
    have hpos : e.Pos := ⟨⟨hk, one_pos, hfps⟩, hfps⟩
    have hex : k * (1 / fps) * fps = k := by field_simp
    have h : Near 53 3 (R (R (k * R (1 / fps)) * fps)) (k * (1 / fps) * fps) :=
      FExpr.near hR hp e hpos
    rw [hex] at h
    exact h.abs_le (c := 1 / 2 ^ 51) hk (by norm_num) (by norm_num) (by norm_num)
  · subst hk
    simp [hR.zero]

/-- (b) as planned: frame index `k < 2^31`, frame rate `1 ≤ fps ≤ 1000` -/
theorem grid_roundtrip {R : ℚ → ℚ} (hR : Rounding R) (k : ℕ) (_hk : k < 2 ^ 31) (fps : ℚ)
    (_hrep : R fps = fps) (h1 : 1 ≤ fps) (_h2 : fps ≤ 1000) :
    |R (R ((k : ℚ) * R (1 / fps)) * fps) - k| ≤ (k : ℚ) * (1 / 2 ^ 50) := by
  have hk0 : (0 : ℚ) ≤ k := Nat.cast_nonneg k
  refine (grid_roundtrip_sharp hR k fps hk0 (by linarith)).trans ?_
  exact mul_le_mul_of_nonneg_left (by norm_num) hk0

/-- … hence inside the snapping window `1e-9·max(1,k)` of `time_to_frames` -/
theorem grid_roundtrip_snap {R : ℚ → ℚ} (hR : Rounding R) (k : ℕ) (fps : ℚ) (hfps : 0 < fps) :
    |R (R ((k : ℚ) * R (1 / fps)) * fps) - k| ≤ 1 / 10 ^ 9 * max 1 (k : ℚ) := by
  have hk0 : (0 : ℚ) ≤ k := Nat.cast_nonneg k
  refine (grid_roundtrip_sharp hR k fps hk0 hfps).trans ?_
  calc (k : ℚ) * (1 / 2 ^ 51) ≤ max 1 (k : ℚ) * (1 / 10 ^ 9) :=
        mul_le_mul (le_max_right _ _) (by norm_num) (by positivity) (by positivity)
    _ = 1 / 10 ^ 9 * max 1 (k : ℚ) := mul_comm _ _

/-- instance for the executable float64 model, in the shape used by C18's `timeToFrames`
(`fls = R (1/fps)`, note time `R (k·fls)`, frames `R (time·fps)`) -/
theorem grid_roundtrip_rne53 (k : ℕ) (fps : ℚ) (hfps : 0 < fps) :
    |rne53 (rne53 ((k : ℚ) * rne53 (1 / fps)) * fps) - k| ≤ 1 / 10 ^ 9 * max 1 (k : ℚ) :=
  grid_roundtrip_snap rounding_rne53 k fps hfps

/-- non-vacuity of `grid_roundtrip`: 44100/512 fps (a float64), frame 123456 -/
example : |rne53 (rne53 ((123456 : ℕ) * rne53 (1 / (11025 / 128))) * (11025 / 128)) - (123456 : ℕ)|
    ≤ ((123456 : ℕ) : ℚ) * (1 / 2 ^ 50) :=
  grid_roundtrip rounding_rne53 123456 (by norm_num) (11025 / 128) (by decide +kernel)
    (by norm_num) (by norm_num)

end NSV
