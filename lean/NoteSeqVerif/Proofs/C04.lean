import NoteSeqVerif.Model.C04
/-! helper definitions and lemmas for C04 (core Lean only) -/
namespace NSV.C04
open NSV

/-! ## dict lemmas -/

theorem lookup_upsert_self {α β} [DecidableEq α] (k : α) (v : β) (l : List (α × β)) :
    lookup k (upsert k v l) = some v := by
  induction l with
  | nil => simp [upsert, lookup]
  | cons p r ih =>
    obtain ⟨a, w⟩ := p
    by_cases h : a = k
    · simp [upsert, lookup, h]
    · simp [upsert, lookup, h, ih]

theorem lookup_upsert_ne {α β} [DecidableEq α] (k k' : α) (v : β) (l : List (α × β)) (h : k ≠ k') :
    lookup k' (upsert k v l) = lookup k' l := by
  induction l with
  | nil => simp [upsert, lookup, h]
  | cons p r ih =>
    obtain ⟨a, w⟩ := p
    by_cases h1 : a = k
    · subst h1
      simp [upsert, lookup, h]
    · by_cases h2 : a = k'
      · subst h2
        simp [upsert, lookup, h1]
      · simp [upsert, lookup, h1, h2, ih]

theorem lookup_upsert {α β} [DecidableEq α] (k k' : α) (v : β) (l : List (α × β)) :
    lookup k' (upsert k v l) = if k = k' then some v else lookup k' l := by
  by_cases h : k = k'
  · subst h; simp [lookup_upsert_self]
  · simp [h, lookup_upsert_ne _ _ _ _ h]

/-! ## a tune as one item list -/

inductive Item
  | field (f : Field)     -- an information field line
  | start                 -- the beginning of a music line
  | tok (t : Tok)         -- a token of a music line
deriving DecidableEq, Repr

def flattenLine : Line → List Item
  | .field f => [.field f]
  | .music toks => .start :: toks.map .tok

def flatten (ls : List Line) : List Item := ls.flatMap flattenLine

def stepItem (R : Rat → Rat) (st : St) : Item → Except Err St
  | .field f => parseField R st f
  | .start => startMusic R st
  | .tok t => stepTok R st t

def runItems (R : Rat → Rat) : St → List Item → Except Err St
  | st, [] => .ok st
  | st, i :: r =>
    match stepItem R st i with
    | .error e => .error e
    | .ok st' => runItems R st' r

theorem runItems_toks (R : Rat → Rat) (st : St) (toks : List Tok) (rest : List Item) :
    runItems R st (toks.map .tok ++ rest) =
      match runToks R st toks with
      | .error e => .error e
      | .ok st' => runItems R st' rest := by
  induction toks generalizing st with
  | nil => simp [runToks]
  | cons t r ih =>
    simp only [List.map_cons, List.cons_append, runItems, stepItem, runToks]
    cases h : stepTok R st t with
    | error e => simp
    | ok st' => simp [ih]

theorem runItems_append (R : Rat → Rat) (st : St) (a b : List Item) :
    runItems R st (a ++ b) =
      match runItems R st a with
      | .error e => .error e
      | .ok st' => runItems R st' b := by
  induction a generalizing st with
  | nil => simp [runItems]
  | cons i r ih =>
    simp only [List.cons_append, runItems]
    cases h : stepItem R st i with
    | error e => simp
    | ok st' => simp [ih]

theorem runLines_eq_runItems (R : Rat → Rat) (st : St) (ls : List Line) :
    runLines R st ls = runItems R st (flatten ls) := by
  induction ls generalizing st with
  | nil => simp [runLines, flatten, runItems]
  | cons l r ih =>
    cases l with
    | field f =>
      simp only [runLines, stepLine, flatten, List.flatMap_cons, flattenLine, List.cons_append,
        List.nil_append, runItems, stepItem]
      cases h : parseField R st f with
      | error e => simp
      | ok st' => simpa [flatten] using ih st'
    | music toks =>
      simp only [runLines, stepLine, flatten, List.flatMap_cons, flattenLine, List.cons_append,
        runItems, stepItem]
      cases h : startMusic R st with
      | error e => simp
      | ok st1 =>
        simp only [runItems_toks]
        cases h2 : runToks R st1 toks with
        | error e => simp
        | ok st2 => simpa [flatten] using ih st2

/-! ## what each step can change ("shape" lemmas) -/

theorem addTempo_shape {R st u r st'} (h : addTempo R st u r = .ok st') :
    ∃ t, st' = { st with tempos := t } := by
  unfold addTempo at h
  split at h
  · simp at h
  · simp only [Except.ok.injEq] at h
    exact ⟨_, h.symm⟩

theorem setTempo_shape {R st u r st'} (h : setTempo R st u r = .ok st') :
    ∃ t hu hr, st' = { st with tempos := t, hdrTempoUnit := hu, hdrTempoRate := hr } := by
  unfold setTempo at h
  split at h
  · simp only [Except.ok.injEq] at h
    exact ⟨_, _, _, h.symm⟩
  · obtain ⟨t, rfl⟩ := addTempo_shape h
    exact ⟨t, _, _, rfl⟩

/-- what an information field cannot change -/
theorem parseField_frame {R st f st'} (h : parseField R st f = .ok st') :
    st'.notes = st.notes ∧ st'.barAcc = st.barAcc ∧ st'.broken = st.broken ∧ st'.time = st.time ∧
    st'.sections = st.sections ∧ st'.groups = st.groups ∧ st'.expected = st.expected ∧
    st'.inHeader = st.inHeader ∧ st'.texts = st.texts := by
  cases f with
  | tempo beats rate =>
    simp only [parseField] at h
    split at h
    · simp at h
    · obtain ⟨t, hu, hr, rfl⟩ := setTempo_shape h
      simp
  | tempoOld rate =>
    simp only [parseField] at h
    obtain ⟨t, hu, hr, rfl⟩ := setTempo_shape h
    simp
  | key k =>
    simp only [parseField] at h
    split at h
    · simp at h
    · simp only [Except.ok.injEq] at h; subst h; simp
  | title s =>
    simp only [parseField] at h
    split at h <;> (simp only [Except.ok.injEq] at h; subst h; simp)
  | unitLen n d =>
    simp only [parseField] at h
    split at h
    · simp at h
    · simp only [Except.ok.injEq] at h; subst h; simp
  | refnum _ | composer _ | meterC | meterCut | meterNone | meter _ _ | tempoStr | other =>
    simp only [parseField, Except.ok.injEq] at h; subst h; simp
  | refBad | meterBad | unitBad | tempoBad | keyBad | part | voice =>
    simp [parseField] at h

/-- the accidentals in force change only at a successful `K:` field -/
theorem parseField_keyAcc {R st f st'} (h : parseField R st f = .ok st') :
    (∃ k a pk pm, f = .key k ∧ parseKey k = .ok (a, pk, pm) ∧ st'.keyAcc = a) ∨
    ((∀ k, f ≠ .key k) ∧ st'.keyAcc = st.keyAcc) := by
  cases f with
  | key k =>
    simp only [parseField] at h
    split at h
    · simp at h
    · rename_i a pk pm hk
      simp only [Except.ok.injEq] at h; subst h
      exact .inl ⟨k, a, pk, pm, rfl, hk, rfl⟩
  | tempo beats rate =>
    simp only [parseField] at h
    split at h
    · simp at h
    · obtain ⟨t, hu, hr, rfl⟩ := setTempo_shape h
      exact .inr ⟨by simp, rfl⟩
  | tempoOld rate =>
    simp only [parseField] at h
    obtain ⟨t, hu, hr, rfl⟩ := setTempo_shape h
    exact .inr ⟨by simp, rfl⟩
  | title s =>
    simp only [parseField] at h
    split at h <;> (simp only [Except.ok.injEq] at h; subst h; exact .inr ⟨by simp, rfl⟩)
  | unitLen n d =>
    simp only [parseField] at h
    split at h
    · simp at h
    · simp only [Except.ok.injEq] at h; subst h; exact .inr ⟨by simp, rfl⟩
  | refnum _ | composer _ | meterC | meterCut | meterNone | meter _ _ | tempoStr | other =>
    simp only [parseField, Except.ok.injEq] at h; subst h; exact .inr ⟨by simp, rfl⟩
  | refBad | meterBad | unitBad | tempoBad | keyBad | part | voice =>
    simp [parseField] at h

theorem addSection_shape (st : St) (t : Rat) : ∃ secs, (addSection st t).1 = { st with sections := secs } := by
  unfold addSection
  simp only
  split
  · split <;> exact ⟨_, rfl⟩
  · exact ⟨_, rfl⟩

theorem addGroup_shape {st n st'} (h : addGroup st n = .ok st') : ∃ g, st' = { st with groups := g } := by
  unfold addGroup at h
  split at h
  · simp at h
  · simp only [Except.ok.injEq] at h
    exact ⟨_, h.symm⟩

theorem playPreviousOnce_shape {st i f st'} (h : playPreviousOnce st i f = .ok st') :
    ∃ g, st' = { st with groups := g, expected := f } := by
  unfold playPreviousOnce at h
  split at h
  · split at h
    · simp at h
    · rename_i st2 h2
      obtain ⟨g, rfl⟩ := addGroup_shape h2
      simp only [Except.ok.injEq] at h
      exact ⟨g, h.symm⟩
  · simp only [Except.ok.injEq] at h
    exact ⟨st.groups, h.symm⟩

theorem closeRepeat_shape {st b f st'} (h : closeRepeat st b f = .ok st') :
    ∃ g, st' = { st with groups := g, expected := f } := by
  unfold closeRepeat at h
  split at h
  · simp at h
  · split at h
    · simp at h
    · rename_i st2 h2
      obtain ⟨g, rfl⟩ := addGroup_shape h2
      simp only [Except.ok.injEq] at h
      exact ⟨g, h.symm⟩

theorem doRepeat_shape {st b f st'} (h : doRepeat st b f = .ok st') :
    ∃ secs g, st' = { st with sections := secs, groups := g, expected := f } := by
  unfold doRepeat at h
  split at h
  · simp at h
  · obtain ⟨secs, hs⟩ := addSection_shape st st.time
    simp only at h
    split at h
    · split at h
      · obtain ⟨g, rfl⟩ := closeRepeat_shape h
        exact ⟨secs, g, by rw [hs]⟩
      · obtain ⟨g, rfl⟩ := playPreviousOnce_shape h
        exact ⟨secs, g, by rw [hs]⟩
    · obtain ⟨g, rfl⟩ := playPreviousOnce_shape h
      exact ⟨secs, g, by rw [hs]⟩

theorem stepBar_shape {st c1 len c2 st'} (h : stepBar st c1 len c2 = .ok st') :
    ∃ secs g e, st' = { st with barAcc := [], sections := secs, groups := g, expected := e } := by
  unfold stepBar at h
  simp only at h
  split at h
  · split at h
    · obtain ⟨secs, hs⟩ := addSection_shape { st with barAcc := [] } st.time
      simp only at hs
      split at h
      · obtain ⟨g, rfl⟩ := addGroup_shape h
        exact ⟨secs, g, st.expected, by rw [hs]⟩
      · simp only [Except.ok.injEq] at h
        exact ⟨secs, st.groups, st.expected, by rw [← h, hs]⟩
    · simp only [Except.ok.injEq] at h
      exact ⟨st.sections, st.groups, st.expected, h.symm⟩
  · obtain ⟨secs, g, rfl⟩ := doRepeat_shape h
    exact ⟨secs, g, _, rfl⟩

theorem stepColons_shape {st n st'} (h : stepColons st n = .ok st') :
    ∃ secs g e, st' = { st with barAcc := [], sections := secs, groups := g, expected := e } := by
  unfold stepColons at h
  split at h
  · simp at h
  · obtain ⟨secs, g, rfl⟩ := doRepeat_shape h
    exact ⟨secs, g, _, rfl⟩

theorem applyBroken_pitches {R notes gt n notes'} (h : applyBroken R notes gt n = .ok notes') :
    notes'.map (·.pitch) = notes.map (·.pitch) ∧ notes'.length = notes.length := by
  unfold applyBroken at h
  split at h
  · rename_i n2 n1 rest hr
    have hn : notes = rest.reverse ++ [n1, n2] := by
      have := congrArg List.reverse hr
      simpa using this
    simp only at h
    split at h
    · simp at h
    · split at h <;> (simp only [Except.ok.injEq] at h; subst h; subst hn; simp)
  · simp at h

/-- the note a NOTE_PATTERN token appends -/
def newNote (p : Int) (s e : Rat) : Note := { pitch := p, vel := Gen.DEFAULT_VELOCITY, start := s, end_ := e }

/-- everything a successful note token does -/
theorem stepNote_ok {R st acc letter octs len st'} (h : stepNote R st acc letter octs len = .ok st') :
    ∃ base delta barAcc' u l dt notes',
      lookup letter Gen.ABC_NOTE_TO_MIDI = some base ∧
      noteAccidental st acc (upperC letter) = .ok (delta, barAcc') ∧
      Gen.MIN_MIDI_PITCH ≤ base + delta + octaveShift octs ∧ base + delta + octaveShift octs ≤ Gen.MAX_MIDI_PITCH ∧
      st.unit = some u ∧ noteLength u len = .ok l ∧ seconds R (qpm st) l = .ok dt ∧
      (match st.broken with
        | none => notes' = st.notes ++ [newNote (base + delta + octaveShift octs) st.time (R (st.time + dt))]
        | some (gt, n) => applyBroken R (st.notes ++ [newNote (base + delta + octaveShift octs) st.time
                            (R (st.time + dt))]) gt n = .ok notes') ∧
      st' = { st with notes := notes', barAcc := barAcc', time := R (st.time + dt), broken := none } := by
  unfold stepNote at h
  split at h
  · simp at h
  rename_i base hbase
  split at h
  · simp at h
  rename_i delta barAcc' hacc
  simp only at h
  split at h
  · simp at h
  rename_i hrange
  split at h
  · simp at h
  rename_i u hu
  split at h
  · simp at h
  rename_i l hl
  split at h
  · simp at h
  rename_i dt hdt
  have hr : Gen.MIN_MIDI_PITCH ≤ base + delta + octaveShift octs ∧ base + delta + octaveShift octs ≤ Gen.MAX_MIDI_PITCH := by
    constructor <;> omega
  split at h
  · rename_i hb
    simp only [Except.ok.injEq] at h
    refine ⟨base, delta, barAcc', u, l, dt,
      st.notes ++ [newNote (base + delta + octaveShift octs) st.time (R (st.time + dt))],
      hbase, hacc, hr.1, hr.2, hu, hl, hdt, ?_, ?_⟩
    · rw [hb]
    · rw [← h, hb]; rfl
  · rename_i gt n hb
    split at h
    · simp at h
    rename_i notes' hn
    simp only [Except.ok.injEq] at h
    refine ⟨base, delta, barAcc', u, l, dt, notes', hbase, hacc, hr.1, hr.2, hu, hl, hdt, ?_, h.symm⟩
    rw [hb]
    exact hn

theorem setUnitFromHeader_shape {R st st'} (h : setUnitFromHeader R st = .ok st') :
    ∃ u, st' = { st with unit := u } := by
  unfold setUnitFromHeader at h
  split at h
  · simp only [Except.ok.injEq] at h; exact ⟨st.unit, h.symm⟩
  · split at h
    · simp only [Except.ok.injEq] at h; exact ⟨_, h.symm⟩
    · split at h
      · simp at h
      · split at h <;> (simp only [Except.ok.injEq] at h; exact ⟨_, h.symm⟩)
    · simp at h

theorem finishHeader_shape {R st st'} (h : finishHeader R st = .ok st') :
    ∃ u t, st' = { st with unit := u, tempos := t } := by
  unfold finishHeader at h
  split at h
  · simp at h
  · rename_i st1 h1
    obtain ⟨u, rfl⟩ := setUnitFromHeader_shape h1
    simp only at h
    split at h
    · split at h
      · obtain ⟨t, rfl⟩ := addTempo_shape h
        exact ⟨u, t, rfl⟩
      · simp only [Except.ok.injEq] at h; exact ⟨u, st.tempos, h.symm⟩
    · simp only [Except.ok.injEq] at h; exact ⟨u, st.tempos, h.symm⟩

theorem startMusic_shape {R st st'} (h : startMusic R st = .ok st') :
    ∃ u t, st' = { st with unit := u, tempos := t, inHeader := false, broken := none } := by
  unfold startMusic at h
  split at h
  · split at h
    · simp at h
    · rename_i st1 h1
      obtain ⟨u, t, rfl⟩ := finishHeader_shape h1
      simp only [Except.ok.injEq] at h
      exact ⟨u, t, h.symm⟩
  · rename_i hh
    simp only [Except.ok.injEq] at h
    refine ⟨st.unit, st.tempos, ?_⟩
    rw [← h]
    have : st.inHeader = false := by simpa using hh
    cases st; simp_all

/-! ## pitch: the accidental in force, by scanning the tune backwards -/

/-- the value of an explicit single accidental -/
def accInt : Acc → Option Int
  | .sharp => some 1
  | .flat => some (-1)
  | .natural => some 0
  | _ => none

/-- effect of one item on "the explicit accidental on letter `L` since the last bar line" -/
def barStep (L : Char) (cur : Option Int) : Item → Option Int
  | .tok (.bar _ _ _) => none
  | .tok (.colons _) => none
  | .tok (.note a l _ _) =>
    if upperC l = L then (match accInt a with | some v => some v | none => cur) else cur
  | _ => cur

/-- the most recent explicit accidental on `L` since the last bar-line token (`|`, `||`, `|:`, `:|`,
`::`, …), scanning the already processed items from the most recent one backwards; `c` if the scan
reaches the beginning -/
def barAccOf (L : Char) (c : Option Int) : List Item → Option Int
  | [] => c
  | .tok (.bar _ _ _) :: _ => none
  | .tok (.colons _) :: _ => none
  | .tok (.note a l _ _) :: r =>
    if upperC l = L then (match accInt a with | some v => some v | none => barAccOf L c r) else barAccOf L c r
  | .tok .chord :: r | .tok (.broken _ _) :: r | .tok (.inline _) :: r | .tok .variantEnding :: r
  | .tok (.annot _) :: r | .tok .deco :: r | .tok .slur :: r | .tok .tie :: r | .tok .cont :: r
  | .tok .tuplet :: r | .tok .invalid :: r | .field _ :: r | .start :: r => barAccOf L c r

theorem barAccOf_cons (L : Char) (c : Option Int) (i : Item) (r : List Item) :
    barAccOf L c (i :: r) = barStep L (barAccOf L c r) i := by
  cases i with
  | tok t => cases t <;> simp [barAccOf, barStep]
  | field f => simp [barAccOf, barStep]
  | start => simp [barAccOf, barStep]

theorem barAccOf_snoc (L : Char) (c : Option Int) (l : List Item) (i : Item) :
    barAccOf L c (l ++ [i]) = barAccOf L (barStep L c i) l := by
  induction l with
  | nil => simp [barAccOf_cons, barAccOf]
  | cons x r ih => simp [barAccOf_cons, ih]

/-- the accidentals of the key in force: those of the most recent `K:` field (line or inline) -/
def keyStep (cur : Accs) : Item → Accs
  | .field (.key k) | .tok (.inline (.key k)) =>
    match parseKey k with
    | .ok (a, _, _) => a
    | .error _ => cur
  | _ => cur

def keyAccOf (c : Accs) : List Item → Accs
  | [] => c
  | i :: r => keyStep (keyAccOf c r) i

theorem keyAccOf_snoc (c : Accs) (l : List Item) (i : Item) :
    keyAccOf c (l ++ [i]) = keyAccOf (keyStep c i) l := by
  induction l with
  | nil => simp [keyAccOf]
  | cons x r ih => simp [keyAccOf, ih]

def isNote : Item → Bool
  | .tok (.note _ _ _ _) => true
  | _ => false

def noteCount (l : List Item) : Nat := (l.filter isNote).length

theorem noteAccidental_ok {st acc name delta barAcc'} (h : noteAccidental st acc name = .ok (delta, barAcc')) :
    (∃ v, accInt acc = some v ∧ delta = v ∧ barAcc' = upsert name v st.barAcc) ∨
    (acc = .none ∧ barAcc' = st.barAcc ∧
      ((lookup name st.barAcc = some delta) ∨
       (lookup name st.barAcc = none ∧ lookup name st.keyAcc = some delta))) := by
  unfold noteAccidental at h
  cases acc <;> simp only [accValue] at h
  · right
    split at h
    · rename_i v hv
      simp only [Except.ok.injEq, Prod.mk.injEq] at h
      exact ⟨rfl, h.2.symm, .inl (by rw [hv, h.1])⟩
    · rename_i hv
      split at h
      · rename_i v hk
        simp only [Except.ok.injEq, Prod.mk.injEq] at h
        exact ⟨rfl, h.2.symm, .inr ⟨hv, by rw [hk, h.1]⟩⟩
      · simp at h
  · left; simp only [Except.ok.injEq, Prod.mk.injEq] at h; exact ⟨1, rfl, h.1.symm, h.2.symm⟩
  · left; simp only [Except.ok.injEq, Prod.mk.injEq] at h; exact ⟨-1, rfl, h.1.symm, h.2.symm⟩
  · left; simp only [Except.ok.injEq, Prod.mk.injEq] at h; exact ⟨0, rfl, h.1.symm, h.2.symm⟩
  · simp at h
  · simp at h

/-- the frame of a token that is neither a note, a bar line nor an inline field -/
theorem stepTok_cases {R st t st'} (h : stepTok R st t = .ok st') :
    (∃ a l o n, t = .note a l o n) ∨ (∃ f, t = .inline f) ∨ (∃ a b c, t = .bar a b c) ∨ (∃ n, t = .colons n) ∨
    (∃ gt n, t = .broken gt n ∧ st' = { st with broken := some (gt, n) }) ∨
    (∃ s, t = .annot s ∧ st' = { st with texts := st.texts ++ [(st.time, annotType s, s)] }) ∨
    (st' = st ∧ (t = .deco ∨ t = .slur ∨ t = .tie ∨ t = .cont)) := by
  cases t <;> simp only [stepTok] at h
  case note a l o n => exact .inl ⟨a, l, o, n, rfl⟩
  case inline f => exact .inr (.inl ⟨f, rfl⟩)
  case bar a b c => exact .inr (.inr (.inl ⟨a, b, c, rfl⟩))
  case colons n => exact .inr (.inr (.inr (.inl ⟨n, rfl⟩)))
  case broken gt n =>
    split at h
    · simp at h
    · simp only [Except.ok.injEq] at h
      exact .inr (.inr (.inr (.inr (.inl ⟨gt, n, rfl, h.symm⟩))))
  case annot s =>
    simp only [Except.ok.injEq] at h
    exact .inr (.inr (.inr (.inr (.inr (.inl ⟨s, rfl, h.symm⟩)))))
  all_goals first
    | (simp at h; done)
    | (simp only [Except.ok.injEq] at h; exact .inr (.inr (.inr (.inr (.inr (.inr ⟨h.symm, by simp⟩))))))

theorem stepItem_barAcc {R st i st'} (h : stepItem R st i = .ok st') (L : Char) :
    lookup L st'.barAcc = barStep L (lookup L st.barAcc) i := by
  cases i with
  | field f => simp only [stepItem] at h; simp [barStep, (parseField_frame h).2.1]
  | start =>
    simp only [stepItem] at h
    obtain ⟨u, t, rfl⟩ := startMusic_shape h
    simp [barStep]
  | tok t =>
    simp only [stepItem] at h
    rcases stepTok_cases h with ⟨a, l, o, n, rfl⟩ | ⟨f, rfl⟩ | ⟨a, b, c, rfl⟩ | ⟨n, rfl⟩ | ⟨gt, n, rfl, rfl⟩ |
      ⟨s, rfl, rfl⟩ | ⟨rfl, ht⟩
    · simp only [stepTok] at h
      obtain ⟨base, delta, barAcc', u, len, dt, notes', _, hacc, _, _, _, _, _, _, rfl⟩ := stepNote_ok h
      simp only [barStep]
      rcases noteAccidental_ok hacc with ⟨v, hv, _, rfl⟩ | ⟨rfl, rfl, _⟩
      · simp only [hv, lookup_upsert]
      · simp [accInt]
    · simp only [stepTok] at h; simp [barStep, (parseField_frame h).2.1]
    · simp only [stepTok] at h
      obtain ⟨secs, g, e, rfl⟩ := stepBar_shape h
      simp [barStep, lookup]
    · simp only [stepTok] at h
      obtain ⟨secs, g, e, rfl⟩ := stepColons_shape h
      simp [barStep, lookup]
    · simp [barStep]
    · simp [barStep]
    · rcases ht with rfl | rfl | rfl | rfl <;> simp [barStep]

theorem parseField_keyStep {R st f st'} (h : parseField R st f = .ok st') :
    st'.keyAcc = keyStep st.keyAcc (.field f) ∧ st'.keyAcc = keyStep st.keyAcc (.tok (.inline f)) := by
  rcases parseField_keyAcc h with ⟨k, a, pk, pm, rfl, hk, ha⟩ | ⟨hne, ha⟩
  · simp [keyStep, hk, ha]
  · cases f <;> simp_all [keyStep]

theorem stepItem_keyAcc {R st i st'} (h : stepItem R st i = .ok st') :
    st'.keyAcc = keyStep st.keyAcc i := by
  cases i with
  | field f => simp only [stepItem] at h; exact (parseField_keyStep h).1
  | start =>
    simp only [stepItem] at h
    obtain ⟨u, t, rfl⟩ := startMusic_shape h
    simp [keyStep]
  | tok t =>
    simp only [stepItem] at h
    rcases stepTok_cases h with ⟨a, l, o, n, rfl⟩ | ⟨f, rfl⟩ | ⟨a, b, c, rfl⟩ | ⟨n, rfl⟩ | ⟨gt, n, rfl, rfl⟩ |
      ⟨s, rfl, rfl⟩ | ⟨rfl, ht⟩
    · simp only [stepTok] at h
      obtain ⟨base, delta, barAcc', u, len, dt, notes', _, _, _, _, _, _, _, _, rfl⟩ := stepNote_ok h
      simp [keyStep]
    · simp only [stepTok] at h; exact (parseField_keyStep h).2
    · simp only [stepTok] at h
      obtain ⟨secs, g, e, rfl⟩ := stepBar_shape h
      simp [keyStep]
    · simp only [stepTok] at h
      obtain ⟨secs, g, e, rfl⟩ := stepColons_shape h
      simp [keyStep]
    · simp [keyStep]
    · simp [keyStep]
    · rcases ht with rfl | rfl | rfl | rfl <;> simp [keyStep]

/-- the accidental the ABC rules put on a note: explicit, else bar-scoped, else from the key -/
def effectiveAcc (a : Acc) (bar : Option Int) (key : Option Int) : Option Int :=
  match accInt a with
  | some v => some v
  | none => match bar with
    | some v => some v
    | none => key

/-- a step that is not a note keeps the notes' pitches; a note token appends the pitch the rules give -/
theorem stepItem_pitches {R st i st'} (h : stepItem R st i = .ok st') :
    (∃ a l o n base v, i = .tok (.note a l o n) ∧ lookup l Gen.ABC_NOTE_TO_MIDI = some base ∧
        effectiveAcc a (lookup (upperC l) st.barAcc) (lookup (upperC l) st.keyAcc) = some v ∧
        Gen.MIN_MIDI_PITCH ≤ base + v + octaveShift o ∧ base + v + octaveShift o ≤ Gen.MAX_MIDI_PITCH ∧
        st'.notes.map (·.pitch) = st.notes.map (·.pitch) ++ [base + v + octaveShift o]) ∨
    (isNote i = false ∧ st'.notes.map (·.pitch) = st.notes.map (·.pitch)) := by
  cases i with
  | field f => simp only [stepItem] at h; exact .inr ⟨rfl, by rw [(parseField_frame h).1]⟩
  | start =>
    simp only [stepItem] at h
    obtain ⟨u, t, rfl⟩ := startMusic_shape h
    exact .inr ⟨rfl, rfl⟩
  | tok t =>
    simp only [stepItem] at h
    rcases stepTok_cases h with ⟨a, l, o, n, rfl⟩ | ⟨f, rfl⟩ | ⟨a, b, c, rfl⟩ | ⟨n, rfl⟩ | ⟨gt, n, rfl, rfl⟩ |
      ⟨s, rfl, rfl⟩ | ⟨rfl, ht⟩
    · left
      simp only [stepTok] at h
      obtain ⟨base, delta, barAcc', u, len, dt, notes', hb, hacc, h1, h2, _, _, _, hn, rfl⟩ := stepNote_ok h
      refine ⟨a, l, o, n, base, delta, rfl, hb, ?_, h1, h2, ?_⟩
      · rcases noteAccidental_ok hacc with ⟨v, hv, rfl, _⟩ | ⟨rfl, _, hl | ⟨hl1, hl2⟩⟩
        · simp [effectiveAcc, hv]
        · simp [effectiveAcc, accInt, hl]
        · simp [effectiveAcc, accInt, hl1, hl2]
      · simp only
        split at hn
        · subst hn; simp [newNote]
        · rw [(applyBroken_pitches hn).1]; simp [newNote]
    · simp only [stepTok] at h; exact .inr ⟨rfl, by rw [(parseField_frame h).1]⟩
    · simp only [stepTok] at h
      obtain ⟨secs, g, e, rfl⟩ := stepBar_shape h
      exact .inr ⟨rfl, rfl⟩
    · simp only [stepTok] at h
      obtain ⟨secs, g, e, rfl⟩ := stepColons_shape h
      exact .inr ⟨rfl, rfl⟩
    · exact .inr ⟨rfl, rfl⟩
    · exact .inr ⟨rfl, rfl⟩
    · rcases ht with rfl | rfl | rfl | rfl <;> exact .inr ⟨rfl, rfl⟩

/-- invariant of a successful run: the two accidental tables are what the backward scans say, and
the pitches only grow, one per note token -/
theorem runItems_invariant {R st items st'} (h : runItems R st items = .ok st') :
    (∀ L, lookup L st'.barAcc = barAccOf L (lookup L st.barAcc) items.reverse) ∧
    st'.keyAcc = keyAccOf st.keyAcc items.reverse ∧
    (∃ suffix, st'.notes.map (·.pitch) = st.notes.map (·.pitch) ++ suffix ∧ suffix.length = noteCount items) := by
  induction items generalizing st with
  | nil =>
    simp only [runItems, Except.ok.injEq] at h; subst h
    simp [barAccOf, keyAccOf, noteCount]
  | cons i r ih =>
    simp only [runItems] at h
    split at h
    · simp at h
    rename_i st1 h1
    obtain ⟨ihb, ihk, suffix, ihs, ihl⟩ := ih h
    refine ⟨fun L => ?_, ?_, ?_⟩
    · rw [ihb L, List.reverse_cons, barAccOf_snoc, stepItem_barAcc h1 L]
    · rw [ihk, List.reverse_cons, keyAccOf_snoc, stepItem_keyAcc h1]
    · rcases stepItem_pitches h1 with ⟨a, l, o, n, base, v, rfl, _, _, _, _, hp⟩ | ⟨hn, hp⟩
      · refine ⟨(base + v + octaveShift o) :: suffix, ?_, ?_⟩
        · rw [ihs, hp]; simp
        · have : noteCount (Item.tok (Tok.note a l o n) :: r) = noteCount r + 1 := by
            simp [noteCount, List.filter_cons, isNote]
          rw [this]; simp [ihl]
      · refine ⟨suffix, by rw [ihs, hp], ?_⟩
        have : noteCount (i :: r) = noteCount r := by
          simp [noteCount, hn]
        rw [this]; exact ihl

theorem runItems_error_of_step {R st pre i post st1 e} (hpre : runItems R st pre = .ok st1)
    (hstep : stepItem R st1 i = .error e) : runItems R st (pre ++ i :: post) = .error e := by
  rw [runItems_append, hpre]
  simp [runItems, hstep]

theorem finalizeSections_notes {st st'} (h : finalizeSections st = .ok st') : st'.notes = st.notes := by
  unfold finalizeSections at h
  simp only at h
  split at h
  · simp at h
  rename_i st1 h1
  have e1 : st1.notes = st.notes := by
    split at h1
    · simp only [Except.ok.injEq] at h1; rw [← h1]
    · split at h1
      · simp at h1
      · split at h1 <;> (simp only [Except.ok.injEq] at h1; rw [← h1])
  split at h
  · split at h <;> (simp only [Except.ok.injEq] at h; rw [← h]; exact e1)
  · simp only [Except.ok.injEq] at h; rw [← h]; exact e1

/-- the notes of a parsed tune are those of the state after the last line -/
theorem parseTune_notes {R lines tune} (h : parseTune R lines = .ok tune) :
    ∃ st, runItems R init (flatten lines) = .ok st ∧ tune.notes = st.notes := by
  unfold parseTune at h
  split at h
  · simp at h
  rename_i st hst
  refine ⟨st, by rw [← runLines_eq_runItems]; exact hst, ?_⟩
  unfold finishTune at h
  split at h
  · simp at h
  rename_i st1 h1
  have e1 : st1.notes = st.notes := by
    split at h1
    · obtain ⟨u, t, rfl⟩ := finishHeader_shape h1; rfl
    · simp only [Except.ok.injEq] at h1; rw [h1]
  split at h
  · simp at h
  split at h
  · simp at h
  rename_i st2 h2
  simp only [Except.ok.injEq] at h
  rw [← h, toTune, finalizeSections_notes h2, e1]

/-! ## the header, read as "the last field of each kind wins" -/

def meterOf : Field → Option (Rat × Int × Int)
  | .meterC => some (0, 4, 4)
  | .meterCut => some (0, 2, 2)
  | .meter n d => some (0, n, d)
  | _ => none

/-- the time signatures the header's `M:` fields declare (`C` = 4/4, `C|` = 2/2, `none` = none) -/
def hdrMeters (fs : List Field) : List (Rat × Int × Int) := fs.filterMap meterOf

def keySigOf : Field → Option (Rat × Nat × Nat)
  | .key k => match parseKey k with
    | .ok (_, pk, pm) => some (0, pk, pm)
    | .error _ => none
  | _ => none

/-- the key signatures (tonic pitch class, mode) the header's `K:` fields declare -/
def hdrKeys (fs : List Field) : List (Rat × Nat × Nat) := fs.filterMap keySigOf

def unitStep (c : Option Rat) : Field → Option Rat
  | .unitLen n d => some ((n : Rat) / (d : Rat))
  | _ => c

/-- the value of the last `L:` field -/
def hdrUnit (c : Option Rat) (fs : List Field) : Option Rat := fs.foldl unitStep c

def tempoStep (c : Option (Option Rat × Nat)) : Field → Option (Option Rat × Nat)
  | .tempo beats rate =>
    (match sumBeats beats with
     | .ok u => some (some u, rate)
     | .error _ => c)
  | .tempoOld rate => some (none, rate)
  | _ => c

/-- beat length (`none`: the deprecated `Q:r`, counted in unit note lengths) and rate of the last `Q:` -/
def hdrTempo (c : Option (Option Rat × Nat)) (fs : List Field) : Option (Option Rat × Nat) := fs.foldl tempoStep c

def refStep (c : Int) : Field → Int
  | .refnum n => n
  | _ => c

/-- the last `X:` -/
def hdrRef (c : Int) (fs : List Field) : Int := fs.foldl refStep c

def hdrKeyAcc (c : Accs) (fs : List Field) : Accs := keyAccOf c (fs.map Item.field).reverse

/-- the pending header tempo of a state, as a pair -/
def pendingTempo (st : St) : Option (Option Rat × Nat) := st.hdrTempoRate.map (fun r => (st.hdrTempoUnit, r))

/-- one information field in the header -/
theorem parseField_header {R st f st'} (hh : st.inHeader = true) (ht : st.time = 0)
    (h : parseField R st f = .ok st') :
    st'.tempos = st.tempos ∧ st'.timeSigs = st.timeSigs ++ (meterOf f).toList ∧
    st'.keySigs = st.keySigs ++ (keySigOf f).toList ∧ st'.unit = unitStep st.unit f ∧
    st'.refnum = refStep st.refnum f ∧ pendingTempo st' = tempoStep (pendingTempo st) f := by
  cases f with
  | tempo beats rate =>
    simp only [parseField] at h
    split at h
    · simp at h
    rename_i u hu
    simp only [setTempo, hh, ↓reduceIte, Except.ok.injEq] at h; subst h
    simp [meterOf, keySigOf, unitStep, refStep, tempoStep, pendingTempo, hu]
  | tempoOld rate =>
    simp only [parseField, setTempo, hh, ↓reduceIte, Except.ok.injEq] at h; subst h
    simp [meterOf, keySigOf, unitStep, refStep, tempoStep, pendingTempo]
  | key k =>
    simp only [parseField] at h
    split at h
    · simp at h
    rename_i a pk pm hk
    simp only [Except.ok.injEq] at h; subst h
    simp [meterOf, keySigOf, unitStep, refStep, tempoStep, pendingTempo, hk, ht]
  | title s =>
    simp only [parseField] at h
    split at h <;>
      (simp only [Except.ok.injEq] at h; subst h
       simp [meterOf, keySigOf, unitStep, refStep, tempoStep, pendingTempo])
  | unitLen n d =>
    simp only [parseField] at h
    split at h
    · simp at h
    · simp only [Except.ok.injEq] at h; subst h
      simp [meterOf, keySigOf, unitStep, refStep, tempoStep, pendingTempo]
  | refnum _ | composer _ | meterC | meterCut | meterNone | meter _ _ | tempoStr | other =>
    simp only [parseField, Except.ok.injEq] at h; subst h
    simp [meterOf, keySigOf, unitStep, refStep, tempoStep, pendingTempo, ht]
  | refBad | meterBad | unitBad | tempoBad | keyBad | part | voice =>
    simp [parseField] at h

/-- the header phase as an invariant of the field fold -/
theorem runItems_header {R st fs st'} (hh : st.inHeader = true) (ht : st.time = 0)
    (h : runItems R st (fs.map .field) = .ok st') :
    st'.inHeader = true ∧ st'.time = 0 ∧ st'.notes = st.notes ∧ st'.tempos = st.tempos ∧
    st'.sections = st.sections ∧ st'.groups = st.groups ∧ st'.expected = st.expected ∧
    st'.timeSigs = st.timeSigs ++ hdrMeters fs ∧ st'.keySigs = st.keySigs ++ hdrKeys fs ∧
    st'.unit = hdrUnit st.unit fs ∧ st'.refnum = hdrRef st.refnum fs ∧
    pendingTempo st' = hdrTempo (pendingTempo st) fs := by
  induction fs generalizing st with
  | nil =>
    simp only [List.map_nil, runItems, Except.ok.injEq] at h; subst h
    simp [hh, ht, hdrMeters, hdrKeys, hdrUnit, hdrRef, hdrTempo]
  | cons f r ih =>
    simp only [List.map_cons, runItems, stepItem] at h
    split at h
    · simp at h
    rename_i st1 h1
    obtain ⟨hn, _, _, htm, hsec, hgr, hex, hih, _⟩ := parseField_frame h1
    obtain ⟨j1, j2, j3, j4, j5, j6⟩ := parseField_header hh ht h1
    have hh1 : st1.inHeader = true := by rw [hih, hh]
    have ht1 : st1.time = 0 := by rw [htm, ht]
    obtain ⟨i1, i2, i3, i4, i5, i6, i7, i8, i9, i10, i11, i12⟩ := ih hh1 ht1 h
    refine ⟨i1, i2, by rw [i3, hn], by rw [i4, j1], by rw [i5, hsec], by rw [i6, hgr], by rw [i7, hex],
      ?_, ?_, ?_, ?_, ?_⟩
    · rw [i8, j2]; cases hm : meterOf f <;> simp [hdrMeters, hm]
    · rw [i9, j3]; cases hm : keySigOf f <;> simp [hdrKeys, hm]
    · rw [i10, j4]; simp [hdrUnit]
    · rw [i11, j5]; simp [hdrRef]
    · rw [i12, j6]; simp [hdrTempo]

/-! ## the tunebook loop -/

theorem bookLoop_excs (R : Rat → Rat) (hdr : List Line) (ts : List (List Line)) (T : List Tune) (E : List String) :
    bookLoop R hdr ts T E =
      match bookLoop R hdr ts T [] with
      | .ok (T', X) => .ok (T', E ++ X)
      | .error e => .error e := by
  induction ts generalizing T E with
  | nil => simp [bookLoop]
  | cons t r ih =>
    simp only [bookLoop]
    split
    · rename_i c hc
      rw [ih T (E ++ [c]), ih T ([] ++ [c])]
      cases bookLoop R hdr r T [] with
      | error e => rfl
      | ok p => obtain ⟨T', X⟩ := p; simp
    · rfl
    · rename_i tn htn
      split
      · rfl
      · exact ih _ E

theorem bookLoop_append (R : Rat → Rat) (hdr : List Line) (a b : List (List Line)) (T : List Tune) (E : List String) :
    bookLoop R hdr (a ++ b) T E =
      match bookLoop R hdr a T E with
      | .ok (T', E') => bookLoop R hdr b T' E'
      | .error e => .error e := by
  induction a generalizing T E with
  | nil => simp [bookLoop]
  | cons t r ih =>
    simp only [List.cons_append, bookLoop]
    split
    · exact ih _ _
    · rfl
    · split
      · rfl
      · exact ih _ _

/-! ## RepeatParseError -/

theorem addSection_time (st : St) (t : Rat) : (addSection st t).1.time = st.time := by
  obtain ⟨secs, hs⟩ := addSection_shape st t
  rw [hs]

theorem addGroup_ne_repeat (st : St) (n : Nat) : addGroup st n ≠ .error eRepeat := by
  unfold addGroup
  split <;> simp [eRepeat]

theorem doRepeat_mismatch (st : St) (b f : Option Nat) (he : truthy st.expected = true) (hne : b ≠ st.expected) :
    doRepeat st b f = .error eRepeat := by
  unfold doRepeat
  rw [if_pos ⟨he, hne⟩]

theorem doRepeat_time_zero (st : St) (b : Nat) (f : Option Nat)
    (he : truthy st.expected = true → some b = st.expected) (hb : b ≠ 0) (h0 : st.time = 0) :
    doRepeat st (some b) f = .error eRepeat := by
  unfold doRepeat
  rw [if_neg (by intro ⟨h1, h2⟩; exact h2 (he h1))]
  simp only [hb, ne_eq, not_false_eq_true, ↓reduceIte, closeRepeat, addSection_time, h0]

theorem doRepeat_no_repeat_error (st : St) (b f : Option Nat)
    (he : truthy st.expected = true → b = st.expected) (ht : ∀ x, b = some x → x ≠ 0 → st.time ≠ 0) :
    doRepeat st b f ≠ .error eRepeat := by
  unfold doRepeat
  rw [if_neg (by intro ⟨h1, h2⟩; exact h2 (he h1))]
  have hp : ∀ i, playPreviousOnce (addSection st st.time).1 i f ≠ .error eRepeat := by
    intro i
    unfold playPreviousOnce
    split
    · have := addGroup_ne_repeat (addSection st st.time).1 1
      split
      · rename_i e h; intro hc; apply this; rw [h]; simpa using hc
      · simp
    · simp
  simp only
  split
  · rename_i x
    split
    · rename_i hx
      unfold closeRepeat
      rw [if_neg (by rw [addSection_time]; exact ht x rfl hx)]
      have := addGroup_ne_repeat (addSection st st.time).1 x
      split
      · rename_i e h; intro hc; apply this; rw [h]; simpa using hc
      · simp
    · exact hp _
  · exact hp _

end NSV.C04
