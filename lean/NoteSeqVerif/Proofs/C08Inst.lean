import NoteSeqVerif.Proofs.C08
import NoteSeqVerif.Props.C09
import NoteSeqVerif.Model.C08Inst
/-! C08 — the abstract one-hot hypotheses (`ValidEv`, `DecodeTotal`) discharged for the concrete melody and
performance encodings by the C09 theorems (imported read-only). -/
namespace NSV.C08
open Gen

/-! ## the melody one-hot instance (hypotheses discharged by C09) -/
theorem melody_valid (mn mx e : Int) (hc : C09.MelCfg mn mx) (he : C09.MelEvent mn mx e) :
    ValidEv (melOneHot mn mx) e := by
  obtain ⟨i, h1, h2, h3, h4⟩ := C09.melody_encode_decode mn mx e hc he
  exact ⟨i, h1, h2, h3, by simp [melOneHot, h4]⟩

theorem melody_decode_total (mn mx : Int) (hc : C09.MelCfg mn mx) : DecodeTotal (melOneHot mn mx) := by
  intro i h0 h1
  exact ⟨C09.Gen.melDecode mn i, rfl, i, C09.melody_decode_encode mn mx i hc h0 h1, h0, h1, rfl⟩

theorem melody_default_valid (mn mx : Int) (hc : C09.MelCfg mn mx) :
    ValidEv (melOneHot mn mx) (melOneHot mn mx).default :=
  melody_valid mn mx _ hc (by unfold melOneHot MELODY_NO_EVENT C09.MelEvent; simp)

/-- legal configurations: `0 ≤ num_velocity_bins ≤ 127`, `max_shift_steps ≥ 1` -/
def ModCfgOk (c : ModCfg) : Prop := 0 ≤ c.bins ∧ c.bins ≤ MAX_NUM_VELOCITY_BINS ∧ 1 ≤ c.maxShift

/-- performance events of a configuration: the type is one of the encoder's ranges and the value lies in it -/
def ModEvent (c : ModCfg) (e : Nat × Int) : Prop :=
  ∃ r ∈ C09.perfRanges c.bins c.maxShift MIN_MIDI_PITCH MAX_MIDI_PITCH, e.1 = r.ty ∧ r.lo ≤ e.2 ∧ e.2 ≤ r.hi

theorem modulo_valid (c : ModCfg) (hc : ModCfgOk c) (e : Nat × Int) (he : ModEvent c e) :
    ValidEv (perfOneHot c.bins c.maxShift MIN_MIDI_PITCH MAX_MIDI_PITCH) e := by
  obtain ⟨r, hr, h1, h2, h3⟩ := he
  obtain ⟨c1, c2, c3⟩ := hc
  obtain ⟨i, e1, e2, e3, e4⟩ := C09.perf_encode_decode c.bins c.maxShift MIN_MIDI_PITCH MAX_MIDI_PITCH
    ⟨c1, c3, by unfold MIN_MIDI_PITCH MAX_MIDI_PITCH; omega⟩ r hr e.2 h2 h3
  refine ⟨i, by simp only [perfOneHot]; rw [h1]; exact e1, e2, e3, ?_⟩
  simp only [perfOneHot, e4]
  have ok : perfEventOk r.ty e.2 = true := by
    unfold C09.perfRanges at hr
    unfold perfEventOk
    unfold MAX_NUM_VELOCITY_BINS MIN_MIDI_PITCH MAX_MIDI_PITCH NOTE_ON NOTE_OFF TIME_SHIFT VELOCITY DURATION at *
    unfold C09.Gen.NOTE_ON C09.Gen.NOTE_OFF C09.Gen.TIME_SHIFT C09.Gen.VELOCITY at hr
    simp only [List.mem_append, List.mem_cons, List.not_mem_nil, or_false] at hr
    rcases hr with (h | h | h) | h
    · subst h; simp at h2 h3 ⊢; omega
    · subst h; simp at h2 h3 ⊢; omega
    · subst h; simp at h2 h3 ⊢; omega
    · split at h
      · simp only [List.mem_cons, List.not_mem_nil, or_false] at h
        subst h; simp at h2 h3 ⊢; omega
      · cases h
  rw [ok]
  simp only [if_true]
  congr 1
  exact Prod.ext h1.symm rfl

end NSV.C08
