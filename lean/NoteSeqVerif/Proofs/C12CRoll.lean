import NoteSeqVerif.Model.C18
/-! C12 — helper lemmas for the storage-order invariance of `sequence_to_pianoroll` (`Model/C18.encode`).

* a fold of steps over two key-sorted permutations of one multiset gives the same state when the steps of
  elements with EQUAL keys commute (`foldl_sorted_perm`);
* the stable insertion sort `sortBy` returns a key-sorted permutation;
* every numpy assignment of the note loop is a column update `colUpd`; column updates of different columns commute;
* the note loop / control-change loop split into a state-independent error and a pure state update
  (`encNotes_eq`, `encCCs_eq`). -/
namespace NSV.C12
open NSV NSV.C18

/-! ## folds over sorted permutations -/

theorem foldl_move_front {α σ} (g : σ → α → σ) (a : α) (l1 : List α)
    (h : ∀ x ∈ l1, ∀ s, g (g s x) a = g (g s a) x) (l2 : List α) (s : σ) :
    (l1 ++ a :: l2).foldl g s = (a :: (l1 ++ l2)).foldl g s := by
  induction l1 generalizing s with
  | nil => rfl
  | cons x t ih =>
    simp only [List.cons_append, List.foldl_cons]
    rw [ih (fun y hy => h y (List.mem_cons_of_mem _ hy))]
    simp only [List.foldl_cons]
    rw [h x (by simp)]

/-- Two key-sorted storage orders of one multiset are folded to the same state, provided the steps of any two
elements with equal keys commute (`C`).  (Elements with different keys come in the same relative order in both.) -/
theorem foldl_sorted_perm {α σ} (g : σ → α → σ) (key : α → Rat) (C : α → α → Prop)
    (hC : ∀ a b, C a b → ∀ s, g (g s a) b = g (g s b) a) :
    ∀ (L L' : List α), L.Perm L' →
      L.Pairwise (fun a b => key a ≤ key b) → L'.Pairwise (fun a b => key a ≤ key b) →
      L.Pairwise (fun a b => key a = key b → C a b) → ∀ s, L.foldl g s = L'.foldl g s := by
  intro L
  induction L with
  | nil => intro L' hp _ _ _ s; rw [hp.nil_eq]
  | cons a t ih =>
    intro L' hp hs hs' hc s
    have ha : a ∈ L' := hp.subset (by simp)
    obtain ⟨l1, l2, rfl⟩ := List.append_of_mem ha
    have hpt : t.Perm (l1 ++ l2) := (hp.trans List.perm_middle).cons_inv
    obtain ⟨hs1, hs2, hs12⟩ := List.pairwise_append.mp hs'
    have hsa := List.pairwise_cons.mp hs
    have hca := List.pairwise_cons.mp hc
    have hmove : ∀ x ∈ l1, ∀ s, g (g s x) a = g (g s a) x := by
      intro x hx s
      have hxt : x ∈ t := hpt.symm.subset (by simp [hx])
      have h1 : key a ≤ key x := hsa.1 x hxt
      have h2 : key x ≤ key a := hs12 x hx a (by simp)
      exact (hC a x (hca.1 x hxt (Rat.le_antisymm h1 h2)) s).symm
    rw [foldl_move_front g a l1 hmove l2 s]
    simp only [List.foldl_cons]
    apply ih (l1 ++ l2) hpt hsa.2 _ hca.2
    exact List.pairwise_append.mpr ⟨hs1, (List.pairwise_cons.mp hs2).2,
      fun x hx y hy => hs12 x hx y (List.mem_cons_of_mem _ hy)⟩

/-! ## the stable insertion sort of the encoder -/

theorem insertBy_perm {α} (key : α → Rat) (a : α) (l : List α) : (insertBy key a l).Perm (a :: l) := by
  induction l with
  | nil => exact List.Perm.refl _
  | cons b l ih =>
    simp only [insertBy]
    split
    · exact List.Perm.refl _
    · exact ((ih.cons b).trans (List.Perm.swap a b l))

theorem sortBy_perm {α} (key : α → Rat) (l : List α) : (sortBy key l).Perm l := by
  induction l with
  | nil => exact List.Perm.refl _
  | cons a l ih => exact (insertBy_perm key a _).trans (ih.cons a)

theorem insertBy_sorted {α} (key : α → Rat) (a : α) (l : List α)
    (h : l.Pairwise (fun x y => key x ≤ key y)) : (insertBy key a l).Pairwise (fun x y => key x ≤ key y) := by
  induction l with
  | nil => simp [insertBy]
  | cons b l ih =>
    have hb := List.pairwise_cons.mp h
    simp only [insertBy]
    split
    · rename_i hab
      refine List.pairwise_cons.mpr ⟨?_, h⟩
      intro x hx
      rcases List.mem_cons.mp hx with rfl | hx
      · exact hab
      · exact Rat.le_trans hab (hb.1 x hx)
    · rename_i hab
      refine List.pairwise_cons.mpr ⟨?_, ih hb.2⟩
      intro x hx
      rcases List.mem_cons.mp ((insertBy_perm key a l).subset hx) with rfl | hx
      · rcases Rat.le_total (a := key x) (b := key b) with h1 | h1
        · exact absurd h1 hab
        · exact h1
      · exact hb.1 x hx

theorem sortBy_sorted {α} (key : α → Rat) (l : List α) : (sortBy key l).Pairwise (fun x y => key x ≤ key y) := by
  induction l with
  | nil => simp [sortBy]
  | cons a l ih => exact insertBy_sorted key a _ ih

/-! ## column updates -/

/-- `m[rows selected by u, col] = values given by u` — `u` sees the number of frames and the frame index -/
def colUpd {α} (m : List (List α)) (col : Nat) (u : Nat → Nat → Option α) : List (List α) :=
  m.mapIdx fun i row => match u m.length i with
    | some v => row.set col v
    | none => row

theorem length_colUpd {α} (m : List (List α)) (col : Nat) (u : Nat → Nat → Option α) :
    (colUpd m col u).length = m.length := by
  simp [colUpd]

theorem colUpd_comm {α} (m : List (List α)) (c1 c2 : Nat) (u1 u2 : Nat → Nat → Option α) (h : c1 ≠ c2) :
    colUpd (colUpd m c1 u1) c2 u2 = colUpd (colUpd m c2 u2) c1 u1 := by
  apply List.ext_getElem?
  intro i
  simp only [colUpd, List.getElem?_mapIdx, List.length_mapIdx, Option.map_map]
  cases m[i]? with
  | none => rfl
  | some row =>
    simp only [Option.map_some, Function.comp]
    cases u1 m.length i <;> cases u2 m.length i <;> simp only []
    rw [List.set_comm _ _ h]

/-- several updates of one column, in order -/
def colProg {α} (m : List (List α)) (col : Nat) (us : List (Nat → Nat → Option α)) : List (List α) :=
  us.foldl (fun m u => colUpd m col u) m

theorem colProg_colUpd_comm {α} (us : List (Nat → Nat → Option α)) (m : List (List α)) (c1 c2 : Nat)
    (u : Nat → Nat → Option α) (h : c1 ≠ c2) :
    colProg (colUpd m c2 u) c1 us = colUpd (colProg m c1 us) c2 u := by
  induction us generalizing m with
  | nil => rfl
  | cons v us ih =>
    simp only [colProg, List.foldl_cons] at ih ⊢
    rw [colUpd_comm m c2 c1 u v (Ne.symm h)]
    exact ih _

theorem colProg_comm {α} (us1 us2 : List (Nat → Nat → Option α)) (m : List (List α)) (c1 c2 : Nat) (h : c1 ≠ c2) :
    colProg (colProg m c1 us1) c2 us2 = colProg (colProg m c2 us2) c1 us1 := by
  induction us2 generalizing m with
  | nil => rfl
  | cons v us ih =>
    show colProg (colUpd (colProg m c1 us1) c2 v) c2 us = colProg (colProg (colUpd m c2 v) c2 us) c1 us1
    rw [← colProg_colUpd_comm us1 m c1 c2 v h]
    exact ih _

def uPaint {α} (a b : Int) (v : α) : Nat → Nat → Option α :=
  fun len i => if normIdx len a ≤ i ∧ i < normIdx len b then some v else none

def uSeq {α} (a b : Int) (bcast : Bool) (f : Nat → α) : Nat → Nat → Option α :=
  fun len i => if normIdx len a ≤ i ∧ i < normIdx len b then some (f (if bcast then 0 else i - normIdx len a)) else none

def uCell {α} (P : Prop) [Decidable P] (r : Nat) (v : α) : Nat → Nat → Option α :=
  fun _ i => if P ∧ i = r then some v else none

theorem paint_eq_colUpd {α} (m : List (List α)) (a b : Int) (col : Nat) (v : α) :
    paint m a b col v = colUpd m col (uPaint a b v) := by
  simp only [paint, colUpd, uPaint]
  congr 1
  funext i row
  split <;> rfl

theorem paintSeq_eq_colUpd {α} (m : List (List α)) (a b : Int) (col : Nat) (bc : Bool) (f : Nat → α) :
    paintSeq m a b col bc f = colUpd m col (uSeq a b bc f) := by
  simp only [paintSeq, colUpd, uSeq]
  congr 1
  funext i row
  split <;> rfl

theorem setCell_eq_colUpd {α} (m : List (List α)) (r col : Nat) (v : α) :
    setCell m r col v = colUpd m col (uCell True r v) := by
  unfold setCell colUpd uCell
  congr 1
  funext i row
  simp only [true_and]
  split <;> rfl

theorem colUpd_false {α} (m : List (List α)) (col r : Nat) (v : α) (P : Prop) [Decidable P] (h : ¬ P) :
    colUpd m col (uCell P r v) = m := by
  unfold colUpd uCell
  apply List.ext_getElem?
  intro i
  simp only [List.getElem?_mapIdx, h, false_and, if_false]
  cases m[i]? <;> rfl

theorem colUpd_true {α} (m : List (List α)) (col r : Nat) (v : α) (P : Prop) [Decidable P] (h : P) :
    colUpd m col (uCell P r v) = setCell m r col v := by
  rw [setCell_eq_colUpd]
  unfold colUpd uCell
  simp only [h, true_and]

/-! ## the note loop: state-independent error + pure update -/

/-- the exception the body of the note loop raises (it never depends on the rolls painted so far) -/
def paintErr (c : Cfg) (n : Nat) (nt : PNote) (f : NF) : Option C18.Err :=
  if nt.velocity > c.maxVelocity then some .valueError
  else if c.maxVelocity = 0 then some .zeroDivisionError
  else if ((min f.ef (n : Int)) - f.oe).toNat ≠ sliceLen n f.oe (min f.ef (n : Int)) ∧
      ((min f.ef (n : Int)) - f.oe).toNat ≠ 1 then some .valueError
  else none

/-- the five assignments of the loop body as updates of column `col` -/
def paintFn (R R32 : Rat → Rat) (c : Cfg) (n : Nat) (nt : PNote) (col : Nat) (f : NF) (st : Rolls) : Rolls :=
  let we := min f.ef (n : Int)
  let len := (we - f.oe).toNat
  let blank : Prop := c.blank ∧ 0 < f.sf ∧ f.sf ≤ (n : Int)
  { active := colProg st.active col [uPaint f.sf f.ef 1, uCell blank (f.sf - 1).toNat 0],
    weights := colProg st.weights col [uPaint f.os f.oe (R32 c.upweight),
      uSeq f.oe we (len == 1) (fun j => R32 (R (c.upweight / ((j + 1 : Nat) : Rat)))),
      uCell blank (f.sf - 1).toNat 1],
    onsets := colProg st.onsets col [uPaint f.os f.oe 1],
    offsets := colProg st.offsets col [uPaint f.fs f.fe 1],
    vels := colProg st.vels col [uPaint f.sf f.ef (R32 (R ((nt.velocity : Rat) / (c.maxVelocity : Rat))))] }

theorem paintNote_eq (R R32 : Rat → Rat) (c : Cfg) (n : Nat) (st : Rolls) (nt : PNote) (col : Nat) (f : NF) :
    paintNote R R32 c n st nt col f =
      match paintErr c n nt f with
      | some e => .error e
      | none => .ok (paintFn R R32 c n nt col f st) := by
  unfold paintNote paintErr
  simp only []
  split
  · rfl
  · split
    · rfl
    · split
      · rfl
      · simp only [paintFn, colProg, List.foldl_cons, List.foldl_nil, ← paint_eq_colUpd, ← paintSeq_eq_colUpd]
        split
        · rename_i hb
          rw [colUpd_true _ _ _ _ _ hb, colUpd_true _ _ _ _ _ hb]
        · rename_i hb
          rw [colUpd_false _ _ _ _ _ hb, colUpd_false _ _ _ _ _ hb]

theorem paintFn_comm (R R32 : Rat → Rat) (c : Cfg) (n : Nat) (a b : PNote) (ca cb : Nat) (fa fb : NF)
    (h : ca ≠ cb) (st : Rolls) :
    paintFn R R32 c n b cb fb (paintFn R R32 c n a ca fa st) =
      paintFn R R32 c n a ca fa (paintFn R R32 c n b cb fb st) := by
  simp only [paintFn]
  congr 1 <;> exact colProg_comm _ _ _ _ _ h

def outOfRange (c : Cfg) (nt : PNote) : Prop := nt.pitch < c.minPitch ∨ nt.pitch > c.maxPitch

instance (c : Cfg) (nt : PNote) : Decidable (outOfRange c nt) := by unfold outOfRange; infer_instance

/-- the exception one note raises -/
def stepErr (R : Rat → Rat) (eps : Rat) (c : Cfg) (total : Rat) (n : Nat) (nt : PNote) : Option C18.Err :=
  if outOfRange c nt then none
  else match noteFrames R eps c total n nt with
    | .error e => some e
    | .ok f => paintErr c n nt f

/-- what one note does to the rolls -/
def stepFn (R R32 : Rat → Rat) (eps : Rat) (c : Cfg) (total : Rat) (n : Nat) (st : Rolls) (nt : PNote) : Rolls :=
  if outOfRange c nt then st
  else match noteFrames R eps c total n nt with
    | .error _ => st
    | .ok f => paintFn R R32 c n nt (nt.pitch - c.minPitch).toNat f st

theorem encNote_eq (R R32 : Rat → Rat) (eps : Rat) (c : Cfg) (total : Rat) (n : Nat) (st : Rolls) (nt : PNote) :
    encNote R R32 eps c total n st nt =
      match stepErr R eps c total n nt with
      | some e => .error e
      | none => .ok (stepFn R R32 eps c total n st nt) := by
  unfold encNote stepErr stepFn outOfRange
  by_cases ho : nt.pitch < c.minPitch ∨ nt.pitch > c.maxPitch
  · simp only [ho, if_true]
  · simp only [ho, if_false]
    cases hnf : noteFrames R eps c total n nt with
    | error e => rfl
    | ok f => simp only []; exact paintNote_eq ..

theorem encNotes_eq (R R32 : Rat → Rat) (eps : Rat) (c : Cfg) (total : Rat) (n : Nat) (l : List PNote) (st : Rolls) :
    encNotes R R32 eps c total n st l =
      match l.findSome? (stepErr R eps c total n) with
      | some e => .error e
      | none => .ok (l.foldl (stepFn R R32 eps c total n) st) := by
  induction l generalizing st with
  | nil => rfl
  | cons nt rest ih =>
    simp only [encNotes, List.findSome?_cons, List.foldl_cons]
    rw [encNote_eq]
    cases stepErr R eps c total n nt with
    | some e => rfl
    | none => simp only []; exact ih _

theorem noteFrames_error {R : Rat → Rat} {eps : Rat} {c : Cfg} {total : Rat} {n : Nat} {nt : PNote} {e : C18.Err}
    (h : noteFrames R eps c total n nt = .error e) : e = .valueError := by
  unfold noteFrames at h
  simp only [] at h
  split at h
  · rename_i e' he
    split at he
    · cases he
    · split at he
      · cases he
      · cases he; cases h; rfl
  · cases h

/-- with `max_velocity ≠ 0` every exception of the note loop is a ValueError -/
theorem stepErr_valueError {R : Rat → Rat} {eps : Rat} {c : Cfg} {total : Rat} {n : Nat} {nt : PNote} {e : C18.Err}
    (hmv : c.maxVelocity ≠ 0) (h : stepErr R eps c total n nt = some e) : e = .valueError := by
  unfold stepErr at h
  split at h
  · cases h
  · split at h
    · cases h; exact noteFrames_error (by assumption)
    · unfold paintErr at h
      simp only [hmv, if_false] at h
      split at h
      · cases h; rfl
      · split at h
        · cases h; rfl
        · cases h

theorem findSome?_const {α β} (f : α → Option β) (e0 : β) (l : List α)
    (h : ∀ x ∈ l, ∀ e, f x = some e → e = e0) :
    l.findSome? f = if l.any (fun x => (f x).isSome) then some e0 else none := by
  induction l with
  | nil => rfl
  | cons a l ih =>
    have ih' := ih (fun x hx => h x (List.mem_cons_of_mem _ hx))
    by_cases hs : (f a).isSome = true
    · obtain ⟨e, he⟩ := Option.isSome_iff_exists.mp hs
      have := h a (by simp) e he
      subst this
      simp [he]
    · have hn : f a = none := by simpa using hs
      simp [hn, ih']

/-- the steps of two notes commute when one of them is out of range or their pitches differ -/
theorem stepFn_comm (R R32 : Rat → Rat) (eps : Rat) (c : Cfg) (total : Rat) (n : Nat) (a b : PNote)
    (h : outOfRange c a ∨ outOfRange c b ∨ a.pitch ≠ b.pitch) (st : Rolls) :
    stepFn R R32 eps c total n (stepFn R R32 eps c total n st a) b =
      stepFn R R32 eps c total n (stepFn R R32 eps c total n st b) a := by
  by_cases ha : outOfRange c a
  · simp only [stepFn, ha, if_true]
  · by_cases hb : outOfRange c b
    · simp only [stepFn, hb, if_true]
    · have hne : a.pitch ≠ b.pitch := by
        rcases h with h | h | h
        · exact absurd h ha
        · exact absurd h hb
        · exact h
      have hcol : (a.pitch - c.minPitch).toNat ≠ (b.pitch - c.minPitch).toNat := by
        unfold outOfRange at ha hb
        omega
      simp only [stepFn, ha, hb, if_false]
      cases noteFrames R eps c total n a with
      | error _ => rfl
      | ok fa =>
        cases noteFrames R eps c total n b with
        | error _ => rfl
        | ok fb => exact paintFn_comm R R32 c n a b _ _ fa fb hcol st

/-! ## the control-change loop -/

def ccErr (R : Rat → Rat) (eps : Rat) (c : Cfg) (n : Nat) (cc : PCC) : Option C18.Err :=
  if (framesFromTimes R eps c.fps c.occ cc.time 0).1 < (n : Int) then
    match intIdx n (framesFromTimes R eps c.fps c.occ cc.time 0).1, intIdx 128 cc.number with
    | some _, some _ => none
    | _, _ => some .indexError
  else none

def ccFn (R : Rat → Rat) (eps : Rat) (c : Cfg) (n : Nat) (m : List (List Int)) (cc : PCC) : List (List Int) :=
  if (framesFromTimes R eps c.fps c.occ cc.time 0).1 < (n : Int) then
    match intIdx n (framesFromTimes R eps c.fps c.occ cc.time 0).1, intIdx 128 cc.number with
    | some r, some k => setCell m r k (cc.value + 1)
    | _, _ => m
  else m

theorem encCCs_eq (R : Rat → Rat) (eps : Rat) (c : Cfg) (n : Nat) (l : List PCC) (m : List (List Int)) :
    encCCs R eps c n m l =
      match l.findSome? (ccErr R eps c n) with
      | some e => .error e
      | none => .ok (l.foldl (ccFn R eps c n) m) := by
  induction l generalizing m with
  | nil => rfl
  | cons cc rest ih =>
    simp only [encCCs, List.findSome?_cons, List.foldl_cons, ccErr, ccFn]
    split
    · cases intIdx n (framesFromTimes R eps c.fps c.occ cc.time 0).1 with
      | none => rfl
      | some r =>
        cases intIdx 128 cc.number with
        | none => rfl
        | some k => simp only []; exact ih _
    · simp only []; exact ih _

theorem ccErr_indexError {R : Rat → Rat} {eps : Rat} {c : Cfg} {n : Nat} {cc : PCC} {e : C18.Err}
    (h : ccErr R eps c n cc = some e) : e = .indexError := by
  unfold ccErr at h
  split at h
  · split at h
    · cases h
    · cases h; rfl
  · cases h

theorem intIdx_128 {x : Int} {k : Nat} (h : intIdx 128 x = some k) : (k : Int) = x % 128 := by
  unfold intIdx at h
  split at h
  · split at h
    · cases h; omega
    · cases h
  · split at h
    · cases h; omega
    · cases h

/-- the steps of two control changes commute when their controller numbers address different columns -/
theorem ccFn_comm (R : Rat → Rat) (eps : Rat) (c : Cfg) (n : Nat) (a b : PCC)
    (h : a.number % 128 ≠ b.number % 128) (m : List (List Int)) :
    ccFn R eps c n (ccFn R eps c n m a) b = ccFn R eps c n (ccFn R eps c n m b) a := by
  unfold ccFn
  generalize (framesFromTimes R eps c.fps c.occ a.time 0).1 = fa
  generalize (framesFromTimes R eps c.fps c.occ b.time 0).1 = fb
  by_cases h1 : fa < (n : Int) <;> by_cases h2 : fb < (n : Int) <;> simp only [h1, h2, if_true, if_false]
  cases hra : intIdx n fa <;> cases hka : intIdx 128 a.number <;> cases hrb : intIdx n fb <;>
    cases hkb : intIdx 128 b.number <;> simp only []
  rename_i ra ka rb kb
  have : ka ≠ kb := by
    have := intIdx_128 hka; have := intIdx_128 hkb; omega
  rw [setCell_eq_colUpd, setCell_eq_colUpd, setCell_eq_colUpd, setCell_eq_colUpd]
  exact colUpd_comm _ _ _ _ _ this

end NSV.C12
