import NoteSeqVerif.Proofs.C02Extract
/-! C02 — note partition, piece total time, and the split-vector loops. -/
namespace NSV.C02

theorem any_congr_mem {α : Type} {l : List α} {p q : α → Bool} (h : ∀ a ∈ l, p a = q a) :
    l.any p = l.any q := by
  induction l with
  | nil => rfl
  | cons x xs ih =>
    simp only [List.any_cons, h x (by simp)]
    rw [ih (fun a ha => h a (List.mem_cons_of_mem _ ha))]

theorem mem_takeWhile_p {α : Type} {p : α → Bool} {l : List α} {x : α} (h : x ∈ l.takeWhile p) :
    p x = true := by
  induction l with
  | nil => simp at h
  | cons y ys ih =>
    by_cases hy : p y = true
    · simp only [List.takeWhile_cons, hy, ↓reduceIte, List.mem_cons] at h
      rcases h with h | h
      · subst h; exact hy
      · exact ih h
    · simp [hy] at h

/-! ## the pieces partition the notes -/

/-- note `n` starts in `[a, b)` -/
def inIv (a b : Rat) (n : Note) : Bool := decide (a ≤ n.start) && decide (n.start < b)

theorem getLast_ge (a : Rat) (r : List Rat) (h : SortedLE (a :: r)) :
    a ≤ (a :: r).getLast (List.cons_ne_nil _ _) := by
  have hm : (a :: r).getLast (List.cons_ne_nil _ _) ∈ a :: r := List.getLast_mem _
  rcases List.mem_cons.mp hm with h' | h'
  · rw [h']; exact Rat.le_refl
  · exact (List.pairwise_cons.mp h).1 _ h'

/-- consecutive intervals of sorted split times partition `[first, last)` -/
theorem filter_pairs_perm (S : List Note) (a : Rat) (r : List Rat) (h : SortedLE (a :: r)) :
    ((pairs (a :: r)).map (fun ab => S.filter (inIv ab.1 ab.2))).flatten.Perm
      (S.filter (inIv a ((a :: r).getLast (List.cons_ne_nil _ _)))) := by
  induction r generalizing a with
  | nil =>
    have : S.filter (inIv a a) = [] := by
      rw [List.filter_eq_nil_iff]; intro n _; simp [inIv]; grind
    simp [pairs, this]
  | cons b r ih =>
    have hab : a ≤ b := (List.pairwise_cons.mp h).1 b (by simp)
    have hs' : SortedLE (b :: r) := (List.pairwise_cons.mp h).2
    have hbl := getLast_ge b r hs'
    have hlast : (a :: b :: r).getLast (List.cons_ne_nil _ _) = (b :: r).getLast (List.cons_ne_nil _ _) :=
      List.getLast_cons (List.cons_ne_nil _ _)
    have ih' := ih b hs'
    rw [hlast]
    generalize (b :: r).getLast (List.cons_ne_nil _ _) = last at hbl ih' ⊢
    simp only [pairs, List.map_cons, List.flatten_cons]
    refine (List.Perm.append (List.Perm.refl _) ih').trans ?_
    have hp := List.filter_append_perm (fun n : Note => decide (n.start < b)) (S.filter (inIv a last))
    rw [List.filter_filter, List.filter_filter] at hp
    have e1 : S.filter (fun n => decide (n.start < b) && inIv a last n) = S.filter (inIv a b) := by
      apply List.filter_congr; intro n _; simp [inIv]; grind
    have e2 : S.filter (fun n => (!decide (n.start < b)) && inIv a last n) = S.filter (inIv b last) := by
      apply List.filter_congr; intro n _; simp [inIv]; grind
    rw [e1, e2] at hp
    exact hp

/-! ## total time of a piece -/

theorem foldl_max_spec (ns : List Note) (acc : Rat) :
    acc ≤ ns.foldl (fun tot n => if n.end_ > tot then n.end_ else tot) acc ∧
    (∀ n ∈ ns, n.end_ ≤ ns.foldl (fun tot n => if n.end_ > tot then n.end_ else tot) acc) ∧
    (ns.foldl (fun tot n => if n.end_ > tot then n.end_ else tot) acc = acc ∨
      ∃ n ∈ ns, n.end_ = ns.foldl (fun tot n => if n.end_ > tot then n.end_ else tot) acc) := by
  induction ns generalizing acc with
  | nil => simp
  | cons n ns ih =>
    simp only [List.foldl_cons]
    by_cases hc : n.end_ > acc
    · simp only [hc, ↓reduceIte]
      obtain ⟨h1, h2, h3⟩ := ih n.end_
      refine ⟨by grind, ?_, ?_⟩
      · intro m hm
        rcases List.mem_cons.mp hm with h | h
        · subst h; exact h1
        · exact h2 m h
      · rcases h3 with h | ⟨m, hm, h⟩
        · exact Or.inr ⟨n, by simp, h.symm⟩
        · exact Or.inr ⟨m, List.mem_cons_of_mem _ hm, h⟩
    · simp only [hc, ↓reduceIte]
      obtain ⟨h1, h2, h3⟩ := ih acc
      refine ⟨h1, ?_, ?_⟩
      · intro m hm
        rcases List.mem_cons.mp hm with h | h
        · subst h; grind
        · exact h2 m h
      · rcases h3 with h | ⟨m, hm, h⟩
        · exact Or.inl h
        · exact Or.inr ⟨m, List.mem_cons_of_mem _ hm, h⟩

/-- `pieceTotal` is the largest note end of the piece, 0 for an empty piece (or if no end is positive) -/
theorem pieceTotal_spec (ns : List Note) :
    0 ≤ pieceTotal ns ∧ (∀ n ∈ ns, n.end_ ≤ pieceTotal ns) ∧
      (pieceTotal ns = 0 ∨ ∃ n ∈ ns, n.end_ = pieceTotal ns) :=
  foldl_max_spec ns 0

/-! ## candidate loop of `split_note_sequence` -/

/-- some note sounds across `t`: `start < t < end` -/
def crosses (notes : List Note) (t : Rat) : Bool :=
  notes.any (fun n => decide (n.start < t) && decide (t < n.end_))

/-- a candidate split time is kept unless `skip_splits_inside_notes` is set and a note sounds across it -/
def keep (skip : Bool) (notes : List Note) (t : Rat) : Bool := !(skip && crosses notes t)

theorem crossStep_eq (t : Rat) (rem cr : List Note) :
    crossStep t rem cr =
      (rem.dropWhile (fun n => decide (n.start < t)), cr ++ rem.takeWhile (fun n => decide (n.start < t))) := by
  induction rem generalizing cr with
  | nil => simp [crossStep]
  | cons n ns ih =>
    by_cases h : n.start < t
    · simp [crossStep, h, ih]
    · simp [crossStep, h]

theorem dropWhile_sorted_ge (t : Rat) (rem : List Note)
    (hs : rem.Pairwise (fun x y => x.start ≤ y.start)) :
    ∀ n ∈ rem.dropWhile (fun n => decide (n.start < t)), t ≤ n.start := by
  induction rem with
  | nil => simp
  | cons m ms ih =>
    by_cases h : m.start < t
    · simp only [List.dropWhile_cons, h, decide_true, ↓reduceIte]
      exact ih (List.pairwise_cons.mp hs).2
    · simp only [List.dropWhile_cons, h, decide_false]
      intro n hn
      rcases List.mem_cons.mp hn with h' | h'
      · subst h'; exact Rat.not_lt.mp h
      · have := (List.pairwise_cons.mp hs).1 n h'
        exact Rat.le_trans (Rat.not_lt.mp h) this

/-- one crossing update at a candidate `t` (start-sorted remaining notes, all collected notes started before `t`) -/
theorem cross_facts (skip : Bool) (t : Rat) (rem cr : List Note)
    (hrem : rem.Pairwise (fun x y => x.start ≤ y.start)) (hcr : ∀ n ∈ cr, n.start < t) :
    (!((crossStep t rem cr).2.filter (fun n => decide (n.end_ > t))).isEmpty) = crosses (cr ++ rem) t ∧
    (∀ t', t ≤ t' →
      keep skip ((crossStep t rem cr).2.filter (fun n => decide (n.end_ > t)) ++ (crossStep t rem cr).1) t' =
        keep skip (cr ++ rem) t') ∧
    (crossStep t rem cr).1.Pairwise (fun x y => x.start ≤ y.start) ∧
    (∀ n ∈ (crossStep t rem cr).2.filter (fun n => decide (n.end_ > t)), n.start < t) := by
  simp only [crossStep_eq]
  let tk := rem.takeWhile (fun n => decide (n.start < t))
  let dr := rem.dropWhile (fun n => decide (n.start < t))
  have hsplit : tk ++ dr = rem := List.takeWhile_append_dropWhile
  have htk : ∀ n ∈ tk, n.start < t := by
    intro n hn; have := mem_takeWhile_p hn; simpa using this
  have hdr : ∀ n ∈ dr, t ≤ n.start := dropWhile_sorted_ge t rem hrem
  have hdrs : dr.Pairwise (fun x y => x.start ≤ y.start) := by
    have : (tk ++ dr).Pairwise (fun x y => x.start ≤ y.start) := by rw [hsplit]; exact hrem
    exact (List.pairwise_append.mp this).2.1
  refine ⟨?_, ?_, hdrs, ?_⟩
  · show (!((cr ++ tk).filter (fun n => decide (n.end_ > t))).isEmpty) = crosses (cr ++ rem) t
    rw [← hsplit, ← List.append_assoc]
    unfold crosses
    rw [List.any_append]
    have hz : dr.any (fun n => decide (n.start < t) && decide (t < n.end_)) = false := by
      rw [List.any_eq_false]; intro n hn; have := hdr n hn; simp; grind
    rw [hz, Bool.or_false]
    have : (cr ++ tk).any (fun n => decide (n.start < t) && decide (t < n.end_)) =
        (cr ++ tk).any (fun n => decide (n.end_ > t)) := by
      apply any_congr_mem
      intro n hn
      have : n.start < t := by
        rcases List.mem_append.mp hn with h | h
        · exact hcr n h
        · exact htk n h
      simp [this]
    rw [this]
    cases h : ((cr ++ tk).filter (fun n => decide (n.end_ > t))) with
    | nil =>
      have := List.filter_eq_nil_iff.mp h
      simp only [List.isEmpty_nil, Bool.not_true]
      symm; rw [List.any_eq_false]; intro n hn; simpa using this n hn
    | cons x xs =>
      have hx : x ∈ (cr ++ tk).filter (fun n => decide (n.end_ > t)) := by rw [h]; simp
      have := List.mem_filter.mp hx
      simp only [List.isEmpty_cons, Bool.not_false]
      symm; rw [List.any_eq_true]; exact ⟨x, this.1, this.2⟩
  · intro t' hle
    show keep skip ((cr ++ tk).filter (fun n => decide (n.end_ > t)) ++ dr) t' = keep skip (cr ++ rem) t'
    unfold keep crosses
    rw [← hsplit, ← List.append_assoc, List.any_append, List.any_append, List.any_filter]
    congr 3
    apply any_congr_mem
    intro n _
    by_cases h1 : t < n.end_ <;> simp [h1] <;> grind
  · intro n hn
    have hn' : n ∈ cr ++ tk := (List.mem_filter.mp hn).1
    rcases List.mem_append.mp hn' with h | h
    · exact hcr n h
    · exact htk n h

theorem hopLoop_general (skip : Bool) : ∀ (ts : List Rat) (rem cr : List Note) (vs : List Rat),
    SortedLE ts → rem.Pairwise (fun x y => x.start ≤ y.start) →
    (∀ n ∈ cr, ∀ t ∈ ts, n.start < t) →
    hopLoop skip ts rem cr vs = vs ++ ts.filter (keep skip (cr ++ rem)) := by
  intro ts
  induction ts with
  | nil => intro rem cr vs _ _ _; simp [hopLoop]
  | cons t ts ih =>
    intro rem cr vs hts hrem hcr
    have hts' : SortedLE ts := (List.pairwise_cons.mp hts).2
    have htle : ∀ t' ∈ ts, t ≤ t' := (List.pairwise_cons.mp hts).1
    obtain ⟨hhead, htail, hdrs, hcr1⟩ := cross_facts skip t rem cr hrem (fun n hn => hcr n hn t (by simp))
    simp only [hopLoop]
    rw [ih _ _ _ hts' hdrs (fun n hn t' ht' => by have := hcr1 n hn; have := htle t' ht'; grind)]
    rw [List.filter_congr (fun t' ht' => htail t' (htle t' ht'))]
    simp only [List.filter_cons, keep]
    rw [hhead]
    by_cases hc : crosses (cr ++ rem) t = true <;> by_cases hk : skip = true <;> simp [hc, hk]

/-- **candidate loop = filter**: for sorted candidates and start-sorted notes -/
theorem hopLoop_eq_filter (skip : Bool) (ts : List Rat) (N : List Note) (hts : SortedLE ts)
    (hN : N.Pairwise (fun x y => x.start ≤ y.start)) :
    hopLoop skip ts N [] [] = ts.filter (keep skip N) := by
  have := hopLoop_general skip ts N [] [] hts hN (by simp)
  simpa using this

theorem keep_perm (skip : Bool) {N N' : List Note} (h : N.Perm N') (t : Rat) :
    keep skip N t = keep skip N' t := by
  unfold keep crosses; rw [h.any_eq]

/-! ## silence loop -/

/-- running `max(last_active_time, note.end_time)` from 0.0 over a prefix -/
def lastActive (pre : List Note) : Rat := pre.foldl (fun m n => max m n.end_) 0

/-- onsets after more than `gap` of silence, over the suffix `post` of the start-sorted notes -/
def silenceOnsets (R : Rat → Rat) (gap : Rat) : List Note → List Note → List Rat
  | _, [] => []
  | pre, n :: post =>
    (if n.start > R (lastActive pre + gap) then [n.start] else []) ++ silenceOnsets R gap (pre ++ [n]) post

theorem silLoop_general (R : Rat → Rat) (gap : Rat) (pre post : List Note) (vs : List Rat) :
    silLoop R gap post (lastActive pre) vs = vs ++ silenceOnsets R gap pre post := by
  induction post generalizing pre vs with
  | nil => simp [silLoop, silenceOnsets]
  | cons n post ih =>
    have hl : max (lastActive pre) n.end_ = lastActive (pre ++ [n]) := by
      simp [lastActive, List.foldl_append]
    simp only [silLoop, silenceOnsets, hl]
    rw [ih (pre ++ [n])]
    split <;> simp

theorem silLoop_eq (R : Rat → Rat) (gap : Rat) (N : List Note) :
    silLoop R gap N 0 [] = silenceOnsets R gap [] N := by
  have := silLoop_general R gap [] N []
  simpa [lastActive] using this

/-- membership form: the onsets are exactly the notes that start more than `gap` after everything
before them (in stable start order) has ended -/
theorem mem_silenceOnsets (R : Rat → Rat) (gap : Rat) (pre post : List Note) (t : Rat) :
    t ∈ silenceOnsets R gap pre post ↔
      ∃ l₁ n l₂, post = l₁ ++ n :: l₂ ∧ n.start = t ∧ n.start > R (lastActive (pre ++ l₁) + gap) := by
  induction post generalizing pre with
  | nil => simp [silenceOnsets]
  | cons m post ih =>
    simp only [silenceOnsets, List.mem_append, ih]
    constructor
    · rintro (h | ⟨l₁, n, l₂, rfl, h1, h2⟩)
      · refine ⟨[], m, post, rfl, ?_⟩
        split at h <;> simp at h
        subst h; simpa
      · exact ⟨m :: l₁, n, l₂, rfl, h1, by simpa using h2⟩
    · rintro ⟨l₁, n, l₂, heq, h1, h2⟩
      cases l₁ with
      | nil =>
        simp at heq; obtain ⟨rfl, rfl⟩ := heq
        left; simp at h2; rw [← h1]; simp [h2]
      | cons x l₁ =>
        simp at heq; obtain ⟨rfl, rfl⟩ := heq
        right; exact ⟨l₁, n, l₂, rfl, h1, by simpa using h2⟩

/-! ## time-change loop -/

/-- genuine changes: the events whose value differs from the value in force of their kind
(`current_numerator/denominator`, `current_qpm`), which every genuine event then replaces -/
def genuine : List TC → Int → Int → Rat → List TC
  | [], _, _, _ => []
  | .ts x :: es, num, den, qpm =>
    if x.num == num && x.den == den then genuine es num den qpm else .ts x :: genuine es x.num x.den qpm
  | .tp x :: es, num, den, qpm =>
    if x.qpm == qpm then genuine es num den qpm else .tp x :: genuine es num den x.qpm

/-- keep a time iff it is strictly greater than the last accepted one -/
def incr : Rat → List Rat → List Rat
  | _, [] => []
  | last, t :: ts => if t > last then t :: incr t ts else incr last ts

/-- the candidate loop with the `time > valid_split_times[-1]` test -/
def tcAcc (skip : Bool) : List Rat → List Note → List Note → Rat → List Rat → List Rat
  | [], _, _, _, vs => vs
  | t :: ts, rem, cr, last, vs =>
    let rc := crossStep t rem cr
    let cr' := rc.2.filter (fun n => n.end_ > t)
    let ok := decide (t > last) && !(skip && !cr'.isEmpty)
    tcAcc skip ts rc.1 cr' (if ok then t else last) (if ok then vs ++ [t] else vs)

theorem tcLoop_eq_tcAcc (skip : Bool) (E : List TC) : ∀ (num den : Int) (qpm : Rat) (rem cr : List Note)
    (last : Rat) (vs : List Rat),
    tcLoop skip E num den qpm rem cr last vs =
      tcAcc skip ((genuine E num den qpm).map TC.time) rem cr last vs := by
  induction E with
  | nil => intros; simp [tcLoop, genuine, tcAcc]
  | cons e es ih =>
    intro num den qpm rem cr last vs
    cases e with
    | ts x =>
      by_cases hsame : (x.num == num && x.den == den) = true
      · simp only [tcLoop, genuine, hsame, ↓reduceIte]; exact ih ..
      · simp only [tcLoop, genuine, hsame, Bool.false_eq_true, ↓reduceIte, List.map_cons, tcAcc, TC.time]
        exact ih ..
    | tp x =>
      by_cases hsame : (x.qpm == qpm) = true
      · simp only [tcLoop, genuine, hsame, ↓reduceIte]; exact ih ..
      · simp only [tcLoop, genuine, hsame, Bool.false_eq_true, ↓reduceIte, List.map_cons, tcAcc, TC.time]
        exact ih ..

theorem tcAcc_general (skip : Bool) : ∀ (ts : List Rat) (rem cr : List Note) (last : Rat) (vs : List Rat),
    SortedLE ts → rem.Pairwise (fun x y => x.start ≤ y.start) →
    (∀ n ∈ cr, ∀ t ∈ ts, n.start < t) →
    tcAcc skip ts rem cr last vs = vs ++ incr last (ts.filter (keep skip (cr ++ rem))) := by
  intro ts
  induction ts with
  | nil => intro rem cr last vs _ _ _; simp [tcAcc, incr]
  | cons t ts ih =>
    intro rem cr last vs hts hrem hcr
    have hts' : SortedLE ts := (List.pairwise_cons.mp hts).2
    have htle : ∀ t' ∈ ts, t ≤ t' := (List.pairwise_cons.mp hts).1
    obtain ⟨hhead, htail, hdrs, hcr1⟩ := cross_facts skip t rem cr hrem (fun n hn => hcr n hn t (by simp))
    simp only [tcAcc]
    rw [ih _ _ _ _ hts' hdrs (fun n hn t' ht' => by have := hcr1 n hn; have := htle t' ht'; grind)]
    rw [List.filter_congr (fun t' ht' => htail t' (htle t' ht'))]
    simp only [List.filter_cons, keep]
    rw [hhead]
    by_cases hc : crosses (cr ++ rem) t = true <;> by_cases hk : skip = true <;>
      by_cases hl : t > last <;> simp [hc, hk, hl, incr]

/-- on a sorted list `incr last` keeps one copy of every element greater than `last` -/
theorem incr_spec (l : List Rat) : ∀ (last : Rat), SortedLE l →
    (incr last l).Pairwise (fun a b => a < b) ∧ (∀ t, t ∈ incr last l ↔ t ∈ l ∧ last < t) := by
  induction l with
  | nil => intro last _; simp [incr]
  | cons x xs ih =>
    intro last hs
    have hs' : SortedLE xs := (List.pairwise_cons.mp hs).2
    have hle : ∀ y ∈ xs, x ≤ y := (List.pairwise_cons.mp hs).1
    by_cases hx : x > last
    · obtain ⟨i1, i2⟩ := ih x hs'
      simp only [incr, hx, ↓reduceIte]
      refine ⟨List.pairwise_cons.mpr ⟨fun y hy => ((i2 y).mp hy).2, i1⟩, ?_⟩
      intro t
      simp only [List.mem_cons, i2]
      constructor
      · rintro (h | ⟨h1, h2⟩)
        · subst h; exact ⟨Or.inl rfl, hx⟩
        · exact ⟨Or.inr h1, by grind⟩
      · rintro ⟨h | h, h2⟩
        · exact Or.inl h
        · by_cases hxt : x < t
          · exact Or.inr ⟨h, hxt⟩
          · left; have := hle t h; grind
    · obtain ⟨i1, i2⟩ := ih last hs'
      simp only [incr, hx, ↓reduceIte]
      refine ⟨i1, ?_⟩
      intro t
      simp only [List.mem_cons, i2]
      constructor
      · rintro ⟨h1, h2⟩; exact ⟨Or.inr h1, h2⟩
      · rintro ⟨h | h, h2⟩
        · subst h; exact absurd h2 hx
        · exact ⟨h, h2⟩

theorem genuine_sublist (E : List TC) : ∀ (num den : Int) (qpm : Rat),
    (genuine E num den qpm).Sublist E := by
  induction E with
  | nil => intros; simp [genuine]
  | cons e es ih =>
    intro num den qpm
    cases e with
    | ts x =>
      simp only [genuine]
      split
      · exact (ih ..).cons _
      · exact (ih ..).cons_cons _
    | tp x =>
      simp only [genuine]
      split
      · exact (ih ..).cons _
      · exact (ih ..).cons_cons _

/-- time signature in force after the events `pre` (default `d`): that of the last time-signature event -/
def tsForce (pre : List TC) (d : Int × Int) : Int × Int :=
  pre.foldl (fun v e => match e with | .ts x => (x.num, x.den) | .tp _ => v) d

/-- tempo in force after the events `pre` (default `q`) -/
def tpForce (pre : List TC) (q : Rat) : Rat :=
  pre.foldl (fun v e => match e with | .tp x => x.qpm | .ts _ => v) q

/-- the event changes the value in force of its kind -/
def differs (e : TC) (ts : Int × Int) (qpm : Rat) : Bool :=
  match e with
  | .ts x => !(x.num == ts.1 && x.den == ts.2)
  | .tp x => !(x.qpm == qpm)

/-- declarative reading of `genuine`: event `e` of `post` is genuine iff it differs from the value in
force after everything before it -/
def genuineP (d : Int × Int) (q : Rat) : List TC → List TC → List TC
  | _, [] => []
  | pre, e :: post =>
    (if differs e (tsForce pre d) (tpForce pre q) then [e] else []) ++ genuineP d q (pre ++ [e]) post

theorem genuine_eq_genuineP (d : Int × Int) (q : Rat) (post : List TC) : ∀ pre : List TC,
    genuine post (tsForce pre d).1 (tsForce pre d).2 (tpForce pre q) = genuineP d q pre post := by
  induction post with
  | nil => intro pre; simp [genuine, genuineP]
  | cons e es ih =>
    intro pre
    cases e with
    | ts x =>
      have h2 : tpForce (pre ++ [TC.ts x]) q = tpForce pre q := by simp [tpForce, List.foldl_append]
      have h1 : tsForce (pre ++ [TC.ts x]) d = (x.num, x.den) := by simp [tsForce, List.foldl_append]
      by_cases hsame : (x.num == (tsForce pre d).1 && x.den == (tsForce pre d).2) = true
      · have h1' : tsForce (pre ++ [TC.ts x]) d = tsForce pre d := by
          rw [h1]; simp at hsame; exact Prod.ext hsame.1 hsame.2
        simp only [genuine, hsame, ↓reduceIte, genuineP, differs, Bool.not_true, Bool.false_eq_true,
          List.nil_append]
        rw [← ih (pre ++ [TC.ts x]), h1', h2]
      · simp only [genuine, hsame, Bool.false_eq_true, ↓reduceIte, genuineP, differs, Bool.not_false,
          List.cons_append, List.nil_append]
        rw [← ih (pre ++ [TC.ts x]), h1, h2]
    | tp x =>
      have h2 : tsForce (pre ++ [TC.tp x]) d = tsForce pre d := by simp [tsForce, List.foldl_append]
      have h1 : tpForce (pre ++ [TC.tp x]) q = x.qpm := by simp [tpForce, List.foldl_append]
      by_cases hsame : (x.qpm == tpForce pre q) = true
      · have h1' : tpForce (pre ++ [TC.tp x]) q = tpForce pre q := by
          rw [h1]; simpa using hsame
        simp only [genuine, hsame, ↓reduceIte, genuineP, differs, Bool.not_true, Bool.false_eq_true,
          List.nil_append]
        rw [← ih (pre ++ [TC.tp x]), h1', h2]
      · simp only [genuine, hsame, Bool.false_eq_true, ↓reduceIte, genuineP, differs, Bool.not_false,
          List.cons_append, List.nil_append]
        rw [← ih (pre ++ [TC.tp x]), h1, h2]

theorem timeChanges_sorted (s : NoteSeq) : (timeChanges s).Pairwise (fun x y => x.time ≤ y.time) :=
  (sortByRat_pairwise TC.time _).filter _

theorem genuine_times_sorted (s : NoteSeq) (num den : Int) (qpm : Rat) :
    SortedLE ((genuine (timeChanges s) num den qpm).map TC.time) := by
  unfold SortedLE
  rw [List.pairwise_map]
  exact (timeChanges_sorted s).sublist (genuine_sublist _ _ _ _)

/-! ## float hop sizes, exact arithmetic -/

theorem hopTimes_exact (h total : Rat) (_hh : 0 < h) :
    hopTimesR id h total =
      (List.range ((total - h) / h).ceil.toNat).map (fun (i : Nat) => ((i : Rat) + 1) * h) := by
  unfold hopTimesR
  simp only [id]
  apply List.map_congr_left
  intro i _
  grind

theorem mem_hopTimes (h total : Rat) (hh : 0 < h) (t : Rat) :
    t ∈ hopTimesR id h total ↔ ∃ k : Nat, 1 ≤ k ∧ t = (k : Rat) * h ∧ t < total := by
  rw [hopTimes_exact h total hh]
  simp only [List.mem_map, List.mem_range]
  have key : ∀ i : Nat, i < ((total - h) / h).ceil.toNat ↔ ((i : Rat) + 1) * h < total := by
    intro i
    have h1 : i < ((total - h) / h).ceil.toNat ↔ (i : Int) < ((total - h) / h).ceil := by omega
    rw [h1, Rat.lt_ceil_iff, Rat.lt_div_iff hh]
    simp only [Rat.intCast_natCast]
    constructor <;> intro h' <;> grind
  constructor
  · rintro ⟨i, hi, rfl⟩
    refine ⟨i + 1, by omega, ?_, (key i).mp hi⟩
    simp [Rat.natCast_add]
  · rintro ⟨k, hk, rfl, hlt⟩
    obtain ⟨j, rfl⟩ : ∃ j, k = j + 1 := ⟨k - 1, by omega⟩
    have hc : ((j + 1 : Nat) : Rat) = (j : Rat) + 1 := by simp [Rat.natCast_add]
    rw [hc] at hlt ⊢
    exact ⟨j, (key j).mpr hlt, rfl⟩

theorem hopTimes_sorted (h total : Rat) (hh : 0 < h) : SortedLE (hopTimesR id h total) := by
  rw [hopTimes_exact h total hh]
  unfold SortedLE
  rw [List.pairwise_map]
  have : (List.range ((total - h) / h).ceil.toNat).Pairwise (fun a b => a < b) := List.pairwise_lt_range
  refine this.imp ?_
  intro a b hab
  have : (a : Rat) ≤ (b : Rat) := by
    have : (a : Int) ≤ (b : Int) := by omega
    exact_mod_cast this
  have := Rat.mul_le_mul_of_nonneg_right (Rat.add_le_add_right (c := 1) |>.mpr this) (Rat.le_of_lt hh)
  exact this

end NSV.C02
