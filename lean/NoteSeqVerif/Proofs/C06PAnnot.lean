import NoteSeqVerif.Proofs.C06PLayout
/-! C06 (performance half) — invariants of the FIFO annotator `anStep` (`Model/C06P.lean`), core Lean only.

`AInv`: the NOTE_ON events are numbered `0, 1, 2, …` in order; every open note and every NOTE_OFF event knows its
NOTE_ON; the numbers of the closed and of the open notes together are a permutation of `0 … nOn-1`. -/
namespace NSV.C06P
open NSV NSV.C07

def anRun (st : AnState) (es : List SEv) : AnState := es.foldl anStep st

theorem anRun_cons (st : AnState) (e : SEv) (es : List SEv) : anRun st (e :: es) = anRun (anStep st e) es := rfl

theorem annotate_eq (es : List SEv) : annotate es = anRun ⟨0, [], [], true⟩ es := rfl

def AnState.ons (st : AnState) : List AEv := st.out.filter (fun a => !a.isOff)
def AnState.offs (st : AnState) : List AEv := st.out.filter (fun a => a.isOff)

/-- the NOTE_ON event of the note an annotated event belongs to -/
def AEv.onOf (a : AEv) : AEv := ⟨a.s, a.idx, false, a.pitch, a.s, a.bin⟩
def OpenE.onOf (o : OpenE) : AEv := ⟨o.s, o.idx, false, o.pitch, o.s, o.bin⟩

/-- the on/off event an annotated event came from -/
def AEv.toS (a : AEv) : SEv := ⟨a.step, a.isOff, a.pitch, if a.isOff then 0 else a.bin⟩

structure AInv (st : AnState) : Prop where
  onsIdx : st.ons.map (·.idx) = List.range st.nOn
  onSelf : ∀ a ∈ st.out, a.isOff = false → a.s = a.step
  openOn : ∀ o ∈ st.open_, st.ons[o.idx]? = some o.onOf
  offOn : ∀ a ∈ st.out, a.isOff = true → st.ons[a.idx]? = some a.onOf
  perm : (st.offs.map (·.idx) ++ st.open_.map (·.idx)).Perm (List.range st.nOn)

theorem AInv.init : AInv ⟨0, [], [], true⟩ where
  onsIdx := rfl
  onSelf := by intro a ha; simp at ha
  openOn := by intro o ho; simp at ho
  offOn := by intro a ha; simp at ha
  perm := by simp [AnState.offs]

theorem AInv.onsLen {st : AnState} (h : AInv st) : st.ons.length = st.nOn := by
  have := congrArg List.length h.onsIdx
  simpa using this

theorem perm_cons_eraseP {α} (p : α → Bool) : ∀ (l : List α) (o : α), l.find? p = some o →
    l.Perm (o :: l.eraseP p) := by
  intro l
  induction l with
  | nil => intro o h; simp at h
  | cons x xs ih =>
    intro o h
    by_cases hp : p x = true
    · simp only [List.find?_cons, hp, Option.some.injEq] at h
      subst h
      simp only [List.eraseP_cons, hp, ↓reduceIte]
      exact List.Perm.refl _
    · simp only [Bool.not_eq_true] at hp
      simp only [List.find?_cons, hp] at h
      simp only [List.eraseP_cons, hp, Bool.false_eq_true, ↓reduceIte]
      exact ((ih o h).cons x).trans (List.Perm.swap o x _)

theorem ons_append_on (st : AnState) (a : AEv) (ha : a.isOff = false) :
    ({ st with out := st.out ++ [a] } : AnState).ons = st.ons ++ [a] := by
  simp [AnState.ons, List.filter_append, ha]

theorem ons_append_off (st : AnState) (a : AEv) (ha : a.isOff = true) :
    ({ st with out := st.out ++ [a] } : AnState).ons = st.ons := by
  simp [AnState.ons, List.filter_append, ha]

theorem AInv.step {st : AnState} (h : AInv st) (e : SEv) : AInv (anStep st e) := by
  unfold anStep
  cases hoff : e.isOff with
  | true =>
    simp only [↓reduceIte]
    cases hf : st.open_.find? (fun o => o.pitch == e.pitch) with
    | none =>
      exact ⟨h.onsIdx, h.onSelf, h.openOn, h.offOn, h.perm⟩
    | some o =>
      simp only
      have ho : o ∈ st.open_ := List.mem_of_find?_eq_some hf
      have hp : o.pitch = e.pitch := by
        have := List.find?_some hf; simpa using this
      have hons : (⟨st.nOn, st.open_.eraseP (fun o => o.pitch == e.pitch),
          st.out ++ [⟨e.step, o.idx, true, e.pitch, o.s, o.bin⟩], st.ok⟩ : AnState).ons = st.ons := by
        simp [AnState.ons, List.filter_append]
      refine ⟨?_, ?_, ?_, ?_, ?_⟩
      · rw [hons]; exact h.onsIdx
      · intro a ha haoff
        simp only [List.mem_append, List.mem_singleton] at ha
        rcases ha with ha | rfl
        · exact h.onSelf a ha haoff
        · simp at haoff
      · intro o' ho'
        rw [hons]
        exact h.openOn o' (List.mem_of_mem_eraseP ho')
      · intro a ha haoff
        rw [hons]
        simp only [List.mem_append, List.mem_singleton] at ha
        rcases ha with ha | rfl
        · exact h.offOn a ha haoff
        · rw [h.openOn o ho]
          simp only [OpenE.onOf, AEv.onOf, hp]
      · have hoffs : (⟨st.nOn, st.open_.eraseP (fun o => o.pitch == e.pitch),
            st.out ++ [⟨e.step, o.idx, true, e.pitch, o.s, o.bin⟩], st.ok⟩ : AnState).offs =
            st.offs ++ [⟨e.step, o.idx, true, e.pitch, o.s, o.bin⟩] := by
          simp [AnState.offs, List.filter_append]
        rw [hoffs]
        simp only [List.map_append, List.map_cons, List.map_nil, List.append_assoc, List.singleton_append]
        refine List.Perm.trans ?_ h.perm
        apply List.Perm.append_left
        exact ((perm_cons_eraseP _ st.open_ o hf).map (·.idx)).symm
  | false =>
    simp only [Bool.false_eq_true, ↓reduceIte]
    have hons : (⟨st.nOn + 1, st.open_ ++ [⟨e.pitch, st.nOn, e.step, e.bin⟩],
        st.out ++ [⟨e.step, st.nOn, false, e.pitch, e.step, e.bin⟩], st.ok⟩ : AnState).ons =
        st.ons ++ [⟨e.step, st.nOn, false, e.pitch, e.step, e.bin⟩] := by
      simp [AnState.ons, List.filter_append]
    have hlen := h.onsLen
    refine ⟨?_, ?_, ?_, ?_, ?_⟩
    · rw [hons]
      simp only [List.map_append, List.map_cons, List.map_nil, h.onsIdx, List.range_succ]
    · intro a ha haoff
      simp only [List.mem_append, List.mem_singleton] at ha
      rcases ha with ha | rfl
      · exact h.onSelf a ha haoff
      · rfl
    · intro o ho
      rw [hons]
      simp only [List.mem_append, List.mem_singleton] at ho
      rcases ho with ho | rfl
      · have := h.openOn o ho
        have hlt : o.idx < st.ons.length := by
          rcases Nat.lt_or_ge o.idx st.ons.length with h' | h'
          · exact h'
          · rw [List.getElem?_eq_none h'] at this; simp at this
        rw [List.getElem?_append_left hlt]; exact this
      · simp only
        rw [List.getElem?_append_right (by omega), hlen]
        simp [OpenE.onOf]
    · intro a ha haoff
      rw [hons]
      simp only [List.mem_append, List.mem_singleton] at ha
      rcases ha with ha | rfl
      · have := h.offOn a ha haoff
        have hlt : a.idx < st.ons.length := by
          rcases Nat.lt_or_ge a.idx st.ons.length with h' | h'
          · exact h'
          · rw [List.getElem?_eq_none h'] at this; simp at this
        rw [List.getElem?_append_left hlt]; exact this
      · simp at haoff
    · have hoffs : (⟨st.nOn + 1, st.open_ ++ [⟨e.pitch, st.nOn, e.step, e.bin⟩],
          st.out ++ [⟨e.step, st.nOn, false, e.pitch, e.step, e.bin⟩], st.ok⟩ : AnState).offs = st.offs := by
        simp [AnState.offs, List.filter_append]
      rw [hoffs]
      simp only [List.map_append, List.map_cons, List.map_nil, List.range_succ, ← List.append_assoc]
      exact h.perm.append_right _

theorem AInv.run {st : AnState} (h : AInv st) (es : List SEv) : AInv (anRun st es) := by
  induction es generalizing st with
  | nil => exact h
  | cons e es ih => rw [anRun_cons]; exact ih (h.step e)

theorem annotate_inv (es : List SEv) : AInv (annotate es) := AInv.init.run es

/-! ### what the run keeps -/

theorem anStep_out (st : AnState) (e : SEv) : ∃ new, (anStep st e).out = st.out ++ new := by
  unfold anStep
  cases e.isOff with
  | true =>
    simp only [↓reduceIte]
    cases st.open_.find? (fun o => o.pitch == e.pitch) with
    | none => exact ⟨[], by simp⟩
    | some o => exact ⟨_, rfl⟩
  | false => exact ⟨_, rfl⟩

theorem anRun_out (st : AnState) (es : List SEv) : ∃ new, (anRun st es).out = st.out ++ new := by
  induction es generalizing st with
  | nil => exact ⟨[], by simp [anRun]⟩
  | cons e es ih =>
    rw [anRun_cons]
    obtain ⟨n1, h1⟩ := anStep_out st e
    obtain ⟨n2, h2⟩ := ih (anStep st e)
    exact ⟨n1 ++ n2, by rw [h2, h1, List.append_assoc]⟩

theorem anStep_ok (st : AnState) (e : SEv) (h : (anStep st e).ok = true) : st.ok = true := by
  unfold anStep at h
  cases hoff : e.isOff with
  | true =>
    simp only [hoff, ↓reduceIte] at h
    cases hf : st.open_.find? (fun o => o.pitch == e.pitch) with
    | none => simp [hf] at h
    | some o => simpa [hf] using h
  | false => simpa [hoff] using h

theorem anRun_ok (st : AnState) (es : List SEv) (h : (anRun st es).ok = true) : st.ok = true := by
  induction es generalizing st with
  | nil => exact h
  | cons e es ih => rw [anRun_cons] at h; exact anStep_ok st e (ih _ h)

/-- an accepted run records every event, in order -/
theorem anRun_stream (es : List SEv) (hes : ∀ e ∈ es, e.isOff = true → e.bin = 0) :
    ∀ st : AnState, (anRun st es).ok = true → (anRun st es).out.map AEv.toS = st.out.map AEv.toS ++ es := by
  induction es with
  | nil => intro st _; simp [anRun]
  | cons e es ih =>
    intro st hok
    rw [anRun_cons] at hok ⊢
    have h1 := anRun_ok _ _ hok
    rw [ih (fun x hx => hes x (List.mem_cons_of_mem _ hx)) _ hok]
    have : (anStep st e).out.map AEv.toS = st.out.map AEv.toS ++ [e] := by
      unfold anStep at h1 ⊢
      cases hoff : e.isOff with
      | true =>
        simp only [hoff, ↓reduceIte] at h1 ⊢
        cases hf : st.open_.find? (fun o => o.pitch == e.pitch) with
        | none => simp [hf] at h1
        | some o =>
          simp only [List.map_append, List.map_cons, List.map_nil, AEv.toS, ↓reduceIte]
          have := hes e (List.mem_cons_self ..) hoff
          cases e; simp_all
      | false =>
        simp only [Bool.false_eq_true, ↓reduceIte, List.map_append, List.map_cons, List.map_nil, AEv.toS]
        cases e; simp_all
    rw [this, List.append_assoc]; rfl

end NSV.C06P
