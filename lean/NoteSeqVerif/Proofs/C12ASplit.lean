import NoteSeqVerif.Proofs.C12AExtract
/-! C12 — the split vectors of `split_note_sequence_on_time_changes` and
`split_note_sequence_on_silence` do not depend on the storage order. -/
namespace NSV.C12
open NSV NSV.C02

/-! ## uniqueness of a list that is strictly increasing for an asymmetric relation -/

theorem eq_of_perm_of_asymm {α : Type} (lt : α → α → Prop) (hasym : ∀ a b, lt a b → lt b a → False) :
    ∀ {l l' : List α}, l.Perm l' → l.Pairwise lt → l'.Pairwise lt → l = l'
  | [], l', h, _, _ => h.nil_eq
  | a :: t, [], h, _, _ => absurd h.symm.nil_eq (by simp)
  | a :: t, b :: t', h, hs, hs' => by
    have hab : a = b := by
      apply Classical.byContradiction
      intro hne
      have ha : a ∈ b :: t' := h.mem_iff.mp (by simp)
      have hb : b ∈ a :: t := h.mem_iff.mpr (by simp)
      have ha' : a ∈ t' := by
        rcases List.mem_cons.mp ha with h1 | h1
        · exact absurd h1 hne
        · exact h1
      have hb' : b ∈ t := by
        rcases List.mem_cons.mp hb with h1 | h1
        · exact absurd h1.symm hne
        · exact h1
      exact hasym a b ((List.pairwise_cons.mp hs).1 b hb') ((List.pairwise_cons.mp hs').1 a ha')
    subst hab
    have ht := eq_of_perm_of_asymm lt hasym (List.Perm.cons_inv h) (List.pairwise_cons.mp hs).2
      (List.pairwise_cons.mp hs').2
    rw [ht]

theorem no_two_orders {α : Type} : ∀ {l : List α} {x y : α}, l.Nodup →
    [x, y].Sublist l → [y, x].Sublist l → False
  | [], _, _, _, h, _ => by cases h
  | a :: t, x, y, hn, h1, h2 => by
    have hat : a ∉ t := (List.nodup_cons.mp hn).1
    have hnt : t.Nodup := (List.nodup_cons.mp hn).2
    cases h1 with
    | cons _ h1' =>
      cases h2 with
      | cons _ h2' => exact no_two_orders hnt h1' h2'
      | cons_cons _ h2' =>
        -- a = y, [x] <+ t, and [x, y] <+ t puts y = a in t
        have : a ∈ t := h1'.subset (by simp)
        exact hat this
    | cons_cons _ h1' =>
      -- a = x, [y] <+ t
      cases h2 with
      | cons _ h2' =>
        have : a ∈ t := h2'.subset (by simp)
        exact hat this
      | cons_cons _ h2' =>
        have : a ∈ t := h1'.subset (by simp)
        exact hat this

/-! ## the merged, time-sorted list of time signatures and tempos -/

/-- time signatures come before tempos in `list(time_signatures) + list(tempos)` -/
def tcRank : TC → Nat
  | .ts _ => 0
  | .tp _ => 1

/-- two events of the same kind at the same time -/
def TCTie (x y : TC) : Prop := x.time = y.time ∧ tcRank x = tcRank y

/-- the order a stable sort by time produces on `time signatures ++ tempos` -/
def tcLt (x y : TC) : Prop := x.time < y.time ∨ (x.time = y.time ∧ tcRank x < tcRank y)

theorem tcLt_asymm (a b : TC) (h1 : tcLt a b) (h2 : tcLt b a) : False := by
  unfold tcLt at *
  rcases h1 with h1 | ⟨h1, h1'⟩ <;> rcases h2 with h2 | ⟨h2, h2'⟩
  · grind
  · grind
  · grind
  · omega

theorem merged_noTie {A : List TimeSig} {B : List Tempo} (hA : DistinctKeys (·.time) A)
    (hB : DistinctKeys (·.time) B) : (A.map TC.ts ++ B.map TC.tp).Pairwise (fun x y => ¬ TCTie x y) := by
  rw [List.pairwise_append]
  refine ⟨?_, ?_, ?_⟩
  · rw [List.pairwise_map]
    exact hA.imp (fun hxy ht => hxy ht.1)
  · rw [List.pairwise_map]
    exact hB.imp (fun hxy ht => hxy ht.1)
  · intro x hx y hy ht
    obtain ⟨u, _, rfl⟩ := List.mem_map.mp hx
    obtain ⟨v, _, rfl⟩ := List.mem_map.mp hy
    have := ht.2
    simp [tcRank] at this

theorem merged_sorted_strict {A : List TimeSig} {B : List Tempo} (hA : DistinctKeys (·.time) A)
    (hB : DistinctKeys (·.time) B) :
    (sortByRat TC.time (A.map TC.ts ++ B.map TC.tp)).Pairwise tcLt := by
  have hL := merged_noTie hA hB
  have hS : (sortByRat TC.time (A.map TC.ts ++ B.map TC.tp)).Pairwise (fun x y => ¬ TCTie x y) :=
    (sortByRat_perm' _ _).symm.pairwise hL (fun hxy hyx => hxy ⟨hyx.1.symm, hyx.2.symm⟩)
  have hnd : (sortByRat TC.time (A.map TC.ts ++ B.map TC.tp)).Nodup := by
    unfold List.Nodup
    exact hS.imp (fun hxy he => hxy (by subst he; exact ⟨rfl, rfl⟩))
  have hsort := sortByRat_pairwise' TC.time (A.map TC.ts ++ B.map TC.tp)
  rw [List.pairwise_iff_forall_sublist]
  intro x y hxy
  have hle : x.time ≤ y.time := List.pairwise_iff_forall_sublist.mp hsort hxy
  have hnt : ¬ TCTie x y := List.pairwise_iff_forall_sublist.mp hS hxy
  by_cases hlt : x.time < y.time
  · exact Or.inl hlt
  · have heq : x.time = y.time := Rat.le_antisymm hle (Rat.not_lt.mp hlt)
    right
    refine ⟨heq, ?_⟩
    have hxm : x ∈ A.map TC.ts ++ B.map TC.tp := (sortByRat_perm' _ _).mem_iff.mp (hxy.subset (by simp))
    have hym : y ∈ A.map TC.ts ++ B.map TC.tp := (sortByRat_perm' _ _).mem_iff.mp (hxy.subset (by simp))
    cases x with
    | ts u =>
      cases y with
      | ts v => exact absurd ⟨heq, rfl⟩ hnt
      | tp v => simp [tcRank]
    | tp u =>
      cases y with
      | tp v => exact absurd ⟨heq, rfl⟩ hnt
      | ts v =>
        exfalso
        have hx' : TC.tp u ∈ B.map TC.tp := by
          rcases List.mem_append.mp hxm with h | h
          · obtain ⟨w, _, hw⟩ := List.mem_map.mp h; cases hw
          · exact h
        have hy' : TC.ts v ∈ A.map TC.ts := by
          rcases List.mem_append.mp hym with h | h
          · exact h
          · obtain ⟨w, _, hw⟩ := List.mem_map.mp h; cases hw
        have hsub : [TC.ts v, TC.tp u].Sublist (A.map TC.ts ++ B.map TC.tp) :=
          List.Sublist.append (List.singleton_sublist.mpr hy') (List.singleton_sublist.mpr hx')
        have hstab : [TC.ts v, TC.tp u].Sublist (sortByRat TC.time (A.map TC.ts ++ B.map TC.tp)) := by
          unfold sortByRat
          refine List.pair_sublist_mergeSort
            (by intro a b c h1 h2; simp at *; exact Rat.le_trans h1 h2)
            (by intro a b; simp; exact Rat.le_total) ?_ hsub
          simp only [decide_eq_true_eq]
          rw [heq]; exact Rat.le_refl
        exact no_two_orders hnd hxy hstab

/-- with no two time signatures and no two tempos at one time, the merged event list of
`split_note_sequence_on_time_changes` is the same for every storage order -/
theorem timeChanges_eq {s s' : NoteSeq} (h : NSPerm s s') (h1 : DistinctKeys (·.time) s.timeSigs)
    (h2 : DistinctKeys (·.time) s.tempos) : timeChanges s = timeChanges s' := by
  unfold timeChanges
  rw [← h.totalTime]
  congr 1
  exact eq_of_perm_of_asymm tcLt tcLt_asymm
    (sortByRat_perm_of_perm _ ((h.timeSigs.map _).append (h.tempos.map _)))
    (merged_sorted_strict h1 h2) (merged_sorted_strict (h1.perm h.timeSigs) (h2.perm h.tempos))

/-! ## the silence loop -/

theorem lastActive_perm {l l' : List Note} (h : l.Perm l') : lastActive l = lastActive l' := by
  unfold lastActive
  exact h.foldl_eq' (by intro x _ y _ z; grind) 0

theorem foldl_max_ge (l : List Note) (a : Rat) : a ≤ l.foldl (fun m n => max m n.end_) a := by
  induction l generalizing a with
  | nil => exact Rat.le_refl
  | cons n l ih =>
    simp only [List.foldl_cons]
    have := ih (max a n.end_)
    grind

theorem end_le_lastActive {l : List Note} {m : Note} (hm : m ∈ l) : m.end_ ≤ lastActive l := by
  unfold lastActive
  generalize (0 : Rat) = a
  induction l generalizing a with
  | nil => simp at hm
  | cons n l ih =>
    simp only [List.foldl_cons]
    rcases List.mem_cons.mp hm with rfl | h
    · have := foldl_max_ge l (max a m.end_)
      grind
    · exact ih h _

/-- what the silence splitter needs of the notes, the gap and the rounding: a note never starts after
it ends, and adding the gap to a time at or after a note's end does not round below that end
(true for every `gap ≥ 0` in exact arithmetic, and in float64 since note ends are floats) -/
def SilenceOK (R : Rat → Rat) (gap : Rat) (notes : List Note) : Prop :=
  (∀ n ∈ notes, n.start ≤ n.end_) ∧ (∀ n ∈ notes, ∀ x, n.end_ ≤ x → n.end_ ≤ R (x + gap))

theorem SilenceOK.perm {R : Rat → Rat} {gap : Rat} {l l' : List Note} (h : l.Perm l')
    (hk : SilenceOK R gap l) : SilenceOK R gap l' :=
  ⟨fun n hn => hk.1 n (h.mem_iff.mpr hn), fun n hn => hk.2 n (h.mem_iff.mpr hn)⟩

/-- the onsets come out strictly increasing: of several notes starting together at most the first
(in storage order) can be an onset -/
theorem silenceOnsets_strict (R : Rat → Rat) (gap : Rat) : ∀ (post pre : List Note),
    (pre ++ post).Pairwise (fun x y => x.start ≤ y.start) → SilenceOK R gap (pre ++ post) →
    (silenceOnsets R gap pre post).Pairwise (fun a b => a < b) := by
  intro post
  induction post with
  | nil => intro pre _ _; simp [silenceOnsets]
  | cons n post ih =>
    intro pre hs hk
    have hs' : (pre ++ [n] ++ post).Pairwise (fun x y => x.start ≤ y.start) := by simpa using hs
    have hk' : SilenceOK R gap (pre ++ [n] ++ post) := by simpa using hk
    have hrec := ih (pre ++ [n]) hs' hk'
    simp only [silenceOnsets]
    rw [List.pairwise_append]
    refine ⟨by split <;> simp, hrec, ?_⟩
    intro a ha b hb
    have han : a = n.start := by
      split at ha <;> simp at ha
      exact ha
    subst han
    obtain ⟨l₁, m, l₂, hpost, hmb, hfire⟩ := (mem_silenceOnsets R gap (pre ++ [n]) post b).mp hb
    have hnm : n.start ≤ m.start := by
      have h2 := (List.pairwise_append.mp hs).2.1
      exact (List.pairwise_cons.mp h2).1 m (by rw [hpost]; simp)
    have hnmem : n ∈ pre ++ (n :: post) := by simp
    have h1 : n.start ≤ n.end_ := hk.1 n hnmem
    have h2 : n.end_ ≤ lastActive (pre ++ [n] ++ l₁) := end_le_lastActive (by simp)
    have h3 := hk.2 n hnmem _ h2
    subst hmb
    grind

/-- membership in the onsets, in terms of the multiset of notes only -/
theorem mem_silenceOnsets_multiset (R : Rat → Rat) (gap : Rat) (S : List Note)
    (hs : S.Pairwise (fun x y => x.start ≤ y.start)) (hk : SilenceOK R gap S) (t : Rat) :
    t ∈ silenceOnsets R gap [] S ↔
      (∃ n ∈ S, n.start = t) ∧
        t > R (lastActive (S.filter (fun n => decide (n.start < t))) + gap) := by
  rw [mem_silenceOnsets]
  constructor
  · rintro ⟨l₁, n, l₂, hS, hnt, hfire⟩
    simp only [List.nil_append] at hfire
    refine ⟨⟨n, by rw [hS]; simp, hnt⟩, ?_⟩
    have hsplit := List.pairwise_append.mp (hS ▸ hs)
    -- everything before `n` starts strictly earlier
    have hbefore : ∀ m ∈ l₁, m.start < t := by
      intro m hm
      have hle : m.start ≤ n.start := hsplit.2.2 m hm n (by simp)
      apply Classical.byContradiction
      intro hnot
      have heq : m.start = n.start := by grind
      have hmS : m ∈ S := by rw [hS]; simp [hm]
      have h1 := hk.1 m hmS
      have h2 := hk.2 m hmS _ (end_le_lastActive hm)
      grind
    have hafter : ∀ m ∈ n :: l₂, ¬ m.start < t := by
      intro m hm
      rcases List.mem_cons.mp hm with rfl | h
      · grind
      · have := (List.pairwise_cons.mp hsplit.2.1).1 m h
        grind
    have hf : S.filter (fun n => decide (n.start < t)) = l₁ := by
      rw [hS, List.filter_append]
      have e1 : l₁.filter (fun n => decide (n.start < t)) = l₁ := by
        rw [List.filter_eq_self]; intro m hm; simpa using hbefore m hm
      have e2 : (n :: l₂).filter (fun n => decide (n.start < t)) = [] := by
        rw [List.filter_eq_nil_iff]; intro m hm; simpa using hafter m hm
      rw [e1, e2, List.append_nil]
    rw [hf, ← hnt]
    exact hfire
  · rintro ⟨⟨n, hn, hnt⟩, hfire⟩
    have htd := List.takeWhile_append_dropWhile (p := fun m : Note => decide (m.start < t)) (l := S)
    have htk := takeWhile_eq_filter_of_sorted (·.start) t S hs
    have hdr := dropWhile_eq_filter_of_sorted (·.start) t S hs
    have hnd : n ∈ S.dropWhile (fun m => decide (m.start < t)) := by
      rw [hdr, List.mem_filter]
      refine ⟨hn, ?_⟩
      simp; grind
    cases hd : S.dropWhile (fun m => decide (m.start < t)) with
    | nil => rw [hd] at hnd; simp at hnd
    | cons m l₂ =>
      have hm_ge : ¬ m.start < t := by
        have : m ∈ S.filter (fun n => !decide (n.start < t)) := by rw [← hdr, hd]; simp
        have := (List.mem_filter.mp this).2
        simpa using this
      have hm_le : m.start ≤ n.start := by
        have hsd : (S.dropWhile (fun m => decide (m.start < t))).Pairwise (fun x y => x.start ≤ y.start) := by
          rw [hdr]; exact hs.filter _
        rw [hd] at hsd hnd
        rcases List.mem_cons.mp hnd with rfl | h
        · exact Rat.le_refl
        · exact (List.pairwise_cons.mp hsd).1 n h
      refine ⟨S.takeWhile (fun m => decide (m.start < t)), m, l₂, ?_, ?_, ?_⟩
      · rw [← hd]; exact htd.symm
      · grind
      · simp only [List.nil_append]
        rw [htk]
        have : m.start = t := by grind
        rw [this]; exact hfire

/-- **the onsets of the silence splitter do not depend on the storage order of the notes** -/
theorem silenceOnsets_perm (R : Rat → Rat) (gap : Rat) {S S' : List Note} (h : S.Perm S')
    (hs : S.Pairwise (fun x y => x.start ≤ y.start)) (hs' : S'.Pairwise (fun x y => x.start ≤ y.start))
    (hk : SilenceOK R gap S) :
    silenceOnsets R gap [] S = silenceOnsets R gap [] S' := by
  have hk' := hk.perm h
  have p1 := silenceOnsets_strict R gap S [] (by simpa using hs) (by simpa using hk)
  have p2 := silenceOnsets_strict R gap S' [] (by simpa using hs') (by simpa using hk')
  refine eq_of_perm_of_strict id ?_ p1 p2
  have nd : ∀ {l : List Rat}, l.Pairwise (fun a b => a < b) → l.Nodup := by
    intro l hl
    unfold List.Nodup
    exact hl.imp (fun hab he => by subst he; exact Rat.lt_irrefl hab)
  rw [List.perm_ext_iff_of_nodup (nd p1) (nd p2)]
  intro t
  rw [mem_silenceOnsets_multiset R gap S hs hk, mem_silenceOnsets_multiset R gap S' hs' hk',
    lastActive_perm (h.filter _)]
  constructor
  · rintro ⟨⟨n, hn, e⟩, hf⟩; exact ⟨⟨n, h.mem_iff.mp hn, e⟩, hf⟩
  · rintro ⟨⟨n, hn, e⟩, hf⟩; exact ⟨⟨n, h.mem_iff.mpr hn, e⟩, hf⟩

end NSV.C12
