import NoteSeqVerif.Model.C01
/-! helper lemmas for C01 (core Lean only) -/
namespace NSV.C01
open NSV

/-- the end step the note loop assigns -/
def fixEnd (qs qe0 : Int) : Int := if qe0 = qs then qe0 + 1 else qe0

def qNote (q : Rat → Int) (n : Note) : Note :=
  { n with qs := q n.start, qe := fixEnd (q n.start) (q n.end_) }

def noteNeg (q : Rat → Int) (n : Note) : Prop := q n.start < 0 ∨ fixEnd (q n.start) (q n.end_) < 0

instance (q : Rat → Int) (n : Note) : Decidable (noteNeg q n) := by unfold noteNeg; infer_instance

/-- functional specification of the note loop: either some note is negative and the loop raises,
or every note gets its steps, in order, everything else untouched, and the running total is the
maximum of the initial total and all end steps. -/
theorem qNotes_spec (q : Rat → Int) (ns : List Note) (tot : Int) :
    (∃ n ∈ ns, noteNeg q n) ∧ qNotes q ns tot = .error .negativeTimeError ∨
    (∀ n ∈ ns, ¬ noteNeg q n) ∧
      qNotes q ns tot = .ok (ns.map (qNote q), (ns.map (fun n => (qNote q n).qe)).foldl max tot) := by
  induction ns generalizing tot with
  | nil => right; simp [qNotes]
  | cons n ns ih =>
    by_cases hn : noteNeg q n
    · left
      refine ⟨⟨n, by simp, hn⟩, ?_⟩
      unfold noteNeg fixEnd at hn
      simp only [qNotes]
      rw [if_pos hn]
    · have hn' := hn
      unfold noteNeg fixEnd at hn'
      rcases ih (if tot < fixEnd (q n.start) (q n.end_) then fixEnd (q n.start) (q n.end_) else tot) with ⟨⟨m, hm, hmn⟩, he⟩ | ⟨hall, he⟩
      · left
        refine ⟨⟨m, by simp [hm], hmn⟩, ?_⟩
        simp only [qNotes]
        rw [if_neg hn']
        unfold fixEnd at he
        simp only [he]
      · right
        refine ⟨by intro x hx; rcases List.mem_cons.mp hx with rfl | hx; exact hn; exact hall x hx, ?_⟩
        simp only [qNotes]
        rw [if_neg hn']
        unfold fixEnd at he
        have hmax : ∀ a b : Int, (if a < b then b else a) = max a b := by
          intro a b; rw [Int.max_def]; split <;> split <;> omega
        rw [hmax] at he
        simp only [hmax, he, List.map_cons, List.foldl_cons]
        rfl

def sameSig (a b : TimeSig) : Prop := a.num = b.num ∧ a.den = b.den
instance (a b : TimeSig) : Decidable (sameSig a b) := by unfold sameSig; infer_instance

theorem sortByRat_facts {α} (key : α → Rat) (l : List α) :
    (sortByRat key l).Perm l ∧ (sortByRat key l).Pairwise (fun a b => key a ≤ key b) := by
  refine ⟨List.mergeSort_perm _ _, ?_⟩
  have := List.pairwise_mergeSort (le := fun a b => decide (key a ≤ key b))
    (by intro a b c h1 h2; simp only [decide_eq_true_eq] at *; exact Rat.le_trans h1 h2)
    (by intro a b; simp only [Bool.or_eq_true, decide_eq_true_eq]; exact Rat.le_total) l
  simpa [sortByRat] using this

/-- the earliest element of a non-empty list exists; `sortByRat` puts one first -/
theorem sortByRat_cons {α} (key : α → Rat) (l : List α) (e : α) (later : List α)
    (h : sortByRat key l = e :: later) :
    e ∈ l ∧ (∀ x ∈ later, x ∈ l) ∧ (∀ x ∈ l, x = e ∨ x ∈ later) ∧ (∀ x ∈ l, key e ≤ key x) := by
  obtain ⟨hp, hs⟩ := sortByRat_facts key l
  rw [h] at hp hs
  have hmem : ∀ x, x ∈ l ↔ x = e ∨ x ∈ later := by
    intro x; rw [← hp.mem_iff]; simp
  refine ⟨(hmem e).2 (Or.inl rfl), fun x hx => (hmem x).2 (Or.inr hx), fun x hx => (hmem x).1 hx, ?_⟩
  intro x hx
  rcases (hmem x).1 hx with rfl | hx
  · exact Rat.le_refl
  · exact (List.pairwise_cons.mp hs).1 x hx

theorem sortByRat_ne_nil {α} (key : α → Rat) (a : α) (l : List α) : sortByRat key (a :: l) ≠ [] := by
  intro h
  have := (sortByRat_facts key (a :: l)).1
  rw [h] at this
  have := this.length_eq
  simp at this

def tsChange (l : List TimeSig) : Prop := ∃ a ∈ l, ∃ b ∈ l, ¬ sameSig a b
def tsImplicit (l : List TimeSig) : Prop :=
  ∃ e ∈ l, (∀ x ∈ l, e.time ≤ x.time) ∧ e.time ≠ 0 ∧ ¬ (e.num = 4 ∧ e.den = 4)

theorem checkTimeSigs_spec (first : TimeSig) (rest : List TimeSig) :
    ((tsChange (first :: rest) ∨ tsImplicit (first :: rest)) ∧
      checkTimeSigs (first :: rest) = .error .multipleTimeSignatureError) ∨
    (¬ tsChange (first :: rest) ∧ ¬ tsImplicit (first :: rest) ∧
      checkTimeSigs (first :: rest) = .ok { first with time := 0 }) := by
  unfold checkTimeSigs
  cases hsort : sortByRat (·.time) (first :: rest) with
  | nil => exact absurd hsort (sortByRat_ne_nil _ _ _)
  | cons e later =>
    obtain ⟨he, hlater, hcases, hmin⟩ := sortByRat_cons _ _ _ _ hsort
    simp only []
    by_cases c1 : e.time ≠ 0 ∧ ¬ (e.num = 4 ∧ e.den = 4)
    · left
      rw [if_pos c1]
      exact ⟨Or.inr ⟨e, he, hmin, c1.1, c1.2⟩, rfl⟩
    · rw [if_neg c1]
      by_cases c2 : later.any (fun t => t.num ≠ e.num ∨ t.den ≠ e.den) = true
      · left
        rw [if_pos c2]
        refine ⟨Or.inl ?_, rfl⟩
        obtain ⟨t, ht, hd⟩ := List.any_eq_true.mp c2
        refine ⟨t, hlater t ht, e, he, ?_⟩
        unfold sameSig
        simp only [decide_eq_true_eq] at hd
        omega
      · right
        rw [if_neg c2]
        have hsame : ∀ x ∈ first :: rest, sameSig x e := by
          intro x hx
          rcases hcases x hx with rfl | hx
          · exact ⟨rfl, rfl⟩
          · have : ¬ (x.num ≠ e.num ∨ x.den ≠ e.den) := by
              intro hh
              exact c2 (List.any_eq_true.mpr ⟨x, hx, by simpa using hh⟩)
            unfold sameSig; omega
        refine ⟨?_, ?_, rfl⟩
        · rintro ⟨a, ha, b, hb, hab⟩
          have h1 := hsame a ha; have h2 := hsame b hb
          unfold sameSig at *; omega
        · rintro ⟨e', he', hmin', hne, h44⟩
          have h1 := hsame e' he'
          have ht : e'.time = e.time := Rat.le_antisymm (hmin' e he) (hmin e' he')
          apply c1
          unfold sameSig at h1
          refine ⟨by rw [← ht]; exact hne, ?_⟩
          omega

/-! ### control changes and text annotations -/
theorem qCCs_spec (q : Rat → Int) (cs : List CC) :
    (∃ c ∈ cs, q c.time < 0) ∧ qCCs q cs = .error .negativeTimeError ∨
    (∀ c ∈ cs, ¬ q c.time < 0) ∧ qCCs q cs = .ok (cs.map (fun c => { c with qstep := q c.time })) := by
  induction cs with
  | nil => right; simp [qCCs]
  | cons c cs ih =>
    by_cases hc : q c.time < 0
    · left; exact ⟨⟨c, by simp, hc⟩, by simp [qCCs, hc]⟩
    · rcases ih with ⟨⟨m, hm, hmn⟩, he⟩ | ⟨hall, he⟩
      · left; exact ⟨⟨m, by simp [hm], hmn⟩, by simp [qCCs, hc, he]⟩
      · right
        refine ⟨by intro x hx; rcases List.mem_cons.mp hx with rfl | hx; exact hc; exact hall x hx, ?_⟩
        simp [qCCs, hc, he]

theorem qTexts_spec (q : Rat → Int) (cs : List TextAnn) :
    (∃ c ∈ cs, q c.time < 0) ∧ qTexts q cs = .error .negativeTimeError ∨
    (∀ c ∈ cs, ¬ q c.time < 0) ∧ qTexts q cs = .ok (cs.map (fun c => { c with qstep := q c.time })) := by
  induction cs with
  | nil => right; simp [qTexts]
  | cons c cs ih =>
    by_cases hc : q c.time < 0
    · left; exact ⟨⟨c, by simp, hc⟩, by simp [qTexts, hc]⟩
    · rcases ih with ⟨⟨m, hm, hmn⟩, he⟩ | ⟨hall, he⟩
      · left; exact ⟨⟨m, by simp [hm], hmn⟩, by simp [qTexts, hc, he]⟩
      · right
        refine ⟨by intro x hx; rcases List.mem_cons.mp hx with rfl | hx; exact hc; exact hall x hx, ?_⟩
        simp [qTexts, hc, he]

/-! ### running maximum -/
theorem le_foldl_max (l : List Int) (a : Int) : a ≤ l.foldl max a := by
  induction l generalizing a with
  | nil => simp
  | cons x xs ih => simp only [List.foldl_cons]; exact Int.le_trans (Int.le_max_left a x) (ih _)

theorem mem_le_foldl_max (l : List Int) (a x : Int) (hx : x ∈ l) : x ≤ l.foldl max a := by
  induction l generalizing a with
  | nil => simp at hx
  | cons y ys ih =>
    simp only [List.foldl_cons]
    rcases List.mem_cons.mp hx with rfl | hx
    · exact Int.le_trans (Int.le_max_right a x) (le_foldl_max ys _)
    · exact ih _ hx

/-- everything `_quantize_notes` can do to a sequence -/
def anyNeg (q : Rat → Int) (s : NoteSeq) : Prop :=
  (∃ n ∈ s.notes, noteNeg q n) ∨ (∃ c ∈ s.ccs, q c.time < 0) ∨ (∃ c ∈ s.texts, q c.time < 0)

def quantized (q : Rat → Int) (s : NoteSeq) : NoteSeq :=
  { s with notes := s.notes.map (qNote q),
           totalQSteps := (s.notes.map (fun n => (qNote q n).qe)).foldl max s.totalQSteps,
           ccs := s.ccs.map (fun c => { c with qstep := q c.time }),
           texts := s.texts.map (fun c => { c with qstep := q c.time }) }

theorem quantizeNotes_spec (q : Rat → Int) (s : NoteSeq) :
    (anyNeg q s ∧ quantizeNotes q s = .error .negativeTimeError) ∨
    (¬ anyNeg q s ∧ quantizeNotes q s = .ok (quantized q s)) := by
  unfold quantizeNotes anyNeg
  rcases qNotes_spec q s.notes s.totalQSteps with ⟨h1, e1⟩ | ⟨h1, e1⟩
  · left; exact ⟨Or.inl h1, by simp [e1]⟩
  · rcases qCCs_spec q s.ccs with ⟨h2, e2⟩ | ⟨h2, e2⟩
    · left; exact ⟨Or.inr (Or.inl h2), by simp [e1, e2]⟩
    · rcases qTexts_spec q s.texts with ⟨h3, e3⟩ | ⟨h3, e3⟩
      · left; exact ⟨Or.inr (Or.inr h3), by simp [e1, e2, e3]⟩
      · right
        refine ⟨?_, by simp [e1, e2, e3, quantized]⟩
        rintro (⟨n, hn, hh⟩ | ⟨c, hc, hh⟩ | ⟨c, hc, hh⟩)
        · exact h1 n hn hh
        · exact h2 c hc hh
        · exact h3 c hc hh

/-! ### tempos (same shape as time signatures) -/
def tpChange (l : List Tempo) : Prop := ∃ a ∈ l, ∃ b ∈ l, a.qpm ≠ b.qpm
def tpImplicit (dq : Rat) (l : List Tempo) : Prop :=
  ∃ e ∈ l, (∀ x ∈ l, e.time ≤ x.time) ∧ e.time ≠ 0 ∧ e.qpm ≠ dq

theorem checkTempos_spec (dq : Rat) (first : Tempo) (rest : List Tempo) :
    ((tpChange (first :: rest) ∨ tpImplicit dq (first :: rest)) ∧
      checkTempos dq (first :: rest) = .error .multipleTempoError) ∨
    (¬ tpChange (first :: rest) ∧ ¬ tpImplicit dq (first :: rest) ∧
      checkTempos dq (first :: rest) = .ok { first with time := 0 }) := by
  unfold checkTempos
  cases hsort : sortByRat (·.time) (first :: rest) with
  | nil => exact absurd hsort (sortByRat_ne_nil _ _ _)
  | cons e later =>
    obtain ⟨he, hlater, hcases, hmin⟩ := sortByRat_cons _ _ _ _ hsort
    simp only []
    by_cases c1 : e.time ≠ 0 ∧ e.qpm ≠ dq
    · left
      rw [if_pos c1]
      exact ⟨Or.inr ⟨e, he, hmin, c1.1, c1.2⟩, rfl⟩
    · rw [if_neg c1]
      by_cases c2 : later.any (fun t => t.qpm ≠ e.qpm) = true
      · left
        rw [if_pos c2]
        refine ⟨Or.inl ?_, rfl⟩
        obtain ⟨t, ht, hd⟩ := List.any_eq_true.mp c2
        exact ⟨t, hlater t ht, e, he, by simpa using hd⟩
      · right
        rw [if_neg c2]
        have hsame : ∀ x ∈ first :: rest, x.qpm = e.qpm := by
          intro x hx
          rcases hcases x hx with rfl | hx
          · rfl
          · apply Classical.byContradiction
            intro hh
            exact c2 (List.any_eq_true.mpr ⟨x, hx, by simpa using hh⟩)
        refine ⟨?_, ?_, rfl⟩
        · rintro ⟨a, ha, b, hb, hab⟩
          exact hab ((hsame a ha).trans (hsame b hb).symm)
        · rintro ⟨e', he', hmin', hne, hq⟩
          have ht : e'.time = e.time := Rat.le_antisymm (hmin' e he) (hmin e' he')
          exact c1 ⟨by rw [← ht]; exact hne, by rw [← hsame e' he']; exact hq⟩

end NSV.C01
