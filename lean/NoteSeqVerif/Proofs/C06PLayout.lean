import NoteSeqVerif.Proofs.C07
import NoteSeqVerif.Model.C06P
/-! C06 (performance half) — the layout half of `CanonicalPerf`: `emit` is the extractor's loop
(`perfLoop_emit`), `stream` reads back what `emit` wrote (`stream_emit`), both commute with shifting all steps
(core Lean only). -/
namespace NSV.C06P
open NSV NSV.C07

/-- move an on/off event by `S` steps -/
def SEv.shift (S : Int) (e : SEv) : SEv := { e with step := e.step + S }

theorem stream_shift (S : Int) : ∀ (evs : List PEvent) (cur bin : Int),
    stream (cur + S) bin evs = (stream cur bin evs).map (SEv.shift S) := by
  intro evs
  induction evs with
  | nil => intro cur bin; rfl
  | cons e r ih =>
    intro cur bin
    cases e with
    | timeShift v =>
      simp only [stream]
      rw [show cur + S + v = cur + v + S by omega, ih]
    | velocity b => simp only [stream, ih]
    | duration d => simp only [stream, ih]
    | noteOn p => simp only [stream, ih, List.map_cons, SEv.shift]
    | noteOff p => simp only [stream, ih, List.map_cons, SEv.shift]

theorem emit_shift (nb ms S : Int) : ∀ (es : List SEv) (cur bin : Int),
    emit nb ms (cur + S) bin (es.map (SEv.shift S)) = emit nb ms cur bin es := by
  intro es
  induction es with
  | nil => intro cur bin; rfl
  | cons e es ih =>
    intro cur bin
    simp only [List.map_cons, emit, SEv.shift]
    have h2 : e.step + S - (cur + S) = e.step - cur := by omega
    rw [h2]
    by_cases hgt : e.step > cur
    · have hg' : e.step + S > cur + S := by omega
      simp only [hgt, hg', ↓reduceIte, ih]
    · have hg' : ¬ e.step + S > cur + S := by omega
      simp only [hgt, hg', ↓reduceIte, ih]

/-- what the extractor's loop looks at in a note event: step, on/off, pitch, and (for an onset, when bins are
used) the velocity bin -/
def toS (nb : Int) (e : NEv) : SEv :=
  ⟨e.step, e.isOff, e.note.pitch,
    if e.isOff then 0 else if nb = 0 then 0 else C07.Gen.velocityToBin e.note.velocity nb⟩

/-- the `PerformanceEvent` validator accepts what this note event produces -/
def NEvOk (nb : Int) (e : NEv) : Prop :=
  0 ≤ e.note.pitch ∧ e.note.pitch ≤ 127 ∧
  (nb ≠ 0 → e.isOff = false →
    1 ≤ C07.Gen.velocityToBin e.note.velocity nb ∧ C07.Gen.velocityToBin e.note.velocity nb ≤ 127)

/-- **the extractor's loop is `emit`** on the projected note events -/
theorem perfLoop_emit (nb ms : Int) (hms : 1 ≤ ms) (hnb : 0 ≤ nb) :
    ∀ (E : List NEv) (st : PState), (∀ e ∈ E, NEvOk nb e) →
      ∃ st', perfLoop nb ms st E = .ok st' ∧
        st'.out = st.out ++ emit nb ms st.cur st.vel (E.map (toS nb)) := by
  intro E
  induction E with
  | nil => intro st _; exact ⟨st, rfl, by simp [emit]⟩
  | cons e E ih =>
    intro st hok
    obtain ⟨p0, p1, hb⟩ := hok e (List.mem_cons_self ..)
    have hrest : ∀ x ∈ E, NEvOk nb x := fun x hx => hok x (List.mem_cons_of_mem _ hx)
    have vOn : (PEvent.noteOn e.note.pitch).valid = true := by
      simp [PEvent.valid, C07.Gen.MIN_MIDI_PITCH, C07.Gen.MAX_MIDI_PITCH, p0, p1]
    have vOff : (PEvent.noteOff e.note.pitch).valid = true := by
      simp [PEvent.valid, C07.Gen.MIN_MIDI_PITCH, C07.Gen.MAX_MIDI_PITCH, p0, p1]
    have m1 : ¬ ms < 0 := by omega
    have m2 : ¬ ms = 0 := by omega
    -- the state after the time shifts
    let st1 : PState := if e.step > st.cur then
      { st with cur := e.step, out := st.out ++ shiftLoop ms (e.step - st.cur).toNat (e.step - st.cur) } else st
    have hs1 : perfShift ms st e.step = .ok st1 := by
      unfold perfShift
      by_cases hgt : e.step > st.cur
      · simp only [hgt, ↓reduceIte, m1, m2, st1]
      · simp only [hgt, ↓reduceIte, st1]
    have hv1 : st1.vel = st.vel := by
      by_cases hgt : e.step > st.cur <;> simp only [st1, hgt, ↓reduceIte]
    have hc1 : st1.cur = (if e.step > st.cur then e.step else st.cur) := by
      by_cases hgt : e.step > st.cur <;> simp only [st1, hgt, ↓reduceIte]
    have ho1 : st1.out = st.out ++
        (if e.step > st.cur then shiftLoop ms (e.step - st.cur).toNat (e.step - st.cur) else []) := by
      by_cases hgt : e.step > st.cur <;> simp only [st1, hgt, ↓reduceIte, List.append_nil]
    unfold perfLoop perfStep
    rw [hs1]
    simp only [Except.bind, List.map_cons, emit, toS]
    rw [← hc1]
    generalize hsh : (if e.step > st.cur then shiftLoop ms (e.step - st.cur).toNat (e.step - st.cur) else []) = sh at ho1 ⊢
    cases hoff : e.isOff with
    | true =>
      -- NOTE_OFF: no velocity event
      have hv : perfVelocity nb st1 e = .ok st1 := by
        unfold perfVelocity
        by_cases h0 : nb = 0
        · simp only [h0, ↓reduceIte]
        · have : ¬ nb < 0 := by omega
          simp only [h0, ↓reduceIte, this, hoff, Bool.not_true, Bool.false_and, Bool.false_eq_true]
      rw [hv]
      simp only [perfNote, hoff, ↓reduceIte, mkEvent, vOff]
      obtain ⟨st', h1, h2⟩ := ih { st1 with out := st1.out ++ [PEvent.noteOff e.note.pitch] } hrest
      refine ⟨st', h1, ?_⟩
      rw [h2, ho1, hv1]
      simp only [List.append_assoc, List.singleton_append]
    | false =>
      by_cases h0 : nb = 0
      · have hv : perfVelocity nb st1 e = .ok st1 := by
          unfold perfVelocity; simp only [h0, ↓reduceIte]
        rw [hv]
        have hcnd : ¬ (nb ≠ 0 ∧ (if nb = 0 then 0 else C07.Gen.velocityToBin e.note.velocity nb) ≠ st.vel) :=
          fun h => h.1 h0
        simp only [perfNote, hoff, Bool.false_eq_true, ↓reduceIte, mkEvent, vOn, hcnd]
        obtain ⟨st', h1, h2⟩ := ih { st1 with out := st1.out ++ [PEvent.noteOn e.note.pitch] } hrest
        refine ⟨st', h1, ?_⟩
        rw [h2, ho1, hv1]
        simp only [List.append_assoc, List.singleton_append]
      · have hn : ¬ nb < 0 := by omega
        obtain ⟨b0, b1⟩ := hb h0 hoff
        by_cases hch : C07.Gen.velocityToBin e.note.velocity nb = st.vel
        · have hv : perfVelocity nb st1 e = .ok st1 := by
            unfold perfVelocity
            simp only [h0, ↓reduceIte, hn, hoff, Bool.not_false, Bool.true_and, hv1, hch, ne_eq,
              not_true_eq_false, decide_false, Bool.false_eq_true]
          rw [hv]
          simp only [perfNote, hoff, Bool.false_eq_true, ↓reduceIte, mkEvent, vOn, h0, ne_eq,
            not_false_eq_true, hch, not_true_eq_false, and_false]
          obtain ⟨st', h1, h2⟩ := ih { st1 with out := st1.out ++ [PEvent.noteOn e.note.pitch] } hrest
          refine ⟨st', h1, ?_⟩
          rw [h2, ho1, hv1]
          simp only [List.append_assoc, List.singleton_append]
        · have vV : (PEvent.velocity (C07.Gen.velocityToBin e.note.velocity nb)).valid = true := by
            simp [PEvent.valid, C07.Gen.MAX_NUM_VELOCITY_BINS, b0, b1]
          have hv : perfVelocity nb st1 e = .ok ⟨st1.cur, C07.Gen.velocityToBin e.note.velocity nb,
              st1.out ++ [PEvent.velocity (C07.Gen.velocityToBin e.note.velocity nb)]⟩ := by
            unfold perfVelocity
            simp only [h0, ↓reduceIte, hn, hoff, Bool.not_false, Bool.true_and, hv1, ne_eq, hch,
              not_false_eq_true, decide_true, mkEvent, vV]
          rw [hv]
          simp only [perfNote, hoff, Bool.false_eq_true, ↓reduceIte, mkEvent, vOn, h0, ne_eq,
            not_false_eq_true, hch, and_self]
          obtain ⟨st', h1, h2⟩ := ih ⟨st1.cur, C07.Gen.velocityToBin e.note.velocity nb,
              st1.out ++ [PEvent.velocity (C07.Gen.velocityToBin e.note.velocity nb)] ++
                [PEvent.noteOn e.note.pitch]⟩ hrest
          refine ⟨st', h1, ?_⟩
          rw [h2, ho1]
          simp only [List.append_assoc, List.singleton_append, List.cons_append, List.nil_append]

/-! ### `stream` reads back what `emit` wrote -/

theorem stream_append_shifts (sh : List PEvent) (hsh : ∀ x ∈ sh, ∃ v, x = PEvent.timeShift v) (r : List PEvent) :
    ∀ (cur bin : Int), stream cur bin (sh ++ r) = stream (cur + shiftSum sh) bin r := by
  induction sh with
  | nil => intro cur bin; simp [shiftSum]
  | cons x xs ih =>
    intro cur bin
    obtain ⟨v, rfl⟩ := hsh x (List.mem_cons_self ..)
    simp only [List.cons_append, stream, shiftSum]
    rw [ih (fun y hy => hsh y (List.mem_cons_of_mem _ hy)), show cur + v + shiftSum xs = cur + (v + shiftSum xs) by omega]

/-- a stream the extractor can be handed: steps do not go back, NOTE_OFFs carry bin 0, and without velocity bins
every event carries the initial bin -/
def StreamWF (nb : Int) (cur bin : Int) (es : List SEv) : Prop :=
  (∀ e ∈ es, cur ≤ e.step) ∧ es.Pairwise (fun a b => a.step ≤ b.step) ∧
  (∀ e ∈ es, e.isOff = true → e.bin = 0) ∧ (nb = 0 → ∀ e ∈ es, e.isOff = false → e.bin = bin)

theorem stream_emit (nb ms : Int) (hms : 1 ≤ ms) : ∀ (es : List SEv) (cur bin : Int),
    StreamWF nb cur bin es → stream cur bin (emit nb ms cur bin es) = es := by
  intro es
  induction es with
  | nil => intro cur bin _; rfl
  | cons e es ih =>
    intro cur bin ⟨hge, hpw, hoffb, hnb0⟩
    rw [List.pairwise_cons] at hpw
    have hcur := hge e (List.mem_cons_self ..)
    -- the shifts
    have hshifts : ∀ x ∈ (if e.step > cur then shiftLoop ms (e.step - cur).toNat (e.step - cur) else []),
        ∃ v, x = PEvent.timeShift v := by
      by_cases hgt : e.step > cur
      · simp only [hgt, ↓reduceIte]
        intro x hx
        obtain ⟨v, hv, _⟩ := (shiftLoop_spec ms hms (e.step - cur).toNat (e.step - cur) (by omega) (by omega)).1 x hx
        exact ⟨v, hv⟩
      · simp only [hgt, ↓reduceIte]; intro x hx; simp at hx
    have hsum : cur + shiftSum (if e.step > cur then shiftLoop ms (e.step - cur).toNat (e.step - cur) else []) =
        e.step := by
      by_cases hgt : e.step > cur
      · simp only [hgt, ↓reduceIte]
        rw [(shiftLoop_spec ms hms (e.step - cur).toNat (e.step - cur) (by omega) (by omega)).2.1]; omega
      · simp only [hgt, ↓reduceIte, shiftSum]; omega
    have hcur' : (if e.step > cur then e.step else cur) = e.step := by
      by_cases hgt : e.step > cur <;> simp only [hgt, ↓reduceIte]; omega
    have hwf' : ∀ b, (nb = 0 → b = bin) → StreamWF nb e.step b es := by
      intro b hb
      refine ⟨fun x hx => hpw.1 x hx, hpw.2, fun x hx => hoffb x (List.mem_cons_of_mem _ hx), ?_⟩
      intro h0 x hx hxo
      rw [hb h0]; exact hnb0 h0 x (List.mem_cons_of_mem _ hx) hxo
    simp only [emit, hcur']
    cases hoff : e.isOff with
    | true =>
      simp only [↓reduceIte]
      rw [stream_append_shifts _ hshifts, hsum]
      simp only [stream]
      rw [ih e.step bin (hwf' bin (fun _ => rfl))]
      have := hoffb e (List.mem_cons_self ..) hoff
      cases e; simp_all
    | false =>
      by_cases hc : nb ≠ 0 ∧ e.bin ≠ bin
      · simp only [Bool.false_eq_true, ↓reduceIte, hc, ne_eq, not_false_eq_true, and_self]
        rw [stream_append_shifts _ hshifts, hsum]
        simp only [stream]
        rw [ih e.step e.bin (hwf' e.bin (fun h0 => absurd h0 hc.1))]
        cases e; simp_all
      · simp only [Bool.false_eq_true, ↓reduceIte, hc]
        rw [stream_append_shifts _ hshifts, hsum]
        simp only [stream]
        rw [ih e.step bin (hwf' bin (fun _ => rfl))]
        have hb : e.bin = bin := by
          by_cases h0 : nb = 0
          · exact hnb0 h0 e (List.mem_cons_self ..) hoff
          · by_cases hne : e.bin = bin
            · exact hne
            · exact absurd ⟨h0, hne⟩ hc
        cases e
        simp only at hoff hb
        subst hoff; subst hb
        rfl

end NSV.C06P
