import NoteSeqVerif.Model.C18
/-! C18 helper lemmas, encoder side: numpy-style painting, the note loop as a fold of paint
operations, cell formulas for the finished rolls. -/
namespace NSV.C18

/-- cell `(f, p)` of a roll -/
def getCell {α} (m : List (List α)) (f p : Nat) : Option α := (m[f]?).bind (·[p]?)

theorem getCell_paint {α} (m : List (List α)) (a b : Int) (col : Nat) (v : α) (f p : Nat) :
    getCell (paint m a b col v) f p =
      if inSlice m.length a b f = true ∧ p = col then (getCell m f p).map (fun _ => v)
      else getCell m f p := by
  unfold paint getCell inSlice
  simp only [List.getElem?_mapIdx]
  cases h : m[f]? with
  | none => simp
  | some row =>
    simp only [Option.map_some, Option.bind_some, Bool.and_eq_true, decide_eq_true_eq]
    by_cases hs : normIdx m.length a ≤ f ∧ f < normIdx m.length b
    · simp only [hs, and_self, ↓reduceIte, true_and, List.getElem?_set]
      by_cases hp : p = col
      · subst hp
        simp only [↓reduceIte]
        by_cases hl : p < row.length
        · simp [hl]
        · simp [hl]
      · have : ¬ col = p := fun h => hp h.symm
        simp [hp, this]
    · simp [hs]

theorem getCell_setCell {α} (m : List (List α)) (r col : Nat) (v : α) (f p : Nat) :
    getCell (setCell m r col v) f p =
      if f = r ∧ p = col then (getCell m f p).map (fun _ => v) else getCell m f p := by
  unfold setCell getCell
  simp only [List.getElem?_mapIdx]
  cases h : m[f]? with
  | none => simp
  | some row =>
    simp only [Option.map_some, Option.bind_some]
    by_cases hs : f = r
    · simp only [hs, ↓reduceIte, true_and, List.getElem?_set]
      by_cases hp : p = col
      · subst hp
        by_cases hl : p < row.length
        · simp [hl]
        · simp [hl]
      · have : ¬ col = p := fun h => hp h.symm
        simp [hp, this]
    · simp [hs]

theorem getCell_replicate {α} (n w : Nat) (v : α) (f p : Nat) (hf : f < n) (hp : p < w) :
    getCell (List.replicate n (List.replicate w v)) f p = some v := by
  unfold getCell
  simp [List.getElem?_replicate, hf, hp]


theorem length_paint {α} (m : List (List α)) (a b : Int) (col : Nat) (v : α) :
    (paint m a b col v).length = m.length := by
  unfold paint; simp

abbrev Op := Int × Int × Nat × Rat
def paintOp (m : List (List Rat)) (op : Op) : List (List Rat) := paint m op.1 op.2.1 op.2.2.1 op.2.2.2
/-- the paint operation `op` touches cell `(f, p)` of a roll with `n` frames -/
def covers (n f p : Nat) (op : Op) : Bool := inSlice n op.1 op.2.1 f && decide (p = op.2.2.1)

theorem length_foldl_paintOp (ops : List Op) (m : List (List Rat)) :
    (ops.foldl paintOp m).length = m.length := by
  induction ops generalizing m with
  | nil => rfl
  | cons op rest ih => simp only [List.foldl_cons]; rw [ih]; exact length_paint ..

/-- painting in sequence: a cell holds the value of the last operation that touched it -/
theorem getCell_foldl_paintOp (ops : List Op) (m : List (List Rat)) (f p : Nat) :
    getCell (ops.foldl paintOp m) f p =
      (getCell m f p).map fun x => ops.foldl (fun x op => if covers m.length f p op then op.2.2.2 else x) x := by
  induction ops generalizing m with
  | nil => simp
  | cons op rest ih =>
    simp only [List.foldl_cons]
    rw [ih (paintOp m op)]
    have hl : (paintOp m op).length = m.length := length_paint ..
    rw [hl]
    unfold paintOp
    rw [getCell_paint]
    unfold covers
    cases hc : getCell m f p with
    | none => simp
    | some x =>
      by_cases h : inSlice m.length op.1 op.2.1 f = true ∧ p = op.2.2.1
      · simp [h]
      · simp only [h, ↓reduceIte, Option.map_some]
        have : (inSlice m.length op.1 op.2.1 f && decide (p = op.2.2.1)) = false := by
          simp only [Bool.and_eq_false_iff, decide_eq_false_iff_not]
          by_cases h1 : inSlice m.length op.1 op.2.1 f = true
          · right; exact fun h2 => h ⟨h1, h2⟩
          · left; simpa using h1
        simp [this]

/-- all selected elements carry the same value `v`: the fold is `v` iff some element is selected -/
theorem foldl_sel_const {α} (l : List α) (c : α → Bool) (val : α → Rat) (v x : Rat)
    (hv : ∀ a ∈ l, c a = true → val a = v) :
    l.foldl (fun x a => if c a then val a else x) x = if ∃ a ∈ l, c a = true then v else x := by
  induction l generalizing x with
  | nil => simp
  | cons op rest ih =>
    simp only [List.foldl_cons]
    rw [ih _ (fun o ho => hv o (List.mem_cons_of_mem _ ho))]
    by_cases h1 : ∃ o ∈ rest, c o = true
    · have : ∃ o ∈ op :: rest, c o = true := by
        obtain ⟨o, ho, hc⟩ := h1; exact ⟨o, List.mem_cons_of_mem _ ho, hc⟩
      simp [h1, this]
    · by_cases h2 : c op = true
      · have : ∃ o ∈ op :: rest, c o = true := ⟨op, List.mem_cons_self, h2⟩
        simp [h1, this, h2, hv op List.mem_cons_self h2]
      · have : ¬ ∃ o ∈ op :: rest, c o = true := by
          rintro ⟨o, ho, hc⟩
          rcases List.mem_cons.mp ho with rfl | ho
          · exact h2 hc
          · exact h1 ⟨o, ho, hc⟩
        simp [h1, this, h2]

/-- last one wins: the fold is the value of a selected element after which nothing is selected -/
theorem foldl_sel_last {α} (l : List α) (c : α → Bool) (val : α → Rat) (x : Rat)
    (h : ∃ a ∈ l, c a = true) :
    ∃ l1 a l2, l = l1 ++ a :: l2 ∧ c a = true ∧ (∀ o ∈ l2, c o = false) ∧
      l.foldl (fun x a => if c a then val a else x) x = val a := by
  induction l generalizing x with
  | nil => simp at h
  | cons op rest ih =>
    simp only [List.foldl_cons]
    by_cases h1 : ∃ o ∈ rest, c o = true
    · obtain ⟨l1, o, l2, he, hc, hl, hv⟩ := ih (if c op then val op else x) h1
      exact ⟨op :: l1, o, l2, by simp [he], hc, hl, hv⟩
    · have hop : c op = true := by
        obtain ⟨o, ho, hc⟩ := h
        rcases List.mem_cons.mp ho with rfl | ho
        · exact hc
        · exact absurd ⟨o, ho, hc⟩ h1
      have hall : ∀ o ∈ rest, c o = false := by
        intro o ho
        cases hco : c o with
        | false => rfl
        | true => exact absurd ⟨o, ho, hco⟩ h1
      refine ⟨[], op, rest, rfl, hop, hall, ?_⟩
      have : ∀ y, rest.foldl (fun x op => if c op then val op else x) y = y := by
        intro y
        clear ih h h1
        induction rest generalizing y with
        | nil => rfl
        | cons o r ihr =>
          simp only [List.foldl_cons, hall o List.mem_cons_self]
          exact ihr (fun o' ho' => hall o' (List.mem_cons_of_mem _ ho')) y
      rw [this]; simp [hop]

theorem foldl_filterMap_sel {α} (l : List α) (g : α → Option Op) (cv : Op → Bool) (x : Rat) :
    (l.filterMap g).foldl (fun x op => if cv op then op.2.2.2 else x) x =
      l.foldl (fun x a => if (match g a with | some op => cv op | none => false) then
        (match g a with | some op => op.2.2.2 | none => 0) else x) x := by
  induction l generalizing x with
  | nil => rfl
  | cons a rest ih =>
    simp only [List.filterMap_cons, List.foldl_cons]
    cases hg : g a with
    | none => simp [ih]
    | some op => simp [ih]

/-! ### the note loop as a sequence of paint operations -/
def InRange (c : Cfg) (nt : PNote) : Prop := c.minPitch ≤ nt.pitch ∧ nt.pitch ≤ c.maxPitch
def colOf (c : Cfg) (nt : PNote) : Nat := (nt.pitch - c.minPitch).toNat

/-- the paint operation a note contributes to one roll (`sel` picks span and value) -/
def noteOp (R : Rat → Rat) (eps : Rat) (c : Cfg) (total : Rat) (n : Nat) (sel : NF → PNote → Op)
    (nt : PNote) : Option Op :=
  if nt.pitch < c.minPitch ∨ nt.pitch > c.maxPitch then none
  else match noteFrames R eps c total n nt with
    | .ok nf => some (sel nf nt)
    | .error _ => none

theorem encNotes_proj (R R32 : Rat → Rat) (eps : Rat) (c : Cfg) (total : Rat) (n : Nat)
    (proj : Rolls → List (List Rat)) (sel : NF → PNote → Op)
    (hstep : ∀ st nt st', encNote R R32 eps c total n st nt = .ok st' →
      proj st' = match noteOp R eps c total n sel nt with
        | some op => paintOp (proj st) op
        | none => proj st)
    (l : List PNote) (st st' : Rolls) (h : encNotes R R32 eps c total n st l = .ok st') :
    proj st' = (l.filterMap (noteOp R eps c total n sel)).foldl paintOp (proj st) := by
  induction l generalizing st with
  | nil => simp only [encNotes] at h; cases h; simp
  | cons nt rest ih =>
    simp only [encNotes] at h
    split at h
    · cases h
    · rename_i st1 h1
      rw [ih st1 h, hstep st nt st1 h1]
      simp only [List.filterMap_cons]
      cases noteOp R eps c total n sel nt <;> simp

def selActive (c : Cfg) (nf : NF) (nt : PNote) : Op := (nf.sf, nf.ef, colOf c nt, 1)
def selOnset (c : Cfg) (nf : NF) (nt : PNote) : Op := (nf.os, nf.oe, colOf c nt, 1)
def selOffset (c : Cfg) (nf : NF) (nt : PNote) : Op := (nf.fs, nf.fe, colOf c nt, 1)
def selVel (R R32 : Rat → Rat) (c : Cfg) (nf : NF) (nt : PNote) : Op :=
  (nf.sf, nf.ef, colOf c nt, R32 (R ((nt.velocity : Rat) / (c.maxVelocity : Rat))))

theorem paintNote_ok {R R32 : Rat → Rat} {c : Cfg} {n : Nat} {st st' : Rolls} {nt : PNote} {col : Nat}
    {f : NF} (h : paintNote R R32 c n st nt col f = .ok st') :
    st'.onsets = paint st.onsets f.os f.oe col 1 ∧
    st'.offsets = paint st.offsets f.fs f.fe col 1 ∧
    st'.vels = paint st.vels f.sf f.ef col (R32 (R ((nt.velocity : Rat) / (c.maxVelocity : Rat)))) ∧
    (c.blank = false → st'.active = paint st.active f.sf f.ef col 1) ∧
    nt.velocity ≤ c.maxVelocity ∧ c.maxVelocity ≠ 0 := by
  unfold paintNote at h
  simp only at h
  split at h
  · cases h
  · split at h
    · cases h
    · split at h
      · cases h
      · split at h
        · cases h
          refine ⟨rfl, rfl, rfl, ?_, by omega, by assumption⟩
          intro hb; rename_i h1; simp [hb] at h1
        · cases h
          exact ⟨rfl, rfl, rfl, fun _ => rfl, by omega, by assumption⟩

theorem encNote_cases {R R32 : Rat → Rat} {eps : Rat} {c : Cfg} {total : Rat} {n : Nat} {st st' : Rolls}
    {nt : PNote} (h : encNote R R32 eps c total n st nt = .ok st') :
    ((nt.pitch < c.minPitch ∨ nt.pitch > c.maxPitch) ∧ st' = st) ∨
    (¬ (nt.pitch < c.minPitch ∨ nt.pitch > c.maxPitch) ∧ ∃ nf, noteFrames R eps c total n nt = .ok nf ∧
      paintNote R R32 c n st nt (colOf c nt) nf = .ok st') := by
  unfold encNote at h
  split at h
  · left; cases h; exact ⟨by assumption, rfl⟩
  · right
    refine ⟨by assumption, ?_⟩
    split at h
    · cases h
    · rename_i nf hnf; exact ⟨nf, hnf, h⟩

theorem step_active (R R32 : Rat → Rat) (eps : Rat) (c : Cfg) (total : Rat) (n : Nat) (hb : c.blank = false)
    (st : Rolls) (nt : PNote) (st' : Rolls) (h : encNote R R32 eps c total n st nt = .ok st') :
    st'.active = match noteOp R eps c total n (selActive c) nt with
      | some op => paintOp st.active op
      | none => st.active := by
  rcases encNote_cases h with ⟨ho, rfl⟩ | ⟨hi, nf, hnf, hp⟩
  · simp [noteOp, ho]
  · simp only [noteOp, hi, ↓reduceIte, hnf]
    exact (paintNote_ok hp).2.2.2.1 hb

theorem step_onsets (R R32 : Rat → Rat) (eps : Rat) (c : Cfg) (total : Rat) (n : Nat)
    (st : Rolls) (nt : PNote) (st' : Rolls) (h : encNote R R32 eps c total n st nt = .ok st') :
    st'.onsets = match noteOp R eps c total n (selOnset c) nt with
      | some op => paintOp st.onsets op
      | none => st.onsets := by
  rcases encNote_cases h with ⟨ho, rfl⟩ | ⟨hi, nf, hnf, hp⟩
  · simp [noteOp, ho]
  · simp only [noteOp, hi, ↓reduceIte, hnf]
    exact (paintNote_ok hp).1

theorem step_vels (R R32 : Rat → Rat) (eps : Rat) (c : Cfg) (total : Rat) (n : Nat)
    (st : Rolls) (nt : PNote) (st' : Rolls) (h : encNote R R32 eps c total n st nt = .ok st') :
    st'.vels = match noteOp R eps c total n (selVel R R32 c) nt with
      | some op => paintOp st.vels op
      | none => st.vels := by
  rcases encNote_cases h with ⟨ho, rfl⟩ | ⟨hi, nf, hnf, hp⟩
  · simp [noteOp, ho]
  · simp only [noteOp, hi, ↓reduceIte, hnf]
    exact (paintNote_ok hp).2.2.1


/-! ### the finished rolls -/
/-- note `nt` paints cell `(f, p)` of the roll selected by `sel` -/
def NoteCovers (R : Rat → Rat) (eps : Rat) (c : Cfg) (total : Rat) (n : Nat) (sel : NF → PNote → Op)
    (f p : Nat) (nt : PNote) : Bool :=
  match noteOp R eps c total n sel nt with
  | some op => covers n f p op
  | none => false

def noteVal (R : Rat → Rat) (eps : Rat) (c : Cfg) (total : Rat) (n : Nat) (sel : NF → PNote → Op)
    (nt : PNote) : Rat :=
  match noteOp R eps c total n sel nt with
  | some op => op.2.2.2
  | none => 0

theorem encode_ok {R R32 : Rat → Rat} {eps : Rat} {c : Cfg} {total : Rat} {notes : List PNote}
    {ccs : List PCC} {pr : Pianoroll} (h : encode R R32 eps c total notes ccs = .ok pr) :
    0 ≤ numRows R c.fps total ∧ 0 ≤ c.maxPitch - c.minPitch + 1 ∧
    ∃ st, encNotes R R32 eps c total (numRows R c.fps total).toNat
        (initRolls (numRows R c.fps total).toNat (c.maxPitch - c.minPitch + 1).toNat) (sortByStart notes) = .ok st ∧
      pr.active = st.active ∧ pr.onsets = st.onsets ∧ pr.activeVelocities = st.vels ∧
      pr.offsets = st.offsets ∧ pr.weights = st.weights := by
  unfold encode at h
  simp only at h
  split at h
  · cases h
  · rename_i hneg
    split at h
    · cases h
    · rename_i st hst
      split at h
      · cases h
      · cases h
        refine ⟨by omega, by omega, st, hst, rfl, rfl, rfl, rfl, rfl⟩

/-- generic cell formula for a roll painted by the note loop: fold over the notes in start order -/
theorem encNotes_cell (R R32 : Rat → Rat) (eps : Rat) (c : Cfg) (total : Rat) (n w : Nat)
    (proj : Rolls → List (List Rat)) (sel : NF → PNote → Op)
    (hstep : ∀ st nt st', encNote R R32 eps c total n st nt = .ok st' →
      proj st' = match noteOp R eps c total n sel nt with
        | some op => paintOp (proj st) op
        | none => proj st)
    (l : List PNote) (st0 st : Rolls) (h : encNotes R R32 eps c total n st0 l = .ok st)
    (x0 : Rat) (h0 : proj st0 = List.replicate n (List.replicate w x0))
    (f p : Nat) (hf : f < n) (hp : p < w) :
    getCell (proj st) f p = some (l.foldl (fun x nt =>
      if NoteCovers R eps c total n sel f p nt then noteVal R eps c total n sel nt else x) x0) := by
  rw [encNotes_proj R R32 eps c total n proj sel hstep l st0 st h, getCell_foldl_paintOp, h0,
    getCell_replicate n w x0 f p hf hp]
  simp only [Option.map_some, List.length_replicate]
  rw [foldl_filterMap_sel]
  rfl



theorem mem_insertBy' {α} (key : α → Rat) (a x : α) (l : List α) : x ∈ insertBy key a l ↔ x = a ∨ x ∈ l := by
  induction l with
  | nil => simp [insertBy]
  | cons b l ih =>
    simp only [insertBy]
    split
    · simp
    · simp only [List.mem_cons, ih]
      constructor
      · rintro (h | h | h)
        · exact Or.inr (Or.inl h)
        · exact Or.inl h
        · exact Or.inr (Or.inr h)
      · rintro (h | h | h)
        · exact Or.inr (Or.inl h)
        · exact Or.inl h
        · exact Or.inr (Or.inr h)

theorem mem_sortByStart' (nt : PNote) (notes : List PNote) : nt ∈ sortByStart notes ↔ nt ∈ notes := by
  unfold sortByStart
  induction notes with
  | nil => simp [sortBy]
  | cons a l ih => simp only [sortBy, mem_insertBy', ih, List.mem_cons]

theorem noteOp_some_iff (R : Rat → Rat) (eps : Rat) (c : Cfg) (total : Rat) (n : Nat) (sel : NF → PNote → Op)
    (nt : PNote) (op : Op) :
    noteOp R eps c total n sel nt = some op ↔
      InRange c nt ∧ ∃ nf, noteFrames R eps c total n nt = .ok nf ∧ op = sel nf nt := by
  unfold noteOp InRange
  by_cases hr : nt.pitch < c.minPitch ∨ nt.pitch > c.maxPitch
  · rw [if_pos hr]
    constructor
    · intro h; cases h
    · rintro ⟨h, _⟩; omega
  · rw [if_neg hr]
    cases hnf : noteFrames R eps c total n nt with
    | ok nf =>
      simp only []
      constructor
      · intro h; cases h; exact ⟨by omega, nf, rfl, rfl⟩
      · rintro ⟨_, nf', h1, h2⟩; cases h1; rw [h2]
    | error e =>
      simp only []
      constructor
      · intro h; cases h
      · rintro ⟨_, nf', h1, _⟩; cases h1

/-- note `nt` paints cell `(f, p)` of the active roll -/
theorem NoteCovers_active_iff (R : Rat → Rat) (eps : Rat) (c : Cfg) (total : Rat) (n f p : Nat) (nt : PNote) :
    NoteCovers R eps c total n (selActive c) f p nt = true ↔
      InRange c nt ∧ p = colOf c nt ∧
        ∃ nf, noteFrames R eps c total n nt = .ok nf ∧ inSlice n nf.sf nf.ef f = true := by
  unfold NoteCovers
  cases h : noteOp R eps c total n (selActive c) nt with
  | none =>
    simp only [Bool.false_eq_true, false_iff]
    rintro ⟨hr, _, nf, hnf, _⟩
    have := (noteOp_some_iff R eps c total n (selActive c) nt (selActive c nf nt)).mpr ⟨hr, nf, hnf, rfl⟩
    rw [h] at this; cases this
  | some op =>
    obtain ⟨hr, nf, hnf, rfl⟩ := (noteOp_some_iff R eps c total n (selActive c) nt op).mp h
    simp only [covers, selActive, Bool.and_eq_true, decide_eq_true_eq]
    constructor
    · rintro ⟨h1, h2⟩; exact ⟨hr, of_decide_eq_true h2, nf, hnf, h1⟩
    · rintro ⟨_, h2, nf', hnf', h1⟩
      rw [hnf] at hnf'; cases hnf'
      exact ⟨h1, decide_eq_true h2⟩

/-- **active roll**: with `add_blank_frame_before_onset = False` a cell of the active roll is 1
exactly when some note of the sequence paints it, else 0 (any rounding, any other parameter) -/
theorem enc_active_cell {R R32 : Rat → Rat} {eps : Rat} {c : Cfg} {total : Rat} {notes : List PNote}
    {ccs : List PCC} {pr : Pianoroll} (hb : c.blank = false)
    (h : encode R R32 eps c total notes ccs = .ok pr) (f p : Nat)
    (hf : f < (numRows R c.fps total).toNat) (hp : p < (c.maxPitch - c.minPitch + 1).toNat) :
    getCell pr.active f p = some
      (if ∃ nt ∈ notes, NoteCovers R eps c total (numRows R c.fps total).toNat (selActive c) f p nt = true
       then 1 else 0) := by
  obtain ⟨_, _, st, hst, ha, _⟩ := encode_ok h
  rw [ha, encNotes_cell R R32 eps c total _ _ (·.active) (selActive c)
    (step_active R R32 eps c total _ hb) _ _ st hst 0 rfl f p hf hp]
  rw [foldl_sel_const _ _ _ 1 0]
  · congr 1
    have : (∃ a ∈ sortByStart notes, NoteCovers R eps c total (numRows R c.fps total).toNat (selActive c) f p a = true)
        ↔ ∃ nt ∈ notes, NoteCovers R eps c total (numRows R c.fps total).toNat (selActive c) f p nt = true := by
      constructor
      · rintro ⟨a, ha, hc⟩; exact ⟨a, (mem_sortByStart' a notes).mp ha, hc⟩
      · rintro ⟨a, ha, hc⟩; exact ⟨a, (mem_sortByStart' a notes).mpr ha, hc⟩
    simp only [this]
  · intro a _ hc
    unfold NoteCovers at hc
    unfold noteVal
    cases hop : noteOp R eps c total (numRows R c.fps total).toNat (selActive c) a with
    | none => rw [hop] at hc; cases hc
    | some op =>
      obtain ⟨_, nf, _, rfl⟩ := (noteOp_some_iff _ _ _ _ _ _ _ _).mp hop
      rfl


theorem framesFromTimes_occ0 (R : Rat → Rat) (eps fps s e : Rat) :
    framesFromTimes R eps fps 0 s e =
      (truncR (timeToFrames R eps fps s),
       max (truncR (timeToFrames R eps fps s) + 1) (timeToFrames R eps fps e).ceil) := by
  unfold framesFromTimes
  simp

theorem truncR_natCast (k : Nat) : truncR (k : Rat) = (k : Int) := by
  unfold truncR
  have h : (0 : Rat) ≤ (k : Rat) := by exact_mod_cast Nat.zero_le k
  rw [if_pos h]
  have : (k : Rat) = ((k : Int) : Rat) := by norm_cast
  rw [this, Rat.floor_intCast]

theorem ceil_natCast (k : Nat) : (k : Rat).ceil = (k : Int) := by
  have : (k : Rat) = ((k : Int) : Rat) := by norm_cast
  rw [this, Rat.ceil_intCast]

/-- frames of a note whose start and end are read back as frames `s < e` -/
theorem framesFromTimes_grid (R : Rat → Rat) (eps fps ts te : Rat) (s e : Nat) (hse : s < e)
    (hs : timeToFrames R eps fps ts = (s : Rat)) (he : timeToFrames R eps fps te = (e : Rat)) :
    framesFromTimes R eps fps 0 ts te = ((s : Int), (e : Int)) := by
  rw [framesFromTimes_occ0, hs, he, truncR_natCast, ceil_natCast]
  congr 1
  omega

theorem noteFrames_plain (R : Rat → Rat) (eps : Rat) (c : Cfg) (total : Rat) (n : Nat) (nt : PNote)
    (hm : c.mode = 0) (ho : c.overlap = true) :
    ∃ nf, noteFrames R eps c total n nt = .ok nf ∧
      nf.sf = (framesFromTimes R eps c.fps c.occ nt.start nt.end_).1 ∧
      nf.ef = (framesFromTimes R eps c.fps c.occ nt.start nt.end_).2 := by
  unfold noteFrames
  simp [hm, ho]

theorem inSlice_iff (n : Nat) (a b : Int) (f : Nat) (ha : 0 ≤ a) (hb : 0 ≤ b) (hf : f < n) :
    inSlice n a b f = true ↔ a ≤ (f : Int) ∧ (f : Int) < b := by
  unfold inSlice normIdx
  simp only [Bool.and_eq_true, decide_eq_true_eq]
  repeat' split
  all_goals omega

end NSV.C18
