import NoteSeqVerif.Proofs.C06PFloat
/-! C06 (performance half) — NotePerformance: helper lemmas for `roundtrip_NotePerformance`. -/
namespace NSV.C06P
open NSV NSV.C06 NSV.C01 NSV.C07

/-! ### velocity bins (generated definitions, `Generated/C07.lean`) -/

theorem binsize_pos (n : Int) (h1 : 1 ≤ n) : 1 ≤ C07.Gen.velocityBinSize n := by
  unfold C07.Gen.velocityBinSize C07.Gen.pyCeilDiv
  have hn : 0 ≤ n := by omega
  rw [Int.fdiv_eq_ediv_of_nonneg _ hn]
  have b := @Int.mul_ediv_self_le (-127) n (by omega)
  simp only [Int.reduceSub, Int.reduceAdd, Int.reduceNeg] at *
  generalize (-127 : Int) / n = q at *
  by_cases hq : 1 ≤ -q
  · exact hq
  · have : 0 ≤ q := by omega
    have := Int.mul_nonneg hn this
    omega

/-- bin → velocity → bin is the identity, for every bin number and every bin count ≥ 1
(C09's `velocity_bin_right_inverse`, here for the copy of the generated functions the extractor model uses) -/
theorem velocityToBin_binToVelocity (n b : Int) (hn : 1 ≤ n) :
    C07.Gen.velocityToBin (C07.Gen.velocityBinToVelocity b n) n = b := by
  have hs := binsize_pos n hn
  unfold C07.Gen.velocityToBin C07.Gen.velocityBinToVelocity
  generalize C07.Gen.velocityBinSize n = s at *
  rw [Int.fdiv_eq_ediv_of_nonneg _ (by omega)]
  have : (1 + (b - 1) * s - 1) = (b - 1) * s := by omega
  rw [this, Int.mul_ediv_cancel _ (by omega)]
  omega

/-! ### order of rendered notes -/

/-- `(start step, pitch)` order on rendered notes -/
def rnLe (a b : RNote) : Bool := decide (a.s < b.s) || (a.s == b.s && decide (a.pitch ≤ b.pitch))

/-- on the grid, the extractor's sort key `(start_time, pitch)` orders notes as `(start step, pitch)` does -/
theorem timePitchLe_qnote {R : Rat → Rat} {c : RenderCfg} {q : Rat → Int} {S B : Int}
    (g : Grid (stepTimeR R c.sigma c.sst) q S B) (a b : RNote) (ha : a.inB B) (hb : b.inB B) :
    timePitchLe (qnote R c S a) (qnote R c S b) = rnLe a b := by
  obtain ⟨a0, a1, a2⟩ := ha
  obtain ⟨b0, b1, b2⟩ := hb
  have hlt := g.lt_iff (k := a.s) (k' := b.s) a0 (by omega) b0 (by omega)
  have heq := g.eq_iff (k := a.s) (k' := b.s) a0 (by omega) b0 (by omega)
  have hsa : (qnote R c S a).start = stepTimeR R c.sigma c.sst a.s := rfl
  have hsb : (qnote R c S b).start = stepTimeR R c.sigma c.sst b.s := rfl
  have hpa : (qnote R c S a).pitch = a.pitch := rfl
  have hpb : (qnote R c S b).pitch = b.pitch := rfl
  rw [Bool.eq_iff_iff]
  simp only [timePitchLe, rnLe, Bool.or_eq_true, Bool.and_eq_true, decide_eq_true_eq, beq_iff_eq]
  rw [hsa, hsb, hpa, hpb, hlt, heq]

/-! ### the integer part of `NotePerformance.to_sequence` -/

/-- the notes `NotePerformance.to_sequence` renders -/
def npSpec (nb : Int) : Int → List NPTuple → List RNote
  | _, [] => []
  | step, t :: ts =>
    ⟨t.pitch, step + t.shift, step + t.shift + t.dur, C07.Gen.velocityBinToVelocity t.bin nb⟩ ::
      npSpec nb (step + t.shift) ts

theorem notePerfNotes_ok (nb : Int) (hnb : nb ≠ 0) :
    ∀ (ts : List NPTuple) (step : Int), notePerfNotes nb step ts = .ok (npSpec nb step ts) := by
  intro ts
  induction ts with
  | nil => intro step; rfl
  | cons t ts ih => intro step; simp only [notePerfNotes, hnb, ↓reduceIte, ih, npSpec]

/-- total number of steps a tuple list can reach: every note ends at or before `step + npSpan` -/
def npSpan : List NPTuple → Int
  | [] => 0
  | t :: ts => t.shift + t.dur + npSpan ts

theorem npSpan_nonneg (ms md : Int) : ∀ ts : List NPTuple, (∀ t ∈ ts, npTupleOk ms md t = true) → 0 ≤ npSpan ts := by
  intro ts
  induction ts with
  | nil => intro _; simp [npSpan]
  | cons t ts ih =>
    intro h
    have h1 := h t (List.mem_cons_self ..)
    have h2 := ih (fun x hx => h x (List.mem_cons_of_mem _ hx))
    simp only [npTupleOk, Bool.and_eq_true, decide_eq_true_eq] at h1
    simp only [npSpan]; omega

theorem npSpec_bounds (nb ms md : Int) : ∀ (ts : List NPTuple) (step : Int),
    (∀ t ∈ ts, npTupleOk ms md t = true) →
    ∀ r ∈ npSpec nb step ts, step ≤ r.s ∧ r.s < r.e ∧ r.e ≤ step + npSpan ts := by
  intro ts
  induction ts with
  | nil => intro step _ r hr; simp [npSpec] at hr
  | cons t ts ih =>
    intro step h r hr
    have h1 := h t (List.mem_cons_self ..)
    simp only [npTupleOk, Bool.and_eq_true, decide_eq_true_eq] at h1
    have hsp := npSpan_nonneg ms md ts (fun x hx => h x (List.mem_cons_of_mem _ hx))
    simp only [npSpec, List.mem_cons] at hr
    rcases hr with rfl | hr
    · simp only [npSpan]; omega
    · have := ih (step + t.shift) (fun x hx => h x (List.mem_cons_of_mem _ hx)) r hr
      simp only [npSpan]; omega

/-- the head of an ordered tuple list is `(step, pitch)`-below everything rendered after it -/
theorem npSpec_head_le (nb ms md : Int) : ∀ (ts : List NPTuple) (a : NPTuple) (step : Int),
    (∀ t ∈ ts, npTupleOk ms md t = true) → npOrdered (a :: ts) = true →
    ∀ r ∈ npSpec nb step ts, step < r.s ∨ (step = r.s ∧ a.pitch ≤ r.pitch) := by
  intro ts
  induction ts with
  | nil => intro a step _ _ r hr; simp [npSpec] at hr
  | cons b ts ih =>
    intro a step h hord r hr
    have h1 := h b (List.mem_cons_self ..)
    simp only [npTupleOk, Bool.and_eq_true, decide_eq_true_eq] at h1
    simp only [npOrdered, Bool.and_eq_true, Bool.or_eq_true, bne_iff_ne, ne_eq, decide_eq_true_eq] at hord
    obtain ⟨hab, hrest⟩ := hord
    simp only [npSpec, List.mem_cons] at hr
    rcases hr with rfl | hr
    · simp only
      by_cases h0 : b.shift = 0
      · right; rcases hab with hab | hab
        · exact absurd h0 hab
        · exact ⟨by omega, hab⟩
      · left; omega
    · have := ih b (step + b.shift) (fun x hx => h x (List.mem_cons_of_mem _ hx)) hrest r hr
      by_cases h0 : b.shift = 0
      · rcases hab with hab | hab
        · exact absurd h0 hab
        · rcases this with h' | ⟨h', hp⟩
          · left; omega
          · right; exact ⟨by omega, by omega⟩
      · left; rcases this with h' | ⟨h', _⟩ <;> omega

theorem npSpec_sorted (nb ms md : Int) : ∀ (ts : List NPTuple) (step : Int),
    (∀ t ∈ ts, npTupleOk ms md t = true) → npOrdered ts = true →
    (npSpec nb step ts).Pairwise (fun a b => rnLe a b = true) := by
  intro ts
  induction ts with
  | nil => intro step _ _; simp [npSpec]
  | cons t ts ih =>
    intro step h hord
    simp only [npSpec, List.pairwise_cons]
    have hrest : npOrdered ts = true := by
      cases ts with
      | nil => rfl
      | cons b ts' => simp only [npOrdered, Bool.and_eq_true] at hord; exact hord.2
    refine ⟨?_, ih (step + t.shift) (fun x hx => h x (List.mem_cons_of_mem _ hx)) hrest⟩
    intro r hr
    have := npSpec_head_le nb ms md ts t (step + t.shift) (fun x hx => h x (List.mem_cons_of_mem _ hx)) hord r hr
    simp only [rnLe, Bool.or_eq_true, decide_eq_true_eq, Bool.and_eq_true, beq_iff_eq]
    rcases this with h' | ⟨h', hp⟩
    · left; exact h'
    · right; exact ⟨h', hp⟩

/-! ### extraction gives the tuples back -/

theorem notePerfLoop_roundtrip {R : Rat → Rat} (c : RenderCfg) (S nb ms md : Int) (hnb : 1 ≤ nb) :
    ∀ (ts : List NPTuple) (step : Int), (∀ t ∈ ts, npTupleOk ms md t = true) →
    notePerfLoop nb ms md (S + step) ((npSpec nb step ts).map (qnote R c S)) = .ok ts := by
  intro ts
  induction ts with
  | nil => intro step _; rfl
  | cons t ts ih =>
    intro step h
    have h1 := h t (List.mem_cons_self ..)
    simp only [npTupleOk, Bool.and_eq_true, decide_eq_true_eq] at h1
    obtain ⟨⟨⟨⟨⟨⟨⟨s0, s1⟩, p0⟩, p1⟩, b0⟩, b1⟩, d0⟩, d1⟩ := h1
    have ihh := ih (step + t.shift) (fun x hx => h x (List.mem_cons_of_mem _ hx))
    simp only [npSpec, List.map_cons, notePerfLoop]
    have e1 : (qnote R c S ⟨t.pitch, step + t.shift, step + t.shift + t.dur,
        C07.Gen.velocityBinToVelocity t.bin nb⟩).qs - (S + step) = t.shift := by
      simp only [qnote]; omega
    have e2 : (qnote R c S ⟨t.pitch, step + t.shift, step + t.shift + t.dur,
        C07.Gen.velocityBinToVelocity t.bin nb⟩).qe -
        (qnote R c S ⟨t.pitch, step + t.shift, step + t.shift + t.dur,
          C07.Gen.velocityBinToVelocity t.bin nb⟩).qs = t.dur := by
      simp only [qnote]; omega
    have e3 : (qnote R c S ⟨t.pitch, step + t.shift, step + t.shift + t.dur,
        C07.Gen.velocityBinToVelocity t.bin nb⟩).qs = S + (step + t.shift) := rfl
    have e4 : (qnote R c S ⟨t.pitch, step + t.shift, step + t.shift + t.dur,
        C07.Gen.velocityBinToVelocity t.bin nb⟩).pitch = t.pitch := rfl
    have e5 : (qnote R c S ⟨t.pitch, step + t.shift, step + t.shift + t.dur,
        C07.Gen.velocityBinToVelocity t.bin nb⟩).velocity = C07.Gen.velocityBinToVelocity t.bin nb := rfl
    rw [e1, e2, e4, e5, velocityToBin_binToVelocity nb t.bin hnb, e3, ihh]
    have v1 : (PEvent.timeShift t.shift).valid = true := by simp [PEvent.valid, s0]
    have v2 : (PEvent.noteOn t.pitch).valid = true := by
      simp [PEvent.valid, C07.Gen.MIN_MIDI_PITCH, C07.Gen.MAX_MIDI_PITCH, p0, p1]
    have v3 : (PEvent.velocity t.bin).valid = true := by
      simp [PEvent.valid, C07.Gen.MAX_NUM_VELOCITY_BINS, b0, b1]
    have v4 : (PEvent.duration t.dur).valid = true := by simp [PEvent.valid, d0]
    have n1 : ¬ t.shift > ms := by omega
    have n2 : ¬ nb = 0 := by omega
    have n3 : ¬ nb < 0 := by omega
    have n4 : ¬ t.dur > md := by omega
    simp only [n1, v1, v2, v3, v4, n2, n3, n4, ↓reduceIte, not_true_eq_false]

/-! ### what extraction itself produces is canonical -/

/-- every tuple the extractor's loop returns passed its checks (shift in `0..max`, duration in `1..max`, pitch and bin
through the event validator); a tuple with shift 0 belongs to a note on the same step as its predecessor -/
theorem notePerfLoop_canonical (nb ms md : Int) : ∀ (l : List Note) (cur : Int) (evs : List NPTuple),
    notePerfLoop nb ms md cur l = .ok evs →
    l.Pairwise (fun a b => a.qs = b.qs → a.pitch ≤ b.pitch) →
    (∀ t ∈ evs, npTupleOk ms md t = true) ∧ npOrdered evs = true ∧
    (∀ t ts, evs = t :: ts → ∃ n ns, l = n :: ns ∧ t.shift = n.qs - cur ∧ t.pitch = n.pitch) := by
  intro l
  induction l with
  | nil =>
    intro cur evs h _
    simp only [notePerfLoop, Except.ok.injEq] at h
    subst h
    exact ⟨by simp, rfl, fun t ts h => by simp at h⟩
  | cons n ns ih =>
    intro cur evs h hpw
    rw [List.pairwise_cons] at hpw
    unfold notePerfLoop at h
    simp only at h
    by_cases c1 : n.qs - cur > ms
    · simp [c1] at h
    by_cases c2 : (PEvent.timeShift (n.qs - cur)).valid = true
    swap
    · simp [c1, c2] at h
    by_cases c3 : (PEvent.noteOn n.pitch).valid = true
    swap
    · simp [c1, c2, c3] at h
    by_cases c4 : nb = 0
    · simp [c1, c2, c3, c4] at h
    by_cases c5 : nb < 0
    · simp [c1, c2, c3, c4, c5] at h
    by_cases c6 : (PEvent.velocity (C07.Gen.velocityToBin n.velocity nb)).valid = true
    swap
    · simp [c1, c2, c3, c4, c5, c6] at h
    by_cases c7 : n.qe - n.qs > md
    · simp [c1, c2, c3, c4, c5, c6, c7] at h
    by_cases c8 : (PEvent.duration (n.qe - n.qs)).valid = true
    swap
    · simp [c1, c2, c3, c4, c5, c6, c7, c8] at h
    simp only [c1, c2, c3, c4, c5, c6, c7, c8, ↓reduceIte, not_true_eq_false] at h
    cases hr : notePerfLoop nb ms md n.qs ns with
    | error x => rw [hr] at h; simp at h
    | ok r =>
      rw [hr] at h
      simp only [Except.ok.injEq] at h
      subst h
      obtain ⟨i1, i2, i3⟩ := ih n.qs r hr hpw.2
      have hok : npTupleOk ms md ⟨n.qs - cur, n.pitch, C07.Gen.velocityToBin n.velocity nb, n.qe - n.qs⟩ = true := by
        simp [PEvent.valid, C07.Gen.MIN_MIDI_PITCH, C07.Gen.MAX_MIDI_PITCH, C07.Gen.MAX_NUM_VELOCITY_BINS] at c2 c3 c6 c8
        simp only [npTupleOk, Bool.and_eq_true, decide_eq_true_eq]
        refine ⟨⟨⟨⟨⟨⟨⟨by omega, by omega⟩, of_decide_eq_true c3.1⟩, of_decide_eq_true c3.2⟩, c6.1⟩, of_decide_eq_true c6.2⟩, c8⟩,
          by omega⟩
      refine ⟨?_, ?_, ?_⟩
      · intro t ht
        rcases List.mem_cons.mp ht with rfl | ht
        · exact hok
        · exact i1 t ht
      · cases r with
        | nil => rfl
        | cons t' ts =>
          obtain ⟨n', ns', hns, hsh, hp⟩ := i3 t' ts rfl
          simp only [npOrdered, Bool.and_eq_true, Bool.or_eq_true, bne_iff_ne, ne_eq, decide_eq_true_eq]
          refine ⟨?_, i2⟩
          by_cases h0 : t'.shift = 0
          · right
            rw [hp]
            exact hpw.1 n' (by rw [hns]; exact List.mem_cons_self ..) (by omega)
          · left; exact h0
      · intro t ts ht
        simp only [List.cons.injEq] at ht
        exact ⟨n, ns, rfl, by rw [← ht.1], by rw [← ht.1]⟩

end NSV.C06P
