import NoteSeqVerif.Model.C08
/-! C08 — specification vocabulary and helper lemmas (core Lean only). -/
namespace NSV.C08

/-! ### Python list primitives -/

theorem pyIdx_of_norm {α : Type} (l : List α) (i : Int) (q : Nat) (hq : normIdx l.length i = q) (h : q < l.length) :
    pyIdx l i = .ok l[q] := by
  unfold pyIdx
  rw [hq]
  simp [List.getElem?_eq_getElem h]

theorem pyIdx_nat {α : Type} (l : List α) (p : Nat) (h : p < l.length) : pyIdx l (p : Int) = .ok l[p] :=
  pyIdx_of_norm l p p (by unfold normIdx; omega) h

/-- `events[-d]` for `1 ≤ d ≤ len` is the element `len - d` -/
theorem pyIdx_neg {α : Type} (l : List α) (d : Int) (q : Nat) (h1 : 1 ≤ d) (hq : (q : Int) = l.length - d)
    (h : q < l.length) : pyIdx l (-d) = .ok l[q] :=
  pyIdx_of_norm l (-d) q (by unfold normIdx; omega) h

theorem pySet_nat {α : Type} (l : List α) (i : Nat) (v : α) (h : i < l.length) :
    pySet l (i : Int) v = .ok (l.set i v) := by
  have hn : normIdx l.length (i : Int) = i := by unfold normIdx; omega
  unfold pySet
  rw [hn]
  have h2 : (0 : Int) ≤ i ∧ (i : Int) < l.length := by omega
  simp [h2]

theorem pySet_length {α : Type} {l l' : List α} {i : Int} {v : α} (h : pySet l i v = .ok l') :
    l'.length = l.length := by
  unfold pySet at h
  split at h
  · injection h with h; subst h; simp
  · cases h

theorem pySliceTo_nat {α : Type} (l : List α) (p : Nat) : pySliceTo l (p : Int) = l.take p := by
  unfold pySliceTo normIdx
  have : ¬ ((p : Int) < 0) := by omega
  simp [this]

/-! ### `reversed(list(enumerate(dists)))` -/

theorem zipIdx_pairwise_lt {α : Type} (l : List α) (k : Nat) : (l.zipIdx k).Pairwise (fun a b => a.2 < b.2) := by
  induction l generalizing k with
  | nil => simp
  | cons a l ih =>
    rw [List.zipIdx_cons, List.pairwise_cons]
    refine ⟨?_, ih (k + 1)⟩
    intro x hx
    obtain ⟨x1, x2⟩ := x
    have := List.mem_zipIdx hx
    simp; omega

theorem revIdx_pairwise_gt {α : Type} (l : List α) : (l.zipIdx.reverse).Pairwise (fun a b => a.2 > b.2) := by
  rw [List.pairwise_reverse]
  exact zipIdx_pairwise_lt l 0

theorem mem_revIdx {α : Type} (l : List α) (x : α × Nat) : x ∈ l.zipIdx.reverse ↔ l[x.2]? = some x.1 := by
  rw [List.mem_reverse, List.mem_zipIdx_iff_getElem?]

/-! ### specification vocabulary -/

/-- legal lookback distance lists: any length, any order, duplicates allowed, every distance ≥ 1 -/
def LegalDists (ds : List Int) : Prop := ∀ d ∈ ds, 1 ≤ d

/-- valid pianoroll events: strictly increasing tuples of pitches below `input_size` -/
def PrEvent (n : Nat) (ev : List Nat) : Prop := ev.Pairwise (· < ·) ∧ ∀ p ∈ ev, p < n

section
variable {ε : Type} [DecidableEq ε]

/-- a valid event of a one-hot encoding: it encodes into `[0, numClasses)` and decodes back to itself
(for the concrete encodings this is what C09 proves) -/
def ValidEv (oh : OneHot ε) (e : ε) : Prop :=
  ∃ i, oh.encode e = .ok i ∧ 0 ≤ i ∧ i < oh.numClasses ∧ oh.decode i = .ok e

/-- every class index decodes to a valid event -/
def DecodeTotal (oh : OneHot ε) : Prop :=
  ∀ i, 0 ≤ i → i < oh.numClasses → ∃ e, oh.decode i = .ok e ∧ ValidEv oh e

/-- lookback distance `d` really matches at position `p`: `p - d ≥ 0` and the two events are equal -/
def rep (evs : List ε) (p : Nat) (d : Int) : Bool :=
  decide (d ≤ (p : Int) ∧ evs[p]? = evs[((p : Int) - d).toNat]?)

/-- lookback index `i` matches at position `p`: its distance really matches, or it is the last distance,
the position is closer to the start than that distance and the event is the default event (the
"virtual all-default prehistory") -/
def Matches (dflt : ε) (ds : List Int) (evs : List ε) (p i : Nat) : Prop :=
  ∃ d, ds[i]? = some d ∧
    (rep evs p d = true ∨ (i + 1 = ds.length ∧ (p : Int) < d ∧ evs[p]? = some dflt))

/-- a one-hot vector of length `n` with the `1` at `i` -/
def oneHotVec (n i : Nat) : List Int := (List.replicate n 0).set i 1

/-! ### the label and decode loops -/

theorem repeats_eq (evs : List ε) (p : Nat) (hp : p < evs.length) (d : Int) (hd : 1 ≤ d) :
    repeats evs p d = .ok (rep evs p d) := by
  unfold repeats rep
  by_cases h : (p : Int) - d ≥ 0
  · have hq : ((p : Int) - d).toNat < evs.length := by omega
    have e2 := pyIdx_of_norm evs ((p : Int) - d) ((p : Int) - d).toNat (by unfold normIdx; omega) hq
    have hle : d ≤ (p : Int) := by omega
    simp [pyIdx_nat evs p hp, e2, bind, Except.bind, pure, Except.pure, hle,
      List.getElem?_eq_getElem hp, List.getElem?_eq_getElem hq]
  · have hle : ¬ d ≤ (p : Int) := by omega
    simp [hle, pure, Except.pure]

/-- the loop returns the first matching entry; with indices decreasing that is the greatest matching index -/
theorem labelLoop_hit (base : Int) (plain : Except String Int) (evs : List ε) (p : Nat) (hp : p < evs.length)
    (L : List (Int × Nat)) (hL : ∀ x ∈ L, 1 ≤ x.1) (d : Int) (i : Nat)
    (hm : (d, i) ∈ L) (hr : rep evs p d = true)
    (hgt : ∀ x ∈ L, rep evs p x.1 = true → x.2 ≤ i)
    (hdec : L.Pairwise (fun a b => a.2 > b.2)) :
    labelLoop base plain evs p L = .ok (base + i) := by
  induction L with
  | nil => cases hm
  | cons x rest ih =>
    obtain ⟨d', i'⟩ := x
    unfold labelLoop
    rw [repeats_eq evs p hp d' (hL (d', i') (by simp))]
    by_cases hx : rep evs p d' = true
    · have h1 : i' ≤ i := hgt (d', i') (by simp) hx
      have h2 : i ≤ i' := by
        rcases List.mem_cons.mp hm with h | h
        · injection h with _ h; omega
        · have := (List.pairwise_cons.mp hdec).1 (d, i) h
          simp at this; omega
      have : i' = i := by omega
      subst this
      simp [hx, bind, Except.bind, pure, Except.pure]
    · have hm' : (d, i) ∈ rest := by
        rcases List.mem_cons.mp hm with h | h
        · injection h with h1 h2; subst h1; exact absurd hr hx
        · exact h
      simp only [Bool.not_eq_true] at hx
      simp [hx, bind, Except.bind]
      exact ih (fun x hx => hL x (by simp [hx])) hm'
        (fun x hx => hgt x (by simp [hx])) (List.pairwise_cons.mp hdec).2

theorem labelLoop_miss (base : Int) (plain : Except String Int) (evs : List ε) (p : Nat) (hp : p < evs.length)
    (L : List (Int × Nat)) (hL : ∀ x ∈ L, 1 ≤ x.1) (hno : ∀ x ∈ L, rep evs p x.1 = false) :
    labelLoop base plain evs p L = plain := by
  induction L with
  | nil => rfl
  | cons x rest ih =>
    obtain ⟨d', i'⟩ := x
    unfold labelLoop
    rw [repeats_eq evs p hp d' (hL (d', i') (by simp))]
    have := hno (d', i') (by simp)
    simp at this
    simp [this, bind, Except.bind]
    exact ih (fun x hx => hL x (by simp [hx])) (fun x hx => hno x (by simp [hx]))

/-- without the maximality bookkeeping: the loop yields the plain label or the label of a matching entry -/
theorem labelLoop_cases (base : Int) (plain : Except String Int) (evs : List ε) (p : Nat) (hp : p < evs.length)
    (L : List (Int × Nat)) (hL : ∀ x ∈ L, 1 ≤ x.1) :
    labelLoop base plain evs p L = plain ∨
    ∃ x ∈ L, rep evs p x.1 = true ∧ labelLoop base plain evs p L = .ok (base + x.2) := by
  induction L with
  | nil => exact .inl rfl
  | cons x rest ih =>
    obtain ⟨d', i'⟩ := x
    unfold labelLoop
    rw [repeats_eq evs p hp d' (hL (d', i') (by simp))]
    by_cases hx : rep evs p d' = true
    · exact .inr ⟨(d', i'), by simp, hx, by simp [hx, bind, Except.bind, pure, Except.pure]⟩
    · simp only [Bool.not_eq_true] at hx
      simp only [hx, bind, Except.bind]
      rcases ih (fun x hx => hL x (by simp [hx])) with h | ⟨x, hx1, hx2, hx3⟩
      · exact .inl (by simpa using h)
      · exact .inr ⟨x, by simp [hx1], hx2, by simpa using hx3⟩

omit [DecidableEq ε] in
theorem citeLoop_hit (base : Int) (dflt : ε) (plain : Except String ε) (ci : Int) (evs : List ε)
    (L : List (Int × Nat)) (d : Int) (i : Nat) (hm : (d, i) ∈ L) (hci : ci = base + i)
    (hnd : L.Pairwise (fun a b => a.2 > b.2)) :
    citeLoop base dflt plain ci evs L = (if (evs.length : Int) < d then .ok dflt else pyIdx evs (-d)) := by
  induction L with
  | nil => cases hm
  | cons x rest ih =>
    obtain ⟨d', i'⟩ := x
    unfold citeLoop
    rcases List.mem_cons.mp hm with h | h
    · injection h with h1 h2; subst h1; subst h2
      simp [hci]
    · have := (List.pairwise_cons.mp hnd).1 (d, i) h
      simp at this
      have hne : ¬ ci = base + (i' : Int) := by omega
      simp only [hne, if_false]
      exact ih h (List.pairwise_cons.mp hnd).2

omit [DecidableEq ε] in
theorem citeLoop_miss (base : Int) (dflt : ε) (plain : Except String ε) (ci : Int) (evs : List ε)
    (L : List (Int × Nat)) (h : ∀ x ∈ L, ci ≠ base + (x.2 : Int)) :
    citeLoop base dflt plain ci evs L = plain := by
  induction L with
  | nil => rfl
  | cons x rest ih =>
    obtain ⟨d', i'⟩ := x
    unfold citeLoop
    have := h (d', i') (by simp)
    simp only [this, if_false]
    exact ih (fun x hx => h x (by simp [hx]))

/-- the leading test of `events_to_label` at a valid position -/
theorem virtualRepeat_eq (dflt : ε) (ds : List Int) (evs : List ε) (p : Nat) (hp : p < evs.length) :
    virtualRepeat dflt ds evs p = .ok (match ds.getLast? with
      | none => false
      | some dl => decide ((p : Int) < dl ∧ evs[p] = dflt)) := by
  unfold virtualRepeat
  cases ds.getLast? with
  | none => rfl
  | some dl =>
    by_cases h : (p : Int) < dl
    · simp [h, pyIdx_nat evs p hp, bind, Except.bind, pure, Except.pure]
    · simp [h, pure, Except.pure]

end

/-! ### the shared shape of the lookback / key-melody label -/
section
variable {ε : Type} [DecidableEq ε]

/-- the common shape of `events_to_label` of the lookback and key-melody encoders -/
def seqLabel (base virtLabel : Int) (plain : Except String Int) (dflt : ε) (ds : List Int) (evs : List ε)
    (pos : Int) : Except String Int := do
  let virt ← virtualRepeat dflt ds evs pos
  if virt then pure virtLabel else labelLoop base plain evs pos ds.zipIdx.reverse

theorem lbEventsToLabel_eq (oh : OneHot ε) (c : LookbackCfg) (evs : List ε) (pos : Int) :
    lbEventsToLabel oh c evs pos =
      seqLabel oh.numClasses (oh.numClasses + c.dists.length - 1) (ohEventsToLabel oh evs pos) oh.default
        c.dists evs pos := rfl

theorem keyEventsToLabel_eq (c : KeyCfg) (evs : List Int) (pos : Int) :
    keyEventsToLabel c evs pos =
      seqLabel (c.noteRange + 2) (c.noteRange + c.dists.length + 1) (keyPlainLabel c evs pos) Gen.MELODY_NO_EVENT
        c.dists evs pos := rfl

theorem getLast?_some_idx (ds : List Int) (dl : Int) (h : ds.getLast? = some dl) :
    ∃ n, ds.length = n + 1 ∧ ds[n]? = some dl := by
  rw [List.getLast?_eq_getElem?] at h
  cases hds : ds with
  | nil => subst hds; simp at h
  | cons a t =>
    subst hds
    exact ⟨t.length, by simp, by simpa using h⟩

theorem revIdx_dists_pos (ds : List Int) (hd : ∀ d ∈ ds, 1 ≤ d) : ∀ x ∈ ds.zipIdx.reverse, 1 ≤ x.1 := by
  intro x hx
  rw [mem_revIdx] at hx
  exact hd _ (List.mem_of_getElem? hx)

/-- precedence, index form (generic) -/
theorem seqLabel_precedence (base virtLabel : Int) (plain : Except String Int) (dflt : ε) (ds : List Int)
    (evs : List ε) (p : Nat) (hp : p < evs.length) (hd : ∀ d ∈ ds, 1 ≤ d)
    (hvl : virtLabel = base + ds.length - 1) :
    (∀ i, Matches dflt ds evs p i → (∀ j, i < j → ¬ Matches dflt ds evs p j) →
        seqLabel base virtLabel plain dflt ds evs p = .ok (base + i)) ∧
    ((∀ i, ¬ Matches dflt ds evs p i) → seqLabel base virtLabel plain dflt ds evs p = plain) := by
  have hL := revIdx_dists_pos ds hd
  constructor
  · intro i hm hmax
    unfold seqLabel
    rw [virtualRepeat_eq dflt ds evs p hp]
    obtain ⟨d, hdi, hcase⟩ := hm
    cases hgl : ds.getLast? with
    | none =>
      simp only [bind, Except.bind]
      have hr : rep evs p d = true := by
        rcases hcase with h | ⟨h1, _, _⟩
        · exact h
        · rw [List.getLast?_eq_getElem?] at hgl
          have : ds.length - 1 = i := by omega
          rw [this, hdi] at hgl; cases hgl
      simp
      exact labelLoop_hit _ _ evs p hp _ hL d i ((mem_revIdx _ (d, i)).mpr hdi) hr
        (fun x hx hrx => by
          rw [mem_revIdx] at hx
          have : ¬ i < x.2 := fun hlt => hmax x.2 hlt ⟨x.1, hx, .inl hrx⟩
          omega) (revIdx_pairwise_gt _)
    | some dl =>
      obtain ⟨n, hn1, hn2⟩ := getLast?_some_idx _ _ hgl
      simp only [bind, Except.bind]
      by_cases hv : (p : Int) < dl ∧ evs[p] = dflt
      · have hmn : Matches dflt ds evs p n :=
          ⟨dl, hn2, .inr ⟨by omega, hv.1, by rw [List.getElem?_eq_getElem hp, hv.2]⟩⟩
        have hin : ¬ i < n := fun hlt => hmax n hlt hmn
        have hil : i < ds.length := by
          rcases Nat.lt_or_ge i ds.length with h | h
          · exact h
          · rw [List.getElem?_eq_none h] at hdi; cases hdi
        have : i = n := by omega
        subst this
        simp [hv, pure, Except.pure, hn1, hvl]
        omega
      · have hr : rep evs p d = true := by
          rcases hcase with h | ⟨h1, h2, h3⟩
          · exact h
          · exfalso
            have : i = n := by omega
            subst this
            rw [hn2] at hdi; injection hdi with hdi; subst hdi
            rw [List.getElem?_eq_getElem hp] at h3; injection h3 with h3
            exact hv ⟨h2, h3⟩
        simp [hv]
        exact labelLoop_hit _ _ evs p hp _ hL d i ((mem_revIdx _ (d, i)).mpr hdi) hr
          (fun x hx hrx => by
            rw [mem_revIdx] at hx
            have : ¬ i < x.2 := fun hlt => hmax x.2 hlt ⟨x.1, hx, .inl hrx⟩
            omega) (revIdx_pairwise_gt _)
  · intro hno
    unfold seqLabel
    rw [virtualRepeat_eq dflt ds evs p hp]
    have hmiss : labelLoop base plain evs p ds.zipIdx.reverse = plain := by
      rw [labelLoop_miss _ _ evs p hp _ hL]
      intro x hx
      rw [mem_revIdx] at hx
      cases hr : rep evs p x.1 with
      | false => rfl
      | true => exact absurd ⟨x.1, hx, .inl hr⟩ (hno x.2)
    cases hgl : ds.getLast? with
    | none => simp [bind, Except.bind, hmiss]
    | some dl =>
      obtain ⟨n, hn1, hn2⟩ := getLast?_some_idx _ _ hgl
      have hv : ¬ ((p : Int) < dl ∧ evs[p] = dflt) := fun hv =>
        hno n ⟨dl, hn2, .inr ⟨by omega, hv.1, by rw [List.getElem?_eq_getElem hp, hv.2]⟩⟩
      simp [bind, Except.bind, hv, hmiss]

/-- the label is in range and decodes (against the prefix) to the event, given that the plain label does -/
theorem seqLabel_decode (base virtLabel : Int) (plain : Except String Int) (dflt : ε) (ds : List Int)
    (evs : List ε) (p : Nat) (hp : p < evs.length) (hd : ∀ d ∈ ds, 1 ≤ d)
    (hvl : virtLabel = base + ds.length - 1) (plainCite : Int → Except String ε)
    (l0 : Int) (hpl : plain = .ok l0) (h0 : 0 ≤ l0) (h1 : l0 < base) (hcite : plainCite l0 = .ok evs[p]) :
    ∃ l, seqLabel base virtLabel plain dflt ds evs p = .ok l ∧ 0 ≤ l ∧ l < base + ds.length ∧
      citeLoop base dflt (plainCite l) l (evs.take p) ds.zipIdx.reverse = .ok evs[p] := by
  have hL := revIdx_dists_pos ds hd
  have hlen : (evs.take p).length = p := by rw [List.length_take]; omega
  -- a real match at entry (d, i)
  have real : ∀ (d : Int) (i : Nat), ds[i]? = some d → rep evs p d = true →
      citeLoop base dflt (plainCite (base + i)) (base + i) (evs.take p) ds.zipIdx.reverse = .ok evs[p] := by
    intro d i hdi hr
    rw [citeLoop_hit base dflt _ (base + i) (evs.take p) _ d i ((mem_revIdx _ (d, i)).mpr hdi) rfl
      (revIdx_pairwise_gt _)]
    unfold rep at hr
    simp only [decide_eq_true_eq] at hr
    obtain ⟨hle, heq⟩ := hr
    have hd1 := hd d (List.mem_of_getElem? hdi)
    have hq : ((p : Int) - d).toNat < (evs.take p).length := by omega
    rw [hlen, if_neg (by omega), pyIdx_neg (evs.take p) d ((p : Int) - d).toNat hd1 (by omega) hq]
    rw [List.getElem_take]
    have hq' : ((p : Int) - d).toNat < evs.length := by omega
    rw [List.getElem?_eq_getElem hp, List.getElem?_eq_getElem hq'] at heq
    injection heq with heq
    rw [heq]
  have hil : ∀ (d : Int) (i : Nat), ds[i]? = some d → i < ds.length := by
    intro d i hdi
    rcases Nat.lt_or_ge i ds.length with h | h
    · exact h
    · rw [List.getElem?_eq_none h] at hdi; cases hdi
  unfold seqLabel
  rw [virtualRepeat_eq dflt ds evs p hp]
  have loopcase : ∃ l, labelLoop base plain evs p ds.zipIdx.reverse = .ok l ∧ 0 ≤ l ∧ l < base + ds.length ∧
      citeLoop base dflt (plainCite l) l (evs.take p) ds.zipIdx.reverse = .ok evs[p] := by
    rcases labelLoop_cases base plain evs p hp _ hL with h | ⟨x, hx1, hx2, hx3⟩
    · refine ⟨l0, by rw [h, hpl], h0, by omega, ?_⟩
      rw [citeLoop_miss, hcite]
      intro x _; omega
    · rw [mem_revIdx] at hx1
      have := hil _ _ hx1
      exact ⟨base + x.2, hx3, by omega, by omega, real x.1 x.2 hx1 hx2⟩
  cases hgl : ds.getLast? with
  | none => simpa [bind, Except.bind] using loopcase
  | some dl =>
    obtain ⟨n, hn1, hn2⟩ := getLast?_some_idx _ _ hgl
    by_cases hv : (p : Int) < dl ∧ evs[p] = dflt
    · refine ⟨base + n, by simp [bind, Except.bind, hv, pure, Except.pure, hvl, hn1]; omega, by omega, by omega, ?_⟩
      rw [citeLoop_hit base dflt _ (base + n) (evs.take p) _ dl n ((mem_revIdx _ (dl, n)).mpr hn2) rfl
        (revIdx_pairwise_gt _), hlen, if_pos hv.1, hv.2]
    · simpa [bind, Except.bind, hv] using loopcase
end

/-! ### mapE, one-hot vectors -/

/-! ### `mapE` / `encode` -/
theorem mapE_ok {α β : Type} (f : α → Except String β) (l : List α) (bs : List β) (h : mapE f l = .ok bs) :
    bs.length = l.length ∧ ∀ i (hi : i < l.length) (hb : i < bs.length), f l[i] = .ok bs[i] := by
  induction l generalizing bs with
  | nil =>
    unfold mapE at h; injection h with h; subst h
    exact ⟨rfl, fun i hi => absurd hi (Nat.not_lt_zero _)⟩
  | cons a as ih =>
    unfold mapE at h
    cases hfa : f a with
    | error e => rw [hfa] at h; cases h
    | ok b =>
      rw [hfa] at h
      cases hr : mapE f as with
      | error e => rw [hr] at h; cases h
      | ok bs' =>
        rw [hr] at h
        injection h with h; subst h
        obtain ⟨h1, h2⟩ := ih bs' hr
        refine ⟨by simp [h1], ?_⟩
        intro i hi hb
        cases i with
        | zero => simpa using hfa
        | succ k => simpa using h2 k (by simpa using hi) (by simpa using hb)

theorem mapE_total {α β : Type} (f : α → Except String β) (l : List α) (h : ∀ a ∈ l, ∃ b, f a = .ok b) :
    ∃ bs, mapE f l = .ok bs := by
  induction l with
  | nil => exact ⟨[], rfl⟩
  | cons a as ih =>
    obtain ⟨b, hb⟩ := h a (by simp)
    obtain ⟨bs, hbs⟩ := ih (fun x hx => h x (by simp [hx]))
    exact ⟨b :: bs, by unfold mapE; rw [hb, hbs]⟩

/-! ### one-hot vectors -/
theorem oneHotVec_length (n i : Nat) : (oneHotVec n i).length = n := by simp [oneHotVec]

/-- exactly one `1`: entry `k` is `1` iff `k = i`, every other entry is `0` -/
theorem oneHotVec_get (n i k : Nat) (hi : i < n) (hk : k < n) :
    (oneHotVec n i)[k]? = some (if k = i then 1 else 0) := by
  unfold oneHotVec
  rw [List.getElem?_set]
  by_cases h : i = k
  · subst h; simp [hk]
  · have : ¬ k = i := fun e => h e.symm
    simp [h, this, hk]

theorem oneHotVec_count (n i : Nat) (hi : i < n) : (oneHotVec n i).count 1 = 1 ∧ (oneHotVec n i).count 0 = n - 1 := by
  unfold oneHotVec
  induction n generalizing i with
  | zero => omega
  | succ m ih =>
    cases i with
    | zero => simp [List.replicate_succ, List.count_replicate]
    | succ j =>
      have := ih j (by omega)
      simp [List.replicate_succ, this]
      omega


/-! ### layout of the lookback input vector -/

theorem pySet_at (done rest : List Int) (off : Int) (hoff : off = done.length) (k : Nat) (v : Int)
    (hk : k < rest.length) :
    pySet (done ++ rest) (off + k) v = .ok (done ++ rest.set k v) := by
  have e : off + (k : Int) = ((done.length + k : Nat) : Int) := by omega
  rw [e, pySet_nat _ _ _ (by simp; omega), List.set_append_right _ _ (by omega)]
  simp

theorem zeros_split (m n : Nat) (hn : n ≤ m) :
    List.replicate m (0 : Int) = List.replicate n 0 ++ List.replicate (m - n) 0 := by
  rw [List.replicate_append_replicate]; congr 1; omega

/-- writing a one-hot index into the first `n` untouched zeros after `done` -/
theorem pySet_block (done : List Int) (off : Int) (hoff : off = done.length) (m n i : Nat) (hi : i < n) (hn : n ≤ m) :
    pySet (done ++ List.replicate m 0) (off + i) 1 =
      .ok (done ++ oneHotVec n i ++ List.replicate (m - n) 0) := by
  rw [pySet_at done _ off hoff i 1 (by simp; omega), zeros_split m n hn,
    List.set_append_left _ _ (by simp; omega)]
  simp [oneHotVec, List.append_assoc]

/-- writing one value into the first untouched zero after `done` -/
theorem pySet_cell (done : List Int) (off : Int) (hoff : off = done.length) (m : Nat) (hm : 0 < m) (v : Int) :
    pySet (done ++ List.replicate m 0) off v = .ok (done ++ [v] ++ List.replicate (m - 1) 0) := by
  have := pySet_at done (List.replicate m 0) off hoff 0 v (by simp; omega)
  simp only [Int.natCast_zero, Int.add_zero] at this
  rw [this]
  obtain ⟨k, rfl⟩ : ∃ k, m = k + 1 := ⟨m - 1, by omega⟩
  simp [List.replicate_succ]

theorem keep_cell (done : List Int) (m : Nat) (hm : 0 < m) :
    done ++ List.replicate m (0 : Int) = done ++ [0] ++ List.replicate (m - 1) 0 := by
  obtain ⟨k, rfl⟩ : ∃ k, m = k + 1 := ⟨m - 1, by omega⟩
  simp [List.replicate_succ]

section
variable {ε : Type} [DecidableEq ε]

/-- the event the lookback block of distance `d` encodes at position `p`: the event one step after the
lookback position, or the default event when that lies before the start -/
def NextEv (dflt : ε) (evs : List ε) (p : Nat) (d : Int) (e : ε) : Prop :=
  ((p : Int) - d + 1 < 0 ∧ e = dflt) ∨ (0 ≤ (p : Int) - d + 1 ∧ evs[((p : Int) - d + 1).toNat]? = some e)

omit [DecidableEq ε] in
theorem lbNextLoop_spec (oh : OneHot ε) (evs : List ε) (p : Nat) (n : Nat) (hn : oh.numClasses = n)
    (f : Int → Nat) (ds : List Int)
    (hf : ∀ d ∈ ds, f d < n ∧ ∃ e, NextEv oh.default evs p d e ∧ oh.encode e = .ok (f d))
    (done : List Int) (m : Nat) (off : Int) (hoff : off = done.length) (hm : ds.length * n ≤ m) :
    lbNextLoop oh evs p ds (done ++ List.replicate m 0, off) =
      .ok (done ++ (ds.map (fun d => oneHotVec n (f d))).flatten ++ List.replicate (m - ds.length * n) 0,
           off + (ds.length * n : Nat)) := by
  induction ds generalizing done m off with
  | nil => simp [lbNextLoop]
  | cons d rest ih =>
    obtain ⟨hfd, e, hne, henc⟩ := hf d (by simp)
    have hlen : (d :: rest).length * n = rest.length * n + n := by simp [Nat.succ_mul]
    have hev : nextEvent oh evs p d = .ok e := by
      unfold nextEvent
      rcases hne with ⟨h1, h2⟩ | ⟨h1, h2⟩
      · simp [h1, h2]
      · have hnl : ¬ ((p : Int) - d + 1 < 0) := by omega
        obtain ⟨hq, hq2⟩ := List.getElem?_eq_some_iff.mp h2
        rw [if_neg hnl, pyIdx_of_norm evs _ ((p : Int) - d + 1).toNat (by unfold normIdx; omega) hq, hq2]
    unfold lbNextLoop
    simp only [hev, bind, Except.bind, henc]
    rw [pySet_block done off hoff m n (f d) hfd (by omega)]
    simp only []
    have := ih (fun d' hd' => hf d' (by simp [hd'])) (done ++ oneHotVec n (f d)) (m - n) (off + oh.numClasses)
      (by simp [oneHotVec, hn]; omega) (by omega)
    rw [this]
    simp only [List.map_cons, List.flatten_cons, List.append_assoc, hlen]
    have e1 : m - n - rest.length * n = m - (rest.length * n + n) := by omega
    have e2 : off + oh.numClasses + ((rest.length * n : Nat) : Int) = off + ((rest.length * n + n : Nat) : Int) := by
      rw [hn]; push_cast; omega
    rw [e1, e2]

theorem counterLoop_spec (nn : Int) (is : List Nat) (done : List Int) (m : Nat) (off : Int)
    (hoff : off = done.length) (hm : is.length ≤ m) :
    counterLoop nn is (done ++ List.replicate m 0, off) =
      .ok (done ++ is.map (counterBit nn) ++ List.replicate (m - is.length) 0, off + (is.length : Nat)) := by
  induction is generalizing done m off with
  | nil => simp [counterLoop]
  | cons i rest ih =>
    unfold counterLoop
    simp only [List.length_cons] at hm
    rw [pySet_cell done off hoff m (by omega)]
    simp only [bind, Except.bind]
    rw [ih (done ++ [counterBit nn i]) (m - 1) (off + 1) (by simp; omega) (by omega)]
    simp only [List.map_cons, List.append_assoc, List.singleton_append, List.length_cons]
    have e1 : m - 1 - rest.length = m - (rest.length + 1) := by omega
    have e2 : off + 1 + ((rest.length : Nat) : Int) = off + ((rest.length + 1 : Nat) : Int) := by omega
    rw [e1, e2]

/-- the repeat flag of distance `d` -/
def repFlag (evs : List ε) (p : Nat) (d : Int) : Int := if rep evs p d then 1 else 0

theorem repeatLoop_spec (evs : List ε) (p : Nat) (hp : p < evs.length) (ds : List Int) (hd : ∀ d ∈ ds, 1 ≤ d)
    (done : List Int) (m : Nat) (off : Int) (hoff : off = done.length) (hm : ds.length ≤ m) :
    repeatLoop evs p ds (done ++ List.replicate m 0, off) =
      .ok (done ++ ds.map (repFlag evs p) ++ List.replicate (m - ds.length) 0, off + (ds.length : Nat)) := by
  induction ds generalizing done m off with
  | nil => simp [repeatLoop]
  | cons d rest ih =>
    unfold repeatLoop
    simp only [List.length_cons] at hm
    rw [repeats_eq evs p hp d (hd d (by simp))]
    have hstep : setIf (rep evs p d) (done ++ List.replicate m 0) off 1
        = .ok (done ++ [repFlag evs p d] ++ List.replicate (m - 1) 0) := by
      unfold repFlag setIf
      by_cases h : rep evs p d = true
      · simp only [h, if_true]; exact pySet_cell done off hoff m (by omega) 1
      · simp only [h]; rw [keep_cell done m (by omega)]; rfl
    simp only [bind, Except.bind, hstep]
    rw [ih (fun d' hd' => hd d' (by simp [hd'])) (done ++ [repFlag evs p d]) (m - 1) (off + 1) (by simp; omega) (by omega)]
    simp only [List.map_cons, List.append_assoc, List.singleton_append, List.length_cons]
    have e1 : m - 1 - rest.length = m - (rest.length + 1) := by omega
    have e2 : off + 1 + ((rest.length : Nat) : Int) = off + ((rest.length + 1 : Nat) : Int) := by omega
    rw [e1, e2]

omit [DecidableEq ε] in
theorem flatten_oneHot_length (n : Nat) (f : Int → Nat) (ds : List Int) :
    ((ds.map (fun d => oneHotVec n (f d))).flatten).length = ds.length * n := by
  induction ds with
  | nil => simp
  | cons d rest ih =>
    rw [List.map_cons, List.flatten_cons, List.length_append, ih, oneHotVec_length, List.length_cons, Nat.succ_mul]; omega

/-- the exact layout of the lookback input vector -/
theorem lbEventsToInput_layout (oh : OneHot ε) (c : LookbackCfg) (evs : List ε) (p : Nat) (hp : p < evs.length)
    (hd : ∀ d ∈ c.dists, 1 ≤ d) (hb : 0 ≤ c.bits) (n i0 : Nat) (hn : oh.numClasses = n)
    (h0 : oh.encode evs[p] = .ok i0) (hi0 : i0 < n) (f : Int → Nat)
    (hf : ∀ d ∈ c.dists, f d < n ∧ ∃ e, NextEv oh.default evs p d e ∧ oh.encode e = .ok (f d)) :
    lbEventsToInput oh c evs p = .ok
      (oneHotVec n i0 ++ (c.dists.map (fun d => oneHotVec n (f d))).flatten ++
        (List.range c.bits.toNat).map (counterBit ((p : Int) + 1)) ++ c.dists.map (repFlag evs p)) := by
  unfold lbEventsToInput
  have hsz : lbInputSize oh c = ((n + c.dists.length * n + c.bits.toNat + c.dists.length : Nat) : Int) := by
    unfold lbInputSize; rw [hn]; push_cast; omega
  simp only [pyIdx_nat evs p hp, bind, Except.bind, h0]
  rw [hsz]
  unfold zeros
  rw [Int.toNat_natCast]
  have s1 := pySet_block [] 0 rfl (n + c.dists.length * n + c.bits.toNat + c.dists.length) n i0 hi0 (by omega)
  simp only [List.nil_append, Int.zero_add] at s1
  rw [s1]
  simp only []
  rw [lbNextLoop_spec oh evs p n hn f c.dists hf (oneHotVec n i0) _ oh.numClasses (by simp [oneHotVec, hn]) (by omega)]
  simp only []
  rw [counterLoop_spec _ _ _ _ _ (by rw [List.length_append, flatten_oneHot_length, oneHotVec_length, hn]; push_cast; omega) (by simp; omega)]
  simp only []
  rw [repeatLoop_spec evs p hp c.dists hd _ _ _ (by rw [List.length_append, List.length_append, flatten_oneHot_length, oneHotVec_length, hn]; simp) (by simp; omega)]
  simp only [List.length_range]
  have e1 : n + c.dists.length * n + c.bits.toNat + c.dists.length - n - c.dists.length * n - c.bits.toNat - c.dists.length = 0 := by omega
  have e2 : oh.numClasses + ((c.dists.length * n : Nat) : Int) + ((c.bits.toNat : Nat) : Int) + ((c.dists.length : Nat) : Int)
      = ((n + c.dists.length * n + c.bits.toNat + c.dists.length : Nat) : Int) := by rw [hn]; push_cast; omega
  rw [e1, e2]
  simp [pure, Except.pure]
end

/-! ### every successful input computation has exactly input_size entries -/
section
variable {ε : Type} [DecidableEq ε]

theorem setIf_length {α : Type} {b : Bool} {l l' : List α} {i : Int} {v : α} (h : setIf b l i v = .ok l') :
    l'.length = l.length := by
  unfold setIf at h
  split at h
  · exact pySet_length h
  · injection h with h; rw [h]

omit [DecidableEq ε] in
theorem lbNextLoop_length (oh : OneHot ε) (evs : List ε) (pos : Int) (ds : List Int) (st st' : List Int × Int)
    (h : lbNextLoop oh evs pos ds st = .ok st') : st'.1.length = st.1.length := by
  induction ds generalizing st with
  | nil => unfold lbNextLoop at h; injection h with h; rw [h]
  | cons d rest ih =>
    obtain ⟨input, offset⟩ := st
    unfold lbNextLoop at h
    simp only [bind, Except.bind] at h
    split at h
    · cases h
    · split at h
      · cases h
      · split at h
        · cases h
        · rename_i _ _ _ _ inp hset
          rw [ih _ h]; exact pySet_length hset

theorem counterLoop_length (nn : Int) (is : List Nat) (st st' : List Int × Int)
    (h : counterLoop nn is st = .ok st') : st'.1.length = st.1.length := by
  induction is generalizing st with
  | nil => unfold counterLoop at h; injection h with h; rw [h]
  | cons d rest ih =>
    obtain ⟨input, offset⟩ := st
    unfold counterLoop at h
    simp only [bind, Except.bind] at h
    split at h
    · cases h
    · rename_i inp hset
      rw [ih _ h]; exact pySet_length hset

theorem repeatLoop_length (evs : List ε) (pos : Int) (ds : List Int) (st st' : List Int × Int)
    (h : repeatLoop evs pos ds st = .ok st') : st'.1.length = st.1.length := by
  induction ds generalizing st with
  | nil => unfold repeatLoop at h; injection h with h; rw [h]
  | cons d rest ih =>
    obtain ⟨input, offset⟩ := st
    unfold repeatLoop at h
    simp only [bind, Except.bind] at h
    split at h
    · cases h
    · split at h
      · cases h
      · rename_i _ _ inp hset
        rw [ih _ h]; exact setIf_length hset

theorem lbEventsToInput_length (oh : OneHot ε) (c : LookbackCfg) (evs : List ε) (pos : Int) (v : List Int)
    (h : lbEventsToInput oh c evs pos = .ok v) : v.length = (lbInputSize oh c).toNat := by
  unfold lbEventsToInput at h
  simp only [bind, Except.bind] at h
  split at h
  · cases h
  · split at h
    · cases h
    · split at h
      · cases h
      · split at h
        · cases h
        · split at h
          · cases h
          · split at h
            · cases h
            · split at h
              · rename_i _ _ _ _ _ _ _ inp hset _ st1 h1 _ st2 h2 _ st3 h3 _
                simp only [pure, Except.pure] at h
                injection h with h
                rw [← h, repeatLoop_length _ _ _ _ _ h3, counterLoop_length _ _ _ _ h2,
                  lbNextLoop_length _ _ _ _ _ _ h1, pySet_length hset]
                simp [zeros]
              · cases h
end

/-! ### generation loop -/

/-- the generation loop never fails on labels satisfying `Lab` when every step decodes to a `Valid` event;
every generated event is the decoding of its label against everything generated before it -/
theorem genLoop_total {ε κ : Type} (cite : κ → List ε → Except String ε) (Valid : ε → Prop) (Lab : κ → Prop)
    (hstep : ∀ l evs, Lab l → (∀ e ∈ evs, Valid e) → ∃ e, cite l evs = .ok e ∧ Valid e)
    (labels : List κ) (hl : ∀ l ∈ labels, Lab l) (init : List ε) (hi : ∀ e ∈ init, Valid e) :
    ∃ out, genLoop cite labels init = .ok out ∧ out.length = init.length + labels.length ∧
      (∀ e ∈ out, Valid e) ∧ out.take init.length = init ∧
      ∀ k (hk : k < labels.length) (ho : init.length + k < out.length),
        cite labels[k] (out.take (init.length + k)) = .ok out[init.length + k] := by
  induction labels generalizing init with
  | nil => exact ⟨init, rfl, by simp, hi, by simp, fun k hk => absurd hk (Nat.not_lt_zero _)⟩
  | cons l ls ih =>
    obtain ⟨e, he, hve⟩ := hstep l init (hl l (by simp)) hi
    obtain ⟨out, h1, h2, h3, h4, h5⟩ := ih (fun x hx => hl x (by simp [hx])) (init ++ [e])
      (fun x hx => by
        rcases List.mem_append.mp hx with h | h
        · exact hi x h
        · simp at h; subst h; exact hve)
    have hlen : (init ++ [e]).length = init.length + 1 := by simp
    have htake : out.take init.length = init := by
      have := congrArg (List.take init.length) h4
      rw [List.take_take, hlen] at this
      simpa [Nat.min_eq_left (Nat.le_succ _)] using this
    refine ⟨out, by unfold genLoop; rw [he]; exact h1, by rw [h2, hlen]; simp; omega, h3, htake, ?_⟩
    intro k hk ho
    cases k with
    | zero =>
      simp only [Nat.add_zero, List.getElem_cons_zero]
      rw [htake, he]
      congr 1
      have h6 : (out.take (init.length + 1))[init.length]? = (init ++ [e])[init.length]? := by
        rw [← hlen, h4]
      rw [List.getElem?_take] at h6
      simp at h6
      rw [List.getElem?_eq_getElem (by omega)] at h6
      injection h6 with h6
      exact h6.symm
    | succ k =>
      have := h5 k (by simpa using hk) (by rw [hlen]; omega)
      simp only [hlen] at this
      simp only [List.getElem_cons_succ]
      have e1 : init.length + (k + 1) = init.length + 1 + k := by omega
      simp only [e1]
      exact this

/-- decoding the labels an encoder produced reconstructs the event sequence: if at every position the label
decodes (against the prefix) to the event, then running the generation loop on the labels of positions
`k, k+1, …` from the first `k` events yields the whole sequence -/
theorem genLoop_roundtrip {ε κ : Type} (cite : κ → List ε → Except String ε) (lab : Nat → Except String κ)
    (evs : List ε)
    (h : ∀ p (hp : p < evs.length), ∃ l, lab p = .ok l ∧ cite l (evs.take p) = .ok evs[p])
    (n k : Nat) (hk : k + n = evs.length) :
    ∃ labels, mapE lab (List.range' k n) = .ok labels ∧ genLoop cite labels (evs.take k) = .ok evs := by
  induction n generalizing k with
  | zero =>
    refine ⟨[], rfl, ?_⟩
    have : k = evs.length := by omega
    subst this
    simp [genLoop]
  | succ n ih =>
    obtain ⟨l, hl1, hl2⟩ := h k (by omega)
    obtain ⟨ls, hls1, hls2⟩ := ih (k + 1) (by omega)
    refine ⟨l :: ls, ?_, ?_⟩
    · rw [List.range'_succ]; unfold mapE; rw [hl1, hls1]
    · unfold genLoop
      rw [hl2]
      simp only []
      have : evs.take k ++ [evs[k]'(by omega)] = evs.take (k + 1) := by
        rw [List.take_succ_eq_append_getElem]
      rw [this]; exact hls2

/-! ### key-melody labels -/
open Gen

/-- one step of the generation loop for the lookback-shaped decoders -/
theorem citeLoop_step {ε : Type} (base : Int) (dflt : ε) (plainCite : Int → Except String ε) (Valid : ε → Prop)
    (ds : List Int) (hd : ∀ d ∈ ds, 1 ≤ d)
    (hplain : ∀ l, 0 ≤ l → l < base → ∃ e, plainCite l = .ok e ∧ Valid e) (hdef : Valid dflt)
    (l : Int) (hl0 : 0 ≤ l) (hl1 : l < base + ds.length) (evs : List ε) (hev : ∀ e ∈ evs, Valid e) :
    ∃ e, citeLoop base dflt (plainCite l) l evs ds.zipIdx.reverse = .ok e ∧ Valid e := by
  by_cases hlt : l < base
  · rw [citeLoop_miss _ _ _ _ _ _ (fun x _ => by omega)]
    exact hplain l hl0 hlt
  · have hidx : (l - base).toNat < ds.length := by omega
    rw [citeLoop_hit _ _ _ l evs _ (ds[(l - base).toNat]) (l - base).toNat
      ((mem_revIdx _ (_, _)).mpr (List.getElem?_eq_getElem hidx)) (by omega) (revIdx_pairwise_gt _)]
    have hd1 := hd _ (List.getElem_mem hidx)
    generalize ds[(l - base).toNat] = d at hd1
    by_cases hlen : (evs.length : Int) < d
    · rw [if_pos hlen]; exact ⟨_, rfl, hdef⟩
    · have hq : (evs.length - d.toNat) < evs.length := by omega
      rw [if_neg hlen, pyIdx_neg evs d (evs.length - d.toNat) hd1 (by omega) hq]
      exact ⟨_, rfl, hev _ (List.getElem_mem hq)⟩

/-- legal key-melody configurations (the constructor does not validate; this is the documented domain) -/
def KeyCfgOk (c : KeyCfg) : Prop := 0 ≤ c.minNote ∧ c.minNote < c.maxNote ∧ ∀ d ∈ c.dists, 1 ≤ d

/-- melody events of the configuration: no-event, note-off, or a pitch in `[min_note, max_note)` -/
def KeyEvent (c : KeyCfg) (e : Int) : Prop :=
  e = MELODY_NO_EVENT ∨ e = MELODY_NOTE_OFF ∨ (c.minNote ≤ e ∧ e < c.maxNote)

theorem keyPlain_spec (c : KeyCfg) (hc : KeyCfgOk c) (evs : List Int) (p : Nat) (hp : p < evs.length)
    (hv : KeyEvent c evs[p]) :
    ∃ l0, keyPlainLabel c evs p = .ok l0 ∧ 0 ≤ l0 ∧ l0 < c.noteRange + 2 ∧ keyPlainEvent c l0 = evs[p] := by
  obtain ⟨h0, h1, _⟩ := hc
  unfold keyPlainLabel keyPlainEvent
  simp only [pyIdx_nat evs p hp, bind, Except.bind, pure, Except.pure]
  unfold KeyEvent MELODY_NO_EVENT MELODY_NOTE_OFF at hv
  unfold KeyCfg.noteRange MELODY_NO_EVENT MELODY_NOTE_OFF
  generalize evs[p] = e at hv
  rcases hv with h | h | ⟨h2, h3⟩
  · subst h; exact ⟨c.maxNote - c.minNote, by simp, by omega, by omega, by simp; omega⟩
  · subst h; exact ⟨c.maxNote - c.minNote + 1, by simp, by omega, by omega, by simp⟩
  · have e1 : ¬ e = -1 := by omega
    have e2 : ¬ e = -2 := by omega
    refine ⟨e - c.minNote, by simp [e1, e2], by omega, by omega, ?_⟩
    have e3 : ¬ (e - c.minNote = c.maxNote - c.minNote + 1) := by omega
    have e4 : ¬ (e - c.minNote = c.maxNote - c.minNote) := by omega
    simp [e3, e4]; omega

/-! ### key-melody input size -/
open Gen

theorem bind_ok {α β : Type} {x : Except String α} {f : α → Except String β} {b : β}
    (h : (x >>= f) = .ok b) : ∃ a, x = .ok a ∧ f a = .ok b := by
  cases x with
  | error e => cases h
  | ok a => exact ⟨a, rfl, h⟩

theorem histLoop_length (mx : Int) (vs : List Int) (st st' : List Int × Int)
    (h : histLoop mx vs st = .ok st') : st'.1.length = st.1.length := by
  induction vs generalizing st with
  | nil => unfold histLoop at h; injection h with h; rw [h]
  | cons d rest ih =>
    obtain ⟨input, offset⟩ := st
    unfold histLoop at h
    obtain ⟨inp, hset, h⟩ := bind_ok h
    rw [ih _ h]; exact setIf_length hset

theorem keyWriteNote_length (c : KeyCfg) (cur : Option Int) (input out : List Int) (off : Int)
    (h : keyWriteNote c cur input off = .ok out) : out.length = input.length := by
  unfold keyWriteNote at h
  split at h
  · split at h
    · obtain ⟨i1, h1, h⟩ := bind_ok h
      rw [pySet_length h, pySet_length h1]
    · exact pySet_length h
  · exact pySet_length h

theorem keyWriteAsc_length (asc : Option Bool) (input out : List Int) (off : Int)
    (h : keyWriteAsc asc input off = .ok out) : out.length = input.length := by
  unfold keyWriteAsc at h
  split at h
  · exact pySet_length h
  · injection h with h; rw [h]

theorem keyEventsToInput_length (c : KeyCfg) (evs : List Int) (pos : Int) (v : List Int)
    (h : keyEventsToInput c evs pos = .ok v) : v.length = (keyInputSize c).toNat := by
  unfold keyEventsToInput at h
  obtain ⟨sub, _, h⟩ := bind_ok h
  obtain ⟨i1, h1, h⟩ := bind_ok h
  obtain ⟨i2, h2, h⟩ := bind_ok h
  obtain ⟨i3, h3, h⟩ := bind_ok h
  obtain ⟨s4, h4, h⟩ := bind_ok h
  obtain ⟨s5, h5, h⟩ := bind_ok h
  obtain ⟨i6, h6, h⟩ := bind_ok h
  obtain ⟨s7, h7, h⟩ := bind_ok h
  obtain ⟨l3, _, h⟩ := bind_ok h
  obtain ⟨s8, h8, h⟩ := bind_ok h
  split at h
  · simp only [pure, Except.pure] at h
    injection h with h
    rw [← h, histLoop_length _ _ _ _ h8, histLoop_length _ _ _ _ h7, setIf_length h6,
      counterLoop_length _ _ _ _ h5, repeatLoop_length _ _ _ _ _ h4, keyWriteAsc_length _ _ _ _ h3,
      setIf_length h2, keyWriteNote_length _ _ _ _ _ h1]
    simp [zeros]
  · cases h

/-! ### note-performance: optimal_num_segments -/
open Gen

/-! optimal_num_segments returns a divisor in `[1, steps)` -/
theorem foldl_min_mem (steps : Nat) (cs : List Nat) (c : Nat) :
    cs.foldl (fun best i => if i + steps / i < best + steps / best then i else best) c ∈ c :: cs := by
  induction cs generalizing c with
  | nil => simp
  | cons a as ih =>
    simp only [List.foldl_cons]
    have := ih (if a + steps / a < c + steps / c then a else c)
    rcases List.mem_cons.mp this with h | h
    · rw [h]; split <;> simp
    · simp [h]

theorem optimalNumSegments_divides (steps s : Nat) (h : optimalNumSegments steps = .ok s) :
    1 ≤ s ∧ s < steps ∧ steps % s = 0 ∧ s * (steps / s) = steps := by
  unfold optimalNumSegments at h
  split at h
  · cases h
  · rename_i c cs hf
    injection h with h
    have hm := foldl_min_mem steps cs c
    rw [h, ← hf] at hm
    simp only [List.mem_filter, List.mem_range'_1, decide_eq_true_eq] at hm
    obtain ⟨⟨h1, h2⟩, h3⟩ := hm
    refine ⟨h1, by omega, h3, ?_⟩
    exact Nat.mul_div_cancel' (Nat.dvd_of_mod_eq_zero h3)

/-! ### note-performance: constructor and segment arithmetic -/
open Gen

theorem divmod_spec (x sp ss : Int) (hsp : 1 ≤ sp) (h0 : 0 ≤ x) (h1 : x < ss * sp) :
    0 ≤ x.fdiv sp ∧ x.fdiv sp < ss ∧ 0 ≤ x.fmod sp ∧ x.fmod sp < sp ∧ x.fdiv sp * sp + x.fmod sp = x := by
  rw [Int.fdiv_eq_ediv_of_nonneg _ (by omega), Int.fmod_eq_emod_of_nonneg _ (by omega)]
  exact ⟨Int.ediv_nonneg h0 (by omega), (Int.ediv_lt_iff_lt_mul (by omega)).mpr h1,
    Int.emod_nonneg _ (by omega), Int.emod_lt_of_pos _ (by omega), Int.ediv_mul_add_emod x sp⟩

theorem divmod_unique (a b sp : Int) (h0 : 0 ≤ b) (h1 : b < sp) :
    (a * sp + b).fdiv sp = a ∧ (a * sp + b).fmod sp = b := by
  rw [Int.fdiv_eq_ediv_of_nonneg _ (by omega), Int.fmod_eq_emod_of_nonneg _ (by omega)]
  rw [Int.add_comm, Int.add_mul_ediv_right _ _ (by omega), Int.add_mul_emod_self_right,
    Int.ediv_eq_zero_of_lt h0 h1, Int.emod_eq_of_lt h0 h1]
  omega

/-- componentwise `0 ≤ label[k] < num_classes[k]` -/
def LabelInRange : List Int → List Int → Prop
  | [], [] => True
  | l :: ls, n :: ns => 0 ≤ l ∧ l < n ∧ LabelInRange ls ns
  | _, _ => False

/-- legal configurations of the note-performance encoder (beyond the constructor's own assertions) -/
def NPCfgOk (c : NPCfg) : Prop :=
  1 ≤ c.bins ∧ c.bins ≤ MAX_NUM_VELOCITY_BINS ∧ MIN_MIDI_PITCH ≤ c.minPitch ∧ c.minPitch ≤ c.maxPitch ∧
    c.maxPitch ≤ MAX_MIDI_PITCH

/-- valid note events of a configuration -/
def NPValid (c : NPCfg) (ev : NPEvent) : Prop :=
  0 ≤ ev.shift ∧ ev.shift ≤ c.maxShift ∧ c.minPitch ≤ ev.pitch ∧ ev.pitch ≤ c.maxPitch ∧
    1 ≤ ev.vel ∧ ev.vel ≤ c.bins ∧ 1 ≤ ev.dur ∧ ev.dur ≤ c.maxDur

/-- what a successful constructor call establishes: segments × per-segment = steps -/
theorem npInit_spec (c : NPCfg) (E : NPEnc) (h : npInit c = .ok E) :
    E.minPitch = c.minPitch ∧ 1 < E.shiftSeg ∧ 1 ≤ E.shiftPer ∧ E.shiftSeg * E.shiftPer = (c.maxShift : Int) + 1 ∧
    1 < E.durSeg ∧ 1 ≤ E.durPer ∧ E.durSeg * E.durPer = (c.maxDur : Int) ∧
    E.numClasses = [E.shiftSeg, E.shiftPer, c.maxPitch - c.minPitch + 1, c.bins, E.durSeg, E.durPer] := by
  unfold npInit at h
  split at h
  · cases h
  · rename_i ss hss
    split at h
    · cases h
    · rename_i hs1
      split at h
      · cases h
      · rename_i ds hds
        split at h
        · cases h
        · rename_i hd1
          injection h with h
          subst h
          obtain ⟨a1, a2, a3, a4⟩ := optimalNumSegments_divides _ _ hss
          obtain ⟨b1, b2, b3, b4⟩ := optimalNumSegments_divides _ _ hds
          have hs2 : 1 < ss := by simpa using hs1
          have hd2 : 1 < ds := by simpa using hd1
          have p1 : 1 ≤ (c.maxShift + 1) / ss := by
            rcases Nat.eq_zero_or_pos ((c.maxShift + 1) / ss) with h0 | h0
            · rw [h0] at a4; omega
            · exact h0
          have p2 : 1 ≤ c.maxDur / ds := by
            rcases Nat.eq_zero_or_pos (c.maxDur / ds) with h0 | h0
            · rw [h0] at b4; omega
            · exact h0
          refine ⟨rfl, by simp only []; omega, by simp only []; exact_mod_cast p1, ?_, by simp only []; omega,
            by simp only []; exact_mod_cast p2, ?_, rfl⟩
          · simp only []; exact_mod_cast a4
          · simp only []; exact_mod_cast b4

/-! ### note-performance: input blocks and step count -/
open Gen

theorem npOneHots_spec (ns ks : List Int) (h : LabelInRange ks ns) :
    npOneHots ns ks = .ok ((List.zipWith (fun n k => oneHotVec n.toNat k.toNat) ns ks).flatten) := by
  induction ns generalizing ks with
  | nil =>
    cases ks with
    | nil => rfl
    | cons k ks => exact absurd h (by unfold LabelInRange; exact fun x => x)
  | cons n ns ih =>
    cases ks with
    | nil => exact absurd h (by unfold LabelInRange; exact fun x => x)
    | cons k ks =>
      unfold LabelInRange at h
      obtain ⟨h0, h1, h2⟩ := h
      unfold npOneHots
      have hk : pySet (zeros n) k 1 = .ok (oneHotVec n.toNat k.toNat) := by
        obtain ⟨kn, rfl⟩ : ∃ kn : Nat, k = kn := ⟨k.toNat, by omega⟩
        rw [pySet_nat _ _ _ (by simp [zeros]; omega)]
        simp [zeros, oneHotVec]
      simp only [hk, ih ks h2, bind, Except.bind, pure, Except.pure, List.zipWith_cons_cons, List.flatten_cons]

theorem zipWith_oneHot_length (ns ks : List Int) (h : LabelInRange ks ns) :
    (((List.zipWith (fun n k => oneHotVec n.toNat k.toNat) ns ks).flatten).length : Int) = ns.sum := by
  induction ns generalizing ks with
  | nil =>
    cases ks with
    | nil => rfl
    | cons k ks => exact absurd h (by unfold LabelInRange; exact fun x => x)
  | cons n ns ih =>
    cases ks with
    | nil => exact absurd h (by unfold LabelInRange; exact fun x => x)
    | cons k ks =>
      unfold LabelInRange at h
      obtain ⟨h0, h1, h2⟩ := h
      simp only [List.zipWith_cons_cons, List.flatten_cons, List.length_append, oneHotVec_length, List.sum_cons]
      have := ih ks h2
      omega

theorem npStepsLoop_spec (E : NPEnc) (labels : List (List Int)) (out : List NPEvent)
    (h : mapE (npClassIndexToEvent E) labels = .ok out) (s : Int) (last : Option NPEvent) :
    npStepsLoop E labels s last = .ok (s + (out.map NPEvent.shift).sum, out.getLast?.or last) := by
  induction labels generalizing out s last with
  | nil =>
    unfold mapE at h; injection h with h; subst h
    simp [npStepsLoop]
  | cons l ls ih =>
    unfold mapE at h
    cases hl : npClassIndexToEvent E l with
    | error e => rw [hl] at h; cases h
    | ok ev =>
      rw [hl] at h
      cases hr : mapE (npClassIndexToEvent E) ls with
      | error e => rw [hr] at h; cases h
      | ok rest =>
        rw [hr] at h
        injection h with h; subst h
        unfold npStepsLoop
        rw [hl]
        simp only []
        rw [ih rest hr]
        simp only [List.map_cons, List.sum_cons, List.getLast?_cons]
        congr 2
        · omega
        · cases rest.getLast? <;> simp

/-! ### pianoroll: label <-> strictly increasing tuple -/
open Gen

/-- `Σ 2^(p - i)` over a tuple of pitches -/
def powSum (i : Nat) (ev : List Nat) : Int := (ev.map (fun p => (2 : Int) ^ (p - i))).sum

theorem powSum_shift (i : Nat) (ev : List Nat) (h : ∀ p ∈ ev, i + 1 ≤ p) :
    powSum i ev = 2 * powSum (i + 1) ev := by
  induction ev with
  | nil => simp [powSum]
  | cons p rest ih =>
    have hp := h p (by simp)
    have := ih (fun q hq => h q (by simp [hq]))
    unfold powSum at *
    simp only [List.map_cons, List.sum_cons]
    have e : p - i = (p - (i + 1)) + 1 := by omega
    rw [e, Int.pow_succ, this]
    omega

theorem powSum_nonneg (i : Nat) (ev : List Nat) : 0 ≤ powSum i ev := by
  induction ev with
  | nil => simp [powSum]
  | cons p rest ih =>
    unfold powSum at *
    simp only [List.map_cons, List.sum_cons]
    have : (0 : Int) ≤ 2 ^ (p - i) := Int.pow_nonneg (by omega)
    omega

theorem foldl_pow (ev : List Nat) (a : Int) :
    ev.foldl (fun acc p => acc + (2 : Int) ^ p) a = a + powSum 0 ev := by
  induction ev generalizing a with
  | nil => simp [powSum]
  | cons p rest ih =>
    simp only [List.foldl_cons, ih]
    unfold powSum
    simp only [List.map_cons, List.sum_cons, Nat.sub_zero]
    omega

theorem prEventToLabel_eq (ev : List Nat) : prEventToLabel ev = powSum 0 ev := by
  unfold prEventToLabel
  rw [foldl_pow]; omega

/-- decoding loop on the value of a strictly increasing tuple within `[i, i + k)` -/
theorem prDecodeLoop_powSum (k i : Nat) (ev : List Nat) (hs : ev.Pairwise (· < ·))
    (hr : ∀ p ∈ ev, i ≤ p ∧ p < i + k) :
    prDecodeLoop k i (powSum i ev) = (ev, 0) ∧ powSum i ev < 2 ^ k := by
  induction k generalizing i ev with
  | zero =>
    cases ev with
    | nil => simp [prDecodeLoop, powSum]
    | cons p rest => have := hr p (by simp); omega
  | succ k ih =>
    unfold prDecodeLoop
    have h2 : (0 : Int) ≤ 2 := by omega
    rw [Int.fdiv_eq_ediv_of_nonneg _ h2, Int.fmod_eq_emod_of_nonneg _ h2]
    have hpow : (2 : Int) ^ (k + 1) = 2 * 2 ^ k := by rw [Int.pow_succ]; omega
    by_cases hhead : ∃ rest, ev = i :: rest
    · obtain ⟨rest, rfl⟩ := hhead
      have hrest : ∀ p ∈ rest, i + 1 ≤ p ∧ p < i + 1 + k := by
        intro p hp
        have h1 := (List.pairwise_cons.mp hs).1 p hp
        have h2 := hr p (by simp [hp])
        omega
      obtain ⟨ih1, ih2⟩ := ih (i + 1) rest (List.pairwise_cons.mp hs).2 hrest
      have e : powSum i (i :: rest) = 1 + 2 * powSum (i + 1) rest := by
        have := powSum_shift i rest (fun p hp => (hrest p hp).1)
        unfold powSum at *
        simp only [List.map_cons, List.sum_cons, Nat.sub_self, Int.pow_zero]
        omega
      rw [e]
      have e1 : (1 + 2 * powSum (i + 1) rest) / 2 = powSum (i + 1) rest := by omega
      have e2 : (1 + 2 * powSum (i + 1) rest) % 2 ≠ 0 := by omega
      rw [e1, ih1]
      simp only [e2, ne_eq, not_false_eq_true, if_true]
      exact ⟨trivial, by omega⟩
    · have hall : ∀ p ∈ ev, i + 1 ≤ p ∧ p < i + 1 + k := by
        intro p hp
        have h1 := hr p hp
        refine ⟨?_, by omega⟩
        rcases Nat.lt_or_ge i p with h | h
        · exact h
        · exfalso
          have hpi : p = i := by omega
          subst hpi
          cases ev with
          | nil => cases hp
          | cons q rest =>
            rcases List.mem_cons.mp hp with h3 | h3
            · exact hhead ⟨rest, by rw [h3]⟩
            · have := (List.pairwise_cons.mp hs).1 p h3
              have := hr q (by simp)
              omega
      obtain ⟨ih1, ih2⟩ := ih (i + 1) ev hs hall
      have e := powSum_shift i ev (fun p hp => (hall p hp).1)
      rw [e]
      have e1 : (2 * powSum (i + 1) ev) / 2 = powSum (i + 1) ev := by omega
      have e2 : ¬ ((2 * powSum (i + 1) ev) % 2 ≠ 0) := by omega
      rw [e1, ih1]
      simp only [e2, if_false]
      exact ⟨trivial, by omega⟩

/-- the decoding loop on any `0 ≤ ci < 2^k` -/
theorem prDecodeLoop_spec (k i : Nat) (ci : Int) (h0 : 0 ≤ ci) (h1 : ci < 2 ^ k) :
    ∃ ev, prDecodeLoop k i ci = (ev, 0) ∧ ev.Pairwise (· < ·) ∧ (∀ p ∈ ev, i ≤ p ∧ p < i + k) ∧
      powSum i ev = ci := by
  induction k generalizing i ci with
  | zero =>
    have : ci = 0 := by simp at h1; omega
    subst this
    exact ⟨[], rfl, List.Pairwise.nil, by simp, by simp [powSum]⟩
  | succ k ih =>
    unfold prDecodeLoop
    have h2 : (0 : Int) ≤ 2 := by omega
    rw [Int.fdiv_eq_ediv_of_nonneg _ h2, Int.fmod_eq_emod_of_nonneg _ h2]
    have hpow : (2 : Int) ^ (k + 1) = 2 * 2 ^ k := by rw [Int.pow_succ]; omega
    obtain ⟨ev, e1, e2, e3, e4⟩ := ih (i + 1) (ci / 2) (by omega) (by omega)
    rw [e1]
    have hsh := powSum_shift i ev (fun p hp => (e3 p hp).1)
    by_cases hodd : ci % 2 ≠ 0
    · refine ⟨i :: ev, by simp only [hodd, ne_eq, not_false_eq_true, if_true], ?_, ?_, ?_⟩
      · exact List.pairwise_cons.mpr ⟨fun p hp => by have := e3 p hp; omega, e2⟩
      · intro p hp
        rcases List.mem_cons.mp hp with h | h
        · omega
        · have := e3 p h; omega
      · have : powSum i (i :: ev) = 1 + powSum i ev := by
          unfold powSum; simp only [List.map_cons, List.sum_cons, Nat.sub_self, Int.pow_zero]
        omega
    · refine ⟨ev, by simp only [hodd, if_false], e2, fun p hp => by have := e3 p hp; omega, by omega⟩
end NSV.C08
