import NoteSeqVerif.Model.C08
/-! C08 — specification vocabulary and helper lemmas (core Lean only). -/
namespace NSV.C08

/-! ### Python list primitives -/

theorem pyIdx_of_norm {α : Type} (l : List α) (i : Int) (q : Nat) (hq : normIdx l.length i = q) (h : q < l.length) :
    pyIdx l i = .ok l[q] := by
  unfold pyIdx
  rw [hq]
  simp [List.getElem?_eq_getElem h]

theorem pyIdx_nat {α : Type} (l : List α) (p : Nat) (h : p < l.length) : pyIdx l (p : Int) = .ok l[p] :=
  pyIdx_of_norm l p p (by unfold normIdx; omega) h

/-- `events[-d]` for `1 ≤ d ≤ len` is the element `len - d` -/
theorem pyIdx_neg {α : Type} (l : List α) (d : Int) (q : Nat) (h1 : 1 ≤ d) (hq : (q : Int) = l.length - d)
    (h : q < l.length) : pyIdx l (-d) = .ok l[q] :=
  pyIdx_of_norm l (-d) q (by unfold normIdx; omega) h

theorem pySet_nat {α : Type} (l : List α) (i : Nat) (v : α) (h : i < l.length) :
    pySet l (i : Int) v = .ok (l.set i v) := by
  have hn : normIdx l.length (i : Int) = i := by unfold normIdx; omega
  unfold pySet
  rw [hn]
  have h2 : (0 : Int) ≤ i ∧ (i : Int) < l.length := by omega
  simp [h2]

theorem pySet_length {α : Type} {l l' : List α} {i : Int} {v : α} (h : pySet l i v = .ok l') :
    l'.length = l.length := by
  unfold pySet at h
  split at h
  · injection h with h; subst h; simp
  · cases h

theorem pySliceTo_nat {α : Type} (l : List α) (p : Nat) : pySliceTo l (p : Int) = l.take p := by
  unfold pySliceTo normIdx
  have : ¬ ((p : Int) < 0) := by omega
  simp [this]

/-! ### `reversed(list(enumerate(dists)))` -/

theorem zipIdx_pairwise_lt {α : Type} (l : List α) (k : Nat) : (l.zipIdx k).Pairwise (fun a b => a.2 < b.2) := by
  induction l generalizing k with
  | nil => simp
  | cons a l ih =>
    rw [List.zipIdx_cons, List.pairwise_cons]
    refine ⟨?_, ih (k + 1)⟩
    intro x hx
    obtain ⟨x1, x2⟩ := x
    have := List.mem_zipIdx hx
    simp; omega

theorem revIdx_pairwise_gt {α : Type} (l : List α) : (l.zipIdx.reverse).Pairwise (fun a b => a.2 > b.2) := by
  rw [List.pairwise_reverse]
  exact zipIdx_pairwise_lt l 0

theorem mem_revIdx {α : Type} (l : List α) (x : α × Nat) : x ∈ l.zipIdx.reverse ↔ l[x.2]? = some x.1 := by
  rw [List.mem_reverse, List.mem_zipIdx_iff_getElem?]

/-! ### specification vocabulary -/
section
variable {ε : Type} [DecidableEq ε]

/-- a valid event of a one-hot encoding: it encodes into `[0, numClasses)` and decodes back to itself
(for the concrete encodings this is what C09 proves) -/
def ValidEv (oh : OneHot ε) (e : ε) : Prop :=
  ∃ i, oh.encode e = .ok i ∧ 0 ≤ i ∧ i < oh.numClasses ∧ oh.decode i = .ok e

/-- every class index decodes to a valid event -/
def DecodeTotal (oh : OneHot ε) : Prop :=
  ∀ i, 0 ≤ i → i < oh.numClasses → ∃ e, oh.decode i = .ok e ∧ ValidEv oh e

/-- lookback distance `d` really matches at position `p`: `p - d ≥ 0` and the two events are equal -/
def rep (evs : List ε) (p : Nat) (d : Int) : Bool :=
  decide (d ≤ (p : Int) ∧ evs[p]? = evs[((p : Int) - d).toNat]?)

/-- lookback index `i` matches at position `p`: its distance really matches, or it is the last distance,
the position is closer to the start than that distance and the event is the default event (the
"virtual all-default prehistory") -/
def Matches (dflt : ε) (ds : List Int) (evs : List ε) (p i : Nat) : Prop :=
  ∃ d, ds[i]? = some d ∧
    (rep evs p d = true ∨ (i + 1 = ds.length ∧ (p : Int) < d ∧ evs[p]? = some dflt))

/-- a one-hot vector of length `n` with the `1` at `i` -/
def oneHotVec (n i : Nat) : List Int := (List.replicate n 0).set i 1

/-! ### the label and decode loops -/

theorem repeats_eq (evs : List ε) (p : Nat) (hp : p < evs.length) (d : Int) (hd : 1 ≤ d) :
    repeats evs p d = .ok (rep evs p d) := by
  unfold repeats rep
  by_cases h : (p : Int) - d ≥ 0
  · have hq : ((p : Int) - d).toNat < evs.length := by omega
    have e2 := pyIdx_of_norm evs ((p : Int) - d) ((p : Int) - d).toNat (by unfold normIdx; omega) hq
    have hle : d ≤ (p : Int) := by omega
    simp [pyIdx_nat evs p hp, e2, bind, Except.bind, pure, Except.pure, hle,
      List.getElem?_eq_getElem hp, List.getElem?_eq_getElem hq]
  · have hle : ¬ d ≤ (p : Int) := by omega
    simp [hle, pure, Except.pure]

/-- the loop returns the first matching entry; with indices decreasing that is the greatest matching index -/
theorem labelLoop_hit (base : Int) (plain : Except String Int) (evs : List ε) (p : Nat) (hp : p < evs.length)
    (L : List (Int × Nat)) (hL : ∀ x ∈ L, 1 ≤ x.1) (d : Int) (i : Nat)
    (hm : (d, i) ∈ L) (hr : rep evs p d = true)
    (hgt : ∀ x ∈ L, rep evs p x.1 = true → x.2 ≤ i)
    (hdec : L.Pairwise (fun a b => a.2 > b.2)) :
    labelLoop base plain evs p L = .ok (base + i) := by
  induction L with
  | nil => cases hm
  | cons x rest ih =>
    obtain ⟨d', i'⟩ := x
    unfold labelLoop
    rw [repeats_eq evs p hp d' (hL (d', i') (by simp))]
    by_cases hx : rep evs p d' = true
    · have h1 : i' ≤ i := hgt (d', i') (by simp) hx
      have h2 : i ≤ i' := by
        rcases List.mem_cons.mp hm with h | h
        · injection h with _ h; omega
        · have := (List.pairwise_cons.mp hdec).1 (d, i) h
          simp at this; omega
      have : i' = i := by omega
      subst this
      simp [hx, bind, Except.bind, pure, Except.pure]
    · have hm' : (d, i) ∈ rest := by
        rcases List.mem_cons.mp hm with h | h
        · injection h with h1 h2; subst h1; exact absurd hr hx
        · exact h
      simp only [Bool.not_eq_true] at hx
      simp [hx, bind, Except.bind]
      exact ih (fun x hx => hL x (by simp [hx])) hm'
        (fun x hx => hgt x (by simp [hx])) (List.pairwise_cons.mp hdec).2

theorem labelLoop_miss (base : Int) (plain : Except String Int) (evs : List ε) (p : Nat) (hp : p < evs.length)
    (L : List (Int × Nat)) (hL : ∀ x ∈ L, 1 ≤ x.1) (hno : ∀ x ∈ L, rep evs p x.1 = false) :
    labelLoop base plain evs p L = plain := by
  induction L with
  | nil => rfl
  | cons x rest ih =>
    obtain ⟨d', i'⟩ := x
    unfold labelLoop
    rw [repeats_eq evs p hp d' (hL (d', i') (by simp))]
    have := hno (d', i') (by simp)
    simp at this
    simp [this, bind, Except.bind]
    exact ih (fun x hx => hL x (by simp [hx])) (fun x hx => hno x (by simp [hx]))

/-- without the maximality bookkeeping: the loop yields the plain label or the label of a matching entry -/
theorem labelLoop_cases (base : Int) (plain : Except String Int) (evs : List ε) (p : Nat) (hp : p < evs.length)
    (L : List (Int × Nat)) (hL : ∀ x ∈ L, 1 ≤ x.1) :
    labelLoop base plain evs p L = plain ∨
    ∃ x ∈ L, rep evs p x.1 = true ∧ labelLoop base plain evs p L = .ok (base + x.2) := by
  induction L with
  | nil => exact .inl rfl
  | cons x rest ih =>
    obtain ⟨d', i'⟩ := x
    unfold labelLoop
    rw [repeats_eq evs p hp d' (hL (d', i') (by simp))]
    by_cases hx : rep evs p d' = true
    · exact .inr ⟨(d', i'), by simp, hx, by simp [hx, bind, Except.bind, pure, Except.pure]⟩
    · simp only [Bool.not_eq_true] at hx
      simp only [hx, bind, Except.bind]
      rcases ih (fun x hx => hL x (by simp [hx])) with h | ⟨x, hx1, hx2, hx3⟩
      · exact .inl (by simpa using h)
      · exact .inr ⟨x, by simp [hx1], hx2, by simpa using hx3⟩

omit [DecidableEq ε] in
theorem citeLoop_hit (base : Int) (dflt : ε) (plain : Except String ε) (ci : Int) (evs : List ε)
    (L : List (Int × Nat)) (d : Int) (i : Nat) (hm : (d, i) ∈ L) (hci : ci = base + i)
    (hnd : L.Pairwise (fun a b => a.2 > b.2)) :
    citeLoop base dflt plain ci evs L = (if (evs.length : Int) < d then .ok dflt else pyIdx evs (-d)) := by
  induction L with
  | nil => cases hm
  | cons x rest ih =>
    obtain ⟨d', i'⟩ := x
    unfold citeLoop
    rcases List.mem_cons.mp hm with h | h
    · injection h with h1 h2; subst h1; subst h2
      simp [hci]
    · have := (List.pairwise_cons.mp hnd).1 (d, i) h
      simp at this
      have hne : ¬ ci = base + (i' : Int) := by omega
      simp only [hne, if_false]
      exact ih h (List.pairwise_cons.mp hnd).2

omit [DecidableEq ε] in
theorem citeLoop_miss (base : Int) (dflt : ε) (plain : Except String ε) (ci : Int) (evs : List ε)
    (L : List (Int × Nat)) (h : ∀ x ∈ L, ci ≠ base + (x.2 : Int)) :
    citeLoop base dflt plain ci evs L = plain := by
  induction L with
  | nil => rfl
  | cons x rest ih =>
    obtain ⟨d', i'⟩ := x
    unfold citeLoop
    have := h (d', i') (by simp)
    simp only [this, if_false]
    exact ih (fun x hx => h x (by simp [hx]))

/-- the leading test of `events_to_label` at a valid position -/
theorem virtualRepeat_eq (dflt : ε) (ds : List Int) (evs : List ε) (p : Nat) (hp : p < evs.length) :
    virtualRepeat dflt ds evs p = .ok (match ds.getLast? with
      | none => false
      | some dl => decide ((p : Int) < dl ∧ evs[p] = dflt)) := by
  unfold virtualRepeat
  cases ds.getLast? with
  | none => rfl
  | some dl =>
    by_cases h : (p : Int) < dl
    · simp [h, pyIdx_nat evs p hp, bind, Except.bind, pure, Except.pure]
    · simp [h, pure, Except.pure]

end
end NSV.C08
