import NoteSeqVerif.Proofs.RoundingApps
import NoteSeqVerif.Proofs.C02State
import NoteSeqVerif.Proofs.C02Split
/-! C02 — floating point: what the exact-arithmetic (`R = id`) lemmas of `C02State` / `C02Split`
become for EVERY rounding operator `R` with the `Rounding` facts (`rounding_rne53 : Rounding rne53`).

* order facts of a shifted time `R (t - a)`: nonnegative, monotone, zero iff `t = a`; two different
  times can collapse (`shift_collapse_rne53`), but only when they are closer than `2^-51` relative
  (`shift_close`);
* the hop candidate vector `R (h + R (i * h))` of `numpy.arange(h, total, h)`: weakly increasing for
  every monotone `R`, strictly increasing below index `2^51` (not beyond: `hop_not_strict_rne53`),
  within `2^-51` relative of the hop multiple, every candidate but the last is `< total`, the last is
  `< total * (1 + 2^-51)` (it CAN be `= total` or `> total`: `hop_last_eq_total_rne53`,
  `hop_last_gt_total_rne53`);
* the state in effect in a piece for every `R` (`specStateS_last_R` and its corollaries). -/
namespace NSV.C02

/-! ## order facts of rounded values and shifted times -/

section order
variable {p : ℕ} {R : ℚ → ℚ}

theorem round_eq_zero_iff (hR : RoundingP p R) (hp : 1 ≤ p) (x : ℚ) : R x = 0 ↔ x = 0 := by
  constructor
  · intro h
    have he := hR.rel_err x
    rw [h, zero_sub, abs_neg] at he
    have h2 : (1 : ℚ) / 2 ^ p ≤ 1 / 2 := by
      have : (2 : ℚ) ^ 1 ≤ 2 ^ p := pow_le_pow_right₀ (by norm_num) hp
      rw [div_le_div_iff₀ (by positivity) (by norm_num)]; linarith
    have h3 : |x| * (1 / 2 ^ p) ≤ |x| * (1 / 2) := mul_le_mul_of_nonneg_left h2 (abs_nonneg x)
    have h4 : |x| ≤ 0 := by linarith
    exact abs_eq_zero.mp (le_antisymm h4 (abs_nonneg x))
  · intro h; rw [h, hR.zero]

theorem round_pos_iff (hR : RoundingP p R) (hp : 1 ≤ p) (x : ℚ) : 0 < R x ↔ 0 < x := by
  constructor
  · intro h
    by_contra hx
    have := hR.nonpos (not_lt.mp hx)
    linarith
  · intro h
    have h1 := hR.nonneg h.le
    have h2 : R x ≠ 0 := fun h0 => h.ne' ((round_eq_zero_iff hR hp x).mp h0)
    exact lt_of_le_of_ne h1 (Ne.symm h2)

/-- a time at or after the cut is shifted to a nonnegative time -/
theorem shift_nonneg (hR : RoundingP p R) {a t : ℚ} (h : a ≤ t) : 0 ≤ R (t - a) :=
  hR.nonneg (by linarith)

/-- shifting keeps the (weak) order of times -/
theorem shift_mono (hR : RoundingP p R) (a : ℚ) {t t' : ℚ} (h : t ≤ t') : R (t - a) ≤ R (t' - a) :=
  hR.mono _ _ (by linarith)

/-- only the cut itself is shifted to time 0 -/
theorem shift_eq_zero_iff (hR : RoundingP p R) (hp : 1 ≤ p) (a t : ℚ) : R (t - a) = 0 ↔ t = a := by
  rw [round_eq_zero_iff hR hp]; constructor <;> intro h <;> linarith

theorem shift_pos_iff (hR : RoundingP p R) (hp : 1 ≤ p) (a t : ℚ) : 0 < R (t - a) ↔ a < t := by
  rw [round_pos_iff hR hp]; constructor <;> intro h <;> linarith

/-- a strict order between shifted times reflects to the original times -/
theorem shift_lt_reflect (hR : RoundingP p R) (a : ℚ) {t t' : ℚ} (h : R (t - a) < R (t' - a)) :
    t < t' := by
  by_contra hn
  have := shift_mono hR a (not_lt.mp hn)
  linarith

/-- two times that collapse after the shift are closer than `2^-51` relative to the shifted time -/
theorem shift_close {R : ℚ → ℚ} (hR : Rounding R) {a t t' : ℚ} (h1 : a ≤ t) (h2 : t ≤ t')
    (he : R (t' - a) = R (t - a)) : t' - t ≤ (t - a) * (1 / 2 ^ 51) := by
  obtain ⟨l', _⟩ := hR.bounds (show 0 ≤ t' - a by linarith)
  obtain ⟨_, u⟩ := hR.bounds (show 0 ≤ t - a by linarith)
  rw [he] at l'
  have : (t' - a) * (1 - 1 / 2 ^ 53) ≤ (t - a) * (1 + 1 / 2 ^ 53) := l'.trans u
  have h0 : 0 ≤ t - a := by linarith
  norm_num at this ⊢
  nlinarith

end order

/-- strict order of times is NOT preserved by the float shift: `t = 1 + 2^-51`, `t' = t + 2^-52`
(adjacent float64 values) and the cut `a = 2^-53` give the same shifted time (two ties to even) -/
theorem shift_collapse_rne53 :
    let a : ℚ := 1 / 2 ^ 53; let t : ℚ := 1 + 1 / 2 ^ 51; let t' : ℚ := 1 + 1 / 2 ^ 51 + 1 / 2 ^ 52
    rne53 a = a ∧ rne53 t = t ∧ rne53 t' = t' ∧ t < t' ∧ rne53 (t - a) = rne53 (t' - a) := by
  decide +kernel

/-! ## the float hop candidate vector -/

theorem hopTimesR_length (R : ℚ → ℚ) (h total : ℚ) :
    (hopTimesR R h total).length = (R (R (total - h) / h)).ceil.toNat := by
  simp [hopTimesR]

/-- element `i` of the candidate vector -/
theorem hopTimesR_getElem? (R : ℚ → ℚ) (h total : ℚ) (i : ℕ)
    (hi : i < (hopTimesR R h total).length) :
    (hopTimesR R h total)[i]? = some (R (h + R ((i : ℚ) * h))) := by
  rw [hopTimesR_length] at hi
  simp [hopTimesR, hi]

/-- index `i` is in range iff `i <` the float quotient `R (R (total - h) / h)` -/
theorem lt_hopLen_iff (R : ℚ → ℚ) (h total : ℚ) (i : ℕ) :
    i < (R (R (total - h) / h)).ceil.toNat ↔ (i : ℚ) < R (R (total - h) / h) := by
  have h1 : i < (R (R (total - h) / h)).ceil.toNat ↔ (i : ℤ) < (R (R (total - h) / h)).ceil := by
    omega
  rw [h1, Rat.lt_ceil_iff]
  simp

theorem mem_hopTimesR (R : ℚ → ℚ) (h total t : ℚ) :
    t ∈ hopTimesR R h total ↔
      ∃ i : ℕ, (i : ℚ) < R (R (total - h) / h) ∧ t = R (h + R ((i : ℚ) * h)) := by
  unfold hopTimesR
  simp only [List.mem_map, List.mem_range]
  constructor
  · rintro ⟨i, hi, rfl⟩; exact ⟨i, (lt_hopLen_iff R h total i).mp hi, rfl⟩
  · rintro ⟨i, hi, rfl⟩; exact ⟨i, (lt_hopLen_iff R h total i).mpr hi, rfl⟩

/-- candidates are weakly increasing in the index, for every monotone `R` -/
theorem hopCand_mono {R : ℚ → ℚ} (hmono : ∀ a b, a ≤ b → R a ≤ R b) {h : ℚ} (hh : 0 ≤ h) {i j : ℕ}
    (hij : i ≤ j) : R (h + R ((i : ℚ) * h)) ≤ R (h + R ((j : ℚ) * h)) := by
  have : (i : ℚ) ≤ (j : ℚ) := by exact_mod_cast hij
  have h1 : (i : ℚ) * h ≤ (j : ℚ) * h := mul_le_mul_of_nonneg_right this hh
  have h2 := hmono _ _ h1
  exact hmono _ _ (by linarith)

/-- **sortedness of the float candidate vector** (what `hopLoop_eq_filter` needs), for every
monotone rounding operator -/
theorem hopTimesR_sorted {R : ℚ → ℚ} (hmono : ∀ a b, a ≤ b → R a ≤ R b) (h total : ℚ) (hh : 0 ≤ h) :
    SortedLE (hopTimesR R h total) := by
  unfold hopTimesR SortedLE
  rw [List.pairwise_map]
  have : (List.range (R (R (total - h) / h)).ceil.toNat).Pairwise (fun a b => a < b) :=
    List.pairwise_lt_range
  refine this.imp ?_
  intro a b hab
  exact hopCand_mono hmono hh (Nat.le_of_lt hab)

/-- consecutive candidates are different as long as the index stays below `2^51` -/
theorem hopCand_step_lt {R : ℚ → ℚ} (hR : Rounding R) {h : ℚ} (hh : 0 < h) {i : ℕ}
    (hi : i + 1 ≤ 2 ^ 51) : R (h + R ((i : ℚ) * h)) < R (h + R (((i + 1 : ℕ) : ℚ) * h)) := by
  have hi0 : (0 : ℚ) ≤ (i : ℚ) := Nat.cast_nonneg i
  have hiq : (i : ℚ) + 1 ≤ 2 ^ 51 := by exact_mod_cast hi
  have hx0 : 0 ≤ (i : ℚ) * h := mul_nonneg hi0 hh.le
  have hy0 : 0 ≤ ((i + 1 : ℕ) : ℚ) * h := mul_nonneg (Nat.cast_nonneg _) hh.le
  have hc : ((i + 1 : ℕ) : ℚ) = (i : ℚ) + 1 := by push_cast; ring
  obtain ⟨_, xu⟩ := hR.bounds hx0
  obtain ⟨yl, _⟩ := hR.bounds hy0
  have hA0 : 0 ≤ h + R ((i : ℚ) * h) := by have := hR.nonneg hx0; linarith
  have hB0 : 0 ≤ h + R (((i + 1 : ℕ) : ℚ) * h) := by have := hR.nonneg hy0; linarith
  obtain ⟨_, Au⟩ := hR.bounds hA0
  obtain ⟨Bl, _⟩ := hR.bounds hB0
  rw [hc] at yl Bl hB0 ⊢
  -- R A ≤ (h + x(1+u))(1+u) < (h + y(1-u))(1-u) ≤ R B
  have e1 : (h + R ((i : ℚ) * h)) * (1 + 1 / 2 ^ 53) ≤
      (h + (i : ℚ) * h * (1 + 1 / 2 ^ 53)) * (1 + 1 / 2 ^ 53) :=
    mul_le_mul_of_nonneg_right (by linarith) (by norm_num)
  have e2 : (h + ((i : ℚ) + 1) * h * (1 - 1 / 2 ^ 53)) * (1 - 1 / 2 ^ 53) ≤
      (h + R (((i : ℚ) + 1) * h)) * (1 - 1 / 2 ^ 53) :=
    mul_le_mul_of_nonneg_right (by linarith) (by norm_num)
  have key : (h + (i : ℚ) * h * (1 + 1 / 2 ^ 53)) * (1 + 1 / 2 ^ 53) <
      (h + ((i : ℚ) + 1) * h * (1 - 1 / 2 ^ 53)) * (1 - 1 / 2 ^ 53) := by
    have e : (h + ((i : ℚ) + 1) * h * (1 - 1 / 2 ^ 53)) * (1 - 1 / 2 ^ 53) -
        (h + (i : ℚ) * h * (1 + 1 / 2 ^ 53)) * (1 + 1 / 2 ^ 53) =
        h * (1 / 2 ^ 53 * (1 / 2 ^ 53) + 4 / 2 ^ 53 * (2 ^ 51 - ((i : ℚ) + 1))) := by ring
    have : 0 < h * (1 / 2 ^ 53 * (1 / 2 ^ 53) + 4 / 2 ^ 53 * (2 ^ 51 - ((i : ℚ) + 1))) := by
      apply mul_pos hh
      have : 0 ≤ 4 / 2 ^ 53 * (2 ^ 51 - ((i : ℚ) + 1)) := mul_nonneg (by norm_num) (by linarith)
      have : (0 : ℚ) < 1 / 2 ^ 53 * (1 / 2 ^ 53) := by norm_num
      linarith
    linarith
  linarith

/-- **strict order of the candidates below index `2^51`** -/
theorem hopCand_strict {R : ℚ → ℚ} (hR : Rounding R) {h : ℚ} (hh : 0 < h) {i j : ℕ} (hij : i < j)
    (hj : j ≤ 2 ^ 51) : R (h + R ((i : ℚ) * h)) < R (h + R ((j : ℚ) * h)) :=
  lt_of_lt_of_le (hopCand_step_lt hR hh (by omega)) (hopCand_mono hR.mono hh.le hij)

/-- a candidate vector of at most `2^51 + 1` entries is strictly increasing -/
theorem hopTimesR_strict {R : ℚ → ℚ} (hR : Rounding R) (h total : ℚ) (hh : 0 < h)
    (hlen : (hopTimesR R h total).length ≤ 2 ^ 51 + 1) :
    (hopTimesR R h total).Pairwise (fun a b => a < b) := by
  rw [hopTimesR_length] at hlen
  unfold hopTimesR
  rw [List.pairwise_map]
  have : (List.range (R (R (total - h) / h)).ceil.toNat).Pairwise
      (fun a b => a < b ∧ b < (R (R (total - h) / h)).ceil.toNat) := by
    rw [List.pairwise_iff_getElem]
    intro i j hi hj hij
    simp only [List.getElem_range]
    simp only [List.length_range] at hj
    exact ⟨hij, hj⟩
  refine this.imp ?_
  intro a b hab
  exact hopCand_strict hR hh hab.1 (by omega)

/-- strictness really stops: with `h = 3/2` the candidates number `i = 3002771347236897 < 2^52`
and `i + 1` are equal in float64 (also `h = 1`, `i = 2^53 - 1`) -/
theorem hop_not_strict_rne53 :
    rne53 (3 / 2 + rne53 ((3002771347236897 : ℕ) * (3 / 2))) =
      rne53 (3 / 2 + rne53 ((3002771347236898 : ℕ) * (3 / 2))) ∧
    rne53 (1 + rne53 ((2 ^ 53 - 1 : ℕ) * 1)) = rne53 (1 + rne53 ((2 ^ 53 : ℕ) * 1)) := by
  decide +kernel

/-- a candidate is the hop multiple up to two roundings -/
theorem hopCand_near {R : ℚ → ℚ} (hR : Rounding R) {h : ℚ} (hh : 0 < h) (i : ℕ) :
    |R (h + R ((i : ℚ) * h)) - ((i : ℚ) + 1) * h| ≤ ((i : ℚ) + 1) * h * (1 / 2 ^ 51) := by
  have hi0 : (0 : ℚ) ≤ (i : ℚ) := Nat.cast_nonneg i
  have hx0 : 0 ≤ (i : ℚ) * h := mul_nonneg hi0 hh.le
  obtain ⟨xl, xu⟩ := hR.bounds hx0
  have hA0 : 0 ≤ h + R ((i : ℚ) * h) := by have := hR.nonneg hx0; linarith
  obtain ⟨Al, Au⟩ := hR.bounds hA0
  have e1 : (h + R ((i : ℚ) * h)) * (1 + 1 / 2 ^ 53) ≤
      (h + (i : ℚ) * h * (1 + 1 / 2 ^ 53)) * (1 + 1 / 2 ^ 53) :=
    mul_le_mul_of_nonneg_right (by linarith) (by norm_num)
  have e2 : (h + (i : ℚ) * h * (1 - 1 / 2 ^ 53)) * (1 - 1 / 2 ^ 53) ≤
      (h + R ((i : ℚ) * h)) * (1 - 1 / 2 ^ 53) :=
    mul_le_mul_of_nonneg_right (by linarith) (by norm_num)
  have hih : 0 ≤ (i : ℚ) * h := hx0
  rw [abs_le]
  constructor
  · have : (h + (i : ℚ) * h * (1 - 1 / 2 ^ 53)) * (1 - 1 / 2 ^ 53) - ((i : ℚ) + 1) * h +
        ((i : ℚ) + 1) * h * (1 / 2 ^ 51) =
        h * (3 / 2 ^ 53) + (i : ℚ) * h * (2 / 2 ^ 53 + 1 / 2 ^ 53 * (1 / 2 ^ 53)) := by ring
    have : 0 ≤ h * (3 / 2 ^ 53) + (i : ℚ) * h * (2 / 2 ^ 53 + 1 / 2 ^ 53 * (1 / 2 ^ 53)) :=
      add_nonneg (mul_nonneg hh.le (by norm_num)) (mul_nonneg hih (by norm_num))
    linarith
  · have : ((i : ℚ) + 1) * h + ((i : ℚ) + 1) * h * (1 / 2 ^ 51) -
        (h + (i : ℚ) * h * (1 + 1 / 2 ^ 53)) * (1 + 1 / 2 ^ 53) =
        h * (3 / 2 ^ 53) + (i : ℚ) * h * (2 / 2 ^ 53 - 1 / 2 ^ 53 * (1 / 2 ^ 53)) := by ring
    have : 0 ≤ h * (3 / 2 ^ 53) + (i : ℚ) * h * (2 / 2 ^ 53 - 1 / 2 ^ 53 * (1 / 2 ^ 53)) :=
      add_nonneg (mul_nonneg hh.le (by norm_num)) (mul_nonneg hih (by norm_num))
    linarith

theorem hopCand_pos {R : ℚ → ℚ} (hR : Rounding R) {h : ℚ} (hh : 0 < h) (i : ℕ) :
    0 < R (h + R ((i : ℚ) * h)) := by
  have hx0 : 0 ≤ (i : ℚ) * h := mul_nonneg (Nat.cast_nonneg i) hh.le
  have := hR.nonneg hx0
  exact (round_pos_iff hR (by norm_num) _).mpr (by linarith)

/-! ## candidates against `total_time` -/

theorem round_natCast {R : ℚ → ℚ} (hR : Rounding R) (n : ℕ) (hn : n ≤ 2 ^ 53) : R (n : ℚ) = n := by
  have := hR.exact_int_le (by norm_num) (n : ℤ) (by simpa using hn)
  simpa using this

/-- an index below the float quotient is below the exact quotient of the rounded difference -/
theorem lt_quot_of_lt_round {R : ℚ → ℚ} (hR : Rounding R) {n : ℕ} (hn : n ≤ 2 ^ 53) {x : ℚ}
    (h : (n : ℚ) < R x) : (n : ℚ) < x := by
  by_contra hx
  have := hR.mono _ _ (not_lt.mp hx)
  rw [round_natCast hR n hn] at this
  linarith

/-- **every candidate but the last is strictly below `total`** (index `i` with `i + 1` still in
range, `i + 1 ≤ 2^51`) -/
theorem hopCand_lt_total {R : ℚ → ℚ} (hR : Rounding R) {h total : ℚ} (hh : 0 < h) {i : ℕ}
    (hi : i + 1 ≤ 2 ^ 51) (hq : ((i + 1 : ℕ) : ℚ) < R (R (total - h) / h)) :
    R (h + R ((i : ℚ) * h)) < total := by
  have hi0 : (0 : ℚ) ≤ (i : ℚ) := Nat.cast_nonneg i
  have hiq : (i : ℚ) + 1 ≤ 2 ^ 51 := by exact_mod_cast hi
  have hc : ((i + 1 : ℕ) : ℚ) = (i : ℚ) + 1 := by push_cast; ring
  have h1 := lt_quot_of_lt_round hR (n := i + 1) (by omega) hq
  rw [hc, lt_div_iff₀ hh] at h1
  have hd0 : 0 < R (total - h) := lt_of_le_of_lt (mul_nonneg (by linarith) hh.le) h1
  have hth : 0 < total - h := (round_pos_iff hR (by norm_num) _).mp hd0
  obtain ⟨_, du⟩ := hR.bounds hth.le
  have hx0 : 0 ≤ (i : ℚ) * h := mul_nonneg hi0 hh.le
  obtain ⟨_, xu⟩ := hR.bounds hx0
  have hA0 : 0 ≤ h + R ((i : ℚ) * h) := by have := hR.nonneg hx0; linarith
  obtain ⟨_, Au⟩ := hR.bounds hA0
  have e1 : (h + R ((i : ℚ) * h)) * (1 + 1 / 2 ^ 53) ≤
      (h + (i : ℚ) * h * (1 + 1 / 2 ^ 53)) * (1 + 1 / 2 ^ 53) :=
    mul_le_mul_of_nonneg_right (by linarith) (by norm_num)
  -- C := (h + i h (1+u))(1+u);  (C - h)(1+u) ≤ (i+1) h < (total - h)(1+u)
  have hih : (i : ℚ) * h ≤ (2 ^ 51 - 1) * h := mul_le_mul_of_nonneg_right (by linarith) hh.le
  have e2 : ((i : ℚ) + 1) * h -
      ((h + (i : ℚ) * h * (1 + 1 / 2 ^ 53)) * (1 + 1 / 2 ^ 53) - h) * (1 + 1 / 2 ^ 53) =
      h * (1 - 1 / 2 ^ 53 - 1 / 2 ^ 53 * (1 / 2 ^ 53)) -
        (i : ℚ) * h * (3 / 2 ^ 53 + 3 / 2 ^ 53 * (1 / 2 ^ 53) + 1 / 2 ^ 53 * (1 / 2 ^ 53) * (1 / 2 ^ 53)) := by
    ring
  have e3 : (i : ℚ) * h * (3 / 2 ^ 53 + 3 / 2 ^ 53 * (1 / 2 ^ 53) + 1 / 2 ^ 53 * (1 / 2 ^ 53) * (1 / 2 ^ 53)) ≤
      (2 ^ 51 - 1) * h * (3 / 2 ^ 53 + 3 / 2 ^ 53 * (1 / 2 ^ 53) + 1 / 2 ^ 53 * (1 / 2 ^ 53) * (1 / 2 ^ 53)) :=
    mul_le_mul_of_nonneg_right hih (by norm_num)
  have e4 : ((h + (i : ℚ) * h * (1 + 1 / 2 ^ 53)) * (1 + 1 / 2 ^ 53) - h) * (1 + 1 / 2 ^ 53) <
      (total - h) * (1 + 1 / 2 ^ 53) := by
    have : (2 ^ 51 - 1) * h * (3 / 2 ^ 53 + 3 / 2 ^ 53 * (1 / 2 ^ 53) + 1 / 2 ^ 53 * (1 / 2 ^ 53) * (1 / 2 ^ 53)) ≤
        h * (1 - 1 / 2 ^ 53 - 1 / 2 ^ 53 * (1 / 2 ^ 53)) := by
      have : h * (1 - 1 / 2 ^ 53 - 1 / 2 ^ 53 * (1 / 2 ^ 53)) -
          (2 ^ 51 - 1) * h * (3 / 2 ^ 53 + 3 / 2 ^ 53 * (1 / 2 ^ 53) + 1 / 2 ^ 53 * (1 / 2 ^ 53) * (1 / 2 ^ 53)) =
          h * ((1 - 1 / 2 ^ 53 - 1 / 2 ^ 53 * (1 / 2 ^ 53)) -
            (2 ^ 51 - 1) * (3 / 2 ^ 53 + 3 / 2 ^ 53 * (1 / 2 ^ 53) + 1 / 2 ^ 53 * (1 / 2 ^ 53) * (1 / 2 ^ 53))) := by
        ring
      have : 0 ≤ h * ((1 - 1 / 2 ^ 53 - 1 / 2 ^ 53 * (1 / 2 ^ 53)) -
            (2 ^ 51 - 1) * (3 / 2 ^ 53 + 3 / 2 ^ 53 * (1 / 2 ^ 53) + 1 / 2 ^ 53 * (1 / 2 ^ 53) * (1 / 2 ^ 53))) :=
        mul_nonneg hh.le (by norm_num)
      linarith
    linarith
  have e5 := lt_of_mul_lt_mul_right e4 (by norm_num : (0 : ℚ) ≤ 1 + 1 / 2 ^ 53)
  linarith

/-- the last candidate may reach or pass `total`, but by less than `2^-51` relative -/
theorem hopCand_lt_total_near {R : ℚ → ℚ} (hR : Rounding R) {h total : ℚ} (hh : 0 < h) {i : ℕ}
    (hi : i ≤ 2 ^ 53) (hq : (i : ℚ) < R (R (total - h) / h)) :
    h < total ∧ R (h + R ((i : ℚ) * h)) < total * (1 + 1 / 2 ^ 51) := by
  have hi0 : (0 : ℚ) ≤ (i : ℚ) := Nat.cast_nonneg i
  have h1 := lt_quot_of_lt_round hR hi hq
  rw [lt_div_iff₀ hh] at h1
  have hx0 : 0 ≤ (i : ℚ) * h := mul_nonneg hi0 hh.le
  have hd0 : 0 < R (total - h) := lt_of_le_of_lt hx0 h1
  have hth : 0 < total - h := (round_pos_iff hR (by norm_num) _).mp hd0
  refine ⟨by linarith, ?_⟩
  obtain ⟨_, du⟩ := hR.bounds hth.le
  obtain ⟨_, xu⟩ := hR.bounds hx0
  have hA0 : 0 ≤ h + R ((i : ℚ) * h) := by have := hR.nonneg hx0; linarith
  obtain ⟨_, Au⟩ := hR.bounds hA0
  have e1 : (h + R ((i : ℚ) * h)) * (1 + 1 / 2 ^ 53) ≤
      (h + (i : ℚ) * h * (1 + 1 / 2 ^ 53)) * (1 + 1 / 2 ^ 53) :=
    mul_le_mul_of_nonneg_right (by linarith) (by norm_num)
  have e2 : (i : ℚ) * h * (1 + 1 / 2 ^ 53) < (total - h) * (1 + 1 / 2 ^ 53) * (1 + 1 / 2 ^ 53) :=
    mul_lt_mul_of_pos_right (by linarith) (by norm_num)
  have e3 : (h + (i : ℚ) * h * (1 + 1 / 2 ^ 53)) * (1 + 1 / 2 ^ 53) <
      (h + (total - h) * (1 + 1 / 2 ^ 53) * (1 + 1 / 2 ^ 53)) * (1 + 1 / 2 ^ 53) :=
    mul_lt_mul_of_pos_right (by linarith) (by norm_num)
  have e4 : total * (1 + 1 / 2 ^ 51) -
      (h + (total - h) * (1 + 1 / 2 ^ 53) * (1 + 1 / 2 ^ 53)) * (1 + 1 / 2 ^ 53) =
      h * (3 / 2 ^ 53) + (total - h) * (1 / 2 ^ 53 - 3 / 2 ^ 53 * (1 / 2 ^ 53) -
        1 / 2 ^ 53 * (1 / 2 ^ 53) * (1 / 2 ^ 53)) := by ring
  have e5 : 0 ≤ h * (3 / 2 ^ 53) + (total - h) * (1 / 2 ^ 53 - 3 / 2 ^ 53 * (1 / 2 ^ 53) -
        1 / 2 ^ 53 * (1 / 2 ^ 53) * (1 / 2 ^ 53)) :=
    add_nonneg (mul_nonneg hh.le (by norm_num)) (mul_nonneg hth.le (by norm_num))
  linarith

/-- `numpy.arange(0.1, 0.30000000000000004, 0.1)` ends with `0.30000000000000004` itself: the last
candidate is NOT below `total` (while the exact multiple `3 * 0.1` is) -/
theorem hop_last_eq_total_rne53 :
    let h : ℚ := 3602879701896397 / 2 ^ 55; let total : ℚ := 1351079888211149 / 2 ^ 52
    rne53 h = h ∧ rne53 total = total ∧ (hopTimesR rne53 h total).length = 3 ∧
      (hopTimesR rne53 h total).getLast? = some total ∧ 3 * h < total := by
  decide +kernel

/-- `numpy.arange(h, total, h)` for `h = 1.6853881081977304`, `total = 10.112328649186383` ends with
`10.112328649186384 > total` -/
theorem hop_last_gt_total_rne53 :
    let h : ℚ := 1897578314013491 / 2 ^ 50; let total : ℚ := 5692734942040473 / 2 ^ 49
    rne53 h = h ∧ rne53 total = total ∧ (hopTimesR rne53 h total).length = 6 ∧
      (hopTimesR rne53 h total).getLast? = some (total + 1 / 2 ^ 49) := by
  decide +kernel

/-! ## the vector handed to the extractor is always accepted -/

/-- the split-time vector `splitWith` builds from the accepted candidates `vs` -/
def splitVector (s : NoteSeq) (vs : List ℚ) : List ℚ :=
  if s.totalTime > (0 :: vs).getLast (List.cons_ne_nil _ _) then (0 :: vs) ++ [s.totalTime] else 0 :: vs

theorem le_getLast_of_sorted (l : List ℚ) (hne : l ≠ []) (hs : SortedLE l) :
    ∀ x ∈ l, x ≤ l.getLast hne := by
  intro x hx
  have hl := List.dropLast_concat_getLast hne
  rw [← hl] at hx hs
  rcases List.mem_append.mp hx with h | h
  · exact (List.pairwise_append.mp hs).2.2 x h _ (by simp)
  · simp at h; rw [h]

theorem mem_dropLast_filter {α : Type} (p : α → Bool) (l : List α) :
    ∀ t ∈ (l.filter p).dropLast, t ∈ l.dropLast := by
  induction l with
  | nil => simp
  | cons x xs ih =>
    intro t ht
    by_cases hp : p x = true
    · rw [List.filter_cons_of_pos hp] at ht
      by_cases hf : xs.filter p = []
      · rw [hf] at ht; simp at ht
      · have hxs : xs ≠ [] := by rintro rfl; simp at hf
        rw [List.dropLast_cons_of_ne_nil hf] at ht
        rw [List.dropLast_cons_of_ne_nil hxs]
        rcases List.mem_cons.mp ht with h | h
        · rw [h]; simp
        · exact List.mem_cons_of_mem _ (ih t h)
    · rw [List.filter_cons_of_neg hp] at ht
      have h' := ih t ht
      have hxs : xs ≠ [] := by rintro rfl; simp at h'
      rw [List.dropLast_cons_of_ne_nil hxs]
      exact List.mem_cons_of_mem _ h'

/-- whenever the accepted candidates are nonnegative, sorted and all but the last below
`total_time` (and `total_time > 0` if there are any), `_extract_subsequences` accepts the vector:
the result is the list of closed-form pieces of `splitVector` (`[]` when it is `[0]`) -/
theorem splitWith_ok (R : ℚ → ℚ) (preserve : List Int) (s : NoteSeq) (vs : List ℚ)
    (hq : s.isQuantized = false) (hs : SortedLE vs) (h0 : ∀ t ∈ vs, 0 ≤ t)
    (hins : ∀ t ∈ vs.dropLast, t < s.totalTime) (htot : vs ≠ [] → 0 < s.totalTime) :
    splitWith R preserve s vs = .ok ((pairs (splitVector s vs)).map (specPiece R preserve s)) := by
  have hs0 : SortedLE (0 :: vs) := List.pairwise_cons.mpr ⟨h0, hs⟩
  unfold splitWith
  show (if (splitVector s vs).length > 1 then extractSubsequencesR R preserve s (splitVector s vs)
    else .ok []) = _
  by_cases hc : s.totalTime > (0 :: vs).getLast (List.cons_ne_nil _ _)
  · have hv : splitVector s vs = (0 :: vs) ++ [s.totalTime] := by simp [splitVector, hc]
    have hle := le_getLast_of_sorted (0 :: vs) (List.cons_ne_nil _ _) hs0
    have hvalid : Valid s ((0 :: vs) ++ [s.totalTime]) := by
      refine ⟨hq, by simp, ?_, ?_⟩
      · refine List.pairwise_append.mpr ⟨hs0, by simp, ?_⟩
        intro x hx y hy
        simp at hy; rw [hy]
        exact (lt_of_le_of_lt (hle x hx) hc).le
      · intro t ht
        rw [List.dropLast_concat] at ht
        exact lt_of_le_of_lt (hle t ht) hc
    rw [hv, if_pos (by simp), extract_eq_spec R preserve s _ hvalid]
  · have hv : splitVector s vs = 0 :: vs := by simp [splitVector, hc]
    rw [hv]
    cases vs with
    | nil => simp [pairs]
    | cons v r =>
      have hvalid : Valid s (0 :: v :: r) := by
        refine ⟨hq, by simp, hs0, ?_⟩
        intro t ht
        rw [List.dropLast_cons_of_ne_nil (List.cons_ne_nil _ _)] at ht
        rcases List.mem_cons.mp ht with h | h
        · rw [h]; exact htot (List.cons_ne_nil _ _)
        · exact hins t h
      rw [if_pos (by simp), extract_eq_spec R preserve s _ hvalid]

theorem mem_dropLast_hopTimesR (R : ℚ → ℚ) (h total t : ℚ) (ht : t ∈ (hopTimesR R h total).dropLast) :
    ∃ i : ℕ, i + 1 < (hopTimesR R h total).length ∧ t = R (h + R ((i : ℚ) * h)) := by
  rw [hopTimesR_length]
  simp only [hopTimesR] at ht
  generalize (R (R (total - h) / h)).ceil.toNat = n at ht ⊢
  cases n with
  | zero => simp at ht
  | succ m =>
    rw [List.range_succ, List.map_append, List.map_singleton, List.dropLast_concat] at ht
    obtain ⟨i, hi, rfl⟩ := List.mem_map.mp ht
    exact ⟨i, by simpa using hi, rfl⟩

/-- the float hop candidates (after the `skip_splits_inside_notes` filter) satisfy the hypotheses of
`splitWith_ok`, provided there are at most `2^51 + 1` of them -/
theorem hop_vector_ok {R : ℚ → ℚ} (hR : Rounding R) (s : NoteSeq) (h : ℚ) (hh : 0 < h)
    (p : ℚ → Bool) (hlen : (hopTimesR R h s.totalTime).length ≤ 2 ^ 51 + 1) :
    SortedLE ((hopTimesR R h s.totalTime).filter p) ∧
    (∀ t ∈ (hopTimesR R h s.totalTime).filter p, 0 ≤ t) ∧
    (∀ t ∈ ((hopTimesR R h s.totalTime).filter p).dropLast, t < s.totalTime) ∧
    ((hopTimesR R h s.totalTime).filter p ≠ [] → 0 < s.totalTime) := by
  refine ⟨(hopTimesR_sorted hR.mono h _ hh.le).filter _, ?_, ?_, ?_⟩
  · intro t ht
    obtain ⟨i, _, rfl⟩ := (mem_hopTimesR R h _ t).mp (List.mem_filter.mp ht).1
    exact (hopCand_pos hR hh i).le
  · intro t ht
    obtain ⟨i, hi, rfl⟩ := mem_dropLast_hopTimesR R h _ t (mem_dropLast_filter p _ t ht)
    have hi' := hi
    rw [hopTimesR_length] at hi'
    exact hopCand_lt_total hR hh (by omega) ((lt_hopLen_iff R h _ (i + 1)).mp hi')
  · intro hne
    obtain ⟨t, ht⟩ := List.exists_mem_of_ne_nil _ hne
    obtain ⟨i, hi, rfl⟩ := (mem_hopTimesR R h _ t).mp (List.mem_filter.mp ht).1
    have hil : i < (hopTimesR R h s.totalTime).length := by
      rw [hopTimesR_length]; exact (lt_hopLen_iff R h _ i).mpr hi
    have := (hopCand_lt_total_near hR hh (i := i) (by omega) hi).1
    linarith

/-! ## state in effect, for every rounding operator -/

section ineffect
variable {p : ℕ} {R : ℚ → ℚ}

theorem specStateS_sorted_R {α : Type} (hR : RoundingP p R) (time : α → ℚ) (setTime : α → ℚ → α)
    (htime : ∀ e t, time (setTime e t) = t) (S : List α)
    (hS : S.Pairwise (fun x y => time x ≤ time y)) (a b : ℚ) :
    (specStateS R time setTime S a b).Pairwise (fun x y => time x ≤ time y) := by
  unfold specStateS
  rw [List.pairwise_append]
  refine ⟨?_, ?_, ?_⟩
  · cases (S.filter (fun e => decide (time e ≤ a))).getLast? <;> simp
  · rw [List.pairwise_map]
    refine (hS.filter _).imp ?_
    intro x y hxy
    simp only [htime]
    exact shift_mono hR a hxy
  · intro x hx y hy
    have hx0 : time x = 0 := by
      cases h : (S.filter (fun e => decide (time e ≤ a))).getLast? with
      | none => simp [h] at hx
      | some e => simp [h] at hx; subst hx; exact htime e 0
    obtain ⟨e, he, rfl⟩ := List.mem_map.mp hy
    have := (List.mem_filter.mp he).2
    simp only [htime, hx0]
    simp at this
    exact shift_nonneg hR this.1.le

/-- **core of the float in-effect argument.**  `τ` (an instant of the piece) and `T` (an instant of
the original, `a ≤ T < b`) correspond when no event inside the piece is moved across by the rounding
of its shift: `R (time e - a) ≤ τ ↔ time e ≤ T`.  Then the state in effect is the same. -/
theorem specStateS_last_R {α β : Type} (time : α → ℚ) (setTime : α → ℚ → α) (val : α → β)
    (htime : ∀ e t, time (setTime e t) = t) (hval : ∀ e t, val (setTime e t) = val e)
    (S : List α) (hS : S.Pairwise (fun x y => time x ≤ time y)) (a b τ T : ℚ) (h0 : 0 ≤ τ)
    (hT : a ≤ T) (hTb : T < b)
    (hc : ∀ e ∈ S, a < time e → time e < b → (R (time e - a) ≤ τ ↔ time e ≤ T)) :
    ((specStateS R time setTime S a b).filter (fun e => decide (time e ≤ τ))).getLast?.map val =
      (S.filter (fun e => decide (time e ≤ T))).getLast?.map val := by
  rw [sorted_filter_le_split time S hS a T hT]
  unfold specStateS
  rw [List.filter_append, List.getLast?_append, List.getLast?_append]
  have hcarry : ∀ o : Option α,
      ((match o with | none => ([] : List α) | some e => [setTime e 0]).filter
        (fun e => decide (time e ≤ τ))).getLast?.map val = o.map val := by
    intro o
    cases o with
    | none => simp
    | some e => simp [htime, h0, hval]
  have hins : (((S.filter (fun e => decide (a < time e) && decide (time e < b))).map
        (fun e => setTime e (R (time e - a)))).filter (fun e => decide (time e ≤ τ))).getLast?.map val =
      (S.filter (fun e => decide (a < time e) && decide (time e ≤ T))).getLast?.map val := by
    rw [List.filter_map, List.filter_filter, getLast?_map', Option.map_map]
    have hf : S.filter (fun e => ((fun e => decide (time e ≤ τ)) ∘ fun e => setTime e (R (time e - a))) e &&
          (decide (a < time e) && decide (time e < b))) =
        S.filter (fun e => decide (a < time e) && decide (time e ≤ T)) := by
      apply List.filter_congr
      intro e he
      simp only [Function.comp, htime]
      by_cases h1' : a < time e
      · by_cases h2 : time e < b
        · have := hc e he h1' h2
          by_cases h3 : time e ≤ T <;> simp [h1', h2, h3, this]
        · have h3 : ¬ time e ≤ T := fun h => h2 (lt_of_le_of_lt h hTb)
          simp [h1', h2, h3]
      · simp [h1']
    rw [hf]
    congr 1
    funext e
    simp [hval]
  rw [Option.map_or, Option.map_or, hins]
  congr 1
  exact hcarry _

/-- generic float in-effect lemma for the four state kinds -/
theorem specState_in_effect_R {α β : Type} (hR : RoundingP p R) (time : α → ℚ) (setTime : α → ℚ → α)
    (val : α → β) (htime : ∀ e t, time (setTime e t) = t) (hval : ∀ e t, val (setTime e t) = val e)
    (evs : List α) (a b τ T : ℚ) (h0 : 0 ≤ τ) (hT : a ≤ T) (hTb : T < b)
    (hc : ∀ e ∈ evs, a < time e → time e < b → (R (time e - a) ≤ τ ↔ time e ≤ T)) :
    (inEffect time (specState R time setTime evs a b) τ).map val = (inEffect time evs T).map val := by
  have hS := sortByRat_pairwise time evs
  unfold inEffect
  rw [specState_eq, sortByRat_of_pairwise time _ (specStateS_sorted_R hR time setTime htime _ hS a b)]
  exact specStateS_last_R time setTime val htime hval _ hS a b τ T h0 hT hTb
    (fun e he => hc e ((sortByRat_perm _ _).mem_iff.mp he))

/-- every event of a float piece has `0 ≤ time ≤ R (b - a)`, and the events are in time order -/
theorem specState_times_R {α : Type} (hR : RoundingP p R) (time : α → ℚ) (setTime : α → ℚ → α)
    (htime : ∀ e t, time (setTime e t) = t) (evs : List α) (a b : ℚ) (hab : a ≤ b) :
    (specState R time setTime evs a b).Pairwise (fun x y => time x ≤ time y) ∧
    ∀ x ∈ specState R time setTime evs a b, 0 ≤ time x ∧ time x ≤ R (b - a) := by
  refine ⟨?_, ?_⟩
  · rw [specState_eq]
    exact specStateS_sorted_R hR time setTime htime _ (sortByRat_pairwise time evs) a b
  intro x hx
  unfold specState at hx
  rcases List.mem_append.mp hx with h | h
  · cases hl : ((sortByRat time evs).filter (fun e => decide (time e ≤ a))).getLast? with
    | none => simp [hl] at h
    | some e => simp [hl] at h; subst h; rw [htime]; exact ⟨le_refl _, shift_nonneg hR hab⟩
  · obtain ⟨e, he, rfl⟩ := List.mem_map.mp h
    have := (List.mem_filter.mp he).2
    simp at this
    simp only [htime]
    exact ⟨shift_nonneg hR this.1.le, shift_mono hR a this.2.le⟩

/-! ### which instants correspond -/

/-- the start of a piece corresponds to the cut: no event inside the piece lands on time 0 -/
theorem corr_start (hR : RoundingP p R) (hp : 1 ≤ p) (a t : ℚ) (ht : a < t) :
    R (t - a) ≤ 0 ↔ t ≤ a := by
  have := (shift_pos_iff hR hp a t).mpr ht
  constructor <;> intro h <;> linarith

/-- `R (T - a)` corresponds to `T` when no later event inside the piece collapses onto it -/
theorem corr_rounded (hR : RoundingP p R) (a b T t : ℚ)
    (hnc : T < t → t < b → R (T - a) < R (t - a)) (htb : t < b) :
    R (t - a) ≤ R (T - a) ↔ t ≤ T := by
  constructor
  · intro h
    by_contra hn
    have := hnc (not_le.mp hn) htb
    linarith
  · intro h; exact shift_mono hR a h

/-- for every instant `T` of `[a, b)` and every finite set of event times there is an instant
`T' ∈ [T, b)` that the shift cannot tell from `T` (`R (T' - a) = R (T - a)`) such that `R (T - a)`
corresponds to `T'` -/
theorem corr_exists (hR : RoundingP p R) (times : List ℚ) (a b T : ℚ) (hTb : T < b) :
    ∃ T', T ≤ T' ∧ T' < b ∧ R (T' - a) = R (T - a) ∧
      ∀ t ∈ times, a < t → t < b → (R (t - a) ≤ R (T - a) ↔ t ≤ T') := by
  induction times with
  | nil => exact ⟨T, le_refl _, hTb, rfl, by simp⟩
  | cons t ts ih =>
    obtain ⟨T₁, h1, h2, h3, h4⟩ := ih
    by_cases hc : (a < t ∧ t < b ∧ R (t - a) ≤ R (T - a)) ∧ T₁ < t
    · obtain ⟨⟨c1, c2, c3⟩, c4⟩ := hc
      have hTt : T ≤ t := by linarith
      refine ⟨t, hTt, c2, le_antisymm c3 (shift_mono hR a hTt), ?_⟩
      intro x hx hax hxb
      rcases List.mem_cons.mp hx with rfl | hx
      · exact ⟨fun _ => le_refl _, fun _ => c3⟩
      · constructor
        · intro h; have := (h4 x hx hax hxb).mp h; linarith
        · intro h; exact (shift_mono hR a h).trans c3
    · refine ⟨T₁, h1, h2, h3, ?_⟩
      intro x hx hax hxb
      rcases List.mem_cons.mp hx with rfl | hx
      · constructor
        · intro h
          by_contra hn
          exact hc ⟨⟨hax, hxb, h⟩, not_le.mp hn⟩
        · intro h; rw [← h3]; exact shift_mono hR a h
      · exact h4 x hx hax hxb

end ineffect

/-! ### pedals -/

/-- the float pedal piece restricted to one key is the generic state piece of that key's events -/
theorem pedalPiece_filter_R (R : ℚ → ℚ) (S : List CC) (a b : ℚ) (κ : PedalKey) :
    (pieceSpec (pedalL R) [] S (a, b)).filter (fun e => decide (CC.key e = κ)) =
      specStateS R (·.time) CC.setTime (S.filter (fun e => decide (CC.key e = κ))) a b := by
  unfold pieceSpec specStateS
  rw [List.filter_append]
  congr 1
  · have hkey : ∀ (l : List (PedalKey × CC)),
        (l.map (fun kv => CC.setTime kv.2 0)).filter (fun e => decide (CC.key e = κ)) =
          (proj κ l).map (fun e => CC.setTime e 0) := by
      intro l
      unfold proj
      rw [List.filter_map, List.filter_map, List.map_map]
      rfl
    have hm : (pedalL R).enter (memAt (pedalL R) [] (a, b).1 S) =
        ((S.filter (fun e => decide (e.time ≤ a))).foldl (fun m e => assocSet m (CC.key e) e) []).map
          (fun kv => CC.setTime kv.2 0) := by
      simp only [pedalL, memAt, before, ↓reduceIte]
      rfl
    rw [hm, hkey, proj_foldl κ _ [] ⟨by simp, by simp⟩, List.filter_filter]
    have : S.filter (fun e => decide (CC.key e = κ) && decide (e.time ≤ a)) =
        (S.filter (fun e => decide (CC.key e = κ))).filter (fun e => decide (e.time ≤ a)) := by
      rw [List.filter_filter]
      apply List.filter_congr; intro e _; exact Bool.and_comm _ _
    rw [this]
    cases ((S.filter (fun e => decide (CC.key e = κ))).filter (fun e => decide (e.time ≤ a))).getLast? <;>
      simp [proj]
  · have hi : inside (pedalL R) (a, b).1 (a, b).2 S =
        (S.filter (fun e => decide (a < e.time) && decide (e.time < b))).map
          (fun e => CC.setTime e (R (e.time - a))) := by
      simp only [inside, pedalL, within, ↓reduceIte]
      rfl
    rw [hi, List.filter_map, List.filter_filter, List.filter_filter]
    congr 1
    apply List.filter_congr
    intro e _
    simp [CC.key, CC.setTime, Bool.and_comm]; rfl

/-- the whole float pedal piece is in time order, with `0 ≤ time ≤ R (b - a)` -/
theorem specPedals_times_R {p : ℕ} {R : ℚ → ℚ} (hR : RoundingP p R) (preserve : List Int) (s : NoteSeq)
    (a b : ℚ) (hab : a ≤ b) :
    (specPedals R preserve s a b).Pairwise (fun x y => x.time ≤ y.time) ∧
    ∀ x ∈ specPedals R preserve s a b, 0 ≤ x.time ∧ x.time ≤ R (b - a) := by
  have hS := sortByRat_pairwise (fun e : CC => e.time) (pedals preserve s)
  have hin : ∀ y ∈ inside (pedalL R) (a, b).1 (a, b).2 (sortByRat (fun e : CC => e.time) (pedals preserve s)),
      0 ≤ y.time ∧ y.time ≤ R (b - a) := by
    intro y hy
    simp only [inside, pedalL, List.mem_map, within, ↓reduceIte] at hy
    obtain ⟨e, he, rfl⟩ := hy
    have := (List.mem_filter.mp he).2
    simp only [Bool.and_eq_true] at this
    exact ⟨shift_nonneg hR (of_decide_eq_true this.1).le, shift_mono hR a (of_decide_eq_true this.2).le⟩
  constructor
  · unfold specPedals pieceSpec
    rw [List.pairwise_append]
    refine ⟨?_, ?_, ?_⟩
    · simp only [pedalL, List.pairwise_map, CC.setTime]
      exact List.pairwise_of_forall (fun _ _ => le_refl _)
    · simp only [inside, pedalL, List.pairwise_map, CC.setTime]
      refine (hS.filter _).imp ?_
      intro x y hxy; exact shift_mono hR a hxy
    · intro x hx y hy
      simp only [pedalL, List.mem_map, CC.setTime] at hx
      obtain ⟨kv, _, rfl⟩ := hx
      exact (hin y hy).1
  · intro x hx
    unfold specPedals pieceSpec at hx
    rcases List.mem_append.mp hx with h | h
    · simp only [pedalL, List.mem_map, CC.setTime] at h
      obtain ⟨kv, _, rfl⟩ := h
      exact ⟨le_refl _, shift_nonneg hR hab⟩
    · exact hin x h

/-- **float pedal in-effect lemma**, per (instrument, control number), for corresponding instants -/
theorem specPedals_in_effect_R {p : ℕ} {R : ℚ → ℚ} (hR : RoundingP p R) (preserve : List Int)
    (s : NoteSeq) (a b τ T : ℚ) (κ : PedalKey) (h0 : 0 ≤ τ) (hT : a ≤ T) (hTb : T < b)
    (hc : ∀ e ∈ pedals preserve s, CC.key e = κ → a < e.time → e.time < b →
      (R (e.time - a) ≤ τ ↔ e.time ≤ T)) :
    (inEffectKey (specPedals R preserve s a b) κ τ).map (fun e => CC.setTime e 0) =
      (inEffectKey (pedals preserve s) κ T).map (fun e => CC.setTime e 0) := by
  have hS := sortByRat_pairwise (fun e : CC => e.time) (pedals preserve s)
  have hSκ := hS.filter (fun e => decide (CC.key e = κ))
  unfold inEffectKey
  rw [sortByRat_of_pairwise _ _ (specPedals_times_R hR preserve s a b (by linarith)).1]
  unfold specPedals
  rw [pedalPiece_filter_R]
  refine specStateS_last_R (·.time) CC.setTime (fun e => CC.setTime e 0) (fun _ _ => rfl) (fun _ _ => rfl)
    _ hSκ a b τ T h0 hT hTb ?_
  intro e he
  have h1 := List.mem_filter.mp he
  exact hc e ((sortByRat_perm _ _).mem_iff.mp h1.1) (by simpa using h1.2)

end NSV.C02
