import NoteSeqVerif.Proofs.C06MelNotes
/-! C06 — Melody: an event list that reads a chain of notes position by position (`ruleAt`, which is what C07's
`melody_steps` says of the extractor's output) is canonical.  The scanning predicates of `CanonicalMelody` are
established by induction over the positions, with the state of each scan expressed through the latest onset before
the position.  (core Lean only) -/
namespace NSV.C06

/-- the values `f k, f (k+1), …, f (k+n−1)` -/
def tab (f : Int → Int) : Int → Nat → List Int
  | _, 0 => []
  | k, n + 1 => f k :: tab f (k + 1) n

theorem tab_length (f : Int → Int) : ∀ (n : Nat) (k : Int), (tab f k n).length = n := by
  intro n; induction n with
  | zero => intro k; rfl
  | succ n ih => intro k; simp [tab, ih]

theorem tab_getElem? (f : Int → Int) : ∀ (n : Nat) (k : Int) (i : Nat), i < n → (tab f k n)[i]? = some (f (k + i)) := by
  intro n; induction n with
  | zero => intro k i hi; omega
  | succ n ih =>
    intro k i hi
    cases i with
    | zero => simp [tab]
    | succ j =>
      simp only [tab, List.getElem?_cons_succ]
      rw [ih (k + 1) j (by omega)]
      congr 2; push_cast; omega

theorem eq_tab (f : Int → Int) (E : List Int) (h : ∀ i : Nat, i < E.length → E[i]? = some (f i)) :
    E = tab f 0 E.length := by
  apply List.ext_getElem?
  intro i
  by_cases hi : i < E.length
  · rw [h i hi, tab_getElem? f _ 0 i hi]; simp
  · rw [List.getElem?_eq_none (by omega), List.getElem?_eq_none (by rw [tab_length]; omega)]

theorem tab_append (f : Int → Int) : ∀ (n m : Nat) (k : Int), tab f k (n + m) = tab f k n ++ tab f (k + n) m := by
  intro n; induction n with
  | zero => intro m k; simp [tab]
  | succ n ih =>
    intro m k
    rw [show n + 1 + m = (n + m) + 1 by omega]
    simp only [tab, List.cons_append, ih m (k + 1)]
    congr 3; push_cast; omega

theorem tab_const (f : Int → Int) (c : Int) : ∀ (n : Nat) (k : Int), (∀ t, k ≤ t → t < k + n → f t = c) →
    tab f k n = List.replicate n c := by
  intro n; induction n with
  | zero => intro k _; rfl
  | succ n ih =>
    intro k h
    simp only [tab, List.replicate_succ]
    rw [h k (by omega) (by push_cast; omega), ih (k + 1) (fun t h1 h2 => h t (by omega) (by push_cast; omega))]

/-! ### the latest onset before a position -/

def latest (N : List SNote) (t : Int) : Option SNote := (N.filter (fun d => decide (d.a < t))).getLast?
def onset (N : List SNote) (t : Int) : Option SNote := N.find? (fun d => d.a == t)

theorem ruleAt_eq (N : List SNote) (t : Int) :
    ruleAt N t = match onset N t with
      | some d => d.pitch
      | none => match latest N t with
        | some d => if d.b = t then C07.Gen.MELODY_NOTE_OFF else C07.Gen.MELODY_NO_EVENT
        | none => C07.Gen.MELODY_NO_EVENT := rfl

theorem onset_some {N : List SNote} {t : Int} {d : SNote} (h : onset N t = some d) : d ∈ N ∧ d.a = t := by
  unfold onset at h
  exact ⟨List.mem_of_find?_eq_some h, by have := List.find?_some h; simpa using this⟩

theorem onset_none {N : List SNote} {t : Int} (h : onset N t = none) : ∀ d ∈ N, d.a ≠ t := by
  unfold onset at h
  intro d hd
  have := List.find?_eq_none.mp h d hd
  simpa using this

/-- moving one position on: the latest onset becomes the note starting here, if there is one -/
theorem latest_succ : ∀ (N : List SNote) (t : Int), N.Pairwise (fun x y => x.a < y.a) →
    latest N (t + 1) = match onset N t with
      | some d => some d
      | none => latest N t := by
  intro N
  induction N with
  | nil => intro t _; rfl
  | cons n N ih =>
    intro t hs
    obtain ⟨hn, hs'⟩ := List.pairwise_cons.mp hs
    have ih' := ih t hs'
    unfold latest onset at *
    by_cases h1 : n.a < t
    · -- n is before t: it stays in both filters, not an onset at t
      have e1 : (n.a == t) = false := by simp; omega
      have e2 : decide (n.a < t + 1) = true := by simp; omega
      have e3 : decide (n.a < t) = true := by simp; omega
      simp only [List.find?_cons, e1, List.filter_cons, e2, e3, ↓reduceIte]
      cases hf1 : N.filter (fun d => decide (d.a < t + 1)) with
      | nil =>
        rw [hf1] at ih'
        cases hfo : N.find? (fun d => d.a == t) with
        | some d =>
          rw [hfo] at ih'; simp at ih'
        | none =>
          rw [hfo] at ih'
          simp only [List.getLast?_nil] at ih'
          have : N.filter (fun d => decide (d.a < t)) = [] := by
            cases hf0 : N.filter (fun d => decide (d.a < t)) with
            | nil => rfl
            | cons y ys =>
              rw [hf0] at ih'
              exact absurd (List.getLast?_eq_none_iff.mp ih'.symm) (by simp)
          rw [this]
      | cons y ys =>
        rw [hf1] at ih'
        rw [List.getLast?_cons_cons, ih']
        cases hfo : N.find? (fun d => d.a == t) with
        | some d => rfl
        | none =>
          simp only
          cases hf0 : N.filter (fun d => decide (d.a < t)) with
          | nil =>
            -- then y would have to be an onset at t
            exfalso
            have hy : y ∈ N.filter (fun d => decide (d.a < t + 1)) := by rw [hf1]; exact List.mem_cons_self ..
            rw [List.mem_filter] at hy
            have hya : y.a < t + 1 := by simpa using hy.2
            have : ¬ y.a < t := by
              intro hlt
              have : y ∈ N.filter (fun d => decide (d.a < t)) := List.mem_filter.mpr ⟨hy.1, by simpa using hlt⟩
              rw [hf0] at this; simp at this
            have hne := List.find?_eq_none.mp hfo y hy.1
            simp at hne; omega
          | cons z zs => rw [List.getLast?_cons_cons]
    · -- n is at or after t: everything later is after t
      have hN : ∀ d ∈ N, ¬ d.a < t + 1 := by intro d hd; have := hn d hd; omega
      have hf1 : N.filter (fun d => decide (d.a < t + 1)) = [] := by
        rw [List.filter_eq_nil_iff]; intro d hd; have := hN d hd; simpa using this
      have hf0 : N.filter (fun d => decide (d.a < t)) = [] := by
        rw [List.filter_eq_nil_iff]; intro d hd; have := hN d hd; simp; omega
      have e3 : decide (n.a < t) = false := by simp; omega
      by_cases h2 : n.a = t
      · have e1 : (n.a == t) = true := by simp [h2]
        have e2 : decide (n.a < t + 1) = true := by simp; omega
        simp [List.find?_cons, e1, List.filter_cons, e2, hf1]
      · have e1 : (n.a == t) = false := by simp [h2]
        have e2 : decide (n.a < t + 1) = false := by simp; omega
        have hfo : N.find? (fun d => d.a == t) = none := by
          rw [List.find?_eq_none]; intro d hd; have := hn d hd; simp; omega
        simp [List.find?_cons, e1, List.filter_cons, e2, e3, hf1, hf0, hfo]

theorem latest_some {N : List SNote} {t : Int} {x : SNote} (h : latest N t = some x) : x ∈ N ∧ x.a < t := by
  unfold latest at h
  have := List.mem_of_getLast? h
  rw [List.mem_filter] at this
  exact ⟨this.1, by simpa using this.2⟩

theorem latest_none {N : List SNote} {t : Int} (h : latest N t = none) : ∀ d ∈ N, ¬ d.a < t := by
  unfold latest at h
  rw [List.getLast?_eq_none_iff, List.filter_eq_nil_iff] at h
  intro d hd; simpa using h d hd

/-- the latest onset before the onset of `y` is `y`'s predecessor in the (sorted) list -/
theorem latest_pred : ∀ (N : List SNote) (x y : SNote), N.Pairwise (fun x y => x.a < y.a) → y ∈ N →
    latest N y.a = some x → ∃ pre post, N = pre ++ x :: y :: post := by
  intro N
  induction N with
  | nil => intro x y _ hy; simp at hy
  | cons n N ih =>
    intro x y hs hy hl
    obtain ⟨hn, hs'⟩ := List.pairwise_cons.mp hs
    rcases List.mem_cons.mp hy with rfl | hy'
    · -- y is the head: nothing is before it
      exfalso
      obtain ⟨hx, hxa⟩ := latest_some hl
      rcases List.mem_cons.mp hx with rfl | hx'
      · omega
      · have := hn x hx'; omega
    · have hny := hn y hy'
      unfold latest at hl
      have e : decide (n.a < y.a) = true := by simp; omega
      simp only [List.filter_cons, e, ↓reduceIte] at hl
      cases hf : N.filter (fun d => decide (d.a < y.a)) with
      | nil =>
        rw [hf] at hl
        simp only [List.getLast?_singleton, Option.some.injEq] at hl
        subst hl
        -- y must be the head of N
        cases N with
        | nil => simp at hy'
        | cons m N' =>
          rcases List.mem_cons.mp hy' with rfl | hy''
          · exact ⟨[], N', rfl⟩
          · exfalso
            have hm := (List.pairwise_cons.mp hs').1 y hy''
            have : m ∈ (m :: N').filter (fun d => decide (d.a < y.a)) :=
              List.mem_filter.mpr ⟨List.mem_cons_self .., by simpa using hm⟩
            rw [hf] at this; simp at this
      | cons z zs =>
        rw [hf, List.getLast?_cons_cons, ← hf] at hl
        obtain ⟨pre, post, hpp⟩ := ih x y hs' hy' hl
        exact ⟨n :: pre, post, by rw [hpp]; rfl⟩

/-! ### the scans -/

/-- a note sounds at position `t` (before the event at `t` is read) -/
def soundingAt (N : List SNote) (t : Int) : Bool :=
  match latest N t with
  | some x => decide (t ≤ x.b)
  | none => false

/-- state of the gap scan at position `t` -/
def gapState (N : List SNote) (t : Int) : Option Int :=
  match latest N t with
  | some x => if t ≤ x.b then none else some (t - x.b)
  | none => none

structure ChainData (gap : Int) (N : List SNote) : Prop where
  sorted : N.Pairwise (fun x y => x.a < y.a)
  valid : ∀ d ∈ N, d.a < d.b ∧ isPitch d.pitch = true
  chain : ∀ pre x y post, N = pre ++ x :: y :: post → y.a - x.b < gap

theorem offs_tab {gap : Int} {N : List SNote} (hN : ChainData gap N) : ∀ (n : Nat) (k : Int),
    offsOk (soundingAt N k) (tab (ruleAt N) k n) = true := by
  intro n
  induction n with
  | zero => intro k; rfl
  | succ n ih =>
    intro k
    have hsucc := latest_succ N k hN.sorted
    have ih' := ih (k + 1)
    simp only [tab, offsOk, ruleAt_eq]
    cases ho : onset N k with
    | some d =>
      obtain ⟨hd, hda⟩ := onset_some ho
      obtain ⟨hab, hp⟩ := hN.valid d hd
      rw [ho] at hsucc
      simp only [hp, ↓reduceIte]
      have : soundingAt N (k + 1) = true := by simp only [soundingAt, hsucc]; simp; omega
      rw [this] at ih'; exact ih'
    | none =>
      rw [ho] at hsucc
      simp only
      cases hl : latest N k with
      | none =>
        rw [hl] at hsucc
        simp only [isPitch_no_event, Bool.false_eq_true, ↓reduceIte,
          show ¬ C07.Gen.MELODY_NO_EVENT = C07.Gen.MELODY_NOTE_OFF by decide]
        have e1 : soundingAt N (k + 1) = false := by simp [soundingAt, hsucc]
        have e2 : soundingAt N k = false := by simp [soundingAt, hl]
        rw [e2]; rw [e1] at ih'; exact ih'
      | some x =>
        rw [hl] at hsucc
        simp only
        by_cases hb : x.b = k
        · simp only [hb, ↓reduceIte, isPitch_note_off, Bool.false_eq_true, Bool.and_eq_true]
          have e1 : soundingAt N (k + 1) = false := by simp only [soundingAt, hsucc]; simp; omega
          have e2 : soundingAt N k = true := by simp only [soundingAt, hl]; simp; omega
          rw [e1] at ih'
          exact ⟨e2, ih'⟩
        · simp only [hb, ↓reduceIte, isPitch_no_event, Bool.false_eq_true,
            show ¬ C07.Gen.MELODY_NO_EVENT = C07.Gen.MELODY_NOTE_OFF by decide]
          have e : soundingAt N (k + 1) = soundingAt N k := by
            simp only [soundingAt, hsucc, hl]
            by_cases h : k ≤ x.b
            · have : k + 1 ≤ x.b := by omega
              simp [h, this]
            · have : ¬ k + 1 ≤ x.b := by omega
              simp [h, this]
          rw [← e]; exact ih'

theorem gaps_tab {gap : Int} {N : List SNote} (hN : ChainData gap N) : ∀ (n : Nat) (k : Int),
    gapsOk gap (gapState N k) (tab (ruleAt N) k n) = true := by
  intro n
  induction n with
  | zero => intro k; rfl
  | succ n ih =>
    intro k
    have hsucc := latest_succ N k hN.sorted
    have ih' := ih (k + 1)
    simp only [tab, gapsOk, ruleAt_eq]
    cases ho : onset N k with
    | some d =>
      obtain ⟨hd, hda⟩ := onset_some ho
      obtain ⟨hab, hp⟩ := hN.valid d hd
      rw [ho] at hsucc
      simp only [hp, ↓reduceIte, Bool.and_eq_true]
      have e1 : gapState N (k + 1) = none := by
        simp only [gapState, hsucc]; rw [if_pos (by omega)]
      rw [e1] at ih'
      refine ⟨?_, ih'⟩
      cases hl : latest N k with
      | none => simp [gapState, hl]
      | some x =>
        simp only [gapState, hl]
        by_cases h : k ≤ x.b
        · simp [h]
        · simp only [h, ↓reduceIte, decide_eq_true_eq]
          rw [← hda] at hl
          obtain ⟨pre, post, hpp⟩ := latest_pred N x d hN.sorted hd hl
          have := hN.chain pre x d post hpp
          omega
    | none =>
      rw [ho] at hsucc
      simp only
      cases hl : latest N k with
      | none =>
        rw [hl] at hsucc
        simp only [isPitch_no_event, Bool.false_eq_true, ↓reduceIte,
          show ¬ C07.Gen.MELODY_NO_EVENT = C07.Gen.MELODY_NOTE_OFF by decide]
        have e1 : gapState N (k + 1) = none := by simp [gapState, hsucc]
        have e2 : gapState N k = none := by simp [gapState, hl]
        rw [e2]; rw [e1] at ih'; exact ih'
      | some x =>
        rw [hl] at hsucc
        simp only
        by_cases hb : x.b = k
        · simp only [hb, ↓reduceIte, isPitch_note_off, Bool.false_eq_true]
          have e1 : gapState N (k + 1) = some 1 := by
            simp only [gapState, hsucc]; rw [if_neg (by omega)]; congr 1; omega
          rw [e1] at ih'; exact ih'
        · simp only [hb, ↓reduceIte, isPitch_no_event, Bool.false_eq_true,
            show ¬ C07.Gen.MELODY_NO_EVENT = C07.Gen.MELODY_NOTE_OFF by decide]
          have e : gapState N (k + 1) = (gapState N k).map (· + 1) := by
            simp only [gapState, hsucc, hl]
            by_cases h : k ≤ x.b
            · rw [if_pos (by omega), if_pos h]; rfl
            · rw [if_neg (by omega), if_neg h]; simp only [Option.map_some]; congr 1; omega
          rw [← e]; exact ih'

/-- the first pitch is the first note's onset -/
theorem first_tab {N' : List SNote} {n0 : SNote} (hs : (n0 :: N').Pairwise (fun x y => x.a < y.a))
    (hp : isPitch n0.pitch = true) : ∀ (n : Nat) (k : Int), k ≤ n0.a → n0.a < k + n →
    firstPitch (tab (ruleAt (n0 :: N')) k n) = some (n0.a - k).toNat := by
  intro n
  induction n with
  | zero => intro k h1 h2; omega
  | succ n ih =>
    intro k h1 h2
    obtain ⟨hn, _⟩ := List.pairwise_cons.mp hs
    simp only [tab, firstPitch]
    by_cases hk : k = n0.a
    · have : ruleAt (n0 :: N') k = n0.pitch := ruleAt_cons_eq _ _ _ hk.symm
      rw [this, if_pos hp]
      congr 1; omega
    · have : ruleAt (n0 :: N') k = C07.Gen.MELODY_NO_EVENT := by
        apply ruleAt_all_later
        intro d hd
        rcases List.mem_cons.mp hd with rfl | hd'
        · omega
        · have := hn d hd'; omega
      rw [this, if_neg (by rw [isPitch_no_event]; simp), ih (k + 1) (by omega) (by push_cast at h2 ⊢; omega)]
      simp only [Option.map_some, Option.some.injEq]
      omega

/-! ### the end of the line -/

theorem sorted_le_last : ∀ (N : List SNote) (last : SNote), N.Pairwise (fun x y => x.a < y.a) →
    N.getLast? = some last → ∀ d ∈ N, d.a ≤ last.a := by
  intro N
  induction N with
  | nil => intro last _ h; simp at h
  | cons n N ih =>
    intro last hs hl d hd
    obtain ⟨hn, hs'⟩ := List.pairwise_cons.mp hs
    cases N with
    | nil =>
      simp only [List.getLast?_singleton, Option.some.injEq] at hl
      subst hl
      rcases List.mem_cons.mp hd with rfl | h
      · omega
      · simp at h
    | cons m N' =>
      rw [List.getLast?_cons_cons] at hl
      have hlm : last ∈ m :: N' := List.mem_of_getLast? hl
      rcases List.mem_cons.mp hd with rfl | h
      · have := hn last hlm; omega
      · exact ih last hs' hl d h

theorem lastMark_append (pre suf : List Int) :
    lastMark (pre ++ suf) = match lastMark suf with
      | some (some j) => some (some (pre.length + j))
      | some none => some none
      | none => lastMark pre := by
  induction pre with
  | nil =>
    simp only [List.nil_append, List.length_nil, Nat.zero_add]
    cases lastMark suf with
    | none => rfl
    | some m => cases m <;> rfl
  | cons x pre ih =>
    simp only [List.cons_append, List.length_cons]
    rw [lastMark, ih]
    cases lastMark suf with
    | none => simp only; rw [lastMark]
    | some m =>
      cases m with
      | none => rfl
      | some j => simp only [Option.some.injEq]; omega

theorem lastMark_replicate (m : Nat) : lastMark (List.replicate m C07.Gen.MELODY_NO_EVENT) = none := by
  induction m with
  | zero => rfl
  | succ m ih =>
    rw [List.replicate_succ, lastMark, ih]
    simp [isPitch_no_event, show ¬ C07.Gen.MELODY_NO_EVENT = C07.Gen.MELODY_NOTE_OFF by decide]

/-- the reading from the last note's onset on: its pitch, NO_EVENTs while it sounds, and — if the line goes on —
its NOTE_OFF followed by NO_EVENTs -/
theorem end_tab {gap : Int} {N : List SNote} (hN : ChainData gap N) (last : SNote)
    (hlast : N.getLast? = some last) (h0 : 0 ≤ last.a) (padterm : Nat) :
    lastMark (tab (ruleAt N) 0 (last.b.toNat + padterm)) =
      if padterm = 0 then some none else some (some last.b.toNat) := by
  have hmem : last ∈ N := List.mem_of_getLast? hlast
  obtain ⟨hab, hp⟩ := hN.valid last hmem
  -- every onset is at or before the last note's
  have hle : ∀ d ∈ N, d.a ≤ last.a := sorted_le_last N last hN.sorted hlast
  -- after the last onset, the latest onset is the last note
  have hlatest : ∀ t, last.a < t → latest N t = some last ∧ onset N t = none := by
    intro t ht
    constructor
    · unfold latest
      have : N.filter (fun d => decide (d.a < t)) = N := by
        rw [List.filter_eq_self]; intro d hd; have := hle d hd; simp; omega
      rw [this, hlast]
    · unfold onset
      rw [List.find?_eq_none]; intro d hd; have := hle d hd; simp; omega
  have hmid : ∀ t, last.a < t → t < last.b → ruleAt N t = C07.Gen.MELODY_NO_EVENT := by
    intro t h1 h2
    obtain ⟨e1, e2⟩ := hlatest t h1
    rw [ruleAt_eq, e2, e1]
    simp only
    rw [if_neg (by omega)]
  have hoff : ruleAt N last.b = C07.Gen.MELODY_NOTE_OFF := by
    obtain ⟨e1, e2⟩ := hlatest last.b hab
    rw [ruleAt_eq, e2, e1]
    simp
  have hafter : ∀ t, last.b < t → ruleAt N t = C07.Gen.MELODY_NO_EVENT := by
    intro t h1
    obtain ⟨e1, e2⟩ := hlatest t (by omega)
    rw [ruleAt_eq, e2, e1]
    simp only
    rw [if_neg (by omega)]
  have hon : isPitch (ruleAt N last.a) = true := by
    rw [ruleAt_eq]
    cases ho : onset N last.a with
    | none => exact absurd rfl (onset_none ho last hmem)
    | some d => exact (hN.valid d (onset_some ho).1).2
  -- split the table
  have hA : ((last.a.toNat : Nat) : Int) = last.a := by omega
  have hB : ((last.b.toNat : Nat) : Int) = last.b := by omega
  have hsplit : last.b.toNat + padterm = last.a.toNat + (1 + ((last.b.toNat - last.a.toNat - 1) + padterm)) := by omega
  rw [hsplit, tab_append, tab_append, tab_append]
  simp only [Int.zero_add, hA]
  have e1 : tab (ruleAt N) last.a 1 = [ruleAt N last.a] := rfl
  have e2 : tab (ruleAt N) (last.a + ((1 : Nat) : Int)) (last.b.toNat - last.a.toNat - 1) =
      List.replicate (last.b.toNat - last.a.toNat - 1) C07.Gen.MELODY_NO_EVENT := by
    apply tab_const
    intro t h1 h2
    exact hmid t (by push_cast at h1; omega) (by push_cast at h2; omega)
  have e3 : last.a + ((1 : Nat) : Int) + ((last.b.toNat - last.a.toNat - 1 : Nat) : Int) = last.b := by omega
  rw [e1, e2, e3]
  cases padterm with
  | zero =>
    simp only [tab, List.append_nil, ↓reduceIte]
    rw [lastMark_append, lastMark_append, lastMark_replicate]
    simp only
    rw [lastMark, lastMark]
    simp [hon]
  | succ m =>
    have e4 : tab (ruleAt N) last.b (m + 1) = C07.Gen.MELODY_NOTE_OFF :: List.replicate m C07.Gen.MELODY_NO_EVENT := by
      simp only [tab, hoff]
      congr 1
      apply tab_const
      intro t h1 h2
      exact hafter t (by omega)
    rw [e4, if_neg (by omega)]
    rw [lastMark_append, lastMark_append, lastMark_append]
    have e5 : lastMark (C07.Gen.MELODY_NOTE_OFF :: List.replicate m C07.Gen.MELODY_NO_EVENT) = some (some 0) := by
      rw [lastMark, lastMark_replicate]
      simp [isPitch_note_off]
    rw [e5]
    simp only [tab_length, List.length_cons, List.length_nil, List.length_replicate, Option.some.injEq]
    omega

end NSV.C06
