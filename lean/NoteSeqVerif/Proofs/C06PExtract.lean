import NoteSeqVerif.Proofs.C06PEvents
/-! C06 (performance half) — what extraction itself produces is canonical (`extract_canonical_Perf`):
the FIFO annotator run on the extractor's own stream recovers the extractor's note indices, provided no two
selected notes of one pitch overlap. -/
namespace NSV.C06P
open NSV NSV.C06 NSV.C01 NSV.C07

/-! ### lists with distinct keys -/

theorem find?_of_distinct {α} (key : α → Int) : ∀ (l : List α) (o : α) (p : Int),
    l.Pairwise (fun a b => key a ≠ key b) → o ∈ l → key o = p → l.find? (fun x => key x == p) = some o := by
  intro l
  induction l with
  | nil => intro o p _ h; simp at h
  | cons x xs ih =>
    intro o p hd ho hk
    rw [List.pairwise_cons] at hd
    rcases List.mem_cons.mp ho with rfl | ho'
    · simp [hk]
    · have hne : key x ≠ p := by rw [← hk]; exact hd.1 o ho'
      rw [List.find?_cons_of_neg (by simpa using hne)]
      exact ih o p hd.2 ho' hk

theorem mem_eraseP_distinct {α} (key : α → Int) : ∀ (l : List α) (p : Int),
    l.Pairwise (fun a b => key a ≠ key b) → ∀ x, x ∈ l.eraseP (fun x => key x == p) ↔ x ∈ l ∧ key x ≠ p := by
  intro l
  induction l with
  | nil => intro p _ x; simp
  | cons y ys ih =>
    intro p hd x
    rw [List.pairwise_cons] at hd
    by_cases hy : key y = p
    · have hy' : (key y == p) = true := by simp [hy]
      simp only [List.eraseP_cons, hy', cond_true, List.mem_cons]
      constructor
      · intro hx
        exact ⟨Or.inr hx, by rw [← hy]; exact fun h => hd.1 x hx h.symm⟩
      · rintro ⟨hx | hx, hne⟩
        · rw [hx] at hne; exact absurd hy hne
        · exact hx
    · have hy' : (key y == p) = false := by simp [hy]
      simp only [List.eraseP_cons, hy', cond_false, List.mem_cons, ih p hd.2 x]
      constructor
      · rintro (hx | ⟨hx, hne⟩)
        · exact ⟨Or.inl hx, by rw [hx]; exact hy⟩
        · exact ⟨Or.inr hx, hne⟩
      · rintro ⟨hx | hx, hne⟩
        · exact Or.inl hx
        · exact Or.inr ⟨hx, hne⟩

theorem pairwise_eraseP {α} (R : α → α → Prop) (p : α → Bool) (l : List α) (h : l.Pairwise R) :
    (l.eraseP p).Pairwise R := h.sublist (List.eraseP_sublist)

/-! ### the extractor's stream, annotated with the extractor's own note indices -/

/-- the velocity bin the extractor attaches to a note's NOTE_ON -/
def binOn (nb : Int) (n : Note) : Int := if nb = 0 then 0 else C07.Gen.velocityToBin n.velocity nb

def sevOf (nb start : Int) (e : NEv) : SEv :=
  ⟨e.step - start, e.isOff, e.note.pitch, if e.isOff then 0 else binOn nb e.note⟩

def aevOf (nb start : Int) (e : NEv) : AEv :=
  ⟨e.step - start, e.idx, e.isOff, e.note.pitch, e.note.qs - start, binOn nb e.note⟩

def openEOf (nb start : Int) (e : NEv) : OpenE := ⟨e.note.pitch, e.idx, e.note.qs - start, binOn nb e.note⟩

theorem sevOf_eq (nb start : Int) (e : NEv) : sevOf nb start e = (toS nb e).shift (-start) := by
  simp only [sevOf, toS, SEv.shift, binOn, SEv.mk.injEq, and_true, true_and]
  omega

structure MInv (nb start : Int) (P : List NEv) (st : AnState) : Prop where
  out : st.out = P.map (aevOf nb start)
  ok : st.ok = true
  non : st.nOn = (P.filter (fun e => !e.isOff)).length
  mem : ∀ o, o ∈ st.open_ ↔ ∃ e ∈ P, e.isOff = false ∧ offOf e ∉ P ∧ o = openEOf nb start e
  dist : st.open_.Pairwise (fun a b => a.pitch ≠ b.pitch)

/-- the NOTE_ON events of `note_events` are the onsets, in note order -/
theorem filter_on_eq (l : List Note) (hpos : ∀ n ∈ l, n.qs < n.qe) (hqs : l.Pairwise (fun a b => a.qs ≤ b.qs)) :
    (noteEvents l).filter (fun e => !e.isOff) = onsets l := by
  obtain ⟨hstrict, _, _⟩ := noteEvents_facts l hpos
  refine List.Perm.eq_of_pairwise (fun a b _ _ h1 h2 => absurd h2 h1.asymm) (hstrict.filter _) ?_
    (filter_on_noteEvents l)
  -- the onsets are strictly sorted
  unfold onsets
  rw [List.pairwise_map]
  have h1 : (l.zipIdx).Pairwise (fun a b => a.1.qs ≤ b.1.qs ∧ a.2 < b.2) := by
    rw [List.pairwise_iff_getElem]
    intro i j hi hj hij
    simp only [List.getElem_zipIdx, Nat.zero_add]
    have hi' : i < l.length := by simpa using hi
    have hj' : j < l.length := by simpa using hj
    exact ⟨(List.pairwise_iff_getElem.mp hqs) i j hi' hj' hij, hij⟩
  refine h1.imp ?_
  rintro ⟨a, i⟩ ⟨b, j⟩ ⟨h, hij⟩
  unfold NevLt
  simp only at h hij ⊢
  omega

/-- position of a NOTE_ON event among the NOTE_ONs = its note index -/
theorem on_count (l : List Note) (hpos : ∀ n ∈ l, n.qs < n.qe) (hqs : l.Pairwise (fun a b => a.qs ≤ b.qs))
    (P Q : List NEv) (e : NEv) (hes : noteEvents l = P ++ e :: Q) (hoff : e.isOff = false) :
    (P.filter (fun e => !e.isOff)).length = e.idx := by
  have h := filter_on_eq l hpos hqs
  rw [hes, List.filter_append, List.filter_cons] at h
  simp only [hoff, Bool.not_false, ↓reduceIte] at h
  have hk : (onsets l)[(P.filter (fun e => !e.isOff)).length]? = some e := by
    rw [← h, List.getElem?_append_right (Nat.le_refl _)]
    simp
  unfold onsets at hk
  rw [List.getElem?_map] at hk
  cases hz : l.zipIdx[(P.filter (fun e => !e.isOff)).length]? with
  | none => rw [hz] at hk; simp at hk
  | some x =>
    rw [hz] at hk
    simp only [Option.map_some, Option.some.injEq] at hk
    have := List.getElem?_zipIdx (l := l) (j := (P.filter (fun e => !e.isOff)).length) (i := 0)
    rw [hz] at this
    cases hl : l[(P.filter (fun e => !e.isOff)).length]? with
    | none => rw [hl] at this; simp at this
    | some n =>
      rw [hl] at this
      simp only [Option.map_some, Option.some.injEq] at this
      rw [← hk, this]
      simp

theorem eq_of_distinct {α} (key : α → Int) : ∀ (l : List α), l.Pairwise (fun a b => key a ≠ key b) →
    ∀ a ∈ l, ∀ b ∈ l, key a = key b → a = b := by
  intro l
  induction l with
  | nil => intro _ a ha; simp at ha
  | cons x xs ih =>
    intro hd a ha b hb hk
    rw [List.pairwise_cons] at hd
    rcases List.mem_cons.mp ha with rfl | ha' <;> rcases List.mem_cons.mp hb with rfl | hb'
    · rfl
    · exact absurd hk (hd.1 b hb')
    · exact absurd hk.symm (hd.1 a ha')
    · exact ih hd.2 a ha' b hb' hk

/-- one step of the annotator on the extractor's own stream keeps the invariant: a NOTE_ON gets the extractor's
note index, a NOTE_OFF finds exactly its own note (the only open note of its pitch) -/
theorem minv_step (nb start : Int) (l : List Note) (hpos : ∀ n ∈ l, n.qs < n.qe)
    (hqs : l.Pairwise (fun a b => a.qs ≤ b.qs))
    (hno : ∀ (i j : Nat) (ni nj : Note), l[i]? = some ni → l[j]? = some nj → i ≠ j → ni.pitch = nj.pitch →
      ni.qe ≤ nj.qs ∨ nj.qe ≤ ni.qs)
    (P : List NEv) (e : NEv) (Q : List NEv) (hes : noteEvents l = P ++ e :: Q)
    (st : AnState) (hinv : MInv nb start P st) :
    MInv nb start (P ++ [e]) (anStep st (sevOf nb start e)) := by
  obtain ⟨hstrict, hwf, hpart⟩ := noteEvents_facts l hpos
  have hcount := on_count l hpos hqs P Q e hes
  rw [hes] at hstrict hwf hpart
  have hqsI : ∀ (i j : Nat) (ni nj : Note), l[i]? = some ni → l[j]? = some nj → i < j → ni.qs ≤ nj.qs := by
    intro i j ni nj hi hj hij
    obtain ⟨hil, hie⟩ := List.getElem?_eq_some_iff.mp hi
    obtain ⟨hjl, hje⟩ := List.getElem?_eq_some_iff.mp hj
    have := (List.pairwise_iff_getElem.mp hqs) i j hil hjl hij
    rw [hie, hje] at this; exact this
  have hP_lt : ∀ x ∈ P, NevLt x e := fun x hx => (List.pairwise_append.mp hstrict).2.2 x hx e (List.mem_cons_self ..)
  have hQ_gt : ∀ y ∈ Q, NevLt e y := fun y hy =>
    (List.pairwise_cons.mp (List.pairwise_append.mp hstrict).2.1).1 y hy
  have hbefore : ∀ z ∈ P ++ e :: Q, NevLt z e → z ∈ P := by
    intro z hz hlt
    rcases List.mem_append.mp hz with h | h
    · exact h
    · rcases List.mem_cons.mp h with h | h
      · subst h; exact absurd hlt (NevLt.irrefl _)
      · exact absurd hlt (hQ_gt z h).asymm
  have hafter : ∀ z ∈ P ++ e :: Q, z ∉ P → z ≠ e → NevLt e z := by
    intro z hz hnp hne
    rcases List.mem_append.mp hz with h | h
    · exact absurd h hnp
    · rcases List.mem_cons.mp h with h | h
      · exact absurd h hne
      · exact hQ_gt z h
  have he_mem : e ∈ P ++ e :: Q := by simp
  have he_wf := hwf e he_mem
  have he_notin : e ∉ P := fun h => NevLt.irrefl e (hP_lt e h)
  have hnote_pos : e.note.qs < e.note.qe := hpos _ (List.mem_of_getElem? he_wf.1)
  obtain ⟨hout, hok, hnon, hmem, hdist⟩ := hinv
  cases hoff : e.isOff with
  | false =>
    have hstep : e.step = e.note.qs := by rw [he_wf.2, hoff]; rfl
    have hidx : st.nOn = e.idx := by rw [hnon]; exact hcount hoff
    have hst : anStep st (sevOf nb start e) = ⟨st.nOn + 1, st.open_ ++ [openEOf nb start e],
        st.out ++ [aevOf nb start e], st.ok⟩ := by
      simp only [anStep, sevOf, hoff, Bool.false_eq_true, ↓reduceIte, openEOf, aevOf, hidx, hstep]
    rw [hst]
    have hoffe : offOf e ∉ P ++ [e] := by
      intro h
      rcases List.mem_append.mp h with h | h
      · have h1 := hP_lt _ h
        have h2 : NevLt e (offOf e) := by unfold NevLt offOf; left; simp only; omega
        exact h1.asymm h2
      · simp only [List.mem_singleton] at h
        rw [← h] at hoff; simp [offOf] at hoff
    refine ⟨by simp [hout], hok, ?_, ?_, ?_⟩
    · simp only [List.filter_append, List.filter_cons, hoff, Bool.not_false, ↓reduceIte, List.filter_nil,
        List.length_append, List.length_cons, List.length_nil, hnon]
    · intro o
      simp only [List.mem_append, List.mem_singleton]
      constructor
      · rintro (ho | rfl)
        · obtain ⟨e', he', h1, h2, h3⟩ := (hmem o).mp ho
          refine ⟨e', Or.inl he', h1, ?_, h3⟩
          intro h
          rcases h with h | h
          · exact h2 h
          · rw [← h] at hoff; simp [offOf] at hoff
        · exact ⟨e, Or.inr rfl, hoff, by simpa using hoffe, rfl⟩
      · rintro ⟨e', he' | rfl, h1, h2, h3⟩
        · left
          exact (hmem o).mpr ⟨e', he', h1, fun h => h2 (Or.inl h), h3⟩
        · right; exact h3
    · rw [List.pairwise_append]
      refine ⟨hdist, by simp, ?_⟩
      intro o ho o' ho'
      simp only [List.mem_singleton] at ho'
      subst ho'
      obtain ⟨e', he', h1, h2, rfl⟩ := (hmem o).mp ho
      simp only [openEOf]
      intro hp
      have he'_es : e' ∈ P ++ e :: Q := List.mem_append_left _ he'
      have he'_wf := hwf e' he'_es
      have he'step : e'.step = e'.note.qs := by rw [he'_wf.2, h1]; rfl
      have hlt := hP_lt e' he'
      have hne : e'.idx ≠ e.idx := by
        intro hi
        have : e' = e := wf_on_eq he'_wf he_wf hi h1 hoff
        rw [this] at he'; exact he_notin he'
      have hoff_es : offOf e' ∈ P ++ e :: Q := (hpart e' he'_es).2
      have hgt : NevLt e (offOf e') := hafter _ hoff_es h2 (by intro h; rw [← h] at hoff; simp [offOf] at hoff)
      have hdisj := hno e'.idx e.idx e'.note e.note he'_wf.1 he_wf.1 hne hp
      have he'pos : e'.note.qs < e'.note.qe := hpos _ (List.mem_of_getElem? he'_wf.1)
      unfold NevLt at hlt hgt
      simp only [offOf, he'step, hstep, h1, hoff] at hlt hgt
      rcases hdisj with hd | hd
      · -- e' ends where e starts: then e's index is smaller although it starts later
        have hij : e.idx < e'.idx := by
          rcases hgt with h | ⟨_, h | ⟨h, _⟩⟩
          · omega
          · exact h
          · exact absurd h.symm hne
        have := hqsI e.idx e'.idx e.note e'.note he_wf.1 he'_wf.1 hij
        omega
      · rcases hlt with h | ⟨h, _⟩ <;> omega
  | true =>
    have hstep : e.step = e.note.qe := by rw [he_wf.2, hoff]; rfl
    have ha_mem_es : onOf e ∈ P ++ e :: Q := (hpart e he_mem).1
    have ha_lt : NevLt (onOf e) e := by unfold NevLt onOf; left; simp only; omega
    have ha_P : onOf e ∈ P := hbefore _ ha_mem_es ha_lt
    have ha_wf := hwf _ ha_mem_es
    have hoff_a : offOf (onOf e) = e := by
      cases e; simp only [offOf, onOf] at *; simp_all
    have ho0 : openEOf nb start (onOf e) ∈ st.open_ :=
      (hmem _).mpr ⟨onOf e, ha_P, rfl, by rw [hoff_a]; exact he_notin, rfl⟩
    have hfind : st.open_.find? (fun o => o.pitch == (sevOf nb start e).pitch) = some (openEOf nb start (onOf e)) :=
      find?_of_distinct (·.pitch) st.open_ _ _ hdist ho0 rfl
    have hst : anStep st (sevOf nb start e) = ⟨st.nOn, st.open_.eraseP (fun o => o.pitch == e.note.pitch),
        st.out ++ [aevOf nb start e], st.ok⟩ := by
      have h1 : (sevOf nb start e).isOff = true := hoff
      simp only [anStep, h1, ↓reduceIte, hfind]
      simp only [sevOf, openEOf, onOf, aevOf, hoff]
    rw [hst]
    refine ⟨by simp [hout], hok, ?_, ?_, pairwise_eraseP _ _ _ hdist⟩
    · simp only [List.filter_append, List.filter_cons, hoff, Bool.not_true, Bool.false_eq_true, ↓reduceIte,
        List.filter_nil, List.append_nil, hnon]
    · intro o
      rw [mem_eraseP_distinct (·.pitch) st.open_ e.note.pitch hdist o]
      constructor
      · rintro ⟨ho, hne⟩
        obtain ⟨e', he', h1, h2, rfl⟩ := (hmem o).mp ho
        refine ⟨e', List.mem_append_left _ he', h1, ?_, rfl⟩
        intro h
        rcases List.mem_append.mp h with h | h
        · exact h2 h
        · simp only [List.mem_singleton] at h
          apply hne
          simp only [openEOf]
          rw [← h]; rfl
      · rintro ⟨e', he', h1, h2, rfl⟩
        have he'P : e' ∈ P := by
          rcases List.mem_append.mp he' with h | h
          · exact h
          · simp only [List.mem_singleton] at h
            rw [h] at h1; rw [h1] at hoff; simp at hoff
        have h2' : offOf e' ∉ P := fun h => h2 (List.mem_append_left _ h)
        refine ⟨(hmem _).mpr ⟨e', he'P, h1, h2', rfl⟩, ?_⟩
        intro hp
        have hmem' : openEOf nb start e' ∈ st.open_ := (hmem _).mpr ⟨e', he'P, h1, h2', rfl⟩
        have heq := eq_of_distinct (·.pitch) st.open_ hdist _ hmem' _ ho0 (by simpa [openEOf, onOf] using hp)
        have hi : e'.idx = (onOf e).idx := by
          have := congrArg OpenE.idx heq
          simpa [openEOf] using this
        have : e' = onOf e := wf_on_eq (hwf e' (List.mem_append_left _ he'P)) ha_wf hi h1 rfl
        apply h2
        rw [this, hoff_a]; simp

theorem minv_all (nb start : Int) (l : List Note) (hpos : ∀ n ∈ l, n.qs < n.qe)
    (hqs : l.Pairwise (fun a b => a.qs ≤ b.qs))
    (hno : ∀ (i j : Nat) (ni nj : Note), l[i]? = some ni → l[j]? = some nj → i ≠ j → ni.pitch = nj.pitch →
      ni.qe ≤ nj.qs ∨ nj.qe ≤ ni.qs) :
    ∀ (Q P : List NEv) (st : AnState), noteEvents l = P ++ Q → MInv nb start P st →
      MInv nb start (P ++ Q) (anRun st (Q.map (sevOf nb start))) := by
  intro Q
  induction Q with
  | nil => intro P st _ h; simpa [anRun] using h
  | cons e Q ih =>
    intro P st hes hinv
    have h1 := minv_step nb start l hpos hqs hno P e Q hes st hinv
    have := ih (P ++ [e]) (anStep st (sevOf nb start e)) (by rw [hes]; simp) h1
    simpa [anRun_cons] using this

/-! ### assembling `CanonicalPerf` for the extractor's output -/

/-- selected notes the extractor can be given: in-range pitches (and velocities when bins are used), positive length,
start times that agree with the quantized start steps (true of every rendered / grid sequence), and no two notes of
one pitch overlapping -/
structure ExtractDomain (s : NoteSeq) (start nb : Int) (inst : Option Int) : Prop where
  valid : ∀ n ∈ selectNotes s start inst, 0 ≤ n.pitch ∧ n.pitch ≤ 127 ∧
    (nb ≠ 0 → 1 ≤ n.velocity ∧ n.velocity ≤ 127) ∧ n.qs < n.qe
  grid : ∀ a ∈ selectNotes s start inst, ∀ b ∈ selectNotes s start inst,
    (a.qs < b.qs → a.start < b.start) ∧ (a.qs = b.qs → a.start = b.start)
  noOverlap : NoSamePitchOverlap (selectNotes s start inst)

theorem extract_canonical_core (s : NoteSeq) (start nb ms : Int) (inst : Option Int) (evs : List PEvent)
    (hms : 1 ≤ ms) (hnb : 0 ≤ nb) (hd : ExtractDomain s start nb inst)
    (h : perfEvents s start nb ms inst = .ok evs) : CanonicalPerf nb ms evs := by
  obtain ⟨hvalid, hgrid, hno⟩ := hd
  have hperm : (sortedNotes s start inst).Perm (selectNotes s start inst) := List.mergeSort_perm _ _
  have hmemL : ∀ n, n ∈ sortedNotes s start inst → n ∈ selectNotes s start inst := fun n hn => hperm.mem_iff.mp hn
  have hstartL : ∀ n ∈ sortedNotes s start inst, start ≤ n.qs := by
    intro n hn; exact (mem_sortedNotes.mp hn).2.1
  have hposL : ∀ n ∈ sortedNotes s start inst, n.qs < n.qe := fun n hn => (hvalid n (hmemL n hn)).2.2.2
  have hsortedL := List.pairwise_mergeSort (le := timePitchLe) timePitchLe_trans timePitchLe_total
    (selectNotes s start inst)
  have hnoL : NoSamePitchOverlap (sortedNotes s start inst) := by
    unfold NoSamePitchOverlap at hno ⊢
    refine (List.Perm.pairwise_iff ?_ hperm).mpr hno
    intro a b hab hp
    exact (hab hp.symm).symm
  -- the sorted notes are strictly (start step, pitch)-sorted
  have hstrictL : (sortedNotes s start inst).Pairwise
      (fun a b => a.qs < b.qs ∨ (a.qs = b.qs ∧ a.pitch < b.pitch)) := by
    refine List.Pairwise.imp_of_mem ?_ (hsortedL.and hnoL)
    intro a b ha hb ⟨hle, hov⟩
    have ha' := hmemL a ha
    have hb' := hmemL b hb
    simp only [timePitchLe, Bool.or_eq_true, decide_eq_true_eq, Bool.and_eq_true, beq_iff_eq] at hle
    have hqs : a.qs ≤ b.qs := by
      by_contra hc
      have := (hgrid b hb' a ha').1 (by omega)
      rcases hle with h' | ⟨h', _⟩
      · exact absurd (lt_trans this h') (lt_irrefl _)
      · rw [h'] at this; exact absurd this (lt_irrefl _)
    rcases lt_or_eq_of_le hqs with hlt | heq
    · exact Or.inl hlt
    · right
      refine ⟨heq, ?_⟩
      have hst := (hgrid a ha' b hb').2 heq
      have hp : a.pitch ≤ b.pitch := by
        rcases hle with h' | ⟨_, h'⟩
        · rw [hst] at h'; exact absurd h' (lt_irrefl _)
        · exact h'
      rcases lt_or_eq_of_le hp with h' | h'
      · exact h'
      · have := hov h'
        have pa := hposL a ha
        have pb := hposL b hb
        omega
  have hqsL : (sortedNotes s start inst).Pairwise (fun a b => a.qs ≤ b.qs) :=
    hstrictL.imp (fun h => by rcases h with h | ⟨h, _⟩ <;> omega)
  -- the note events
  have hmemE : ∀ e ∈ noteEvents (sortedNotes s start inst), e.note ∈ sortedNotes s start inst ∧
      (e.step = e.note.qs ∨ e.step = e.note.qe) := fun e he => mem_noteEvents he
  obtain ⟨hstrictE, hwfE, hpartE⟩ := noteEvents_facts _ hposL
  have hokE : ∀ e ∈ noteEvents (sortedNotes s start inst), NEvOk nb e := by
    intro e he
    obtain ⟨p0, p1, hv, _⟩ := hvalid _ (hmemL _ (hmemE e he).1)
    refine ⟨p0, p1, fun h0 _ => ?_⟩
    have hnbpos : 0 < nb := by omega
    obtain ⟨w0, w1⟩ := hv h0
    exact velocityToBin_range hnbpos w0 w1
  obtain ⟨st', hloop, hout⟩ := perfLoop_emit nb ms hms hnb _ ⟨start, 0, []⟩ hokE
  have hevs : evs = emit nb ms 0 0 ((noteEvents (sortedNotes s start inst)).map (sevOf nb start)) := by
    unfold perfEvents at h
    rw [hloop] at h
    simp only [Except.ok.injEq] at h
    rw [← h, hout]
    simp only [List.nil_append]
    have hshift : (noteEvents (sortedNotes s start inst)).map (toS nb) =
        ((noteEvents (sortedNotes s start inst)).map (sevOf nb start)).map (SEv.shift start) := by
      rw [List.map_map]
      apply List.map_congr_left
      intro e _
      simp only [Function.comp, sevOf_eq, SEv.shift]
      have : (toS nb e).step + -start + start = (toS nb e).step := by omega
      rw [this]
    rw [hshift]
    have := emit_shift nb ms start ((noteEvents (sortedNotes s start inst)).map (sevOf nb start)) 0 0
    rw [Int.zero_add] at this
    exact this
  -- the stream is read back
  have hwfS : StreamWF nb 0 0 ((noteEvents (sortedNotes s start inst)).map (sevOf nb start)) := by
    refine ⟨?_, ?_, ?_, ?_⟩
    · intro x hx
      obtain ⟨e, he, rfl⟩ := List.mem_map.mp hx
      obtain ⟨hm, hst⟩ := hmemE e he
      have := hstartL _ hm
      have := hposL _ hm
      simp only [sevOf]
      rcases hst with h' | h' <;> omega
    · rw [List.pairwise_map]
      refine (noteEvents_sorted _).imp ?_
      intro a b hab
      simp only [sevOf]; omega
    · intro x hx hoff
      obtain ⟨e, _, rfl⟩ := List.mem_map.mp hx
      simp only [sevOf] at hoff ⊢
      simp [hoff]
    · intro h0 x hx hoff
      obtain ⟨e, _, rfl⟩ := List.mem_map.mp hx
      simp only [sevOf] at hoff ⊢
      simp [hoff, binOn, h0]
  have hstream : stream 0 0 evs = (noteEvents (sortedNotes s start inst)).map (sevOf nb start) := by
    rw [hevs]; exact stream_emit nb ms hms _ 0 0 hwfS
  -- the annotator recovers the extractor's indices
  have hminv := minv_all nb start _ hposL hqsL (noSamePitch_index hnoL) (noteEvents (sortedNotes s start inst)) []
    ⟨0, [], [], true⟩ (by simp) ⟨rfl, rfl, rfl, by intro o; simp, by simp⟩
  simp only [List.nil_append] at hminv
  rw [← annotate_eq, ← hstream] at hminv
  obtain ⟨mout, mok, _, mmem, _⟩ := hminv
  have hclosed : (annotate (stream 0 0 evs)).open_ = [] := by
    rw [List.eq_nil_iff_forall_not_mem]
    intro o ho
    obtain ⟨e, he, _, h2, _⟩ := (mmem o).mp ho
    have := (hpartE e he).2
    have hoo : offOf e = offOf e := rfl
    exact h2 (by
      have hw := hwfE e he
      exact (hpartE e he).2)
  -- the Boolean predicate
  unfold CanonicalPerf CanonicalPerfB
  have hvalidEvs : evs.all PEvent.valid = true := by
    rw [List.all_eq_true]
    intro x hx
    rw [hevs] at hx
    refine emit_valid nb ms hms _ 0 0 ?_ x hx
    intro y hy
    obtain ⟨e, he, rfl⟩ := List.mem_map.mp hy
    obtain ⟨p0, p1, hb⟩ := hokE e he
    refine ⟨p0, p1, fun hoff h0 => ?_⟩
    simp only [sevOf] at hoff ⊢
    simp only [hoff, Bool.false_eq_true, ↓reduceIte, binOn, h0]
    exact hb h0 hoff
  have hlayout : emit nb ms 0 0 (stream 0 0 evs) = evs := by rw [hstream, ← hevs]
  have hsOk : streamOk nb true (stream 0 0 evs) = true := by
    unfold streamOk
    simp only [mok, hclosed, List.isEmpty_nil, Bool.and_true, Bool.true_and, ↓reduceIte, mout, Bool.and_eq_true,
      decide_eq_true_eq, List.all_eq_true, Bool.or_eq_true, beq_iff_eq, Bool.not_eq_true']
    refine ⟨⟨⟨?_, ?_⟩, ?_⟩, ?_⟩
    · rw [List.pairwise_map]
      refine hstrictE.imp ?_
      intro a b hab
      unfold NevLt at hab
      simp only [aevLt, aevOf, Bool.or_eq_true, Bool.and_eq_true, beq_iff_eq, Bool.not_eq_true']
      rcases hab with h' | ⟨h', h'' | ⟨h1, h2, h3⟩⟩
      · left; exact decide_eq_true (by omega)
      · right; exact ⟨by omega, Or.inl (decide_eq_true h'')⟩
      · right; exact ⟨by omega, Or.inr ⟨⟨h1, h2⟩, h3⟩⟩
    · rw [List.filter_map]
      have hf : (noteEvents (sortedNotes s start inst)).filter ((fun a : AEv => !a.isOff) ∘ aevOf nb start) =
          onsets (sortedNotes s start inst) := filter_on_eq _ hposL hqsL
      rw [hf]
      unfold onsets
      rw [List.map_map, List.pairwise_map]
      have hz : ((sortedNotes s start inst).zipIdx).Pairwise
          (fun a b => a.1.qs < b.1.qs ∨ (a.1.qs = b.1.qs ∧ a.1.pitch < b.1.pitch)) := by
        have := hstrictL
        rw [← List.zipIdx_map_fst 0 (sortedNotes s start inst), List.pairwise_map] at this
        exact this
      refine hz.imp ?_
      rintro ⟨a, i⟩ ⟨b, j⟩ hab
      simp only [Function.comp, onLt, aevOf, Bool.or_eq_true, Bool.and_eq_true, beq_iff_eq]
      simp only at hab
      rcases hab with h' | ⟨h', h''⟩
      · left; exact decide_eq_true (by omega)
      · right; exact ⟨by omega, decide_eq_true h''⟩
    · intro a ha
      obtain ⟨e, he, rfl⟩ := List.mem_map.mp ha
      have hw := hwfE e he
      have hp := hposL _ (hmemE e he).1
      cases hoff : e.isOff with
      | false => left; simp [aevOf, hoff]
      | true =>
        right
        simp only [aevOf]
        rw [hw.2, hoff]; simp only [↓reduceIte]; omega
    · by_cases h0 : nb = 0
      · left; exact h0
      · right
        intro a ha
        obtain ⟨e, he, rfl⟩ := List.mem_map.mp ha
        cases hoff : e.isOff with
        | true => left; simp [aevOf, hoff]
        | false =>
          right
          simp only [aevOf, binOn, h0, ↓reduceIte]
          exact ((hokE e he).2.2 h0 hoff).1
  simp only [hvalidEvs, hlayout, hsOk, Bool.and_true, decide_eq_true_eq, decide_true]
  exact hms

end NSV.C06P
