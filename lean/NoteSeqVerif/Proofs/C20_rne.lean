import NoteSeqVerif.Common.Float
/-! C20 — sign facts about the rounding model `NSV.rne` (core Lean only):
`rne p 0 = 0`, `0 < x → 0 < rne p x` (no underflow: the exponent is unbounded), hence
`0 ≤ x → 0 ≤ rne p x`, and `0 ≤ x → 0 ≤ truncR x`. -/
namespace NSV

theorem rneDiv_ge_div (n d : Nat) : n / d ≤ rneDiv n d := by
  unfold rneDiv
  simp only
  split
  · exact Nat.le_refl _
  · split
    · omega
    · split <;> omega

theorem rneDiv_pos (n d : Nat) (hd : 0 < d) (h : d ≤ n) : 0 < rneDiv n d := by
  have := rneDiv_ge_div n d
  have : 0 < n / d := Nat.div_pos h hd
  omega

/-- lower half of the specification of `floorLog2`: `2^e ≤ num/den` -/
theorem floorLog2_le (num den : Nat) (hn : 0 < num) :
    (0 ≤ floorLog2 num den → den * 2 ^ (floorLog2 num den).toNat ≤ num) ∧
    (floorLog2 num den < 0 → den ≤ num * 2 ^ (-(floorLog2 num den)).toNat) := by
  have a1 := @Nat.log2_self_le num (by omega)
  have a2 := @Nat.lt_log2_self den
  unfold floorLog2
  simp only
  generalize Nat.log2 num = ln at *
  generalize Nat.log2 den = ld at *
  by_cases h0 : (0 : Int) ≤ (ln : Int) - (ld : Int)
  · simp only [h0, if_true]
    by_cases hge : den * 2 ^ ((ln : Int) - (ld : Int)).toNat ≤ num
    · simp only [hge, decide_true, if_true]
      constructor <;> intro _ <;> first | trivial | exact hge | omega
    · simp only [hge, decide_false, Bool.false_eq_true, if_false]
      -- e = ln - ld - 1
      constructor
      · intro h1
        have e : ((ln : Int) - (ld : Int) - 1).toNat = ln - ld - 1 := by omega
        rw [e]
        have : ld + 1 + (ln - ld - 1) = ln := by omega
        calc den * 2 ^ (ln - ld - 1) ≤ 2 ^ (ld + 1) * 2 ^ (ln - ld - 1) :=
              Nat.mul_le_mul_right _ (Nat.le_of_lt a2)
          _ = 2 ^ ln := by rw [← Nat.pow_add, this]
          _ ≤ num := a1
      · intro h1
        have e : (-((ln : Int) - (ld : Int) - 1)).toNat = 1 := by omega
        have e2 : ln = ld := by omega
        rw [e]; subst e2
        have : 2 ^ (ln + 1) = 2 ^ ln * 2 := by rw [Nat.pow_succ]
        omega
  · simp only [h0, if_false]
    by_cases hge : den ≤ num * 2 ^ (-((ln : Int) - (ld : Int))).toNat
    · simp only [hge, decide_true, if_true]
      constructor <;> intro _ <;> first | trivial | exact hge | omega
    · simp only [hge, decide_false, Bool.false_eq_true, if_false]
      constructor
      · intro h1; omega
      · intro _
        have e : (-((ln : Int) - (ld : Int) - 1)).toNat = ld + 1 - ln := by omega
        rw [e]
        have : ln + (ld + 1 - ln) = ld + 1 := by omega
        calc den ≤ 2 ^ (ld + 1) := Nat.le_of_lt a2
          _ = 2 ^ ln * 2 ^ (ld + 1 - ln) := by rw [← Nat.pow_add, this]
          _ ≤ num * 2 ^ (ld + 1 - ln) := Nat.mul_le_mul_right _ a1

theorem rnePos_pos (p num den : Nat) (hp : 0 < p) (hn : 0 < num) (hd : 0 < den) :
    0 < rnePos p num den := by
  obtain ⟨f1, f2⟩ := floorLog2_le num den hn
  unfold rnePos
  simp only
  generalize floorLog2 num den = e at *
  by_cases hs : (0 : Int) ≤ e - ((p : Int) - 1)
  · simp only [hs, if_true]
    have he : 0 ≤ e := by omega
    have h1 := f1 he
    have hle : 2 ^ (e - ((p : Int) - 1)).toNat ≤ 2 ^ e.toNat :=
      Nat.pow_le_pow_right (by omega) (by omega)
    have h2 : den * 2 ^ (e - ((p : Int) - 1)).toNat ≤ num :=
      Nat.le_trans (Nat.mul_le_mul_left _ hle) h1
    have hpow : 0 < 2 ^ (e - ((p : Int) - 1)).toNat := Nat.pow_pos (by omega)
    have h3 := rneDiv_pos num (den * 2 ^ (e - ((p : Int) - 1)).toNat) (Nat.mul_pos hd hpow) h2
    have : 0 < rneDiv num (den * 2 ^ (e - ((p : Int) - 1)).toNat) * 2 ^ (e - ((p : Int) - 1)).toNat :=
      Nat.mul_pos h3 hpow
    exact Rat.natCast_pos.mpr this
  · simp only [hs, if_false]
    have hpow : 0 < 2 ^ (-(e - ((p : Int) - 1))).toNat := Nat.pow_pos (by omega)
    have h2 : den ≤ num * 2 ^ (-(e - ((p : Int) - 1))).toNat := by
      by_cases he : 0 ≤ e
      · have h1 := f1 he
        have : 0 < 2 ^ e.toNat := Nat.pow_pos (by omega)
        calc den ≤ den * 2 ^ e.toNat := Nat.le_mul_of_pos_right _ this
          _ ≤ num := h1
          _ ≤ num * 2 ^ (-(e - ((p : Int) - 1))).toNat := Nat.le_mul_of_pos_right _ hpow
      · have h1 := f2 (by omega)
        have hle : 2 ^ (-e).toNat ≤ 2 ^ (-(e - ((p : Int) - 1))).toNat :=
          Nat.pow_le_pow_right (by omega) (by omega)
        exact Nat.le_trans h1 (Nat.mul_le_mul_left _ hle)
    have h3 := rneDiv_pos (num * 2 ^ (-(e - ((p : Int) - 1))).toNat) den hd h2
    rw [Rat.mkRat_eq_div]
    apply Rat.mul_pos
    · exact Rat.intCast_pos.mpr (by omega)
    · exact Rat.inv_pos.mpr (Rat.natCast_pos.mpr hpow)

theorem rne_zero (p : Nat) : rne p 0 = 0 := by
  unfold rne; simp

theorem rne_pos (p : Nat) (hp : 0 < p) (x : Rat) (hx : 0 < x) : 0 < rne p x := by
  have hnum : 0 < x.num := by
    have h1 : 0 ≤ x.num := Rat.num_nonneg.mpr (Rat.le_of_lt hx)
    have h2 : x.num ≠ 0 := fun h => by
      have := Rat.num_eq_zero.mp h
      subst this
      exact Rat.lt_irrefl hx
    omega
  unfold rne
  have h0 : x.num ≠ 0 := by omega
  simp only [h0, hnum, if_true, if_false]
  exact rnePos_pos p x.num.natAbs x.den hp (by omega) x.den_pos

theorem rne_nonneg (p : Nat) (hp : 0 < p) (x : Rat) (hx : 0 ≤ x) : 0 ≤ rne p x := by
  by_cases h : x = 0
  · subst h; rw [rne_zero]; exact Rat.le_refl
  · have : 0 < x := by grind
    exact Rat.le_of_lt (rne_pos p hp x this)

theorem truncR_nonneg (x : Rat) (hx : 0 ≤ x) : 0 ≤ truncR x := by
  unfold truncR
  simp only [hx, if_true]
  exact Rat.le_floor_iff.mpr (by simpa using hx)

theorem rat_div_pos (a b : Rat) (ha : 0 < a) (hb : 0 < b) : 0 < a / b := by
  rw [Rat.div_def]; exact Rat.mul_pos ha (Rat.inv_pos.mpr hb)

theorem rat_ceil_pos (x : Rat) (h : 0 < x) : 0 < x.ceil := by
  have := @Rat.le_ceil x
  have : (0 : Rat) < (x.ceil : Rat) := by grind
  exact Rat.intCast_pos.mp this

end NSV
