import Mathlib.Tactic.Set
import NoteSeqVerif.Proofs.C18Enc
/-! C18 helper lemmas: `pianoroll_onsets_to_note_sequence` (onset-only decoding) as a closed form
over the onset matrix. -/
namespace NSV.C18

/-- the note `pianoroll_onsets_to_note_sequence` adds for a predicted onset at frame `f`, pitch index
`p`, with velocity value `v`: it starts at the frame's time `f · frame_length`, lasts
`note_duration_seconds`, has pitch `p + min_midi_pitch` and velocity `_unscale_velocity(v)` -/
def onsetNote (R : Rat → Rat) (un : Rat → Int) (fls dur : Rat) (minMidiPitch : Int) (f p : Nat) (v : Rat) :
    ONote :=
  { pitch := (p : Int) + minMidiPitch, velocity := un v,
    start := R ((f : Rat) * fls), end_ := R (R ((f : Rat) * fls) + dur) }

theorem onsetRow_eq (R : Rat → Rat) (un : Rat → Int) (fls dur : Rat) (mp : Int) (f : Nat) :
    ∀ (p0 : Nat) (bs : List Bool) (vs : List Rat), bs.length = vs.length →
      onsetRow R un fls dur mp f p0 bs vs =
        ((List.range bs.length).filter (fun j => bs[j]?.getD false)).map
          (fun j => onsetNote R un fls dur mp f (p0 + j) (vs[j]?.getD 0)) := by
  intro p0 bs
  induction bs generalizing p0 with
  | nil => intro vs _; cases vs <;> simp [onsetRow]
  | cons b bs ih =>
    intro vs hl
    cases vs with
    | nil => simp at hl
    | cons v vs =>
      have hl' : bs.length = vs.length := by simpa using hl
      simp only [onsetRow, List.length_cons, List.range_succ_eq_map, List.filter_cons,
        List.getElem?_cons_zero, Option.getD_some, List.filter_map]
      rw [ih (p0 + 1) vs hl']
      have hmap : List.map ((fun j => onsetNote R un fls dur mp f (p0 + j) ((v :: vs)[j]?.getD 0)) ∘ Nat.succ)
            (List.filter ((fun j => (b :: bs)[j]?.getD false) ∘ Nat.succ) (List.range bs.length)) =
          List.map (fun j => onsetNote R un fls dur mp f (p0 + 1 + j) (vs[j]?.getD 0))
            (List.filter (fun j => bs[j]?.getD false) (List.range bs.length)) := by
        have hf : ((fun j => (b :: bs)[j]?.getD false) ∘ Nat.succ) = (fun j => bs[j]?.getD false) := by
          funext j; simp [Function.comp]
        rw [hf]
        apply List.map_congr_left
        intro j _
        simp only [Function.comp, Nat.succ_eq_add_one, List.getElem?_cons_succ]
        congr 1
        omega
      cases b with
      | true =>
        simp only [if_true, List.map_cons, Nat.add_zero, List.getElem?_cons_zero, Option.getD_some]
        rw [List.map_map, hmap]
        rfl
      | false =>
        simp only [Bool.false_eq_true, if_false]
        rw [List.map_map, hmap]

theorem onsetRows_eq (R : Rat → Rat) (un : Rat → Int) (fls dur : Rat) (mp : Int) :
    ∀ (f0 : Nat) (rs : List (List Bool)) (vs : List (List Rat)), rs.length = vs.length →
      onsetRows R un fls dur mp f0 rs vs =
        (List.range rs.length).flatMap
          (fun i => onsetRow R un fls dur mp (f0 + i) 0 (rs[i]?.getD []) (vs[i]?.getD [])) := by
  intro f0 rs
  induction rs generalizing f0 with
  | nil => intro vs _; cases vs <;> simp [onsetRows]
  | cons r rs ih =>
    intro vs hl
    cases vs with
    | nil => simp at hl
    | cons v vs =>
      have hl' : rs.length = vs.length := by simpa using hl
      simp only [onsetRows, List.length_cons, List.range_succ_eq_map, List.flatMap_cons,
        List.getElem?_cons_zero, Option.getD_some, Nat.add_zero, List.flatMap_map]
      rw [ih (f0 + 1) vs hl']
      congr 1
      congr 1
      funext i
      simp only [Nat.succ_eq_add_one, List.getElem?_cons_succ]
      congr 1
      omega

/-- width of a roll as the functions read it (`onsets[0]`'s length; 0 for an empty roll) -/
def rollWidth {α} (m : List (List α)) : Nat := match m with | r :: _ => r.length | [] => 0

/-- the onset matrix at `(f, p)` -/
def onsetAt (onsets : List (List Bool)) (f p : Nat) : Bool := (getCell onsets f p).getD false

/-- the velocity value the onset at `(f, p)` is given: `velocity_values[f, p]`, or — without
`velocity_values` — the `velocity` argument itself (`velocity * np.ones_like(onsets)`), which then goes
through `_unscale_velocity` like a predicted value -/
def onsetVel (d : DCfg) (vels : Option (List (List Rat))) (f p : Nat) : Rat :=
  match vels with
  | some v => (getCell v f p).getD 0
  | none => (d.velocity : Rat)

theorem isRect_row {α} (m : List (List α)) (n w : Nat) (h : isRect m n w = true) (f : Nat) (hf : f < n) :
    ∃ row, m[f]? = some row ∧ row.length = w := by
  unfold isRect at h
  simp only [Bool.and_eq_true, beq_iff_eq, List.all_eq_true] at h
  obtain ⟨hl, hall⟩ := h
  have hfl : f < m.length := by omega
  exact ⟨m[f], List.getElem?_eq_getElem hfl, hall _ (List.getElem_mem hfl)⟩

theorem isRect_width {α} (m : List (List α)) (w : Nat) (h : isRect m m.length w = true) (hne : m ≠ []) :
    rollWidth m = w := by
  cases m with
  | nil => exact absurd rfl hne
  | cons r rest =>
    obtain ⟨row, hrow, hlen⟩ := isRect_row (r :: rest) _ w h 0 (by simp)
    simp only [List.getElem?_cons_zero, Option.some.injEq] at hrow
    subst hrow
    exact hlen

/-- the optional velocity matrix has the shape `n × w` -/
def velsRect (vels : Option (List (List Rat))) (n w : Nat) : Bool :=
  match vels with | some v => isRect v n w | none => true

/-- the matrix of velocity values the loop reads (`velocity * np.ones_like(onsets)` without values) -/
def velsOr (d : DCfg) (onsets : List (List Bool)) (vels : Option (List (List Rat))) : List (List Rat) :=
  match vels with
  | some v => v
  | none => onsets.map fun r => r.map fun _ => (d.velocity : Rat)

/-- `decodeOnsets` with the width spelled `rollWidth` -/
theorem decodeOnsets_eq (R Rv : Rat → Rat) (d : DCfg) (dur : Rat) (onsets : List (List Bool))
    (vels : Option (List (List Rat))) :
    decodeOnsets R Rv d dur onsets vels =
      if d.fps = 0 then .error .zeroDivisionError
      else if (isRect onsets onsets.length (rollWidth onsets) &&
          velsRect vels onsets.length (rollWidth onsets)) = false
        then .error .shape
      else .ok (onsetRows R (unscale Rv d.scale d.bias) (R (1 / d.fps)) dur d.minMidiPitch 0 onsets
            (velsOr d onsets vels),
           R (R ((onsets.length : Rat) * R (1 / d.fps)) + dur)) := by
  unfold decodeOnsets rollWidth velsRect velsOr
  simp only [Bool.not_eq_true']
  cases onsets <;> rfl

end NSV.C18
