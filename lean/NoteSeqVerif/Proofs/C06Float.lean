import NoteSeqVerif.Proofs.RoundingApps
import NoteSeqVerif.Model.C06Time
/-! C06 — the float half (`render_quantize_exact`): the time a renderer computes for step `k` of an event
sequence starting at `startStep`, quantized by the C01 model at the same resolution and tempo, is exactly
step `startStep + k`.  Stated for every rounding operator `R` with `Rounding R` (in particular `rne53`,
IEEE binary64) and every positive tempo / resolution; the only size bound is `startStep + k < 2^40`.

General form `step_quantize_exact`: `σ` (seconds per step as computed) within `a` roundings of `σ₀`,
`ρ` (steps per second as the quantizer computes it) within `b` roundings of `ρ₀`, `σ₀·ρ₀ = 1`,
`2a + b + 3 ≤ 10`.  Instances: `render_quantize_exact` (`60/qpm/spq` against `spq·qpm/60`),
`render_quantize_exact_metric` (`60/(spq·qpm)` against `spq·qpm/60`),
`render_quantize_exact_abs` (`1/sps` against the integer `sps`). -/
namespace NSV.C06
open NSV

variable {R : ℚ → ℚ}

private theorem hp53 : 1 ≤ 53 := by norm_num

/-- `k · σ` rounded, for an integer `k > 0` -/
theorem near_int_mul (hR : Rounding R) {σ σ₀ : ℚ} {a : ℕ} (hσ₀ : 0 < σ₀) (hσ : Near 53 a σ σ₀)
    (k : ℤ) (hk : 0 < k) : Near 53 (a + 1) (R ((k : ℚ) * σ)) ((k : ℚ) * σ₀) := by
  have hkq : (0 : ℚ) < k := by exact_mod_cast hk
  have h := Near.mul hp53 hkq hσ₀ (Near.refl (p := 53) (k : ℚ)) hσ
  rw [Nat.zero_add] at h
  exact h.round hR hp53 (mul_pos hkq hσ₀)

/-- the rendered time of step `k` is within `2a + 3` roundings of `(S + k)·σ₀` -/
theorem near_stepTime (hR : Rounding R) {σ σ₀ : ℚ} {a : ℕ} (hσ₀ : 0 < σ₀) (hσ : Near 53 a σ σ₀)
    (S k : ℤ) (hS : 0 ≤ S) (hk : 0 ≤ k) (hpos : 0 < S + k) :
    Near 53 (2 * a + 3) (stepTimeR R σ (seqStartR R σ S) k) (((S + k : ℤ) : ℚ) * σ₀) := by
  unfold stepTimeR seqStartR
  rcases hS.lt_or_eq with hS | hS
  · rcases hk.lt_or_eq with hk | hk
    · have h1 := near_int_mul hR hσ₀ hσ k hk
      have h2 := near_int_mul hR hσ₀ hσ S hS
      have hkq : (0 : ℚ) < k := by exact_mod_cast hk
      have hSq : (0 : ℚ) < S := by exact_mod_cast hS
      have h := (Near.add hp53 (mul_pos hkq hσ₀) (mul_pos hSq hσ₀) h1 h2).round hR hp53
        (add_pos (mul_pos hkq hσ₀) (mul_pos hSq hσ₀))
      have e : ((S + k : ℤ) : ℚ) * σ₀ = (k : ℚ) * σ₀ + (S : ℚ) * σ₀ := by push_cast; ring
      rw [e]
      have hn : a + 1 + (a + 1) + 1 = 2 * a + 3 := by ring
      rw [hn] at h; exact h
    · subst hk
      have h2 := near_int_mul hR hσ₀ hσ S hS
      have hSq : (0 : ℚ) < S := by exact_mod_cast hS
      simp only [Int.cast_zero, zero_mul, hR.zero, zero_add, hR.idem, add_zero]
      exact h2.mono hp53 (mul_pos hSq hσ₀) (by omega)
  · subst hS
    have hk' : 0 < k := by omega
    have h1 := near_int_mul hR hσ₀ hσ k hk'
    have hkq : (0 : ℚ) < k := by exact_mod_cast hk'
    simp only [Int.cast_zero, zero_mul, hR.zero, zero_add, hR.idem, add_zero]
    exact h1.mono hp53 (mul_pos hkq hσ₀) (by omega)

/-- **float half, general form.**  `σ` = seconds per step as the renderer computes it (within `a` roundings of
`σ₀`), `ρ` = steps per second as the quantizer computes it (within `b` roundings of `ρ₀ = 1/σ₀`).  The time
`R (R (k·σ) + R (S·σ))` the renderer gives step `k` of a sequence starting at step `S` is quantized
(`quantize_to_step`, cutoff 1/2, two more roundings) to exactly `S + k`. -/
theorem step_quantize_exact (hR : Rounding R) {σ ρ σ₀ ρ₀ : ℚ} {a b : ℕ}
    (hσ₀ : 0 < σ₀) (hρ₀ : 0 < ρ₀) (hinv : σ₀ * ρ₀ = 1)
    (hσ : Near 53 a σ σ₀) (hρ : Near 53 b ρ ρ₀) (hab : 2 * a + b + 3 ≤ 10)
    (S k : ℤ) (hS : 0 ≤ S) (hk : 0 ≤ k) (hK : S + k < 2 ^ 40) :
    C01.qstepR R (1 / 2) (stepTimeR R σ (seqStartR R σ S) k) ρ = S + k := by
  rcases (show S + k = 0 ∨ 0 < S + k by omega) with h0 | hpos
  · have hS0 : S = 0 := by omega
    have hk0 : k = 0 := by omega
    subst hS0 hk0
    unfold C01.qstepR stepTimeR seqStartR
    have h12 : R (1 / 2) = 1 / 2 := hR.half hp53
    simp only [Int.cast_zero, zero_mul, hR.zero, zero_add, show (1 : ℚ) - 1 / 2 = 1 / 2 by norm_num,
      h12, add_zero]
    rw [truncR_eq_of_floor (N := 0) (by norm_num) (by norm_num) (by norm_num)]
  · set t := stepTimeR R σ (seqStartR R σ S) k with ht
    set K : ℤ := S + k with hKdef
    have hKq : (0 : ℚ) < (K : ℚ) := by exact_mod_cast hpos
    have hKle : (K : ℚ) ≤ 2 ^ 40 := by
      have : K ≤ 2 ^ 40 := by omega
      exact_mod_cast this
    have h1 : Near 53 (2 * a + 3) t ((K : ℚ) * σ₀) := near_stepTime hR hσ₀ hσ S k hS hk hpos
    have h2 := Near.mul hp53 (mul_pos hKq hσ₀) hρ₀ h1 hρ
    have e : (K : ℚ) * σ₀ * ρ₀ = K := by rw [mul_assoc, hinv, mul_one]
    rw [e] at h2
    have h3 := h2.mono hp53 hKq (show 2 * a + 3 + b ≤ 10 by omega)
    have hx0 : 0 < t * ρ := h3.pos hp53 hKq
    have habs : |t * ρ - K| ≤ (K : ℚ) * (1 / 2 ^ 49) :=
      h3.abs_le hKq (by norm_num) (by norm_num) (by norm_num)
    have hsmall : |t * ρ - K| ≤ 1 / 2 ^ 9 := by
      refine habs.trans ?_
      calc (K : ℚ) * (1 / 2 ^ 49) ≤ 2 ^ 40 * (1 / 2 ^ 49) :=
            mul_le_mul_of_nonneg_right hKle (by positivity)
        _ = 1 / 2 ^ 9 := by norm_num
    obtain ⟨hlo, hhi⟩ := abs_le.mp hsmall
    have hfl : ⌊t * ρ + 1 / 2⌋ = K := by
      rw [Int.floor_eq_iff]; constructor <;> norm_num at hlo hhi ⊢ <;> linarith
    rw [C01.qstepR.eq_1] at *
    have := qstep_float hR t ρ hx0.le (by norm_num at hhi ⊢; linarith) (by
      intro n
      have hsm : (t * ρ + 1) / 2 ^ 51 < 1 / 4 := by
        rw [div_lt_iff₀ (by positivity)]; norm_num at hhi ⊢; linarith
      rcases le_or_gt K n with hn | hn
      · have : (K : ℚ) ≤ n := by exact_mod_cast hn
        rw [abs_of_nonpos (by norm_num at hhi ⊢; linarith)]
        norm_num at hhi hsm ⊢; linarith
      · have : (n : ℚ) + 1 ≤ K := by exact_mod_cast hn
        rw [abs_of_nonneg (by norm_num at hlo ⊢; linarith)]
        norm_num at hlo hsm ⊢; linarith)
    rw [C01.qstepR.eq_1] at this
    rw [this, hfl]

/-! ### the float expressions of the renderers and of the quantizer -/

theorem near_secPerStep (hR : Rounding R) (qpm : ℚ) (spq : ℤ) (hq : 0 < qpm) (hs : 0 < spq) :
    Near 53 2 (secPerStepR R qpm spq) (60 / qpm / (spq : ℚ)) := by
  have hsq : (0 : ℚ) < spq := by exact_mod_cast hs
  exact FExpr.near hR hp53 (.div (.div (.lit 60) (.lit qpm)) (.lit (spq : ℚ)))
    ⟨⟨show (0 : ℚ) < 60 by norm_num, hq⟩, hsq⟩

theorem near_secPerStepMetric (hR : Rounding R) (qpm : ℚ) (spq : ℤ) (hq : 0 < qpm) (hs : 0 < spq) :
    Near 53 2 (secPerStepMetricR R qpm spq) (60 / ((spq : ℚ) * qpm)) := by
  have hsq : (0 : ℚ) < spq := by exact_mod_cast hs
  exact FExpr.near hR hp53 (.div (.lit 60) (.mul (.lit (spq : ℚ)) (.lit qpm)))
    ⟨show (0 : ℚ) < 60 by norm_num, hsq, hq⟩

theorem near_secPerStepAbs (hR : Rounding R) (sps : ℤ) (hs : 0 < sps) :
    Near 53 1 (secPerStepAbsR R sps) (1 / (sps : ℚ)) := by
  have hsq : (0 : ℚ) < sps := by exact_mod_cast hs
  exact FExpr.near hR hp53 (.div (.lit 1) (.lit (sps : ℚ))) ⟨show (0 : ℚ) < 1 by norm_num, hsq⟩

theorem near_spsR (hR : Rounding R) (qpm : ℚ) (spq : ℤ) (hq : 0 < qpm) (hs : 0 < spq) :
    Near 53 2 (C01.spsR R spq qpm) ((spq : ℚ) * qpm / 60) := by
  have hsq : (0 : ℚ) < spq := by exact_mod_cast hs
  exact FExpr.near hR hp53 (.div (.mul (.lit (spq : ℚ)) (.lit qpm)) (.lit 60))
    ⟨⟨hsq, hq⟩, show (0 : ℚ) < 60 by norm_num⟩

/-- `sequence_start_time = 0.0`: `0.0 + start_step * seconds_per_step` is the product itself -/
theorem seqStartAddR_zero (hR : Rounding R) (σ : ℚ) (S : ℤ) :
    seqStartAddR R 0 σ S = seqStartR R σ S := by
  unfold seqStartAddR seqStartR
  rw [zero_add, hR.idem]

/-- **float half** for Melody, DrumTrack, ChordProgression, LeadSheet, PianorollSequence:
`seconds_per_step = 60.0 / qpm / spq`, quantizer rate `spq * qpm / 60.0`; any tempo `qpm > 0` (any
rational, so any double), any resolution `spq > 0`, any `0 ≤ startStep`, `0 ≤ k`, `startStep + k < 2^40`. -/
theorem render_quantize_exact (hR : Rounding R) (qpm : ℚ) (spq S k : ℤ) (hq : 0 < qpm) (hs : 0 < spq)
    (hS : 0 ≤ S) (hk : 0 ≤ k) (hK : S + k < 2 ^ 40) :
    C01.qstepR R (1 / 2)
      (stepTimeR R (secPerStepR R qpm spq) (seqStartR R (secPerStepR R qpm spq) S) k)
      (C01.spsR R spq qpm) = S + k := by
  have hsq : (0 : ℚ) < spq := by exact_mod_cast hs
  exact step_quantize_exact hR (σ₀ := 60 / qpm / (spq : ℚ)) (ρ₀ := (spq : ℚ) * qpm / 60)
    (by positivity) (by positivity) (by field_simp)
    (near_secPerStep hR qpm spq hq hs) (near_spsR hR qpm spq hq hs) (by norm_num) S k hS hk hK

/-- **float half** for MetricPerformance: `seconds_per_step = 60.0 / (spq * qpm)` -/
theorem render_quantize_exact_metric (hR : Rounding R) (qpm : ℚ) (spq S k : ℤ) (hq : 0 < qpm)
    (hs : 0 < spq) (hS : 0 ≤ S) (hk : 0 ≤ k) (hK : S + k < 2 ^ 40) :
    C01.qstepR R (1 / 2)
      (stepTimeR R (secPerStepMetricR R qpm spq) (seqStartR R (secPerStepMetricR R qpm spq) S) k)
      (C01.spsR R spq qpm) = S + k := by
  have hsq : (0 : ℚ) < spq := by exact_mod_cast hs
  exact step_quantize_exact hR (σ₀ := 60 / ((spq : ℚ) * qpm)) (ρ₀ := (spq : ℚ) * qpm / 60)
    (by positivity) (by positivity) (by field_simp)
    (near_secPerStepMetric hR qpm spq hq hs) (near_spsR hR qpm spq hq hs) (by norm_num) S k hS hk hK

/-- **float half** for Performance / NotePerformance (absolute quantization):
`seconds_per_step = 1.0 / steps_per_second`, quantizer rate = the integer `steps_per_second` -/
theorem render_quantize_exact_abs (hR : Rounding R) (sps S k : ℤ) (hs : 0 < sps)
    (hS : 0 ≤ S) (hk : 0 ≤ k) (hK : S + k < 2 ^ 40) :
    C01.qstepR R (1 / 2)
      (stepTimeR R (secPerStepAbsR R sps) (seqStartR R (secPerStepAbsR R sps) S) k)
      (sps : ℚ) = S + k := by
  have hsq : (0 : ℚ) < sps := by exact_mod_cast hs
  exact step_quantize_exact hR (σ₀ := 1 / (sps : ℚ)) (ρ₀ := (sps : ℚ)) (b := 0)
    (by positivity) hsq (by field_simp)
    (near_secPerStepAbs hR sps hs) (Near.refl _) (by norm_num) S k hS hk hK

/-! ### non-vacuity: an awkward tempo (`100/3` is not a double; `rne53 (100/3)` is), start step 64 -/
example : C01.qstepR rne53 (1 / 2)
      (stepTimeR rne53 (secPerStepR rne53 (rne53 (100 / 3)) 12)
        (seqStartR rne53 (secPerStepR rne53 (rne53 (100 / 3)) 12) 64) 1000001)
      (C01.spsR rne53 12 (rne53 (100 / 3))) = 64 + 1000001 :=
  render_quantize_exact rounding_rne53 _ 12 64 1000001
    (by decide +kernel)
    (by norm_num) (by norm_num) (by norm_num) (by norm_num)

example : C01.qstepR rne53 (1 / 2)
      (stepTimeR rne53 (secPerStepAbsR rne53 31) (seqStartR rne53 (secPerStepAbsR rne53 31) 310) 977)
      (31 : ℚ) = 310 + 977 :=
  render_quantize_exact_abs rounding_rne53 31 310 977 (by norm_num) (by norm_num) (by norm_num) (by norm_num)

end NSV.C06
