import NoteSeqVerif.Proofs.C12AOps
import NoteSeqVerif.Model.C13Full
/-! C12 — helper lemmas for the permutation invariance of `concatenate_sequences` and
`repeat_sequence_to_duration` (model of C13): `MergeFrom`, the concatenation loop,
`remove_redundant_data`. -/
namespace NSV.C12
open NSV NSV.C13

/-- sequences-with-metadata that differ only in the storage order of the repeated fields -/
def MPerm (m m' : MSeq) : Prop :=
  NSPerm m.ns m'.ns ∧ m.composers = m'.composers ∧ m.genres = m'.genres

def MPermList : List MSeq → List MSeq → Prop
  | [], [] => True
  | a :: l, b :: l' => MPerm a b ∧ MPermList l l'
  | _, _ => False

/-- same error, or results that differ only in storage order -/
def ResPermM (r r' : Except Err MSeq) : Prop :=
  match r, r' with
  | .ok a, .ok b => MPerm a b
  | .error e, .error e' => e = e'
  | _, _ => False

theorem MPerm.refl (m : MSeq) : MPerm m m := ⟨NSPerm.refl _, rfl, rfl⟩

theorem MPermList.refl (l : List MSeq) : MPermList l l := by
  induction l with
  | nil => trivial
  | cons a l ih => exact ⟨MPerm.refl a, ih⟩

theorem MPermList.length_eq : ∀ {l l' : List MSeq}, MPermList l l' → l.length = l'.length
  | [], [], _ => rfl
  | _ :: _, _ :: _, h => by simp [MPermList.length_eq h.2]
  | [], _ :: _, h => h.elim
  | _ :: _, [], h => h.elim

theorem MPermList.metaTags : ∀ {l l' : List MSeq}, MPermList l l' →
    l.map (·.ns.metaTag) = l'.map (·.ns.metaTag)
  | [], [], _ => rfl
  | a :: _, b :: _, h => by
    simp only [List.map_cons]
    rw [h.1.1.metaTag, MPermList.metaTags h.2]
  | [], _ :: _, h => h.elim
  | _ :: _, [], h => h.elim

theorem MPermList.replicate (n : Nat) {m m' : MSeq} (h : MPerm m m') :
    MPermList (List.replicate n m) (List.replicate n m') := by
  induction n with
  | zero => trivial
  | succ n ih => exact ⟨h, ih⟩

theorem mergeFrom_perm {a a' b b' : NoteSeq} (ha : NSPerm a a') (hb : NSPerm b b') :
    NSPerm (mergeFrom a b) (mergeFrom a' b') := by
  unfold mergeFrom
  constructor <;> simp only []
  · exact ha.notes.append hb.notes
  · exact ha.tempos.append hb.tempos
  · exact ha.timeSigs.append hb.timeSigs
  · exact ha.keySigs.append hb.keySigs
  · exact ha.texts.append hb.texts
  · exact ha.ccs.append hb.ccs
  · exact ha.bends.append hb.bends
  · exact ha.sectionAnns.append hb.sectionAnns
  · rw [ha.sgroups, hb.sgroups]
  · rw [ha.totalTime, hb.totalTime]
  · rw [ha.totalQSteps, hb.totalQSteps]
  · rw [ha.spq, hb.spq, hb.sps]
  · rw [ha.sps, hb.spq, hb.sps]
  · rw [ha.hasSub, hb.hasSub]
  · rw [ha.subStart, hb.subStart]
  · rw [ha.subEnd, hb.subEnd]
  · rw [ha.tpq, hb.tpq]
  · exact ha.metaTag

theorem mergeFromM_perm {a a' b b' : MSeq} (ha : MPerm a a') (hb : MPerm b b') :
    MPerm (mergeFromM a b) (mergeFromM a' b') := by
  unfold mergeFromM
  exact ⟨mergeFrom_perm ha.1 hb.1, by simp only []; rw [ha.2.1, hb.2.1], by simp only []; rw [ha.2.2, hb.2.2]⟩

theorem shiftM_perm (R : Rat → Rat) (d : Rat) {m m' : MSeq} (h : MPerm m m') :
    ResPermM (shiftM R d m) (shiftM R d m') := by
  unfold shiftM
  have hs := shift_perm_aux R d h.1
  cases h1 : shiftR R d m.ns with
  | ok s =>
    cases h2 : shiftR R d m'.ns with
    | ok s' => rw [h1, h2] at hs; exact ⟨hs, h.2.1, h.2.2⟩
    | error e' => rw [h1, h2] at hs; exact hs
  | error e =>
    cases h2 : shiftR R d m'.ns with
    | ok s' => rw [h1, h2] at hs; exact hs
    | error e' => rw [h1, h2] at hs; exact hs

/-- the `(sequence, duration)` pairs of two calls: sequences up to storage order, equal durations -/
def PairsPerm : List (MSeq × Rat) → List (MSeq × Rat) → Prop
  | [], [] => True
  | a :: l, b :: l' => MPerm a.1 b.1 ∧ a.2 = b.2 ∧ PairsPerm l l'
  | _, _ => False

theorem pairsPerm_zip : ∀ {l l' : List MSeq} (durs : List Rat), MPermList l l' →
    PairsPerm (l.zip durs) (l'.zip durs)
  | [], [], _, _ => by simp [PairsPerm]
  | a :: l, b :: l', [], _ => by simp [PairsPerm]
  | a :: l, b :: l', d :: ds, h => by
    simp only [List.zip_cons_cons]
    exact ⟨h.1, rfl, pairsPerm_zip ds h.2⟩
  | [], _ :: _, _, h => h.elim
  | _ :: _, [], _, h => h.elim

theorem pairsPerm_map : ∀ {l l' : List MSeq}, MPermList l l' →
    PairsPerm (l.map (fun s => (s, (0 : Rat)))) (l'.map (fun s => (s, (0 : Rat))))
  | [], [], _ => by simp [PairsPerm]
  | a :: l, b :: l', h => by
    simp only [List.map_cons]
    exact ⟨h.1, rfl, pairsPerm_map h.2⟩
  | [], _ :: _, h => h.elim
  | _ :: _, [], h => h.elim

/-- the concatenation loop on two storage orders -/
theorem catLoop_perm (R : Rat → Rat) (useD : Bool) : ∀ (ps ps' : List (MSeq × Rat)), PairsPerm ps ps' →
    ∀ (cur : Rat) (cat cat' : MSeq), MPerm cat cat' →
    ResPermM (catLoop R useD cur cat ps) (catLoop R useD cur cat' ps')
  | [], [], _, _, _, _, hc => hc
  | (s, d) :: rest, (s', d') :: rest', hp, cur, cat, cat', hc => by
    obtain ⟨hs, hd, hr⟩ := hp
    simp only [] at hs hd
    subst hd
    unfold catLoop
    rw [← hs.1.totalTime]
    split
    · rfl
    · have hsh : ResPermM (if 0 < cur then shiftM R cur s else .ok s)
          (if 0 < cur then shiftM R cur s' else .ok s') := by
        split
        · exact shiftM_perm R cur hs
        · exact hs
      cases h1 : (if 0 < cur then shiftM R cur s else Except.ok s) with
      | ok sh =>
        cases h2 : (if 0 < cur then shiftM R cur s' else Except.ok s') with
        | ok sh' =>
          rw [h1, h2] at hsh
          simp only []
          have hm := mergeFromM_perm hc hsh
          rw [← hm.1.totalTime]
          exact catLoop_perm R useD rest rest' hr _ _ _ hm
        | error e' => rw [h1, h2] at hsh; exact hsh.elim
      | error e =>
        cases h2 : (if 0 < cur then shiftM R cur s' else Except.ok s') with
        | ok sh' => rw [h1, h2] at hsh; exact hsh.elim
        | error e' => rw [h1, h2] at hsh; exact hsh
  | [], _ :: _, h, _, _, _, _ => h.elim
  | _ :: _, [], h, _, _, _, _ => h.elim

/-- no two time signatures, key signatures, tempos of the (concatenated) sequence share a time:
what `remove_redundant_data`'s "drop an event equal to its predecessor in time order" needs -/
def StateNoTies (s : NoteSeq) : Prop :=
  DistinctKeys (·.time) s.timeSigs ∧ DistinctKeys (·.time) s.keySigs ∧ DistinctKeys (·.time) s.tempos

instance (s : NoteSeq) : Decidable (StateNoTies s) := by unfold StateNoTies DistinctKeys; infer_instance

theorem StateNoTies.perm {s s' : NoteSeq} (h : NSPerm s s') (hn : StateNoTies s) : StateNoTies s' :=
  ⟨hn.1.perm h.timeSigs, hn.2.1.perm h.keySigs, hn.2.2.perm h.tempos⟩

theorem removeRedundant_perm {m m' : MSeq} (h : MPerm m m') (hn : StateNoTies m.ns) :
    MPerm (removeRedundant m) (removeRedundant m') := by
  obtain ⟨hp, hc, hg⟩ := h
  unfold removeRedundant
  refine ⟨?_, by simp only []; rw [hc], by simp only []; rw [hg]⟩
  simp only [redTimeSigs, redKeySigs, redTempos]
  rw [sortByRat_eq_of_perm _ hp.timeSigs hn.1, sortByRat_eq_of_perm _ hp.keySigs hn.2.1,
    sortByRat_eq_of_perm _ hp.tempos hn.2.2]
  constructor <;> simp only []
  · exact hp.notes
  · exact List.Perm.refl _
  · exact List.Perm.refl _
  · exact List.Perm.refl _
  · exact hp.texts
  · exact hp.ccs
  · exact hp.bends
  · exact hp.sectionAnns
  · exact hp.sgroups
  · exact hp.totalTime
  · exact hp.totalQSteps
  · exact hp.spq
  · exact hp.sps
  · exact hp.hasSub
  · exact hp.subStart
  · exact hp.subEnd
  · exact hp.tpq
  · exact hp.metaTag

theorem finishCat_perm (mm : List String → String) {seqs seqs' : List MSeq} (hl : MPermList seqs seqs')
    {cat cat' : MSeq} (h : MPerm cat cat') (hn : StateNoTies cat.ns) :
    MPerm (finishCat mm seqs cat) (finishCat mm seqs' cat') := by
  unfold finishCat
  rw [← hl.metaTags]
  refine removeRedundant_perm ⟨?_, h.2.1, h.2.2⟩ hn
  have hp := h.1
  constructor <;> simp only []
  · exact hp.notes
  · exact hp.tempos
  · exact hp.timeSigs
  · exact hp.keySigs
  · exact hp.texts
  · exact hp.ccs
  · exact hp.bends
  · exact hp.sectionAnns
  · exact hp.sgroups
  · exact hp.totalTime
  · exact hp.totalQSteps
  · exact hp.spq
  · exact hp.sps
  · exact hp.tpq

/-- the `(sequence, duration)` list `concatenate_sequences` iterates over -/
def catPairs (seqs : List MSeq) (durs : List Rat) : List (MSeq × Rat) :=
  if !durs.isEmpty then seqs.zip durs else seqs.map (fun s => (s, (0 : Rat)))

/-- the side condition of concatenation: in the shifted-and-merged sequence (before
`remove_redundant_data`) no two time signatures / key signatures / tempos share a time -/
def ConcatNoTies (R : Rat → Rat) (seqs : List MSeq) (durs : List Rat) : Prop :=
  match catLoop R (!durs.isEmpty) 0 emptyM (catPairs seqs durs) with
  | .ok cat => StateNoTies cat.ns
  | .error _ => True

instance (R : Rat → Rat) (seqs : List MSeq) (durs : List Rat) : Decidable (ConcatNoTies R seqs durs) := by
  unfold ConcatNoTies
  cases catLoop R (!durs.isEmpty) 0 emptyM (catPairs seqs durs) <;> simp only [] <;> infer_instance

theorem catPairs_perm {seqs seqs' : List MSeq} (h : MPermList seqs seqs') (durs : List Rat) :
    PairsPerm (catPairs seqs durs) (catPairs seqs' durs) := by
  unfold catPairs
  split
  · exact pairsPerm_zip durs h
  · exact pairsPerm_map h

theorem concatNoTies_perm (R : Rat → Rat) {seqs seqs' : List MSeq} (h : MPermList seqs seqs')
    (durs : List Rat) (hn : ConcatNoTies R seqs durs) : ConcatNoTies R seqs' durs := by
  unfold ConcatNoTies at *
  have hc := catLoop_perm R (!durs.isEmpty) _ _ (catPairs_perm h durs) 0 emptyM emptyM (MPerm.refl _)
  cases h1 : catLoop R (!durs.isEmpty) 0 emptyM (catPairs seqs durs) with
  | ok cat =>
    cases h2 : catLoop R (!durs.isEmpty) 0 emptyM (catPairs seqs' durs) with
    | ok cat' =>
      rw [h1, h2] at hc
      rw [h1] at hn
      exact StateNoTies.perm hc.1 hn
    | error e' => trivial
  | error e =>
    cases h2 : catLoop R (!durs.isEmpty) 0 emptyM (catPairs seqs' durs) with
    | ok cat' => rw [h1, h2] at hc; exact hc.elim
    | error e' => trivial

theorem concatR_eq (R : Rat → Rat) (mm : List String → String) (seqs : List MSeq) (durs : List Rat) :
    concatR R mm seqs durs =
      if (!durs.isEmpty) = true ∧ seqs.length ≠ durs.length then .error .valueError
      else match catLoop R (!durs.isEmpty) 0 emptyM (catPairs seqs durs) with
        | .error e => .error e
        | .ok cat => .ok (finishCat mm seqs cat) := rfl

theorem concat_perm_aux (R : Rat → Rat) (mm : List String → String) {seqs seqs' : List MSeq}
    (h : MPermList seqs seqs') (durs : List Rat) (hn : ConcatNoTies R seqs durs) :
    ResPermM (concatR R mm seqs durs) (concatR R mm seqs' durs) := by
  rw [concatR_eq, concatR_eq, ← h.length_eq]
  split
  · rfl
  · have hc := catLoop_perm R (!durs.isEmpty) _ _ (catPairs_perm h durs) 0 emptyM emptyM (MPerm.refl _)
    unfold ConcatNoTies at hn
    cases h1 : catLoop R (!durs.isEmpty) 0 emptyM (catPairs seqs durs) with
    | ok cat =>
      cases h2 : catLoop R (!durs.isEmpty) 0 emptyM (catPairs seqs' durs) with
      | ok cat' =>
        rw [h1, h2] at hc
        rw [h1] at hn
        exact finishCat_perm mm h hc hn
      | error e' => rw [h1, h2] at hc; exact hc.elim
    | error e =>
      cases h2 : catLoop R (!durs.isEmpty) 0 emptyM (catPairs seqs' durs) with
      | ok cat' => rw [h1, h2] at hc; exact hc.elim
      | error e' => rw [h1, h2] at hc; exact hc

end NSV.C12
