import NoteSeqVerif.Model.C16
/-! helper lemmas for C16 (core Lean only) -/
namespace NSV.C16
open NSV

section mapE
variable {α β ε : Type}

theorem mapE_ok_mem {f : α → Except ε β} : ∀ {l : List α} {r : List β}, mapE f l = .ok r →
    ∀ b ∈ r, ∃ a ∈ l, f a = .ok b := by
  intro l
  induction l with
  | nil => intro r h; simp [mapE] at h; subst h; simp
  | cons a l ih =>
    intro r h
    unfold mapE at h
    split at h
    · cases h
    · rename_i b hb
      split at h
      · cases h
      · rename_i bs hbs
        cases h
        intro b' hb'
        rcases List.mem_cons.1 hb' with rfl | hb'
        · exact ⟨a, List.mem_cons_self, hb⟩
        · obtain ⟨a', ha', hfa⟩ := ih hbs b' hb'
          exact ⟨a', List.mem_cons_of_mem _ ha', hfa⟩

theorem mapE_error_mem {f : α → Except ε β} : ∀ {l : List α} {e : ε},
    mapE f l = .error e → ∃ a ∈ l, f a = .error e := by
  intro l
  induction l with
  | nil => intro e h; simp [mapE] at h
  | cons a l ih =>
    intro e h
    unfold mapE at h
    split at h
    · rename_i e' he; cases h; exact ⟨a, List.mem_cons_self, he⟩
    · split at h
      · rename_i e' he; cases h
        obtain ⟨a', ha', h'⟩ := ih he
        exact ⟨a', List.mem_cons_of_mem _ ha', h'⟩
      · cases h

theorem mapE_total {f : α → Except ε β} : ∀ {l : List α},
    (∀ a ∈ l, ∃ b, f a = .ok b) → ∃ r, mapE f l = .ok r := by
  intro l
  induction l with
  | nil => intro _; exact ⟨[], rfl⟩
  | cons a l ih =>
    intro h
    obtain ⟨b, hb⟩ := h a List.mem_cons_self
    obtain ⟨bs, hbs⟩ := ih (fun a' ha' => h a' (List.mem_cons_of_mem _ ha'))
    exact ⟨b :: bs, by simp [mapE, hb, hbs]⟩

/-- when every element converts, the loop is `map` -/
theorem mapE_eq_map {f : α → Except ε β} {g : α → β} : ∀ {l : List α},
    (∀ a ∈ l, f a = .ok (g a)) → mapE f l = .ok (l.map g) := by
  intro l
  induction l with
  | nil => intro _; rfl
  | cons a l ih =>
    intro h
    simp [mapE, h a List.mem_cons_self, ih (fun a' ha' => h a' (List.mem_cons_of_mem _ ha'))]
theorem mapE_ok_all {f : α → Except ε β} : ∀ {l : List α} {r : List β}, mapE f l = .ok r →
    ∀ a ∈ l, ∃ b, f a = .ok b := by
  intro l
  induction l with
  | nil => intro r _ a ha; cases ha
  | cons a l ih =>
    intro r h
    unfold mapE at h
    split at h
    · cases h
    · rename_i b hb
      split at h
      · cases h
      · rename_i bs hbs
        intro a' ha'
        rcases List.mem_cons.1 ha' with rfl | ha'
        · exact ⟨b, hb⟩
        · exact ih hbs a' ha'
end mapE

theorem mem_enumFrom {α} : ∀ {l : List α} {k i : Nat} {a : α},
    (i, a) ∈ enumFrom k l → k ≤ i ∧ i < k + l.length ∧ a ∈ l := by
  intro l
  induction l with
  | nil => intro k i a h; simp [enumFrom] at h
  | cons x l ih =>
    intro k i a h
    simp only [enumFrom, List.mem_cons, Prod.mk.injEq] at h
    rcases h with ⟨rfl, rfl⟩ | h
    · simp
    · obtain ⟨h1, h2, h3⟩ := ih h
      refine ⟨by omega, by simp only [List.length_cons]; omega, List.mem_cons_of_mem _ h3⟩

theorem totalStep_fold (l : List Rat) : ∀ (acc : Rat), 0 ≤ acc → (∀ e ∈ l, 0 ≤ e) →
    acc ≤ l.foldl totalStep acc ∧ ∀ e ∈ l, e ≤ l.foldl totalStep acc := by
  induction l with
  | nil => intro acc _ _; simp
  | cons x l ih =>
    intro acc hacc hl
    have hx : 0 ≤ x := hl x List.mem_cons_self
    have hstep : acc ≤ totalStep acc x ∧ x ≤ totalStep acc x ∧ 0 ≤ totalStep acc x := by
      unfold totalStep
      split <;> grind
    obtain ⟨h1, h2⟩ := ih (totalStep acc x) hstep.2.2 (fun e he => hl e (List.mem_cons_of_mem _ he))
    simp only [List.foldl_cons]
    refine ⟨by grind, ?_⟩
    intro e he
    rcases List.mem_cons.1 he with rfl | he
    · grind
    · exact h2 e he

/-! facts read off the regenerated tables -/
theorem raiseThrough_nil (e : PyExc) : raiseThrough [] e = e := rfl

theorem den_handler_converts : raiseThrough Gen.h_ts_denominator valueError = mce := by decide
theorem guard_raises_mce : raiseThrough Gen.h_resolution_guard (excOfName Gen.resolutionGuardRaises) = mce := by decide
theorem guard_iff (r : Int) : Gen.resolutionRejected r = true ↔ r ≤ 0 := by simp [Gen.resolutionRejected]

theorem ctor_handler_catches_all (ce : CtorErr) (h : ce.fmtRaises = none) :
    ctorRaise Gen.ctorTrys ce = mce := by
  simp [Gen.ctorTrys, ctorRaise, firstMatch, catches, h, raiseThrough, excOfName]

theorem decodeMode_eq (m : Int) :
    decodeMode m = if m = 0 then .ok 0 else if m = 1 then .ok 1 else .error mce := by
  unfold decodeMode
  simp only [Gen.modeCases, List.lookup]
  by_cases h0 : m = 0
  · subst h0; simp
  · by_cases h1 : m = 1
    · subst h1; simp
    · have : (m == 0) = false := by simpa using h0
      have : (m == 1) = false := by simpa using h1
      simp [*, Gen.modeElseRaises, Gen.h_mode_raise, raiseThrough, excOfName]

theorem setInt32_ok {t : Trys} {v w : Int} (h : setInt32 t v = .ok w) : w = v ∧ inInt32 v = true := by
  unfold setInt32 at h; split at h
  · cases h; exact ⟨rfl, by assumption⟩
  · cases h

theorem setInt32_of_in {t : Trys} {v : Int} (h : inInt32 v = true) : setInt32 t v = .ok v := by
  simp [setInt32, h]

theorem setInt32_error {t : Trys} {v : Int} {e} (h : setInt32 t v = .error e) :
    inInt32 v = false ∧ e = raiseThrough t valueError := by
  unfold setInt32 at h; split at h
  · cases h
  · rename_i hn; cases h; exact ⟨Bool.eq_false_iff.2 hn, rfl⟩

theorem inInt32_of_range {v : Int} (h : -2147483648 ≤ v ∧ v ≤ 2147483647) : inInt32 v = true := by
  simp [inInt32, h]
theorem inInt32_iff {v : Int} : inInt32 v = true ↔ -2147483648 ≤ v ∧ v ≤ 2147483647 := by simp [inInt32]


/-! per-record conversions under the invariant -/
theorem convTimeSig_ok {t : PMTimeSig} {r} (h : convTimeSig t = .ok r) :
    r.time = t.time ∧ r.num = t.num ∧ r.den = t.den ∧ inInt32 t.num = true ∧ inInt32 t.den = true := by
  unfold convTimeSig at h
  cases h1 : setInt32 Gen.h_ts_numerator t.num with
  | error e => simp [h1, bind, Except.bind] at h
  | ok n =>
    cases h2 : setInt32 Gen.h_ts_denominator t.den with
    | error e => simp [h1, h2, bind, Except.bind] at h
    | ok d =>
      simp [h1, h2, bind, Except.bind, pure, Except.pure] at h
      obtain ⟨rfl, hn⟩ := setInt32_ok h1
      obtain ⟨rfl, hd⟩ := setInt32_ok h2
      subst h; exact ⟨rfl, rfl, rfl, hn, hd⟩

theorem convTimeSig_error {t : PMTimeSig} {e} (hnum : inInt32 t.num = true) (h : convTimeSig t = .error e) :
    e = mce ∧ inInt32 t.den = false := by
  unfold convTimeSig at h
  rw [setInt32_of_in hnum] at h
  cases h2 : setInt32 Gen.h_ts_denominator t.den with
  | ok d => simp [h2, bind, Except.bind, pure, Except.pure] at h
  | error e' =>
    simp [h2, bind, Except.bind] at h
    obtain ⟨hd, rfl⟩ := setInt32_error h2
    exact ⟨by rw [← h, den_handler_converts], hd⟩

theorem convKey_ok {k : PMKey} {r} (h : convKey k = .ok r) :
    r.time = k.time ∧ r.key = Int.fmod k.keyNumber 12 ∧
    ((Int.fdiv k.keyNumber 12 = 0 ∧ r.mode = 0) ∨ (Int.fdiv k.keyNumber 12 = 1 ∧ r.mode = 1)) := by
  unfold convKey at h
  rw [decodeMode_eq] at h
  simp only [Gen.modeOf, Gen.keyOf] at h
  by_cases h0 : Int.fdiv k.keyNumber 12 = 0
  · simp [h0, bind, Except.bind, pure, Except.pure] at h; subst h; simp [h0]
  · by_cases h1 : Int.fdiv k.keyNumber 12 = 1
    · simp [h1, bind, Except.bind, pure, Except.pure] at h; subst h; simp [h1]
    · simp [h0, h1, bind, Except.bind] at h

theorem convKey_error {k : PMKey} {e} (h : convKey k = .error e) :
    e = mce ∧ Int.fdiv k.keyNumber 12 ≠ 0 ∧ Int.fdiv k.keyNumber 12 ≠ 1 := by
  unfold convKey at h
  rw [decodeMode_eq] at h
  simp only [Gen.modeOf] at h
  by_cases h0 : Int.fdiv k.keyNumber 12 = 0
  · simp [h0, bind, Except.bind, pure, Except.pure] at h
  · by_cases h1 : Int.fdiv k.keyNumber 12 = 1
    · simp [h1, bind, Except.bind, pure, Except.pure] at h
    · simp [h0, h1, bind, Except.bind] at h; exact ⟨h.symm, h0, h1⟩

theorem convInfo_ok_of {p : Nat × PMInst} (h : inInt32 p.1 = true) :
    convInfo p = .ok (if p.2.name ≠ "" then [((p.1 : Int), p.2.name)] else []) := by
  unfold convInfo
  split
  · simp [setInt32_of_in h, bind, Except.bind, pure, Except.pure]
  · rfl

def noteOf (t : Tagged PMNote) : Note :=
  { pitch := t.2.2.2.pitch, velocity := t.2.2.2.velocity, start := t.2.2.2.start, end_ := t.2.2.2.end_,
    qs := 0, qe := 0, instrument := t.2.1, program := t.1, isDrum := t.2.2.1, numerator := 0,
    denominator := 0, voice := 0, part := 0, pitchName := 0 }
def bendOf (t : Tagged PMBend) : Bend :=
  { time := t.2.2.2.time, bend := t.2.2.2.pitch, instrument := t.2.1, program := t.1, isDrum := t.2.2.1 }
def ccOf (t : Tagged PMCC) : CC :=
  { time := t.2.2.2.time, qstep := 0, number := t.2.2.2.number, value := t.2.2.2.value,
    instrument := t.2.1, program := t.1, isDrum := t.2.2.1 }

theorem convNote_ok_of {t : Tagged PMNote} (h1 : inInt32 t.2.1 = true) (h2 : inInt32 t.1 = true)
    (h3 : inInt32 t.2.2.2.pitch = true) (h4 : inInt32 t.2.2.2.velocity = true) :
    convNote t = .ok (noteOf t) := by
  simp [convNote, noteOf, setInt32_of_in h1, setInt32_of_in h2, setInt32_of_in h3, setInt32_of_in h4,
    bind, Except.bind, pure, Except.pure]

theorem convBend_ok_of {t : Tagged PMBend} (h1 : inInt32 t.2.1 = true) (h2 : inInt32 t.1 = true)
    (h3 : inInt32 t.2.2.2.pitch = true) : convBend t = .ok (bendOf t) := by
  simp [convBend, bendOf, setInt32_of_in h1, setInt32_of_in h2, setInt32_of_in h3,
    bind, Except.bind, pure, Except.pure]

theorem convCC_ok_of {t : Tagged PMCC} (h1 : inInt32 t.2.1 = true) (h2 : inInt32 t.1 = true)
    (h3 : inInt32 t.2.2.2.number = true) (h4 : inInt32 t.2.2.2.value = true) :
    convCC t = .ok (ccOf t) := by
  simp [convCC, ccOf, setInt32_of_in h1, setInt32_of_in h2, setInt32_of_in h3, setInt32_of_in h4,
    bind, Except.bind, pure, Except.pure]

/-- the inputs `post` rejects (under `Inv`): non-positive resolution, a time-signature denominator
that does not fit int32, a key number whose `// 12` is neither 0 (major) nor 1 (minor) -/
def Rejected (pm : PM) : Prop :=
  pm.resolution ≤ 0 ∨ (∃ t ∈ pm.timeSigs, inInt32 t.den = false) ∨
  (∃ k ∈ pm.keys, Int.fdiv k.keyNumber 12 ≠ 0 ∧ Int.fdiv k.keyNumber 12 ≠ 1)

/-- the sequence `post` returns when it returns (`tempos` = result of `get_tempo_changes()`) -/
def postValue (pm : PM) (tempos : List (Rat × Rat)) : MidiSeq :=
  let insts := enumFrom 0 pm.instruments
  { seq := { notes := (taggedNotes insts).map noteOf,
             tempos := tempos.map (fun p => { time := p.1, qpm := p.2 }),
             timeSigs := pm.timeSigs.map (fun t => { time := t.time, num := t.num, den := t.den }),
             keySigs := pm.keys.map (fun k => { time := k.time, key := Int.fmod k.keyNumber 12,
                                                mode := Int.fdiv k.keyNumber 12 }),
             ccs := (taggedCCs insts).map ccOf,
             bends := (taggedBends insts).map bendOf,
             totalTime := ((taggedNotes insts).map (fun t => t.2.2.2.end_)).foldl totalStep 0,
             tpq := pm.resolution },
    parser := Gen.PARSER, encoding := Gen.ENCODING,
    infos := (insts.map (fun p => if p.2.name ≠ "" then [((p.1 : Int), p.2.name)] else [])).flatten }

theorem mem_taggedNotes {l : List (Nat × PMInst)} {t : Tagged PMNote} (h : t ∈ taggedNotes l) :
    ∃ p ∈ l, t.1 = p.2.program ∧ t.2.1 = p.1 ∧ t.2.2.1 = p.2.isDrum ∧ t.2.2.2 ∈ p.2.notes := by
  simp only [taggedNotes, List.mem_flatMap, List.mem_map] at h
  obtain ⟨p, hp, n, hn, rfl⟩ := h
  exact ⟨p, hp, rfl, rfl, rfl, hn⟩
theorem mem_taggedBends {l : List (Nat × PMInst)} {t : Tagged PMBend} (h : t ∈ taggedBends l) :
    ∃ p ∈ l, t.1 = p.2.program ∧ t.2.1 = p.1 ∧ t.2.2.1 = p.2.isDrum ∧ t.2.2.2 ∈ p.2.bends := by
  simp only [taggedBends, List.mem_flatMap, List.mem_map] at h
  obtain ⟨p, hp, n, hn, rfl⟩ := h
  exact ⟨p, hp, rfl, rfl, rfl, hn⟩
theorem mem_taggedCCs {l : List (Nat × PMInst)} {t : Tagged PMCC} (h : t ∈ taggedCCs l) :
    ∃ p ∈ l, t.1 = p.2.program ∧ t.2.1 = p.1 ∧ t.2.2.1 = p.2.isDrum ∧ t.2.2.2 ∈ p.2.ccs := by
  simp only [taggedCCs, List.mem_flatMap, List.mem_map] at h
  obtain ⟨p, hp, n, hn, rfl⟩ := h
  exact ⟨p, hp, rfl, rfl, rfl, hn⟩

theorem idx_inInt32 {pm : PM} (h : InvPos pm) {p : Nat × PMInst} (hp : p ∈ enumFrom 0 pm.instruments) :
    inInt32 (p.1 : Int) = true ∧ p.2 ∈ pm.instruments := by
  obtain ⟨_, h2, h3⟩ := mem_enumFrom (i := p.1) (a := p.2) hp
  have := h.nInst
  exact ⟨inInt32_of_range (by omega), h3⟩

/-- complete functional specification of `post` under the invariant -/
theorem post_spec {pm : PM} (hinv : Inv pm) :
    (pm.resolution ≤ 0 ∧ post pm = .error mce) ∨
    (0 < pm.resolution ∧ InvPos pm ∧ ∃ l, pm.tempoChanges = .ok l ∧
      ((Rejected pm ∧ post pm = .error mce) ∨ (¬ Rejected pm ∧ post pm = .ok (postValue pm l)))) := by
  by_cases hres : pm.resolution ≤ 0
  · left
    refine ⟨hres, ?_⟩
    unfold post
    simp [(guard_iff _).2 hres, guard_raises_mce, throw, throwThe, MonadExceptOf.throw, bind, Except.bind]
  right
  have h : InvPos pm := hinv.2 (by omega)
  refine ⟨by omega, h, ?_⟩
  obtain ⟨l, hl, _⟩ := h.tempoOk
  refine ⟨l, hl, ?_⟩
  unfold post
  have hg : Gen.resolutionRejected pm.resolution = false := by
    cases hc : Gen.resolutionRejected pm.resolution
    · rfl
    · exact absurd ((guard_iff _).1 hc) hres
  simp only [hg, setInt32_of_in hinv.1, bind, Except.bind, pure, Except.pure, Bool.false_eq_true, if_false]
  by_cases hts : ∃ t ∈ pm.timeSigs, inInt32 t.den = false
  · left
    refine ⟨.inr (.inl hts), ?_⟩
    cases hm : mapE convTimeSig pm.timeSigs with
    | ok r =>
      obtain ⟨t, ht, hd⟩ := hts
      obtain ⟨b, hb⟩ := mapE_ok_all hm t ht
      have := (convTimeSig_ok hb).2.2.2.2
      simp [hd] at this
    | error e =>
      obtain ⟨t, ht, he⟩ := mapE_error_mem hm
      simp [(convTimeSig_error (h.tsNum t ht) he).1]
  have hts' : ∀ t ∈ pm.timeSigs, convTimeSig t = .ok { time := t.time, num := t.num, den := t.den } := by
    intro t ht
    have hd : inInt32 t.den = true := by
      cases hc : inInt32 t.den
      · exact absurd ⟨t, ht, hc⟩ hts
      · rfl
    simp [convTimeSig, setInt32_of_in (h.tsNum t ht), setInt32_of_in hd, bind, Except.bind, pure, Except.pure]
  rw [mapE_eq_map hts']
  simp only []
  by_cases hks : ∃ k ∈ pm.keys, Int.fdiv k.keyNumber 12 ≠ 0 ∧ Int.fdiv k.keyNumber 12 ≠ 1
  · left
    refine ⟨.inr (.inr hks), ?_⟩
    cases hm : mapE convKey pm.keys with
    | ok r =>
      obtain ⟨k, hk, h0, h1⟩ := hks
      obtain ⟨b, hb⟩ := mapE_ok_all hm k hk
      rcases (convKey_ok hb).2.2 with ⟨h, _⟩ | ⟨h, _⟩
      · exact absurd h h0
      · exact absurd h h1
    | error e =>
      obtain ⟨k, hk, he⟩ := mapE_error_mem hm
      simp [(convKey_error he).1]
  have hks' : ∀ k ∈ pm.keys, convKey k =
      .ok { time := k.time, key := Int.fmod k.keyNumber 12, mode := Int.fdiv k.keyNumber 12 } := by
    intro k hk
    have : Int.fdiv k.keyNumber 12 = 0 ∨ Int.fdiv k.keyNumber 12 = 1 := by
      by_cases h0 : Int.fdiv k.keyNumber 12 = 0
      · exact .inl h0
      · by_cases h1 : Int.fdiv k.keyNumber 12 = 1
        · exact .inr h1
        · exact absurd ⟨k, hk, h0, h1⟩ hks
    unfold convKey
    rw [decodeMode_eq]
    simp only [Gen.modeOf, Gen.keyOf]
    rcases this with h0 | h1
    · simp [h0, bind, Except.bind, pure, Except.pure]
    · simp [h1, bind, Except.bind, pure, Except.pure]
  rw [mapE_eq_map hks']
  right
  refine ⟨fun hr => ?_, ?_⟩
  · rcases hr with hr | hr | hr
    · exact hres hr
    · exact hts hr
    · exact hks hr
  simp only [getTempoChanges, hl]
  have hinfo : ∀ p ∈ enumFrom 0 pm.instruments,
      convInfo p = .ok (if p.2.name ≠ "" then [((p.1 : Int), p.2.name)] else []) :=
    fun p hp => convInfo_ok_of (idx_inInt32 h hp).1
  have hnotes : ∀ t ∈ taggedNotes (enumFrom 0 pm.instruments), convNote t = .ok (noteOf t) := by
    intro t ht
    obtain ⟨p, hp, e1, e2, _, hn⟩ := mem_taggedNotes ht
    obtain ⟨hi, hpi⟩ := idx_inInt32 h hp
    have := h.notes p.2 hpi _ hn
    exact convNote_ok_of (by rw [e2]; exact hi) (by rw [e1]; exact h.program _ hpi)
      (inInt32_of_range (by omega)) (inInt32_of_range (by omega))
  have hbends : ∀ t ∈ taggedBends (enumFrom 0 pm.instruments), convBend t = .ok (bendOf t) := by
    intro t ht
    obtain ⟨p, hp, e1, e2, _, hn⟩ := mem_taggedBends ht
    obtain ⟨hi, hpi⟩ := idx_inInt32 h hp
    exact convBend_ok_of (by rw [e2]; exact hi) (by rw [e1]; exact h.program _ hpi) (h.bends p.2 hpi _ hn).1
  have hccs : ∀ t ∈ taggedCCs (enumFrom 0 pm.instruments), convCC t = .ok (ccOf t) := by
    intro t ht
    obtain ⟨p, hp, e1, e2, _, hn⟩ := mem_taggedCCs ht
    obtain ⟨hi, hpi⟩ := idx_inInt32 h hp
    have := h.ccs p.2 hpi _ hn
    exact convCC_ok_of (by rw [e2]; exact hi) (by rw [e1]; exact h.program _ hpi) this.1 this.2.1
  rw [mapE_eq_map hinfo, mapE_eq_map hnotes, mapE_eq_map hbends, mapE_eq_map hccs]
  rfl

end NSV.C16
