import NoteSeqVerif.Proofs.C12
import NoteSeqVerif.Props.C14
/-! C12 (part B) — helper lemmas for the storage-order theorem about `apply_sustain_control_changes`: every
ingredient of C14's declarative specification (`pedalDown`, `heldEnd`, `lastEventTime`, the preconditions) is a
function of the *bags* of notes and control changes. -/
namespace NSV.C12
open NSV NSV.C14

/-! ### folds of `min` / `max` over permuted lists of rationals -/

theorem foldl_min_perm {l l' : List Rat} (h : l.Perm l') (a : Rat) : l.foldl min a = l'.foldl min a := by
  induction h generalizing a with
  | nil => rfl
  | cons x _ ih => simp only [List.foldl_cons]; exact ih _
  | swap x y l =>
    simp only [List.foldl_cons]
    congr 1
    grind
  | trans _ _ ih1 ih2 => exact (ih1 a).trans (ih2 a)

/-- `match l with | [] => 0 | t :: ts => ts.foldl max t` is the greatest member -/
theorem headMax_spec (t : Rat) (ts : List Rat) :
    ts.foldl max t ∈ t :: ts ∧ ∀ x ∈ t :: ts, x ≤ ts.foldl max t := by
  refine ⟨?_, ?_⟩
  · rcases foldl_max_mem ts t with h | h
    · rw [h]; exact List.mem_cons_self ..
    · exact List.mem_cons_of_mem _ h
  · intro x hx
    rcases List.mem_cons.mp hx with rfl | hx
    · exact foldl_max_ge_init ts x
    · exact foldl_max_ge_mem ts t x hx

/-- the greatest member, `0` for the empty list (the shape of `lastEventTime`) -/
def headMax : List Rat → Rat
  | [] => 0
  | t :: ts => ts.foldl max t

theorem headMax_perm {l l' : List Rat} (h : l.Perm l') : headMax l = headMax l' := by
  cases l with
  | nil => rw [h.nil_eq]
  | cons t ts =>
    cases l' with
    | nil => exact absurd h.eq_nil (by simp)
    | cons t' ts' =>
      obtain ⟨m1, g1⟩ := headMax_spec t ts
      obtain ⟨m2, g2⟩ := headMax_spec t' ts'
      exact Rat.le_antisymm (g2 _ (h.mem_iff.mp m1)) (g1 _ (h.mem_iff.mpr m2))

/-! ### the specification's ingredients -/

theorem pedalDown_perm (ctl : Int) {ccs ccs' : List CC} (h : ccs.Perm ccs') (i : Int) (t : Rat) :
    pedalDown ctl ccs i t ↔ pedalDown ctl ccs' i t := by
  unfold pedalDown
  constructor
  · rintro ⟨c, hc, r1, r2, r3, r4, r5⟩
    exact ⟨c, h.mem_iff.mp hc, r1, r2, r3, r4, fun c' hc' => r5 c' (h.mem_iff.mpr hc')⟩
  · rintro ⟨c, hc, r1, r2, r3, r4, r5⟩
    exact ⟨c, h.mem_iff.mpr hc, r1, r2, r3, r4, fun c' hc' => r5 c' (h.mem_iff.mp hc')⟩

theorem eventTimes_perm (ctl : Int) {s s' : NoteSeq} (h : NSPerm s s') :
    (eventTimes ctl s).Perm (eventTimes ctl s') := by
  unfold eventTimes
  exact ((((h.notes.filter _).map _).append ((h.notes.filter _).map _))).append ((h.ccs.filter _).map _)

theorem lastEventTime_perm (ctl : Int) {s s' : NoteSeq} (h : NSPerm s s') :
    lastEventTime ctl s = lastEventTime ctl s' := by
  have e : ∀ u : NoteSeq, lastEventTime ctl u = headMax (eventTimes ctl u) := by
    intro u; unfold lastEventTime headMax; split <;> simp_all
  rw [e, e]
  exact headMax_perm (eventTimes_perm ctl h)

theorem heldEnd_perm (ctl : Int) {s s' : NoteSeq} (h : NSPerm s s') (nt : Note) :
    heldEnd ctl s nt = heldEnd ctl s' nt := by
  unfold heldEnd
  have h1 : (releaseTimes ctl s nt ++ restrikeTimes s nt).Perm (releaseTimes ctl s' nt ++ restrikeTimes s' nt) := by
    unfold releaseTimes restrikeTimes
    exact ((h.ccs.filter _).map _).append ((h.notes.filter _).map _)
  rw [foldl_min_perm h1, lastEventTime_perm ctl h]
  by_cases hc : nt.isDrum = true ∨ ¬ pedalDown ctl s.ccs nt.instrument nt.end_
  · rw [if_pos hc, if_pos (by rw [← pedalDown_perm ctl h.ccs]; exact hc)]
  · rw [if_neg hc, if_neg (by rw [← pedalDown_perm ctl h.ccs]; exact hc)]

theorem specNotes_perm (ctl : Int) {s s' : NoteSeq} (h : NSPerm s s') :
    (specNotes ctl s).Perm (specNotes ctl s') := by
  unfold specNotes
  have : (fun nt => setEnd nt (heldEnd ctl s nt)) = (fun nt => setEnd nt (heldEnd ctl s' nt)) := by
    funext nt; rw [heldEnd_perm ctl h]
  rw [this]
  exact h.notes.map _

/-! ### the preconditions are about the bag of notes -/

theorem wellFormed_perm {s s' : NoteSeq} (h : NSPerm s s') (hw : WellFormed s) : WellFormed s' :=
  fun nt hnt => hw nt (h.notes.mem_iff.mpr hnt)

theorem noSamePitchOverlap_perm {s s' : NoteSeq} (h : NSPerm s s') (ho : NoSamePitchOverlap s) :
    NoSamePitchOverlap s' := by
  unfold NoSamePitchOverlap at ho ⊢
  refine (List.Perm.pairwise_iff ?_ h.notes).mp ho
  intro a b hab h1 h2 h3 h4
  obtain ⟨r1, r2, r3⟩ := hab h2 h1 h3.symm h4.symm
  exact ⟨fun e => r1 e.symm, r3, r2⟩

theorem isQuantized_perm {s s' : NoteSeq} (h : NSPerm s s') : s.isQuantized = s'.isQuantized := by
  unfold NoteSeq.isQuantized; rw [h.spq, h.sps]

/-- `total_time` is at least every note end (the usual invariant of a NoteSequence) -/
def TotalCovers (s : NoteSeq) : Prop := ∀ nt ∈ s.notes, nt.end_ ≤ s.totalTime

instance (s : NoteSeq) : Decidable (TotalCovers s) := by unfold TotalCovers; infer_instance

theorem totalCovers_perm {s s' : NoteSeq} (h : NSPerm s s') (hc : TotalCovers s) : TotalCovers s' := by
  intro nt hnt; rw [← h.totalTime]; exact hc nt (h.notes.mem_iff.mpr hnt)

end NSV.C12
