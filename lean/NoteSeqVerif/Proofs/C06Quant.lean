import NoteSeqVerif.Model.C06
/-! C06 — what `quantize_note_sequence` (C01 model) returns on a rendered sequence whose times quantize to
their step indexes: the same sequence with `quantized_start_step = S + a`, `quantized_end_step = S + b`,
`quantized_step = S + k`, the implicit 4/4 time signature, `steps_per_quarter`, and
`total_quantized_steps` = the furthest of `q(total_time)` and the note ends.  (core Lean only) -/
namespace NSV.C06
open NSV.C07 (XErr SimpleResult)

/-- the rendered note after quantization -/
def qNote (tm : Int → Rat) (vel inst prog : Int) (drum : Bool) (S : Int) (d : SNote) : Note :=
  { rNote tm vel inst prog drum d with qs := S + d.a, qe := S + d.b }

def qChord (tm : Int → Rat) (S : Int) (c : Int × String) : TextAnn :=
  { rChord tm c with qstep := S + c.1 }

/-- `total_quantized_steps` after the note loop of `_quantize_notes` -/
def totalAfter (S : Int) (notes : List SNote) (t0 : Int) : Int :=
  notes.foldl (fun t d => if t < S + d.b then S + d.b else t) t0

/-- the quantized form of `timedSeq` -/
def steppedSeq (tm : Int → Rat) (qpm : Rat) (spq S vel inst prog : Int) (drum : Bool) (notes : List SNote)
    (chords : List (Int × String)) (totalTime : Rat) (totalQ : Int) : NoteSeq :=
  { notes := notes.map (qNote tm vel inst prog drum S), texts := chords.map (qChord tm S),
    tempos := [⟨0, qpm⟩], timeSigs := [⟨0, 4, 4⟩], totalTime := totalTime, totalQSteps := totalQ,
    spq := spq, tpq := Gen.STANDARD_PPQ }

theorem qNotes_rendered (q : Rat → Int) (tm : Int → Rat) (vel inst prog : Int) (drum : Bool) (S : Int) :
    ∀ (notes : List SNote) (tot : Int),
      (∀ d ∈ notes, q (tm d.a) = S + d.a ∧ q (tm d.b) = S + d.b ∧ d.a < d.b ∧ 0 ≤ S + d.a) →
      C01.qNotes q (notes.map (rNote tm vel inst prog drum)) tot =
        .ok (notes.map (qNote tm vel inst prog drum S), totalAfter S notes tot) := by
  intro notes
  induction notes with
  | nil => intro tot _; rfl
  | cons d ds ih =>
    intro tot h
    obtain ⟨h1, h2, h3, h4⟩ := h d (List.mem_cons_self ..)
    have ih' := ih (if tot < S + d.b then S + d.b else tot) (fun x hx => h x (List.mem_cons_of_mem _ hx))
    simp only [List.map_cons, C01.qNotes]
    have e1 : q (rNote tm vel inst prog drum d).start = S + d.a := h1
    have e2 : q (rNote tm vel inst prog drum d).end_ = S + d.b := h2
    rw [e1, e2]
    have hne : ¬ S + d.b = S + d.a := by omega
    simp only [hne, ↓reduceIte]
    rw [if_neg (by omega)]
    rw [ih']
    simp only [totalAfter, List.foldl_cons]
    rfl

theorem qTexts_rendered (q : Rat → Int) (tm : Int → Rat) (S : Int) :
    ∀ (chords : List (Int × String)),
      (∀ c ∈ chords, q (tm c.1) = S + c.1 ∧ 0 ≤ S + c.1) →
      C01.qTexts q (chords.map (rChord tm)) = .ok (chords.map (qChord tm S)) := by
  intro chords
  induction chords with
  | nil => intro _; rfl
  | cons c cs ih =>
    intro h
    obtain ⟨h1, h2⟩ := h c (List.mem_cons_self ..)
    have ih' := ih (fun x hx => h x (List.mem_cons_of_mem _ hx))
    simp only [List.map_cons, C01.qTexts]
    have e1 : q (rChord tm c).time = S + c.1 := h1
    rw [e1, if_neg (by omega), ih']
    rfl

/-- `quantize_note_sequence` on a rendered sequence, given that every time that occurs quantizes to its step -/
theorem quantize_timedSeq (R : Rat → Rat) (tm : Int → Rat) (qpm : Rat) (spq S vel inst prog : Int) (drum : Bool)
    (notes : List SNote) (chords : List (Int × String)) (totalTime : Rat) (dq : Rat)
    (hn : ∀ d ∈ notes, C01.qstepR R (1 / 2) (tm d.a) (C01.spsR R spq qpm) = S + d.a ∧
        C01.qstepR R (1 / 2) (tm d.b) (C01.spsR R spq qpm) = S + d.b ∧ d.a < d.b ∧ 0 ≤ S + d.a)
    (hc : ∀ c ∈ chords, C01.qstepR R (1 / 2) (tm c.1) (C01.spsR R spq qpm) = S + c.1 ∧ 0 ≤ S + c.1) :
    C01.quantizeRelR R (1 / 2) dq (timedSeq tm qpm vel inst prog drum notes chords totalTime) spq =
      .ok (steppedSeq tm qpm spq S vel inst prog drum notes chords totalTime
            (totalAfter S notes (C01.qstepR R (1 / 2) totalTime (C01.spsR R spq qpm)))) := by
  have hts : C01.checkTimeSigs [] = .ok ⟨0, 4, 4⟩ := rfl
  have htp : C01.checkTempos dq [⟨0, qpm⟩] = .ok ⟨0, qpm⟩ := by
    simp [C01.checkTempos, sortByRat]
  have hp2 : C01.isPow2 4 = true := by decide
  unfold C01.quantizeRelR
  simp only [timedSeq, hts, htp, hp2, not_true_eq_false, ↓reduceIte, show ¬ (4 : Int) = 0 by decide]
  unfold C01.quantizeNotes
  simp only []
  rw [qNotes_rendered _ tm vel inst prog drum S notes _ hn]
  simp only [C01.qCCs]
  rw [qTexts_rendered _ tm S chords hc]
  rfl

end NSV.C06
