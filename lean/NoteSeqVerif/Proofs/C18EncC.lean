import Mathlib.Tactic.Set
import Mathlib.Tactic.SplitIfs
import NoteSeqVerif.Proofs.C18Float
import NoteSeqVerif.Proofs.C18Enc
import NoteSeqVerif.Proofs.C18EncB
import NoteSeqVerif.Proofs.C18Snap
/-! C18 helper lemmas, encoder side (third part): the note loop and the control-change loop cannot
raise on well-formed input; offsets / weights / control-change rolls cell by cell; roll sizes. -/
namespace NSV.C18

/-! ### no exception on well-formed input -/

theorem normIdx_of_nonneg_le (n : Nat) (i : Int) (h0 : 0 ≤ i) (h1 : i ≤ n) : normIdx n i = i.toNat := by
  unfold normIdx; split
  · omega
  · split <;> omega

/-- the painting of one note cannot raise once the velocity is accepted and the end frame is not
negative: the list of decaying weights always has the length of the (clipped) slice it is assigned
to, and the blanked frame always exists (the repairs of F-C18-3 / F-C18-4) -/
theorem paintNote_defined (R R32 : Rat → Rat) (c : Cfg) (n : Nat) (st : Rolls) (nt : PNote) (col : Nat) (f : NF)
    (hv : nt.velocity ≤ c.maxVelocity) (hm : c.maxVelocity ≠ 0) (hoe : 0 ≤ f.oe) (hef : 0 ≤ f.ef) :
    ∃ st', paintNote R R32 c n st nt col f = .ok st' := by
  unfold paintNote
  simp only
  rw [if_neg (by omega), if_neg hm]
  have hlen : ¬ ((min f.ef (n : Int) - f.oe).toNat ≠ sliceLen n f.oe (min f.ef (n : Int)) ∧
      (min f.ef (n : Int) - f.oe).toNat ≠ 1) := by
    have : (min f.ef (n : Int) - f.oe).toNat = sliceLen n f.oe (min f.ef (n : Int)) := by
      unfold sliceLen
      rw [normIdx_of_nonneg_le n (min f.ef (n : Int)) (by omega) (by omega)]
      unfold normIdx
      split
      · omega
      · split <;> omega
    omega
  rw [if_neg hlen]
  split
  · exact ⟨_, rfl⟩
  · exact ⟨_, rfl⟩

theorem noteFrames_nonneg {R : Rat → Rat} {eps : Rat} {c : Cfg} {total : Rat} {n : Nat} {nt : PNote} {nf : NF}
    (h : noteFrames R eps c total n nt = .ok nf) :
    0 ≤ nf.os ∧ 0 ≤ nf.oe ∧
      (c.overlap = false → 1 ≤ nf.ef) ∧
      (c.overlap = true → nf.ef = (framesFromTimes R eps c.fps c.occ nt.start nt.end_).2) := by
  unfold noteFrames at h
  simp only at h
  split at h
  · cases h
  · cases h
    refine ⟨by simp, by simp, ?_, ?_⟩
    · intro ho; simp only [ho]; simp
    · intro ho; simp [ho]

theorem noteFrames_defined (R : Rat → Rat) (eps : Rat) (c : Cfg) (total : Rat) (n : Nat) (nt : PNote)
    (hm : c.mode = 0 ∨ c.mode = 1) : ∃ nf, noteFrames R eps c total n nt = .ok nf := by
  unfold noteFrames
  rcases hm with hm | hm <;> simp [hm]

theorem roundHalfEven_nonneg (x : Rat) (hx : 0 ≤ x) : 0 ≤ roundHalfEven x := by
  have h1 : (0 : Int) ≤ x.floor := by rw [Rat.le_floor_iff]; exact_mod_cast hx
  have h2 := (roundHalfEven_bounds x).1
  omega

theorem timeToFrames_nonneg {R : Rat → Rat} (hR0 : ∀ x : Rat, 0 ≤ x → 0 ≤ R x) (eps fps t : Rat)
    (hf : 0 ≤ fps) (ht : 0 ≤ t) : 0 ≤ timeToFrames R eps fps t := by
  unfold timeToFrames
  simp only
  have h0 : 0 ≤ R (t * fps) := hR0 _ (mul_nonneg ht hf)
  split
  · exact_mod_cast roundHalfEven_nonneg _ h0
  · exact h0

/-- a time that is not negative has a first frame that is not negative, and its span ends after it -/
theorem framesFromTimes_nonneg {R : Rat → Rat} (hR0 : ∀ x : Rat, 0 ≤ x → 0 ≤ R x) (eps fps occ s e : Rat)
    (hf : 0 ≤ fps) (hs : 0 ≤ s) :
    0 ≤ (framesFromTimes R eps fps occ s e).1 ∧ 1 ≤ (framesFromTimes R eps fps occ s e).2 := by
  have h0 := timeToFrames_nonneg hR0 eps fps s hf hs
  have h1 : 0 ≤ truncR (timeToFrames R eps fps s) := by
    rw [truncR_of_nonneg _ h0]; exact floor_nonneg_of_nonneg _ h0
  unfold framesFromTimes
  simp only
  constructor
  · split <;> omega
  · split <;> omega

theorem encNote_defined (R R32 : Rat → Rat) (eps : Rat) (c : Cfg) (total : Rat) (n : Nat) (st : Rolls) (nt : PNote)
    (hm : c.mode = 0 ∨ c.mode = 1) (hmv : c.maxVelocity ≠ 0)
    (hv : InRange c nt → nt.velocity ≤ c.maxVelocity)
    (hef : InRange c nt → c.overlap = true → 0 ≤ (framesFromTimes R eps c.fps c.occ nt.start nt.end_).2) :
    ∃ st', encNote R R32 eps c total n st nt = .ok st' := by
  unfold encNote
  split
  · exact ⟨_, rfl⟩
  · rename_i hr
    have hin : InRange c nt := by unfold InRange; omega
    obtain ⟨nf, hnf⟩ := noteFrames_defined R eps c total n nt hm
    rw [hnf]
    obtain ⟨_, hoe, h1, h2⟩ := noteFrames_nonneg hnf
    have : 0 ≤ nf.ef := by
      cases ho : c.overlap with
      | false => have := h1 ho; omega
      | true => rw [h2 ho]; exact hef hin ho
    exact paintNote_defined R R32 c n st nt _ nf (hv hin) hmv hoe this

theorem encNotes_defined (R R32 : Rat → Rat) (eps : Rat) (c : Cfg) (total : Rat) (n : Nat)
    (hm : c.mode = 0 ∨ c.mode = 1) (hmv : c.maxVelocity ≠ 0) (l : List PNote)
    (hv : ∀ nt ∈ l, InRange c nt → nt.velocity ≤ c.maxVelocity)
    (hef : ∀ nt ∈ l, InRange c nt → c.overlap = true →
      0 ≤ (framesFromTimes R eps c.fps c.occ nt.start nt.end_).2) (st : Rolls) :
    ∃ st', encNotes R R32 eps c total n st l = .ok st' := by
  induction l generalizing st with
  | nil => exact ⟨st, rfl⟩
  | cons a rest ih =>
    simp only [encNotes]
    obtain ⟨s1, h1⟩ := encNote_defined R R32 eps c total n st a hm hmv (hv a List.mem_cons_self)
      (hef a List.mem_cons_self)
    rw [h1]
    exact ih (fun nt h => hv nt (List.mem_cons_of_mem _ h)) (fun nt h => hef nt (List.mem_cons_of_mem _ h)) s1

theorem encCCs_defined (R : Rat → Rat) (eps : Rat) (c : Cfg) (n : Nat) (l : List PCC)
    (h : ∀ cc ∈ l, 0 ≤ (framesFromTimes R eps c.fps c.occ cc.time 0).1 ∧ 0 ≤ cc.number ∧ cc.number < 128)
    (m : List (List Int)) : ∃ m', encCCs R eps c n m l = .ok m' := by
  induction l generalizing m with
  | nil => exact ⟨m, rfl⟩
  | cons cc rest ih =>
    simp only [encCCs]
    obtain ⟨h1, h2, h3⟩ := h cc List.mem_cons_self
    have ih' := ih (fun x hx => h x (List.mem_cons_of_mem _ hx))
    split
    · rename_i hlt
      have e1 : intIdx n (framesFromTimes R eps c.fps c.occ cc.time 0).1 =
          some (framesFromTimes R eps c.fps c.occ cc.time 0).1.toNat := by
        unfold intIdx; rw [if_pos h1, if_pos hlt]
      have e2 : intIdx 128 cc.number = some cc.number.toNat := by
        unfold intIdx; rw [if_pos h2, if_pos (by omega)]
      rw [e1, e2]
      exact ih' _
    · exact ih' _

/-! ### offsets roll, weights roll, roll sizes -/

theorem step_offsets (R R32 : Rat → Rat) (eps : Rat) (c : Cfg) (total : Rat) (n : Nat)
    (st : Rolls) (nt : PNote) (st' : Rolls) (h : encNote R R32 eps c total n st nt = .ok st') :
    st'.offsets = match noteOp R eps c total n (selOffset c) nt with
      | some op => paintOp st.offsets op
      | none => st.offsets := by
  rcases encNote_cases h with ⟨ho, rfl⟩ | ⟨hi, nf, hnf, hp⟩
  · simp [noteOp, ho]
  · simp only [noteOp, hi, ↓reduceIte, hnf]
    exact (paintNote_ok hp).2.1

theorem NoteCovers_offset_iff (R : Rat → Rat) (eps : Rat) (c : Cfg) (total : Rat) (n f p : Nat) (nt : PNote) :
    NoteCovers R eps c total n (selOffset c) f p nt = true ↔
      InRange c nt ∧ p = colOf c nt ∧
        ∃ nf, noteFrames R eps c total n nt = .ok nf ∧ inSlice n nf.fs nf.fe f = true := by
  unfold NoteCovers
  cases h : noteOp R eps c total n (selOffset c) nt with
  | none =>
    simp only [Bool.false_eq_true, false_iff]
    rintro ⟨hr, _, nf, hnf, _⟩
    have := (noteOp_some_iff R eps c total n (selOffset c) nt (selOffset c nf nt)).mpr ⟨hr, nf, hnf, rfl⟩
    rw [h] at this; cases this
  | some op =>
    obtain ⟨hr, nf, hnf, rfl⟩ := (noteOp_some_iff R eps c total n (selOffset c) nt op).mp h
    simp only [covers, selOffset, Bool.and_eq_true]
    constructor
    · rintro ⟨h1, h2⟩; exact ⟨hr, of_decide_eq_true h2, nf, hnf, h1⟩
    · rintro ⟨_, h2, nf', hnf', h1⟩
      rw [hnf] at hnf'; cases hnf'
      exact ⟨h1, decide_eq_true h2⟩

theorem getCell_paintSeq {α} (m : List (List α)) (a b : Int) (col : Nat) (bc : Bool) (g : Nat → α) (f p : Nat) :
    getCell (paintSeq m a b col bc g) f p =
      if inSlice m.length a b f = true ∧ p = col then
        (getCell m f p).map (fun _ => g (if bc then 0 else f - normIdx m.length a))
      else getCell m f p := by
  unfold paintSeq getCell inSlice
  simp only [List.getElem?_mapIdx]
  cases h : m[f]? with
  | none => simp
  | some row =>
    simp only [Option.map_some, Option.bind_some, Bool.and_eq_true, decide_eq_true_eq]
    by_cases hs : normIdx m.length a ≤ f ∧ f < normIdx m.length b
    · simp only [hs, and_self, ↓reduceIte, true_and, List.getElem?_set]
      by_cases hp : p = col
      · subst hp
        simp only [↓reduceIte]
        by_cases hl : p < row.length
        · simp [hl]
        · simp [hl]
      · have : ¬ col = p := fun h => hp h.symm
        simp [hp, this]
    · simp [hs]

theorem length_paintSeq {α} (m : List (List α)) (a b : Int) (col : Nat) (bc : Bool) (g : Nat → α) :
    (paintSeq m a b col bc g).length = m.length := by
  unfold paintSeq; simp

theorem paintNote_weights_length {R R32 : Rat → Rat} {c : Cfg} {n : Nat} {st st' : Rolls} {nt : PNote}
    {col : Nat} {f : NF} (h : paintNote R R32 c n st nt col f = .ok st') :
    st'.weights.length = st.weights.length := by
  unfold paintNote at h
  simp only at h
  split at h
  · cases h
  · split at h
    · cases h
    · split at h
      · cases h
      · split at h
        · cases h; simp [length_setCell, length_paint, length_paintSeq]
        · cases h; simp [length_paint, length_paintSeq]

theorem encNotes_weights_length {R R32 : Rat → Rat} {eps : Rat} {c : Cfg} {total : Rat} {n : Nat}
    (l : List PNote) (st st' : Rolls) (h : encNotes R R32 eps c total n st l = .ok st') :
    st'.weights.length = st.weights.length := by
  induction l generalizing st with
  | nil => simp only [encNotes] at h; cases h; rfl
  | cons nt rest ih =>
    simp only [encNotes] at h
    split at h
    · cases h
    · rename_i st1 h1
      rw [ih st1 h]
      rcases encNote_cases h1 with ⟨_, rfl⟩ | ⟨_, nf, _, hp⟩
      · rfl
      · exact paintNote_weights_length hp

theorem encCCs_length (R : Rat → Rat) (eps : Rat) (c : Cfg) (n : Nat) (l : List PCC) (m m' : List (List Int))
    (h : encCCs R eps c n m l = .ok m') : m'.length = m.length := by
  induction l generalizing m with
  | nil => simp only [encCCs] at h; cases h; rfl
  | cons cc rest ih =>
    simp only [encCCs] at h
    split at h
    · split at h
      · rw [ih _ h, length_setCell]
      · cases h
    · exact ih _ h

/-- the weight a note gives to frame `fr` of its pitch column (`old` = the weight before the note):
1 in the blanked frame before the note; `onset_upweight / (j + 1)` in the `j`-th frame after the onset
frames, up to the end of the note; `onset_upweight` in the onset frames; unchanged elsewhere -/
def wUpd (R R32 : Rat → Rat) (c : Cfg) (nf : NF) (fr : Nat) (old : Rat) : Rat :=
  if c.blank = true ∧ (fr : Int) = nf.sf - 1 then 1
  else if nf.oe ≤ (fr : Int) ∧ (fr : Int) < nf.ef then
    R32 (R (c.upweight / ((fr - nf.oe.toNat + 1 : Nat) : Rat)))
  else if nf.os ≤ (fr : Int) ∧ (fr : Int) < nf.oe then R32 c.upweight
  else old

theorem paintNote_weights_cell {R R32 : Rat → Rat} {c : Cfg} {n : Nat} {st st' : Rolls} {nt : PNote}
    {col : Nat} {f : NF} (h : paintNote R R32 c n st nt col f = .ok st') (hlen : st.weights.length = n)
    (hos : 0 ≤ f.os) (hoe : 0 ≤ f.oe) (fr p : Nat) (hfr : fr < n) :
    getCell st'.weights fr p =
      if p = col then (getCell st.weights fr p).map (wUpd R R32 c f fr) else getCell st.weights fr p := by
  unfold paintNote at h
  simp only at h
  split at h
  · cases h
  · split at h
    · cases h
    · split at h
      · cases h
      · rename_i hchk
        have hin1 : inSlice n f.os f.oe fr = true ↔ f.os ≤ (fr : Int) ∧ (fr : Int) < f.oe :=
          inSlice_iff n _ _ fr hos hoe hfr
        have hin2 : inSlice n f.oe (min f.ef (n : Int)) fr = true ↔ f.oe ≤ (fr : Int) ∧ (fr : Int) < f.ef := by
          unfold inSlice
          unfold sliceLen at hchk
          simp only [normIdx] at hchk ⊢
          simp only [Bool.and_eq_true]
          split_ifs at hchk ⊢ <;> simp only [decide_eq_true_eq] <;> omega
        have hidx : inSlice n f.oe (min f.ef (n : Int)) fr = true →
            (if ((min f.ef (n : Int) - f.oe).toNat == 1) = true then 0 else fr - normIdx n f.oe) = fr - f.oe.toNat := by
          intro hi
          have := hin2.mp hi
          simp only [normIdx, beq_iff_eq]
          split_ifs <;> omega
        by_cases hp : p = col
        · subst hp
          rw [if_pos rfl]
          cases hg : getCell st.weights fr p with
          | none =>
            split at h <;> cases h <;>
              simp [getCell_setCell, getCell_paintSeq, getCell_paint, hg]
          | some old =>
            have hw2 : getCell (paintSeq (paint st.weights f.os f.oe p (R32 c.upweight)) f.oe (min f.ef (n : Int)) p
                ((min f.ef (n : Int) - f.oe).toNat == 1) fun j => R32 (R (c.upweight / ((j + 1 : Nat) : Rat)))) fr p =
                some (if f.oe ≤ (fr : Int) ∧ (fr : Int) < f.ef then
                    R32 (R (c.upweight / ((fr - f.oe.toNat + 1 : Nat) : Rat)))
                  else if f.os ≤ (fr : Int) ∧ (fr : Int) < f.oe then R32 c.upweight else old) := by
              rw [getCell_paintSeq, getCell_paint, length_paint, hlen, hg]
              simp only [and_true, Option.map_some]
              by_cases h2 : inSlice n f.oe (min f.ef (n : Int)) fr = true
              · rw [if_pos h2, if_pos (hin2.mp h2), hidx h2]
                split <;> rfl
              · rw [if_neg h2, if_neg (fun hh => h2 (hin2.mpr hh))]
                by_cases h1 : inSlice n f.os f.oe fr = true
                · rw [if_pos h1, if_pos (hin1.mp h1)]
                · rw [if_neg h1, if_neg (fun hh => h1 (hin1.mpr hh))]
            simp only [Option.map_some]
            split at h
            · rename_i hb
              cases h
              simp only
              rw [getCell_setCell, hw2]
              simp only [and_true, Option.map_some]
              unfold wUpd
              by_cases hbl : fr = (f.sf - 1).toNat
              · have hw : c.blank = true ∧ (fr : Int) = f.sf - 1 := ⟨hb.1, by omega⟩
                rw [if_pos hbl, if_pos hw]
              · have hw : ¬ (c.blank = true ∧ (fr : Int) = f.sf - 1) := fun hh => hbl (by have := hh.2; omega)
                rw [if_neg hbl, if_neg hw]
            · rename_i hb
              cases h
              simp only
              rw [hw2]
              unfold wUpd
              have hw : ¬ (c.blank = true ∧ (fr : Int) = f.sf - 1) :=
                fun hh => hb ⟨hh.1, by have := hh.2; omega, by have := hh.2; omega⟩
              rw [if_neg hw]
        · rw [if_neg hp]
          split at h <;> cases h <;>
            simp [getCell_setCell, getCell_paintSeq, getCell_paint, hp]

/-- what note `nt` does to the weight `x` of cell `(fr, p)` -/
def noteW (R R32 : Rat → Rat) (eps : Rat) (c : Cfg) (total : Rat) (n fr p : Nat) (x : Rat) (nt : PNote) : Rat :=
  if c.minPitch ≤ nt.pitch ∧ nt.pitch ≤ c.maxPitch ∧ p = colOf c nt then
    match noteFrames R eps c total n nt with
    | .ok nf => wUpd R R32 c nf fr x
    | .error _ => x
  else x

theorem encNote_weights_cell {R R32 : Rat → Rat} {eps : Rat} {c : Cfg} {total : Rat} {n : Nat} {st st' : Rolls}
    {nt : PNote} (h : encNote R R32 eps c total n st nt = .ok st') (hlen : st.weights.length = n)
    (fr p : Nat) (hfr : fr < n) :
    getCell st'.weights fr p = (getCell st.weights fr p).map fun x => noteW R R32 eps c total n fr p x nt := by
  rcases encNote_cases h with ⟨ho, rfl⟩ | ⟨hi, nf, hnf, hp⟩
  · have : ∀ x, noteW R R32 eps c total n fr p x nt = x := by
      intro x; unfold noteW; rw [if_neg (by omega)]
    simp [this]
  · obtain ⟨hos, hoe, _, _⟩ := noteFrames_nonneg hnf
    rw [paintNote_weights_cell hp hlen hos hoe fr p hfr]
    by_cases hpc : p = colOf c nt
    · rw [if_pos hpc]
      congr 1
      funext x
      unfold noteW
      rw [if_pos ⟨by omega, by omega, hpc⟩, hnf]
    · rw [if_neg hpc]
      have : ∀ x, noteW R R32 eps c total n fr p x nt = x := by
        intro x; unfold noteW; rw [if_neg (fun hh => hpc hh.2.2)]
      simp [this]

theorem encNotes_weights_cell {R R32 : Rat → Rat} {eps : Rat} {c : Cfg} {total : Rat} {n : Nat}
    (l : List PNote) (st st' : Rolls) (h : encNotes R R32 eps c total n st l = .ok st')
    (hlen : st.weights.length = n) (fr p : Nat) (hfr : fr < n) :
    getCell st'.weights fr p =
      (getCell st.weights fr p).map fun x => l.foldl (noteW R R32 eps c total n fr p) x := by
  induction l generalizing st with
  | nil => simp only [encNotes] at h; cases h; simp
  | cons nt rest ih =>
    simp only [encNotes] at h
    split at h
    · cases h
    · rename_i st1 h1
      have hl1 : st1.weights.length = n := by
        rcases encNote_cases h1 with ⟨_, rfl⟩ | ⟨_, nf, _, hp⟩
        · exact hlen
        · rw [paintNote_weights_length hp]; exact hlen
      rw [ih st1 h hl1, encNote_weights_cell h1 hlen fr p hfr]
      cases getCell st.weights fr p <;> simp

/-- everything `encode` returns, in terms of the note loop and the control-change loop -/
theorem encode_ok_all {R R32 : Rat → Rat} {eps : Rat} {c : Cfg} {total : Rat} {notes : List PNote}
    {ccs : List PCC} {pr : Pianoroll} (h : encode R R32 eps c total notes ccs = .ok pr) :
    ∃ st cc, encNotes R R32 eps c total (numRows R c.fps total).toNat
        (initRolls (numRows R c.fps total).toNat (c.maxPitch - c.minPitch + 1).toNat) (sortByStart notes) = .ok st ∧
      encCCs R eps c (numRows R c.fps total).toNat
        (List.replicate (numRows R c.fps total).toNat (List.replicate 128 0)) (sortCCs ccs) = .ok cc ∧
      pr.weights = st.weights ∧ pr.offsets = st.offsets ∧ pr.controlChanges = cc ∧
      pr.onsetVelocities = List.zipWith (List.zipWith fun v o => R32 (v * o)) st.vels st.onsets ∧
      pr.onsets = st.onsets ∧ pr.activeVelocities = st.vels := by
  unfold encode at h
  simp only at h
  split at h
  · cases h
  · split at h
    · cases h
    · rename_i st hst
      split at h
      · cases h
      · rename_i cc hcc
        cases h
        exact ⟨st, cc, hst, hcc, rfl, rfl, rfl, rfl, rfl, rfl⟩

/-- control change `cc` writes cell `(fr, k)` of the control-change roll (numpy integer indexing:
`intIdx`, a negative index counts from the end) -/
def ccHits (R : Rat → Rat) (eps : Rat) (c : Cfg) (n fr k : Nat) (cc : PCC) : Bool :=
  decide ((framesFromTimes R eps c.fps c.occ cc.time 0).1 < (n : Int)) &&
    (intIdx n (framesFromTimes R eps c.fps c.occ cc.time 0).1 == some fr) && (intIdx 128 cc.number == some k)

theorem encCCs_cell (R : Rat → Rat) (eps : Rat) (c : Cfg) (n : Nat) (l : List PCC) (m m' : List (List Int))
    (h : encCCs R eps c n m l = .ok m') (fr k : Nat) :
    getCell m' fr k = (getCell m fr k).map fun x =>
      l.foldl (fun x cc => if ccHits R eps c n fr k cc then cc.value + 1 else x) x := by
  induction l generalizing m with
  | nil => simp only [encCCs] at h; cases h; simp
  | cons cc rest ih =>
    simp only [encCCs] at h
    simp only [List.foldl_cons]
    split at h
    · rename_i hlt
      split at h
      · rename_i r k' hr hk
        rw [ih _ h, getCell_setCell]
        have hh : ccHits R eps c n fr k cc = (decide (fr = r) && decide (k = k')) := by
          unfold ccHits
          rw [hr, hk]
          by_cases h1 : fr = r
          · subst h1
            by_cases h2 : k = k'
            · subst h2; simp [hlt]
            · have : ¬ k' = k := fun e => h2 e.symm
              simp [hlt, h2, this]
          · have : ¬ r = fr := fun e => h1 e.symm
            simp [h1, this]
        rw [hh]
        by_cases h1 : fr = r <;> by_cases h2 : k = k' <;> cases getCell m fr k <;> simp [h1, h2]
      · cases h
    · rename_i hlt
      rw [ih _ h]
      have hh : ccHits R eps c n fr k cc = false := by
        unfold ccHits; simp [hlt]
      simp [hh]


end NSV.C18
