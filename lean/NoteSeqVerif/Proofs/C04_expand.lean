import NoteSeqVerif.Proofs.C04
import Mathlib.Tactic.Linarith
import Mathlib.Tactic.Ring
import Mathlib.Data.Rat.Defs
/-! C04 — `expand_section_groups` (notes) on a sequence whose notes are partitioned by its section
annotations: the expansion plays, group by group, the notes of the group's section `num_times`
times, with their durations.  Exact arithmetic (`R = id`). -/
namespace NSV.C04
open NSV

/-- a section: its start time and its notes -/
abbrev Block := Rat × List Note

def endOf (rest : List Block) (T : Rat) : Rat :=
  match rest with
  | (s, _) :: _ => s
  | [] => T

/-- increasing section starts below the total time; every note of a section starts inside it and
ends no later than its end -/
def BlocksWF : List Block → Rat → Prop
  | [], _ => True
  | (s, ns) :: rest, T =>
    s < endOf rest T ∧ (∀ n ∈ ns, s ≤ n.start ∧ n.start < endOf rest T ∧ n.end_ ≤ endOf rest T) ∧ BlocksWF rest T

/-- section annotations with consecutive ids from `i0` -/
def blockSections : List Block → Int → List (Rat × Int)
  | [], _ => []
  | (s, _) :: rest, i0 => (s, i0) :: blockSections rest (i0 + 1)

def blockNotes (bs : List Block) : List Note := bs.flatMap (·.2)

theorem endOf_le_T {rest : List Block} {T : Rat} (h : BlocksWF rest T) : endOf rest T ≤ T := by
  cases rest with
  | nil => simp [endOf]
  | cons b r =>
    obtain ⟨s, ns⟩ := b
    simp only [endOf]
    induction r generalizing s ns with
    | nil => exact le_of_lt (by simpa [BlocksWF, endOf] using h.1)
    | cons b' r' ih =>
      obtain ⟨s', ns'⟩ := b'
      have h1 : s < s' := by simpa [BlocksWF, endOf] using h.1
      have := ih s' ns' h.2.2
      linarith

/-- every note of later sections starts at or after the end of the current one -/
theorem later_notes_ge {rest : List Block} {T : Rat} (h : BlocksWF rest T) :
    ∀ n ∈ blockNotes rest, endOf rest T ≤ n.start := by
  induction rest with
  | nil => simp [blockNotes]
  | cons b r ih =>
    obtain ⟨s, ns⟩ := b
    intro n hn
    simp only [blockNotes, List.flatMap_cons, List.mem_append] at hn
    simp only [endOf]
    rcases hn with hn | hn
    · exact (h.2.1 n hn).1
    · have h1 := ih h.2.2 n hn
      have h2 : s < endOf r T := h.1
      linarith

theorem filter_append_of {α} (q : α → Bool) (a b : List α) (ha : ∀ x ∈ a, q x = false) (hb : ∀ x ∈ b, q x = true) :
    (a ++ b).filter q = b := by
  rw [List.filter_append, List.filter_eq_nil_iff.mpr (by simpa using ha), List.filter_eq_self.mpr hb]
  rfl

theorem takeWhile_append_of {α} (p : α → Bool) (a b : List α) (ha : ∀ x ∈ a, p x = true) (hb : ∀ x ∈ b, p x = false) :
    (a ++ b).takeWhile p = a := by
  induction a with
  | nil =>
    cases b with
    | nil => rfl
    | cons x r => simp [hb x (by simp)]
  | cons x r ih =>
    simp only [List.cons_append, List.takeWhile, ha x (by simp)]
    rw [ih (fun y hy => ha y (by simp [hy]))]

/-- the notes `_extract_subsequences` puts into the section `[s, e)` -/
theorem extractNotes_block (pre : List Note) (ns : List Note) (post : List Note) (s e : Rat)
    (hpre : ∀ n ∈ pre, n.start < s) (hns : ∀ n ∈ ns, s ≤ n.start ∧ n.start < e ∧ n.end_ ≤ e)
    (hpost : ∀ n ∈ post, e ≤ n.start) (hse : s < e) :
    extractNotes id (pre ++ (ns ++ post)) s e =
      ns.map (fun n => { n with start := n.start - s, end_ := n.end_ - s }) := by
  unfold extractNotes
  rw [filter_append_of _ pre (ns ++ post)]
  · rw [takeWhile_append_of _ ns post]
    · apply List.map_congr_left
      intro n hn
      simp [(hns n hn).2.2]
    · intro n hn; simpa using (hns n hn).2.1
    · intro n hn; simpa using hpost n hn
  · intro n hn; simpa using hpre n hn
  · intro n hn
    rcases List.mem_append.mp hn with h | h
    · simpa using (hns n h).1
    · have := hpost n h; simp; linarith

theorem BlocksWF_suffix {pre rest : List Block} {T : Rat} (h : BlocksWF (pre ++ rest) T) : BlocksWF rest T := by
  induction pre with
  | nil => simpa using h
  | cons b p ih =>
    obtain ⟨s, ns⟩ := b
    exact ih h.2.2

theorem endOf_chain {p r : List Block} {s : Rat} {ns : List Note} {T : Rat} (h : BlocksWF (p ++ (s, ns) :: r) T) :
    endOf (p ++ (s, ns) :: r) T ≤ s := by
  induction p with
  | nil => simp [endOf]
  | cons b p' ih =>
    obtain ⟨s1, ns1⟩ := b
    have h1 : s1 < endOf (p' ++ (s, ns) :: r) T := h.1
    have h2 := ih h.2.2
    simp only [List.cons_append, endOf]
    linarith

theorem earlier_notes_lt {pre r : List Block} {s : Rat} {ns : List Note} {T : Rat}
    (h : BlocksWF (pre ++ (s, ns) :: r) T) : ∀ n ∈ blockNotes pre, n.start < s := by
  induction pre with
  | nil => simp [blockNotes]
  | cons b p ih =>
    obtain ⟨s0, ns0⟩ := b
    intro n hn
    simp only [blockNotes, List.flatMap_cons, List.mem_append] at hn
    rcases hn with hn | hn
    · have h1 : n.start < endOf (p ++ (s, ns) :: r) T := (h.2.1 n hn).2.1
      have h2 := endOf_chain h.2.2
      linarith
    · exact ih h.2.2 n hn

def shiftBlock (s : Rat) (ns : List Note) : List Note :=
  ns.map (fun n => { n with start := n.start - s, end_ := n.end_ - s })

abbrev Tbl := List (Int × (List Note × Rat × Rat))

/-- the table `expand_section_groups` builds for the sections of `rest` (ids from `i`) -/
def tableOf : List Block → Int → Rat → Tbl → Tbl
  | [], _, _, acc => acc
  | (s, ns) :: rest, i, T, acc =>
    tableOf rest (i + 1) T (upsert i (shiftBlock s ns, maxEnd (shiftBlock s ns) 0, endOf rest T - s) acc)

theorem blockSections_head (r : List Block) (j : Int) (T : Rat) :
    nextStart (blockSections r j) T = endOf r T := by
  cases r with
  | nil => rfl
  | cons b r' => obtain ⟨s, ns⟩ := b; rfl

theorem sectionTable_blocks (pre rest : List Block) (T : Rat) (i : Int) (acc : Tbl)
    (h : BlocksWF (pre ++ rest) T) :
    sectionTable id (blockNotes (pre ++ rest)) T (blockSections rest i) acc = .ok (tableOf rest i T acc) := by
  induction rest generalizing pre i acc with
  | nil => simp [blockSections, sectionTable, tableOf]
  | cons b r ih =>
    obtain ⟨s, ns⟩ := b
    have hsuf := BlocksWF_suffix h
    have hse : s < endOf r T := hsuf.1
    have heT : endOf r T ≤ T := endOf_le_T hsuf.2.2
    simp only [blockSections, sectionTable, blockSections_head]
    rw [if_neg (by linarith), if_neg (by linarith)]
    have hnotes : blockNotes (pre ++ (s, ns) :: r) = blockNotes pre ++ (ns ++ blockNotes r) := by
      simp [blockNotes]
    rw [hnotes, extractNotes_block (blockNotes pre) ns (blockNotes r) s (endOf r T)
      (earlier_notes_lt h) hsuf.2.1 (later_notes_ge hsuf.2.2) hse]
    have := ih (pre ++ [(s, ns)]) (i + 1)
      (upsert i (shiftBlock s ns, maxEnd (shiftBlock s ns) 0, endOf r T - s) acc) (by simpa using h)
    simp only [List.append_assoc, List.cons_append, List.nil_append] at this
    rw [hnotes] at this
    simp only [id]
    exact this

theorem lookup_tableOf_lt (rest : List Block) (i j : Int) (T : Rat) (acc : Tbl) (hj : j < i) :
    lookup j (tableOf rest i T acc) = lookup j acc := by
  induction rest generalizing i acc with
  | nil => rfl
  | cons b r ih =>
    obtain ⟨s, ns⟩ := b
    simp only [tableOf]
    rw [ih (i + 1) _ (by omega), lookup_upsert_ne _ _ _ _ (by omega)]

theorem lookup_tableOf (rest : List Block) (i : Int) (T : Rat) (acc : Tbl) (k : Nat) (s : Rat) (ns : List Note)
    (hk : rest[k]? = some (s, ns)) :
    lookup (i + k) (tableOf rest i T acc) =
      some (shiftBlock s ns, maxEnd (shiftBlock s ns) 0, endOf (rest.drop (k + 1)) T - s) := by
  induction rest generalizing i acc k with
  | nil => simp at hk
  | cons b r ih =>
    obtain ⟨s0, ns0⟩ := b
    cases k with
    | zero =>
      simp only [List.getElem?_cons_zero, Option.some.injEq, Prod.mk.injEq] at hk
      obtain ⟨rfl, rfl⟩ := hk
      simp only [tableOf, Nat.cast_zero, Int.add_zero, zero_add, List.drop_succ_cons, List.drop_zero]
      rw [lookup_tableOf_lt _ _ _ _ _ (by omega), lookup_upsert_self]
    | succ k =>
      simp only [List.getElem?_cons_succ] at hk
      simp only [tableOf, List.drop_succ_cons]
      have := ih (i + 1) (upsert i (shiftBlock s0 ns0, maxEnd (shiftBlock s0 ns0) 0, endOf r T - s0) acc) k hk
      rw [← this]
      congr 1
      push_cast
      ring

/-- what the expansion is compared on: pitch and duration of every note, in order -/
def pd (n : Note) : Int × Rat := (n.pitch, n.end_ - n.start)

theorem pd_shiftBlock (s : Rat) (ns : List Note) : (shiftBlock s ns).map pd = ns.map pd := by
  simp only [shiftBlock, List.map_map]
  apply List.map_congr_left
  intro n _
  simp only [Function.comp, pd, Prod.mk.injEq, true_and]
  ring

theorem maxEnd_le (l : List Note) (m d : Rat) (hm : m ≤ d) (hl : ∀ n ∈ l, n.end_ ≤ d) : maxEnd l m ≤ d := by
  induction l generalizing m with
  | nil => simpa [maxEnd] using hm
  | cons n r ih =>
    simp only [maxEnd]
    apply ih
    · split
      · exact hl n (by simp)
      · exact hm
    · intro x hx; exact hl x (by simp [hx])

/-- `concatenate_sequences` with durations that cover the sections: pitches and durations in order -/
theorem concatNotes_pd (es : List (List Note × Rat × Rat)) (cur : Rat) (h : ∀ e ∈ es, e.2.1 ≤ e.2.2) :
    ∃ L, concatNotes id es cur = .ok L ∧ L.map pd = es.flatMap (fun e => e.1.map pd) := by
  induction es generalizing cur with
  | nil => exact ⟨[], rfl, rfl⟩
  | cons e r ih =>
    obtain ⟨ns, tot, dur⟩ := e
    have h1 : tot ≤ dur := h (ns, tot, dur) (by simp)
    obtain ⟨L, hL, hpd⟩ := ih (id (cur + dur)) (fun e he => h e (by simp [he]))
    simp only [concatNotes]
    rw [if_neg (by linarith), hL]
    refine ⟨_, rfl, ?_⟩
    simp only [List.map_append, List.flatMap_cons, hpd]
    congr 1
    split
    · simp only [List.map_map, id]
      apply List.map_congr_left
      intro n _
      simp only [Function.comp, pd, Prod.mk.injEq, true_and]
      ring
    · rfl

theorem lookupAll_ok {β} (tbl : List (Int × β)) (ids : List Int) (f : Int → β) (h : ∀ i ∈ ids, lookup i tbl = some (f i)) :
    lookupAll tbl ids = .ok (ids.map f) := by
  induction ids with
  | nil => rfl
  | cons i r ih =>
    simp only [lookupAll, h i (by simp), ih (fun j hj => h j (by simp [hj])), List.map_cons]

theorem flatMap_congr' {α β} (l : List α) (f g : α → List β) (h : ∀ x ∈ l, f x = g x) :
    l.flatMap f = l.flatMap g := by
  induction l with
  | nil => rfl
  | cons a r ih =>
    simp only [List.flatMap_cons, h a (by simp), ih (fun x hx => h x (by simp [hx]))]

theorem regroup {β} (f : Int → List β) (groups : List (Int × Nat)) :
    (groups.flatMap (fun g => List.replicate g.2 g.1)).flatMap f =
      groups.flatMap (fun g => (List.replicate g.2 (f g.1)).flatten) := by
  induction groups with
  | nil => rfl
  | cons g r ih =>
    simp only [List.flatMap_cons, List.flatMap_append, ih]
    congr 1
    induction g.2 with
    | zero => rfl
    | succ n ihn => simp [List.replicate_succ, ihn]

/-- a tune whose notes are partitioned by its section annotations -/
def tuneOfBlocks (bs : List Block) (T : Rat) (groups : List (Int × Nat)) (base : Tune) : Tune :=
  { base with notes := blockNotes bs, sections := blockSections bs 0, groups := groups, totalTime := T }

/-- pitches and durations of section `i` -/
def blockPd (bs : List Block) (i : Int) : List (Int × Rat) :=
  match bs[i.toNat]? with
  | some (_, ns) => ns.map pd
  | none => []

theorem expand_blocks (bs : List Block) (T : Rat) (groups : List (Int × Nat)) (base : Tune)
    (hwf : BlocksWF bs T) (hsorted : (blockNotes bs).Pairwise (fun a b => a.start ≤ b.start))
    (hne : groups ≠ []) (hids : ∀ g ∈ groups, 0 ≤ g.1 ∧ g.1 < bs.length) :
    ∃ L, expand id (tuneOfBlocks bs T groups base) = .ok L ∧
      L.map pd = groups.flatMap (fun g => (List.replicate g.2 (blockPd bs g.1)).flatten) := by
  unfold expand
  simp only [tuneOfBlocks, hne, ↓reduceIte]
  rw [List.mergeSort_of_pairwise (by simpa using hsorted)]
  have hst := sectionTable_blocks [] bs T 0 [] (by simpa using hwf)
  simp only [List.nil_append] at hst
  rw [hst]
  simp only
  -- every id the groups mention is in the table
  let entry : Int → (List Note × Rat × Rat) := fun i =>
    match bs[i.toNat]? with
    | some (s, ns) => (shiftBlock s ns, maxEnd (shiftBlock s ns) 0, endOf (bs.drop (i.toNat + 1)) T - s)
    | none => ([], 0, 0)
  have hentry : ∀ i : Int, 0 ≤ i → i < bs.length → lookup i (tableOf bs 0 T []) = some (entry i) := by
    intro i h0 h1
    have hk : i.toNat < bs.length := by omega
    obtain ⟨⟨s, ns⟩, hb⟩ : ∃ b, bs[i.toNat]? = some b := ⟨bs[i.toNat], by simp [hk]⟩
    have := lookup_tableOf bs 0 T [] i.toNat s ns hb
    simp only [zero_add, Int.toNat_of_nonneg h0] at this
    rw [this]
    simp only [entry, hb]
  rw [lookupAll_ok _ _ entry (by
    intro i hi
    obtain ⟨g, hg, hi⟩ := List.mem_flatMap.mp hi
    have := List.eq_of_mem_replicate hi
    subst this
    exact hentry g.1 (hids g hg).1 (hids g hg).2)]
  simp only
  -- durations cover the sections
  have hcover : ∀ e ∈ (groups.flatMap (fun g => List.replicate g.2 g.1)).map entry, e.2.1 ≤ e.2.2 := by
    intro e he
    obtain ⟨i, hi, rfl⟩ := List.mem_map.mp he
    obtain ⟨g, hg, hi⟩ := List.mem_flatMap.mp hi
    have := List.eq_of_mem_replicate hi
    subst this
    have h0 := (hids g hg).1
    have h1 := (hids g hg).2
    have hk : g.1.toNat < bs.length := by omega
    obtain ⟨⟨s, ns⟩, hb⟩ : ∃ b, bs[g.1.toNat]? = some b := ⟨bs[g.1.toNat], by simp [hk]⟩
    simp only [entry, hb]
    -- the block and what follows it are well formed
    have hsplit : bs = bs.take g.1.toNat ++ (s, ns) :: bs.drop (g.1.toNat + 1) := by
      have h2 : bs[g.1.toNat] = (s, ns) := by
        have := List.getElem?_eq_getElem hk
        rw [this] at hb; simpa using hb
      conv_lhs => rw [← List.take_append_drop g.1.toNat bs]
      rw [List.drop_eq_getElem_cons hk, h2]
    have hsuf : BlocksWF ((s, ns) :: bs.drop (g.1.toNat + 1)) T := by
      apply BlocksWF_suffix (pre := bs.take g.1.toNat)
      rw [← hsplit]; exact hwf
    apply maxEnd_le
    · have := hsuf.1; linarith
    · intro n hn
      simp only [shiftBlock, List.mem_map] at hn
      obtain ⟨m, hm, rfl⟩ := hn
      have := (hsuf.2.1 m hm).2.2
      simp only
      linarith
  obtain ⟨L, hL, hpd⟩ := concatNotes_pd _ 0 hcover
  refine ⟨L, hL, ?_⟩
  rw [hpd]
  simp only [List.flatMap_map]
  -- regroup
  rw [regroup]
  apply flatMap_congr'
  intro g hg
  have h0 := (hids g hg).1
  have h1 := (hids g hg).2
  have hk : g.1.toNat < bs.length := by omega
  obtain ⟨⟨s, ns⟩, hb⟩ : ∃ b, bs[g.1.toNat]? = some b := ⟨bs[g.1.toNat], by simp [hk]⟩
  have : List.map pd (entry g.1).1 = blockPd bs g.1 := by
    simp only [entry, blockPd, hb, pd_shiftBlock]
  rw [this]

end NSV.C04
