import NoteSeqVerif.Model.C06
/-! C06 — Melody, the rendered notes in closed form (core Lean only).

`melodyNotesFrom k cur xs` = the note that is sounding (`cur`), closed at the first following event that is not
NO_EVENT (`closeAt`), followed by `melT k xs`: one note per pitch event, from its index to the next event that is not
NO_EVENT (or to the end).  The per-index reading `ruleAt` of a note list is C07's `melRule` in relative indexes. -/
namespace NSV.C06
open NSV.C07 (Gen.MELODY_NOTE_OFF Gen.MELODY_NO_EVENT)

/-- index of the first event at or after `k` that is a pitch or a NOTE_OFF; `k + len` if there is none -/
def closeAt : Int → List Int → Int
  | k, [] => k
  | k, x :: xs => if isPitch x then k else if x = C07.Gen.MELODY_NOTE_OFF then k else closeAt (k + 1) xs

/-- one note per pitch event -/
def melT : Int → List Int → List SNote
  | _, [] => []
  | k, x :: xs => if isPitch x then ⟨x, k, closeAt (k + 1) xs⟩ :: melT (k + 1) xs else melT (k + 1) xs

theorem melodyNotesFrom_eq : ∀ (xs : List Int) (k : Int) (cur : Option (Int × Int)),
    melodyNotesFrom k cur xs = closeCur (closeAt k xs) cur ++ melT k xs := by
  intro xs
  induction xs with
  | nil => intro k cur; simp [melodyNotesFrom, closeAt, melT]
  | cons x xs ih =>
    intro k cur
    unfold melodyNotesFrom closeAt melT
    by_cases hp : isPitch x = true
    · simp only [hp, ↓reduceIte, ih (k + 1) (some (x, k)), closeCur, List.cons_append, List.nil_append]
    · simp only [hp, Bool.false_eq_true, ↓reduceIte]
      by_cases ho : x = C07.Gen.MELODY_NOTE_OFF
      · simp only [ho, ↓reduceIte, ih (k + 1) none, closeCur, List.nil_append]
      · simp only [ho, ↓reduceIte, ih (k + 1) cur]

theorem melodyNotes_eq (ev : List Int) : melodyNotes ev = melT 0 ev := by
  simp [melodyNotes, melodyNotesFrom_eq, closeCur]

theorem closeAt_bounds : ∀ (xs : List Int) (k : Int), k ≤ closeAt k xs ∧ closeAt k xs ≤ k + xs.length := by
  intro xs
  induction xs with
  | nil => intro k; simp [closeAt]
  | cons x xs ih =>
    intro k
    unfold closeAt
    have := ih (k + 1)
    simp only [List.length_cons]
    split
    · omega
    · split
      · omega
      · push_cast; omega

/-- every note of `melT k xs`: a pitch in range, `k ≤ a < b ≤ k + len` -/
theorem melT_mem : ∀ (xs : List Int) (k : Int), ∀ d ∈ melT k xs,
    isPitch d.pitch = true ∧ k ≤ d.a ∧ d.a < d.b ∧ d.b ≤ k + xs.length := by
  intro xs
  induction xs with
  | nil => intro k d hd; simp [melT] at hd
  | cons x xs ih =>
    intro k d hd
    unfold melT at hd
    simp only [List.length_cons]
    split at hd
    · rename_i hp
      rcases List.mem_cons.mp hd with rfl | h
      · have := closeAt_bounds xs (k + 1)
        refine ⟨hp, Int.le_refl _, ?_, ?_⟩
        · show k < closeAt (k + 1) xs; omega
        · show closeAt (k + 1) xs ≤ k + ((xs.length + 1 : Nat) : Int); push_cast; omega
      · obtain ⟨h1, h2, h3, h4⟩ := ih (k + 1) d h
        exact ⟨h1, by omega, h3, by push_cast; omega⟩
    · obtain ⟨h1, h2, h3, h4⟩ := ih (k + 1) d hd
      exact ⟨h1, by omega, h3, by push_cast; omega⟩

/-- onsets strictly increasing -/
theorem melT_sorted : ∀ (xs : List Int) (k : Int), (melT k xs).Pairwise (fun x y => x.a < y.a) := by
  intro xs
  induction xs with
  | nil => intro k; simp [melT]
  | cons x xs ih =>
    intro k
    unfold melT
    split
    · refine List.pairwise_cons.mpr ⟨?_, ih (k + 1)⟩
      intro d hd
      have := (melT_mem xs (k + 1) d hd).2.1
      show k < d.a
      omega
    · exact ih (k + 1)

/-! ### the per-index reading of a note list -/

/-- C07's `melRule` on relative indexes -/
def ruleAt (N : List SNote) (t : Int) : Int :=
  match N.find? (fun d => d.a == t) with
  | some d => d.pitch
  | none =>
    match (N.filter (fun d => decide (d.a < t))).getLast? with
    | some d => if d.b = t then C07.Gen.MELODY_NOTE_OFF else C07.Gen.MELODY_NO_EVENT
    | none => C07.Gen.MELODY_NO_EVENT

theorem ruleAt_cons_eq (h : SNote) (N : List SNote) (t : Int) (ht : h.a = t) : ruleAt (h :: N) t = h.pitch := by
  simp [ruleAt, ht]

/-- an earlier note is invisible behind a later one that has already started -/
theorem ruleAt_cons_behind (h n : SNote) (N : List SNote) (t : Int) (hh : h.a < t) (hn : n.a < t) :
    ruleAt (h :: n :: N) t = ruleAt (n :: N) t := by
  have e1 : (h.a == t) = false := by simp; omega
  have e2 : (n.a == t) = false := by simp; omega
  simp only [ruleAt, List.find?_cons, e1, e2, List.filter_cons, hh, hn, decide_true, ↓reduceIte]
  cases N.find? (fun d => d.a == t) with
  | some d => rfl
  | none =>
    simp only [List.getLast?_cons_cons]

/-- a note that has ended before `t` and whose end is not `t` leaves the reading unchanged when everything after it
starts later than it -/
theorem ruleAt_cons_closed (h : SNote) (N : List SNote) (t : Int) (hh : h.a < t) (hb : h.b ≠ t) :
    ruleAt (h :: N) t = ruleAt N t := by
  have e1 : (h.a == t) = false := by simp; omega
  simp only [ruleAt, List.find?_cons, e1, List.filter_cons, hh, decide_true, ↓reduceIte]
  cases N.find? (fun d => d.a == t) with
  | some d => rfl
  | none =>
    simp only
    cases hf : N.filter (fun d => decide (d.a < t)) with
    | nil => simp [hb]
    | cons y ys => simp [List.getLast?_cons_cons]

/-- nothing has started yet -/
theorem ruleAt_all_later (N : List SNote) (t : Int) (h : ∀ d ∈ N, t < d.a) : ruleAt N t = C07.Gen.MELODY_NO_EVENT := by
  have e1 : N.find? (fun d => d.a == t) = none := by
    rw [List.find?_eq_none]; intro d hd; have := h d hd; simp; omega
  have e2 : N.filter (fun d => decide (d.a < t)) = [] := by
    rw [List.filter_eq_nil_iff]; intro d hd; have := h d hd; simp; omega
  simp [ruleAt, e1, e2]

/-- only the sounding note has started -/
theorem ruleAt_head_only (h : SNote) (N : List SNote) (t : Int) (hh : h.a < t) (hN : ∀ d ∈ N, t < d.a) :
    ruleAt (h :: N) t = if h.b = t then C07.Gen.MELODY_NOTE_OFF else C07.Gen.MELODY_NO_EVENT := by
  have e0 : (h.a == t) = false := by simp; omega
  have e1 : N.find? (fun d => d.a == t) = none := by
    rw [List.find?_eq_none]; intro d hd; have := hN d hd; simp; omega
  have e2 : N.filter (fun d => decide (d.a < t)) = [] := by
    rw [List.filter_eq_nil_iff]; intro d hd; have := hN d hd; simp; omega
  simp [ruleAt, e0, e1, hh, e2]

/-- the optional sounding note in front of `melT k xs` -/
def withHead (k : Int) (head : Option (Int × Int)) (xs : List Int) : List SNote :=
  closeCur (closeAt k xs) head ++ melT k xs

theorem isPitch_iff (x : Int) : isPitch x = true ↔ 0 ≤ x ∧ x ≤ 127 := by
  unfold isPitch
  rw [Bool.and_eq_true, decide_eq_true_iff, decide_eq_true_iff]
  rfl

theorem isPitch_note_off : isPitch C07.Gen.MELODY_NOTE_OFF = false := by decide
theorem isPitch_no_event : isPitch C07.Gen.MELODY_NO_EVENT = false := by decide

/-- an event that is neither a pitch nor NOTE_OFF, in `−2 .. 127`, is NO_EVENT -/
theorem other_is_no_event {x : Int} (h1 : isPitch x = false) (h2 : x ≠ C07.Gen.MELODY_NOTE_OFF)
    (h3 : C07.Gen.MELODY_NO_EVENT ≤ x ∧ x ≤ Gen.MAX_MIDI_PITCH) : x = C07.Gen.MELODY_NO_EVENT := by
  simp only [C07.Gen.MELODY_NOTE_OFF, C07.Gen.MELODY_NO_EVENT, Gen.MAX_MIDI_PITCH] at *
  by_cases h0 : 0 ≤ x
  · simp [isPitch, Gen.MIN_MIDI_PITCH, Gen.MAX_MIDI_PITCH, h0, h3.2] at h1
  · omega

/-- **reading the rendered notes back gives the events**: with NOTE_OFF only while a note sounds and every event in
`−2 .. 127`, index `k + i` of the rendered notes reads `xs[i]` -/
theorem ruleAt_melody : ∀ (xs : List Int) (k : Int) (head : Option (Int × Int)),
    (∀ x ∈ xs, C07.Gen.MELODY_NO_EVENT ≤ x ∧ x ≤ Gen.MAX_MIDI_PITCH) → offsOk head.isSome xs = true →
    (∀ p a, head = some (p, a) → a < k) →
    ∀ i : Nat, i < xs.length → xs[i]? = some (ruleAt (withHead k head xs) (k + i)) := by
  intro xs
  induction xs with
  | nil => intro k head _ _ _ i hi; simp at hi
  | cons x xs ih =>
    intro k head hrange hoffs hhead i hi
    have hrange' : ∀ y ∈ xs, C07.Gen.MELODY_NO_EVENT ≤ y ∧ y ≤ Gen.MAX_MIDI_PITCH :=
      fun y hy => hrange y (List.mem_cons_of_mem _ hy)
    have hlater : ∀ d ∈ melT (k + 1) xs, k + 1 ≤ d.a := fun d hd => (melT_mem xs (k + 1) d hd).2.1
    unfold offsOk at hoffs
    by_cases hp : isPitch x = true
    · -- a pitch: closes the sounding note, starts a new one
      simp only [hp, ↓reduceIte] at hoffs
      have hw : withHead k head (x :: xs) = closeCur k head ++ withHead (k + 1) (some (x, k)) xs := by
        simp [withHead, closeAt, melT, hp, closeCur]
      have hw' : withHead (k + 1) (some (x, k)) xs = ⟨x, k, closeAt (k + 1) xs⟩ :: melT (k + 1) xs := by
        simp [withHead, closeCur]
      cases i with
      | zero =>
        simp only [List.getElem?_cons_zero, Int.natCast_zero, Int.add_zero, Option.some.injEq]
        rw [hw, hw']
        cases head with
        | none => simp only [closeCur, List.nil_append]; rw [ruleAt_cons_eq _ _ _ rfl]
        | some c =>
          obtain ⟨p, a⟩ := c
          have := hhead p a rfl
          simp only [closeCur, List.cons_append, List.nil_append]
          rw [show ruleAt (⟨p, a, k⟩ :: ⟨x, k, closeAt (k + 1) xs⟩ :: melT (k + 1) xs) k = x from by
            have e1 : ((⟨p, a, k⟩ : SNote).a == k) = false := by simp; omega
            simp [ruleAt, e1]]
      | succ j =>
        have hj : j < xs.length := by simpa using hi
        have := ih (k + 1) (some (x, k)) hrange' (by simpa using hoffs) (by intro p a h; cases h; omega) j hj
        simp only [List.getElem?_cons_succ]
        rw [this, hw]
        have e : k + ((j + 1 : Nat) : Int) = k + 1 + (j : Int) := by push_cast; omega
        rw [e]
        cases head with
        | none => simp [closeCur]
        | some c =>
          obtain ⟨p, a⟩ := c
          have := hhead p a rfl
          simp only [closeCur, List.cons_append, List.nil_append]
          rw [hw', ruleAt_cons_behind _ _ _ _ (by show a < k + 1 + (j : Int); omega)
            (by show k < k + 1 + (j : Int); omega)]
    · have hp' : isPitch x = false := by simpa using hp
      simp only [hp', Bool.false_eq_true, ↓reduceIte] at hoffs
      by_cases ho : x = C07.Gen.MELODY_NOTE_OFF
      · -- NOTE_OFF: a note is sounding and ends here
        simp only [ho, ↓reduceIte, Bool.and_eq_true] at hoffs
        obtain ⟨hsnd, hoffs'⟩ := hoffs
        cases head with
        | none => simp at hsnd
        | some c =>
          obtain ⟨p, a⟩ := c
          have ha := hhead p a rfl
          have hw : withHead k (some (p, a)) (x :: xs) = ⟨p, a, k⟩ :: melT (k + 1) xs := by
            simp [withHead, closeAt, melT, ho, closeCur, isPitch_note_off]
          have hwn : withHead (k + 1) none xs = melT (k + 1) xs := by simp [withHead, closeCur]
          rw [hw]
          cases i with
          | zero =>
            simp only [List.getElem?_cons_zero, Int.natCast_zero, Int.add_zero, Option.some.injEq]
            rw [ruleAt_head_only _ _ _ (by show a < k; omega) (by intro d hd; have := hlater d hd; omega)]
            simp [ho]
          | succ j =>
            have hj : j < xs.length := by simpa using hi
            have := ih (k + 1) none hrange' (by simpa using hoffs') (by intro p a h; cases h) j hj
            simp only [List.getElem?_cons_succ]
            rw [this, hwn]
            have e : k + ((j + 1 : Nat) : Int) = k + 1 + (j : Int) := by push_cast; omega
            rw [e, ruleAt_cons_closed _ _ _ (by show a < k + 1 + (j : Int); omega)
              (by show k ≠ k + 1 + (j : Int); omega)]
      · -- NO_EVENT
        simp only [ho, ↓reduceIte] at hoffs
        have hx : x = C07.Gen.MELODY_NO_EVENT := other_is_no_event hp' ho (hrange x (List.mem_cons_self ..))
        have hw : withHead k head (x :: xs) = withHead (k + 1) head xs := by
          simp [withHead, closeAt, melT, hp', ho]
        rw [hw]
        cases i with
        | zero =>
          simp only [List.getElem?_cons_zero, Int.natCast_zero, Int.add_zero, Option.some.injEq]
          cases head with
          | none =>
            simp only [withHead, closeCur, List.nil_append]
            rw [ruleAt_all_later _ _ (by intro d hd; have := hlater d hd; omega)]
            exact hx
          | some c =>
            obtain ⟨p, a⟩ := c
            have ha := hhead p a rfl
            simp only [withHead, closeCur, List.cons_append, List.nil_append]
            rw [ruleAt_head_only _ _ _ (by show a < k; omega) (by intro d hd; have := hlater d hd; omega)]
            have := (closeAt_bounds xs (k + 1)).1
            rw [if_neg (by show ¬ closeAt (k + 1) xs = k; omega)]
            exact hx
        | succ j =>
          have hj : j < xs.length := by simpa using hi
          have := ih (k + 1) head hrange' hoffs (by intro p a h; have := hhead p a h; omega) j hj
          simp only [List.getElem?_cons_succ]
          rw [this]
          have e : k + ((j + 1 : Nat) : Int) = k + 1 + (j : Int) := by push_cast; omega
          rw [e]

end NSV.C06
