import NoteSeqVerif.Model.C20_pcm
/-! C20 — the finite check behind `pcm_roundtrip` (core Lean only).  Kept in its own file so that the
16 chunk modules `Props/C20_chunkNN` depend on nothing else that changes. -/
namespace NSV.C20

/-! ### the finite check behind `pcm_roundtrip` -/

/-- one int16 value survives `int16 → float32 → ·toIntMul (float32) → truncate` -/
def pcmOk (k : Int) : Bool :=
  truncR (rne24 (int16ToFloat k * (Gen.toIntMul : Rat))) == k

/-- `pcmOk` on the `n` consecutive values starting at `lo` -/
def pcmOkRange (lo : Int) (n : Nat) : Bool := (List.range n).all fun i => pcmOk (lo + (i : Int))

theorem pcmOk_of_range {lo : Int} {n : Nat} (h : pcmOkRange lo n = true) (k : Int)
    (h1 : lo ≤ k) (h2 : k < lo + (n : Int)) : pcmOk k = true := by
  unfold pcmOkRange at h
  rw [List.all_eq_true] at h
  have := h (k - lo).toNat (by rw [List.mem_range]; omega)
  have e : lo + ((k - lo).toNat : Int) = k := by omega
  rw [e] at this
  exact this

end NSV.C20
