import NoteSeqVerif.Model.C09
/-! C09 — vocabulary of the statements (table predicates, canonical representatives, round-trip
functions) and helper lemmas for `Props/C09.lean`.  Core Lean only. -/
namespace NSV.C09
open Gen

deriving instance DecidableEq for Except

/-! ## Multi-drum encoding: sums of distinct powers of two -/

/-- `Σ_{i<n, f i} 2^i` -/
def powSum (f : Nat → Bool) : Nat → Nat
  | 0 => 0
  | n + 1 => powSum f n + (if f n then 2 ^ n else 0)

theorem powSum_lt (f : Nat → Bool) (n : Nat) : powSum f n < 2 ^ n := by
  induction n with
  | zero => simp [powSum]
  | succ n ih =>
    simp only [powSum, Nat.pow_succ]
    split <;> omega

theorem testBit_powSum (f : Nat → Bool) (n k : Nat) :
    (powSum f n).testBit k = (decide (k < n) && f k) := by
  induction n with
  | zero => simp [powSum]
  | succ n ih =>
    have hlt := powSum_lt f n
    simp only [powSum]
    rcases Nat.lt_trichotomy k n with hk | hk | hk
    · -- bit below the new one
      have : decide (k < n + 1) = true := by simp; omega
      rw [this]
      split
      · rw [Nat.add_comm, Nat.testBit_two_pow_add_gt hk, ih]; simp [hk]
      · rw [Nat.add_zero, ih]; simp [hk]
    · subst hk
      have h1 : (powSum f k).testBit k = false := Nat.testBit_lt_two_pow hlt
      split
      · rename_i hf
        rw [Nat.add_comm, Nat.testBit_two_pow_add_eq, h1]; simp [hf]
      · rename_i hf
        rw [Nat.add_zero, h1]; simp [hf]
    · have : decide (k < n + 1) = false := by simp; omega
      rw [this, Bool.false_and]
      apply Nat.testBit_lt_two_pow
      have h2 : 2 ^ (n + 1) ≤ 2 ^ k := Nat.pow_le_pow_right (by omega) (by omega)
      have h3 := powSum_lt f (n + 1)
      simp only [powSum] at h3
      omega

theorem foldl_filter_range (f : Nat → Bool) (n : Nat) :
    ((List.range n).filter f).foldl (fun acc i => acc + 2 ^ i) 0 = powSum f n := by
  induction n with
  | zero => simp [powSum]
  | succ n ih =>
    rw [List.range_succ, List.filter_append, List.foldl_append, ih]
    by_cases h : f n <;> simp [powSum, h]


/-! ## `_inverse_drum_map`: the last class listing a pitch wins -/

/-- the fold inside `classOf`, over the first `m` classes -/
def classUpTo (t : List (List Nat)) (p : Nat) (m : Nat) : Option Nat :=
  (List.range m).foldl (fun acc i => if (t.getD i []).contains p then some i else acc) none

theorem classUpTo_succ (t : List (List Nat)) (p m : Nat) :
    classUpTo t p (m + 1) = if (t.getD m []).contains p then some m else classUpTo t p m := by
  simp [classUpTo, List.range_succ, List.foldl_append]

/-- "last class listing the pitch wins" -/
theorem classUpTo_eq_some (t : List (List Nat)) (p m i : Nat) :
    classUpTo t p m = some i ↔
      i < m ∧ p ∈ t.getD i [] ∧ ∀ j, i < j → j < m → p ∉ t.getD j [] := by
  induction m with
  | zero => simp [classUpTo]
  | succ m ih =>
    rw [classUpTo_succ]
    by_cases h : (t.getD m []).contains p
    · rw [if_pos h, Option.some.injEq]
      have hm : p ∈ t.getD m [] := by simpa using h
      constructor
      · rintro rfl; exact ⟨by omega, hm, fun j h1 h2 => by omega⟩
      · rintro ⟨h1, h2, h3⟩
        rcases Nat.lt_or_ge i m with hlt | hge
        · exact absurd hm (h3 m hlt (by omega))
        · omega
    · rw [if_neg h, ih]
      have hm : p ∉ t.getD m [] := by simpa using h
      constructor
      · rintro ⟨h1, h2, h3⟩
        refine ⟨by omega, h2, fun j hj1 hj2 => ?_⟩
        rcases Nat.lt_or_ge j m with hlt | hge
        · exact h3 j hj1 hlt
        · have : j = m := by omega
          subst this; exact hm
      · rintro ⟨h1, h2, h3⟩
        have : i ≠ m := by rintro rfl; exact hm h2
        exact ⟨by omega, h2, fun j hj1 hj2 => h3 j hj1 (by omega)⟩

theorem classUpTo_eq_none (t : List (List Nat)) (p m : Nat) :
    classUpTo t p m = none ↔ ∀ j, j < m → p ∉ t.getD j [] := by
  induction m with
  | zero => simp [classUpTo]
  | succ m ih =>
    rw [classUpTo_succ]
    by_cases h : (t.getD m []).contains p
    · have hm : p ∈ t.getD m [] := by simpa using h
      rw [if_pos h]
      constructor
      · intro h'; cases h'
      · intro h'; exact absurd hm (h' m (by omega))
    · have hm : p ∉ t.getD m [] := by simpa using h
      rw [if_neg h, ih]
      constructor
      · intro h' j hj
        rcases Nat.lt_or_ge j m with hlt | hge
        · exact h' j hlt
        · have : j = m := by omega
          subst this; exact hm
      · intro h' j hj; exact h' j (by omega)


/-! ## table predicates and their consequences -/
/-- no pitch is listed by two classes -/
def DisjointTable (t : List (List Nat)) : Prop := t.Pairwise (fun a b => ∀ p, p ∈ a → p ∉ b)
/-- every class lists at least one pitch -/
def NonEmptyTable (t : List (List Nat)) : Prop := ∀ c, c ∈ t → c ≠ []

theorem mem_getD_lt {t : List (List Nat)} {i p : Nat} (h : p ∈ t.getD i []) : i < t.length := by
  rcases Nat.lt_or_ge i t.length with hlt | hge
  · exact hlt
  · simp [List.getD_eq_getElem?_getD, List.getElem?_eq_none hge] at h

theorem getD_of_lt {t : List (List Nat)} {i : Nat} (h : i < t.length) : t.getD i [] = t[i] := by
  simp [List.getD_eq_getElem?_getD, h]

theorem disjoint_index {t : List (List Nat)} (hd : DisjointTable t) {i j p : Nat}
    (hi : p ∈ t.getD i []) (hj : p ∈ t.getD j []) : i = j := by
  have hil := mem_getD_lt hi
  have hjl := mem_getD_lt hj
  rw [getD_of_lt hil] at hi
  rw [getD_of_lt hjl] at hj
  have := List.pairwise_iff_getElem.mp hd
  rcases Nat.lt_trichotomy i j with h | h | h
  · exact absurd hj (this i j hil hjl h p hi)
  · exact h
  · exact absurd hi (this j i hjl hil h p hj)

theorem classOf_eq_some_iff {t : List (List Nat)} (hd : DisjointTable t) (p i : Nat) :
    classOf t p = some i ↔ p ∈ t.getD i [] := by
  show classUpTo t p t.length = some i ↔ _
  rw [classUpTo_eq_some]
  constructor
  · rintro ⟨_, h, _⟩; exact h
  · intro h
    refine ⟨mem_getD_lt h, h, fun j hj _ hp => ?_⟩
    have := disjoint_index hd h hp
    omega

theorem classOf_isNone_iff (t : List (List Nat)) (p : Nat) :
    (classOf t p).isNone = true ↔ ∀ c, c ∈ t → p ∉ c := by
  show (classUpTo t p t.length).isNone = true ↔ _
  rw [Option.isNone_iff_eq_none, classUpTo_eq_none]
  constructor
  · intro h c hc hp
    obtain ⟨i, hi, rfl⟩ := List.getElem_of_mem hc
    exact h i hi (by rw [getD_of_lt hi]; exact hp)
  · intro h j hj hp
    rw [getD_of_lt hj] at hp
    exact h _ (List.getElem_mem hj) hp

theorem drumEncode_eq_powSum (t : List (List Nat)) (ev : List Nat) :
    drumEncode t ev = powSum (fun i => ev.any (fun p => classOf t p == some i)) t.length := by
  unfold drumEncode; rw [foldl_filter_range]

/-- for a disjoint table, class `i` is hit iff the event contains one of its pitches -/
theorem hit_iff {t : List (List Nat)} (hd : DisjointTable t) (ev : List Nat) (i : Nat) :
    ev.any (fun p => classOf t p == some i) = true ↔ ∃ p, p ∈ ev ∧ p ∈ t.getD i [] := by
  simp only [List.any_eq_true, beq_iff_eq, classOf_eq_some_iff hd]

theorem decodeIdxs_ok {t : List (List Nat)} (hne : NonEmptyTable t) (idx : Nat) (is : List Nat)
    (his : ∀ i, i ∈ is → i < t.length) :
    decodeIdxs t idx is =
      .ok (is.filterMap (fun i => if idx.testBit i then (t.getD i []).head? else none)) := by
  induction is with
  | nil => simp [decodeIdxs]
  | cons i is ih =>
    have hi := his i (by simp)
    have ih := ih (fun j hj => his j (by simp [hj]))
    by_cases hb : idx.testBit i
    · have hc : t[i] ≠ [] := hne _ (List.getElem_mem hi)
      simp only [decodeIdxs, hb, if_true, List.getElem?_eq_getElem hi, List.filterMap_cons, getD_of_lt hi]
      cases hti : t[i] with
      | nil => exact absurd hti hc
      | cons p r => simp [ih]
    · simp [decodeIdxs, hb, ih]

theorem drumDecode_ok {t : List (List Nat)} (hne : NonEmptyTable t) (idx : Nat) (h : idx < 2 ^ t.length) :
    drumDecode t idx =
      .ok ((List.range t.length).filterMap (fun i => if idx.testBit i then (t.getD i []).head? else none)) := by
  unfold drumDecode
  rw [decodeIdxs_ok hne idx _ (fun i hi => by simpa using hi)]
  simp [h]


/-- the documented canonical representative of a pitch set: the first pitch of every class hit -/
def hitFirsts (t : List (List Nat)) (s : List Nat) : List Nat :=
  t.filterMap (fun c => if c.any (fun p => s.contains p) then c.head? else none)

theorem filterMap_range_getD (t : List (List Nat)) (g : List Nat → Option Nat) :
    (List.range t.length).filterMap (fun k => g (t.getD k [])) = t.filterMap g := by
  induction t with
  | nil => simp
  | cons c cs ih =>
    rw [List.length_cons, List.range_succ_eq_map, List.filterMap_cons, List.filterMap_map]
    simp only [List.getD_cons_zero, List.filterMap_cons]
    have : ((fun k => g ((c :: cs).getD k [])) ∘ Nat.succ) = (fun k => g (cs.getD k [])) := by
      funext k; simp
    rw [this, ih]

theorem filterMap_congr' {α β} {f g : α → Option β} (l : List α) (h : ∀ a, a ∈ l → f a = g a) :
    l.filterMap f = l.filterMap g := by
  induction l with
  | nil => rfl
  | cons a l ih =>
    rw [List.filterMap_cons, List.filterMap_cons, h a (by simp), ih (fun b hb => h b (by simp [hb]))]


/-! ## Chord encodings: vocabulary and facts about the generated tables (`decide` over whole tables) -/
/-- decode, read the decoded string back as a structured symbol, encode -/
def mmRoundTrip (i : Int) : Except String Int :=
  match mmDecode i with
  | .error e => .error e
  | .ok d => match structured d with
      | none => .error "unparsed"
      | some ev => mmEncode ev

def triadRoundTrip (i : Int) : Except String Int :=
  match triadDecode i with
  | .error e => .error e
  | .ok d => match structured d with
      | none => .error "unparsed"
      | some ev => triadEncode ev

theorem mm_table : ∀ n : Nat, n < mmNumClasses.toNat → mmRoundTrip (n : Int) = .ok (n : Int) := by
  decide +kernel

theorem triad_table : ∀ n : Nat, n < triadNumClasses.toNat → triadRoundTrip (n : Int) = .ok (n : Int) := by
  decide +kernel

def namePitchClass (nm : List Char) : Except String Int :=
  match parsePitchClass nm with
  | some (step, alter) => pitchClassToMidi step alter
  | none => .error "unparsed"

/-- the name table: entry `r` of `_PITCH_CLASS_MAPPING` is spelled with pitch class `r` -/
theorem name_table : pitchClassMapping.length = 12 ∧
    ∀ r : Nat, r < 12 → pitchClassMapping[r]?.map namePitchClass = some (.ok (r : Int)) := by
  decide +kernel

/-- decode an index and read root pitch class and quality off the decoded name -/
def mmDecodeRQ (i : Int) : Except String (Option (Int × Nat)) :=
  match mmDecode i with
  | .error e => .error e
  | .ok d => match structured d with
      | none => .error "unparsed"
      | some ev => rootQuality ev

def triadDecodeRQ (i : Int) : Except String (Option (Int × Nat)) :=
  match triadDecode i with
  | .error e => .error e
  | .ok d => match structured d with
      | none => .error "unparsed"
      | some ev => rootQuality ev

theorem mm_rq_table : ∀ r : Nat, r < 12 →
    mmDecodeRQ ((r : Int) + 1) = .ok (some ((r : Int), CHORD_QUALITY_MAJOR)) ∧
    mmDecodeRQ ((r : Int) + NOTES_PER_OCTAVE + 1) = .ok (some ((r : Int), CHORD_QUALITY_MINOR)) := by
  decide +kernel

/-- the triad qualities in index-block order -/
def triadQualities : List Nat :=
  [CHORD_QUALITY_MAJOR, CHORD_QUALITY_MINOR, CHORD_QUALITY_AUGMENTED, CHORD_QUALITY_DIMINISHED]

theorem triad_rq_table : ∀ r : Nat, r < 12 → ∀ k : Nat, k < 4 →
    triadDecodeRQ ((r : Int) + (k : Int) * NOTES_PER_OCTAVE + 1) =
      .ok (some ((r : Int), triadQualities.getD k CHORD_QUALITY_OTHER)) := by
  decide +kernel

theorem mmEncode_eq (ev : ChordEvent) : mmEncode ev =
    match rootQuality ev with
    | .error e => .error e
    | .ok none => .ok 0
    | .ok (some (r, q)) =>
        if q = CHORD_QUALITY_MAJOR then .ok (r + 1)
        else if q = CHORD_QUALITY_MINOR then .ok (r + NOTES_PER_OCTAVE + 1)
        else .error "ChordEncodingError" := by
  cases ev with
  | noChord => rfl
  | sym step alter kind mods =>
    simp only [mmEncode, rootQuality]
    cases pitchClassToMidi step alter with
    | error e => rfl
    | ok r => cases symQuality kind mods with
      | error e => rfl
      | ok q => rfl

theorem root_range {ev : ChordEvent} {r : Int} {q : Nat} (h : rootQuality ev = .ok (some (r, q))) :
    0 ≤ r ∧ r < 12 := by
  cases ev with
  | noChord => simp [rootQuality] at h
  | sym step alter kind mods =>
    simp only [rootQuality, pitchClassToMidi] at h
    cases hl : stepsMidi.lookup step with
    | none => simp [hl] at h
    | some m =>
      simp only [hl] at h
      cases hq : symQuality kind mods with
      | error e => simp [hq] at h
      | ok q' =>
        simp only [hq, Except.ok.injEq, Option.some.injEq, Prod.mk.injEq] at h
        rw [← h.1, Int.fmod_eq_emod_of_nonneg _ (by omega)]
        exact ⟨Int.emod_nonneg _ (by omega), Int.emod_lt_of_pos _ (by omega)⟩


theorem triadEncode_eq (ev : ChordEvent) : triadEncode ev =
    match rootQuality ev with
    | .error e => .error e
    | .ok none => .ok 0
    | .ok (some (r, q)) =>
        if q = CHORD_QUALITY_MAJOR then .ok (r + 1)
        else if q = CHORD_QUALITY_MINOR then .ok (r + NOTES_PER_OCTAVE + 1)
        else if q = CHORD_QUALITY_AUGMENTED then .ok (r + 2 * NOTES_PER_OCTAVE + 1)
        else if q = CHORD_QUALITY_DIMINISHED then .ok (r + 3 * NOTES_PER_OCTAVE + 1)
        else .error "ChordEncodingError" := by
  cases ev with
  | noChord => rfl
  | sym step alter kind mods =>
    simp only [triadEncode, rootQuality]
    cases pitchClassToMidi step alter with
    | error e => rfl
    | ok r => cases symQuality kind mods with
      | error e => rfl
      | ok q => rfl

/-! ## Note density -/
theorem pyIndex_nat {α} (l : List α) (k : Nat) (h : k < l.length) : pyIndex l (k : Int) = .ok l[k] := by
  unfold pyIndex
  have h1 : ¬ ((k : Int) < 0) := by omega
  simp only [h1, if_false, Int.toNat_natCast, List.getElem?_eq_getElem h]

theorem densEncodeAux_shift (bs : List Rat) (idx : Nat) (x : Rat) :
    densEncodeAux bs idx x = idx + densEncodeAux bs 0 x := by
  induction bs generalizing idx with
  | nil => simp [densEncodeAux]
  | cons d ds ih =>
    simp only [densEncodeAux]
    split
    · omega
    · rw [ih (idx + 1), ih (0 + 1)]; omega

theorem densEncode_cons (d : Rat) (ds : List Rat) (x : Rat) :
    densEncode (d :: ds) x = if x < d then 0 else densEncode ds x + 1 := by
  unfold densEncode
  simp only [densEncodeAux]
  split
  · rfl
  · rw [densEncodeAux_shift]; omega

theorem densEncode_nil (x : Rat) : densEncode [] x = 0 := rfl

/-- what the loop establishes, for any boundary list -/
theorem densEncode_spec (bs : List Rat) (x : Rat) :
    densEncode bs x ≤ bs.length ∧
    (∀ k (h : k < bs.length), k < densEncode bs x → bs[k] ≤ x) ∧
    (∀ h : densEncode bs x < bs.length, x < bs[densEncode bs x]) := by
  induction bs with
  | nil => simp [densEncode_nil]
  | cons d ds ih =>
    obtain ⟨h1, h2, h3⟩ := ih
    rw [densEncode_cons]
    by_cases hx : x < d
    · simp only [hx, if_true]
      refine ⟨by simp, fun k _ hk => by omega, fun _ => by simpa using hx⟩
    · simp only [hx, if_false]
      refine ⟨by simp; omega, fun k hk hlt => ?_, fun h => ?_⟩
      · cases k with
        | zero => simpa using Rat.not_lt.mp hx
        | succ k => simpa using h2 k (by simpa using hk) (by omega)
      · simpa using h3 (by simpa using h)

theorem densEncode_boundary (bs : List Rat) (hs : bs.Pairwise (· < ·)) (k : Nat) (h : k < bs.length) :
    densEncode bs bs[k] = k + 1 := by
  induction bs generalizing k with
  | nil => simp at h
  | cons d ds ih =>
    obtain ⟨hd, hds⟩ := List.pairwise_cons.mp hs
    rw [densEncode_cons]
    cases k with
    | zero =>
      simp only [List.getElem_cons_zero, Rat.lt_irrefl, if_false]
      cases ds with
      | nil => rfl
      | cons e es =>
        rw [densEncode_cons]
        have : d < e := hd e (by simp)
        simp [this]
    | succ k =>
      have hk : k < ds.length := by simpa using h
      simp only [List.getElem_cons_succ]
      have : d < ds[k] := hd _ (List.getElem_mem hk)
      have : ¬ ds[k] < d := Rat.not_lt.mpr (Rat.le_of_lt this)
      simp only [this, if_false]
      rw [ih hds k hk]


/-- legal configuration: strictly increasing, positive bin boundaries -/
def DensCfg (bs : List Rat) : Prop := bs.Pairwise (· < ·) ∧ ∀ b, b ∈ bs → 0 < b

end NSV.C09
