import NoteSeqVerif.Proofs.C17
/-! C17 — helper lemmas: extended slices `l[i:j:k]` and NotePerformance (core Lean only). -/
namespace NSV.C17
open Gen
variable {α : Type}

/-! ### extended slices -/

theorem filterMap_all_some {β : Type} (f : β → Option α) (xs : List β) (h : ∀ x ∈ xs, (f x).isSome = true) :
    (xs.filterMap f).length = xs.length ∧ ∀ m : Nat, (xs.filterMap f)[m]? = (xs[m]?).bind f := by
  induction xs with
  | nil => simp
  | cons x xs ih =>
    obtain ⟨a, ha⟩ := Option.isSome_iff_exists.1 (h x (by simp))
    obtain ⟨l, g⟩ := ih (fun y hy => h y (by simp [hy]))
    refine ⟨by simp [ha, l], ?_⟩
    intro m
    cases m with
    | zero => simp [ha]
    | succ m => simp [ha, g]

theorem clampStep_bounds (len : Nat) (neg : Bool) (i : Int) :
    (neg = false → 0 ≤ clampStep len neg i ∧ clampStep len neg i ≤ len) ∧
    (neg = true → -1 ≤ clampStep len neg i ∧ clampStep len neg i ≤ (len : Int) - 1) := by
  unfold clampStep
  cases neg <;> simp <;> split <;> split <;> omega

theorem stepLo_bounds (len : Nat) (k : Int) (i : Option Int) :
    (0 < k → 0 ≤ stepLo len k i ∧ stepLo len k i ≤ len) ∧
    (k < 0 → -1 ≤ stepLo len k i ∧ stepLo len k i ≤ (len : Int) - 1) := by
  cases i with
  | none => simp only [stepLo]; constructor <;> intro h <;> split <;> omega
  | some i =>
    simp only [stepLo]
    constructor <;> intro h
    · have : decide (k < 0) = false := by simp; omega
      rw [this]; exact (clampStep_bounds len false i).1 rfl
    · have : decide (k < 0) = true := by simp; omega
      rw [this]; exact (clampStep_bounds len true i).2 rfl

theorem stepHi_bounds (len : Nat) (k : Int) (j : Option Int) :
    (0 < k → 0 ≤ stepHi len k j ∧ stepHi len k j ≤ len) ∧
    (k < 0 → -1 ≤ stepHi len k j ∧ stepHi len k j ≤ (len : Int) - 1) := by
  cases j with
  | none => simp only [stepHi]; constructor <;> intro h <;> split <;> omega
  | some j =>
    simp only [stepHi]
    constructor <;> intro h
    · have : decide (k < 0) = false := by simp; omega
      rw [this]; exact (clampStep_bounds len false j).1 rfl
    · have : decide (k < 0) = true := by simp; omega
      rw [this]; exact (clampStep_bounds len true j).2 rfl

/-- every index `lo + m·k`, `m < len(range(lo, hi, k))`, lies strictly between the two bounds -/
theorem step_idx_between (lo hi k : Int) (m : Nat) (hk : k ≠ 0) (hm : m < stepCount lo hi k) :
    (0 < k → lo ≤ lo + m * k ∧ lo + m * k < hi) ∧ (k < 0 → hi < lo + m * k ∧ lo + m * k ≤ lo) := by
  unfold stepCount at hm
  by_cases hneg : k < 0
  · simp only [hneg, if_true] at hm
    split at hm
    · rename_i hlt
      refine ⟨fun h => by omega, fun _ => ?_⟩
      have hd : 0 < -k := by omega
      have hq : 0 ≤ (lo - hi - 1) / (-k) := Int.ediv_nonneg (by omega) (by omega)
      have hmq : (m : Int) ≤ (lo - hi - 1) / (-k) := by omega
      have h1 : (m : Int) * (-k) ≤ (lo - hi - 1) / (-k) * (-k) := Int.mul_le_mul_of_nonneg_right hmq (by omega)
      have h2 : (lo - hi - 1) / (-k) * (-k) ≤ lo - hi - 1 := Int.ediv_mul_le _ (by omega)
      have h3 : (m : Int) * (-k) = -((m : Int) * k) := Int.mul_neg _ _
      have h4 : 0 ≤ (m : Int) * (-k) := Int.mul_nonneg (by omega) (by omega)
      generalize (m : Int) * k = x at *
      omega
    · omega
  · simp only [hneg, if_false] at hm
    split at hm
    · rename_i hlt
      refine ⟨fun _ => ?_, fun h => by omega⟩
      have hd : 0 < k := by omega
      have hq : 0 ≤ (hi - lo - 1) / k := Int.ediv_nonneg (by omega) (by omega)
      have hmq : (m : Int) ≤ (hi - lo - 1) / k := by omega
      have h1 : (m : Int) * k ≤ (hi - lo - 1) / k * k := Int.mul_le_mul_of_nonneg_right hmq (by omega)
      have h2 : (hi - lo - 1) / k * k ≤ hi - lo - 1 := Int.ediv_mul_le _ (by omega)
      have h4 : 0 ≤ (m : Int) * k := Int.mul_nonneg (by omega) (by omega)
      generalize (m : Int) * k = x at *
      omega
    · omega

theorem step_idx_in_range (len : Nat) (i j : Option Int) (k : Int) (m : Nat) (hk : k ≠ 0)
    (hm : m < stepCount (stepLo len k i) (stepHi len k j) k) :
    0 ≤ stepLo len k i + m * k ∧ stepLo len k i + m * k < len := by
  obtain ⟨p, n⟩ := step_idx_between _ _ k m hk hm
  obtain ⟨lp, ln⟩ := stepLo_bounds len k i
  obtain ⟨hp, hn⟩ := stepHi_bounds len k j
  by_cases hneg : k < 0
  · have := n hneg; have := ln hneg; have := hn hneg; omega
  · have hpos : 0 < k := by omega
    have := p hpos; have := lp hpos; have := hp hpos; omega

/-- `l[i:j:k]` has `len(range(lo, hi, k))` elements and element `m` is `l[lo + m·k]`, an index
inside the list -/
theorem pySliceStep_spec (l : List α) (i j : Option Int) (k : Int) (hk : k ≠ 0) :
    (pySliceStep l i j k).length = stepCount (stepLo l.length k i) (stepHi l.length k j) k ∧
    ∀ m, m < stepCount (stepLo l.length k i) (stepHi l.length k j) k →
      0 ≤ stepLo l.length k i + m * k ∧ stepLo l.length k i + m * k < l.length ∧
      (pySliceStep l i j k)[m]? = l[(stepLo l.length k i + (m : Int) * k).toNat]? := by
  have hall : ∀ x ∈ List.range (stepCount (stepLo l.length k i) (stepHi l.length k j) k),
      (l[(stepLo l.length k i + (x : Int) * k).toNat]?).isSome = true := by
    intro x hx
    obtain ⟨a, b⟩ := step_idx_in_range l.length i j k x hk (List.mem_range.1 hx)
    have : (stepLo l.length k i + (x : Int) * k).toNat < l.length := by omega
    simp [this]
  obtain ⟨hl, hg⟩ := filterMap_all_some (fun (m : Nat) => l[(stepLo l.length k i + (m : Int) * k).toNat]?) _ hall
  refine ⟨by simpa [pySliceStep] using hl, ?_⟩
  intro m hm
  obtain ⟨a, b⟩ := step_idx_in_range l.length i j k m hk hm
  refine ⟨a, b, ?_⟩
  have := hg m
  simp only [pySliceStep]
  rw [this]
  simp [hm]

theorem pySliceStep_mem (l : List α) (i j : Option Int) (k : Int) : ∀ e ∈ pySliceStep l i j k, e ∈ l := by
  intro e he
  simp only [pySliceStep, List.mem_filterMap] at he
  obtain ⟨m, _, hm⟩ := he
  exact List.mem_of_getElem? hm

/-- stride 1 is the plain slice: same start offset, same elements -/
theorem stepLo_one (len : Nat) (i : Option Int) : stepLo len 1 i = (sliceLo len i : Int) := by
  cases i with
  | none => simp [stepLo, sliceLo]
  | some i =>
    simp only [stepLo, sliceLo, clampStep, clampIdx]
    have : decide ((1 : Int) < 0) = false := by decide
    rw [this]
    simp only [Bool.false_eq_true, if_false]
    split <;> split <;> omega

theorem stepHi_one (len : Nat) (j : Option Int) : stepHi len 1 j = (sliceHi len j : Int) := by
  cases j with
  | none => simp [stepHi, sliceHi]
  | some j =>
    simp only [stepHi, sliceHi, clampStep, clampIdx]
    have : decide ((1 : Int) < 0) = false := by decide
    rw [this]
    simp only [Bool.false_eq_true, if_false]
    split <;> split <;> omega

theorem stepCount_one (lo hi : Nat) : stepCount (lo : Int) (hi : Int) 1 = hi - lo := by
  unfold stepCount
  have : ¬ ((1 : Int) < 0) := by decide
  simp only [this, if_false, Int.ediv_one]
  split <;> omega

theorem pySliceStep_one (l : List α) (i j : Option Int) : pySliceStep l i j 1 = pySlice l i j := by
  obtain ⟨hl, hg⟩ := pySliceStep_spec l i j 1 (by decide)
  rw [stepLo_one, stepHi_one, stepCount_one] at hl hg
  apply List.ext_getElem?
  intro m
  by_cases hm : m < sliceHi l.length j - sliceLo l.length i
  · obtain ⟨_, _, e⟩ := hg m hm
    rw [e, pySlice_getElem l i j m (by rw [pySlice_length]; exact hm)]
    congr 1
    omega
  · rw [List.getElem?_eq_none (by omega), List.getElem?_eq_none (by rw [pySlice_length]; omega)]

/-! ### NotePerformance -/

theorem nstepsFrom_length (st : Int) (evs : List NEvent) : (nstepsFrom st evs).length = evs.length := by
  induction evs generalizing st with
  | nil => rfl
  | cons e rest ih => simp [nstepsFrom, ih]

theorem nstepsFrom_getElem (st : Int) (evs : List NEvent) (k : Nat) (hk : k < evs.length) :
    (nstepsFrom st evs)[k]? = some (st + shiftSum (evs.take (k + 1))) := by
  induction evs generalizing st k with
  | nil => simp at hk
  | cons e rest ih =>
    cases k with
    | zero => simp [nstepsFrom, shiftSum]
    | succ k =>
      simp only [nstepsFrom, List.getElem?_cons_succ, List.take_succ_cons, shiftSum]
      rw [ih (st + e.shift) k (by simpa using hk)]
      congr 1
      omega

theorem nstepsFrom_mono (st : Int) (evs : List NEvent) (h : ∀ e ∈ evs, 0 ≤ e.shift) :
    (∀ x ∈ nstepsFrom st evs, st ≤ x) ∧ (nstepsFrom st evs).Pairwise (· ≤ ·) := by
  induction evs generalizing st with
  | nil => simp [nstepsFrom]
  | cons e rest ih =>
    have he : 0 ≤ e.shift := h e (by simp)
    obtain ⟨a, b⟩ := ih (st + e.shift) (fun x hx => h x (by simp [hx]))
    constructor
    · intro x hx
      simp only [nstepsFrom, List.mem_cons] at hx
      rcases hx with hx | hx
      · omega
      · have := a x hx; omega
    · simp only [nstepsFrom, List.pairwise_cons]
      exact ⟨fun x hx => a x hx, b⟩

end NSV.C17
