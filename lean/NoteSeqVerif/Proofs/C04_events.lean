import NoteSeqVerif.Model.C04Full
import NoteSeqVerif.Proofs.C04_tiled
import NoteSeqVerif.Props.C13
import NoteSeqVerif.Props.C02
/-! C04 — every container of `expand_section_groups` on a tune whose section annotations are those of a
block list (as every parsed ABC tune's are): the section table, the lookup in playing order and the
concatenation, assembled from the closed forms of properties C02 (`extract_subsequence`) and C13
(`concatenate_sequences`), which are imported read-only.  Exact arithmetic (`R = id`). -/
namespace NSV.C04
open NSV

/-- start and end of section `i` -/
def spanOf (bs : List Block) (T : Rat) (i : Int) : Rat × Rat :=
  match bs[i.toNat]? with
  | some (s, _) => (s, endOf (bs.drop (i.toNat + 1)) T)
  | none => (0, 0)

/-- one play of a section: its id, start, end, and the time it is played at -/
structure Copy where
  id : Int
  s : Rat
  e : Rat
  off : Rat

/-- the plays in order, each after the summed lengths of the ones before it -/
def copiesOf (bs : List Block) (T : Rat) : Rat → List Int → List Copy
  | _, [] => []
  | off, i :: r =>
    ⟨i, (spanOf bs T i).1, (spanOf bs T i).2, off⟩ :: copiesOf bs T (off + ((spanOf bs T i).2 - (spanOf bs T i).1)) r

/-- section `sid` cut out of the tune: `extract_subsequence` (C02's closed form) with the section groups
removed and the single annotation `(0, sid)` -/
def pieceOf (t : Tune) (sid : Int) (a b : Rat) : C13.MSeq :=
  { ns := { C02.specPiece id C02.Gen.PRESERVE (toNS t) (a, b) with sgroups := [], sectionAnns := [⟨0, sid⟩] } }

/-! ## the section table -/

def spansFrom : List Block → Int → Rat → List (Int × Rat × Rat)
  | [], _, _ => []
  | (s, _) :: rest, i0, T => (i0, s, endOf rest T) :: spansFrom rest (i0 + 1) T

theorem sectionSpans_blocks (bs : List Block) (i0 : Int) (T : Rat) :
    C13.sectionSpans T ((blockSections bs i0).map (fun p => (⟨p.1, p.2⟩ : SectionAnn))) = spansFrom bs i0 T := by
  induction bs generalizing i0 with
  | nil => rfl
  | cons b rest ih =>
    obtain ⟨s, ns⟩ := b
    cases rest with
    | nil => rfl
    | cons b2 r =>
      obtain ⟨s2, ns2⟩ := b2
      have := ih (i0 + 1)
      simp only [blockSections, List.map_cons, C13.sectionSpans, spansFrom, endOf] at this ⊢
      rw [this]

theorem mem_spansFrom {bs : List Block} {i0 : Int} {T : Rat} {x : Int × Rat × Rat} (h : x ∈ spansFrom bs i0 T) :
    ∃ (k : Nat) (s : Rat) (ns : List Note), bs[k]? = some (s, ns) ∧ x = (i0 + k, s, endOf (bs.drop (k + 1)) T) := by
  induction bs generalizing i0 with
  | nil => simp [spansFrom] at h
  | cons b rest ih =>
    obtain ⟨s, ns⟩ := b
    simp only [spansFrom, List.mem_cons] at h
    rcases h with rfl | h
    · exact ⟨0, s, ns, rfl, by simp⟩
    · obtain ⟨k, s', ns', hk, rfl⟩ := ih h
      refine ⟨k + 1, s', ns', by simpa using hk, ?_⟩
      simp only [List.drop_succ_cons, Prod.mk.injEq, and_true]
      push_cast; ring

theorem spansFrom_mem {bs : List Block} {i0 : Int} {T : Rat} {k : Nat} {s : Rat} {ns : List Note}
    (hk : bs[k]? = some (s, ns)) : (i0 + k, s, endOf (bs.drop (k + 1)) T) ∈ spansFrom bs i0 T := by
  induction bs generalizing i0 k with
  | nil => simp at hk
  | cons b rest ih =>
    obtain ⟨s0, ns0⟩ := b
    cases k with
    | zero =>
      simp only [List.getElem?_cons_zero, Option.some.injEq, Prod.mk.injEq] at hk
      obtain ⟨rfl, rfl⟩ := hk
      simp [spansFrom]
    | succ k =>
      simp only [List.getElem?_cons_succ] at hk
      have := ih (i0 := i0 + 1) hk
      simp only [spansFrom, List.mem_cons, List.drop_succ_cons]
      right
      have e : i0 + ((k + 1 : Nat) : Int) = i0 + 1 + (k : Int) := by push_cast; ring
      rw [e]; exact this

theorem toNS_unquantized (t : Tune) : (toNS t).isQuantized = false := by
  simp [NoteSeq.isQuantized, toNS]

/-- the dict-building loop of `expand_section_groups`: every section is cut out with
`extract_subsequence`, which succeeds on spans that start before their end and before the total time -/
theorem buildSections_spans (t : Tune) (spans : List (Int × Rat × Rat)) (acc : List (Int × C13.MSeq × Rat))
    (h : ∀ sp ∈ spans, sp.2.1 ≤ sp.2.2 ∧ sp.2.1 < t.totalTime) :
    C13.buildSections id (C13.extractC02 id) { ns := toNS t } spans acc =
      .ok ((spans.map (fun sp => (sp.1, pieceOf t sp.1 sp.2.1 sp.2.2, sp.2.2 - sp.2.1))).reverse ++ acc) := by
  induction spans generalizing acc with
  | nil => simp [C13.buildSections]
  | cons sp rest ih =>
    obtain ⟨sid, a, b⟩ := sp
    obtain ⟨h1, h2⟩ := h (sid, a, b) (by simp)
    simp only at h1 h2
    unfold C13.buildSections
    have hex : C13.extractC02 id (toNS t) a b = .ok (C02.specPiece id C02.Gen.PRESERVE (toNS t) (a, b)) := by
      unfold C13.extractC02
      rw [C02.extract_subsequence_spec, toNS_unquantized]
      have : ¬ (a > b ∨ (toNS t).totalTime ≤ a) := by
        rintro (hc | hc)
        · exact absurd h1 (not_le.mpr hc)
        · exact absurd h2 (not_lt.mpr hc)
      simp [this]
    simp only [hex]
    rw [ih _ (fun sp hsp => h sp (by simp [hsp]))]
    simp [pieceOf]

theorem find?_of_unique {α : Type} (L : List (Int × α)) (x : Int × α) (hx : x ∈ L)
    (hu : ∀ y ∈ L, y.1 = x.1 → y = x) : L.find? (fun e => e.1 == x.1) = some x := by
  induction L with
  | nil => simp at hx
  | cons y r ih =>
    by_cases hy : y.1 = x.1
    · have := hu y (by simp) hy
      subst this
      simp
    · have hxr : x ∈ r := by
        rcases List.mem_cons.mp hx with h | h
        · subst h; exact absurd rfl hy
        · exact h
      rw [List.find?_cons_of_neg (by simpa using hy)]
      exact ih hxr (fun z hz => hu z (by simp [hz]))

theorem lookupSections_ok (tab : List (Int × C13.MSeq × Rat)) (ids : List Int) (f : Int → C13.MSeq × Rat)
    (h : ∀ i ∈ ids, tab.find? (fun e => e.1 == i) = some (i, f i)) : C13.lookupSections tab ids = .ok (ids.map f) := by
  induction ids with
  | nil => rfl
  | cons i r ih =>
    unfold C13.lookupSections
    rw [h i (by simp), ih (fun j hj => h j (by simp [hj]))]
    rfl

/-- the table entry of section `i` -/
def entryOf (t : Tune) (bs : List Block) (T : Rat) (i : Int) : C13.MSeq × Rat :=
  (pieceOf t i (spanOf bs T i).1 (spanOf bs T i).2, (spanOf bs T i).2 - (spanOf bs T i).1)

theorem find_entry (t : Tune) (bs : List Block) (T : Rat) (i : Int) (h0 : 0 ≤ i) (h1 : i < bs.length) :
    ((spansFrom bs 0 T).map (fun sp => (sp.1, pieceOf t sp.1 sp.2.1 sp.2.2, sp.2.2 - sp.2.1))).reverse.find?
      (fun e => e.1 == i) = some (i, entryOf t bs T i) := by
  have hk : i.toNat < bs.length := by omega
  obtain ⟨⟨s, ns⟩, hb⟩ : ∃ b, bs[i.toNat]? = some b := ⟨bs[i.toNat], by simp [hk]⟩
  have hi : (0 : Int) + (i.toNat : Int) = i := by omega
  have hmem := spansFrom_mem (i0 := 0) (T := T) hb
  rw [hi] at hmem
  have hsp : spanOf bs T i = (s, endOf (bs.drop (i.toNat + 1)) T) := by simp [spanOf, hb]
  have := find?_of_unique
    ((spansFrom bs 0 T).map (fun sp => (sp.1, pieceOf t sp.1 sp.2.1 sp.2.2, sp.2.2 - sp.2.1))).reverse
    (i, entryOf t bs T i) (by
      rw [List.mem_reverse, List.mem_map]
      exact ⟨_, hmem, by simp [entryOf, hsp]⟩) (by
      intro y hy hyi
      rw [List.mem_reverse, List.mem_map] at hy
      obtain ⟨sp, hsp', rfl⟩ := hy
      obtain ⟨k, s', ns', hk', rfl⟩ := mem_spansFrom hsp'
      simp only [zero_add] at hyi ⊢
      have hki : k = i.toNat := by omega
      subst hki
      rw [hb] at hk'
      simp only [Option.some.injEq, Prod.mk.injEq] at hk'
      obtain ⟨rfl, rfl⟩ := hk'
      simp [entryOf, hsp, hyi])
  exact this

/-! ## the concatenation -/

theorem pieceTotal_le (s : NoteSeq) (a b : Rat) (hab : a ≤ b) :
    C02.pieceTotal (C02.specNotes id s a b) ≤ b - a := by
  obtain ⟨_, _, h3⟩ := C02.pieceTotal_spec (C02.specNotes id s a b)
  rcases h3 with h3 | ⟨n, hn, h3⟩
  · rw [h3]; linarith
  · rw [← h3]
    simp only [C02.specNotes, List.mem_map] at hn
    obtain ⟨m, _, rfl⟩ := hn
    simp only [C02.clipR, id]
    have := min_le_right m.end_ b
    linarith

/-- the pieces as they are merged: section by section in playing order, each at its offset -/
theorem catPieces_copies (t : Tune) (bs : List Block) (T : Rat) (play : List Int) (off : Rat) :
    (((play.map (fun i => (entryOf t bs T i).1)).zip (play.map (fun i => (entryOf t bs T i).2))).zip
        (C13.prefixSums off (play.map (fun i => (entryOf t bs T i).2)))).map (fun po => C13.placed id po.2 po.1.1) =
      (copiesOf bs T off play).map (fun c => C13.placed id c.off (pieceOf t c.id c.s c.e)) := by
  induction play generalizing off with
  | nil => rfl
  | cons i r ih =>
    simp only [List.map_cons, C13.prefixSums, List.zip_cons_cons, copiesOf]
    rw [ih]
    rfl

theorem copiesOf_off_nonneg (bs : List Block) (T : Rat) (play : List Int) (off : Rat) (h0 : 0 ≤ off)
    (hd : ∀ i ∈ play, (spanOf bs T i).1 ≤ (spanOf bs T i).2) : ∀ c ∈ copiesOf bs T off play, 0 ≤ c.off := by
  induction play generalizing off with
  | nil => simp [copiesOf]
  | cons i r ih =>
    intro c hc
    simp only [copiesOf, List.mem_cons] at hc
    rcases hc with rfl | hc
    · exact h0
    · have := hd i (by simp)
      exact ih _ (by linarith) (fun j hj => hd j (by simp [hj])) c hc

/-- a piece placed at a non-negative offset: every container moved by the offset -/
theorem placed_containers (o : Rat) (h0 : 0 ≤ o) (m : C13.MSeq) :
    (C13.placed id o m).ns.tempos = m.ns.tempos.map (fun e => { e with time := e.time + o }) ∧
    (C13.placed id o m).ns.timeSigs = m.ns.timeSigs.map (fun e => { e with time := e.time + o }) ∧
    (C13.placed id o m).ns.keySigs = m.ns.keySigs.map (fun e => { e with time := e.time + o }) ∧
    (C13.placed id o m).ns.texts = m.ns.texts.map (fun e => { e with time := e.time + o }) ∧
    (C13.placed id o m).ns.sectionAnns = m.ns.sectionAnns.map (fun e => { e with time := e.time + o }) ∧
    (C13.placed id o m).ns.notes = m.ns.notes.map (fun n => { n with start := n.start + o, end_ := n.end_ + o }) := by
  unfold C13.placed
  by_cases hp : 0 < o
  · simp [hp, C13.shiftSeq]
  · have : o = 0 := by linarith
    subst this
    simp

/-- `concatenate_sequences` on the table entries in playing order: it succeeds, and what it merges -/
theorem concat_entries (t : Tune) (bs : List Block) (T : Rat) (play : List Int) (hne : play ≠ [])
    (hd : ∀ i ∈ play, (spanOf bs T i).1 ≤ (spanOf bs T i).2) :
    ∃ r, C13.concatR id (fun _ => "-") ((play.map (entryOf t bs T)).map (·.1)) ((play.map (entryOf t bs T)).map (·.2)) = .ok r ∧
      C13.catPieces id ((play.map (entryOf t bs T)).map (·.1)) ((play.map (entryOf t bs T)).map (·.2)) =
        (copiesOf bs T 0 play).map (fun c => C13.placed id c.off (pieceOf t c.id c.s c.e)) := by
  have hseqs : (play.map (entryOf t bs T)).map (·.1) = play.map (fun i => (entryOf t bs T i).1) := by
    simp [List.map_map, Function.comp_def]
  have hdurs : (play.map (entryOf t bs T)).map (·.2) = play.map (fun i => (entryOf t bs T i).2) := by
    simp [List.map_map, Function.comp_def]
  rw [hseqs, hdurs]
  have hdne : play.map (fun i => (entryOf t bs T i).2) ≠ [] := by simpa using hne
  have hlen : (play.map (fun i => (entryOf t bs T i).1)).length = (play.map (fun i => (entryOf t bs T i).2)).length := by simp
  have hemp : (!(play.map (fun i => (entryOf t bs T i).2)).isEmpty) = true := by
    cases hp : play.map (fun i => (entryOf t bs T i).2) with
    | nil => exact absurd hp hdne
    | cons a l => rfl
  have hpieces : C13.catPieces id (play.map (fun i => (entryOf t bs T i).1)) (play.map (fun i => (entryOf t bs T i).2)) =
      (copiesOf bs T 0 play).map (fun c => C13.placed id c.off (pieceOf t c.id c.s c.e)) := by
    unfold C13.catPieces C13.placedList
    rw [C13.concat_offsets_exact_durations _ _ hdne hlen]
    unfold C13.catPairs
    rw [hemp]
    simp only [↓reduceIte]
    exact catPieces_copies t bs T play 0
  refine ⟨_, (C13.concat_ok_iff id _ _ _ _).mpr ⟨fun _ => hlen, ?_, rfl⟩, hpieces⟩
  intro po hpo
  rintro (⟨_, hlt⟩ | ⟨_, hq⟩)
  · -- the explicit duration covers the piece
    have hmem : po.1 ∈ C13.catPairs (play.map (fun i => (entryOf t bs T i).1)) (play.map (fun i => (entryOf t bs T i).2)) :=
      (List.of_mem_zip hpo).1
    unfold C13.catPairs at hmem
    rw [hemp] at hmem
    simp only [↓reduceIte] at hmem
    rw [List.zip_map'] at hmem
    simp only [List.mem_map] at hmem
    obtain ⟨i, hi, hpo1⟩ := hmem
    rw [← hpo1] at hlt
    simp only [entryOf, pieceOf, C02.specPiece] at hlt
    have := pieceTotal_le (toNS t) _ _ (hd i hi)
    linarith
  · -- no piece is quantized
    have hmem : po.1 ∈ C13.catPairs (play.map (fun i => (entryOf t bs T i).1)) (play.map (fun i => (entryOf t bs T i).2)) :=
      (List.of_mem_zip hpo).1
    unfold C13.catPairs at hmem
    rw [hemp] at hmem
    simp only [↓reduceIte] at hmem
    have := (List.of_mem_zip hmem).1
    simp only [List.mem_map] at this
    obtain ⟨i, _, hi⟩ := this
    rw [← hi] at hq
    simp [entryOf, pieceOf, C02.specPiece, C02.emptied, NoteSeq.isQuantized, toNS] at hq


/-- a section of well-formed blocks starts before it ends, and ends within the total time -/
theorem span_valid {bs : List Block} {T : Rat} (hwf : BlocksWF bs T) (k : Nat) (s : Rat) (ns : List Note)
    (hb : bs[k]? = some (s, ns)) : s < endOf (bs.drop (k + 1)) T ∧ endOf (bs.drop (k + 1)) T ≤ T := by
  have hk : k < bs.length := by
    by_contra hc
    rw [List.getElem?_eq_none (by omega)] at hb
    simp at hb
  have hsplit : bs = bs.take k ++ (s, ns) :: bs.drop (k + 1) := by
    have h2 : bs[k] = (s, ns) := by
      have := List.getElem?_eq_getElem hk
      rw [this] at hb; simpa using hb
    conv_lhs => rw [← List.take_append_drop k bs]
    rw [List.drop_eq_getElem_cons hk, h2]
  have hsuf : BlocksWF ((s, ns) :: bs.drop (k + 1)) T := by
    apply BlocksWF_suffix (pre := bs.take k)
    rw [← hsplit]; exact hwf
  exact ⟨hsuf.1, endOf_le_T hsuf.2.2⟩

theorem spanOf_valid {bs : List Block} {T : Rat} (hwf : BlocksWF bs T) (i : Int) (h0 : 0 ≤ i) (h1 : i < bs.length) :
    (spanOf bs T i).1 < (spanOf bs T i).2 ∧ (spanOf bs T i).2 ≤ T := by
  have hk : i.toNat < bs.length := by omega
  obtain ⟨⟨s, ns⟩, hb⟩ : ∃ b, bs[i.toNat]? = some b := ⟨bs[i.toNat], by simp [hk]⟩
  simp only [spanOf, hb]
  exact span_valid hwf _ s ns hb


/-! ## the two models of the expansion give the same notes -/

/-- C02's closed form of the notes of a section, on notes that are partitioned by the sections -/
theorem specNotes_block (t : Tune) (pre ns post : List Note) (s e : Rat) (hnotes : t.notes = pre ++ (ns ++ post))
    (hsorted : t.notes.Pairwise (fun a b => a.start ≤ b.start)) (hpre : ∀ n ∈ pre, n.start < s)
    (hns : ∀ n ∈ ns, s ≤ n.start ∧ n.start < e ∧ n.end_ ≤ e) (hpost : ∀ n ∈ post, e ≤ n.start) :
    C02.specNotes id (toNS t) s e = (shiftBlock s ns).map toNote := by
  unfold C02.specNotes
  have hn : (toNS t).notes = t.notes.map toNote := rfl
  rw [hn, C02.sortByRat_of_pairwise _ _ (by
    rw [List.pairwise_map]
    exact hsorted.imp (fun h => h)), hnotes]
  simp only [List.map_append, List.filter_append]
  have h1 : (pre.map toNote).filter (fun n => decide (s ≤ n.start) && decide (n.start < e)) = [] := by
    rw [List.filter_eq_nil_iff]
    intro x hx
    obtain ⟨n, hn', rfl⟩ := List.mem_map.mp hx
    have := hpre n hn'
    simp only [toNote, Bool.and_eq_true]
    rintro ⟨a, _⟩
    have a' : s ≤ n.start := of_decide_eq_true a
    linarith
  have h2 : (ns.map toNote).filter (fun n => decide (s ≤ n.start) && decide (n.start < e)) = ns.map toNote := by
    rw [List.filter_eq_self]
    intro x hx
    obtain ⟨n, hn', rfl⟩ := List.mem_map.mp hx
    obtain ⟨a, b, _⟩ := hns n hn'
    simp [toNote, a, b]
  have h3 : (post.map toNote).filter (fun n => decide (s ≤ n.start) && decide (n.start < e)) = [] := by
    rw [List.filter_eq_nil_iff]
    intro x hx
    obtain ⟨n, hn', rfl⟩ := List.mem_map.mp hx
    have := hpost n hn'
    simp only [toNote, Bool.and_eq_true]
    rintro ⟨_, b⟩
    have b' : n.start < e := of_decide_eq_true b
    linarith
  rw [h1, h2, h3]
  simp only [List.map_nil, List.nil_append, List.append_nil, shiftBlock, List.map_map]
  apply List.map_congr_left
  intro n hn'
  obtain ⟨_, _, c⟩ := hns n hn'
  simp [Function.comp, C02.clipR, toNote, min_eq_left c]

/-- … for section `i` of well-formed blocks -/
theorem specNotes_blocks (bs : List Block) (T : Rat) (groups : List (Int × Nat)) (base : Tune)
    (hwf : BlocksWF bs T) (hsorted : (blockNotes bs).Pairwise (fun a b => a.start ≤ b.start))
    (i : Int) (h0 : 0 ≤ i) (h1 : i < bs.length) :
    C02.specNotes id (toNS (tuneOfBlocks bs T groups base)) (spanOf bs T i).1 (spanOf bs T i).2 =
      (blockEntry bs T i).1.map toNote ∧
    (blockEntry bs T i).2.2 = (spanOf bs T i).2 - (spanOf bs T i).1 := by
  have hk : i.toNat < bs.length := by omega
  obtain ⟨⟨s, ns⟩, hb⟩ : ∃ b, bs[i.toNat]? = some b := ⟨bs[i.toNat], by simp [hk]⟩
  have hsplit : bs = bs.take i.toNat ++ (s, ns) :: bs.drop (i.toNat + 1) := by
    have h2 : bs[i.toNat] = (s, ns) := by
      have := List.getElem?_eq_getElem hk
      rw [this] at hb; simpa using hb
    conv_lhs => rw [← List.take_append_drop i.toNat bs]
    rw [List.drop_eq_getElem_cons hk, h2]
  have hwf' : BlocksWF (bs.take i.toNat ++ (s, ns) :: bs.drop (i.toNat + 1)) T := by rw [← hsplit]; exact hwf
  have hsuf : BlocksWF ((s, ns) :: bs.drop (i.toNat + 1)) T := BlocksWF_suffix hwf'
  simp only [spanOf, blockEntry, hb, and_true]
  apply specNotes_block (tuneOfBlocks bs T groups base) (blockNotes (bs.take i.toNat)) ns
    (blockNotes (bs.drop (i.toNat + 1))) s _ ?_ hsorted (earlier_notes_lt hwf') hsuf.2.1
    (later_notes_ge hsuf.2.2)
  show blockNotes bs = _
  conv_lhs => rw [hsplit]
  simp [blockNotes]

theorem placed_copies (bs : List Block) (T : Rat) (groups : List (Int × Nat)) (base : Tune)
    (hwf : BlocksWF bs T) (hsorted : (blockNotes bs).Pairwise (fun a b => a.start ≤ b.start))
    (play : List Int) (hplay : ∀ i ∈ play, 0 ≤ i ∧ i < bs.length) (off : Rat) :
    (placed off (play.map (blockEntry bs T))).map toNote =
      (copiesOf bs T off play).flatMap (fun c =>
        (C02.specNotes id (toNS (tuneOfBlocks bs T groups base)) c.s c.e).map
          (fun n => { n with start := n.start + c.off, end_ := n.end_ + c.off })) := by
  induction play generalizing off with
  | nil => rfl
  | cons i r ih =>
    obtain ⟨h0, h1⟩ := hplay i (by simp)
    obtain ⟨e1, e2⟩ := specNotes_blocks bs T groups base hwf hsorted i h0 h1
    simp only [List.map_cons, copiesOf, List.flatMap_cons]
    rw [← ih (fun j hj => hplay j (by simp [hj])), e1]
    cases hbe : blockEntry bs T i with
    | mk ns' rest =>
      obtain ⟨tot, d⟩ := rest
      rw [hbe] at e2
      simp only at e2
      simp only [placed, List.map_append, List.map_map, e2]
      congr 1

end NSV.C04
