import Mathlib.Algebra.Order.Floor.Ring
import Mathlib.Data.Rat.Floor
import Mathlib.Tactic.Linarith
import Mathlib.Tactic.Ring
import Mathlib.Tactic.NormNum
import Mathlib.Tactic.FieldSimp
import NoteSeqVerif.Common.Float
/-! Round-half-even `ℚ → ℤ` (`rnE`) as a mathematical function, its order/error facts, and the
bridge `rneDiv n d = rnE (n / d)` to the executable `NSV.rneDiv`. -/
namespace NSV

/-- nearest integer, ties to even -/
def rnE (x : ℚ) : ℤ :=
  if 2 * Int.fract x < 1 then ⌊x⌋
  else if 1 < 2 * Int.fract x then ⌊x⌋ + 1
  else if ⌊x⌋ % 2 = 0 then ⌊x⌋ else ⌊x⌋ + 1

theorem rnE_floor_le (x : ℚ) : ⌊x⌋ ≤ rnE x := by
  unfold rnE; split_ifs <;> omega

theorem rnE_le_floor_succ (x : ℚ) : rnE x ≤ ⌊x⌋ + 1 := by
  unfold rnE; split_ifs <;> omega

theorem rnE_intCast (n : ℤ) : rnE (n : ℚ) = n := by
  unfold rnE; simp

theorem rnE_natCast (n : ℕ) : rnE (n : ℚ) = n := by
  have := rnE_intCast (n : ℤ); simpa using this

theorem rnE_zero : rnE 0 = 0 := by
  have := rnE_intCast 0; simpa using this

/-- the rounding error is at most one half -/
theorem rnE_abs_sub_le (x : ℚ) : |(rnE x : ℚ) - x| ≤ 1 / 2 := by
  have h0 := Int.fract_nonneg x
  have h1 := Int.fract_lt_one x
  have hx : x = ⌊x⌋ + Int.fract x := (Int.floor_add_fract x).symm
  rw [abs_le]
  unfold rnE
  split_ifs with a b c
  · constructor <;> linarith
  · push_cast; constructor <;> linarith
  · constructor <;> linarith
  · push_cast; constructor <;> linarith

theorem rnE_mono {a b : ℚ} (h : a ≤ b) : rnE a ≤ rnE b := by
  have hf : ⌊a⌋ ≤ ⌊b⌋ := Int.floor_mono h
  rcases hf.lt_or_eq with hlt | heq
  · have := rnE_le_floor_succ a
    have := rnE_floor_le b
    omega
  · have hfr : Int.fract a ≤ Int.fract b := by
      have ha : a = ⌊a⌋ + Int.fract a := (Int.floor_add_fract a).symm
      have hb : b = ⌊b⌋ + Int.fract b := (Int.floor_add_fract b).symm
      have : (⌊a⌋ : ℚ) = ⌊b⌋ := by rw [heq]
      linarith
    unfold rnE
    rw [heq]
    split_ifs <;> first | omega | linarith

/-- bridge: the executable `rneDiv` is `rnE` of the quotient -/
theorem rneDiv_eq (n d : ℕ) (hd : 0 < d) : ((rneDiv n d : ℕ) : ℤ) = rnE ((n : ℚ) / d) := by
  have hdq : (0 : ℚ) < d := by exact_mod_cast hd
  have hfl : ⌊(n : ℚ) / d⌋ = ((n / d : ℕ) : ℤ) := by
    rw [Rat.floor_natCast_div_natCast]; simp
  have hfr : Int.fract ((n : ℚ) / d) = ((n % d : ℕ) : ℚ) / d :=
    Int.fract_div_natCast_eq_div_natCast_mod
  have c1 : (2 * Int.fract ((n : ℚ) / d) < 1) ↔ 2 * (n % d) < d := by
    rw [hfr, ← mul_div_assoc, div_lt_one hdq]
    exact_mod_cast Iff.rfl
  have c2 : (1 < 2 * Int.fract ((n : ℚ) / d)) ↔ d < 2 * (n % d) := by
    rw [hfr, ← mul_div_assoc, one_lt_div hdq]
    exact_mod_cast Iff.rfl
  unfold rneDiv rnE
  simp only [c1, c2, hfl]
  split_ifs <;> first | rfl | omega

end NSV
