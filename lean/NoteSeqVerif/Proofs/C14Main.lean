import NoteSeqVerif.Proofs.C14Bridge
/-! C14 — assembly: the model's result on a well-formed sequence without same-pitch overlaps is
the specification's, with the facts about `total_time` that the corollaries need. -/
set_option linter.unusedSimpArgs false
set_option linter.unusedVariables false
namespace NSV.C14
open Gen

theorem heldEnd_drum (ctl : Int) (s : NoteSeq) (nt : Note) (h : nt.isDrum = true) :
    heldEnd ctl s nt = nt.end_ := by
  unfold heldEnd; rw [if_pos (Or.inl h)]

theorem heldEnd_noPedal (ctl : Int) (s : NoteSeq) (nt : Note)
    (h : ¬ pedalDown ctl s.ccs nt.instrument nt.end_) : heldEnd ctl s nt = nt.end_ := by
  unfold heldEnd; rw [if_pos (Or.inr h)]

theorem heldEnd_ge (ctl : Int) (s : NoteSeq) (hw : WellFormed s) (ho : NoSamePitchOverlap s)
    (nt : Note) (hnt : nt ∈ s.notes) : nt.end_ ≤ heldEnd ctl s nt := by
  cases hd : nt.isDrum
  · obtain ⟨k, rfl⟩ := exists_notesOf s hnt
    exact e0_le_H (hspec_of_spec ctl s hw ho k hd)
      ((mem_sorted ctl _ _ _).mpr (Or.inl ⟨k, hd, Or.inr rfl⟩))
  · rw [heldEnd_drum ctl s nt hd]; exact Rat.le_refl

theorem core_spec (ctl : Int) (s : NoteSeq) (hw : WellFormed s) (ho : NoSamePitchOverlap s) :
    ∃ T, applyCore ctl (notesOf s) s.ccs s.totalTime = .ok (specNotes ctl s, T) ∧
      s.totalTime ≤ T ∧
      (T = s.totalTime ∨ ∃ nt ∈ s.notes, nt.isDrum = false ∧
        pedalDown ctl s.ccs nt.instrument nt.end_ ∧ T = heldEnd ctl s nt) ∧
      (∀ nt ∈ s.notes, heldEnd ctl s nt ≤ T ∨ heldEnd ctl s nt = nt.end_ ∨
        ∃ m ∈ s.notes, m.isDrum = false ∧ m.start = heldEnd ctl s nt) := by
  have hpw := sorted_pairwise ctl (notesOf s) s.ccs
  have hndE := sorted_onIds_nodup ctl (notesOf s) s.ccs
  obtain ⟨stF, hrun, htime, hsim⟩ := sim_run (T0 := s.totalTime) (distinctStarts_of s ho)
    (sortedEvents ctl (notesOf s) s.ccs) (sorted_ok ctl (notesOf s) s.ccs) hndE (sim_init _)
  have htime' : stF.time = lastTimeOf 0 (sortedEvents ctl (notesOf s) s.ccs) := htime
  -- per-note result of layer 2
  have hfin : ∀ j, (notesOf s j).isDrum = false → _ := fun j hj =>
    abs_final (notes := notesOf s) (j := j)
      { ok := sorted_ok ctl (notesOf s) s.ccs
        on_mem := (mem_sorted ctl _ _ _).mpr (Or.inl ⟨j, hj, Or.inl rfl⟩)
        off_mem := (mem_sorted ctl _ _ _).mpr (Or.inl ⟨j, hj, Or.inr rfl⟩)
        nondrum := hj
        wf := idx_wf s hw j hj
        noov := fun k hkj hkd hki hkp => by
          have := idx_noov s ho j k (fun e => hkj e.symm) hj hkd hki.symm hkp.symm
          exact ⟨fun e => this.1 e.symm, this.2⟩ }
      (hspec_of_spec ctl s hw ho j hj) hpw hndE
  generalize hE : sortedEvents ctl (notesOf s) s.ccs = E at *
  -- the close-out
  obtain ⟨c1, c2, c3, c4⟩ := foldl_closeNote (stF.active.flatMap (·.2)) stF
  have hids : ∀ j, j ∈ stF.active.flatMap (·.2) ↔
      ((notesOf s j).isDrum = false ∧ (E.foldl (astep (notesOf s) j) (abs0 (notesOf s) j)).act = true) := by
    intro j
    rw [List.mem_flatMap]
    constructor
    · rintro ⟨⟨k, l⟩, he, hjl⟩
      have hd := dget_of_mem stF.active k l [] hsim.keys he
      have hm : j ∈ dget stF.active k [] := by rw [hd]; exact hjl
      have hjk := hsim.act_mem k j hm
      refine ⟨hjk.1, (hsim.act_iff j hjk.1).mpr ?_⟩
      rw [hjk.2]; exact hm
    · rintro ⟨hj, hact⟩
      have hm := (hsim.act_iff j hj).mp hact
      have hne : dget stF.active (notesOf s j).instrument [] ≠ [] := by
        intro e; rw [e] at hm; cases hm
      exact ⟨_, mem_of_dget_ne _ _ _ hne, hm⟩
  refine ⟨(closeOut stF).total, ?_, ?_, ?_, ?_⟩
  · -- the notes
    simp only [applyCore, hE, hrun]
    congr 2
    show (closeOut stF).seq.map (closeOut stF).store = specNotes ctl s
    unfold closeOut
    rw [c3, hsim.seq_eq, specNotes]
    conv => rhs; rw [← finRange_map_get s.notes]
    rw [List.map_map]
    apply List.map_congr_left
    intro j _
    show _ = setEnd (notesOf s j) (heldEnd ctl s (notesOf s j))
    rw [c1 j]
    cases hd : (notesOf s j).isDrum
    · have hf := (hfin j hd).1
      have hst : stF.store j = setEnd (notesOf s j) (E.foldl (astep (notesOf s) j) (abs0 (notesOf s) j)).e := by
        rw [← hsim.e_eq j hd]; exact hsim.store_eq j
      cases hact : (E.foldl (astep (notesOf s) j) (abs0 (notesOf s) j)).act
      · have : j ∉ stF.active.flatMap (·.2) := by rw [hids j, hact]; simp
        rw [if_neg this, hst]
        rw [hact] at hf
        simp only [Bool.false_eq_true, if_false] at hf
        rw [hf]
      · have : j ∈ stF.active.flatMap (·.2) := by rw [hids j, hact]; simp [hd]
        rw [if_pos this, hst, setEnd_setEnd]
        rw [hact] at hf
        simp only [if_true] at hf
        rw [htime', hf]
    · have : j ∉ stF.active.flatMap (·.2) := by rw [hids j, hd]; simp
      rw [if_neg this, hsim.drum_eq j hd, heldEnd_drum ctl s _ hd, setEnd_self]
  · -- total_time is only raised
    show s.totalTime ≤ (closeOut stF).total
    unfold closeOut; rw [c2]
    have := hsim.tot_ge
    split
    · exact this
    · split <;> grind
  · -- where a raised total_time comes from
    show (closeOut stF).total = s.totalTime ∨ _
    unfold closeOut; rw [c2]
    have hold : stF.total = s.totalTime ∨ ∃ nt ∈ s.notes, nt.isDrum = false ∧
        pedalDown ctl s.ccs nt.instrument nt.end_ ∧ stF.total = heldEnd ctl s nt := by
      rcases hsim.tot_wit with h | ⟨j, hj, htag, he⟩
      · exact Or.inl h
      · right
        have hf := hfin j hj
        have hact : (E.foldl (astep (notesOf s) j) (abs0 (notesOf s) j)).act = false :=
          hsim.closed j (by rw [htag]; decide)
        refine ⟨notesOf s j, notesOf_mem s j, hj, hf.2.1 (Or.inr htag), ?_⟩
        have := hf.1
        rw [hact] at this
        simp only [Bool.false_eq_true, if_false] at this
        rw [← he, this]
    by_cases hids0 : stF.active.flatMap (·.2) = []
    · rw [if_pos hids0]; exact hold
    · rw [if_neg hids0]
      by_cases hlt : stF.total < stF.time
      · rw [if_pos hlt]
        right
        obtain ⟨j, hjm⟩ := List.exists_mem_of_ne_nil _ hids0
        obtain ⟨hj, hact⟩ := (hids j).mp hjm
        have hf := hfin j hj
        refine ⟨notesOf s j, notesOf_mem s j, hj, hf.2.1 (Or.inl hact), ?_⟩
        have := hf.1
        rw [hact] at this
        simp only [if_true] at this
        rw [htime', this]
      · rw [if_neg hlt]; exact hold
  · -- every new end is covered by total_time, unchanged, or the start of another note
    intro nt hnt
    obtain ⟨k, rfl⟩ := exists_notesOf s hnt
    have hTge : stF.total ≤ (closeOut stF).total := by
      unfold closeOut; rw [c2]
      split
      · exact Rat.le_refl
      · split <;> grind
    cases hd : (notesOf s k).isDrum
    · have hf := hfin k hd
      cases hact : (E.foldl (astep (notesOf s) k) (abs0 (notesOf s) k)).act
      · have h1 := hf.1
        rw [hact] at h1
        simp only [Bool.false_eq_true, if_false] at h1
        cases htag : (E.foldl (astep (notesOf s) k) (abs0 (notesOf s) k)).tag
        · exact Or.inr (Or.inl (hf.2.2.2 hact htag))
        · left
          rw [← h1]
          exact Rat.le_trans (hsim.tot_cov k hd htag) hTge
        · right; right
          obtain ⟨y, hy, hst, hyt⟩ := hf.2.2.1 htag
          rw [← hE] at hy
          obtain ⟨k', _, hkd, _, _, rfl⟩ := (mem_strike ctl s k y).mp ⟨hy, hst⟩
          exact ⟨notesOf s k', notesOf_mem s k', hkd, hyt⟩
      · left
        have h1 := hf.1
        rw [hact] at h1
        simp only [if_true] at h1
        have hm : k ∈ stF.active.flatMap (·.2) := (hids k).mpr ⟨hd, hact⟩
        have hne : stF.active.flatMap (·.2) ≠ [] := by intro e; rw [e] at hm; cases hm
        rw [← h1, ← htime']
        unfold closeOut; rw [c2, if_neg hne]
        split <;> grind
    · exact Or.inr (Or.inl (heldEnd_drum ctl s _ hd))

end NSV.C14
