import NoteSeqVerif.Proofs.C06PLayout
/-! C06 (performance half) — elementary facts about `stream` and `emit` (core Lean only): which event kinds `emit`
writes, where the steps / pitches / bins of a stream come from. -/
namespace NSV.C06P
open NSV NSV.C07

theorem shiftLoop_shifts (ms : Int) : ∀ (fuel : Nat) (d : Int), ∀ x ∈ shiftLoop ms fuel d, ∃ v, x = PEvent.timeShift v := by
  intro fuel
  induction fuel with
  | zero => intro d x hx; simp only [shiftLoop, List.mem_singleton] at hx; exact ⟨d, hx⟩
  | succ f ih =>
    intro d x hx
    unfold shiftLoop at hx
    by_cases hd : d > ms
    · simp only [hd, ↓reduceIte, List.mem_cons] at hx
      rcases hx with rfl | hx
      · exact ⟨ms, rfl⟩
      · exact ih _ x hx
    · simp only [hd, ↓reduceIte, List.mem_singleton] at hx
      exact ⟨d, hx⟩

/-- `emit` never writes a DURATION event, and no VELOCITY event when bins are not used -/
theorem emit_kinds (nb ms : Int) : ∀ (es : List SEv) (cur bin : Int), ∀ x ∈ emit nb ms cur bin es,
    (∀ v, x ≠ PEvent.duration v) ∧ (nb = 0 → ∀ b, x ≠ PEvent.velocity b) := by
  intro es
  induction es with
  | nil => intro cur bin x hx; simp [emit] at hx
  | cons e es ih =>
    intro cur bin x hx
    have hshift : ∀ y ∈ (if e.step > cur then shiftLoop ms (e.step - cur).toNat (e.step - cur) else []),
        (∀ v, y ≠ PEvent.duration v) ∧ (nb = 0 → ∀ b, y ≠ PEvent.velocity b) := by
      intro y hy
      by_cases hgt : e.step > cur
      · simp only [hgt, ↓reduceIte] at hy
        obtain ⟨v, rfl⟩ := shiftLoop_shifts ms _ _ y hy
        exact ⟨(fun _ h => nomatch h), (fun _ _ h => nomatch h)⟩
      · simp only [hgt, ↓reduceIte] at hy; simp at hy
    simp only [emit] at hx
    cases hoff : e.isOff with
    | true =>
      simp only [hoff, ↓reduceIte, List.mem_append, List.mem_cons] at hx
      rcases hx with hx | rfl | hx
      · exact hshift x hx
      · exact ⟨(fun _ h => nomatch h), (fun _ _ h => nomatch h)⟩
      · exact ih _ _ x hx
    | false =>
      by_cases hc : nb ≠ 0 ∧ e.bin ≠ bin
      · simp only [hoff, Bool.false_eq_true, ↓reduceIte, hc, ne_eq, not_false_eq_true, and_self, List.mem_append,
          List.mem_cons] at hx
        rcases hx with hx | rfl | rfl | hx
        · exact hshift x hx
        · exact ⟨(fun _ h => nomatch h), (fun h0 => absurd h0 hc.1)⟩
        · exact ⟨(fun _ h => nomatch h), (fun _ _ h => nomatch h)⟩
        · exact ih _ _ x hx
      · simp only [hoff, Bool.false_eq_true, ↓reduceIte, hc, List.mem_append, List.mem_cons] at hx
        rcases hx with hx | rfl | hx
        · exact hshift x hx
        · exact ⟨(fun _ h => nomatch h), (fun _ _ h => nomatch h)⟩
        · exact ih _ _ x hx

/-- steps of a stream lie between the start and the start plus all shifts (valid shifts are `≥ 0`) -/
theorem stream_steps : ∀ (evs : List PEvent) (cur bin : Int), (∀ x ∈ evs, x.valid = true) →
    0 ≤ shiftSum evs ∧ ∀ e ∈ stream cur bin evs, cur ≤ e.step ∧ e.step ≤ cur + shiftSum evs := by
  intro evs
  induction evs with
  | nil => intro cur bin _; simp [stream, shiftSum]
  | cons x r ih =>
    intro cur bin hv
    have hv' : ∀ y ∈ r, y.valid = true := fun y hy => hv y (List.mem_cons_of_mem _ hy)
    cases x with
    | timeShift v =>
      have h0 : 0 ≤ v := by
        have := hv _ (List.mem_cons_self ..)
        simpa [PEvent.valid] using this
      obtain ⟨i1, i2⟩ := ih (cur + v) bin hv'
      simp only [stream, shiftSum]
      refine ⟨by omega, fun e he => ?_⟩
      have := i2 e he
      omega
    | velocity b =>
      obtain ⟨i1, i2⟩ := ih cur b hv'
      simp only [stream, shiftSum]; exact ⟨i1, i2⟩
    | duration d =>
      obtain ⟨i1, i2⟩ := ih cur bin hv'
      simp only [stream, shiftSum]; exact ⟨i1, i2⟩
    | noteOn p =>
      obtain ⟨i1, i2⟩ := ih cur bin hv'
      simp only [stream, shiftSum, List.mem_cons]
      refine ⟨i1, fun e he => ?_⟩
      rcases he with rfl | he
      · simp only; omega
      · exact i2 e he
    | noteOff p =>
      obtain ⟨i1, i2⟩ := ih cur bin hv'
      simp only [stream, shiftSum, List.mem_cons]
      refine ⟨i1, fun e he => ?_⟩
      rcases he with rfl | he
      · simp only; omega
      · exact i2 e he

/-- the stream's steps never go back -/
theorem stream_sorted : ∀ (evs : List PEvent) (cur bin : Int), (∀ x ∈ evs, x.valid = true) →
    (stream cur bin evs).Pairwise (fun a b => a.step ≤ b.step) := by
  intro evs
  induction evs with
  | nil => intro cur bin _; simp [stream]
  | cons x r ih =>
    intro cur bin hv
    have hv' : ∀ y ∈ r, y.valid = true := fun y hy => hv y (List.mem_cons_of_mem _ hy)
    cases x with
    | timeShift v => simp only [stream]; exact ih _ _ hv'
    | velocity b => simp only [stream]; exact ih _ _ hv'
    | duration d => simp only [stream]; exact ih _ _ hv'
    | noteOn p =>
      simp only [stream, List.pairwise_cons]
      exact ⟨fun e he => ((stream_steps r cur bin hv').2 e he).1, ih _ _ hv'⟩
    | noteOff p =>
      simp only [stream, List.pairwise_cons]
      exact ⟨fun e he => ((stream_steps r cur bin hv').2 e he).1, ih _ _ hv'⟩

/-- pitches pass the validator; NOTE_OFFs carry bin 0; a NOTE_ON's bin is the initial one or a validated one -/
theorem stream_values : ∀ (evs : List PEvent) (cur bin : Int), (∀ x ∈ evs, x.valid = true) →
    ∀ e ∈ stream cur bin evs, 0 ≤ e.pitch ∧ e.pitch ≤ 127 ∧ (e.isOff = true → e.bin = 0) ∧
      (e.isOff = false → e.bin = bin ∨ (1 ≤ e.bin ∧ e.bin ≤ 127)) := by
  intro evs
  induction evs with
  | nil => intro cur bin _ e he; simp [stream] at he
  | cons x r ih =>
    intro cur bin hv e he
    have hv' : ∀ y ∈ r, y.valid = true := fun y hy => hv y (List.mem_cons_of_mem _ hy)
    have hx := hv _ (List.mem_cons_self ..)
    cases x with
    | timeShift v => simp only [stream] at he; exact ih _ _ hv' e he
    | duration d => simp only [stream] at he; exact ih _ _ hv' e he
    | velocity b =>
      simp only [stream] at he
      obtain ⟨a, b', c, d⟩ := ih cur b hv' e he
      refine ⟨a, b', c, fun h => ?_⟩
      simp [PEvent.valid, C07.Gen.MAX_NUM_VELOCITY_BINS] at hx
      rcases d h with d | d
      · right; rw [d]; exact ⟨hx.1, of_decide_eq_true hx.2⟩
      · right; exact d
    | noteOn p =>
      simp [PEvent.valid, C07.Gen.MIN_MIDI_PITCH, C07.Gen.MAX_MIDI_PITCH] at hx
      simp only [stream, List.mem_cons] at he
      rcases he with rfl | he
      · exact ⟨of_decide_eq_true hx.1, of_decide_eq_true hx.2, fun h => by simp at h, fun _ => Or.inl rfl⟩
      · exact ih _ _ hv' e he
    | noteOff p =>
      simp [PEvent.valid, C07.Gen.MIN_MIDI_PITCH, C07.Gen.MAX_MIDI_PITCH] at hx
      simp only [stream, List.mem_cons] at he
      rcases he with rfl | he
      · exact ⟨of_decide_eq_true hx.1, of_decide_eq_true hx.2, fun _ => rfl, fun h => by simp at h⟩
      · exact ih _ _ hv' e he

/-- without VELOCITY events every NOTE_ON carries the initial bin -/
theorem stream_bins_const : ∀ (evs : List PEvent) (cur bin : Int), (∀ x ∈ evs, ∀ b, x ≠ PEvent.velocity b) →
    ∀ e ∈ stream cur bin evs, e.isOff = false → e.bin = bin := by
  intro evs
  induction evs with
  | nil => intro cur bin _ e he; simp [stream] at he
  | cons x r ih =>
    intro cur bin hv e he
    have hv' : ∀ y ∈ r, ∀ b, y ≠ PEvent.velocity b := fun y hy => hv y (List.mem_cons_of_mem _ hy)
    cases x with
    | timeShift v => simp only [stream] at he; exact ih _ _ hv' e he
    | duration d => simp only [stream] at he; exact ih _ _ hv' e he
    | velocity b => exact absurd rfl (hv _ (List.mem_cons_self ..) b)
    | noteOn p =>
      simp only [stream, List.mem_cons] at he
      rcases he with rfl | he
      · intro _; rfl
      · exact ih _ _ hv' e he
    | noteOff p =>
      simp only [stream, List.mem_cons] at he
      rcases he with rfl | he
      · intro h; simp at h
      · exact ih _ _ hv' e he

/-- everything `emit` writes passes the `PerformanceEvent` validator -/
theorem emit_valid (nb ms : Int) (hms : 1 ≤ ms) : ∀ (es : List SEv) (cur bin : Int),
    (∀ e ∈ es, 0 ≤ e.pitch ∧ e.pitch ≤ 127 ∧ (e.isOff = false → nb ≠ 0 → 1 ≤ e.bin ∧ e.bin ≤ 127)) →
    ∀ x ∈ emit nb ms cur bin es, x.valid = true := by
  intro es
  induction es with
  | nil => intro cur bin _ x hx; simp [emit] at hx
  | cons e es ih =>
    intro cur bin hes x hx
    obtain ⟨p0, p1, hb⟩ := hes e (List.mem_cons_self ..)
    have hes' := fun y hy => hes y (List.mem_cons_of_mem _ hy)
    have hshift : ∀ y ∈ (if e.step > cur then shiftLoop ms (e.step - cur).toNat (e.step - cur) else []),
        y.valid = true := by
      intro y hy
      by_cases hgt : e.step > cur
      · simp only [hgt, ↓reduceIte] at hy
        obtain ⟨v, rfl, h1, _⟩ := (shiftLoop_spec ms hms (e.step - cur).toNat (e.step - cur) (by omega) (by omega)).1 y hy
        simp [PEvent.valid]; omega
      · simp only [hgt, ↓reduceIte] at hy; simp at hy
    have vOn : (PEvent.noteOn e.pitch).valid = true := by
      simp [PEvent.valid, C07.Gen.MIN_MIDI_PITCH, C07.Gen.MAX_MIDI_PITCH, p0, p1]
    have vOff : (PEvent.noteOff e.pitch).valid = true := by
      simp [PEvent.valid, C07.Gen.MIN_MIDI_PITCH, C07.Gen.MAX_MIDI_PITCH, p0, p1]
    simp only [emit] at hx
    cases hoff : e.isOff with
    | true =>
      simp only [hoff, ↓reduceIte, List.mem_append, List.mem_cons] at hx
      rcases hx with hx | rfl | hx
      · exact hshift x hx
      · exact vOff
      · exact ih _ _ hes' x hx
    | false =>
      by_cases hc : nb ≠ 0 ∧ e.bin ≠ bin
      · simp only [hoff, Bool.false_eq_true, ↓reduceIte, hc, ne_eq, not_false_eq_true, and_self, List.mem_append,
          List.mem_cons] at hx
        rcases hx with hx | rfl | rfl | hx
        · exact hshift x hx
        · obtain ⟨b0, b1⟩ := hb hoff hc.1
          simp [PEvent.valid, C07.Gen.MAX_NUM_VELOCITY_BINS, b0, b1]
        · exact vOn
        · exact ih _ _ hes' x hx
      · simp only [hoff, Bool.false_eq_true, ↓reduceIte, hc, List.mem_append, List.mem_cons] at hx
        rcases hx with hx | rfl | hx
        · exact hshift x hx
        · exact vOn
        · exact ih _ _ hes' x hx

end NSV.C06P
